(* The batch path of Learner1D.tell_many establishes the structural and the
   values invariant from scratch.  (C01, C11, C13) *)
From AV Require Import Base.Prelude Base.SortLemmas Model.L1D
  Proofs.L1DOrder Proofs.L1DMaps Proofs.L1DWindow Proofs.L1DStruct Proofs.L1DLoss Proofs.L1DValues.
From Coq Require Import Sorted.
Set Implicit Arguments.

Section Batch.
  Variable num : Type.
  Variables (add sub mul div : num -> num -> num).
  Variables (ltb eqb : num -> num -> bool).
  Variables (zero one inf neg_inf : num).
  Variables (is_nan is_inf : num -> bool).
  Variable round12 : num -> num.
  Variable of_nat : nat -> num.
  Variable L : list (option num) -> list (option (Y num)) -> num.
  Variable P : params num.
  Hypothesis OL : OrdLaws ltb eqb.

  Notation st := (st num).
  Notation ival := (num * num)%type.
  Notation insert := (@insert num ltb eqb).
  Notation remove := (@remove num eqb).
  Notation dget := (@dget num eqb).
  Notation dset := (@dset num ltb eqb).
  Notation lget := (@lget num eqb).
  Notation lset := (@lset num ltb eqb).
  Notation merge_sorted := (@merge_sorted num ltb eqb).
  Notation get_loss := (@get_loss num sub div ltb eqb zero one L P).
  Notation update_interp := (@update_interp num sub mul div ltb eqb zero one L P).
  Notation batch_combined := (@batch_combined num ltb eqb inf).
  Notation tell_many_batch := (@tell_many_batch num sub mul div ltb eqb zero one inf is_nan L P).
  Notation lt := (lt ltb).
  Notation sorted := (sorted ltb).
  Notation adj := (adj ltb).
  Notation ksorted := (@ksorted num ltb eqb).
  Notation keys := (@keys num).
  Notation SInv := (@SInv num ltb eqb).

  (* ---------------- the data dictionary stays sorted ---------------- *)
  Definition dkeys (d : list (num * Y num)) : list num := map fst d.

  Lemma dset_keys_In x (y : Y num) d z : In z (dkeys (dset x y d)) <-> z = x \/ In z (dkeys d).
  Proof.
    unfold dkeys. induction d as [|[k w] d IH]; cbn [L1D.dset map fst In]; [intuition|].
    destruct (ltb x k) eqn:E1; [cbn [map fst In]; intuition|].
    destruct (eqb x k) eqn:E2.
    - apply (eqb_eq OL) in E2. subst k. cbn [map fst In]. intuition.
    - cbn [map fst In]. rewrite IH. intuition.
  Qed.

  Lemma dset_sorted x (y : Y num) d : sorted (dkeys d) -> sorted (dkeys (dset x y d)).
  Proof.
    unfold dkeys. induction d as [|[k w] d IH]; cbn [L1D.dset map fst]; intros Hs.
    - apply sorted_cons; [constructor|intros z []].
    - destruct (ltb x k) eqn:E1.
      + cbn [map fst]. apply sorted_cons; [exact Hs|]. intros z [<-|Hz]; [exact E1|].
        eapply (lt_trans OL); [exact E1|]. eapply sorted_head_lt; eauto.
      + pose proof (sorted_inv Hs) as [Hs' Hf]. rewrite Forall_forall in Hf.
        destruct (eqb x k) eqn:E2.
        * apply (eqb_eq OL) in E2. subst k. cbn [map fst]. apply sorted_cons; [exact Hs'|exact Hf].
        * cbn [map fst]. apply sorted_cons; [apply IH; exact Hs'|].
          intros z Hz. apply (dset_keys_In x y d z) in Hz as [->|Hz]; [|apply Hf; exact Hz].
          destruct (trichotomy OL k x) as [H|[H|H]]; [exact H| |].
          -- subst. rewrite (eqb_refl OL) in E2. discriminate.
          -- unfold L1DOrder.lt in H. congruence.
  Qed.

  Lemma dget_keys d x : dget x d <> None <-> In x (dkeys d).
  Proof.
    unfold dkeys. induction d as [|[k w] d IH]; cbn [L1D.dget map fst In]; [tauto|].
    destruct (eqb x k) eqn:E.
    - apply (eqb_eq OL) in E. subst. split; [auto|discriminate].
    - apply (eqb_neq OL) in E. rewrite IH. intuition.
  Qed.

  Lemma fold_dset_In (xys : list (num * Y num)) : forall d z,
    In z (dkeys (fold_left (fun d xy => dset (fst xy) (snd xy) d) xys d)) <->
    In z (map fst xys) \/ In z (dkeys d).
  Proof.
    induction xys as [|[x y] xys IH]; intros d z; cbn [fold_left map fst In]; [tauto|].
    rewrite IH, dset_keys_In. intuition.
  Qed.

  Lemma fold_dset_sorted (xys : list (num * Y num)) : forall d,
    sorted (dkeys d) -> sorted (dkeys (fold_left (fun d xy => dset (fst xy) (snd xy) d) xys d)).
  Proof.
    induction xys as [|[x y] xys IH]; intros d Hs; cbn [fold_left]; [exact Hs|].
    apply IH, dset_sorted, Hs.
  Qed.

  Lemma fold_dset_get_other (xys : list (num * Y num)) : forall d z, ~ In z (map fst xys) ->
    dget z (fold_left (fun d xy => dset (fst xy) (snd xy) d) xys d) = dget z d.
  Proof.
    induction xys as [|[x y] xys IH]; intros d z Hn; cbn [fold_left]; [reflexivity|].
    cbn [map fst In] in Hn. rewrite IH by tauto. cbn [fst snd]. rewrite (dget_dset OL).
    destruct (eqb z x) eqn:E; [|reflexivity]. apply (eqb_eq OL) in E. subst. tauto.
  Qed.

  Lemma fold_remove_In (xys : list (num * Y num)) : forall p z, sorted p ->
    (In z (fold_left (fun p xy => remove (fst xy) p) xys p) <-> In z p /\ ~ In z (map fst xys)) /\
    sorted (fold_left (fun p xy => remove (fst xy) p) xys p).
  Proof.
    induction xys as [|[x y] xys IH]; intros p z Hs; cbn [fold_left map fst In]; [tauto|].
    destruct (IH (remove x p) z (remove_sorted add sub mul div zero is_nan is_inf round12 OL x Hs)) as [H1 H2].
    split; [|exact H2]. rewrite H1, (remove_In add sub mul div zero is_nan is_inf round12 OL x z Hs). intuition.
  Qed.

  (* ---------------- merging two sorted lists ---------------- *)
  Lemma merge_spec fuel : forall a b, length a + length b <= fuel -> sorted a -> sorted b ->
    (forall z, In z (merge_sorted fuel a b) <-> In z a \/ In z b) /\ sorted (merge_sorted fuel a b).
  Proof.
    induction fuel as [|f IH]; intros a b Hl Ha Hb.
    - destruct a, b; cbn [length] in Hl; try lia. cbn. split; [tauto|constructor].
    - cbn [L1D.merge_sorted]. destruct a as [|x a']; [split; [cbn; tauto|exact Hb]|].
      destruct b as [|y b']; [split; [cbn; tauto|exact Ha]|].
      cbn [length] in Hl.
      pose proof (sorted_inv Ha) as [Ha' Hfa]. pose proof (sorted_inv Hb) as [Hb' Hfb].
      rewrite Forall_forall in Hfa, Hfb.
      destruct (ltb x y) eqn:E1.
      + destruct (IH a' (y :: b')) as [H1 H2]; [cbn [length]; lia|exact Ha'|exact Hb|].
        split; [intros z; cbn [In]; rewrite H1; cbn [In]; tauto|].
        apply sorted_cons; [exact H2|]. intros z Hz. apply H1 in Hz as [Hz|[<-|Hz]]; [auto|exact E1|].
        eapply (lt_trans OL); [exact E1|auto].
      + destruct (eqb x y) eqn:E2.
        * apply (eqb_eq OL) in E2. subst y.
          destruct (IH a' b') as [H1 H2]; [lia|exact Ha'|exact Hb'|].
          split; [intros z; cbn [In]; rewrite H1; tauto|].
          apply sorted_cons; [exact H2|]. intros z Hz. apply H1 in Hz as [Hz|Hz]; auto.
        * assert (Hyx : lt y x).
          { destruct (trichotomy OL y x) as [H|[H|H]]; [exact H| |].
            - subst. rewrite (eqb_refl OL) in E2. discriminate.
            - unfold L1DOrder.lt in H. congruence. }
          destruct (IH (x :: a') b') as [H1 H2]; [cbn [length]; lia|exact Ha|exact Hb'|].
          split; [intros z; cbn [In]; rewrite H1; cbn [In]; tauto|].
          apply sorted_cons; [exact H2|]. intros z Hz. apply H1 in Hz as [[<-|Hz]|Hz]; [exact Hyx| |auto].
          eapply (lt_trans OL); [exact Hyx|auto].
  Qed.

  (* ---------------- building a table by repeated lset ---------------- *)
  Lemma fold_lset_spec (f : ival -> num) ivs : forall m, ksorted m ->
    let r := fold_left (fun m iv => lset iv (f iv) m) ivs m in
    ksorted r /\
    (forall k, In k (keys r) <-> In k ivs \/ In k (keys m)) /\
    (forall k, In k ivs -> lget k r = Some (f k)) /\
    (forall k, ~ In k ivs -> lget k r = lget k m).
  Proof.
    induction ivs as [|iv ivs IH]; intros m Hs; cbn [fold_left]; cbn zeta.
    - split; [exact Hs|]. split; [intros k; cbn [In]; tauto|]. split; [intros k []|intros k _; reflexivity].
    - destruct (IH (lset iv (f iv) m) (lset_ksorted OL iv (f iv) Hs)) as [H1 [H2 [H3 H4]]]. cbn zeta in *.
      split; [exact H1|]. split; [|split].
      + intros k. rewrite H2, (keys_lset OL). cbn [In]. intuition.
      + intros k Hk. destruct (In_dec_ival OL k ivs) as [Hin|Hn]; [apply H3; exact Hin|].
        destruct Hk as [->|Hk]; [|contradiction].
        rewrite (H4 _ Hn), (lget_lset OL), (ival_eqb_refl OL). reflexivity.
      + intros k Hn. cbn [In] in Hn. rewrite H4 by tauto. rewrite (lget_lset OL).
        destruct (L1D.ival_eqb eqb k iv) eqn:E; [|reflexivity].
        apply (ival_eqb_eq OL) in E. subst. tauto.
  Qed.

  Lemma batch_combined_spec ivs (s : st) : forall lc ti, ksorted lc ->
    let r := fst (batch_combined ivs s lc ti) in
    ksorted r /\ (forall k, In k (keys r) <-> In k ivs \/ In k (keys lc)).
  Proof.
    induction ivs as [|iv ivs IH]; intros lc ti Hs; cbn [L1D.batch_combined]; cbn zeta.
    - cbn [fst]. split; [exact Hs|]. intros k. cbn [In]. tauto.
    - destruct (lget iv (los s)) as [v|].
      + destruct (IH (lset iv v lc) ti (lset_ksorted OL iv v Hs)) as [H1 H2]. cbn zeta in *.
        split; [exact H1|]. intros k. rewrite H2, (keys_lset OL). cbn [In]. intuition.
      + match goal with |- context [batch_combined ivs s ?lc' ?ti'] =>
          destruct (IH lc' ti' (lset_ksorted OL iv inf Hs)) as [H1 H2] end. cbn zeta in *.
        split; [exact H1|]. intros k. rewrite H2, (keys_lset OL). cbn [In]. intuition.
  Qed.

  Lemma batch_combined_spec' ivs (s : st) lc ti lc' ti' : batch_combined ivs s lc ti = (lc', ti') ->
    ksorted lc -> ksorted lc' /\ (forall k, In k (keys lc') <-> In k ivs \/ In k (keys lc)).
  Proof.
    intros E Hs. pose proof (@batch_combined_spec ivs s lc ti Hs) as H. cbn zeta in H.
    rewrite E in H. exact H.
  Qed.

  (* one conditional re-interpolation step keeps both invariants *)
  Notation VInv := (@VInv num sub mul div ltb eqb zero one L P).

  Lemma update_interp_key_sinv (s : st) iv : SInv s -> In iv (keys (los s)) -> SInv (update_interp s iv).
  Proof.
    intros HI Hk.
    destruct (fold_interp add sub mul div zero one is_nan is_inf round12 L P OL [iv] s)
      as [H1 [H2 [H3 [H4 [H5 [H6 [H7 H8]]]]]]]. cbn [fold_left] in *.
    destruct HI as [I1 I2 I3 I4 I5 I6 I7 I8 I9 I10].
    constructor; rewrite ?H1, ?H2, ?H3, ?H4; auto.
    - intros k. rewrite H5, <- I9. cbn [In]. split; [intros [[<-|[]]|H]; auto|tauto].
    - intros k. rewrite H6, <- I10. split; [|tauto].
      intros [H|[H _]]; [exact H|]. apply I10. apply (pairs_adj OL I2). exact H.
  Qed.

  Definition fresh_vals (s : st) : Prop :=
    forall k, In k (keys (los s)) -> lget k (los s) = Some (get_loss s (fst k) (snd k)).

  Lemma update_interp_key_fresh (s : st) iv : fresh_vals s -> fresh_vals (update_interp s iv).
  Proof.
    intros HF k Hk. destruct iv as [a b]. cbn [L1D.update_interp L1D.with_los los] in *.
    change (get_loss (L1D.with_los s _ _) (fst k) (snd k)) with (get_loss s (fst k) (snd k)).
    rewrite (lget_lset OL). apply (keys_lset OL) in Hk.
    destruct (L1D.ival_eqb eqb k (a, b)) eqn:E.
    - apply (ival_eqb_eq OL) in E. subst k. reflexivity.
    - apply HF. destruct Hk as [->|Hk]; [rewrite (ival_eqb_refl OL) in E; discriminate|exact Hk].
  Qed.

  Lemma cond_fold_inv ti : forall (s : st), SInv s -> fresh_vals s ->
    let r := fold_left (fun s iv => match lget iv (los s) with Some _ => update_interp s iv | None => s end) ti s in
    SInv r /\ fresh_vals r /\ bbx r = bbx s /\ sx r = sx s /\ sy r = sy s /\ osy r = osy s.
  Proof.
    induction ti as [|iv ti IH]; intros s HI HF; cbn [fold_left]; cbn zeta; [tauto|].
    destruct (lget iv (los s)) as [v|] eqn:E; [|apply IH; assumption].
    assert (Hk : In iv (keys (los s))) by (apply (In_keys_lget OL); congruence).
    destruct (IH (update_interp s iv) (@update_interp_key_sinv s iv HI Hk) (@update_interp_key_fresh s iv HF))
      as [H1 [H2 [H3 [H4 [H5 H6]]]]]. cbn zeta in *.
    rewrite H3, H4, H5, H6. destruct iv as [a b]. cbn. tauto.
  Qed.

  (* ---------------- the batch path ---------------- *)
  Definition DInv (s : st) : Prop := sorted (dkeys (data s)).

  Theorem batch_inv (s : st) (xys : list (num * Y num)) : SInv s -> DInv s ->
    let r := tell_many_batch s xys in
    SInv r /\ DInv r /\ fresh_vals r /\ osy r = sy r /\ sx r = sub (snd (bbx r)) (fst (bbx r)).
  Proof.
    intros HI HD. unfold L1D.tell_many_batch.
    set (data' := fold_left (fun d xy => dset (fst xy) (snd xy) d) xys (data s)).
    set (pend' := fold_left (fun p xy => remove (fst xy) p) xys (pend s)).
    set (points := map fst data').
    set (comb := merge_sorted (length pend' + length points) pend' points).
    set (bx := (L1D.pmin ltb (lo P) (match comb with x :: _ => x | [] => zero end), L1D.pmax ltb (hi P) (L1D.last_num comb zero))).
    match goal with |- context [L1D.mk data' pend' points comb [] [] bx ?by' ?sx' ?sy' ?sy' ?sx'] =>
      set (s1 := L1D.mk data' pend' points comb [] [] bx by' sx' sy' sy' sx') end.
    set (l := fold_left (fun m iv => lset iv (get_loss s1 (fst iv) (snd iv)) m) (L1D.pairs points) []).
    set (s2 := L1D.with_los s1 l []).
    destruct (batch_combined (L1D.pairs comb) s2 [] []) as [lc ti] eqn:Ebc.
    set (s3 := L1D.with_los s2 l lc).
    (* sortedness of the point lists *)
    assert (Hpts : sorted points) by (apply fold_dset_sorted; exact HD).
    destruct (@fold_remove_In xys (pend s) zero (s_pend HI)) as [_ Hps].
    assert (Hpend_spec : forall z, In z pend' <-> In z (pend s) /\ ~ In z (map fst xys)).
    { intros z. apply (@fold_remove_In xys (pend s) z (s_pend HI)). }
    destruct (@merge_spec (length pend' + length points) pend' points (le_n _) Hps Hpts) as [Hcomb_In Hcomb_s].
    fold comb in Hcomb_In, Hcomb_s.
    (* the tables *)
    assert (Hnil : ksorted []) by (unfold L1DMaps.ksorted, L1DMaps.keys; cbn; constructor).
    destruct (@fold_lset_spec (fun iv => get_loss s1 (fst iv) (snd iv)) (L1D.pairs points) [] Hnil)
      as [Hl1 [Hl2 [Hl3 _]]]. cbn zeta in Hl1, Hl2, Hl3. fold l in Hl1, Hl2, Hl3.
    destruct (@batch_combined_spec' _ _ _ _ _ _ Ebc Hnil) as [Hc1 Hc2].
    assert (HI3 : SInv s3).
    { constructor; cbn [s3 s2 s1 L1D.with_los nb nbc pend data los losc].
      - exact Hpts.
      - exact Hcomb_s.
      - exact Hps.
      - intros z. rewrite Hcomb_In. tauto.
      - intros z Hz. apply dget_keys. exact Hz.
      - intros z Hz. apply Hpend_spec in Hz as [Hz Hn].
        unfold data'. rewrite (fold_dset_get_other xys (data s) z Hn). exact (s_pd HI _ Hz).
      - exact Hl1.
      - exact Hc1.
      - intros iv. rewrite <- (pairs_adj OL Hpts). pose proof (Hl2 iv) as Hl2'. cbn [L1DMaps.keys map In] in Hl2'. split; [intros H; apply Hl2' in H; tauto|intros H; apply Hl2'; left; exact H].
      - intros iv. rewrite Hc2. cbn [L1DMaps.keys map In]. rewrite <- (pairs_adj OL Hcomb_s). tauto. }
    assert (HF3 : fresh_vals s3).
    { intros k Hk. change (los s3) with l in *. unfold l in Hk. apply Hl2 in Hk as [Hk|[]]. etransitivity; [exact (Hl3 k Hk)|reflexivity]. }
    destruct (cond_fold_inv ti HI3 HF3) as [R1 [R2 [R3 [R4 [R5 R6]]]]]. cbn zeta in *.
    split; [exact R1|]. split; [|split; [exact R2|]].
    - (* data of the result *)
      unfold DInv. 
      assert (Hd : forall ti' (s' : st), data (fold_left (fun s iv => match lget iv (los s) with Some _ => update_interp s iv | None => s end) ti' s') = data s').
      { induction ti' as [|[a b] ti' IHt]; intros s'; cbn [fold_left]; [reflexivity|].
        destruct (lget (a, b) (los s')); rewrite IHt; reflexivity. }
      rewrite Hd. exact Hpts.
    - rewrite R6, R5, R4, R3. cbn. split; reflexivity.
  Qed.

  (* ---------------- histories including batched tells ---------------- *)
  Notation tell := (@tell num sub mul div ltb eqb zero one inf neg_inf is_nan is_inf round12 L P).
  Notation tell_pending := (@tell_pending num sub mul div ltb eqb zero one inf L P).
  Notation step := (@step num add sub mul div ltb eqb zero one inf neg_inf is_nan is_inf round12 of_nat L P).
  Notation run := (@run num add sub mul div ltb eqb zero one inf neg_inf is_nan is_inf round12 of_nat L P).
  Notation init := (@init num sub zero inf neg_inf P).
  Notation in_bounds := (L1D.in_bounds ltb eqb P).

  Definition box_ok (r : st) : bool := eqb (fst (bbx r)) (lo P) && eqb (snd (bbx r)) (hi P).

  (* the quantifier domain of C01: told points inside the bounds; a batched
     tell only when the resulting point set (known + pending) spans exactly
     the domain (with the repaired batch path, /repo 0eef8ad: no known or pending point
     outside the bounds; before the repair: both end points known or pending) *)
  Definition legal_op (s : st) (o : op num) : bool :=
    match o with
    | Tell x _ => in_bounds x
    | TellPending _ => true
    | TellMany xys force =>
        if negb force && negb ((length (data s) <? 2 * length xys) && (2 <? length xys))
        then forallb (fun xy => in_bounds (fst xy)) xys
        else box_ok (tell_many_batch s xys)
    | RemoveUnfinished => true
    | Ask _ _ => true
    end.

  Fixpoint legal (s : st) (h : list (op num)) : bool :=
    match h with
    | [] => true
    | o :: h' => legal_op s o && legal (fst (step s o)) h'
    end.

  Definition Inv (s : st) : Prop := SInv s /\ DInv s /\ VInv s.

  Lemma data_tell (s : st) x (y : Y num) : SInv s -> in_bounds x = true -> dget x (data s) = None ->
    data (tell s x y) = dset x y (data s).
  Proof.
    intros HI Hb Hd. unfold L1D.tell. rewrite Hd, Hb. cbn [negb].
    set (s1 := L1D.mk (data _) (pend _) (insert x (nb _)) (insert x (nbc _)) (los _) (losc _)
                      (bbx _) (bby _) (sx _) (sy _) (osy _) (mgrx _)).
    cbn [data pend nb nbc los losc bbx bby sx sy osy mgrx] in s1.
    set (s2 := L1D.update_scale sub ltb zero inf neg_inf is_nan s1 x y).
    destruct (update_scale_frame add sub mul div ltb zero inf neg_inf is_nan is_inf round12 s1 x y)
      as [U1 [_ [_ [_ [U5 U6]]]]]. fold s2 in U1, U5, U6.
    assert (Hkl : ksorted (los s2)) by (rewrite U5; exact (s_los_sorted HI)).
    assert (Hkc : ksorted (losc s2)) by (rewrite U6; exact (s_losc_sorted HI)).
    destruct (@update_losses_true num add sub mul div ltb eqb zero one inf is_nan is_inf round12 L P OL s2 x Hkl Hkc)
      as [V1 _].
    set (s3 := L1D.update_losses sub mul div ltb eqb zero one inf L P s2 x true) in *.
    destruct (ltb (mul (factor P) (osy s3)) (sy s3)).
    - cbn [data]. destruct (sweep_facts add sub mul div zero one is_nan is_inf round12 L P OL s3) as [_ [_ [Hd' _]]].
      rewrite Hd', V1, U1. reflexivity.
    - rewrite V1, U1. reflexivity.
  Qed.

  Lemma nb_tell (s : st) x (y : Y num) : SInv s -> in_bounds x = true -> dget x (data s) = None ->
    nb (tell s x y) = insert x (nb s).
  Proof.
    intros HI Hb Hd. unfold L1D.tell. rewrite Hd, Hb. cbn [negb].
    set (s1 := L1D.mk (data _) (pend _) (insert x (nb _)) (insert x (nbc _)) (los _) (losc _)
                      (bbx _) (bby _) (sx _) (sy _) (osy _) (mgrx _)).
    cbn [data pend nb nbc los losc bbx bby sx sy osy mgrx] in s1.
    set (s2 := L1D.update_scale sub ltb zero inf neg_inf is_nan s1 x y).
    destruct (update_scale_frame add sub mul div ltb zero inf neg_inf is_nan is_inf round12 s1 x y)
      as [_ [_ [U3 [_ [U5 U6]]]]]. fold s2 in U3, U5, U6.
    assert (Hkl : ksorted (los s2)) by (rewrite U5; exact (s_los_sorted HI)).
    assert (Hkc : ksorted (losc s2)) by (rewrite U6; exact (s_losc_sorted HI)).
    destruct (@update_losses_true num add sub mul div ltb eqb zero one inf is_nan is_inf round12 L P OL s2 x Hkl Hkc)
      as [_ [_ [V3 _]]].
    set (s3 := L1D.update_losses sub mul div ltb eqb zero one inf L P s2 x true) in *.
    destruct (ltb (mul (factor P) (osy s3)) (sy s3)).
    - cbn [nb]. destruct (sweep_facts add sub mul div zero one is_nan is_inf round12 L P OL s3) as [_ [Hn' _]].
      rewrite Hn', V3, U3. reflexivity.
    - rewrite V3, U3. reflexivity.
  Qed.

  Lemma dinv_tell (s : st) x (y : Y num) : SInv s -> in_bounds x = true -> DInv s -> DInv (tell s x y).
  Proof.
    intros HI Hb HD. unfold DInv. destruct (dget x (data s)) as [v|] eqn:Hd.
    - rewrite (tell_known sub mul div ltb eqb zero one inf neg_inf is_nan is_inf round12 L P s x y Hd). exact HD.
    - rewrite (@data_tell s x y HI Hb Hd). apply dset_sorted. exact HD.
  Qed.

  Lemma dinv_tell_pending (s : st) x : DInv s -> DInv (tell_pending s x).
  Proof.
    intros HD. unfold L1D.tell_pending. destruct (dget x (data s)); [exact HD|].
    set (s1 := L1D.mk _ _ _ _ _ _ _ _ _ _ _ _).
    destruct (update_losses_false_frame add sub mul div ltb eqb zero one inf is_nan is_inf round12 L P s1 x) as [F1 _].
    unfold DInv. rewrite F1. exact HD.
  Qed.

  Lemma step_inv (s : st) o : Inv s -> legal_op s o = true -> Inv (fst (step s o)).
  Proof.
    intros [HI [HD HV]] Hl. destruct o as [x y|x|xys force| |n c]; cbn [L1D.step fst legal_op] in *.
    - split; [|split].
      + apply (tell_sinv add sub mul div zero one inf neg_inf is_nan is_inf round12 L P OL); assumption.
      + apply dinv_tell; assumption.
      + apply (tell_vinv add inf neg_inf is_nan is_inf round12 OL); assumption.
    - split; [|split].
      + destruct (dget x (data s)) as [v|] eqn:E.
        * rewrite (tell_pending_known sub mul div ltb eqb zero one inf L P s x E). exact HI.
        * apply (tell_pending_sinv add sub mul div zero one inf is_nan is_inf round12 L P OL); assumption.
      + apply dinv_tell_pending; exact HD.
      + apply (tell_pending_vinv add inf is_nan is_inf round12); exact HV.
    - unfold L1D.tell_many.
      destruct (negb force && negb ((length (data s) <? 2 * length xys) && (2 <? length xys))) eqn:Ec.
      + (* incremental path *)
        clear Ec. revert s HI HD HV. induction xys as [|xy xys IH]; intros s HI HD HV; cbn [fold_left]; [exact (conj HI (conj HD HV))|].
        cbn [forallb] in Hl. apply andb_true_iff in Hl as [Hl1 Hl2].
        apply IH; [exact Hl2| | |].
        * apply (tell_sinv add sub mul div zero one inf neg_inf is_nan is_inf round12 L P OL); assumption.
        * apply dinv_tell; assumption.
        * apply (tell_vinv add inf neg_inf is_nan is_inf round12 OL); assumption.
      + (* batch path *)
        destruct (batch_inv xys HI HD) as [R1 [R2 [R3 [R4 R5]]]]. cbn zeta in *.
        unfold box_ok in Hl. apply andb_true_iff in Hl as [B1 B2]. apply (eqb_eq OL) in B1, B2.
        split; [exact R1|]. split; [exact R2|].
        set (r := tell_many_batch s xys) in *.
        assert (Hbox : bbx r = (lo P, hi P)) by (destruct (bbx r); cbn [fst snd] in *; congruence).
        constructor.
        * exact Hbox.
        * rewrite R5, Hbox. reflexivity.
        * intros iv Hk. exists (sy r). split; [left; symmetry; exact R4|].
          rewrite (R3 iv Hk). reflexivity.
    - split; [|split].
      + apply (remove_unfinished_sinv add sub mul div zero is_nan is_inf round12); exact HI.
      + exact HD.
      + eapply (vinv_fields (s := s)); [..|exact HV]; reflexivity.
    - unfold L1D.ask. cbn [fst]. destruct c; [|exact (conj HI (conj HD HV))].
      split; [|split].
      + apply (fold_tell_pending_sinv add sub mul div zero one inf is_nan is_inf round12 L P OL); exact HI.
      + generalize (fst (L1D.ask_points add sub mul div ltb eqb zero inf is_nan is_inf round12 of_nat P s n)).
        intros pts. revert s HI HD HV. induction pts as [|p pts IH]; intros s HI HD HV; cbn [fold_left]; [exact HD|].
        apply IH.
        * destruct (dget p (data s)) as [v|] eqn:E.
          -- rewrite (tell_pending_known sub mul div ltb eqb zero one inf L P s p E). exact HI.
          -- apply (tell_pending_sinv add sub mul div zero one inf is_nan is_inf round12 L P OL); assumption.
        * apply dinv_tell_pending; exact HD.
        * apply (tell_pending_vinv add inf is_nan is_inf round12); exact HV.
      + apply (fold_tell_pending_vinv add inf is_nan is_inf round12); exact HV.
  Qed.

  Lemma inv_init : Inv init.
  Proof.
    unfold Inv. split; [apply (sinv_init add sub mul div ltb eqb zero inf neg_inf is_nan is_inf round12 P)|].
    split; [unfold DInv; cbn; constructor|apply vinv_init].
  Qed.

  Theorem full_inv h : forall (s : st), Inv s -> legal s h = true -> Inv (run s h).
  Proof.
    induction h as [|o h IH]; intros s HI Hl; [exact HI|].
    change (run s (o :: h)) with (run (fst (step s o)) h).
    cbn [legal] in Hl. apply andb_true_iff in Hl as [Hl1 Hl2].
    apply IH; [apply step_inv; assumption|exact Hl2].
  Qed.

  (* ---------------- the scale bracket along histories (scalar outputs) ---------------- *)
  Notation BInv := (@BInv num sub mul div ltb eqb zero one L P).
  Notation BInvAt := (@BInvAt num sub mul div ltb eqb zero one L P).
  Notation DScal := (@DScal num).

  Definition is_ys (y : Y num) : bool := match y with YS _ => true | YV _ => false end.
  Definition scalar_op (o : op num) : bool :=
    match o with
    | Tell _ y => is_ys y
    | TellMany xys _ => forallb (fun xy => is_ys (snd xy)) xys
    | _ => true
    end.

  Lemma dscal_fold xys : forallb (fun xy : num * Y num => is_ys (snd xy)) xys = true ->
    forall d, DScal d -> DScal (fold_left (fun d xy => dset (fst xy) (snd xy) d) xys d).
  Proof.
    induction xys as [|[x y] xys IH]; intros Hf d HD; cbn [fold_left]; [exact HD|].
    cbn [forallb snd fst] in *. apply andb_true_iff in Hf as [H1 H2].
    apply IH; [exact H2|]. destruct y as [v|vs]; [|discriminate]. apply dscal_dset. exact HD.
  Qed.

  Lemma col_fold_scalar (f : num -> num -> num) (ys : list (Y num)) :
    (forall y, In y ys -> exists v, y = YS v) -> ys <> [] -> exists m, L1D.col_fold f ys = [m].
  Proof.
    intros Hall Hne. destruct ys as [|y ys]; [congruence|]. clear Hne.
    destruct (Hall y (or_introl eq_refl)) as [v0 ->]. cbn [L1D.col_fold L1D.y_components].
    assert (Hall' : forall y, In y ys -> exists v, y = YS v) by (intros y Hy; apply Hall; right; exact Hy).
    clear Hall. generalize v0. induction ys as [|y ys IH]; intros m; cbn [fold_left]; [eauto|].
    destruct (Hall' y (or_introl eq_refl)) as [v ->]. cbn [L1D.y_components L1D.map2].
    apply IH. intros y Hy. apply Hall'. right; exact Hy.
  Qed.

  Lemma cond_fold_fields ti : forall (s : st),
    let r := fold_left (fun s iv => match lget iv (los s) with Some _ => update_interp s iv | None => s end) ti s in
    data r = data s /\ bby r = bby s /\ sy r = sy s /\ nb r = nb s /\ mgrx r = mgrx s.
  Proof.
    induction ti as [|[a b] ti IH]; intros s; cbn [fold_left]; cbn zeta; [tauto|].
    destruct (lget (a, b) (los s)); [|apply IH].
    destruct (IH (update_interp s (a, b))) as [H1 [H2 [H3 [H4 H5]]]]. cbn zeta in *. rewrite H1, H2, H3, H4, H5. cbn. tauto.
  Qed.

  Lemma cond_fold_scalars ti : forall (s : st),
    let r := fold_left (fun s iv => match lget iv (los s) with Some _ => update_interp s iv | None => s end) ti s in
    bbx r = bbx s /\ sx r = sx s /\ osy r = osy s.
  Proof.
    induction ti as [|[a b] ti IH]; intros s; cbn [fold_left]; cbn zeta; [tauto|].
    destruct (lget (a, b) (los s)); [|apply IH].
    destruct (IH (update_interp s (a, b))) as [H1 [H2 H3]]. cbn zeta in *. rewrite H1, H2, H3. cbn. tauto.
  Qed.

  Lemma batch_fields (s : st) (xys : list (num * Y num)) :
    let r := tell_many_batch s xys in
    let data' := fold_left (fun d xy => dset (fst xy) (snd xy) d) xys (data s) in
    let ys := map snd data' in
    let y0 := match ys with y :: _ => y | [] => YS zero end in
    let mn := L1D.col_fold (L1D.np_min2 ltb is_nan) ys in
    let mx := L1D.col_fold (L1D.np_max2 ltb is_nan) ys in
    data r = data' /\ bby r = (L1D.wrap_like zero y0 mn, L1D.wrap_like zero y0 mx) /\
    sy r = L1D.arr_max ltb zero is_nan (L1D.map2 sub mx mn) /\
    nb r = map fst data' /\ mgrx r = sx r.
  Proof.
    cbn zeta. unfold L1D.tell_many_batch.
    match goal with |- context [batch_combined ?a ?b [] []] => destruct (batch_combined a b [] []) as [lc ti] end.
    match goal with |- context [fold_left ?f ti ?s3] =>
      destruct (cond_fold_fields ti s3) as [H1 [H2 [H3 [H4 H5]]]];
      destruct (cond_fold_scalars ti s3) as [_ [H6 _]] end.
    cbn zeta in H1, H2, H3, H4, H5, H6. rewrite H1, H2, H3, H4, H5, H6. cbn. tauto.
  Qed.

  Lemma batch_binv (s : st) (xys : list (num * Y num)) : SInv s -> DInv s -> DScal (data s) ->
    forallb (fun xy : num * Y num => is_ys (snd xy)) xys = true -> BInv (tell_many_batch s xys).
  Proof.
    intros HI HD Hds Hf.
    destruct (batch_inv xys HI HD) as [R1 [R2 [R3 [R4 R5]]]].
    destruct (batch_fields s xys) as [F1 [F2 [F3 _]]]. cbn zeta in *.
    set (r := tell_many_batch s xys) in *.
    set (data' := fold_left (fun d xy => dset (fst xy) (snd xy) d) xys (data s)) in *.
    assert (Hds' : DScal data') by (apply dscal_fold; assumption).
    destruct data' as [|[x0 y0] d0] eqn:Ed.
    - (* no data at all: no interval either *)
      cbn in F2, F3. exists zero, zero, None. unfold L1DValues.BInvAt.
      split; [exact F2|]. split; [rewrite F1; exact Hds'|]. split; [left; exact F1|].
      split; [rewrite R4; exact F3|]. split; [left; symmetry; exact R4|].
      intros [a b] Hk. exfalso. apply (s_los_keys R1) in Hk. destruct Hk as [Ha _]. cbn [fst] in Ha.
      apply (s_real R1) in Ha. rewrite F1 in Ha. apply Ha. reflexivity.
    - assert (Hall : forall y, In y (map snd ((x0, y0) :: d0)) -> exists v, y = YS v).
      { intros y Hy. apply in_map_iff in Hy as [[x y'] [<- Hin]]. exact (Hds' _ _ Hin). }
      assert (Hne : map snd ((x0, y0) :: d0) <> []) by discriminate.
      destruct (col_fold_scalar (L1D.np_min2 ltb is_nan) Hall Hne) as [m Em].
      destruct (col_fold_scalar (L1D.np_max2 ltb is_nan) Hall Hne) as [M EM].
      rewrite Em, EM in F2, F3.
      destruct (Hds' x0 y0 (or_introl eq_refl)) as [v0 ->]. cbn in F2, F3.
      exists m, M, (Some (m, M)). unfold L1DValues.BInvAt.
      split; [exact F2|]. split; [rewrite F1; exact Hds'|]. split; [right; exact F3|].
      split; [split; [rewrite R4; exact F3|split; apply (le_refl OL)]|].
      split; [left; symmetry; exact R4|].
      intros iv Hk. exists m, M. split; [apply (le_refl OL)|]. split; [apply (le_refl OL)|].
      split; [split; apply (le_refl OL)|]. rewrite (R3 iv Hk), <- F3. reflexivity.
  Qed.

  Definition BFull (s : st) : Prop := Inv s /\ BInv s.

  Lemma step_binv (s : st) o : BFull s -> legal_op s o = true -> scalar_op o = true -> BFull (fst (step s o)).
  Proof.
    intros [HInv HB] Hl Hsc. split; [apply step_inv; assumption|].
    destruct HInv as [HI [HD HV]].
    destruct o as [x y|x|xys force| |n c]; cbn [L1D.step fst legal_op scalar_op] in *.
    - destruct y as [v|vs]; [|discriminate].
      apply (tell_binv add inf neg_inf is_nan is_inf round12 OL); assumption.
    - apply (tell_pending_binv add inf is_nan is_inf round12); exact HB.
    - unfold L1D.tell_many.
      destruct (negb force && negb ((length (data s) <? 2 * length xys) && (2 <? length xys))) eqn:Ec.
      + clear Ec. revert s HI HD HV HB Hl. induction xys as [|[x y] xys IH]; intros s HI HD HV HB Hl; cbn [fold_left]; [exact HB|].
        cbn [forallb fst snd] in Hl, Hsc. apply andb_true_iff in Hl as [Hl1 Hl2]. apply andb_true_iff in Hsc as [Hs1 Hs2].
        destruct y as [v|vs]; [|discriminate]. cbn [fst snd].
        apply IH; [exact Hs2| | | | |exact Hl2].
        * apply (tell_sinv add sub mul div zero one inf neg_inf is_nan is_inf round12 L P OL); assumption.
        * apply dinv_tell; assumption.
        * apply (tell_vinv add inf neg_inf is_nan is_inf round12 OL); assumption.
        * apply (tell_binv add inf neg_inf is_nan is_inf round12 OL); assumption.
      + destruct HB as [b0 [b1 [ob [_ [Hds _]]]]]. apply batch_binv; assumption.
    - eapply (binv_fields (s := s)); [..|exact HB]; reflexivity.
    - unfold L1D.ask. cbn [fst]. destruct c; [|exact HB].
      apply (fold_tell_pending_binv add inf is_nan is_inf round12); exact HB.
  Qed.

  Theorem bracket_inv h : forall (s : st), BFull s -> legal s h = true -> forallb scalar_op h = true -> BFull (run s h).
  Proof.
    induction h as [|o h IH]; intros s HB Hl Hs; [exact HB|].
    change (run s (o :: h)) with (run (fst (step s o)) h).
    cbn [legal forallb] in Hl, Hs. apply andb_true_iff in Hl as [Hl1 Hl2]. apply andb_true_iff in Hs as [Hs1 Hs2].
    apply IH; [apply step_binv; assumption|exact Hl2|exact Hs2].
  Qed.

  (* ---------------- the same for vector outputs of length k, no NaN ---------------- *)
  Notation BInvV := (@BInvV num sub mul div ltb eqb zero one is_nan L P).
  Notation DVec := (@DVec num).

  Definition is_yv (k : nat) (y : Y num) : bool := match y with YS _ => false | YV vs => length vs =? k end.
  Definition vector_op (k : nat) (o : op num) : bool :=
    match o with
    | Tell _ y => is_yv k y
    | TellMany xys _ => forallb (fun xy => is_yv k (snd xy)) xys
    | _ => true
    end.

  Lemma dvec_fold k xys : forallb (fun xy : num * Y num => is_yv k (snd xy)) xys = true ->
    forall d, DVec k d -> DVec k (fold_left (fun d xy => dset (fst xy) (snd xy) d) xys d).
  Proof.
    induction xys as [|[x y] xys IH]; intros Hf d HD; cbn [fold_left]; [exact HD|].
    cbn [forallb snd fst] in *. apply andb_true_iff in Hf as [H1 H2].
    apply IH; [exact H2|]. destruct y as [v|vs]; [discriminate|]. cbn [is_yv] in H1. apply Nat.eqb_eq in H1.
    apply dvec_dset; assumption.
  Qed.

  Lemma col_fold_length k (f : num -> num -> num) (ys : list (Y num)) :
    (forall y, In y ys -> exists vs, y = YV vs /\ length vs = k) -> ys <> [] -> length (L1D.col_fold f ys) = k.
  Proof.
    intros Hall Hne. destruct ys as [|y ys]; [congruence|]. clear Hne.
    destruct (Hall y (or_introl eq_refl)) as [v0 [-> Hv0]]. cbn [L1D.col_fold L1D.y_components].
    assert (Hall' : forall y, In y ys -> exists vs, y = YV vs /\ length vs = k) by (intros y Hy; apply Hall; right; exact Hy).
    clear Hall. revert v0 Hv0. induction ys as [|y ys IH]; intros m Hm; cbn [fold_left]; [exact Hm|].
    destruct (Hall' y (or_introl eq_refl)) as [v [-> Hv]]. cbn [L1D.y_components].
    apply IH; [intros y Hy; apply Hall'; right; exact Hy|]. rewrite map2_length; congruence.
  Qed.

  Lemma batch_binvv k (s : st) (xys : list (num * Y num)) : SInv s -> DInv s -> DVec k (data s) ->
    forallb (fun xy : num * Y num => is_yv k (snd xy)) xys = true -> BInvV k (tell_many_batch s xys).
  Proof.
    intros HI HD Hds Hf.
    destruct (batch_inv xys HI HD) as [R1 [R2 [R3 [R4 R5]]]].
    destruct (batch_fields s xys) as [F1 [F2 [F3 _]]]. cbn zeta in *.
    set (r := tell_many_batch s xys) in *.
    set (data' := fold_left (fun d xy => dset (fst xy) (snd xy) d) xys (data s)) in *.
    assert (Hds' : DVec k data') by (apply dvec_fold; assumption).
    split; [rewrite F1; exact Hds'|]. split; [left; symmetry; exact R4|].
    destruct data' as [|[x0 y0] d0] eqn:Ed.
    - left. cbn in F2, F3. split; [exact F1|]. split; [intros a b; rewrite F2; discriminate|].
      rewrite R4. exact F3.
    - right.
      assert (Hall : forall y, In y (map snd ((x0, y0) :: d0)) -> exists vs, y = YV vs /\ length vs = k).
      { intros y Hy. apply in_map_iff in Hy as [[x y'] [<- Hin]]. exact (Hds' _ _ Hin). }
      assert (Hne : map snd ((x0, y0) :: d0) <> []) by discriminate.
      pose proof (col_fold_length (L1D.np_min2 ltb is_nan) Hall Hne) as Lm.
      pose proof (col_fold_length (L1D.np_max2 ltb is_nan) Hall Hne) as LM.
      destruct (Hds' x0 y0 (or_introl eq_refl)) as [v0 [-> Hv0]].
      cbn [map snd L1D.wrap_like] in F2, F3, Lm, LM.
      match type of F2 with _ = (YV ?a, YV ?b) => exists a, b, (Some (a, b)) end.
      unfold L1DValues.BInvVAt.
      split; [exact F2|]. split; [exact Lm|]. split; [exact LM|]. split; [exact F3|].
      split; [split; [rewrite R4; exact F3|split; apply (lle_refl OL)]|].
      intros iv Hk. eexists _, _. split; [apply (lle_refl OL)|]. split; [apply (lle_refl OL)|].
      split; [split; apply (lle_refl OL)|]. rewrite (R3 iv Hk). unfold L1DValues.scv. rewrite <- F3. reflexivity.
  Qed.

  Definition VFull (k : nat) (s : st) : Prop := Inv s /\ BInvV k s.

  Lemma step_binvv k (s : st) o : (forall z, is_nan z = false) ->
    VFull k s -> legal_op s o = true -> vector_op k o = true -> VFull k (fst (step s o)).
  Proof.
    intros NoNaN [HInv HB] Hl Hsc. split; [apply step_inv; assumption|].
    destruct HInv as [HI [HD HV]].
    destruct o as [x y|x|xys force| |n c]; cbn [L1D.step fst legal_op vector_op] in *.
    - destruct y as [v|vs]; [discriminate|]. cbn [is_yv] in Hsc. apply Nat.eqb_eq in Hsc.
      apply (tell_binvv add inf neg_inf is_inf round12 OL); assumption.
    - apply (tell_pending_binvv add inf is_inf round12); exact HB.
    - unfold L1D.tell_many.
      destruct (negb force && negb ((length (data s) <? 2 * length xys) && (2 <? length xys))) eqn:Ec.
      + clear Ec. revert s HI HD HV HB Hl. induction xys as [|[x y] xys IH]; intros s HI HD HV HB Hl; cbn [fold_left]; [exact HB|].
        cbn [forallb fst snd] in Hl, Hsc. apply andb_true_iff in Hl as [Hl1 Hl2]. apply andb_true_iff in Hsc as [Hs1 Hs2].
        destruct y as [v|vs]; [discriminate|]. cbn [fst snd is_yv] in *. apply Nat.eqb_eq in Hs1.
        apply IH; [exact Hs2| | | | |exact Hl2].
        * apply (tell_sinv add sub mul div zero one inf neg_inf is_nan is_inf round12 L P OL); assumption.
        * apply dinv_tell; assumption.
        * apply (tell_vinv add inf neg_inf is_nan is_inf round12 OL); assumption.
        * apply (tell_binvv add inf neg_inf is_inf round12 OL); assumption.
      + destruct HB as [Hds _]. apply batch_binvv; assumption.
    - eapply (binvv_fields (s := s)); [..|exact HB]; reflexivity.
    - unfold L1D.ask. cbn [fst]. destruct c; [|exact HB].
      apply (fold_tell_pending_binvv add inf is_inf round12); exact HB.
  Qed.

  Theorem bracket_inv_v k h : (forall z, is_nan z = false) -> forall (s : st),
    VFull k s -> legal s h = true -> forallb (vector_op k) h = true -> VFull k (run s h).
  Proof.
    intros NoNaN. induction h as [|o h IH]; intros s HB Hl Hs; [exact HB|].
    change (run s (o :: h)) with (run (fst (step s o)) h).
    cbn [legal forallb] in Hl, Hs. apply andb_true_iff in Hl as [Hl1 Hl2]. apply andb_true_iff in Hs as [Hs1 Hs2].
    apply IH; [apply step_binvv; assumption|exact Hl2|exact Hs2].
  Qed.

End Batch.
