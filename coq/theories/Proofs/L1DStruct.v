(* Structural invariant of the Learner1D model: the two loss tables are keyed
   exactly by the consecutive pairs of the evaluated points, respectively of
   the evaluated-or-pending points, along every history.  (Property C01.) *)
From AV Require Import Base.Prelude Base.SortLemmas Model.L1D Proofs.L1DOrder Proofs.L1DMaps Proofs.L1DWindow.
From Coq Require Import Sorted.
Set Implicit Arguments.

Section Struct.
  Variable num : Type.
  Variables (add sub mul div : num -> num -> num).
  Variables (ltb eqb : num -> num -> bool).
  Variables (zero one inf neg_inf : num).
  Variables (is_nan is_inf : num -> bool).
  Variable round12 : num -> num.
  Variable of_nat : nat -> num.
  Variable L : list (option num) -> list (option (Y num)) -> num.
  Variable P : params num.
  Hypothesis OL : OrdLaws ltb eqb.

  Notation st := (st num).
  Notation ival := (num * num)%type.
  Notation insert := (@insert num ltb eqb).
  Notation remove := (@remove num eqb).
  Notation mem := (@mem num eqb).
  Notation dget := (@dget num eqb).
  Notation dset := (@dset num ltb eqb).
  Notation lget := (@lget num eqb).
  Notation lset := (@lset num ltb eqb).
  Notation lpop := (@lpop num eqb).
  Notation lpop_opt := (@lpop_opt num eqb).
  Notation set_opt := (@set_opt num ltb eqb).
  Notation find_left := (@find_left num ltb).
  Notation find_right := (@find_right num ltb).
  Notation find_neighbors := (@find_neighbors num ltb).
  Notation get_intervals := (@get_intervals num eqb P).
  Notation get_loss := (@get_loss num sub div ltb eqb zero one L P).
  Notation walk := (@walk num sub mul div ltb eqb).
  Notation update_interp := (@update_interp num sub mul div ltb eqb zero one L P).
  Notation update_losses := (@update_losses num sub mul div ltb eqb zero one inf L P).
  Notation update_scale := (@update_scale num sub ltb zero inf neg_inf is_nan).
  Notation sweep := (@sweep num sub mul div ltb eqb zero one is_nan is_inf round12 L P).
  Notation tell := (@tell num sub mul div ltb eqb zero one inf neg_inf is_nan is_inf round12 L P).
  Notation tell_pending := (@tell_pending num sub mul div ltb eqb zero one inf L P).
  Notation tell_many := (@tell_many num sub mul div ltb eqb zero one inf neg_inf is_nan is_inf round12 L P).
  Notation ask := (@ask num add sub mul div ltb eqb zero one inf is_nan is_inf round12 of_nat L P).
  Notation step := (@step num add sub mul div ltb eqb zero one inf neg_inf is_nan is_inf round12 of_nat L P).
  Notation run := (@run num add sub mul div ltb eqb zero one inf neg_inf is_nan is_inf round12 of_nat L P).
  Notation init := (@init num sub zero inf neg_inf P).
  Notation lt := (lt ltb).
  Notation sorted := (sorted ltb).
  Notation adj := (adj ltb).
  Notation is_left := (is_left ltb).
  Notation is_right := (is_right ltb).
  Notation ksorted := (@ksorted num ltb eqb).
  Notation keys := (@keys num).

  Implicit Types (s : st) (x : num) (iv : ival).

  Record SInv (s : st) : Prop := {
    s_nb : sorted (nb s);
    s_nbc : sorted (nbc s);
    s_pend : sorted (pend s);
    s_comb : forall x, In x (nbc s) <-> In x (nb s) \/ In x (pend s);
    s_real : forall x, In x (nb s) -> dget x (data s) <> None;
    s_pd : forall x, In x (pend s) -> dget x (data s) = None;
    s_los_sorted : ksorted (los s);
    s_losc_sorted : ksorted (losc s);
    s_los_keys : forall iv, In iv (keys (los s)) <-> adj (nb s) iv;
    s_losc_keys : forall iv, In iv (keys (losc s)) <-> adj (nbc s) iv
  }.

  Lemma sinv_init : SInv init.
  Proof.
    constructor; cbn.
    - constructor.
    - constructor.
    - constructor.
    - intros x; tauto.
    - intros x [].
    - intros x [].
    - constructor.
    - constructor.
    - intros iv. split; [intros []|intros [[] _]].
    - intros iv. split; [intros []|intros [[] _]].
  Qed.

  (* ---------------- option-keyed updates ---------------- *)
  Definition okey (a b : option num) (k : ival) : Prop :=
    match a, b with Some a', Some b' => k = (a', b') | _, _ => False end.

  Lemma keys_set_opt a b v m k : In k (keys (set_opt a b v m)) <-> okey a b k \/ In k (keys m).
  Proof.
    unfold L1D.set_opt, okey. destruct a as [a'|], b as [b'|]; try tauto.
    apply (keys_lset OL).
  Qed.
  Lemma set_opt_ksorted a b v m : ksorted m -> ksorted (set_opt a b v m).
  Proof. unfold L1D.set_opt. destruct a, b; auto. apply (lset_ksorted OL). Qed.

  Lemma keys_lpop_opt a b m k : ksorted m -> (In k (keys (lpop_opt a b m)) <-> In k (keys m) /\ ~ okey a b k).
  Proof.
    intros Hs. unfold L1D.lpop_opt, okey. destruct a as [a'|], b as [b'|]; try tauto.
    apply (keys_lpop OL); exact Hs.
  Qed.
  Lemma lpop_opt_ksorted a b m : ksorted m -> ksorted (lpop_opt a b m).
  Proof. unfold L1D.lpop_opt. destruct a, b; auto. apply lpop_ksorted. Qed.

  (* ---------------- walk ---------------- *)
  Definition inside (a xr : num) (k : ival) : Prop := L1D.leb ltb eqb a (fst k) && ltb (fst k) xr = true.

  Lemma keys_walk a xr loss dx ks : forall m k,
    In k (keys (walk a xr loss dx ks m)) <-> In k (keys m) \/ (In k (L1D.pairs ks) /\ inside a xr k).
  Proof.
    unfold L1D.walk. generalize (L1D.pairs ks) as ps. induction ps as [|pq ps IH]; intros m k; cbn [fold_left In].
    - tauto.
    - rewrite IH. unfold inside at 2. destruct (L1D.leb ltb eqb a (fst pq) && ltb (fst pq) xr) eqn:E.
      + rewrite (keys_lset OL). split.
        * intros [[->|H]|H]; [right; split; [left; reflexivity|exact E]|tauto|tauto].
        * intros [H|[[<-|H] Hi]]; tauto.
      + split; [tauto|]. intros [H|[[<-|H] Hi]]; [tauto| |tauto]. unfold inside in Hi. congruence.
  Qed.

  Lemma walk_ksorted a xr loss dx ks : forall m, ksorted m -> ksorted (walk a xr loss dx ks m).
  Proof.
    unfold L1D.walk. generalize (L1D.pairs ks) as ps. induction ps as [|pq ps IH]; intros m Hs; cbn [fold_left]; [exact Hs|].
    apply IH. destruct (_ && _); [apply (lset_ksorted OL); exact Hs|exact Hs].
  Qed.

  (* ---------------- update_interp ---------------- *)
  Lemma update_interp_frame s iv :
    data (update_interp s iv) = data s /\ pend (update_interp s iv) = pend s /\
    nb (update_interp s iv) = nb s /\ nbc (update_interp s iv) = nbc s.
  Proof. destruct iv as [a b]. cbn. tauto. Qed.

  Lemma update_interp_keys s iv :
    (forall k, In k (keys (los (update_interp s iv))) <-> k = iv \/ In k (keys (los s))) /\
    (forall k, In k (keys (losc (update_interp s iv))) <->
               In k (keys (losc s)) \/ (In k (L1D.pairs (nbc s)) /\ inside (fst iv) (snd iv) k)) /\
    (ksorted (los s) -> ksorted (los (update_interp s iv))) /\
    (ksorted (losc s) -> ksorted (losc (update_interp s iv))).
  Proof.
    destruct iv as [a b]. cbn [L1D.update_interp L1D.with_los los losc fst snd]. repeat split.
    - apply (keys_lset OL).
    - apply (keys_lset OL).
    - apply keys_walk.
    - apply keys_walk.
    - apply (lset_ksorted OL).
    - apply walk_ksorted.
  Qed.

  Lemma fold_interp ivs : forall s,
    let s' := fold_left update_interp ivs s in
    data s' = data s /\ pend s' = pend s /\ nb s' = nb s /\ nbc s' = nbc s /\
    (forall k, In k (keys (los s')) <-> In k ivs \/ In k (keys (los s))) /\
    (forall k, In k (keys (losc s')) <->
       In k (keys (losc s)) \/ (In k (L1D.pairs (nbc s)) /\ exists iv, In iv ivs /\ inside (fst iv) (snd iv) k)) /\
    (ksorted (los s) -> ksorted (los s')) /\ (ksorted (losc s) -> ksorted (losc s')).
  Proof.
    induction ivs as [|iv ivs IH]; intros s; cbn [fold_left].
    - repeat split; try tauto; try (intros [H|[_ [iv [[] _]]]]; exact H).
      intros [[]|H]; exact H.
    - specialize (IH (update_interp s iv)). cbn zeta in IH.
      destruct IH as [H1 [H2 [H3 [H4 [H5 [H6 [H7 H8]]]]]]].
      destruct (update_interp_frame s iv) as [F1 [F2 [F3 F4]]].
      destruct (update_interp_keys s iv) as [K1 [K2 [K3 K4]]].
      cbn zeta. rewrite H1, H2, H3, H4, F1, F2, F3, F4. repeat split; auto.
      + rewrite H5, K1. cbn [In]. intuition.
      + rewrite H5, K1. cbn [In]. intuition.
      + rewrite H6, K2, F4. intros [[H|[Hp Hi]]|[Hp [iv' [Hin Hi]]]].
        * left; exact H.
        * right. split; [exact Hp|]. exists iv. split; [left; reflexivity|exact Hi].
        * right. split; [exact Hp|]. exists iv'. split; [right; exact Hin|exact Hi].
      + rewrite H6, K2, F4. intros [H|[Hp [iv' [[<-|Hin] Hi]]]].
        * left; left; exact H.
        * left; right. split; assumption.
        * right. split; [exact Hp|]. exists iv'. split; assumption.
  Qed.

  Lemma okey_spec a b k : okey a b k <-> a = Some (fst k) /\ b = Some (snd k).
  Proof.
    unfold okey. destruct a as [a'|], b as [b'|], k as [p q]; cbn [fst snd];
      split; try tauto; try (intros [H1 H2]; discriminate).
    - intros H; inversion H; auto.
    - intros [H1 H2]; inversion H1; inversion H2; reflexivity.
  Qed.

  Lemma find_neighbors_spec x l : sorted l ->
    is_left l x (fst (find_neighbors x l)) /\ is_right l x (snd (find_neighbors x l)).
  Proof. intros Hs. split; [apply (find_left_spec OL); exact Hs|apply find_right_spec; exact Hs]. Qed.

  (* ---------------- update_losses, pending point ---------------- *)
  Lemma update_losses_false_frame s x :
    let s' := update_losses s x false in
    data s' = data s /\ pend s' = pend s /\ nb s' = nb s /\ nbc s' = nbc s /\ los s' = los s.
  Proof.
    unfold L1D.update_losses.
    destruct (find_neighbors x (nb s)) as [xl xr]. destruct (find_neighbors x (nbc s)) as [a b].
    destruct xl as [l|], xr as [r|]; cbn [negb andb];
      try destruct (lget (l, r) _); cbn; tauto.
  Qed.

  Lemma update_losses_false_keys s x :
    sorted (nb s) -> sorted (nbc s) -> ksorted (losc s) ->
    (forall iv, In iv (keys (los s)) <-> adj (nb s) iv) -> ~ In x (nb s) ->
    let a := fst (find_neighbors x (nbc s)) in
    let b := snd (find_neighbors x (nbc s)) in
    let s' := update_losses s x false in
    ksorted (losc s') /\
    forall k, In k (keys (losc s')) <->
      (In k (keys (losc s)) /\ ~ okey a b k) \/ okey a (Some x) k \/ okey (Some x) b k.
  Proof.
    intros Hnb Hnbc Hks Hlos Hx.
    destruct (find_neighbors_spec x Hnb) as [Hxl Hxr].
    unfold L1D.update_losses.
    destruct (find_neighbors x (nb s)) as [xl xr]. destruct (find_neighbors x (nbc s)) as [a b].
    cbn [fst snd] in *. cbn zeta.
    destruct xl as [l|], xr as [r|]; cbn [negb andb].
    - (* both real neighbours exist: interpolate *)
      assert (Hadj : adj (nb s) (l, r)) by (eapply (neighbours_adj OL); eauto).
      apply Hlos in Hadj. apply (In_keys_lget OL) in Hadj.
      cbn [L1D.with_los los losc]. destruct (lget (l, r) (los s)) as [loss|]; [|congruence].
      cbn [L1D.with_los los losc]. split.
      + apply set_opt_ksorted, set_opt_ksorted, lpop_opt_ksorted. exact Hks.
      + intros k. rewrite !keys_set_opt, (keys_lpop_opt a b k Hks). tauto.
    - cbn [L1D.with_los los losc]. split.
      + apply set_opt_ksorted, set_opt_ksorted, lpop_opt_ksorted. exact Hks.
      + intros k. rewrite !keys_set_opt, (keys_lpop_opt a b k Hks). tauto.
    - cbn [L1D.with_los los losc]. split.
      + apply set_opt_ksorted, set_opt_ksorted, lpop_opt_ksorted. exact Hks.
      + intros k. rewrite !keys_set_opt, (keys_lpop_opt a b k Hks). tauto.
    - cbn [L1D.with_los los losc]. split.
      + apply set_opt_ksorted, set_opt_ksorted, lpop_opt_ksorted. exact Hks.
      + intros k. rewrite !keys_set_opt, (keys_lpop_opt a b k Hks). tauto.
  Qed.

  Lemma tell_pending_known s x v : dget x (data s) = Some v -> tell_pending s x = s.
  Proof. unfold L1D.tell_pending. intros ->. reflexivity. Qed.

  Lemma tell_pending_sinv s x : SInv s -> dget x (data s) = None -> SInv (tell_pending s x).
  Proof.
    intros HI Hd. unfold L1D.tell_pending. rewrite Hd.
    set (s1 := L1D.mk (data s) (insert x (pend s)) (nb s) (insert x (nbc s)) (los s) (losc s)
                      (bbx s) (bby s) (sx s) (sy s) (osy s) (mgrx s)).
    assert (Hxnb : ~ In x (nb s)) by (intros Hin; apply (s_real HI) in Hin; congruence).
    destruct (update_losses_false_frame s1 x) as [F1 [F2 [F3 [F4 F5]]]].
    assert (Hnbc1 : sorted (nbc s1)) by (apply (insert_sorted OL), (s_nbc HI)).
    destruct (@update_losses_false_keys s1 x (s_nb HI) Hnbc1 (s_losc_sorted HI) (s_los_keys HI) Hxnb)
      as [Hks Hkeys].
    destruct (find_neighbors_spec x Hnbc1) as [Ha Hb].
    apply (is_left_insert_inv OL) in Ha. apply (is_right_insert_inv OL) in Hb.
    constructor.
    - rewrite F3. exact (s_nb HI).
    - rewrite F4. exact Hnbc1.
    - rewrite F2. apply (insert_sorted OL), (s_pend HI).
    - intros y. rewrite F4, F3, F2. cbn [nbc nb pend s1]. rewrite !(insert_In OL), (s_comb HI). tauto.
    - intros y. rewrite F3, F1. exact (s_real HI y).
    - intros y. rewrite F2, F1. cbn [pend data s1]. rewrite (insert_In OL). intros [->|Hy]; [exact Hd|exact (s_pd HI _ Hy)].
    - rewrite F5. exact (s_los_sorted HI).
    - exact Hks.
    - intros iv. rewrite F5, F3. exact (s_los_keys HI iv).
    - intros iv. rewrite Hkeys, F4. cbn [nbc losc s1].
      rewrite (@adj_insert_gen _ _ _ OL (nbc s) x _ _ iv (s_nbc HI) Ha Hb), (s_losc_keys HI), !okey_spec. cbn [fst snd]. 
      split.
      + intros [[H1 H2]|[[H1 H2]|[H1 H2]]]; [left; tauto|right; left|right; right].
        * split; [exact H1|inversion H2; reflexivity].
        * split; [inversion H1; reflexivity|exact H2].
      + intros [[H1 H2]|[[H1 H2]|[H1 H2]]]; [left; tauto|right; left|right; right].
        * split; [exact H1|rewrite H2; reflexivity].
        * split; [rewrite H1; reflexivity|exact H2].
  Qed.

  (* ---------------- data dictionary, pending list ---------------- *)
  Lemma dget_dset x v d y : dget y (dset x v d) = if eqb y x then Some v else dget y d.
  Proof.
    induction d as [|[k w] d IH]; cbn [L1D.dset L1D.dget].
    - reflexivity.
    - destruct (ltb x k) eqn:E1; [cbn [L1D.dget]; reflexivity|].
      destruct (eqb x k) eqn:E2.
      + apply (eqb_eq OL) in E2. subst k. cbn [L1D.dget]. destruct (eqb y x); reflexivity.
      + cbn [L1D.dget]. rewrite IH. destruct (eqb y k) eqn:E3; [|reflexivity].
        apply (eqb_eq OL) in E3. subst k. destruct (eqb y x) eqn:E4; [|reflexivity].
        apply (eqb_eq OL) in E4. subst y. rewrite (eqb_refl OL) in E2. discriminate.
  Qed.

  Lemma remove_In x l y : sorted l -> (In y (remove x l) <-> In y l /\ y <> x).
  Proof.
    induction l as [|z l IH]; cbn [L1D.remove In]; intros Hs; [tauto|].
    pose proof (sorted_inv Hs) as [Hs' Hf]. rewrite Forall_forall in Hf.
    destruct (eqb x z) eqn:E.
    - apply (eqb_eq OL) in E. subst z. split.
      + intros Hy. split; [right; exact Hy|]. intros ->. exact (lt_irrefl OL (Hf _ Hy)).
      + intros [[<-|Hy] Hne]; [congruence|exact Hy].
    - apply (eqb_neq OL) in E. cbn [In]. rewrite (IH Hs'). split.
      + intros [<-|[Hy Hne]]; [split; [left; reflexivity|congruence]|tauto].
      + intros [[<-|Hy] Hne]; [left; reflexivity|right; tauto].
  Qed.

  Lemma remove_sorted x l : sorted l -> sorted (remove x l).
  Proof.
    induction l as [|z l IH]; cbn [L1D.remove]; intros Hs; [exact Hs|].
    pose proof (sorted_inv Hs) as [Hs' Hf]. destruct (eqb x z); [exact Hs'|].
    apply sorted_cons; [apply IH; exact Hs'|]. intros y Hy.
    apply (remove_In x y Hs') in Hy as [Hy _]. rewrite Forall_forall in Hf. auto.
  Qed.

  (* ---------------- the window of intervals around a new point ---------------- *)
  Lemma get_intervals_sub x l k : sorted l -> In k (get_intervals x l) -> adj l k.
  Proof.
    intros Hs Hin. apply (pairs_adj OL Hs). unfold L1D.get_intervals in Hin.
    apply pairs_firstn in Hin. apply pairs_skipn in Hin. exact Hin.
  Qed.

  Lemma sorted_app_notin (p : list num) x q : sorted (p ++ x :: q) -> ~ In x p.
  Proof.
    induction p as [|c p IH]; cbn [app]; intros Hs; [tauto|].
    pose proof (sorted_inv Hs) as [Hs' Hf]. rewrite Forall_forall in Hf.
    intros [->|Hin]; [|exact (IH Hs' Hin)].
    apply (lt_irrefl OL (x:=x)). apply Hf. apply in_or_app. right; left; reflexivity.
  Qed.

  Lemma get_intervals_left x l a : sorted l -> adj l (a, x) -> In (a, x) (get_intervals x l).
  Proof.
    intros Hs Ha. apply (pairs_adj OL Hs) in Ha. destruct (pairs_split _ _ _ Ha) as [p [q E]].
    unfold L1D.get_intervals.
    assert (Hi : L1D.index_of eqb x l = S (length p)).
    { rewrite E. change (p ++ a :: x :: q) with (p ++ [a] ++ x :: q). rewrite app_assoc.
      rewrite (@index_of_app _ _ (eqb_eq OL)); [rewrite app_length; cbn; lia|].
      rewrite E in Hs. change (p ++ a :: x :: q) with (p ++ [a] ++ x :: q) in Hs. rewrite app_assoc in Hs.
      exact (sorted_app_notin _ _ _ Hs). }
    rewrite Hi. eapply window_has; [exact E|right; reflexivity].
  Qed.

  Lemma get_intervals_right x l b : sorted l -> adj l (x, b) -> In (x, b) (get_intervals x l).
  Proof.
    intros Hs Hb. apply (pairs_adj OL Hs) in Hb. destruct (pairs_split _ _ _ Hb) as [p [q E]].
    unfold L1D.get_intervals.
    assert (Hi : L1D.index_of eqb x l = length p).
    { rewrite E. apply (@index_of_app _ _ (eqb_eq OL)). rewrite E in Hs. exact (sorted_app_notin _ _ _ Hs). }
    rewrite Hi. eapply window_has; [exact E|left; reflexivity].
  Qed.

  (* ---------------- update_scale changes no table ---------------- *)
  Lemma update_scale_frame s x (y : Y num) :
    let s' := update_scale s x y in
    data s' = data s /\ pend s' = pend s /\ nb s' = nb s /\ nbc s' = nbc s /\
    los s' = los s /\ losc s' = losc s.
  Proof.
    unfold L1D.update_scale. destruct y as [v|vs].
    - cbn. tauto.
    - destruct (bby s) as [[m1|m1] [m2|m2]]; cbn; tauto.
  Qed.

  (* ---------------- update_losses, evaluated point ---------------- *)
  Lemma update_losses_true s x :
    ksorted (los s) -> ksorted (losc s) ->
    let xl := fst (find_neighbors x (nb s)) in
    let xr := snd (find_neighbors x (nb s)) in
    let a := fst (find_neighbors x (nbc s)) in
    let b := snd (find_neighbors x (nbc s)) in
    let s' := update_losses s x true in
    data s' = data s /\ pend s' = pend s /\ nb s' = nb s /\ nbc s' = nbc s /\
    ksorted (los s') /\ ksorted (losc s') /\
    (forall k, In k (keys (los s')) <->
       (In k (get_intervals x (nb s)) \/ In k (keys (los s))) /\ ~ okey xl xr k) /\
    (forall k, In k (keys (losc s')) <->
       (((In k (keys (losc s)) /\ ~ okey a b k) \/
         (In k (L1D.pairs (nbc s)) /\ exists iv, In iv (get_intervals x (nb s)) /\ inside (fst iv) (snd iv) k))
        /\ ~ okey xl xr k)
       \/ (xl = None /\ okey a (Some x) k) \/ (xr = None /\ okey (Some x) b k)).
  Proof.
    intros Hkl Hkc. unfold L1D.update_losses.
    destruct (find_neighbors x (nb s)) as [xl xr]. destruct (find_neighbors x (nbc s)) as [a b].
    cbn [fst snd]. cbn zeta.
    set (s1 := L1D.with_los s (los s) (lpop_opt a b (losc s))).
    pose proof (fold_interp (get_intervals x (nb s1)) s1) as HF. cbn zeta in HF.
    change (nb s1) with (nb s) in *. change (nbc s1) with (nbc s) in HF.
    change (data s1) with (data s) in HF. change (pend s1) with (pend s) in HF.
    change (los s1) with (los s) in HF. change (losc s1) with (lpop_opt a b (losc s)) in HF.
    set (s2 := fold_left update_interp (get_intervals x (nb s)) s1) in *.
    destruct HF as [H1 [H2 [H3 [H4 [H5 [H6 [H7 H8]]]]]]].
    specialize (H7 Hkl). specialize (H8 (lpop_opt_ksorted a b Hkc)).
    assert (K6 : forall k, In k (keys (losc s2)) <->
               (In k (keys (losc s)) /\ ~ okey a b k) \/
               (In k (L1D.pairs (nbc s)) /\ exists iv, In iv (get_intervals x (nb s)) /\ inside (fst iv) (snd iv) k)).
    { intros k. rewrite H6, (keys_lpop_opt a b k Hkc). tauto. }
    destruct xl as [l|], xr as [r|]; cbn [negb andb L1D.with_los data pend nb nbc los losc];
      refine (conj H1 (conj H2 (conj H3 (conj H4 (conj _ (conj _ (conj _ _)))))));
      auto using lpop_opt_ksorted, set_opt_ksorted;
      intros k; rewrite ?keys_set_opt, ?(keys_lpop_opt _ _ k H7), ?(keys_lpop_opt _ _ k H8), ?H5, ?K6;
      intuition discriminate.
  Qed.

  Lemma sinv_fields s s' :
    data s' = data s -> pend s' = pend s -> nb s' = nb s -> nbc s' = nbc s ->
    los s' = los s -> losc s' = losc s -> SInv s -> SInv s'.
  Proof.
    intros E1 E2 E3 E4 E5 E6 [H1 H2 H3 H4 H5 H6 H7 H8 H9 H10].
    constructor; rewrite ?E1, ?E2, ?E3, ?E4, ?E5, ?E6; assumption.
  Qed.

  Lemma leb_spec a b : L1D.leb ltb eqb a b = true <-> lt a b \/ a = b.
  Proof. unfold L1D.leb, L1DOrder.lt. rewrite orb_true_iff, (eqb_eq OL). tauto. Qed.

  Lemma sweep_sinv s : SInv s -> SInv (sweep s).
  Proof.
    intros HI. unfold L1D.sweep.
    set (order := rev (map fst (sort_by _ (los s)))).
    assert (Hord : forall k, In k order -> In k (keys (los s))).
    { intros k Hk. unfold order in Hk. apply in_rev in Hk. apply in_map_iff in Hk as [e [<- He]].
      apply sort_by_In in He. unfold L1DMaps.keys. apply in_map. exact He. }
    pose proof (fold_interp order s) as HF. cbn zeta in HF.
    destruct HF as [H1 [H2 [H3 [H4 [H5 [H6 [H7 H8]]]]]]].
    destruct HI as [I1 I2 I3 I4 I5 I6 I7 I8 I9 I10].
    constructor; rewrite ?H1, ?H2, ?H3, ?H4; auto.
    - intros iv. rewrite H5, <- I9. split; [intros [H|H]; auto|tauto].
    - intros iv. rewrite H6, <- I10. split; [|tauto].
      intros [H|[H _]]; [exact H|]. apply I10. apply (pairs_adj OL I2). exact H.
  Qed.

  Lemma adj_not_around l k x : adj l k -> In x l -> lt (fst k) x -> lt x (snd k) -> False.
  Proof. intros [_ [_ [_ Hno]]] Hx H1 H2. exact (Hno x Hx (conj H1 H2)). Qed.

  Lemma tell_known s x (y : Y num) v : dget x (data s) = Some v -> tell s x y = s.
  Proof. unfold L1D.tell. intros ->. reflexivity. Qed.

  (* tell of a new in-bounds point, before the rescale test *)
  Definition tell_core (s : st) (x : num) (y : Y num) : st :=
    update_losses
      (update_scale (L1D.mk (dset x y (data s)) (remove x (pend s)) (insert x (nb s)) (insert x (nbc s))
                            (los s) (losc s) (bbx s) (bby s) (sx s) (sy s) (osy s) (mgrx s)) x y) x true.

  Lemma tell_unfold s x (y : Y num) : dget x (data s) = None -> L1D.in_bounds ltb eqb P x = true ->
    tell s x y =
    if ltb (mul (factor P) (osy (tell_core s x y))) (sy (tell_core s x y))
    then (let s4 := sweep (tell_core s x y) in
          L1D.mk (data s4) (pend s4) (nb s4) (nbc s4) (los s4) (losc s4) (bbx s4) (bby s4)
                 (sx s4) (sy s4) (sy s4) (mgrx s4))
    else tell_core s x y.
  Proof. intros Hd Hb. unfold L1D.tell, tell_core. rewrite Hd, Hb. reflexivity. Qed.

  Lemma tell_core_sinv s x (y : Y num) : SInv s -> dget x (data s) = None -> SInv (tell_core s x y).
  Proof.
    intros HI Hd. unfold tell_core.
    set (s1 := L1D.mk (dset x y (data s)) (remove x (pend s)) (insert x (nb s)) (insert x (nbc s))
                      (los s) (losc s) (bbx s) (bby s) (sx s) (sy s) (osy s) (mgrx s)).
    set (s2 := update_scale s1 x y).
    destruct (update_scale_frame s1 x y) as [U1 [U2 [U3 [U4 [U5 U6]]]]]. fold s2 in U1, U2, U3, U4, U5, U6.
    assert (Hxnb : ~ In x (nb s)) by (intros Hin; apply (s_real HI) in Hin; congruence).
    assert (Hnb1 : sorted (nb s2)) by (rewrite U3; apply (insert_sorted OL), (s_nb HI)).
    assert (Hnbc1 : sorted (nbc s2)) by (rewrite U4; apply (insert_sorted OL), (s_nbc HI)).
    assert (Hkl : ksorted (los s2)) by (rewrite U5; exact (s_los_sorted HI)).
    assert (Hkc : ksorted (losc s2)) by (rewrite U6; exact (s_losc_sorted HI)).
    pose proof (@update_losses_true s2 x Hkl Hkc) as HU. cbn zeta in HU.
    destruct (find_neighbors_spec x Hnb1) as [Hl1 Hr1]. destruct (find_neighbors_spec x Hnbc1) as [Ha1 Hb1].
    set (s3 := update_losses s2 x true) in *.
    destruct HU as [V1 [V2 [V3 [V4 [V5 [V6 [V7 V8]]]]]]].
    set (xl := fst (find_neighbors x (nb s2))) in *. set (xr := snd (find_neighbors x (nb s2))) in *.
    set (a := fst (find_neighbors x (nbc s2))) in *. set (b := snd (find_neighbors x (nbc s2))) in *.
    rewrite U3 in Hl1, Hr1. rewrite U4 in Ha1, Hb1. cbn [nb nbc s1] in Hl1, Hr1, Ha1, Hb1.
    pose proof (is_left_insert_inv OL _ _ _ Hl1) as Hl0. pose proof (is_right_insert_inv OL _ _ _ Hr1) as Hr0.
    pose proof (is_left_insert_inv OL _ _ _ Ha1) as Ha0. pose proof (is_right_insert_inv OL _ _ _ Hb1) as Hb0.
    assert (Hx1 : In x (insert x (nb s))) by (apply (insert_In OL); left; reflexivity).
    assert (Hxc1 : In x (insert x (nbc s))) by (apply (insert_In OL); left; reflexivity).
    assert (Hs1 : sorted (insert x (nb s))) by (apply (insert_sorted OL), (s_nb HI)).
    assert (Hsc1 : sorted (insert x (nbc s))) by (apply (insert_sorted OL), (s_nbc HI)).
    constructor.
      - rewrite V3. exact Hnb1.
      - rewrite V4. exact Hnbc1.
      - rewrite V2, U2. cbn [pend s1]. apply remove_sorted, (s_pend HI).
      - intros z. rewrite V4, V3, V2, U4, U3, U2. cbn [nbc nb pend s1].
        rewrite !(insert_In OL), (remove_In x z (s_pend HI)), (s_comb HI).
        destruct (eqb z x) eqn:E; [apply (eqb_eq OL) in E; tauto|apply (eqb_neq OL) in E; tauto].
      - intros z. rewrite V3, V1, U3, U1. cbn [nb data s1]. rewrite (insert_In OL), dget_dset.
        intros [->|Hz]; [rewrite (eqb_refl OL); discriminate|].
        destruct (eqb z x); [discriminate|exact (s_real HI _ Hz)].
      - intros z. rewrite V2, V1, U2, U1. cbn [pend data s1]. rewrite (remove_In x z (s_pend HI)), dget_dset.
        intros [Hz Hne]. apply (eqb_neq OL) in Hne. rewrite Hne. exact (s_pd HI _ Hz).
      - exact V5.
      - exact V6.
      - (* keys of losses *)
        intros k. rewrite V7, V3, U3, U5, okey_spec. cbn [nb los s1].
        rewrite (s_los_keys HI).
        pose proof (@adj_insert_gen _ _ _ OL (nb s) x _ _ k (s_nb HI) Hl0 Hr0) as HA.
        split.
        + intros [[Hk|Hk] Hne]; [eapply get_intervals_sub; eauto|]. apply HA. left. split; assumption.
        + intros Hk. pose proof Hk as Hk'. apply HA in Hk' as [[Hk0 Hne]|[[El Ex]|[Ex Er]]].
          * split; [right; exact Hk0|exact Hne].
          * split.
            -- left. destruct k as [p q]; cbn [fst snd] in *. subst q. apply get_intervals_left; assumption.
            -- intros [_ Er]. rewrite Ex in Er. fold xr in Hr0. rewrite Er in Hr0.
               destruct Hr0 as [_ [Hlt _]]. exact (lt_irrefl OL Hlt).
          * split.
            -- left. destruct k as [p q]; cbn [fst snd] in *. subst p. apply get_intervals_right; assumption.
            -- intros [El _]. rewrite Ex in El. fold xl in Hl0. rewrite El in Hl0.
               destruct Hl0 as [_ [Hlt _]]. exact (lt_irrefl OL Hlt).
      - (* keys of losses_combined *)
        intros k. rewrite V8, V4, U4, U3, U6, !okey_spec. cbn [nb nbc losc s1 fst snd].
        rewrite (s_losc_keys HI).
        pose proof (@adj_insert_gen _ _ _ OL (nbc s) x _ _ k (s_nbc HI) Ha0 Hb0) as HA.
        fold a b in HA.
        split.
        + intros [[[[Hk Hne]|[Hk _]] _]|[[_ [E1 E2]]|[_ [E1 E2]]]].
          * apply HA. left. split; assumption.
          * apply (pairs_adj OL Hsc1). exact Hk.
          * apply HA. right; left. split; [exact E1|inversion E2; reflexivity].
          * apply HA. right; right. split; [inversion E1; reflexivity|exact E2].
        + intros Hk.
          assert (Hnot : ~ (xl = Some (fst k) /\ xr = Some (snd k))).
          { intros [El Er]. fold xl in Hl0. fold xr in Hr0. rewrite El in Hl0. rewrite Er in Hr0.
            destruct Hl0 as [_ [H1 _]], Hr0 as [_ [H2 _]]. exact (adj_not_around Hk Hxc1 H1 H2). }
          pose proof Hk as Hk'. apply HA in Hk' as [[Hk0 Hne]|[[Ea Ex]|[Ex Eb]]].
          * left. split; [left; split; assumption|exact Hnot].
          * destruct xl as [l|] eqn:Exl.
            -- left. split; [right|exact Hnot]. split; [apply (pairs_adj OL Hsc1); exact Hk|].
               exists (l, x). split.
               ++ apply get_intervals_left; [exact Hs1|]. apply (left_adj OL); [exact Hx1|]. exact Hl1.
               ++ unfold inside. cbn [fst snd]. apply andb_true_iff. split.
                  ** apply leb_spec. rewrite Ea in Ha0. destruct Ha0 as [_ [_ Hmax]].
                     destruct Hl0 as [Hl [Hlx _]].
                     assert (Hlc : In l (nbc s)) by (apply (s_comb HI); left; exact Hl).
                     destruct (Hmax l Hlc Hlx) as [->|H]; [right; reflexivity|left; exact H].
                  ** rewrite Ea in Ha0. destruct Ha0 as [_ [H _]]. exact H.
            -- right; left. split; [reflexivity|]. split; [exact Ea|rewrite Ex; reflexivity].
          * destruct xr as [r|] eqn:Exr.
            -- left. split; [right|exact Hnot]. split; [apply (pairs_adj OL Hsc1); exact Hk|].
               exists (x, r). split.
               ++ apply get_intervals_right; [exact Hs1|]. apply (right_adj OL); [exact Hx1|]. exact Hr1.
               ++ unfold inside. cbn [fst snd]. apply andb_true_iff. rewrite Ex. split.
                  ** apply leb_spec. right; reflexivity.
                  ** destruct Hr0 as [_ [H _]]. exact H.
            -- right; right. split; [reflexivity|]. split; [rewrite Ex; reflexivity|exact Eb].
  Qed.

  Lemma tell_sinv s x (y : Y num) : SInv s -> L1D.in_bounds ltb eqb P x = true -> SInv (tell s x y).
  Proof.
    intros HI Hb. destruct (dget x (data s)) as [v|] eqn:Hd.
    - rewrite (tell_known s x y Hd). exact HI.
    - rewrite (@tell_unfold s x y Hd Hb). pose proof (@tell_core_sinv s x y HI Hd) as HI3.
      destruct (ltb _ _); [|exact HI3].
      eapply sinv_fields; [..|exact (sweep_sinv HI3)]; reflexivity.
  Qed.

  (* ---------------- the other operations, histories ---------------- *)
  Lemma remove_unfinished_sinv s : SInv s -> SInv (L1D.remove_unfinished s).
  Proof.
    intros [I1 I2 I3 I4 I5 I6 I7 I8 I9 I10]. constructor; cbn; auto.
    - constructor.
    - intros z. tauto.
    - intros z [].
  Qed.

  Lemma fold_tell_pending_sinv pts : forall s, SInv s -> SInv (fold_left tell_pending pts s).
  Proof.
    induction pts as [|p pts IH]; intros s HI; cbn [fold_left]; [exact HI|].
    apply IH. destruct (dget p (data s)) as [v|] eqn:E.
    - rewrite (tell_pending_known s p E). exact HI.
    - apply tell_pending_sinv; assumption.
  Qed.

  Lemma ask_sinv s n c : SInv s -> SInv (fst (ask s n c)).
  Proof.
    intros HI. unfold L1D.ask. cbn [fst]. destruct c; [|exact HI].
    apply fold_tell_pending_sinv. exact HI.
  Qed.

  Lemma fold_tell_sinv (xys : list (num * Y num)) : forall s, SInv s ->
    forallb (fun xy => L1D.in_bounds ltb eqb P (fst xy)) xys = true ->
    SInv (fold_left (fun s xy => tell s (fst xy) (snd xy)) xys s).
  Proof.
    induction xys as [|xy xys IH]; intros s HI Hb; cbn [fold_left]; [exact HI|].
    cbn [forallb] in Hb. apply andb_true_iff in Hb as [Hb1 Hb2].
    apply IH; [apply tell_sinv; assumption|exact Hb2].
  Qed.

  (* the part of the quantifier domain covered by the structural theorem:
     told points lie inside the bounds; tell_many takes its incremental path
     (the batch rebuild is covered by the correspondence and the oracle only) *)
  Definition legal_op (s : st) (o : op num) : bool :=
    match o with
    | Tell x _ => L1D.in_bounds ltb eqb P x
    | TellPending _ => true
    | TellMany xys force =>
        negb force && negb ((length (data s) <? 2 * length xys) && (2 <? length xys)) &&
        forallb (fun xy => L1D.in_bounds ltb eqb P (fst xy)) xys
    | RemoveUnfinished => true
    | Ask _ _ => true
    end.

  Fixpoint legal (s : st) (h : list (op num)) : bool :=
    match h with
    | [] => true
    | o :: h' => legal_op s o && legal (fst (step s o)) h'
    end.

  Lemma step_sinv s o : SInv s -> legal_op s o = true -> SInv (fst (step s o)).
  Proof.
    intros HI Hl. destruct o as [x y|x|xys force| |n c]; cbn [L1D.step fst legal_op] in *.
    - apply tell_sinv; assumption.
    - destruct (dget x (data s)) as [v|] eqn:E.
      + rewrite (tell_pending_known s x E). exact HI.
      + apply tell_pending_sinv; assumption.
    - apply andb_true_iff in Hl as [Hl Hb]. unfold L1D.tell_many. rewrite Hl.
      apply fold_tell_sinv; assumption.
    - apply remove_unfinished_sinv; exact HI.
    - apply ask_sinv; exact HI.
  Qed.

  Lemma run_cons s o h : run s (o :: h) = run (fst (step s o)) h.
  Proof. reflexivity. Qed.

  Theorem run_sinv h : forall s, SInv s -> legal s h = true -> SInv (run s h).
  Proof.
    induction h as [|o h IH]; intros s HI Hl; [exact HI|].
    rewrite run_cons. cbn [legal] in Hl. apply andb_true_iff in Hl as [Hl1 Hl2].
    apply IH; [apply step_sinv; assumption|exact Hl2].
  Qed.

  Theorem structure_inv h : legal init h = true -> SInv (run init h).
  Proof. intros Hl. apply run_sinv; [apply sinv_init|exact Hl]. Qed.
End Struct.
