(* Order irrelevance (property C11) for the LOSS TABLE of the Learner1D model
   when every rescale triggers a full recomputation (_recompute_losses_factor
   = 1, the setting the property and the suite use).

   Built on the structural invariant (Proofs/L1DStruct.v: the table is keyed
   by the neighbouring pairs of the evaluated points) and the frame lemmas of
   Proofs/L1DValues.v.  New here: for factor = 1 the values invariant can be
   sharpened to "every stored loss is the loss function on the current data
   at the CURRENT y-scale, and _oldscale = _scale" ([VInv1]), provided the
   y-scale never shrinks ([grows], discharged below for scalar outputs in any
   ordered structure with a monotone subtraction).  Hence the table is a
   function of the data-level components, which do not depend on the order
   (Proofs/OrderL1D.v). *)
From AV Require Import Base.Prelude Base.SortLemmas Model.L1D
  Proofs.L1DOrder Proofs.L1DMaps Proofs.L1DWindow Proofs.L1DStruct Proofs.L1DLoss Proofs.L1DValues.
From AV Require Proofs.OrderProofs Proofs.OrderL1D.
From Coq Require Import Sorted Permutation ZArith QArith Qcanon.

Section LossOrder.
  Variable num : Type.
  Variables (add sub mul div : num -> num -> num).
  Variables (ltb eqb : num -> num -> bool).
  Variables (zero one inf neg_inf : num).
  Variables (is_nan is_inf : num -> bool).
  Variable round12 : num -> num.
  Variable of_nat : nat -> num.
  Variable L : list (option num) -> list (option (Y num)) -> num.
  Variable P : params num.
  Hypothesis OLx : OrderL1D.OrdLaws ltb eqb is_nan.
  (* _recompute_losses_factor = 1 *)
  Hypothesis F1 : forall a, mul (factor P) a = a.

  Lemma OL : L1DOrder.OrdLaws ltb eqb.
  Proof.
    constructor.
    - apply (OrderL1D.ol_eqb OLx).
    - apply (OrderL1D.ol_irrefl OLx).
    - apply (OrderL1D.ol_trans OLx).
    - apply (OrderL1D.ol_total OLx).
  Qed.

  Notation st := (st num).
  Notation ival := (num * num)%type.
  Notation insert := (@insert num ltb eqb).
  Notation dget := (@dget num eqb).
  Notation dset := (@dset num ltb eqb).
  Notation lget := (@lget num eqb).
  Notation get_intervals := (@get_intervals num eqb P).
  Notation get_loss := (@get_loss num sub div ltb eqb zero one L P).
  Notation lt := (lt ltb).
  Notation sorted := (sorted ltb).
  Notation adj := (adj ltb).
  Notation update_interp := (@update_interp num sub mul div ltb eqb zero one L P).
  Notation update_losses := (@update_losses num sub mul div ltb eqb zero one inf L P).
  Notation update_scale := (@update_scale num sub ltb zero inf neg_inf is_nan).
  Notation sweep := (@sweep num sub mul div ltb eqb zero one is_nan is_inf round12 L P).
  Notation tell := (@tell num sub mul div ltb eqb zero one inf neg_inf is_nan is_inf round12 L P).
  Notation tell_pending := (@tell_pending num sub mul div ltb eqb zero one inf L P).
  Notation find_neighbors := (@find_neighbors num ltb).
  Notation ksorted := (@ksorted num ltb eqb).
  Notation okey := (@okey num).
  Notation keys := (@keys num).
  Notation SInv := (@SInv num ltb eqb).
  Notation in_bounds := (L1D.in_bounds ltb eqb P).
  Notation loss_of := (@loss_of num sub div ltb eqb zero one L P).
  Notation loss := (@L1D.loss num sub div ltb eqb inf is_nan is_inf round12 P).

  (* every stored loss is the loss function at the current scale *)
  Record VInv1 (s : st) : Prop := {
    w_box : bbx s = (lo P, hi P);
    w_sx : sx s = sub (hi P) (lo P);
    w_osy : osy s = sy s;
    w_vals : forall iv, In iv (keys (los s)) ->
               lget iv (los s) = Some (loss_of (nb s) (data s) (sx s) (sy s) (fst iv) (snd iv))
  }.

  Lemma vinv1_init : VInv1 (@init num sub zero inf neg_inf P).
  Proof. constructor; cbn; [reflexivity|reflexivity|reflexivity|intros iv []]. Qed.

  (* the y-scale does not shrink when (x, y) arrives *)
  Definition grows (s : st) (x : num) (y : Y num) : Prop :=
    ltb (sy (update_scale s x y)) (sy s) = false.

  Lemma tell_vinv1 (s : st) x (y : Y num) :
    SInv s -> VInv1 s -> in_bounds x = true -> grows s x y -> VInv1 (tell s x y).
  Proof.
    intros HI HV Hb Hg. pose proof OL as OL. unfold L1D.tell.
    destruct (dget x (data s)) as [v|] eqn:Hd; [exact HV|].
    rewrite Hb. cbn [negb].
    set (s1 := L1D.mk (data _) (pend _) (insert x (nb _)) (insert x (nbc _)) (los _) (losc _)
                      (bbx _) (bby _) (sx _) (sy _) (osy _) (mgrx _)).
    cbn [data pend nb nbc los losc bbx bby sx sy osy mgrx] in s1.
    set (s2 := update_scale s1 x y).
    assert (Hsy2 : sy s2 = sy (update_scale s x y)).
    { unfold s2, s1, L1D.update_scale. cbn [bbx bby]. destruct y as [v|vs]; [reflexivity|].
      destruct (bby s) as [[m|m] [M|M]]; reflexivity. }
    destruct (update_scale_frame add sub mul div ltb zero inf neg_inf is_nan is_inf round12 s1 x y)
      as [U1 [U2 [U3 [U4 [U5 U6]]]]]. fold s2 in U1, U2, U3, U4, U5, U6.
    destruct (update_scale_box add sub mul div zero inf neg_inf is_nan is_inf round12 P OL s1 x y (w_box _ HV) Hb)
      as [B1 [B2 B3]]. fold s2 in B1, B2, B3.
    assert (Hxnb : ~ In x (nb s)) by (intros Hin; apply (s_real HI) in Hin; congruence).
    assert (Hkl : ksorted (los s2)) by (rewrite U5; exact (s_los_sorted HI)).
    assert (Hkc : ksorted (losc s2)) by (rewrite U6; exact (s_losc_sorted HI)).
    pose proof (update_losses_true add sub mul div zero one inf is_nan is_inf round12 L P OL s2 x Hkl Hkc) as HU.
    cbn zeta in HU. destruct HU as [V1 [V2 [V3 [V4 [V5 [V6 [V7 V8]]]]]]].
    pose proof (update_losses_true_values add sub mul div zero one inf is_nan is_inf round12 L P OL s2 x Hkl) as HW.
    cbn zeta in HW. destruct HW as [[W1 [W2 [W3 W4]]] [Wa Wb]].
    assert (Hnb1 : sorted (nb s2)) by (rewrite U3; apply (insert_sorted OL), (s_nb HI)).
    destruct (find_neighbors_spec OL x Hnb1) as [Hl1 Hr1].
    set (s3 := update_losses s2 x true) in *.
    set (xl := fst (find_neighbors x (nb s2))) in *. set (xr := snd (find_neighbors x (nb s2))) in *.
    rewrite U3 in Hl1, Hr1. cbn [nb s1] in Hl1, Hr1.
    pose proof (is_left_insert_inv OL _ _ _ Hl1) as Hl0. pose proof (is_right_insert_inv OL _ _ _ Hr1) as Hr0.
    (* values after update_losses: at the new scale for the recomputed
       intervals, at the old one for the others *)
    assert (HV3 : forall iv, In iv (keys (los s3)) -> exists g,
              (g = sy s3 \/ g = sy s) /\
              lget iv (los s3) = Some (loss_of (nb s3) (data s3) (sx s3) g (fst iv) (snd iv))).
    { intros iv Hk. apply V7 in Hk as [Hk Hne].
      destruct (In_dec_ival OL iv (get_intervals x (nb s2))) as [Hin|Hnin].
      - exists (sy s3). split; [left; reflexivity|]. rewrite (Wa iv Hne Hin), get_loss_loss_of.
        rewrite V3, V1, W1, W2. reflexivity.
      - destruct Hk as [Hk|Hk]; [contradiction|]. rewrite U5 in Hk. cbn [los s1] in Hk.
        pose proof (w_vals _ HV iv Hk) as Hv. exists (sy s). split; [right; reflexivity|].
        rewrite (Wb iv Hne Hnin), U5. cbn [los s1]. rewrite Hv. f_equal.
        rewrite V3, V1, W1, U3, U1, B2, (w_sx _ HV). cbn [nb data s1].
        destruct iv as [a b]; cbn [fst snd].
        pose proof (proj1 (s_los_keys HI (a, b)) Hk) as Hadj0.
        symmetry. apply (loss_of_frame sub div zero one L P OL); [exact (s_nb HI)|exact Hxnb| | | |].
        * apply (@adj_insert_gen _ _ _ OL (nb s) x _ _ (a, b) (s_nb HI) Hl0 Hr0). left. split; [exact Hadj0|].
          intros Hok. apply Hne. apply (okey_spec add sub mul div zero is_nan is_inf round12). exact Hok.
        * intros ->. apply Hxnb. apply Hadj0.
        * intros ->. apply Hxnb. apply Hadj0.
        * rewrite U3 in Hnin. exact Hnin. }
    assert (HB3 : bbx s3 = (lo P, hi P) /\ sx s3 = sub (hi P) (lo P)).
    { rewrite W4, W1. split; assumption. }
    destruct (ltb (mul (factor P) (osy s3)) (sy s3)) eqn:Esw.
    - (* full recomputation *)
      destruct (sweep_facts add sub mul div zero one is_nan is_inf round12 L P OL s3) as [Hkeys [N1 [N2 [N3 [N4 N5]]]]].
      constructor; cbn [bbx sx sy los nb data osy].
      + rewrite N5. tauto.
      + rewrite N3. tauto.
      + reflexivity.
      + intros iv Hk. apply Hkeys in Hk.
        rewrite (sweep_resets_all sub mul div zero one is_nan is_inf round12 L P OL s3 iv Hk).
        rewrite get_loss_loss_of. reflexivity.
    - (* no recomputation: the scale did not change *)
      rewrite F1 in Esw. rewrite W3, B3 in Esw. cbn [osy s1] in Esw. rewrite (w_osy _ HV) in Esw.
      assert (Eq : sy s3 = sy s).
      { unfold grows in Hg. rewrite <- Hsy2, <- W2 in Hg. symmetry. apply (ltb_total OL); assumption. }
      constructor; [tauto|tauto| |].
      + rewrite W3, B3. cbn [osy s1]. rewrite (w_osy _ HV). symmetry. exact Eq.
      + intros iv Hk. destruct (HV3 iv Hk) as [g [[->| ->] Hv]]; [exact Hv|]. rewrite Eq. exact Hv.
  Qed.

  Lemma vinv1_fields (s s' : st) :
    nb s' = nb s -> data s' = data s -> los s' = los s -> sx s' = sx s -> sy s' = sy s -> osy s' = osy s ->
    bbx s' = bbx s -> VInv1 s -> VInv1 s'.
  Proof.
    intros E1 E2 E3 E4 E5 E6 E7 [H1 H2 H3 H4]. constructor; rewrite ?E1, ?E2, ?E3, ?E4, ?E5, ?E6, ?E7; auto.
  Qed.

  Lemma update_losses_false_sy (s : st) x : sy (update_losses s x false) = sy s.
  Proof.
    unfold L1D.update_losses.
    destruct (find_neighbors x (nb s)) as [xl xr]. destruct (find_neighbors x (nbc s)) as [a b].
    destruct xl as [l|], xr as [r|]; cbn [negb andb];
      try destruct (lget (l, r) _); reflexivity.
  Qed.

  Lemma tell_pending_vinv1 (s : st) x : VInv1 s -> VInv1 (tell_pending s x).
  Proof.
    intros HV. unfold L1D.tell_pending. destruct (dget x (data s)); [exact HV|].
    set (s1 := L1D.mk _ _ _ _ _ _ _ _ _ _ _ _).
    destruct (update_losses_false_frame add sub mul div ltb eqb zero one inf is_nan is_inf round12 L P s1 x)
      as [G1 [G2 [G3 [G4 G5]]]].
    destruct (update_losses_false_scalars add sub mul div ltb eqb zero one inf is_nan is_inf round12 L P s1 x) as [K1 [K2 K3]].
    pose proof (update_losses_false_sy s1 x) as K4.
    eapply vinv1_fields; [..|exact HV]; [rewrite G3|rewrite G1|rewrite G5|rewrite K1|rewrite K4|rewrite K2|rewrite K3]; reflexivity.
  Qed.

  (* ---------------- lists of results ---------------- *)
  Definition tell1 (s : st) (p : num * Y num) : st := tell s (fst p) (snd p).

  Fixpoint grows_along (s : st) (l : list (num * Y num)) : Prop :=
    match l with
    | [] => True
    | p :: l' => grows s (fst p) (snd p) /\ grows_along (tell1 s p) l'
    end.

  Lemma fold_tell_inv (l : list (num * Y num)) : forall s,
    SInv s -> VInv1 s -> Forall (fun p => in_bounds (fst p) = true) l -> grows_along s l ->
    SInv (fold_left tell1 l s) /\ VInv1 (fold_left tell1 l s).
  Proof.
    induction l as [|[x y] l IH]; intros s HI HV Hb Hg; cbn [fold_left]; [split; assumption|].
    inversion Hb as [|? ? Hb1 Hb2]; subst. destruct Hg as [Hg1 Hg2]. cbn [fst snd] in *.
    apply IH; try assumption.
    - apply (tell_sinv add sub mul div zero one inf neg_inf is_nan is_inf round12 L P OL); assumption.
    - apply tell_vinv1; assumption.
  Qed.

  (* two states satisfying both invariants whose data-level components agree
     have the same loss table *)
  Lemma los_determined (s t : st) : SInv s -> VInv1 s -> SInv t -> VInv1 t ->
    nb s = nb t -> data s = data t -> sx s = sx t -> sy s = sy t -> los s = los t.
  Proof.
    intros HIs HVs HIt HVt E1 E2 E3 E4.
    apply (ksorted_ext OL); [exact (s_los_sorted HIs)|exact (s_los_sorted HIt)|].
    intros iv.
    destruct (In_dec_ival OL iv (keys (los s))) as [Hin|Hnin].
    - assert (Hin' : In iv (keys (los t))).
      { apply (s_los_keys HIt). rewrite <- E1. apply (s_los_keys HIs). exact Hin. }
      rewrite (w_vals _ HVs iv Hin), (w_vals _ HVt iv Hin'), E1, E2, E3, E4. reflexivity.
    - assert (Hnin' : ~ In iv (keys (los t))).
      { intros H. apply Hnin. apply (s_los_keys HIs). rewrite E1. apply (s_los_keys HIt). exact H. }
      apply (lget_None OL) in Hnin. apply (lget_None OL) in Hnin'. rewrite Hnin, Hnin'. reflexivity.
  Qed.

  Lemma mgrx_update_interp (s : st) iv : mgrx (update_interp s iv) = mgrx s.
  Proof. destruct iv as [a b]. reflexivity. Qed.

  Lemma mgrx_fold_interp ivs : forall s : st, mgrx (fold_left update_interp ivs s) = mgrx s.
  Proof.
    induction ivs as [|iv ivs IH]; intros s; cbn [fold_left]; [reflexivity|].
    rewrite IH. apply mgrx_update_interp.
  Qed.

  Lemma mgrx_update_losses (s : st) x real : mgrx (update_losses s x real) = mgrx s.
  Proof.
    unfold L1D.update_losses.
    destruct (find_neighbors x (nb s)) as [xl xr].
    destruct (L1D.find_neighbors ltb x (nbc s)) as [a b].
    destruct real.
    - repeat match goal with
             | |- context[if ?c then _ else _] => destruct c
             end; cbn [mgrx L1D.with_los]; rewrite ?mgrx_fold_interp; reflexivity.
    - destruct xl as [l0|], xr as [r0|]; cbn [negb andb];
        try (destruct (lget (l0, r0) (los (L1D.with_los s (los s) (L1D.lpop_opt eqb a b (losc s))))));
        repeat match goal with
               | |- context[if ?c then _ else _] => destruct c
               end; reflexivity.
  Qed.

  Lemma mgrx_update_scale (s : st) x (y : Y num) : mgrx (update_scale s x y) = mgrx s.
  Proof.
    unfold L1D.update_scale. destruct y as [v|vs]; [reflexivity|].
    destruct (bby s) as [[m|m] [M|M]]; reflexivity.
  Qed.

  Lemma mgrx_tell (s : st) x (y : Y num) : mgrx (tell s x y) = mgrx s.
  Proof.
    unfold L1D.tell. destruct (dget x (data s)); [reflexivity|].
    destruct (negb (in_bounds x)); [reflexivity|].
    match goal with |- context[if ?c then _ else _] => destruct c end; cbn [mgrx].
    - unfold L1D.sweep. rewrite mgrx_fold_interp, mgrx_update_losses, mgrx_update_scale. reflexivity.
    - rewrite mgrx_update_losses, mgrx_update_scale. reflexivity.
  Qed.

  Lemma mgrx_fold (l : list (num * Y num)) : forall s, mgrx (fold_left tell1 l s) = mgrx s.
  Proof.
    induction l as [|p l IH]; intros s; cbn [fold_left]; [reflexivity|]. rewrite IH. apply mgrx_tell.
  Qed.

  (* ---------------- the theorem ---------------- *)
  Theorem l1d_losses_order_irrelevant (s : st) (l1 l2 : list (num * Y num)) :
    SInv s -> VInv1 s ->
    OrderProofs.Pairwise (@OrderL1D.related num) l1 -> Permutation l1 l2 ->
    Forall (fun p => in_bounds (fst p) = true) l1 ->
    grows_along s l1 -> grows_along s l2 ->
    let t1 := fold_left tell1 l1 s in let t2 := fold_left tell1 l2 s in
    los t1 = los t2 /\ loss t1 true = loss t2 true /\ osy t1 = osy t2 /\ mgrx t1 = mgrx t2.
  Proof.
    intros HI HV HW HP Hb Hg1 Hg2 t1 t2.
    assert (Hb2 : Forall (fun p => in_bounds (fst p) = true) l2).
    { rewrite Forall_forall in *. intros p Hp. apply Hb. eapply Permutation_in; [apply Permutation_sym; exact HP|exact Hp]. }
    destruct (fold_tell_inv l1 s HI HV Hb Hg1) as [HI1 HV1].
    destruct (fold_tell_inv l2 s HI HV Hb2 Hg2) as [HI2 HV2].
    pose proof (OrderL1D.l1d_data_level_order_irrelevant num sub mul div ltb eqb zero one inf neg_inf
                  is_nan is_inf round12 L P OLx s l1 l2 HW HP) as HD.
    change (OrderL1D.tell1 num sub mul div ltb eqb zero one inf neg_inf is_nan is_inf round12 L P) with tell1 in HD.
    fold t1 t2 in HD, HI1, HV1, HI2, HV2. unfold OrderL1D.proj in HD. inversion HD as [[D1 D2 D3 D4 D5 D6 D7 D8]].
    assert (El : los t1 = los t2) by (apply los_determined; assumption).
    assert (Em : mgrx t1 = mgrx t2) by (unfold t1, t2; rewrite !mgrx_fold; reflexivity).
    split; [exact El|]. split; [|split; [rewrite (w_osy _ HV1), (w_osy _ HV2); exact D8|exact Em]].
    unfold L1D.loss, L1D.missing_bounds. rewrite D1, D2, El, Em. reflexivity.
  Qed.
End LossOrder.

(* ------------------------------------------------------------------ *)
(* The y-scale never shrinks for scalar outputs, in every ordered structure
   whose subtraction is monotone. *)
Record ScaleLaws (num : Type) (sub : num -> num -> num) (ltb : num -> num -> bool) (zero : num) : Prop := {
  sl_sub_self : forall a, sub a a = zero;
  sl_sub_mono : forall a a' b b', ltb a' a = false -> ltb b b' = false -> ltb (sub a' b') (sub a b) = false
}.
Arguments ScaleLaws {num} sub ltb zero.
Arguments sl_sub_self {num sub ltb zero}. Arguments sl_sub_mono {num sub ltb zero}.

Section ScalarGrowth.
  Variable num : Type.
  Variables (add sub mul div : num -> num -> num).
  Variables (ltb eqb : num -> num -> bool).
  Variables (zero one inf neg_inf : num).
  Variables (is_nan is_inf : num -> bool).
  Variable round12 : num -> num.
  Variable L : list (option num) -> list (option (Y num)) -> num.
  Variable P : params num.
  Hypothesis OLx : OrderL1D.OrdLaws ltb eqb is_nan.
  Hypothesis SL : ScaleLaws sub ltb zero.

  Notation st := (st num).
  Notation update_scale := (@update_scale num sub ltb zero inf neg_inf is_nan).
  Notation tell := (@tell num sub mul div ltb eqb zero one inf neg_inf is_nan is_inf round12 L P).
  Notation tell_pending := (@tell_pending num sub mul div ltb eqb zero one inf L P).
  Notation grows := (grows num sub ltb zero inf neg_inf is_nan).
  Notation grows_along := (grows_along num sub mul div ltb eqb zero one inf neg_inf is_nan is_inf round12 L P).
  Notation tell1 := (tell1 num sub mul div ltb eqb zero one inf neg_inf is_nan is_inf round12 L P).

  Definition finite (v : num) : Prop := ltb v inf = true /\ ltb neg_inf v = true.

  (* bounding box of the values and the y-scale belong together *)
  Definition BB (s : st) : Prop :=
    (bby s = (YS inf, YS neg_inf) /\ sy s = zero) \/
    (exists m0 m1, bby s = (YS m0, YS m1) /\ sy s = sub m1 m0 /\ ltb m1 m0 = false).

  Lemma asym a b : ltb a b = true -> ltb b a = false.
  Proof.
    intros H. destruct (ltb b a) eqn:E; [|reflexivity].
    pose proof (OrderL1D.ol_trans OLx _ _ _ H E) as H0. rewrite (OrderL1D.ol_irrefl OLx) in H0. discriminate.
  Qed.

  Lemma nlt_trans a b c : ltb b a = false -> ltb c b = false -> ltb c a = false.
  Proof.
    intros H1 H2. destruct (ltb c a) eqn:E; [|reflexivity]. exfalso.
    destruct (ltb b c) eqn:E2.
    - rewrite (OrderL1D.ol_trans OLx _ _ _ E2 E) in H1. discriminate.
    - pose proof (OrderL1D.ol_total OLx _ _ E2 H2). subst. rewrite E in H1. discriminate.
  Qed.

  Lemma pmin_le m v : ltb m (pmin ltb m v) = false.
  Proof. unfold pmin. destruct (ltb v m) eqn:E; [apply asym; exact E|apply (OrderL1D.ol_irrefl OLx)]. Qed.
  Lemma pmax_ge m v : ltb (pmax ltb m v) m = false.
  Proof. unfold pmax. destruct (ltb m v) eqn:E; [apply asym; exact E|apply (OrderL1D.ol_irrefl OLx)]. Qed.

  Lemma scalar_step (s : st) x v : BB s -> finite v ->
    grows s x (YS v) /\ BB (update_scale s x (YS v)).
  Proof.
    intros HB [Hv1 Hv2]. unfold OrderL1DLoss.grows.
    destruct HB as [[Eb Es]|[m0 [m1 [Eb [Es Hle]]]]]; unfold L1D.update_scale; rewrite Eb; cbn [fst snd sy bby].
    - assert (E1 : pmin ltb inf v = v) by (unfold pmin; rewrite Hv1; reflexivity).
      assert (E2 : pmax ltb neg_inf v = v) by (unfold pmax; rewrite Hv2; reflexivity).
      rewrite E1, E2, Es, (sl_sub_self SL). split; [apply (OrderL1D.ol_irrefl OLx)|].
      right. exists v, v. repeat split; [symmetry; apply (sl_sub_self SL)|apply (OrderL1D.ol_irrefl OLx)].
    - rewrite Es. split.
      + apply (sl_sub_mono SL); [apply pmax_ge|apply pmin_le].
      + right. exists (pmin ltb m0 v), (pmax ltb m1 v). repeat split.
        apply (nlt_trans _ m1); [|apply pmax_ge]. apply (nlt_trans _ m0); [apply pmin_le|exact Hle].
  Qed.

  Lemma tell_bby_sy (s : st) x (y : Y num) :
    (bby (tell s x y) = bby s /\ sy (tell s x y) = sy s) \/
    (bby (tell s x y) = bby (update_scale s x y) /\ sy (tell s x y) = sy (update_scale s x y)).
  Proof.
    pose proof (OrderL1D.proj_tell num sub mul div ltb eqb zero one inf neg_inf is_nan is_inf round12 L P s x y) as H.
    unfold OrderL1D.proj in H at 1.
    assert (Hb : bby (tell s x y) = OrderL1D.d_bby num (OrderL1D.tell_d num sub ltb eqb zero inf neg_inf is_nan P (OrderL1D.proj num s) x y))
      by (rewrite <- H; reflexivity).
    assert (Hs : sy (tell s x y) = OrderL1D.d_sy num (OrderL1D.tell_d num sub ltb eqb zero inf neg_inf is_nan P (OrderL1D.proj num s) x y))
      by (rewrite <- H; reflexivity).
    rewrite Hb, Hs. unfold OrderL1D.tell_d, OrderL1D.proj. cbn [OrderL1D.d_data OrderL1D.d_bbx OrderL1D.d_bby OrderL1D.d_sx OrderL1D.d_sy].
    destruct (dget eqb x (data s)); [left; split; reflexivity|].
    destruct (negb (in_bounds ltb eqb P x)); [left; split; reflexivity|].
    right. unfold OrderL1D.scale_of, L1D.update_scale. cbn [bbx bby sx sy].
    destruct y as [v|vs]; [split; reflexivity|].
    destruct (bby s) as [[m|m] [M|M]]; split; reflexivity.
  Qed.

  Lemma BB_tell (s : st) x v : BB s -> finite v -> BB (tell s x (YS v)).
  Proof.
    intros HB Hv. destruct (scalar_step s x v HB Hv) as [_ HB'].
    destruct (tell_bby_sy s x (YS v)) as [[E1 E2]|[E1 E2]]; unfold BB in *; rewrite E1, E2; assumption.
  Qed.

  Lemma BB_init : BB (@init num sub zero inf neg_inf P).
  Proof. left. split; reflexivity. Qed.

  Lemma BB_tell_pending (s : st) x : BB s -> BB (tell_pending s x).
  Proof.
    intros HB. unfold L1D.tell_pending. destruct (dget eqb x (data s)); [exact HB|].
    set (s1 := L1D.mk _ _ _ _ _ _ _ _ _ _ _ _).
    assert (E : bby (update_losses sub mul div ltb eqb zero one inf L P s1 x false) = bby s /\
                sy (update_losses sub mul div ltb eqb zero one inf L P s1 x false) = sy s).
    { pose proof (OrderL1D.proj_update_losses num sub mul div ltb eqb zero one inf L P s1 x false) as H.
      unfold OrderL1D.proj in H. inversion H. split; reflexivity. }
    destruct E as [E1 E2]. unfold BB. rewrite E1, E2. exact HB.
  Qed.

  Lemma grows_along_scalar (l : list (num * Y num)) : forall s, BB s ->
    Forall (fun p => exists v, snd p = YS v /\ finite v) l -> grows_along s l.
  Proof.
    induction l as [|[x y] l IH]; intros s HB Hl; cbn [OrderL1DLoss.grows_along]; [exact I|].
    inversion Hl as [|? ? [v [Ey Hv]] Hl']; subst. cbn [fst snd] in *. subst y.
    split; [apply (scalar_step s x v HB Hv)|].
    apply IH; [|exact Hl']. unfold OrderL1DLoss.tell1; cbn [fst snd]. apply BB_tell; assumption.
  Qed.
End ScalarGrowth.

(* the laws are inhabited by the canonical rationals *)
Lemma ScaleLaws_Qc : ScaleLaws Qcminus OrderL1D.Qc_ltb (Q2Qc 0).
Proof.
  assert (Hle : forall a b, OrderL1D.Qc_ltb a b = false <-> (b <= a)%Qc).
  { intros a b. unfold OrderL1D.Qc_ltb. destruct (Qclt_le_dec a b) as [H|H]; split; intros; try discriminate; auto.
    exfalso. exact (Qclt_not_le _ _ H H0). }
  split.
  - intros a. ring.
  - intros a a' b b' H1 H2. apply Hle in H1, H2. apply Hle.
    unfold Qcminus. apply Qcplus_le_compat; [exact H1|apply Qcopp_le_compat; exact H2].
Qed.

(* ------------------------------------------------------------------ *)
(* Assembled: start from a fresh learner on which an arbitrary list of points
   was marked pending; tell a set of distinct in-bounds points with finite
   scalar values in two different orders. *)
Section Assembled.
  Variable num : Type.
  Variables (add sub mul div : num -> num -> num).
  Variables (ltb eqb : num -> num -> bool).
  Variables (zero one inf neg_inf : num).
  Variables (is_nan is_inf : num -> bool).
  Variable round12 : num -> num.
  Variable L : list (option num) -> list (option (Y num)) -> num.
  Variable P : params num.
  Hypothesis OLx : OrderL1D.OrdLaws ltb eqb is_nan.
  Hypothesis F1 : forall a, mul (factor P) a = a.
  Hypothesis SL : ScaleLaws sub ltb zero.

  Notation st := (st num).
  Notation tell_pending := (@tell_pending num sub mul div ltb eqb zero one inf L P).
  Notation init := (@init num sub zero inf neg_inf P).
  Notation tell1 := (tell1 num sub mul div ltb eqb zero one inf neg_inf is_nan is_inf round12 L P).
  Notation loss := (@L1D.loss num sub div ltb eqb inf is_nan is_inf round12 P).
  Notation finite := (finite num ltb inf neg_inf).

  Definition good_result (p : num * Y num) : Prop :=
    in_bounds ltb eqb P (fst p) = true /\ exists v, snd p = YS v /\ finite v.

  Lemma start_invariants (pts : list num) :
    let s0 := fold_left tell_pending pts init in
    SInv ltb eqb s0 /\ VInv1 num sub div ltb eqb zero one L P s0 /\ BB num sub ltb zero inf neg_inf s0.
  Proof.
    cbn zeta. pose proof (OL num ltb eqb is_nan OLx) as OL.
    assert (H : forall s : st, SInv ltb eqb s /\ VInv1 num sub div ltb eqb zero one L P s /\ BB num sub ltb zero inf neg_inf s ->
                SInv ltb eqb (fold_left tell_pending pts s) /\ VInv1 num sub div ltb eqb zero one L P (fold_left tell_pending pts s) /\
                BB num sub ltb zero inf neg_inf (fold_left tell_pending pts s)).
    { induction pts as [|p pts IH]; intros s Hs; cbn [fold_left]; [exact Hs|].
      destruct Hs as [H1 [H2 H3]]. apply IH. split; [|split].
      - apply (fold_tell_pending_sinv add sub mul div zero one inf is_nan is_inf round12 L P OL [p] H1).
      - apply (tell_pending_vinv1 num add sub mul div ltb eqb zero one inf is_nan is_inf round12 L P). exact H2.
      - apply BB_tell_pending. exact H3. }
    apply H. split; [apply (sinv_init add sub mul div ltb eqb zero inf neg_inf is_nan is_inf round12 P)|].
    split; [apply vinv1_init|apply BB_init].
  Qed.

  Theorem l1d_losses_scalar (pts : list num) (l1 l2 : list (num * Y num)) :
    NoDup (map fst l1) -> Forall good_result l1 -> Permutation l1 l2 ->
    let s0 := fold_left tell_pending pts init in
    let t1 := fold_left tell1 l1 s0 in let t2 := fold_left tell1 l2 s0 in
    los t1 = los t2 /\ loss t1 true = loss t2 true /\ osy t1 = osy t2 /\ mgrx t1 = mgrx t2.
  Proof.
    intros Hnd Hg HP s0.
    destruct (start_invariants pts) as [HI [HV HB]]. fold s0 in HI, HV, HB.
    assert (Hg2 : Forall good_result l2).
    { rewrite Forall_forall in *. intros p Hp. apply Hg. eapply Permutation_in; [apply Permutation_sym; exact HP|exact Hp]. }
    assert (Hrel : OrderProofs.Pairwise (@OrderL1D.related num) l1).
    { apply OrderProofs.Pairwise_and; [apply (OrderProofs.NoDup_keys_Pairwise fst); exact Hnd|].
      clear Hnd HP. induction l1 as [|p l IH]; cbn [OrderProofs.Pairwise]; [exact I|].
      inversion Hg as [|? ? Hp Hl]; subst. split; [|apply IH; exact Hl].
      rewrite Forall_forall in *. intros q Hq. destruct Hp as [_ [v [-> _]]]. destruct (Hl q Hq) as [_ [w [-> _]]]. exact I. }
    assert (Hsc : forall l, Forall good_result l -> Forall (fun p => exists v, snd p = YS v /\ finite v) l).
    { intros l H. eapply Forall_impl; [|exact H]. intros p [_ Hp]. exact Hp. }
    assert (Hbd : forall l, Forall good_result l -> Forall (fun p => in_bounds ltb eqb P (fst p) = true) l).
    { intros l H. eapply Forall_impl; [|exact H]. intros p [Hp _]. exact Hp. }
    apply (l1d_losses_order_irrelevant num add sub mul div ltb eqb zero one inf neg_inf is_nan is_inf round12 L P OLx F1
             s0 l1 l2 HI HV Hrel HP (Hbd _ Hg)).
    - apply (grows_along_scalar num sub mul div ltb eqb zero one inf neg_inf is_nan is_inf round12 L P OLx SL); [exact HB|apply Hsc; exact Hg].
    - apply (grows_along_scalar num sub mul div ltb eqb zero one inf neg_inf is_nan is_inf round12 L P OLx SL); [exact HB|apply Hsc; exact Hg2].
  Qed.
End Assembled.

Lemma ScaleLaws_Z : ScaleLaws Z.sub Z.ltb 0%Z.
Proof.
  split.
  - intros a. lia.
  - intros a a' b b' H1 H2. apply Z.ltb_ge in H1, H2. apply Z.ltb_ge. lia.
Qed.

(* closed instance over the canonical rationals *)
Theorem l1d_losses_scalar_Qc :
  forall (Lf : list (option Qc) -> list (option (L1D.Y Qc)) -> Qc) (P : L1D.params Qc)
         (inf neg_inf : Qc) (round12 : Qc -> Qc),
  L1D.factor P = Q2Qc 1 ->
  forall (pending : list Qc) (l1 l2 : list (Qc * L1D.Y Qc)),
  NoDup (map fst l1) ->
  Forall (good_result Qc OrderL1D.Qc_ltb OrderL1D.Qc_eqb inf neg_inf P) l1 ->
  Permutation l1 l2 ->
  let tp := @L1D.tell_pending Qc Qcminus Qcmult Qcdiv OrderL1D.Qc_ltb OrderL1D.Qc_eqb (Q2Qc 0) (Q2Qc 1) inf Lf P in
  let t := OrderL1D.tell1 Qc Qcminus Qcmult Qcdiv OrderL1D.Qc_ltb OrderL1D.Qc_eqb (Q2Qc 0) (Q2Qc 1) inf neg_inf
             (fun _ => false) (fun _ => false) round12 Lf P in
  let s0 := fold_left tp pending (@L1D.init Qc Qcminus (Q2Qc 0) inf neg_inf P) in
  let loss := @L1D.loss Qc Qcminus Qcdiv OrderL1D.Qc_ltb OrderL1D.Qc_eqb inf (fun _ => false) (fun _ => false) round12 P in
  L1D.los (fold_left t l1 s0) = L1D.los (fold_left t l2 s0) /\
  loss (fold_left t l1 s0) true = loss (fold_left t l2 s0) true.
Proof.
  intros Lf P inf neg_inf round12 HF pending l1 l2 Hnd Hg HP.
  assert (F1 : forall a, Qcmult (L1D.factor P) a = a) by (intros a; rewrite HF; ring).
  destruct (l1d_losses_scalar Qc Qcplus Qcminus Qcmult Qcdiv OrderL1D.Qc_ltb OrderL1D.Qc_eqb (Q2Qc 0) (Q2Qc 1)
              inf neg_inf (fun _ => false) (fun _ => false) round12 Lf P
              OrderL1D.OrdLaws_Qc F1 ScaleLaws_Qc pending l1 l2 Hnd Hg HP) as [H1 [H2 _]].
  split; assumption.
Qed.
