(* Proofs about the runner model (properties C05, C06, C19). *)
From AV Require Import Base.Prelude Base.NatSet Model.Runner.

(* ------------------------------------------------------------------ *)
(* association lists *)
Section AssocLemmas.
  Variable B : Type.
  Implicit Types (l : list (nat * B)) (k j : nat) (v : B).

  Lemma aget_aset k v l j : aget j (aset k v l) = if j =? k then Some v else aget j l.
  Proof.
    induction l as [|[i w] l IH]; cbn [aset aget].
    - destruct (Nat.eqb_spec j k); reflexivity.
    - destruct (Nat.eqb_spec k i) as [E|E]; cbn [aget].
      + subst. destruct (Nat.eqb_spec j i); reflexivity.
      + rewrite IH. destruct (Nat.eqb_spec j i), (Nat.eqb_spec j k); try reflexivity. congruence.
  Qed.

  Lemma aget_apop k l j : aget j (apop k l) = if j =? k then None else aget j l.
  Proof.
    induction l as [|[i w] l IH]; cbn [apop aget].
    - destruct (j =? k); reflexivity.
    - destruct (Nat.eqb_spec k i) as [E|E]; cbn [aget].
      + subst. rewrite IH. destruct (Nat.eqb_spec j i); reflexivity.
      + rewrite IH. destruct (Nat.eqb_spec j i), (Nat.eqb_spec j k); try reflexivity. congruence.
  Qed.

  Lemma aget_app l1 l2 j :
    aget j (l1 ++ l2) = match aget j l1 with Some v => Some v | None => aget j l2 end.
  Proof.
    induction l1 as [|[i w] l1 IH]; cbn [app aget]; [reflexivity|].
    destruct (j =? i); [reflexivity|exact IH].
  Qed.

  Lemma aget_In_keys j l : aget j l <> None <-> In j (akeys l).
  Proof.
    unfold akeys. induction l as [|[i w] l IH]; cbn [aget map fst In].
    - tauto.
    - destruct (Nat.eqb_spec j i); [subst; split; [auto|congruence]|].
      rewrite IH. split; [auto|intros [?|?]; [congruence|auto]].
  Qed.

  Lemma aget_None_keys j l : aget j l = None <-> ~ In j (akeys l).
  Proof.
    rewrite <- aget_In_keys. destruct (aget j l).
    - split; [discriminate|intros H; exfalso; apply H; discriminate].
    - split; [intros _ H; apply H; reflexivity|reflexivity].
  Qed.

  Lemma aget_Some_In j l v : aget j l = Some v -> In (j, v) l.
  Proof.
    induction l as [|[i w] l IH]; cbn [aget In]; [discriminate|].
    destruct (Nat.eqb_spec j i); [intros [= ->]; subst; auto|auto].
  Qed.

  Lemma In_aget_nodup j l v : NoDup (akeys l) -> In (j, v) l -> aget j l = Some v.
  Proof.
    unfold akeys. induction l as [|[i w] l IH]; cbn [aget In map fst]; [tauto|].
    intros Hnd [H|H].
    - inversion H; subst. rewrite Nat.eqb_refl. reflexivity.
    - inversion Hnd; subst. destruct (Nat.eqb_spec j i).
      + subst. exfalso. apply H2. change i with (fst (i, v)). apply in_map. exact H.
      + auto.
  Qed.

  Lemma akeys_app l1 l2 : akeys (l1 ++ l2) = akeys l1 ++ akeys l2.
  Proof. apply map_app. Qed.

  Lemma akeys_apop_In k l j : In j (akeys (apop k l)) <-> j <> k /\ In j (akeys l).
  Proof.
    rewrite <- !aget_In_keys, aget_apop. destruct (Nat.eqb_spec j k); [split; [congruence|tauto]|tauto].
  Qed.

  Lemma akeys_aset_In k v l j : In j (akeys (aset k v l)) <-> j = k \/ In j (akeys l).
  Proof.
    rewrite <- !aget_In_keys, aget_aset. destruct (Nat.eqb_spec j k).
    - split; [auto|congruence].
    - tauto.
  Qed.

  Lemma apop_nodup k l : NoDup (akeys l) -> NoDup (akeys (apop k l)).
  Proof.
    unfold akeys. induction l as [|[i w] l IH]; cbn [apop map fst]; intros H; [constructor|].
    inversion H; subst. destruct (k =? i); [auto|].
    cbn [map fst]. constructor; [|auto].
    intros Hin. apply H2. apply (akeys_apop_In k l i) in Hin. tauto.
  Qed.

  Lemma aset_nodup k v l : NoDup (akeys l) -> NoDup (akeys (aset k v l)).
  Proof.
    unfold akeys. induction l as [|[i w] l IH]; cbn [aset map fst]; intros H.
    - repeat constructor. tauto.
    - inversion H; subst. destruct (Nat.eqb_spec k i).
      + subst. cbn [map fst]. constructor; assumption.
      + cbn [map fst]. constructor; [|auto].
        intros Hin. apply (akeys_aset_In k v l i) in Hin. destruct Hin; [congruence|auto].
  Qed.

  Lemma apop_length k l : length (apop k l) <= length l.
  Proof. induction l as [|[i w] l IH]; cbn [apop length]; [lia|]. destruct (k =? i); cbn [length]; lia. Qed.

  Lemma apop_notin k l : aget k l = None -> apop k l = l.
  Proof.
    induction l as [|[i w] l IH]; cbn [apop aget]; [reflexivity|].
    destruct (k =? i); [discriminate|]. intros H. f_equal. auto.
  Qed.
End AssocLemmas.

(* number of occurrences *)
Fixpoint cnt (p : nat) (l : list nat) : nat :=
  match l with [] => 0 | x :: r => (if p =? x then 1 else 0) + cnt p r end.

Lemma cnt_app p l1 l2 : cnt p (l1 ++ l2) = cnt p l1 + cnt p l2.
Proof. induction l1; cbn [app cnt]; lia. Qed.

Lemma cnt_In p l : 0 < cnt p l <-> In p l.
Proof.
  induction l as [|x l IH]; cbn [cnt In]; [lia|].
  destruct (Nat.eqb_spec p x); [subst; split; [auto|lia]|].
  rewrite <- IH. split; [intros; right; lia|intros [?|?]; [congruence|lia]].
Qed.

Lemma cnt_0 p l : cnt p l = 0 <-> ~ In p l.
Proof. rewrite <- cnt_In. lia. Qed.

Lemma cnt_nodup p l : NoDup l -> cnt p l <= 1.
Proof.
  induction 1 as [|x l Hx Hnd IH]; cbn [cnt]; [lia|].
  destruct (Nat.eqb_spec p x); [subst; apply cnt_0 in Hx; lia|lia].
Qed.

Lemma nodup_cnt l : (forall p, cnt p l <= 1) -> NoDup l.
Proof.
  induction l as [|x l IH]; intros H; constructor.
  - specialize (H x). cbn [cnt] in H. rewrite Nat.eqb_refl in H. apply cnt_0. lia.
  - apply IH. intros p. specialize (H p). cbn [cnt] in H. lia.
Qed.

(* values of an association list whose key was popped *)
Lemma cnt_apop fid (l : list (nat * nat)) p :
  NoDup (akeys l) ->
  cnt p (map snd (apop fid l)) + (match aget fid l with Some q => if p =? q then 1 else 0 | None => 0 end)
  = cnt p (map snd l).
Proof.
  unfold akeys. induction l as [|[i w] l IH]; cbn [apop aget map snd fst cnt]; intros H; [reflexivity|].
  inversion H; subst. destruct (Nat.eqb_spec fid i) as [E|E].
  - subst. rewrite apop_notin by (apply aget_None_keys; exact H2). lia.
  - cbn [map snd cnt]. specialize (IH H3). lia.
Qed.

Ltac deq a b := destruct (Nat.eqb_spec a b).
Ltac fin := repeat split; intros;
  repeat match goal with H : Some _ = Some _ |- _ => injection H as H; try subst end;
  try lia; try discriminate; try congruence; try reflexivity.

(* ------------------------------------------------------------------ *)
Section RunnerProofs.
  Variables P V L : Type.
  Variable lrn : learner P V L.
  Variable c : cfg.
  Notation rst := (rst P V L).
  Notation tev := (tev P V).
  Notation ev := (ev V).
  Notation outcome := (outcome V).
  Implicit Types (s : rst) (p pid fid : nat) (t : list tev) (e : tev) (x : P) (y : V) (pts : list P).

  Notation M := (get_max_tasks c).
  Notation r := (c_retries c).

  Ltac sp := cbn [pend retry tbs idp nid nfid log lst ph tr set_pend set_retry set_tbs set_idp
                  set_nid set_nfid set_log set_lst set_ph set_tr emit] in *.

  (* ---- counters over the trace --------------------------------------- *)
  Definition is_sub p e := match e with TSubmit _ q _ => p =? q | _ => false end.
  Definition is_err p e := match e with TDone _ q Err => p =? q | _ => false end.
  Definition is_ok p e := match e with TDone _ q (Ok _) => p =? q | _ => false end.
  Definition is_tell p e := match e with TTell q _ _ => p =? q | _ => false end.
  Definition nsub p t := count_true (is_sub p) t.    (* evaluations of pid p started *)
  Definition nerr p t := count_true (is_err p) t.    (* ... that failed *)
  Definition nok p t := count_true (is_ok p) t.      (* ... that succeeded *)
  Definition ntell p t := count_true (is_tell p) t.  (* tells of pid p *)

  Ltac cn := unfold nsub, nerr, nok, ntell in *; cbn [count_true is_sub is_err is_ok is_tell] in *.

  Lemma count_true_app {A} (f : A -> bool) l1 l2 : count_true f (l1 ++ l2) = count_true f l1 + count_true f l2.
  Proof. induction l1; cbn [app count_true]; lia. Qed.

  Lemma count_true_0 {A} (f : A -> bool) l : count_true f l = 0 <-> forall a, In a l -> f a = false.
  Proof.
    induction l as [|a l IH]; cbn [count_true In]; [tauto|].
    destruct (f a) eqn:E.
    - split; [lia|]. intros H. specialize (H a (or_introl eq_refl)). congruence.
    - rewrite Nat.add_0_l, IH. split; [intros H b [<-|Hb]; auto|auto].
  Qed.

  Lemma count_true_pos {A} (f : A -> bool) l a : In a l -> f a = true -> 0 < count_true f l.
  Proof.
    intros Hin Hf. destruct (count_true f l) eqn:E; [|lia].
    apply count_true_0 with (a := a) in E; [congruence|exact Hin].
  Qed.

  Definition pvals s : list nat := map snd (pend s).

  (* expected number of failures of a live pid, read off the bookkeeping *)
  Definition E s p : nat :=
    match aget p (retry s) with
    | Some k => k
    | None => match aget p (tbs s) with Some _ => r + 1 | None => 0 end
    end.

  Definition asked p x t : Prop := exists n ret, In (TAsk n ret) t /\ In (p, x) ret.
  Definition fdone fid t : Prop := exists q o, In (TDone fid q o) t.

  (* a property of every event relative to the events before it *)
  Fixpoint all_suffix (Q : tev -> list tev -> Prop) t : Prop :=
    match t with [] => True | e :: old => Q e old /\ all_suffix Q old end.

  Lemma all_suffix_split Q t : all_suffix Q t <-> forall later e earlier, t = later ++ e :: earlier -> Q e earlier.
  Proof.
    induction t as [|a t IH]; cbn [all_suffix].
    - split; [intros _ [|? ?] ? ? H; discriminate|auto].
    - rewrite IH. split.
      + intros [Ha Ht] [|b later] e earlier H; cbn [app] in H; inversion H; subst; [exact Ha|eapply Ht; reflexivity].
      + intros H. split; [apply (H [] a t); reflexivity|].
        intros later e earlier ->. apply (H (a :: later) e earlier). reflexivity.
  Qed.

  (* what holds of each event when it is emitted *)
  Definition Pe e earlier : Prop :=
    match e with
    | TSubmit fid pid x => ntell pid earlier = 0 /\ asked pid x earlier
    | TDone fid pid o =>
        ntell pid earlier = 0 /\ (exists x, In (TSubmit fid pid x) earlier) /\ ~ fdone fid earlier /\
        match o with Ok _ => nok pid earlier = 0 | Err => True end
    | TTell pid x y =>
        exists fid older, earlier = TDone fid pid (Ok y) :: older /\ In (TSubmit fid pid x) older /\
                          asked pid x older /\ ntell pid older = 0
    | _ => True
    end.

  (* ---- the accounting invariant --------------------------------------- *)
  Record Inv s : Prop := {
    i_fids : forall fid, In fid (akeys (pend s)) -> fid < nfid s;
    i_pend_nd : NoDup (akeys (pend s));
    i_retry_nd : NoDup (akeys (retry s));
    i_idp_lt : forall p, aget p (idp s) <> None -> p < nid s;
    i_fresh : forall p, nid s <= p ->
      nsub p (tr s) = 0 /\ nerr p (tr s) = 0 /\ nok p (tr s) = 0 /\ ntell p (tr s) = 0;
    i_told : forall p, p < nid s -> aget p (idp s) = None ->
      nok p (tr s) = 1 /\ ntell p (tr s) = 1 /\ nerr p (tr s) <= r /\
      nsub p (tr s) = nerr p (tr s) + 1;
    i_live : forall p x, aget p (idp s) = Some x ->
      nok p (tr s) = 0 /\ ntell p (tr s) = 0 /\ nerr p (tr s) = E s p /\
      nsub p (tr s) = nerr p (tr s) + cnt p (pvals s) /\ cnt p (pvals s) <= 1 /\
      (forall k, aget p (retry s) = Some k -> 1 <= k <= r /\ aget p (tbs s) <> None) /\
      (aget p (tbs s) <> None -> aget p (retry s) = None -> cnt p (pvals s) = 0);
    i_dom : forall p, aget p (idp s) = None ->
      aget p (retry s) = None /\ aget p (tbs s) = None /\ cnt p (pvals s) = 0;
    (* links between the bookkeeping and the trace *)
    i_pend_sub : forall fid pid, aget fid (pend s) = Some pid ->
      exists x, aget pid (idp s) = Some x /\ In (TSubmit fid pid x) (tr s) /\ ~ fdone fid (tr s);
    i_sub_acc : forall fid pid x, In (TSubmit fid pid x) (tr s) ->
      fid < nfid s /\ ((exists o, In (TDone fid pid o) (tr s)) \/ aget fid (pend s) = Some pid);
    i_idp_asked : forall p x, aget p (idp s) = Some x -> asked p x (tr s);
    i_done_lt : forall fid q o, In (TDone fid q o) (tr s) -> fid < nfid s;
    i_tr : all_suffix Pe (tr s)
  }.
  Arguments i_fids {s}. Arguments i_pend_nd {s}. Arguments i_retry_nd {s}. Arguments i_idp_lt {s}.
  Arguments i_fresh {s}. Arguments i_told {s}. Arguments i_live {s}. Arguments i_dom {s}.
  Arguments i_pend_sub {s}. Arguments i_sub_acc {s}. Arguments i_idp_asked {s}. Arguments i_done_lt {s}. Arguments i_tr {s}.

  Lemma Inv_init l0 : Inv (init P V c l0).
  Proof.
    unfold init. constructor; sp; cbn [akeys map aget pvals cnt nsub nerr nok ntell count_true In all_suffix]; intros;
      try solve [tauto | constructor | lia | discriminate | congruence].
  Qed.

  (* a pending pid is live and its count is exactly one *)
  Lemma pend_cnt s fid pid : aget fid (pend s) = Some pid -> 0 < cnt pid (pvals s).
  Proof.
    intros H. apply cnt_In. unfold pvals. change pid with (snd (fid, pid)). apply in_map.
    apply aget_Some_In. exact H.
  Qed.

  Lemma live_pending s fid pid : Inv s -> aget fid (pend s) = Some pid ->
    exists x, aget pid (idp s) = Some x /\ cnt pid (pvals s) = 1 /\
      nok pid (tr s) = 0 /\ ntell pid (tr s) = 0 /\
      nerr pid (tr s) = match aget pid (retry s) with Some k => k | None => 0 end /\
      nerr pid (tr s) <= r /\ nsub pid (tr s) = nerr pid (tr s) + 1.
  Proof.
    intros HI H. destruct (i_pend_sub HI _ _ H) as (x & Hx & _ & _). exists x. split; [exact Hx|].
    pose proof (pend_cnt _ _ _ H) as Hc.
    destruct (i_live HI _ _ Hx) as (H1 & H2 & H3 & H4 & H5 & H6 & H7).
    assert (Hc1 : cnt pid (pvals s) = 1) by lia.
    unfold E in H3. destruct (aget pid (retry s)) as [k|] eqn:Ek.
    - destruct (H6 k eq_refl). repeat split; try assumption; lia.
    - destruct (aget pid (tbs s)) eqn:Et.
      + assert (cnt pid (pvals s) = 0) by (apply H7; congruence). lia.
      + repeat split; try assumption; lia.
  Qed.

  (* ---- _process_futures, failure branch -------------------------------- *)
  Definition err_n s pid : nat := match aget pid (retry s) with Some k => k | None => 0 end + 1.

  Definition err_step s fid pid : rst :=
    let s0 := emit (set_pend s (apop fid (pend s))) (TDone fid pid Err) in
    let s1 := set_tbs s0 (aset pid tt (tbs s0)) in
    let s2 := set_retry s1 (aset pid (err_n s pid) (retry s1)) in
    if r <? err_n s pid then set_retry s2 (apop pid (retry s2)) else s2.

  Lemma process_one_err s fid pid : aget fid (pend s) = Some pid ->
    process_one lrn c s fid Err =
      (err_step s fid pid, if (r <? err_n s pid) && c_raise c then Some pid else None).
  Proof.
    intros H. unfold process_one, err_step, err_n. rewrite H. sp.
    destruct (r <? _); [destruct (c_raise c)|]; reflexivity.
  Qed.

  Lemma err_fields s fid pid :
    let s' := err_step s fid pid in
    pend s' = apop fid (pend s) /\ tr s' = TDone fid pid Err :: tr s /\
    tbs s' = aset pid tt (tbs s) /\ idp s' = idp s /\ nid s' = nid s /\ nfid s' = nfid s /\
    log s' = log s /\ lst s' = lst s /\ ph s' = ph s /\
    retry s' = (if r <? err_n s pid then apop pid (aset pid (err_n s pid) (retry s))
                else aset pid (err_n s pid) (retry s)).
  Proof. unfold err_step. destruct (r <? err_n s pid); sp; repeat split. Qed.

  Lemma Inv_err_step s fid pid : Inv s -> aget fid (pend s) = Some pid -> Inv (err_step s fid pid).
  Proof.
    intros HI H.
    destruct (live_pending s fid pid HI H) as (x0 & Hx0 & Hc1 & Hok & Hnt & Hne & Hler & Hns).
    destruct (err_fields s fid pid) as (Fp & Ft & Ftb & Fi & Fn & Ff & _ & _ & _ & Fr).
    set (s' := err_step s fid pid) in *.
    assert (Hn : err_n s pid = nerr pid (tr s) + 1) by (unfold err_n; lia).
    assert (cntE : forall p, cnt p (pvals s') = if p =? pid then 0 else cnt p (pvals s)).
    { intros p. unfold pvals. rewrite Fp. pose proof (cnt_apop fid (pend s) p (i_pend_nd HI)) as Hq.
      rewrite H in Hq. unfold pvals in Hc1. revert Hq. deq p pid; intros; [subst; lia|lia]. }
    assert (retryE : forall p, aget p (retry s') =
              if p =? pid then (if r <? err_n s pid then None else Some (err_n s pid)) else aget p (retry s)).
    { intros p. rewrite Fr. destruct (r <? err_n s pid).
      - rewrite aget_apop, aget_aset. deq p pid; reflexivity.
      - rewrite aget_aset. reflexivity. }
    assert (tbsE : forall p, aget p (tbs s') = if p =? pid then Some tt else aget p (tbs s)).
    { intros p. rewrite Ftb, aget_aset. reflexivity. }
    assert (nerrE : forall p, nerr p (tr s') = (if p =? pid then 1 else 0) + nerr p (tr s)).
    { intros p. rewrite Ft. reflexivity. }
    assert (nsubE : forall p, nsub p (tr s') = nsub p (tr s)) by (intros; rewrite Ft; reflexivity).
    assert (nokE : forall p, nok p (tr s') = nok p (tr s)) by (intros; rewrite Ft; reflexivity).
    assert (ntellE : forall p, ntell p (tr s') = ntell p (tr s)) by (intros; rewrite Ft; reflexivity).
    constructor.
    - intros f Hf. rewrite Fp in Hf. apply akeys_apop_In in Hf. rewrite Ff. apply (i_fids HI). tauto.
    - rewrite Fp. apply apop_nodup, (i_pend_nd HI).
    - rewrite Fr. destruct (r <? err_n s pid); [apply apop_nodup|]; apply aset_nodup, (i_retry_nd HI).
    - rewrite Fi, Fn. apply (i_idp_lt HI).
    - intros p Hp. rewrite Fn in Hp. rewrite nsubE, nerrE, nokE, ntellE.
      assert (p <> pid).
      { intros ->. assert (pid < nid s) by (apply (i_idp_lt HI); congruence). lia. }
      deq p pid; [congruence|]. apply (i_fresh HI). exact Hp.
    - intros p Hp Hnone. rewrite Fn in Hp. rewrite Fi in Hnone. rewrite nsubE, nerrE, nokE, ntellE.
      deq p pid; [congruence|]. apply (i_told HI); assumption.
    - intros p x Hx. rewrite Fi in Hx. rewrite nsubE, nerrE, nokE, ntellE, cntE.
      unfold E. rewrite !retryE, !tbsE.
      destruct (i_live HI _ _ Hx) as (H1 & H2 & H3 & H4 & H5 & H6 & H7). unfold E in H3.
      deq p pid.
      + subst p. destruct (Nat.ltb_spec r (err_n s pid)).
        * fin.
        * fin.
      + do 5 (split; [assumption|]). split; [exact H6|exact H7].
    - intros p Hnone. rewrite Fi in Hnone. rewrite retryE, tbsE, cntE.
      deq p pid; [congruence|]. apply (i_dom HI). exact Hnone.
    - intros f q Hq. rewrite Fp, aget_apop in Hq. deq f fid; [discriminate|].
      destruct (i_pend_sub HI _ _ Hq) as (x & Hx & Hin & Hnd). exists x. rewrite Fi, Ft.
      split; [exact Hx|]. split; [right; exact Hin|].
      intros (q' & o & [Heq|Hin']); [inversion Heq; congruence|]. apply Hnd. exists q', o. exact Hin'.
    - intros f q x Hin. rewrite Ft in Hin. destruct Hin as [Heq|Hin]; [discriminate|].
      destruct (i_sub_acc HI _ _ _ Hin) as (Hlt & Hor). rewrite Ff, Ft, Fp. split; [exact Hlt|].
      destruct Hor as [(o & Ho)|Hq]; [left; exists o; right; exact Ho|].
      deq f fid.
      + subst f. left. exists Err. left. congruence.
      + right. rewrite aget_apop. deq f fid; [congruence|exact Hq].
    - intros p x Hx. rewrite Fi in Hx. rewrite Ft.
      destruct (i_idp_asked HI _ _ Hx) as (n & ret & Hin & Hr). exists n, ret. split; [right; exact Hin|exact Hr].
    - intros f q o Hin. rewrite Ft in Hin. rewrite Ff. destruct Hin as [Heq|Hin]; [|apply (i_done_lt HI _ _ _ Hin)].
      inversion Heq; subst. apply (i_fids HI). apply aget_In_keys. congruence.
    - rewrite Ft. cbn [all_suffix Pe]. split; [|apply (i_tr HI)].
      destruct (i_pend_sub HI _ _ H) as (x & Hx & Hin & Hnd).
      split; [exact Hnt|]. split; [exists x; exact Hin|]. split; [exact Hnd|exact I].
  Qed.

  (* ---- _process_futures, success branch -------------------------------- *)
  Definition ok_step s fid pid x y : rst :=
    let s0 := emit (set_pend s (apop fid (pend s))) (TDone fid pid (Ok y)) in
    let s1 := set_retry s0 (apop pid (retry s0)) in
    let s2 := set_tbs s1 (apop pid (tbs s1)) in
    let s3 := set_idp s2 (apop pid (idp s2)) in
    let s4 := if c_log c then set_log s3 (log s3 ++ [LTell x y]) else s3 in
    emit (set_lst s4 (l_tell lrn (lst s4) x y)) (TTell pid x y).

  Lemma process_one_ok s fid pid x y : aget fid (pend s) = Some pid -> aget pid (idp s) = Some x ->
    process_one lrn c s fid (Ok y) = (ok_step s fid pid x y, None).
  Proof. intros H Hx. unfold process_one, ok_step. rewrite H. sp. rewrite Hx. reflexivity. Qed.

  Lemma ok_fields s fid pid x y :
    let s' := ok_step s fid pid x y in
    pend s' = apop fid (pend s) /\ tr s' = TTell pid x y :: TDone fid pid (Ok y) :: tr s /\
    tbs s' = apop pid (tbs s) /\ idp s' = apop pid (idp s) /\ nid s' = nid s /\ nfid s' = nfid s /\
    log s' = (if c_log c then log s ++ [LTell x y] else log s) /\ lst s' = l_tell lrn (lst s) x y /\
    ph s' = ph s /\ retry s' = apop pid (retry s).
  Proof. unfold ok_step. destruct (c_log c); sp; repeat split. Qed.

  Lemma Inv_ok_step s fid pid x y : Inv s -> aget fid (pend s) = Some pid -> aget pid (idp s) = Some x ->
    Inv (ok_step s fid pid x y).
  Proof.
    intros HI H Hx.
    destruct (live_pending s fid pid HI H) as (x0 & Hx0 & Hc1 & Hok & Hnt & Hne & Hler & Hns).
    destruct (ok_fields s fid pid x y) as (Fp & Ft & Ftb & Fi & Fn & Ff & _ & _ & _ & Fr).
    set (s' := ok_step s fid pid x y) in *.
    assert (cntE : forall p, cnt p (pvals s') = if p =? pid then 0 else cnt p (pvals s)).
    { intros p. unfold pvals. rewrite Fp. pose proof (cnt_apop fid (pend s) p (i_pend_nd HI)) as Hq.
      rewrite H in Hq. unfold pvals in Hc1. revert Hq. deq p pid; intros; [subst; lia|lia]. }
    assert (retryE : forall p, aget p (retry s') = if p =? pid then None else aget p (retry s))
      by (intros; rewrite Fr; apply aget_apop).
    assert (tbsE : forall p, aget p (tbs s') = if p =? pid then None else aget p (tbs s))
      by (intros; rewrite Ftb; apply aget_apop).
    assert (idpE : forall p, aget p (idp s') = if p =? pid then None else aget p (idp s))
      by (intros; rewrite Fi; apply aget_apop).
    assert (nerrE : forall p, nerr p (tr s') = nerr p (tr s)) by (intros; rewrite Ft; reflexivity).
    assert (nsubE : forall p, nsub p (tr s') = nsub p (tr s)) by (intros; rewrite Ft; reflexivity).
    assert (nokE : forall p, nok p (tr s') = (if p =? pid then 1 else 0) + nok p (tr s))
      by (intros; rewrite Ft; reflexivity).
    assert (ntellE : forall p, ntell p (tr s') = (if p =? pid then 1 else 0) + ntell p (tr s))
      by (intros; rewrite Ft; reflexivity).
    assert (Hpl : pid < nid s) by (apply (i_idp_lt HI); congruence).
    constructor.
    - intros f Hf. rewrite Fp in Hf. apply akeys_apop_In in Hf. rewrite Ff. apply (i_fids HI). tauto.
    - rewrite Fp. apply apop_nodup, (i_pend_nd HI).
    - rewrite Fr. apply apop_nodup, (i_retry_nd HI).
    - intros p Hp. rewrite idpE in Hp. rewrite Fn. deq p pid; [congruence|]. apply (i_idp_lt HI). exact Hp.
    - intros p Hp. rewrite Fn in Hp. rewrite nsubE, nerrE, nokE, ntellE.
      deq p pid; [lia|]. apply (i_fresh HI). exact Hp.
    - intros p Hp Hnone. rewrite Fn in Hp. rewrite idpE in Hnone. rewrite nsubE, nerrE, nokE, ntellE.
      revert Hnone. deq p pid; intros Hnone.
      + subst p. fin.
      + apply (i_told HI); assumption.
    - intros p x1 Hx1. rewrite idpE in Hx1. rewrite nsubE, nerrE, nokE, ntellE, cntE.
      unfold E. rewrite !retryE, !tbsE. revert Hx1. deq p pid; intros Hx1; [discriminate|].
      destruct (i_live HI _ _ Hx1) as (H1 & H2 & H3 & H4 & H5 & H6 & H7). unfold E in H3.
      do 5 (split; [assumption|]). split; [exact H6|exact H7].
    - intros p Hnone. rewrite idpE in Hnone. rewrite retryE, tbsE, cntE.
      revert Hnone. deq p pid; intros Hnone; [fin|]. apply (i_dom HI). exact Hnone.
    - intros f q Hq.
      assert (Hqp : q <> pid).
      { intros ->. pose proof (pend_cnt s' f pid Hq) as Hpc. rewrite cntE, Nat.eqb_refl in Hpc. lia. }
      rewrite Fp, aget_apop in Hq. revert Hq. deq f fid; intros Hq; [discriminate|].
      destruct (i_pend_sub HI _ _ Hq) as (x1 & Hx1 & Hin & Hnd). exists x1. rewrite idpE, Ft.
      deq q pid; [congruence|].
      split; [exact Hx1|]. split; [right; right; exact Hin|].
      intros (q' & o & [Heq|[Heq|Hin']]); [discriminate|inversion Heq; congruence|].
      apply Hnd. exists q', o. exact Hin'.
    - intros f q x1 Hin. rewrite Ft in Hin. destruct Hin as [Heq|[Heq|Hin]]; [discriminate|discriminate|].
      destruct (i_sub_acc HI _ _ _ Hin) as (Hlt & Hor). rewrite Ff, Ft, Fp. split; [exact Hlt|].
      destruct Hor as [(o & Ho)|Hq]; [left; exists o; right; right; exact Ho|].
      deq f fid.
      + subst f. left. exists (Ok y). right. left. congruence.
      + right. rewrite aget_apop. deq f fid; [congruence|exact Hq].
    - intros p x1 Hx1. rewrite idpE in Hx1. revert Hx1. deq p pid; intros Hx1; [discriminate|]. rewrite Ft.
      destruct (i_idp_asked HI _ _ Hx1) as (n' & ret & Hin & Hr). exists n', ret.
      split; [right; right; exact Hin|exact Hr].
    - intros f q o Hin. rewrite Ft in Hin. rewrite Ff.
      destruct Hin as [Heq|[Heq|Hin]]; [discriminate| |apply (i_done_lt HI _ _ _ Hin)].
      inversion Heq; subst. apply (i_fids HI). apply aget_In_keys. congruence.
    - rewrite Ft. cbn [all_suffix Pe]. destruct (i_pend_sub HI _ _ H) as (x1 & Hx1 & Hin & Hnd).
      assert (x1 = x) by congruence. subst x1.
      split; [|split; [|apply (i_tr HI)]].
      + exists fid, (tr s). split; [reflexivity|]. split; [exact Hin|]. split; [apply (i_idp_asked HI); exact Hx|exact Hnt].
      + split; [exact Hnt|]. split; [exists x; exact Hin|]. split; [exact Hnd|exact Hok].
  Qed.

  (* one iteration of the for loop keeps the invariant *)
  Lemma Inv_process_one s fid o s' res : Inv s -> process_one lrn c s fid o = (s', res) -> Inv s'.
  Proof.
    intros HI H. destruct (aget fid (pend s)) as [pid|] eqn:Ep.
    - destruct o as [y|].
      + destruct (i_pend_sub HI _ _ Ep) as (x & Hx & _).
        rewrite (process_one_ok _ _ _ _ y Ep Hx) in H. inversion H; subst. apply Inv_ok_step; assumption.
      + rewrite (process_one_err _ _ _ Ep) in H. inversion H; subst. apply Inv_err_step; assumption.
    - unfold process_one in H. rewrite Ep in H. inversion H; subst. exact HI.
  Qed.

  Lemma Inv_process done : forall s s' res, Inv s -> process lrn c s done = (s', res) -> Inv s'.
  Proof.
    induction done as [|[fid o] done IH]; cbn [process]; intros s s' res HI H.
    - inversion H; subst. exact HI.
    - destruct (process_one lrn c s fid o) as [s1 [pid|]] eqn:E1.
      + inversion H; subst. eapply Inv_process_one; eauto.
      + eapply IH; [|exact H]. eapply Inv_process_one; eauto.
  Qed.

  (* ---- _ask ------------------------------------------------------------- *)
  Lemma assign_ids_keys i pts : akeys (assign_ids i pts) = seq i (length pts).
  Proof. revert i. induction pts as [|x pts IH]; intros i; cbn [assign_ids akeys map fst length seq]; [reflexivity|]. f_equal. apply IH. Qed.

  Lemma assign_ids_length i pts : length (assign_ids i pts) = length pts.
  Proof. revert i. induction pts as [|x pts IH]; intros i; cbn [assign_ids length]; [reflexivity|]. f_equal. apply IH. Qed.

  Lemma assign_ids_range i pts p : aget p (assign_ids i pts) <> None <-> i <= p < i + length pts.
  Proof. rewrite aget_In_keys, assign_ids_keys, in_seq. tauto. Qed.

  Definition ask_ext s m pts (l' : L) : rst :=
    let new := assign_ids (nid s) pts in
    let s1 := set_lst s l' in
    let s2 := set_idp s1 (idp s1 ++ new) in
    let s3 := set_nid s2 (nid s2 + length pts) in
    emit s3 (TAsk m new).

  Lemma ask_eq s n :
    let pids := firstn n (retry_candidates s) in
    ask lrn s n =
      if length pids <? n then
        (pids ++ map fst (assign_ids (nid s) (fst (l_ask lrn (lst s) (n - length pids)))),
         ask_ext s (n - length pids) (fst (l_ask lrn (lst s) (n - length pids)))
                 (snd (l_ask lrn (lst s) (n - length pids))))
      else (pids, s).
  Proof.
    intros pids. unfold ask. fold pids. destruct (length pids <? n); [|reflexivity].
    destruct (l_ask lrn (lst s) (n - length pids)) as [pts l']. reflexivity.
  Qed.

  Lemma Inv_ask_ext s m pts l' : Inv s -> Inv (ask_ext s m pts l').
  Proof.
    intros HI. unfold ask_ext.
    set (new := assign_ids (nid s) pts).
    assert (Hnew : forall p, aget p new <> None <-> nid s <= p < nid s + length pts)
      by (intros; apply assign_ids_range).
    assert (Hold : forall p v, aget p (idp s) = Some v -> aget p (idp s ++ new) = Some v)
      by (intros p v Hv; rewrite aget_app, Hv; reflexivity).
    assert (Hnone : forall p, aget p (idp s ++ new) = None -> aget p (idp s) = None /\ aget p new = None).
    { intros p Hn. rewrite aget_app in Hn. destruct (aget p (idp s)); [discriminate|auto]. }
    constructor; sp.
    - apply (i_fids HI).
    - apply (i_pend_nd HI).
    - apply (i_retry_nd HI).
    - intros p Hp. rewrite aget_app in Hp. destruct (aget p (idp s)) eqn:Ei.
      + assert (p < nid s) by (apply (i_idp_lt HI); congruence). lia.
      + apply Hnew in Hp. lia.
    - intros p Hp. apply (i_fresh HI). lia.
    - intros p Hp Hn. destruct (Hnone _ Hn) as [Hn1 Hn2]. apply (i_told HI); [|exact Hn1].
      destruct (Nat.lt_ge_cases p (nid s)); [assumption|]. exfalso.
      assert (aget p new <> None) by (apply Hnew; lia). congruence.
    - intros p x Hx. rewrite aget_app in Hx. destruct (aget p (idp s)) as [v|] eqn:Ei.
      + inversion Hx; subst v. apply (i_live HI _ _ Ei).
      + assert (Hr : nid s <= p) by (apply Hnew; congruence).
        destruct (i_fresh HI _ Hr) as (F1 & F2 & F3 & F4). destruct (i_dom HI _ Ei) as (D1 & D2 & D3).
        unfold E, pvals in *. sp. rewrite D1, D2. cn. fin.
    - intros p Hn. apply (i_dom HI). apply Hnone. exact Hn.
    - intros f q Hq. destruct (i_pend_sub HI _ _ Hq) as (x & Hx & Hin & Hnd). exists x.
      split; [apply Hold; exact Hx|]. split; [right; exact Hin|].
      intros (q' & o & [Heq|Hin']); [discriminate|]. apply Hnd. exists q', o. exact Hin'.
    - intros f q x [Heq|Hin]; [discriminate|]. destruct (i_sub_acc HI _ _ _ Hin) as (Hlt & Hor).
      split; [exact Hlt|]. destruct Hor as [(o & Ho)|Hq]; [left; exists o; right; exact Ho|right; exact Hq].
    - intros p x Hx. rewrite aget_app in Hx. destruct (aget p (idp s)) as [v|] eqn:Ei.
      + inversion Hx; subst v. destruct (i_idp_asked HI _ _ Ei) as (n' & ret & Hin & Hr).
        exists n', ret. split; [right; exact Hin|exact Hr].
      + exists m, new. split; [left; reflexivity|]. apply aget_Some_In. exact Hx.
    - intros f q o [Heq|Hin]; [discriminate|]. apply (i_done_lt HI _ _ _ Hin).
    - cbn [all_suffix Pe]. split; [exact I|apply (i_tr HI)].
  Qed.

  (* ---- _submit ---------------------------------------------------------- *)
  Definition sub_step s pid x : rst :=
    emit (set_nfid (set_pend s (pend s ++ [(nfid s, pid)])) (S (nfid s))) (TSubmit (nfid s) pid x).

  Lemma submit_pid_eq s pid x : aget pid (idp s) = Some x -> submit_pid s pid = sub_step s pid x.
  Proof. intros H. unfold submit_pid. rewrite H. reflexivity. Qed.

  Lemma nfid_fresh s : Inv s -> aget (nfid s) (pend s) = None.
  Proof.
    intros HI. apply aget_None_keys. intros Hin. pose proof (i_fids HI _ Hin). lia.
  Qed.

  Lemma Inv_sub_step s pid x : Inv s -> aget pid (idp s) = Some x -> cnt pid (pvals s) = 0 ->
    (aget pid (tbs s) <> None -> aget pid (retry s) <> None) -> Inv (sub_step s pid x).
  Proof.
    intros HI Hx Hc0 Htb. unfold sub_step.
    pose proof (nfid_fresh s HI) as Hfresh.
    assert (cntE : forall p, cnt p (map snd (pend s ++ [(nfid s, pid)])) = cnt p (pvals s) + if p =? pid then 1 else 0).
    { intros p. unfold pvals. rewrite map_app, cnt_app. cbn [map snd cnt]. lia. }
    assert (Hpl : pid < nid s) by (apply (i_idp_lt HI); congruence).
    constructor; sp; unfold pvals; sp.
    - intros f Hf. rewrite akeys_app in Hf. apply in_app_or in Hf. cbn [akeys map fst In] in Hf. destruct Hf as [Hf|[<-|[]]]; [|lia].
      pose proof (i_fids HI _ Hf). lia.
    - rewrite akeys_app. cbn [akeys map fst]. apply NoDup_app_disj; [apply (i_pend_nd HI)|repeat constructor; tauto|].
      intros f Hf Hf2. cbn [map fst In] in Hf2. destruct Hf2 as [<-|[]]. pose proof (i_fids HI _ Hf). lia.
    - apply (i_retry_nd HI).
    - apply (i_idp_lt HI).
    - intros p Hp. unfold nsub. cbn [count_true is_sub]. deq p pid; [lia|]. apply (i_fresh HI). exact Hp.
    - intros p Hp Hn. unfold nsub. cbn [count_true is_sub]. deq p pid; [congruence|]. apply (i_told HI); assumption.
    - intros p x1 Hx1. rewrite cntE. unfold nsub. cbn [count_true is_sub]. fold (nsub p (tr s)).
      destruct (i_live HI _ _ Hx1) as (H1 & H2 & H3 & H4 & H5 & H6 & H7).
      change (nok p (TSubmit (nfid s) pid x :: tr s)) with (nok p (tr s)).
      change (ntell p (TSubmit (nfid s) pid x :: tr s)) with (ntell p (tr s)).
      change (nerr p (TSubmit (nfid s) pid x :: tr s)) with (nerr p (tr s)).
      change (E (mkrst (pend s ++ [(nfid s, pid)]) (retry s) (tbs s) (idp s) (nid s) (S (nfid s)) (log s) (lst s) (ph s)
                       (TSubmit (nfid s) pid x :: tr s)) p) with (E s p).
      deq p pid.
      + subst p. do 3 (split; [assumption|]). split; [lia|]. split; [lia|]. split; [exact H6|].
        intros Ht Hr. exfalso. apply (Htb Ht). exact Hr.
      + do 3 (split; [assumption|]). split; [lia|]. split; [lia|]. split; [exact H6|].
        intros Ht Hr. rewrite (H7 Ht Hr). reflexivity.
    - intros p Hn. rewrite cntE. destruct (i_dom HI _ Hn) as (D1 & D2 & D3).
      deq p pid; [congruence|]. fin.
    - intros f q Hq. rewrite aget_app in Hq. destruct (aget f (pend s)) as [q0|] eqn:Ef.
      + inversion Hq; subst q0. destruct (i_pend_sub HI _ _ Ef) as (x1 & Hx1 & Hin & Hnd). exists x1.
        split; [exact Hx1|]. split; [right; exact Hin|].
        intros (q' & o & [Heq|Hin']); [discriminate|]. apply Hnd. exists q', o. exact Hin'.
      + cbn [aget] in Hq. revert Hq. deq f (nfid s); intros Hq; [|discriminate]. inversion Hq; subst.
        exists x. split; [exact Hx|]. split; [left; reflexivity|].
        intros (q' & o & [Heq|Hin']); [discriminate|]. pose proof (i_done_lt HI _ _ _ Hin'). lia.
    - intros f q x1 [Heq|Hin].
      + inversion Heq; subst. split; [lia|]. right. rewrite aget_app, Hfresh. cbn [aget]. rewrite Nat.eqb_refl. reflexivity.
      + destruct (i_sub_acc HI _ _ _ Hin) as (Hlt & Hor). split; [lia|].
        destruct Hor as [(o & Ho)|Hq]; [left; exists o; right; exact Ho|right].
        rewrite aget_app, Hq. reflexivity.
    - intros p x1 Hx1. destruct (i_idp_asked HI _ _ Hx1) as (n' & ret & Hin & Hr).
      exists n', ret. split; [right; exact Hin|exact Hr].
    - intros f q o [Heq|Hin]; [discriminate|]. pose proof (i_done_lt HI _ _ _ Hin). lia.
    - cbn [all_suffix Pe]. split; [|apply (i_tr HI)].
      destruct (i_live HI _ _ Hx) as (_ & H2 & _). split; [exact H2|apply (i_idp_asked HI); exact Hx].
  Qed.

  (* fields the invariant does not read *)
  Lemma Inv_set_log s v : Inv s -> Inv (set_log s v).
  Proof. intros [H1 H2 H3 H4 H5 H6 H7 H8 H9 H10 H11 H12 H13]. constructor; assumption. Qed.
  Lemma Inv_set_ph s v : Inv s -> Inv (set_ph s v).
  Proof. intros [H1 H2 H3 H4 H5 H6 H7 H8 H9 H10 H11 H12 H13]. constructor; assumption. Qed.
  Lemma Inv_set_lst s v : Inv s -> Inv (set_lst s v).
  Proof. intros [H1 H2 H3 H4 H5 H6 H7 H8 H9 H10 H11 H12 H13]. constructor; assumption. Qed.

  (* ---- the submission loop of _get_futures ------------------------------ *)
  Fixpoint subs_list (f : nat) (pids : list nat) (d : list (nat * P)) : list (nat * nat * P) :=
    match pids with
    | [] => []
    | p :: rest => match aget p d with
                   | Some x => (f, p, x) :: subs_list (S f) rest d
                   | None => subs_list f rest d
                   end
    end.
  Definition sub_ev (t : nat * nat * P) : tev := TSubmit (fst (fst t)) (snd (fst t)) (snd t).
  Definition sub_fp (t : nat * nat * P) : nat * nat := fst t.

  Lemma submit_fold_shape pids : forall s,
    let s' := fold_left (@submit_pid P V L) pids s in
    let sl := subs_list (nfid s) pids (idp s) in
    pend s' = pend s ++ map sub_fp sl /\ tr s' = rev (map sub_ev sl) ++ tr s /\
    nfid s' = nfid s + length sl /\ retry s' = retry s /\ tbs s' = tbs s /\ idp s' = idp s /\
    nid s' = nid s /\ log s' = log s /\ lst s' = lst s /\ ph s' = ph s.
  Proof.
    induction pids as [|p pids IH]; intros s; cbn [fold_left subs_list].
    - cbn [map rev app length]. rewrite app_nil_r, Nat.add_0_r. repeat split.
    - assert (Hsp : submit_pid s p = match aget p (idp s) with Some x => sub_step s p x | None => s end) by reflexivity.
      rewrite Hsp. destruct (aget p (idp s)) as [x|] eqn:Ex; [|apply IH].
      specialize (IH (sub_step s p x)). unfold sub_step in *.
      sp. destruct IH as (A1 & A2 & A3 & A4 & A5 & A6 & A7 & A8 & A9 & A10).
      cbn [map rev length sub_fp sub_ev fst snd]. rewrite A1, A2, A3, <- !app_assoc. cbn [app].
      repeat split; try assumption. lia.
  Qed.

  Lemma subs_list_all f pids d : (forall p, In p pids -> aget p d <> None) ->
    map (fun z : nat * nat * P => snd (fst z)) (subs_list f pids d) = pids /\ length (subs_list f pids d) = length pids /\
    map sub_fp (subs_list f pids d) = combine (seq f (length pids)) pids.
  Proof.
    revert f. induction pids as [|p pids IH]; intros f H; cbn [subs_list map length seq combine]; [auto|].
    destruct (aget p d) as [x|] eqn:Ex; [|exfalso; apply (H p); [left; reflexivity|exact Ex]].
    destruct (IH (S f)) as (A1 & A2 & A3); [intros q Hq; apply H; right; exact Hq|].
    cbn [map length fst snd sub_fp]. rewrite A1, A2, A3. auto.
  Qed.

  Lemma Inv_submit_fold pids : forall s, Inv s -> NoDup pids ->
    (forall p, In p pids -> aget p (idp s) <> None /\ cnt p (pvals s) = 0 /\
                            (aget p (tbs s) <> None -> aget p (retry s) <> None)) ->
    Inv (fold_left (@submit_pid P V L) pids s).
  Proof.
    induction pids as [|p pids IH]; intros s HI Hnd Hall; cbn [fold_left]; [exact HI|].
    inversion Hnd as [|? ? Hnotin Hnd']; subst.
    destruct (Hall p (or_introl eq_refl)) as (Hp1 & Hp2 & Hp3).
    destruct (aget p (idp s)) as [x|] eqn:Ex; [|congruence].
    rewrite (submit_pid_eq _ _ _ Ex). apply IH; [apply Inv_sub_step; assumption|exact Hnd'|].
    intros q Hq. destruct (Hall q (or_intror Hq)) as (Hq1 & Hq2 & Hq3).
    unfold sub_step, pvals. sp. split; [exact Hq1|]. split; [|exact Hq3].
    rewrite map_app, cnt_app. cbn [map snd cnt]. unfold pvals in Hq2.
    deq q p; [subst; contradiction|lia].
  Qed.

  Lemma NoDup_firstn {A} n (l : list A) : NoDup l -> NoDup (firstn n l).
  Proof.
    revert n. induction l as [|a l IH]; intros [|n] H; cbn [firstn]; try constructor.
    - inversion H; subst. intros Hin. apply In_firstn in Hin. contradiction.
    - inversion H; subst. auto.
  Qed.

  Lemma retry_candidates_spec s p : In p (retry_candidates s) <-> In p (akeys (retry s)) /\ cnt p (pvals s) = 0.
  Proof.
    unfold retry_candidates. rewrite filter_In, negb_true_iff.
    rewrite cnt_0. unfold pvals. split; intros [H1 H2]; (split; [exact H1|]).
    - intros Hin. apply nat_mem_In in Hin. congruence.
    - destruct (nat_mem p (map snd (pend s))) eqn:Em; [|reflexivity]. apply nat_mem_In in Em. contradiction.
  Qed.

  Lemma retry_candidates_nodup s : Inv s -> NoDup (retry_candidates s).
  Proof. intros HI. apply NoDup_filter, (i_retry_nd HI). Qed.

  (* what _get_futures does, in terms of the state before *)
  Definition gf_n s := M - length (pend s).
  Definition gf_R s := firstn (gf_n s) (retry_candidates s).
  Definition gf_m s := gf_n s - length (gf_R s).
  Definition gf_asks s : bool := length (gf_R s) <? gf_n s.
  Definition gf_pts s : list P := if gf_asks s then fst (l_ask lrn (lst s) (gf_m s)) else [].
  Definition gf_new s := assign_ids (nid s) (gf_pts s).
  Definition gf_pids s := gf_R s ++ map fst (gf_new s).
  Definition gf_subs s := subs_list (nfid s) (gf_pids s) (idp s ++ gf_new s).
  (* the same when the submission loop is interrupted after [k] submissions *)
  Definition gf_subs_k k s := subs_list (nfid s) (cut k (gf_pids s)) (idp s ++ gf_new s).

  Lemma cut_In k (l : list nat) p : In p (cut k l) -> In p l.
  Proof. destruct k as [j|]; cbn [cut]; [apply In_firstn|auto]. Qed.

  Lemma cut_NoDup k (l : list nat) : NoDup l -> NoDup (cut k l).
  Proof. destruct k as [j|]; cbn [cut]; [apply NoDup_firstn|auto]. Qed.

  Lemma cut_length k (l : list nat) : length (cut k l) <= length l.
  Proof. destruct k as [j|]; cbn [cut]; [rewrite firstn_length; lia|lia]. Qed.

  Lemma get_futures_upto_spec k s : Inv s ->
    let s' := get_futures_upto lrn c k s in
    Inv s' /\
    pend s' = pend s ++ combine (seq (nfid s) (length (cut k (gf_pids s)))) (cut k (gf_pids s)) /\
    tr s' = rev (map sub_ev (gf_subs_k k s)) ++ (if gf_asks s then [TAsk (gf_m s) (gf_new s)] else []) ++ tr s /\
    map (fun z : nat * nat * P => snd (fst z)) (gf_subs_k k s) = cut k (gf_pids s) /\
    retry s' = retry s /\ tbs s' = tbs s /\ idp s' = idp s ++ gf_new s /\
    nid s' = nid s + length (gf_pts s) /\
    log s' = (if c_log c then log s ++ [LAsk (gf_n s)] else log s) /\
    lst s' = (if gf_asks s then snd (l_ask lrn (lst s) (gf_m s)) else lst s) /\ ph s' = ph s.
  Proof.
    intros HI s'.
    set (s1 := if c_log c then set_log s (log s ++ [LAsk (gf_n s)]) else s).
    assert (HI1 : Inv s1) by (unfold s1; destruct (c_log c); [apply Inv_set_log|]; exact HI).
    assert (F1 : pend s1 = pend s /\ retry s1 = retry s /\ tbs s1 = tbs s /\ idp s1 = idp s /\ nid s1 = nid s /\
                 nfid s1 = nfid s /\ lst s1 = lst s /\ ph s1 = ph s /\ tr s1 = tr s /\
                 log s1 = (if c_log c then log s ++ [LAsk (gf_n s)] else log s))
      by (unfold s1; destruct (c_log c); sp; repeat split).
    destruct F1 as (Fp & Fr & Ft & Fi & Fn & Ff & Fl & Fph & Ftr & Flog).
    assert (Hrc : retry_candidates s1 = retry_candidates s) by (unfold retry_candidates; rewrite Fp, Fr; reflexivity).
    assert (Hs' : s' = let '(pids, s2) := ask lrn s1 (gf_n s) in fold_left (@submit_pid P V L) (cut k pids) s2) by reflexivity.
    rewrite ask_eq in Hs'. cbv zeta in Hs'. rewrite Hrc, Fl, Fn in Hs'. fold (gf_R s) in Hs'. fold (gf_m s) in Hs'.
    fold (gf_asks s) in Hs'.
    (* facts about the retried pids *)
    assert (HR : forall p, In p (gf_R s) -> aget p (retry s) <> None /\ cnt p (pvals s) = 0 /\ aget p (idp s) <> None).
    { intros p Hp. apply In_firstn in Hp. apply retry_candidates_spec in Hp. destruct Hp as [Hk Hc].
      apply aget_In_keys in Hk. split; [exact Hk|]. split; [exact Hc|].
      intros Hn. apply (i_dom HI) in Hn. tauto. }
    assert (HRnd : NoDup (gf_R s)) by (apply NoDup_firstn, retry_candidates_nodup, HI).
    unfold gf_subs_k, gf_pids, gf_new, gf_pts. destruct (gf_asks s) eqn:Ea.
    - (* the learner is asked *)
      set (pts := fst (l_ask lrn (lst s) (gf_m s))) in *. set (l' := snd (l_ask lrn (lst s) (gf_m s))) in *.
      set (s2 := ask_ext s1 (gf_m s) pts l') in *.
      assert (HI2 : Inv s2) by (apply Inv_ask_ext; exact HI1).
      assert (F2 : pend s2 = pend s /\ retry s2 = retry s /\ tbs s2 = tbs s /\
                   idp s2 = idp s ++ assign_ids (nid s) pts /\ nid s2 = nid s + length pts /\ nfid s2 = nfid s /\
                   lst s2 = l' /\ ph s2 = ph s /\ tr s2 = TAsk (gf_m s) (assign_ids (nid s) pts) :: tr s /\ log s2 = log s1)
        by (unfold s2, ask_ext; sp; rewrite Fp, Fr, Ft, Fi, Fn, Ff, Fph, Ftr; repeat split).
      destruct F2 as (Gp & Gr & Gt & Gi & Gn & Gf & Gl & Gph & Gtr & Glog).
      set (new := assign_ids (nid s) pts) in *. set (pids := gf_R s ++ map fst new) in *.
      assert (Hall : forall p, In p pids -> aget p (idp s2) <> None /\ cnt p (pvals s2) = 0 /\
                                 (aget p (tbs s2) <> None -> aget p (retry s2) <> None)).
      { intros p Hp. unfold pvals. rewrite Gi, Gp, Gt, Gr. apply in_app_or in Hp. destruct Hp as [Hp|Hp].
        - destruct (HR p Hp) as (A1 & A2 & A3). split; [|split; [exact A2|intros _; exact A1]].
          rewrite aget_app. destruct (aget p (idp s)); congruence.
        - fold (akeys new) in Hp. apply aget_In_keys in Hp.
          assert (Hge : nid s <= p) by (apply assign_ids_range in Hp; lia).
          assert (Hn : aget p (idp s) = None).
          { destruct (aget p (idp s)) eqn:Ei; [|reflexivity].
            assert (p < nid s) by (apply (i_idp_lt HI); congruence). lia. }
          destruct (i_dom HI _ Hn) as (D1 & D2 & D3).
          split; [rewrite aget_app, Hn; exact Hp|]. split; [exact D3|intros Hc; congruence]. }
      assert (Hnd : NoDup pids).
      { apply NoDup_app_disj; [exact HRnd| |].
        - fold (akeys new). unfold new. rewrite assign_ids_keys. apply seq_NoDup.
        - intros p Hp Hq. destruct (HR p Hp) as (_ & _ & A3). apply (i_idp_lt HI) in A3.
          fold (akeys new) in Hq. apply aget_In_keys, assign_ids_range in Hq. lia. }
      set (sel := cut k pids) in *.
      assert (HallS : forall p, In p sel -> aget p (idp s2) <> None /\ cnt p (pvals s2) = 0 /\
                                 (aget p (tbs s2) <> None -> aget p (retry s2) <> None))
        by (intros p Hp; apply Hall; apply (cut_In k); exact Hp).
      assert (HndS : NoDup sel) by (apply cut_NoDup; exact Hnd).
      assert (Hs2 : s' = fold_left (@submit_pid P V L) sel s2) by exact Hs'.
      pose proof (submit_fold_shape sel s2) as SH. cbv zeta in SH. rewrite <- Hs2, Gf, Gi in SH.
      destruct SH as (S1 & S2 & S3 & S4 & S5 & S6 & S7 & S8 & S9 & S10).
      destruct (subs_list_all (nfid s) sel (idp s ++ new)) as (T1 & T2 & T3).
      { intros p Hp. destruct (HallS p Hp) as (A & _). rewrite Gi in A. exact A. }
      split; [rewrite Hs2; apply Inv_submit_fold; assumption|].
      rewrite S1, S2, S4, S5, S6, S7, S8, S9, S10, T3, Gp, Gtr, Gr, Gt, Gn, Glog, Gl, Gph, Flog.
      repeat split; try reflexivity. exact T1.
    - (* enough points to retry: the learner is not asked *)
      cbn [assign_ids map]. rewrite !app_nil_r.
      assert (Hall : forall p, In p (gf_R s) -> aget p (idp s1) <> None /\ cnt p (pvals s1) = 0 /\
                                 (aget p (tbs s1) <> None -> aget p (retry s1) <> None)).
      { intros p Hp. unfold pvals. rewrite Fi, Fp, Ft, Fr. destruct (HR p Hp) as (A1 & A2 & A3). auto. }
      set (sel := cut k (gf_R s)) in *.
      assert (HallS : forall p, In p sel -> aget p (idp s1) <> None /\ cnt p (pvals s1) = 0 /\
                                 (aget p (tbs s1) <> None -> aget p (retry s1) <> None))
        by (intros p Hp; apply Hall; apply (cut_In k); exact Hp).
      assert (HndS : NoDup sel) by (apply cut_NoDup; exact HRnd).
      assert (Hs2 : s' = fold_left (@submit_pid P V L) sel s1) by exact Hs'.
      pose proof (submit_fold_shape sel s1) as SH. cbv zeta in SH. rewrite <- Hs2, Ff, Fi in SH.
      destruct SH as (S1 & S2 & S3 & S4 & S5 & S6 & S7 & S8 & S9 & S10).
      destruct (subs_list_all (nfid s) sel (idp s)) as (T1 & T2 & T3).
      { intros p Hp. apply HR. apply (cut_In k). exact Hp. }
      split; [rewrite Hs2; apply Inv_submit_fold; assumption|].
      rewrite S1, S2, S4, S5, S6, S7, S8, S9, S10, T3, Fp, Ftr, Fr, Ft, Fn, Flog, Fl, Fph.
      cbn [length app]. rewrite Nat.add_0_r.
      repeat split; try reflexivity. exact T1.
  Qed.

  Lemma get_futures_spec s : Inv s ->
    let s' := get_futures lrn c s in
    Inv s' /\
    pend s' = pend s ++ combine (seq (nfid s) (length (gf_pids s))) (gf_pids s) /\
    tr s' = rev (map sub_ev (gf_subs s)) ++ (if gf_asks s then [TAsk (gf_m s) (gf_new s)] else []) ++ tr s /\
    map (fun z : nat * nat * P => snd (fst z)) (gf_subs s) = gf_pids s /\
    retry s' = retry s /\ tbs s' = tbs s /\ idp s' = idp s ++ gf_new s /\
    nid s' = nid s + length (gf_pts s) /\
    log s' = (if c_log c then log s ++ [LAsk (gf_n s)] else log s) /\
    lst s' = (if gf_asks s then snd (l_ask lrn (lst s) (gf_m s)) else lst s) /\ ph s' = ph s.
  Proof. exact (get_futures_upto_spec None s). Qed.

  (* ---- _remove_unfinished / stop ---------------------------------------- *)
  Definition neutral e : Prop := e = TRemove \/ exists f, e = TCancel f.

  Lemma Inv_emit_neutral s e : Inv s -> neutral e -> Inv (emit s e).
  Proof.
    intros HI Hne.
    assert (Hsub : forall f q x, In (TSubmit f q x) (e :: tr s) -> In (TSubmit f q x) (tr s))
      by (intros f q x [Heq|Hin]; [destruct Hne as [->|[f' ->]]; discriminate|exact Hin]).
    assert (Hdone : forall f q o, In (TDone f q o) (e :: tr s) -> In (TDone f q o) (tr s))
      by (intros f q o [Heq|Hin]; [destruct Hne as [->|[f' ->]]; discriminate|exact Hin]).
    assert (Hcn : forall p, nsub p (e :: tr s) = nsub p (tr s) /\ nerr p (e :: tr s) = nerr p (tr s) /\
                            nok p (e :: tr s) = nok p (tr s) /\ ntell p (e :: tr s) = ntell p (tr s))
      by (intros p; destruct Hne as [->|[f' ->]]; repeat split).
    constructor; sp.
    - apply (i_fids HI).
    - apply (i_pend_nd HI).
    - apply (i_retry_nd HI).
    - apply (i_idp_lt HI).
    - intros p Hp. destruct (Hcn p) as (-> & -> & -> & ->). apply (i_fresh HI). exact Hp.
    - intros p Hp Hn. destruct (Hcn p) as (-> & -> & -> & ->). apply (i_told HI); assumption.
    - intros p x Hx. destruct (Hcn p) as (-> & -> & -> & ->). apply (i_live HI _ _ Hx).
    - apply (i_dom HI).
    - intros f q Hq. destruct (i_pend_sub HI _ _ Hq) as (x & Hx & Hin & Hnd). exists x.
      split; [exact Hx|]. split; [right; exact Hin|].
      intros (q' & o & Hd). apply Hnd. exists q', o. apply Hdone. exact Hd.
    - intros f q x Hin. apply Hsub in Hin. destruct (i_sub_acc HI _ _ _ Hin) as (Hlt & Hor).
      split; [exact Hlt|]. destruct Hor as [(o & Ho)|Hq]; [left; exists o; right; exact Ho|right; exact Hq].
    - intros p x Hx. destruct (i_idp_asked HI _ _ Hx) as (n' & ret & Hin & Hr).
      exists n', ret. split; [right; exact Hin|exact Hr].
    - intros f q o Hin. apply Hdone in Hin. apply (i_done_lt HI _ _ _ Hin).
    - cbn [all_suffix]. split; [|apply (i_tr HI)]. destruct Hne as [->|[f' ->]]; exact I.
  Qed.

  Lemma set_tr_fold (l : list tev) : forall s, set_tr s (rev l ++ tr s) = fold_left (@emit P V L) l s.
  Proof.
    induction l as [|a l IH]; intros s; cbn [rev app fold_left].
    - destruct s; reflexivity.
    - rewrite <- IH. rewrite <- app_assoc. reflexivity.
  Qed.

  Lemma Inv_fold_neutral (l : list tev) : forall s, Inv s -> (forall e, In e l -> neutral e) ->
    Inv (fold_left (@emit P V L) l s).
  Proof.
    induction l as [|a l IH]; intros s HI H; cbn [fold_left]; [exact HI|].
    apply IH; [apply Inv_emit_neutral; [exact HI|apply H; left; reflexivity]|intros e He; apply H; right; exact He].
  Qed.

  Definition cancels s : list tev := map (fun fp : nat * nat => TCancel (fst fp)) (pend s).

  Lemma remove_unfinished_fields s :
    let s' := remove_unfinished lrn s in
    pend s' = pend s /\ retry s' = retry s /\ tbs s' = tbs s /\ idp s' = idp s /\ nid s' = nid s /\
    nfid s' = nfid s /\ log s' = log s /\ lst s' = l_remove lrn (lst s) /\ ph s' = ph s /\
    tr s' = rev (cancels s) ++ TRemove :: tr s.
  Proof. unfold remove_unfinished. sp. repeat split. Qed.

  Lemma Inv_remove_unfinished s : Inv s -> Inv (remove_unfinished lrn s).
  Proof.
    intros HI. unfold remove_unfinished.
    set (s1 := emit (set_lst s (l_remove lrn (lst s))) TRemove).
    change (map (fun fp : nat * nat => TCancel (fst fp)) (pend s)) with (cancels s).
    rewrite set_tr_fold. apply Inv_fold_neutral.
    - apply Inv_emit_neutral; [apply Inv_set_lst; exact HI|left; reflexivity].
    - intros e He. unfold cancels in He. apply in_map_iff in He. destruct He as (fp & <- & _). right. eexists. reflexivity.
  Qed.

  Lemma Inv_stop s w : Inv s -> Inv (stop lrn s w).
  Proof.
    intros HI. unfold stop. pose proof (Inv_remove_unfinished s HI) as H.
    destruct (pend (remove_unfinished lrn s)); apply Inv_set_ph; exact H.
  Qed.

  (* ---- every reachable state satisfies the invariant -------------------- *)
  Lemma Inv_rstep s (a : ev) : Inv s -> Inv (rstep lrn c s a).
  Proof.
    intros HI. unfold rstep.
    destruct (ph s) as [| |w|w cl]; destruct a as [[|]|done| |j|got|done]; try exact HI.
    - apply Inv_stop; exact HI.
    - apply Inv_set_ph. apply get_futures_spec. exact HI.
    - apply Inv_stop. apply get_futures_upto_spec. exact HI.
    - destruct (process lrn c s done) as [s' [pid|]] eqn:Ep.
      + apply Inv_stop. eapply Inv_process; eauto.
      + apply Inv_set_ph. eapply Inv_process; eauto.
    - apply Inv_stop; exact HI.
    - destruct (process lrn c s done) as [s' [pid|]] eqn:Ep; apply Inv_stop; eapply Inv_process; eauto.
    - destruct (c_kind c).
      + destruct (process lrn c s got) as [s' [pid|]] eqn:Ep; apply Inv_set_ph; eapply Inv_process; eauto.
      + apply Inv_set_ph; exact HI.
  Qed.

  Lemma run_cons s (a : ev) evs : run lrn c s (a :: evs) = run lrn c (rstep lrn c s a) evs.
  Proof. reflexivity. Qed.

  Lemma run_app s evs1 evs2 : run lrn c s (evs1 ++ evs2) = run lrn c (run lrn c s evs1) evs2.
  Proof. apply fold_left_app. Qed.

  Lemma Inv_run evs : forall s, Inv s -> Inv (run lrn c s evs).
  Proof. induction evs as [|a evs IH]; intros s HI; [exact HI|]. rewrite run_cons. apply IH, Inv_rstep, HI. Qed.

  Theorem Inv_reach l0 evs : Inv (reach lrn c l0 evs).
  Proof. apply Inv_run, Inv_init. Qed.

  (* ---- an induction principle for the for loop of _process_futures ------- *)
  Inductive pstep : rst -> rst -> option nat -> Prop :=
  | ps_skip s : pstep s s None
  | ps_ok s fid pid x y : aget fid (pend s) = Some pid -> aget pid (idp s) = Some x ->
      pstep s (ok_step s fid pid x y) None
  | ps_err s fid pid : aget fid (pend s) = Some pid ->
      pstep s (err_step s fid pid) (if (r <? err_n s pid) && c_raise c then Some pid else None).

  Lemma process_one_pstep s fid o s' res : Inv s -> process_one lrn c s fid o = (s', res) -> pstep s s' res.
  Proof.
    intros HI H. destruct (aget fid (pend s)) as [pid|] eqn:Ep.
    - destruct o as [y|].
      + destruct (i_pend_sub HI _ _ Ep) as (x & Hx & _).
        rewrite (process_one_ok _ _ _ _ y Ep Hx) in H. inversion H; subst. apply ps_ok; assumption.
      + rewrite (process_one_err _ _ _ Ep) in H. inversion H; subst. apply ps_err; assumption.
    - unfold process_one in H. rewrite Ep in H. inversion H; subst. apply ps_skip.
  Qed.

  Lemma Inv_pstep s s' res : Inv s -> pstep s s' res -> Inv s'.
  Proof. intros HI H. destruct H; [exact HI|apply Inv_ok_step; assumption|apply Inv_err_step; assumption]. Qed.

  Lemma process_inv (Q : rst -> Prop) :
    (forall s s', Inv s -> Q s -> pstep s s' None -> Q s') ->
    forall done s s' res, Inv s -> Q s -> process lrn c s done = (s', res) ->
      (res = None -> Q s') /\
      (forall pid, res = Some pid ->
                 exists s0 fid, Inv s0 /\ Q s0 /\ aget fid (pend s0) = Some pid /\
                                s' = err_step s0 fid pid /\ r < err_n s0 pid /\ c_raise c = true).
  Proof.
    intros Hstep. induction done as [|[fid o] done IH]; cbn [process]; intros s s' res HI HQ H.
    - inversion H; subst. split; [intros _; exact HQ|discriminate].
    - destruct (process_one lrn c s fid o) as [s1 res1] eqn:E1.
      pose proof (process_one_pstep _ _ _ _ _ HI E1) as Hp.
      destruct res1 as [pid|].
      + inversion H; subst. split; [discriminate|].
        intros pid' [= <-]. inversion Hp; subst.
        exists s, fid0. destruct (Nat.ltb_spec r (err_n s pid0)); cbn [andb] in *; [|discriminate].
        destruct (c_raise c) eqn:Er; [|discriminate].
        match goal with H : Some _ = Some _ |- _ => inversion H; subst end. auto 10.
      + eapply IH; [eapply Inv_pstep; eauto|eapply Hstep; eauto|exact H].
  Qed.

  (* ---- phases and the shape of the trace at shutdown --------------------- *)
  Definition is_cdt e : Prop :=
    (exists f, e = TCancel f) \/ (exists f q o, e = TDone f q o) \/ (exists q x y, e = TTell q x y).
  Definition not_stop e : Prop := e <> TRemove /\ forall f, e <> TCancel f.

  (* tr = t1 ++ TRemove :: t2 : remove_unfinished was called exactly once, before
     it nothing was cancelled, after it nothing was asked or submitted, and
     cancel() was called on every future that is still pending *)
  Definition stop_shape s : Prop :=
    exists t1 t2, tr s = t1 ++ TRemove :: t2 /\ (forall e, In e t1 -> is_cdt e) /\
                  (forall e, In e t2 -> not_stop e) /\
                  (forall f, In f (akeys (pend s)) -> In (TCancel f) t1) /\
                  (c_kind c = Async -> forall e, In e t1 -> exists f, e = TCancel f).

  Definition PhInv s : Prop :=
    match ph s with
    | AtGoal | InWait => forall e, In e (tr s) -> not_stop e
    | Stopping w => w <> NoWorkers /\ stop_shape s /\ pend s <> []
    | Stopped NoWorkers _ => tr s = [] /\ M < 1
    | Stopped _ _ => stop_shape s
    end.

  (* effect of the loop on the trace: only TDone/TTell are added, no future becomes pending *)
  Definition Pr s0 s : Prop :=
    exists tn, tr s = tn ++ tr s0 /\
               (forall e, In e tn -> (exists f q o, e = TDone f q o) \/ (exists q x y, e = TTell q x y)) /\
               (forall f, In f (akeys (pend s)) -> In f (akeys (pend s0))) /\ ph s = ph s0.

  Lemma Pr_refl s : Pr s s.
  Proof. exists []. repeat split; auto. intros e []. Qed.

  Lemma Pr_pstep s0 s s' res : Inv s -> Pr s0 s -> pstep s s' res -> Pr s0 s'.
  Proof.
    intros _ (tn & Ht & Hn & Hk & Hph) H. destruct H as [s|s fid pid x y H1 H2|s fid pid H1].
    - exists tn. auto.
    - destruct (ok_fields s fid pid x y) as (Fp & Ft & _ & _ & _ & _ & _ & _ & Fph & _).
      exists (TTell pid x y :: TDone fid pid (Ok y) :: tn). rewrite Ft, Fp, Fph, Ht. repeat split; auto.
      + intros e [<-|[<-|He]]; [right; eauto|left; eauto|auto].
      + intros f Hf. apply akeys_apop_In in Hf. apply Hk. tauto.
    - destruct (err_fields s fid pid) as (Fp & Ft & _ & _ & _ & _ & _ & _ & Fph & _).
      exists (TDone fid pid Err :: tn). rewrite Ft, Fp, Fph, Ht. repeat split; auto.
      + intros e [<-|He]; [left; eauto|auto].
      + intros f Hf. apply akeys_apop_In in Hf. apply Hk. tauto.
  Qed.

  Lemma process_Pr done s s' res : Inv s -> process lrn c s done = (s', res) -> Pr s s'.
  Proof.
    intros HI H. destruct (process_inv (Pr s)) with (done := done) (s := s) (s' := s') (res := res) as [A B];
      [intros; eapply Pr_pstep; eauto|exact HI|apply Pr_refl|exact H|].
    destruct res as [pid|]; [|apply A; reflexivity].
    destruct (B pid eq_refl) as (s0 & fid & HI0 & HP0 & Hf & -> & _ & _).
    eapply Pr_pstep; [exact HI0|exact HP0|]. apply (ps_err s0 fid pid Hf).
  Qed.

  Lemma stop_fields s w :
    let s' := stop lrn s w in
    pend s' = pend s /\ retry s' = retry s /\ tbs s' = tbs s /\ idp s' = idp s /\ nid s' = nid s /\
    nfid s' = nfid s /\ log s' = log s /\ lst s' = l_remove lrn (lst s) /\
    tr s' = rev (cancels s) ++ TRemove :: tr s /\
    ph s' = (match pend s with [] => Stopped w true | _ :: _ => Stopping w end).
  Proof.
    unfold stop. destruct (remove_unfinished_fields s) as (A1 & A2 & A3 & A4 & A5 & A6 & A7 & A8 & A9 & A10).
    rewrite A1. destruct (pend s); sp; repeat split; assumption.
  Qed.

  Lemma stop_shape_stop s w : (forall e, In e (tr s) -> not_stop e) -> stop_shape (stop lrn s w).
  Proof.
    intros Hns. destruct (stop_fields s w) as (Fp & _ & _ & _ & _ & _ & _ & _ & Ft & _).
    exists (rev (cancels s)), (tr s). rewrite Ft, Fp. split; [reflexivity|].
    assert (Hc : forall e, In e (rev (cancels s)) -> exists f, e = TCancel f).
    { intros e He. apply in_rev in He. unfold cancels in He. apply in_map_iff in He.
      destruct He as (fp & <- & _). eexists; reflexivity. }
    split; [intros e He; left; apply Hc; exact He|]. split; [exact Hns|]. split; [|intros _; exact Hc].
    intros f Hf. apply in_rev. rewrite rev_involutive. unfold cancels, akeys in *.
    apply in_map_iff in Hf. destruct Hf as (fp & <- & Hin). apply in_map_iff. exists fp. auto.
  Qed.

  Lemma PhInv_stop s w : w <> NoWorkers -> (forall e, In e (tr s) -> not_stop e) -> PhInv (stop lrn s w).
  Proof.
    intros Hw Hns. pose proof (stop_shape_stop s w Hns) as Hsh. unfold PhInv.
    destruct (stop_fields s w) as (Fp & _ & _ & _ & _ & _ & _ & _ & _ & Fph). rewrite Fph.
    destruct (pend s) eqn:Ep.
    - destruct w; try exact Hsh. congruence.
    - split; [exact Hw|]. split; [exact Hsh|]. rewrite Fp. discriminate.
  Qed.

  Lemma not_stop_Pr s s' : Pr s s' -> (forall e, In e (tr s) -> not_stop e) -> forall e, In e (tr s') -> not_stop e.
  Proof.
    intros (tn & Ht & Hn & _ & _) H e He. rewrite Ht in He. apply in_app_or in He. destruct He as [He|He]; [|auto].
    destruct (Hn e He) as [(f & q & o & ->)|(q & x & y & ->)]; split; try discriminate; intros; discriminate.
  Qed.

  Lemma gfk_not_stop k s : Inv s -> (forall e, In e (tr s) -> not_stop e) ->
    forall e, In e (tr (get_futures_upto lrn c k s)) -> not_stop e.
  Proof.
    intros HI HP. destruct (get_futures_upto_spec k s HI) as (_ & _ & Ft & _).
    intros e He. rewrite Ft in He. apply in_app_or in He. destruct He as [He|He].
    - apply in_rev in He. apply in_map_iff in He. destruct He as (z & <- & _).
      split; [discriminate|intros; discriminate].
    - apply in_app_or in He. destruct He as [He|He]; [|auto].
      destruct (gf_asks s); [|destruct He]. destruct He as [<-|[]]. split; [discriminate|intros; discriminate].
  Qed.

  Lemma PhInv_rstep s (a : ev) : Inv s -> PhInv s -> PhInv (rstep lrn c s a).
  Proof.
    intros HI HP. unfold rstep. unfold PhInv in HP.
    destruct (ph s) as [| |w|w cl] eqn:Eph; destruct a as [[|]|done| |j|got|done];
      try (unfold PhInv; rewrite Eph; exact HP).
    - apply PhInv_stop; [discriminate|exact HP].
    - unfold PhInv. sp. apply (gfk_not_stop None s HI HP).
    - apply PhInv_stop; [discriminate|]. apply (gfk_not_stop (Some j) s HI HP).
    - destruct (process lrn c s done) as [s' [pid|]] eqn:Ep.
      + apply PhInv_stop; [discriminate|]. eapply not_stop_Pr; [eapply process_Pr; eauto|exact HP].
      + unfold PhInv. sp. eapply not_stop_Pr; [eapply process_Pr; eauto|exact HP].
    - apply PhInv_stop; [discriminate|exact HP].
    - destruct (process lrn c s done) as [s' [pid|]] eqn:Ep;
        (apply PhInv_stop; [discriminate|]; eapply not_stop_Pr; [eapply process_Pr; eauto|exact HP]).
    - destruct HP as (Hw & (t1 & t2 & Ht & H1 & H2 & H3 & H4) & Hne).
      destruct (c_kind c) eqn:Ek.
      + assert (Hsh : forall s' res, process lrn c s got = (s', res) -> stop_shape s').
        { intros s' res Ep. destruct (process_Pr _ _ _ _ HI Ep) as (tn & Ht' & Hn & Hk & _).
          exists (tn ++ t1), t2. rewrite Ht', Ht, app_assoc. split; [reflexivity|].
          split; [intros e He; apply in_app_or in He; destruct He as [He|He]; [right; exact (Hn e He)|auto]|].
          split; [exact H2|]. split; [intros f Hf; apply in_or_app; right; apply H3, Hk, Hf|].
          intros Ha. congruence. }
        destruct (process lrn c s got) as [s' [pid|]] eqn:Ep; unfold PhInv; sp.
        * exact (Hsh _ _ eq_refl).
        * destruct w; try exact (Hsh _ _ eq_refl). congruence.
      + unfold PhInv. sp. assert (Hsh : stop_shape s).
        { exists t1, t2. split; [exact Ht|]. split; [exact H1|]. split; [exact H2|]. split; [exact H3|].
          intros _. apply H4. reflexivity. }
        destruct w; try exact Hsh. congruence.
  Qed.

  Lemma PhInv_init l0 : PhInv (init P V c l0).
  Proof.
    unfold PhInv, init. sp. destruct (Nat.ltb_spec M 1); sp; [auto|]. intros e [].
  Qed.

  Lemma PhInv_run evs : forall s, Inv s -> PhInv s -> PhInv (run lrn c s evs).
  Proof.
    induction evs as [|a evs IH]; intros s HI HP; [exact HP|]. rewrite run_cons.
    apply IH; [apply Inv_rstep, HI|apply PhInv_rstep; assumption].
  Qed.

  Theorem PhInv_reach l0 evs : PhInv (reach lrn c l0 evs).
  Proof. apply PhInv_run; [apply Inv_init|apply PhInv_init]. Qed.

  (* ---- raise_if_retries_exceeded ----------------------------------------- *)
  Definition RaiseInv s : Prop :=
    match ph s with
    | Stopping (Failed p) | Stopped (Failed p) _ => c_raise c = true /\ r < nerr p (tr s)
    | _ => c_raise c = true -> forall p, nerr p (tr s) <= r
    end.
  Definition Qr s : Prop := c_raise c = true -> forall p, nerr p (tr s) <= r.

  Lemma nerr_err_step s fid pid p : nerr p (tr (err_step s fid pid)) = (if p =? pid then 1 else 0) + nerr p (tr s).
  Proof. destruct (err_fields s fid pid) as (_ & Ft & _). rewrite Ft. reflexivity. Qed.

  Lemma err_n_nerr s fid pid : Inv s -> aget fid (pend s) = Some pid -> err_n s pid = nerr pid (tr s) + 1.
  Proof.
    intros HI H. destruct (live_pending s fid pid HI H) as (x0 & _ & _ & _ & _ & Hne & _). unfold err_n. lia.
  Qed.

  Lemma Qr_pstep s s' : Inv s -> Qr s -> pstep s s' None -> Qr s'.
  Proof.
    intros HI HQ H Hr p. specialize (HQ Hr). remember (@None nat) as res eqn:Hres.
    destruct H as [s|s fid pid x y H1 H2|s fid pid H1].
    - apply HQ.
    - destruct (ok_fields s fid pid x y) as (_ & Ft & _). rewrite Ft. apply HQ.
    - rewrite nerr_err_step. rewrite Hr, andb_true_r in Hres.
      destruct (Nat.ltb_spec r (err_n s pid)); [discriminate|].
      pose proof (err_n_nerr s fid pid HI H1). specialize (HQ p). deq p pid; [subst; lia|lia].
  Qed.

  Lemma process_raise done s s' res : Inv s -> Qr s -> process lrn c s done = (s', res) ->
    match res with None => Qr s' | Some pid => c_raise c = true /\ r < nerr pid (tr s') end.
  Proof.
    intros HI HQ H. destruct (process_inv Qr Qr_pstep done s s' res HI HQ H) as [A B].
    destruct res as [pid|]; [|apply A; reflexivity].
    destruct (B pid eq_refl) as (s0 & fid & HI0 & _ & Hf & -> & Hlt & Hr). split; [exact Hr|].
    rewrite nerr_err_step, Nat.eqb_refl. pose proof (err_n_nerr s0 fid pid HI0 Hf). lia.
  Qed.

  Lemma nerr_mono s s' p : Pr s s' -> nerr p (tr s) <= nerr p (tr s').
  Proof. intros (tn & Ht & _). rewrite Ht. unfold nerr. rewrite count_true_app. lia. Qed.

  Lemma nerr_stop s w p : nerr p (tr (stop lrn s w)) = nerr p (tr s).
  Proof.
    destruct (stop_fields s w) as (_ & _ & _ & _ & _ & _ & _ & _ & Ft & _). rewrite Ft.
    unfold nerr. rewrite count_true_app. cbn [count_true is_err].
    assert (H0 : count_true (is_err p) (rev (cancels s)) = 0).
    { apply count_true_0. intros a Ha. apply in_rev in Ha. unfold cancels in Ha. apply in_map_iff in Ha.
      destruct Ha as (fp & <- & _). reflexivity. }
    rewrite H0. reflexivity.
  Qed.

  Lemma RaiseInv_stop_ok s w : (forall p, w <> Failed p) -> Qr s -> RaiseInv (stop lrn s w).
  Proof.
    intros Hw HQ. unfold RaiseInv. destruct (stop_fields s w) as (_ & _ & _ & _ & _ & _ & _ & _ & _ & Fph).
    rewrite Fph. destruct (pend s); destruct w; try (exfalso; eapply Hw; reflexivity);
      intros Hr q; rewrite nerr_stop; apply HQ; exact Hr.
  Qed.

  Lemma RaiseInv_stop_failed s pid : c_raise c = true -> r < nerr pid (tr s) -> RaiseInv (stop lrn s (Failed pid)).
  Proof.
    intros Hr Hlt. unfold RaiseInv. destruct (stop_fields s (Failed pid)) as (_ & _ & _ & _ & _ & _ & _ & _ & _ & Fph).
    rewrite Fph. destruct (pend s); rewrite nerr_stop; auto.
  Qed.

  Lemma gfk_nerr k s p : Inv s -> nerr p (tr (get_futures_upto lrn c k s)) = nerr p (tr s).
  Proof.
    intros HI. destruct (get_futures_upto_spec k s HI) as (_ & _ & Ft & _). rewrite Ft.
    unfold nerr. rewrite !count_true_app.
    assert (H0 : count_true (is_err p) (rev (map sub_ev (gf_subs_k k s))) = 0).
    { apply count_true_0. intros a Ha. apply in_rev in Ha. apply in_map_iff in Ha. destruct Ha as (z & <- & _). reflexivity. }
    assert (H1 : count_true (is_err p) (if gf_asks s then [TAsk (gf_m s) (gf_new s)] else []) = 0)
      by (destruct (gf_asks s); reflexivity).
    rewrite H0, H1. reflexivity.
  Qed.

  Lemma RaiseInv_rstep s (a : ev) : Inv s -> RaiseInv s -> RaiseInv (rstep lrn c s a).
  Proof.
    intros HI HR. unfold rstep. unfold RaiseInv in HR.
    destruct (ph s) as [| |w|w cl] eqn:Eph; destruct a as [[|]|done| |j|got|done];
      try (unfold RaiseInv; rewrite Eph; exact HR).
    - apply RaiseInv_stop_ok; [discriminate|exact HR].
    - unfold RaiseInv. sp. unfold get_futures. intros Hr p. rewrite (gfk_nerr None s p HI). apply HR. exact Hr.
    - apply RaiseInv_stop_ok; [discriminate|]. intros Hr p. rewrite (gfk_nerr (Some j) s p HI). apply HR. exact Hr.
    - pose proof (process_raise done s) as Hpr.
      destruct (process lrn c s done) as [s' [pid|]] eqn:Ep; specialize (Hpr _ _ HI HR eq_refl).
      + destruct Hpr. apply RaiseInv_stop_failed; assumption.
      + unfold RaiseInv. sp. exact Hpr.
    - apply RaiseInv_stop_ok; [discriminate|exact HR].
    - pose proof (process_raise done s) as Hpr.
      destruct (process lrn c s done) as [s' [pid|]] eqn:Ep; specialize (Hpr _ _ HI HR eq_refl).
      + destruct Hpr. apply RaiseInv_stop_failed; assumption.
      + apply RaiseInv_stop_ok; [discriminate|exact Hpr].
    - destruct (c_kind c).
      + pose proof (process_raise got s) as Hpr. pose proof (process_Pr got s) as HPr.
        destruct w as [| |p0|].
        * destruct (process lrn c s got) as [s' [pid|]] eqn:Ep; specialize (Hpr _ _ HI HR eq_refl);
            unfold RaiseInv; sp; exact Hpr.
        * destruct (process lrn c s got) as [s' [pid|]] eqn:Ep; specialize (Hpr _ _ HI HR eq_refl);
            unfold RaiseInv; sp; exact Hpr.
        * destruct HR as [Hr Hlt].
          destruct (process lrn c s got) as [s' [pid|]] eqn:Ep; specialize (HPr _ _ HI eq_refl); unfold RaiseInv; sp.
          -- assert (HQ' : Qr s \/ True) by (right; exact I).
             split; [exact Hr|].
             (* the raising step: its pid exceeds the limit *)
             destruct (process_inv (fun _ => True)) with (done := got) (s := s) (s' := s') (res := Some pid) as [_ B];
               [auto|exact HI|exact I|exact Ep|].
             destruct (B pid eq_refl) as (s0 & fid & HI0 & _ & Hf & -> & Hlt0 & _).
             rewrite nerr_err_step, Nat.eqb_refl. pose proof (err_n_nerr s0 fid pid HI0 Hf). lia.
          -- split; [exact Hr|]. pose proof (nerr_mono s s' p0 HPr). lia.
        * destruct (process lrn c s got) as [s' [pid|]] eqn:Ep; specialize (Hpr _ _ HI HR eq_refl);
            unfold RaiseInv; sp; exact Hpr.
      + unfold RaiseInv. sp. exact HR.
  Qed.

  Lemma RaiseInv_init l0 : RaiseInv (init P V c l0).
  Proof. unfold RaiseInv, init. sp. destruct (M <? 1); intros _ p; cbn; lia. Qed.

  Lemma RaiseInv_run evs : forall s, Inv s -> RaiseInv s -> RaiseInv (run lrn c s evs).
  Proof.
    induction evs as [|a evs IH]; intros s HI HP; [exact HP|]. rewrite run_cons.
    apply IH; [apply Inv_rstep, HI|apply RaiseInv_rstep; assumption].
  Qed.

  Theorem RaiseInv_reach l0 evs : RaiseInv (reach lrn c l0 evs).
  Proof. apply RaiseInv_run; [apply Inv_init|apply RaiseInv_init]. Qed.

  (* ---- the log and the learner (C19) -------------------------------------- *)
  Definition apply_tev (l : L) e : L :=
    match e with
    | TAsk n _ => snd (l_ask lrn l n)
    | TTell _ x y => l_tell lrn l x y
    | TRemove => l_remove lrn l
    | _ => l
    end.
  (* the calls of the trace (newest first) applied in chronological order *)
  Definition apply_trace (l0 : L) t : L := fold_right (fun e l => apply_tev l e) l0 t.
  Definition noerr t : Prop := forall f q, ~ In (TDone f q Err) t.
  Definition proj e : list (logent P V) :=
    match e with TAsk n _ => [LAsk n] | TTell _ x y => [LTell x y] | _ => [] end.
  (* the ask/tell calls of the trace, in chronological order, as log entries *)
  Fixpoint logv t : list (logent P V) := match t with [] => [] | e :: old => logv old ++ proj e end.
  Definition nz (e : logent P V) : bool := match e with LAsk 0 => false | _ => true end.
  (* the log without its ("ask", 0) entries, which correspond to no call *)
  Definition log_nz (lg : list (logent P V)) := filter nz lg.

  Lemma apply_trace_app l0 t1 t2 : apply_trace l0 (t1 ++ t2) = apply_trace (apply_trace l0 t2) t1.
  Proof. apply fold_right_app. Qed.

  Lemma logv_app t1 t2 : logv (t1 ++ t2) = logv t2 ++ logv t1.
  Proof.
    induction t1 as [|e t1 IH]; cbn [app logv]; [rewrite app_nil_r; reflexivity|].
    rewrite IH, app_assoc. reflexivity.
  Qed.

  Definition silent e : Prop := (forall l, apply_tev l e = l) /\ proj e = [].

  Lemma silent_trace l t : (forall e, In e t -> silent e) -> apply_trace l t = l /\ logv t = [].
  Proof.
    induction t as [|e t IH]; intros H; cbn [apply_trace fold_right logv]; [auto|].
    destruct IH as [A B]; [intros a Ha; apply H; right; exact Ha|].
    destruct (H e (or_introl eq_refl)) as [C D]. fold (apply_trace l t). rewrite A, B, C, D. auto.
  Qed.

  Lemma log_nz_app a b : log_nz (a ++ b) = log_nz a ++ log_nz b.
  Proof. apply filter_app. Qed.

  Lemma noerr_app t1 t2 : noerr (t1 ++ t2) -> noerr t2.
  Proof. intros H f q Hin. apply (H f q). apply in_or_app. right. exact Hin. Qed.

  Record LogInv (l0 : L) s : Prop := {
    lg_lst : lst s = apply_trace l0 (tr s);
    lg_off : c_log c = false -> log s = [];
    lg_on : c_log c = true -> noerr (tr s) -> retry s = [] /\ log_nz (log s) = logv (tr s)
  }.

  Lemma LogInv_set_ph l0 s v : LogInv l0 s -> LogInv l0 (set_ph s v).
  Proof. intros [A B C]. constructor; assumption. Qed.

  Lemma LogInv_pstep l0 s s' : Inv s -> LogInv l0 s -> pstep s s' None -> LogInv l0 s'.
  Proof.
    intros HI [A B C] H. remember (@None nat) as res eqn:Hres.
    destruct H as [s|s fid pid x y H1 H2|s fid pid H1].
    - constructor; assumption.
    - destruct (ok_fields s fid pid x y) as (_ & Ft & _ & _ & _ & _ & Flog & Flst & _ & Fr).
      constructor.
      + rewrite Flst, Ft, A. reflexivity.
      + intros Hl. rewrite Flog, Hl. apply B. exact Hl.
      + intros Hl Hne. rewrite Ft in Hne. rewrite Flog, Hl, Fr, Ft.
        destruct (C Hl) as [C1 C2]; [apply (noerr_app [TTell pid x y; TDone fid pid (Ok y)]); exact Hne|].
        rewrite C1. split; [reflexivity|]. rewrite log_nz_app, C2. cbn [logv proj log_nz filter nz].
        rewrite app_nil_r. reflexivity.
    - destruct (err_fields s fid pid) as (_ & Ft & _ & _ & _ & _ & Flog & Flst & _ & _).
      constructor.
      + rewrite Flst, Ft, A. reflexivity.
      + rewrite Flog. exact B.
      + intros _ Hne. exfalso. apply (Hne fid pid). rewrite Ft. left. reflexivity.
  Qed.

  Lemma LogInv_process l0 done s s' res : Inv s -> LogInv l0 s -> process lrn c s done = (s', res) -> LogInv l0 s'.
  Proof.
    intros HI HL H.
    destruct (process_inv (LogInv l0)) with (done := done) (s := s) (s' := s') (res := res) as [A B];
      [intros; eapply LogInv_pstep; eauto|exact HI|exact HL|exact H|].
    destruct res as [pid|]; [|apply A; reflexivity].
    destruct (B pid eq_refl) as (s0 & fid & HI0 & [A0 B0 C0] & Hf & -> & _ & _).
    destruct (err_fields s0 fid pid) as (_ & Ft & _ & _ & _ & _ & Flog & Flst & _ & _).
    constructor.
    - rewrite Flst, Ft, A0. reflexivity.
    - rewrite Flog. exact B0.
    - intros _ Hne. exfalso. apply (Hne fid pid). rewrite Ft. left. reflexivity.
  Qed.

  Lemma cancels_silent s e : In e (rev (cancels s)) -> silent e.
  Proof.
    intros He. apply in_rev in He. unfold cancels in He. apply in_map_iff in He. destruct He as (fp & <- & _).
    split; [intros; reflexivity|reflexivity].
  Qed.

  Lemma LogInv_stop l0 s w : LogInv l0 s -> LogInv l0 (stop lrn s w).
  Proof.
    intros [A B C]. destruct (stop_fields s w) as (_ & Fr & _ & _ & _ & _ & Flog & Flst & Ft & _).
    destruct (silent_trace (apply_trace l0 (TRemove :: tr s)) (rev (cancels s)) (cancels_silent s)) as [S1 S2].
    constructor.
    - rewrite Flst, Ft, apply_trace_app, S1, A. reflexivity.
    - rewrite Flog. exact B.
    - intros Hl Hne. rewrite Ft in Hne. rewrite Fr, Flog, Ft, logv_app, S2, app_nil_r. cbn [logv proj].
      rewrite app_nil_r. apply C; [exact Hl|]. apply (noerr_app (rev (cancels s) ++ [TRemove])).
      rewrite <- app_assoc. exact Hne.
  Qed.

  Lemma subs_silent k s e : In e (rev (map sub_ev (gf_subs_k k s))) -> silent e.
  Proof.
    intros He. apply in_rev in He. apply in_map_iff in He. destruct He as (z & <- & _).
    split; [intros; reflexivity|reflexivity].
  Qed.

  Lemma LogInv_get_futures l0 k s : Inv s -> LogInv l0 s -> LogInv l0 (get_futures_upto lrn c k s).
  Proof.
    intros HI [A B C].
    destruct (get_futures_upto_spec k s HI) as (_ & _ & Ft & _ & Fr & _ & _ & _ & Flog & Flst & _).
    set (X := (if gf_asks s then [TAsk (gf_m s) (gf_new s)] else []) ++ tr s) in *.
    destruct (silent_trace (apply_trace l0 X) (rev (map sub_ev (gf_subs_k k s))) (subs_silent k s)) as [S1 S2].
    constructor.
    - rewrite Flst, Ft, apply_trace_app, S1. unfold X. destruct (gf_asks s); cbn [app apply_trace fold_right apply_tev].
      + fold (apply_trace l0 (tr s)). rewrite <- A. reflexivity.
      + exact A.
    - intros Hl. rewrite Flog, Hl. apply B. exact Hl.
    - intros Hl Hne. rewrite Ft in Hne. apply noerr_app in Hne. fold X in Hne.
      assert (Hne' : noerr (tr s)) by (unfold X in Hne; apply noerr_app in Hne; exact Hne).
      destruct (C Hl Hne') as [C1 C2]. rewrite Fr, Flog, Hl, Ft, logv_app, S2, app_nil_r.
      split; [exact C1|]. rewrite log_nz_app, C2. unfold X. rewrite logv_app.
      (* no retries are pending: the learner is asked for all free slots, if any *)
      assert (HR : gf_R s = []).
      { unfold gf_R, retry_candidates. rewrite C1. cbn [akeys map filter]. apply firstn_nil. }
      unfold gf_asks, gf_m. rewrite HR. cbn [length]. rewrite Nat.sub_0_r.
      destruct (gf_n s) as [|n]; cbn [Nat.ltb Nat.leb logv proj log_nz filter nz app]; rewrite ?app_nil_r; reflexivity.
  Qed.

  Lemma LogInv_rstep l0 s (a : ev) : Inv s -> LogInv l0 s -> LogInv l0 (rstep lrn c s a).
  Proof.
    intros HI HL. unfold rstep.
    destruct (ph s) as [| |w|w cl] eqn:Eph; destruct a as [[|]|done| |j|got|done]; try exact HL.
    - apply LogInv_stop; exact HL.
    - apply LogInv_set_ph, (LogInv_get_futures l0 None); assumption.
    - apply LogInv_stop, LogInv_get_futures; assumption.
    - destruct (process lrn c s done) as [s' [pid|]] eqn:Ep.
      + apply LogInv_stop. eapply LogInv_process; eauto.
      + apply LogInv_set_ph. eapply LogInv_process; eauto.
    - apply LogInv_stop; exact HL.
    - destruct (process lrn c s done) as [s' [pid|]] eqn:Ep; apply LogInv_stop; eapply LogInv_process; eauto.
    - destruct (c_kind c).
      + destruct (process lrn c s got) as [s' [pid|]] eqn:Ep; apply LogInv_set_ph; eapply LogInv_process; eauto.
      + apply LogInv_set_ph; exact HL.
  Qed.

  Lemma LogInv_init l0 : LogInv l0 (init P V c l0).
  Proof. unfold init. constructor; sp; auto. Qed.

  Lemma LogInv_run l0 evs : forall s, Inv s -> LogInv l0 s -> LogInv l0 (run lrn c s evs).
  Proof.
    induction evs as [|a evs IH]; intros s HI HP; [exact HP|]. rewrite run_cons.
    apply IH; [apply Inv_rstep, HI|apply LogInv_rstep; assumption].
  Qed.

  Theorem LogInv_reach l0 evs : LogInv l0 (reach lrn c l0 evs).
  Proof. apply LogInv_run; [apply Inv_init|apply LogInv_init]. Qed.

  (* ====================================================================== *)
  (* The property-level statements                                           *)
  (* ====================================================================== *)
  Notation reach := (reach lrn c).

  (* ---- C05 -------------------------------------------------------------- *)
  Lemma ntell_0_notin p t : ntell p t = 0 -> forall x y, ~ In (TTell p x y) t.
  Proof.
    intros H x y Hin. unfold ntell in H.
    pose proof (count_true_pos (is_tell p) t (TTell p x y) Hin) as Hpos. cbn [is_tell] in Hpos.
    rewrite Nat.eqb_refl in Hpos. specialize (Hpos eq_refl). lia.
  Qed.

  Lemma ntell_pos_in p t x y t' : ntell p (t' ++ TTell p x y :: t) = 0 -> False.
  Proof.
    intros H. eapply ntell_0_notin; [exact H|]. apply in_or_app. right. left. reflexivity.
  Qed.

  Lemma only_handed_out_once l0 evs later pid x y earlier :
    tr (reach l0 evs) = later ++ TTell pid x y :: earlier ->
    (exists n ret, In (TAsk n ret) earlier /\ In (pid, x) ret) /\
    (exists fid, In (TSubmit fid pid x) earlier /\ In (TDone fid pid (Ok y)) earlier) /\
    (forall x' y', ~ In (TTell pid x' y') earlier) /\
    (forall x' y', ~ In (TTell pid x' y') later).
  Proof.
    intros Ht. pose proof (i_tr (Inv_reach l0 evs)) as Hs. rewrite all_suffix_split in Hs.
    destruct (Hs _ _ _ Ht) as (fid & older & -> & Hsub & (n & ret & Hask & Hret) & Hnt). cbn [Pe] in *.
    split; [exists n, ret; split; [right; exact Hask|exact Hret]|].
    split; [exists fid; split; [right; exact Hsub|left; reflexivity]|].
    split.
    - intros x' y' [Heq|Hin]; [discriminate|]. eapply ntell_0_notin; eauto.
    - intros x' y' Hin. apply in_split in Hin. destruct Hin as (l1 & l2 & ->).
      rewrite <- app_assoc in Ht. cbn [app] in Ht.
      destruct (Hs _ _ _ Ht) as (fid' & older' & Heq & _ & _ & Hnt').
      destruct l2 as [|a l2]; cbn [app] in Heq; [discriminate|]. inversion Heq; subst.
      eapply ntell_pos_in. exact Hnt'.
  Qed.

  Definition LenInv s : Prop := length (pend s) <= M.

  Lemma LenInv_rstep s (a : ev) : (forall l n, length (fst (l_ask lrn l n)) <= n) ->
    Inv s -> LenInv s -> LenInv (rstep lrn c s a).
  Proof.
    intros Hask HI HL. unfold LenInv in *.
    assert (Hproc : forall done s' res, process lrn c s done = (s', res) -> length (pend s') <= length (pend s)).
    { intros done s' res Ep.
      assert (Hst : forall s1 s2 res', pstep s1 s2 res' -> length (pend s2) <= length (pend s1)).
      { intros s1 s2 res' H. destruct H as [s1|s1 fid pid x y H1 H2|s1 fid pid H1].
        - lia.
        - destruct (ok_fields s1 fid pid x y) as (Fp & _). rewrite Fp. apply apop_length.
        - destruct (err_fields s1 fid pid) as (Fp & _). rewrite Fp. apply apop_length. }
      destruct (process_inv (fun s1 => length (pend s1) <= length (pend s))) with (done := done) (s := s) (s' := s') (res := res)
        as [A B]; [intros s1 s2 _ H1 H2; pose proof (Hst _ _ _ H2); lia|exact HI|lia|exact Ep|].
      destruct res as [pid|]; [|apply A; reflexivity].
      destruct (B pid eq_refl) as (s0 & fid & _ & H0 & Hf & -> & _).
      pose proof (Hst _ _ _ (ps_err s0 fid pid Hf)). lia. }
    assert (Hstop : forall s0 w, pend (stop lrn s0 w) = pend s0) by (intros; apply stop_fields).
    assert (Hgf : forall k, length (pend (get_futures_upto lrn c k s)) <= M).
    { intros k. destruct (get_futures_upto_spec k s HI) as (_ & Fp & _).
      rewrite Fp, app_length, combine_length, seq_length, Nat.min_id. pose proof (cut_length k (gf_pids s)) as Hc.
      assert (length (gf_pids s) <= gf_n s); [|unfold gf_n in *; lia].
      unfold gf_pids, gf_new, gf_pts. rewrite app_length, map_length, assign_ids_length.
      assert (HR : length (gf_R s) <= gf_n s) by (unfold gf_R; apply firstn_le_length).
      unfold gf_asks. destruct (Nat.ltb_spec (length (gf_R s)) (gf_n s)).
      + specialize (Hask (lst s) (gf_m s)). unfold gf_m in *. unfold gf_n in *. lia.
      + cbn [length]. unfold gf_n in *. lia. }
    unfold rstep. destruct (ph s) as [| |w|w cl]; destruct a as [[|]|done| |j|got|done]; try exact HL.
    - rewrite Hstop. exact HL.
    - sp. apply (Hgf None).
    - rewrite Hstop. apply (Hgf (Some j)).
    - destruct (process lrn c s done) as [s' [pid|]] eqn:Ep; [rewrite Hstop|sp]; specialize (Hproc _ _ _ Ep); lia.
    - rewrite Hstop. exact HL.
    - destruct (process lrn c s done) as [s' [pid|]] eqn:Ep; rewrite Hstop; specialize (Hproc _ _ _ Ep); lia.
    - destruct (c_kind c); [|exact HL].
      destruct (process lrn c s got) as [s' [pid|]] eqn:Ep; sp; specialize (Hproc _ _ _ Ep); lia.
  Qed.

  Lemma at_most_ntasks l0 evs : (forall l n, length (fst (l_ask lrn l n)) <= n) ->
    length (pend (reach l0 evs)) <= M.
  Proof.
    intros Hask. unfold Runner.reach.
    assert (H : forall evs s, Inv s -> LenInv s -> LenInv (run lrn c s evs)).
    { clear evs. induction evs as [|a evs IH]; intros s HI HL; [exact HL|]. rewrite run_cons.
      apply IH; [apply Inv_rstep, HI|apply LenInv_rstep; assumption]. }
    apply H; [apply Inv_init|]. unfold LenInv, init. sp. cbn [length]. lia.
  Qed.

  (* the pending futures are exactly the evaluations in flight *)
  Lemma pend_is_inflight l0 evs fid pid :
    aget fid (pend (reach l0 evs)) = Some pid <->
    (exists x, In (TSubmit fid pid x) (tr (reach l0 evs))) /\ ~ fdone fid (tr (reach l0 evs)).
  Proof.
    pose proof (Inv_reach l0 evs) as HI. split.
    - intros H. destruct (i_pend_sub HI _ _ H) as (x & _ & Hin & Hnd). split; [exists x; exact Hin|exact Hnd].
    - intros [(x & Hin) Hnd]. destruct (i_sub_acc HI _ _ _ Hin) as (_ & [(o & Ho)|Hq]); [|exact Hq].
      exfalso. apply Hnd. exists pid, o. exact Ho.
  Qed.

  Lemma keeps_full l0 evs : (forall l n, length (fst (l_ask lrn l n)) <= n) ->
    let s := reach l0 evs in
    ph s = AtGoal ->
    (gf_asks s = true -> length (fst (l_ask lrn (lst s) (gf_m s))) = gf_m s) ->
    length (pend (rstep lrn c s (Goal false))) = M.
  Proof.
    intros Hask s Hph Hfull. pose proof (at_most_ntasks l0 evs Hask) as Hle. fold s in Hle.
    unfold rstep. rewrite Hph. sp.
    destruct (get_futures_spec s (Inv_reach l0 evs)) as (_ & Fp & _).
    rewrite Fp, app_length, combine_length, seq_length, Nat.min_id.
    unfold gf_pids, gf_new, gf_pts. rewrite app_length, map_length, assign_ids_length.
    unfold gf_asks in *. destruct (Nat.ltb_spec (length (gf_R s)) (gf_n s)).
    - rewrite (Hfull eq_refl). unfold gf_m, gf_n in *. lia.
    - cbn [length]. assert (HR : length (gf_R s) <= gf_n s) by (unfold gf_R; apply firstn_le_length).
      unfold gf_n in *. lia.
  Qed.

  (* where the reason of a stop comes from *)
  Definition phw s : option why := match ph s with Stopping w | Stopped w _ => Some w | _ => None end.

  Lemma phw_rstep s (a : ev) w : phw (rstep lrn c s a) = Some w ->
    phw s = Some w \/ (w = GoalMet /\ a = Goal true) \/ (w = Cancelled /\ (a = Cancel \/ (exists j, a = SubmitCancel j) \/ exists d, a = WaitCancel d)) \/
    exists p, w = Failed p.
  Proof.
    assert (Hstop : forall s0 w0, phw (stop lrn s0 w0) = Some w0).
    { intros s0 w0. unfold phw. destruct (stop_fields s0 w0) as (_ & _ & _ & _ & _ & _ & _ & _ & _ & Fph).
      rewrite Fph. destruct (pend s0); reflexivity. }
    unfold rstep. destruct (ph s) as [| |w0|w0 cl] eqn:Eph; destruct a as [[|]|done| |j|got|done];
      try (unfold phw; rewrite Eph; intros H; left; exact H).
    - rewrite Hstop. intros [= <-]. auto.
    - rewrite Hstop. intros [= <-]. right. right. left. split; [reflexivity|right; left; eexists; reflexivity].
    - destruct (process lrn c s done) as [s' [pid|]]; [rewrite Hstop; intros [= <-]; eauto 6|unfold phw; sp; discriminate].
    - rewrite Hstop. intros [= <-]. auto 8.
    - destruct (process lrn c s done) as [s' [pid|]]; rewrite Hstop; intros [= <-]; [eauto 6|].
      right. right. left. split; [reflexivity|right; right; eexists; reflexivity].
    - unfold phw at 2. rewrite Eph. destruct (c_kind c).
      + destruct (process lrn c s got) as [s' [pid|]]; unfold phw; sp; intros [= <-]; eauto 6.
      + unfold phw; sp. intros [= <-]. auto.
  Qed.

  Lemma phw_run evs : forall s w, phw (run lrn c s evs) = Some w ->
    phw s = Some w \/ (w = GoalMet /\ In (Goal true) evs) \/
    (w = Cancelled /\ (In Cancel evs \/ (exists j, In (SubmitCancel j) evs) \/ exists d, In (WaitCancel d) evs)) \/
    exists p, w = Failed p.
  Proof.
    induction evs as [|a evs IH]; intros s w H; [left; exact H|]. rewrite run_cons in H.
    destruct (IH _ _ H) as [H1|[[-> H1]|[[-> H1]|H1]]].
    - destruct (phw_rstep _ _ _ H1) as [H2|[[-> ->]|[[-> [->|[[j ->]|[d ->]]]]|H2]]]; cbn [In].
      + auto.
      + auto 6.
      + right. right. left. split; [reflexivity|left; left; reflexivity].
      + right. right. left. split; [reflexivity|right; left; exists j; left; reflexivity].
      + right. right. left. split; [reflexivity|right; right; exists d; left; reflexivity].
      + auto 6.
    - right. left. split; [reflexivity|right; exact H1].
    - right. right. left. split; [reflexivity|]. destruct H1 as [H1|[[j H1]|[d H1]]];
        [left; right; exact H1|right; left; exists j; right; exact H1|right; right; exists d; right; exact H1].
    - auto.
  Qed.

  Lemma clean_stop l0 evs w cl :
    let s := reach l0 evs in
    ph s = Stopped w cl -> w <> NoWorkers ->
    (w = GoalMet -> In (Goal true) evs) /\
    (w = Cancelled -> In Cancel evs \/ (exists j, In (SubmitCancel j) evs) \/ exists d, In (WaitCancel d) evs) /\
    (forall p, w = Failed p -> c_raise c = true /\ r < nerr p (tr s)) /\
    (exists t1 t2, tr s = t1 ++ TRemove :: t2 /\ (forall e, In e t1 -> is_cdt e) /\ (forall e, In e t2 -> not_stop e)) /\
    (forall fid pid x, In (TSubmit fid pid x) (tr s) ->
        (exists o, In (TDone fid pid o) (tr s)) \/ In (TCancel fid) (tr s)).
  Proof.
    intros s Hph Hw.
    pose proof (PhInv_reach l0 evs) as HP. pose proof (RaiseInv_reach l0 evs) as HR. pose proof (Inv_reach l0 evs) as HI.
    fold s in HP, HR, HI. unfold PhInv in HP. unfold RaiseInv in HR. rewrite Hph in HP, HR.
    assert (Hsh : stop_shape s) by (destruct w; try exact HP; congruence).
    assert (Horigin : phw s = Some w) by (unfold phw; rewrite Hph; reflexivity).
    apply phw_run in Horigin.
    assert (Hinit : phw (init P V c l0) = Some w -> False).
    { unfold phw, init. sp. destruct (M <? 1); [intros [= <-]; congruence|discriminate]. }
    split; [intros ->; destruct Horigin as [H|[[_ H]|[[H _]|[p H]]]]; try discriminate; [tauto|exact H]|].
    split; [intros ->; destruct Horigin as [H|[[H _]|[[_ H]|[p H]]]]; try discriminate; [tauto|exact H]|].
    split; [intros p ->; exact HR|].
    destruct Hsh as (t1 & t2 & Ht & H1 & H2 & H3 & _).
    split; [exists t1, t2; auto|].
    intros fid pid x Hin. destruct (i_sub_acc HI _ _ _ Hin) as (_ & [Hd|Hq]); [left; exact Hd|right].
    rewrite Ht. apply in_or_app. left. apply H3. apply aget_In_keys. congruence.
  Qed.

  (* ---- C06 -------------------------------------------------------------- *)
  Lemma bounded_retries l0 evs pid : nsub pid (tr (reach l0 evs)) <= r + 1.
  Proof.
    pose proof (Inv_reach l0 evs) as HI. set (s := reach l0 evs) in *.
    destruct (Nat.lt_ge_cases pid (nid s)) as [Hlt|Hge].
    - destruct (aget pid (idp s)) as [x|] eqn:Ei.
      + destruct (i_live HI _ _ Ei) as (_ & _ & H3 & H4 & H5 & H6 & H7). unfold E in H3.
        destruct (aget pid (retry s)) as [k|] eqn:Ek.
        * destruct (H6 k eq_refl). lia.
        * destruct (aget pid (tbs s)) eqn:Et; [|lia].
          assert (cnt pid (pvals s) = 0) by (apply H7; congruence). lia.
      + destruct (i_told HI _ Hlt Ei) as (_ & _ & H3 & H4). lia.
    - destruct (i_fresh HI _ Hge) as (H1 & _). lia.
  Qed.

  Lemma retry_before_new l0 evs :
    let s := reach l0 evs in
    ph s = AtGoal ->
    let s' := rstep lrn c s (Goal false) in
    tr s' = rev (map sub_ev (gf_subs s)) ++ (if gf_asks s then [TAsk (gf_m s) (gf_new s)] else []) ++ tr s /\
    map (fun z : nat * nat * P => snd (fst z)) (gf_subs s) = gf_R s ++ map fst (gf_new s) /\
    (forall p, In p (gf_R s) -> aget p (retry s) <> None /\ cnt p (pvals s) = 0) /\
    (gf_asks s = false -> gf_new s = []).
  Proof.
    intros s Hph s'. unfold s', rstep. rewrite Hph. sp.
    destruct (get_futures_spec s (Inv_reach l0 evs)) as (_ & _ & Ft & Hpids & _).
    split; [exact Ft|]. split; [exact Hpids|]. split.
    - intros p Hp. unfold gf_R in Hp. apply In_firstn in Hp. apply retry_candidates_spec in Hp.
      destruct Hp as [Hk Hc]. split; [apply aget_In_keys; exact Hk|exact Hc].
    - intros Ha. unfold gf_new, gf_pts. rewrite Ha. reflexivity.
  Qed.

  Definition about p e : Prop :=
    (exists f x, e = TSubmit f p x) \/ (exists f o, e = TDone f p o) \/ (exists x y, e = TTell p x y).

  Lemma told_once_first_success l0 evs later pid x y earlier :
    tr (reach l0 evs) = later ++ TTell pid x y :: earlier ->
    (exists fid older, earlier = TDone fid pid (Ok y) :: older /\ nok pid older = 0 /\ ntell pid older = 0) /\
    (forall e, In e later -> ~ about pid e).
  Proof.
    intros Ht. pose proof (i_tr (Inv_reach l0 evs)) as Hs. rewrite all_suffix_split in Hs.
    destruct (Hs _ _ _ Ht) as (fid & older & -> & Hsub & _ & Hnt). split.
    - exists fid, older. split; [reflexivity|]. split; [|exact Hnt].
      assert (Ht2 : tr (reach l0 evs) = (later ++ [TTell pid x y]) ++ TDone fid pid (Ok y) :: older)
        by (rewrite <- app_assoc; exact Ht).
      destruct (Hs _ _ _ Ht2) as (_ & _ & _ & Hok). exact Hok.
    - intros e Hin Hab. apply in_split in Hin. destruct Hin as (l1 & l2 & ->).
      rewrite <- app_assoc in Ht. cbn [app] in Ht. specialize (Hs _ _ _ Ht).
      destruct Hab as [(f & x' & ->)|[(f & o & ->)|(x' & y' & ->)]]; cbn [Pe] in Hs.
      + destruct Hs as (H0 & _). eapply ntell_pos_in; exact H0.
      + destruct Hs as (H0 & _). eapply ntell_pos_in; exact H0.
      + destruct Hs as (fid' & older' & Heq & _ & _ & Hnt').
        destruct l2 as [|a l2]; cbn [app] in Heq; [discriminate|]. inversion Heq; subst.
        eapply ntell_pos_in; exact Hnt'.
  Qed.

  Lemma failed_listed l0 evs pid :
    let s := reach l0 evs in
    r < nerr pid (tr s) ->
    aget pid (tbs s) <> None /\ aget pid (retry s) = None /\ In pid (failed s) /\
    (exists x, aget pid (idp s) = Some x) /\ ~ In pid (pvals s) /\
    nerr pid (tr s) = r + 1 /\ nsub pid (tr s) = r + 1.
  Proof.
    intros s Hlt. pose proof (Inv_reach l0 evs) as HI. fold s in HI.
    destruct (Nat.lt_ge_cases pid (nid s)) as [Hl|Hge]; [|destruct (i_fresh HI _ Hge) as (_ & H2 & _); lia].
    destruct (aget pid (idp s)) as [x|] eqn:Ei; [|destruct (i_told HI _ Hl Ei) as (_ & _ & H3 & _); lia].
    destruct (i_live HI _ _ Ei) as (_ & _ & H3 & H4 & H5 & H6 & H7). unfold E in H3.
    destruct (aget pid (retry s)) as [k|] eqn:Ek; [destruct (H6 k eq_refl); lia|].
    destruct (aget pid (tbs s)) as [u|] eqn:Et; [|lia].
    assert (Hc : cnt pid (pvals s) = 0) by (apply H7; congruence).
    split; [congruence|]. split; [reflexivity|]. split.
    - unfold failed. apply filter_In. split; [apply aget_In_keys; congruence|].
      unfold amem. destruct (nat_mem pid (akeys (retry s))) eqn:Em; [|reflexivity].
      apply nat_mem_In, aget_In_keys in Em. congruence.
    - split; [exists x; reflexivity|]. split; [apply cnt_0; exact Hc|]. lia.
  Qed.

  (* the trace only grows *)
  Lemma tr_grows_rstep s (a : ev) : Inv s -> exists tn, tr (rstep lrn c s a) = tn ++ tr s.
  Proof.
    intros HI. unfold rstep.
    assert (Hstop : forall s0 w, exists tn, tr (stop lrn s0 w) = tn ++ tr s0).
    { intros s0 w. destruct (stop_fields s0 w) as (_ & _ & _ & _ & _ & _ & _ & _ & Ft & _).
      exists (rev (cancels s0) ++ [TRemove]). rewrite Ft, <- app_assoc. reflexivity. }
    assert (Hproc : forall done s' res, process lrn c s done = (s', res) -> exists tn, tr s' = tn ++ tr s).
    { intros done s' res Ep. destruct (process_Pr _ _ _ _ HI Ep) as (tn & Ht & _). exists tn. exact Ht. }
    destruct (ph s) as [| |w|w cl]; destruct a as [[|]|done| |j|got|done]; try (exists []; reflexivity); try apply Hstop.
    - sp. destruct (get_futures_spec s HI) as (_ & _ & Ft & _). rewrite Ft, app_assoc. eexists. reflexivity.
    - destruct (Hstop (get_futures_upto lrn c (Some j) s) Cancelled) as (tn' & Ht').
      destruct (get_futures_upto_spec (Some j) s HI) as (_ & _ & Ft & _).
      rewrite Ht', Ft, !app_assoc. eexists. reflexivity.
    - destruct (process lrn c s done) as [s' [pid|]] eqn:Ep; destruct (Hproc _ _ _ Ep) as (tn & Ht).
      + destruct (Hstop s' (Failed pid)) as (tn' & Ht'). rewrite Ht', Ht, app_assoc. eexists. reflexivity.
      + sp. exists tn. exact Ht.
    - destruct (process lrn c s done) as [s' [pid|]] eqn:Ep; destruct (Hproc _ _ _ Ep) as (tn & Ht).
      + destruct (Hstop s' (Failed pid)) as (tn' & Ht'). rewrite Ht', Ht, app_assoc. eexists. reflexivity.
      + destruct (Hstop s' Cancelled) as (tn' & Ht'). rewrite Ht', Ht, app_assoc. eexists. reflexivity.
    - destruct (c_kind c); [|exists []; reflexivity].
      destruct (process lrn c s got) as [s' [pid|]] eqn:Ep; destruct (Hproc _ _ _ Ep) as (tn & Ht); sp; exists tn; exact Ht.
  Qed.

  Lemma tr_grows_run evs : forall s, Inv s -> exists tn, tr (run lrn c s evs) = tn ++ tr s.
  Proof.
    induction evs as [|a evs IH]; intros s HI; [exists []; reflexivity|]. rewrite run_cons.
    destruct (IH _ (Inv_rstep s a HI)) as (t1 & H1). destruct (tr_grows_rstep s a HI) as (t2 & H2).
    exists (t1 ++ t2). rewrite H1, H2, app_assoc. reflexivity.
  Qed.

  (* once failed, failed for ever, and never submitted again *)
  Lemma failed_for_ever l0 evs1 evs2 pid :
    r < nerr pid (tr (reach l0 evs1)) ->
    In pid (failed (reach l0 (evs1 ++ evs2))) /\ nsub pid (tr (reach l0 (evs1 ++ evs2))) = nsub pid (tr (reach l0 evs1)).
  Proof.
    intros Hlt. unfold Runner.reach in *. rewrite run_app.
    destruct (tr_grows_run evs2 _ (Inv_run evs1 _ (Inv_init l0))) as (tn & Ht).
    assert (Hlt2 : r < nerr pid (tr (run lrn c (run lrn c (init P V c l0) evs1) evs2))).
    { rewrite Ht. unfold nerr in *. rewrite count_true_app. lia. }
    rewrite <- run_app in *.
    destruct (failed_listed l0 (evs1 ++ evs2) pid Hlt2) as (_ & _ & Hf & _ & _ & _ & Hs2).
    destruct (failed_listed l0 evs1 pid Hlt) as (_ & _ & _ & _ & _ & _ & Hs1).
    split; [exact Hf|]. unfold Runner.reach in *. lia.
  Qed.

  Definition failed_phase s p : Prop := ph s = Stopping (Failed p) \/ exists cl, ph s = Stopped (Failed p) cl.

  Lemma raise_or_continue l0 evs :
    let s := reach l0 evs in
    (* an error stop happens only with raise_if_retries_exceeded, and carries a pid over the limit *)
    (forall p, failed_phase s p -> c_raise c = true /\ r < nerr p (tr s)) /\
    (* with it, a pid over the limit puts the runner into the error stop *)
    (c_raise c = true -> (exists p, r < nerr p (tr s)) -> exists p', failed_phase s p' /\ r < nerr p' (tr s)) /\
    (* without it the run continues: processing a wait never raises *)
    (c_raise c = false -> ph s = InWait -> forall done, ph (rstep lrn c s (Wait done)) = AtGoal).
  Proof.
    intros s. pose proof (RaiseInv_reach l0 evs) as HR. fold s in HR. unfold RaiseInv in HR. split; [|split].
    - intros p [Hp|[cl Hp]]; rewrite Hp in HR; exact HR.
    - intros Hr (p & Hp). unfold failed_phase.
      destruct (ph s) as [| |w|w cl]; try (specialize (HR Hr p); lia).
      + destruct w as [| |p0|]; try (specialize (HR Hr p); lia). exists p0. destruct HR. eauto.
      + destruct w as [| |p0|]; try (specialize (HR Hr p); lia). exists p0. destruct HR. eauto.
    - intros Hr Hph done. unfold rstep. rewrite Hph.
      destruct (process lrn c s done) as [s' [pid|]] eqn:Ep; [|reflexivity].
      destruct (process_inv (fun _ => True)) with (done := done) (s := s) (s' := s') (res := Some pid) as [_ B];
        [auto|apply Inv_reach|exact I|exact Ep|].
      destruct (B pid eq_refl) as (s0 & fid & _ & _ & _ & _ & _ & Hr'). congruence.
  Qed.

  (* ---- C19 -------------------------------------------------------------- *)
  Lemma log_is_call_sequence l0 evs :
    let s := reach l0 evs in
    lst s = apply_trace l0 (tr s) /\
    (c_log c = true -> noerr (tr s) -> log_nz (log s) = logv (tr s)).
  Proof.
    intros s. destruct (LogInv_reach l0 evs) as [A B C]. split; [exact A|].
    intros Hl Hne. apply C; assumption.
  Qed.

  Lemma replay_log_app l lg1 lg2 : replay_log lrn l (lg1 ++ lg2) = replay_log lrn (replay_log lrn l lg1) lg2.
  Proof. apply fold_left_app. Qed.

  Lemma replay_log_nz l lg : (forall l', snd (l_ask lrn l' 0) = l') -> replay_log lrn l lg = replay_log lrn l (log_nz lg).
  Proof.
    intros H0. revert l. induction lg as [|e lg IH]; intros l; [reflexivity|].
    cbn [log_nz filter]. destruct e as [[|n]|x y]; cbn [nz].
    - change (replay_log lrn l (LAsk 0 :: lg)) with (replay_log lrn (snd (l_ask lrn l 0)) lg). rewrite H0. apply IH.
    - change (replay_log lrn l (LAsk (S n) :: lg)) with (replay_log lrn (snd (l_ask lrn l (S n))) lg).
      change (replay_log lrn l (LAsk (S n) :: filter nz lg)) with (replay_log lrn (snd (l_ask lrn l (S n))) (filter nz lg)).
      apply IH.
    - change (replay_log lrn l (LTell x y :: lg)) with (replay_log lrn (l_tell lrn l x y) lg).
      change (replay_log lrn l (LTell x y :: filter nz lg)) with (replay_log lrn (l_tell lrn l x y) (filter nz lg)).
      apply IH.
  Qed.

  (* replaying the calls of a trace that contains no remove_unfinished *)
  Lemma replay_logv l t : (forall e, In e t -> e <> TRemove) -> replay_log lrn l (logv t) = apply_trace l t.
  Proof.
    induction t as [|e t IH]; intros H; [reflexivity|]. cbn [logv apply_trace fold_right].
    fold (apply_trace l t). rewrite replay_log_app, IH by (intros a Ha; apply H; right; exact Ha).
    destruct e; try reflexivity. exfalso. apply (H TRemove); [left|]; reflexivity.
  Qed.

  Lemma replay_same_state l0 evs :
    let s := reach l0 evs in
    c_log c = true -> noerr (tr s) -> (forall l, snd (l_ask lrn l 0) = l) ->
    match ph s with
    | AtGoal | InWait | Stopped NoWorkers _ => lst s = replay_log lrn l0 (log s)
    | _ => exists lg1 lg2, log_nz (log s) = lg1 ++ lg2 /\
                           lst s = replay_log lrn (l_remove lrn (replay_log lrn l0 lg1)) lg2 /\
                           (forall a : logent P V, In a lg2 -> exists x y, a = LTell x y) /\
                           (c_kind c = Async -> lg2 = [])
    end.
  Proof.
    intros s Hl Hne H0. destruct (log_is_call_sequence l0 evs) as [A B]. fold s in A, B.
    specialize (B Hl Hne). pose proof (PhInv_reach l0 evs) as HP. fold s in HP. unfold PhInv in HP.
    assert (Hrun : (forall e, In e (tr s) -> not_stop e) -> lst s = replay_log lrn l0 (log s)).
    { intros Hns. rewrite (replay_log_nz _ _ H0), B, replay_logv; [exact A|]. intros e He. apply Hns. exact He. }
    assert (Hshape : stop_shape s -> exists lg1 lg2, log_nz (log s) = lg1 ++ lg2 /\
                           lst s = replay_log lrn (l_remove lrn (replay_log lrn l0 lg1)) lg2 /\
                           (forall a : logent P V, In a lg2 -> exists x y, a = LTell x y) /\ (c_kind c = Async -> lg2 = [])).
    { intros (t1 & t2 & Ht & H1 & H2 & _ & H4). exists (logv t2), (logv t1).
      assert (Hn1 : forall e, In e t1 -> e <> TRemove).
      { intros e He. destruct (H1 e He) as [(f & ->)|[(f & q & o & ->)|(q & x & y & ->)]]; discriminate. }
      split; [rewrite B, Ht, logv_app; cbn [logv proj]; rewrite app_nil_r; reflexivity|].
      split.
      - rewrite A, Ht, apply_trace_app. cbn [apply_trace fold_right apply_tev]. fold (apply_trace l0 t2).
        rewrite !replay_logv; [reflexivity|intros e He; apply H2; exact He|exact Hn1].
      - split.
        + clear Ht H4 Hn1. induction t1 as [|a t1 IH]; cbn [logv]; [intros e []|].
          intros e He. apply in_app_or in He. destruct He as [He|He].
          * apply IH; [intros e' He'; apply H1; right; exact He'|exact He].
          * destruct (H1 a (or_introl eq_refl)) as [(f & ->)|[(f & q & o & ->)|(q & x & y & ->)]];
              cbn [proj In] in He; try tauto. destruct He as [<-|[]]. eauto.
        + intros Ha. specialize (H4 Ha). clear Ht Hn1 H1. induction t1 as [|a t1 IH]; cbn [logv]; [reflexivity|].
          rewrite IH by (intros e He; apply H4; right; exact He).
          destruct (H4 a (or_introl eq_refl)) as (f & ->). reflexivity. }
    destruct (ph s) as [| |w|w cl].
    - apply Hrun. exact HP.
    - apply Hrun. exact HP.
    - destruct HP as (_ & Hsh & _). destruct w; apply Hshape; exact Hsh.
    - destruct w; try (apply Hshape; exact HP). destruct HP as [Ht _]. apply Hrun. rewrite Ht. intros e [].
  Qed.

  (* with a learner for which remove_unfinished commutes with tell (and is
     idempotent): the replayed learner equals the original after discarding *)
  Lemma replay_same_after_discard l0 evs :
    let s := reach l0 evs in
    c_log c = true -> noerr (tr s) -> (forall l, snd (l_ask lrn l 0) = l) ->
    (forall l x y, l_remove lrn (l_tell lrn l x y) = l_tell lrn (l_remove lrn l) x y) ->
    (forall l, l_remove lrn (l_remove lrn l) = l_remove lrn l) ->
    l_remove lrn (lst s) = l_remove lrn (replay_log lrn l0 (log s)).
  Proof.
    intros s Hl Hne H0 Hcomm Hidem. pose proof (replay_same_state l0 evs Hl Hne H0) as H. fold s in H.
    assert (Htells : forall lg2, (forall a : logent P V, In a lg2 -> exists x y, a = LTell x y) ->
              forall l, l_remove lrn (replay_log lrn l lg2) = replay_log lrn (l_remove lrn l) lg2).
    { induction lg2 as [|e lg2 IH]; intros Hall l; [reflexivity|].
      destruct (Hall e (or_introl eq_refl)) as (x & y & ->).
      change (replay_log lrn l (LTell x y :: lg2)) with (replay_log lrn (l_tell lrn l x y) lg2).
      change (replay_log lrn (l_remove lrn l) (LTell x y :: lg2)) with (replay_log lrn (l_tell lrn (l_remove lrn l) x y) lg2).
      rewrite IH by (intros e He; apply Hall; right; exact He). rewrite Hcomm. reflexivity. }
    assert (Hgen : (exists lg1 lg2, log_nz (log s) = lg1 ++ lg2 /\
                           lst s = replay_log lrn (l_remove lrn (replay_log lrn l0 lg1)) lg2 /\
                           (forall a : logent P V, In a lg2 -> exists x y, a = LTell x y) /\ (c_kind c = Async -> lg2 = [])) ->
                   l_remove lrn (lst s) = l_remove lrn (replay_log lrn l0 (log s))).
    { intros (lg1 & lg2 & Hlog & Hlst & Hall & _).
      rewrite (replay_log_nz _ _ H0), Hlog, replay_log_app, Hlst, !(Htells lg2 Hall), Hidem. reflexivity. }
    destruct (ph s) as [| |w|w cl]; try (rewrite H; reflexivity); try (apply Hgen; exact H).
    destruct w; try (apply Hgen; exact H). rewrite H. reflexivity.
  Qed.
End RunnerProofs.

Arguments nsub {P V}. Arguments nerr {P V}. Arguments nok {P V}. Arguments ntell {P V}.
Arguments pvals {P V L}.
Arguments gf_n {P V L}. Arguments gf_R {P V L}. Arguments gf_m {P V L}. Arguments gf_asks {P V L}.
Arguments gf_pts {P V L}. Arguments gf_new {P V L}. Arguments gf_pids {P V L}. Arguments gf_subs {P V L}.
Arguments sub_ev {P V}. Arguments about {P V}. Arguments noerr {P V}. Arguments logv {P V}. Arguments log_nz {P V}.
Arguments apply_trace {P V L}. Arguments failed_phase {P V L}.
