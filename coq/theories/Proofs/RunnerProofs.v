(* Proofs about the runner model (properties C05, C06, C19). *)
From AV Require Import Base.Prelude Base.NatSet Model.Runner.

(* ------------------------------------------------------------------ *)
(* association lists *)
Section AssocLemmas.
  Variable B : Type.
  Implicit Types (l : list (nat * B)) (k j : nat) (v : B).

  Lemma aget_aset k v l j : aget j (aset k v l) = if j =? k then Some v else aget j l.
  Proof.
    induction l as [|[i w] l IH]; cbn [aset aget].
    - destruct (Nat.eqb_spec j k); reflexivity.
    - destruct (Nat.eqb_spec k i) as [E|E]; cbn [aget].
      + subst. destruct (Nat.eqb_spec j i); reflexivity.
      + rewrite IH. destruct (Nat.eqb_spec j i), (Nat.eqb_spec j k); try reflexivity. congruence.
  Qed.

  Lemma aget_apop k l j : aget j (apop k l) = if j =? k then None else aget j l.
  Proof.
    induction l as [|[i w] l IH]; cbn [apop aget].
    - destruct (j =? k); reflexivity.
    - destruct (Nat.eqb_spec k i) as [E|E]; cbn [aget].
      + subst. rewrite IH. destruct (Nat.eqb_spec j i); reflexivity.
      + rewrite IH. destruct (Nat.eqb_spec j i), (Nat.eqb_spec j k); try reflexivity. congruence.
  Qed.

  Lemma aget_app l1 l2 j :
    aget j (l1 ++ l2) = match aget j l1 with Some v => Some v | None => aget j l2 end.
  Proof.
    induction l1 as [|[i w] l1 IH]; cbn [app aget]; [reflexivity|].
    destruct (j =? i); [reflexivity|exact IH].
  Qed.

  Lemma aget_In_keys j l : aget j l <> None <-> In j (akeys l).
  Proof.
    unfold akeys. induction l as [|[i w] l IH]; cbn [aget map fst In].
    - tauto.
    - destruct (Nat.eqb_spec j i); [subst; split; [auto|congruence]|].
      rewrite IH. split; [auto|intros [?|?]; [congruence|auto]].
  Qed.

  Lemma aget_None_keys j l : aget j l = None <-> ~ In j (akeys l).
  Proof.
    rewrite <- aget_In_keys. destruct (aget j l).
    - split; [discriminate|intros H; exfalso; apply H; discriminate].
    - split; [intros _ H; apply H; reflexivity|reflexivity].
  Qed.

  Lemma aget_Some_In j l v : aget j l = Some v -> In (j, v) l.
  Proof.
    induction l as [|[i w] l IH]; cbn [aget In]; [discriminate|].
    destruct (Nat.eqb_spec j i); [intros [= ->]; subst; auto|auto].
  Qed.

  Lemma In_aget_nodup j l v : NoDup (akeys l) -> In (j, v) l -> aget j l = Some v.
  Proof.
    unfold akeys. induction l as [|[i w] l IH]; cbn [aget In map fst]; [tauto|].
    intros Hnd [H|H].
    - inversion H; subst. rewrite Nat.eqb_refl. reflexivity.
    - inversion Hnd; subst. destruct (Nat.eqb_spec j i).
      + subst. exfalso. apply H2. change i with (fst (i, v)). apply in_map. exact H.
      + auto.
  Qed.

  Lemma akeys_app l1 l2 : akeys (l1 ++ l2) = akeys l1 ++ akeys l2.
  Proof. apply map_app. Qed.

  Lemma akeys_apop_In k l j : In j (akeys (apop k l)) <-> j <> k /\ In j (akeys l).
  Proof.
    rewrite <- !aget_In_keys, aget_apop. destruct (Nat.eqb_spec j k); [split; [congruence|tauto]|tauto].
  Qed.

  Lemma akeys_aset_In k v l j : In j (akeys (aset k v l)) <-> j = k \/ In j (akeys l).
  Proof.
    rewrite <- !aget_In_keys, aget_aset. destruct (Nat.eqb_spec j k).
    - split; [auto|congruence].
    - tauto.
  Qed.

  Lemma apop_nodup k l : NoDup (akeys l) -> NoDup (akeys (apop k l)).
  Proof.
    unfold akeys. induction l as [|[i w] l IH]; cbn [apop map fst]; intros H; [constructor|].
    inversion H; subst. destruct (k =? i); [auto|].
    cbn [map fst]. constructor; [|auto].
    intros Hin. apply H2. apply (akeys_apop_In k l i) in Hin. tauto.
  Qed.

  Lemma aset_nodup k v l : NoDup (akeys l) -> NoDup (akeys (aset k v l)).
  Proof.
    unfold akeys. induction l as [|[i w] l IH]; cbn [aset map fst]; intros H.
    - repeat constructor. tauto.
    - inversion H; subst. destruct (Nat.eqb_spec k i).
      + subst. cbn [map fst]. constructor; assumption.
      + cbn [map fst]. constructor; [|auto].
        intros Hin. apply (akeys_aset_In k v l i) in Hin. destruct Hin; [congruence|auto].
  Qed.

  Lemma apop_length k l : length (apop k l) <= length l.
  Proof. induction l as [|[i w] l IH]; cbn [apop length]; [lia|]. destruct (k =? i); cbn [length]; lia. Qed.

  Lemma apop_notin k l : aget k l = None -> apop k l = l.
  Proof.
    induction l as [|[i w] l IH]; cbn [apop aget]; [reflexivity|].
    destruct (k =? i); [discriminate|]. intros H. f_equal. auto.
  Qed.
End AssocLemmas.

(* number of occurrences *)
Fixpoint cnt (p : nat) (l : list nat) : nat :=
  match l with [] => 0 | x :: r => (if p =? x then 1 else 0) + cnt p r end.

Lemma cnt_app p l1 l2 : cnt p (l1 ++ l2) = cnt p l1 + cnt p l2.
Proof. induction l1; cbn [app cnt]; lia. Qed.

Lemma cnt_In p l : 0 < cnt p l <-> In p l.
Proof.
  induction l as [|x l IH]; cbn [cnt In]; [lia|].
  destruct (Nat.eqb_spec p x); [subst; split; [auto|lia]|].
  rewrite <- IH. split; [intros; right; lia|intros [?|?]; [congruence|lia]].
Qed.

Lemma cnt_0 p l : cnt p l = 0 <-> ~ In p l.
Proof. rewrite <- cnt_In. lia. Qed.

Lemma cnt_nodup p l : NoDup l -> cnt p l <= 1.
Proof.
  induction 1 as [|x l Hx Hnd IH]; cbn [cnt]; [lia|].
  destruct (Nat.eqb_spec p x); [subst; apply cnt_0 in Hx; lia|lia].
Qed.

Lemma nodup_cnt l : (forall p, cnt p l <= 1) -> NoDup l.
Proof.
  induction l as [|x l IH]; intros H; constructor.
  - specialize (H x). cbn [cnt] in H. rewrite Nat.eqb_refl in H. apply cnt_0. lia.
  - apply IH. intros p. specialize (H p). cbn [cnt] in H. lia.
Qed.

(* values of an association list whose key was popped *)
Lemma cnt_apop fid (l : list (nat * nat)) p :
  NoDup (akeys l) ->
  cnt p (map snd (apop fid l)) + (match aget fid l with Some q => if p =? q then 1 else 0 | None => 0 end)
  = cnt p (map snd l).
Proof.
  unfold akeys. induction l as [|[i w] l IH]; cbn [apop aget map snd fst cnt]; intros H; [reflexivity|].
  inversion H; subst. destruct (Nat.eqb_spec fid i) as [E|E].
  - subst. rewrite apop_notin by (apply aget_None_keys; exact H2). lia.
  - cbn [map snd cnt]. specialize (IH H3). lia.
Qed.

Ltac deq a b := destruct (Nat.eqb_spec a b).
Ltac fin := repeat split; intros;
  repeat match goal with H : Some _ = Some _ |- _ => injection H as H; try subst end;
  try lia; try discriminate; try congruence; try reflexivity.

(* ------------------------------------------------------------------ *)
Section RunnerProofs.
  Variables P V L : Type.
  Variable lrn : learner P V L.
  Variable c : cfg.
  Notation rst := (rst P V L).
  Notation tev := (tev P V).
  Notation ev := (ev V).
  Notation outcome := (outcome V).
  Implicit Types (s : rst) (p pid fid : nat) (t : list tev) (e : tev) (x : P) (y : V) (pts : list P).

  Notation M := (get_max_tasks c).
  Notation r := (c_retries c).

  Ltac sp := cbn [pend retry tbs idp nid nfid log lst ph tr set_pend set_retry set_tbs set_idp
                  set_nid set_nfid set_log set_lst set_ph set_tr emit] in *.

  (* ---- counters over the trace --------------------------------------- *)
  Definition is_sub p e := match e with TSubmit _ q _ => p =? q | _ => false end.
  Definition is_err p e := match e with TDone _ q Err => p =? q | _ => false end.
  Definition is_ok p e := match e with TDone _ q (Ok _) => p =? q | _ => false end.
  Definition is_tell p e := match e with TTell q _ _ => p =? q | _ => false end.
  Definition nsub p t := count_true (is_sub p) t.    (* evaluations of pid p started *)
  Definition nerr p t := count_true (is_err p) t.    (* ... that failed *)
  Definition nok p t := count_true (is_ok p) t.      (* ... that succeeded *)
  Definition ntell p t := count_true (is_tell p) t.  (* tells of pid p *)

  Lemma count_true_app {A} (f : A -> bool) l1 l2 : count_true f (l1 ++ l2) = count_true f l1 + count_true f l2.
  Proof. induction l1; cbn [app count_true]; lia. Qed.

  Lemma count_true_0 {A} (f : A -> bool) l : count_true f l = 0 <-> forall a, In a l -> f a = false.
  Proof.
    induction l as [|a l IH]; cbn [count_true In]; [tauto|].
    destruct (f a) eqn:E.
    - split; [lia|]. intros H. specialize (H a (or_introl eq_refl)). congruence.
    - rewrite Nat.add_0_l, IH. split; [intros H b [<-|Hb]; auto|auto].
  Qed.

  Lemma count_true_pos {A} (f : A -> bool) l a : In a l -> f a = true -> 0 < count_true f l.
  Proof.
    intros Hin Hf. destruct (count_true f l) eqn:E; [|lia].
    apply count_true_0 with (a := a) in E; [congruence|exact Hin].
  Qed.

  Definition pvals s : list nat := map snd (pend s).

  (* expected number of failures of a live pid, read off the bookkeeping *)
  Definition E s p : nat :=
    match aget p (retry s) with
    | Some k => k
    | None => match aget p (tbs s) with Some _ => r + 1 | None => 0 end
    end.

  Definition asked p x t : Prop := exists n ret, In (TAsk n ret) t /\ In (p, x) ret.
  Definition fdone fid t : Prop := exists q o, In (TDone fid q o) t.

  (* ---- the accounting invariant --------------------------------------- *)
  Record Inv s : Prop := {
    i_fids : forall fid, In fid (akeys (pend s)) -> fid < nfid s;
    i_pend_nd : NoDup (akeys (pend s));
    i_retry_nd : NoDup (akeys (retry s));
    i_idp_lt : forall p, aget p (idp s) <> None -> p < nid s;
    i_fresh : forall p, nid s <= p ->
      nsub p (tr s) = 0 /\ nerr p (tr s) = 0 /\ nok p (tr s) = 0 /\ ntell p (tr s) = 0;
    i_told : forall p, p < nid s -> aget p (idp s) = None ->
      nok p (tr s) = 1 /\ ntell p (tr s) = 1 /\ nerr p (tr s) <= r /\
      nsub p (tr s) = nerr p (tr s) + 1;
    i_live : forall p x, aget p (idp s) = Some x ->
      nok p (tr s) = 0 /\ ntell p (tr s) = 0 /\ nerr p (tr s) = E s p /\
      nsub p (tr s) = nerr p (tr s) + cnt p (pvals s) /\ cnt p (pvals s) <= 1 /\
      (forall k, aget p (retry s) = Some k -> 1 <= k <= r /\ aget p (tbs s) <> None) /\
      (aget p (tbs s) <> None -> aget p (retry s) = None -> cnt p (pvals s) = 0);
    i_dom : forall p, aget p (idp s) = None ->
      aget p (retry s) = None /\ aget p (tbs s) = None /\ cnt p (pvals s) = 0;
    (* links between the bookkeeping and the trace *)
    i_pend_sub : forall fid pid, aget fid (pend s) = Some pid ->
      exists x, aget pid (idp s) = Some x /\ In (TSubmit fid pid x) (tr s) /\ ~ fdone fid (tr s);
    i_sub_acc : forall fid pid x, In (TSubmit fid pid x) (tr s) ->
      fid < nfid s /\ ((exists o, In (TDone fid pid o) (tr s)) \/ aget fid (pend s) = Some pid);
    i_idp_asked : forall p x, aget p (idp s) = Some x -> asked p x (tr s);
    i_done_lt : forall fid q o, In (TDone fid q o) (tr s) -> fid < nfid s
  }.
  Arguments i_fids {s}. Arguments i_pend_nd {s}. Arguments i_retry_nd {s}. Arguments i_idp_lt {s}.
  Arguments i_fresh {s}. Arguments i_told {s}. Arguments i_live {s}. Arguments i_dom {s}.
  Arguments i_pend_sub {s}. Arguments i_sub_acc {s}. Arguments i_idp_asked {s}. Arguments i_done_lt {s}.

  Lemma Inv_init l0 : Inv (init P V c l0).
  Proof.
    unfold init. constructor; sp; cbn [akeys map aget pvals cnt nsub nerr nok ntell count_true In]; intros;
      try solve [tauto | constructor | lia | discriminate | congruence].
  Qed.

  (* a pending pid is live and its count is exactly one *)
  Lemma pend_cnt s fid pid : aget fid (pend s) = Some pid -> 0 < cnt pid (pvals s).
  Proof.
    intros H. apply cnt_In. unfold pvals. change pid with (snd (fid, pid)). apply in_map.
    apply aget_Some_In. exact H.
  Qed.

  Lemma live_pending s fid pid : Inv s -> aget fid (pend s) = Some pid ->
    exists x, aget pid (idp s) = Some x /\ cnt pid (pvals s) = 1 /\
      nok pid (tr s) = 0 /\ ntell pid (tr s) = 0 /\
      nerr pid (tr s) = match aget pid (retry s) with Some k => k | None => 0 end /\
      nerr pid (tr s) <= r /\ nsub pid (tr s) = nerr pid (tr s) + 1.
  Proof.
    intros HI H. destruct (i_pend_sub HI _ _ H) as (x & Hx & _ & _). exists x. split; [exact Hx|].
    pose proof (pend_cnt _ _ _ H) as Hc.
    destruct (i_live HI _ _ Hx) as (H1 & H2 & H3 & H4 & H5 & H6 & H7).
    assert (Hc1 : cnt pid (pvals s) = 1) by lia.
    unfold E in H3. destruct (aget pid (retry s)) as [k|] eqn:Ek.
    - destruct (H6 k eq_refl). repeat split; try assumption; lia.
    - destruct (aget pid (tbs s)) eqn:Et.
      + assert (cnt pid (pvals s) = 0) by (apply H7; congruence). lia.
      + repeat split; try assumption; lia.
  Qed.

  (* ---- _process_futures, failure branch -------------------------------- *)
  Definition err_n s pid : nat := match aget pid (retry s) with Some k => k | None => 0 end + 1.

  Definition err_step s fid pid : rst :=
    let s0 := emit (set_pend s (apop fid (pend s))) (TDone fid pid Err) in
    let s1 := set_tbs s0 (aset pid tt (tbs s0)) in
    let s2 := set_retry s1 (aset pid (err_n s pid) (retry s1)) in
    if r <? err_n s pid then set_retry s2 (apop pid (retry s2)) else s2.

  Lemma process_one_err s fid pid : aget fid (pend s) = Some pid ->
    process_one lrn c s fid Err =
      (err_step s fid pid, if (r <? err_n s pid) && c_raise c then Some pid else None).
  Proof.
    intros H. unfold process_one, err_step, err_n. rewrite H. sp.
    destruct (r <? _); [destruct (c_raise c)|]; reflexivity.
  Qed.

  Lemma err_fields s fid pid :
    let s' := err_step s fid pid in
    pend s' = apop fid (pend s) /\ tr s' = TDone fid pid Err :: tr s /\
    tbs s' = aset pid tt (tbs s) /\ idp s' = idp s /\ nid s' = nid s /\ nfid s' = nfid s /\
    log s' = log s /\ lst s' = lst s /\ ph s' = ph s /\
    retry s' = (if r <? err_n s pid then apop pid (aset pid (err_n s pid) (retry s))
                else aset pid (err_n s pid) (retry s)).
  Proof. unfold err_step. destruct (r <? err_n s pid); sp; repeat split. Qed.

  Lemma Inv_err_step s fid pid : Inv s -> aget fid (pend s) = Some pid -> Inv (err_step s fid pid).
  Proof.
    intros HI H.
    destruct (live_pending s fid pid HI H) as (x0 & Hx0 & Hc1 & Hok & Hnt & Hne & Hler & Hns).
    destruct (err_fields s fid pid) as (Fp & Ft & Ftb & Fi & Fn & Ff & _ & _ & _ & Fr).
    set (s' := err_step s fid pid) in *.
    assert (Hn : err_n s pid = nerr pid (tr s) + 1) by (unfold err_n; lia).
    assert (cntE : forall p, cnt p (pvals s') = if p =? pid then 0 else cnt p (pvals s)).
    { intros p. unfold pvals. rewrite Fp. pose proof (cnt_apop fid (pend s) p (i_pend_nd HI)) as Hq.
      rewrite H in Hq. unfold pvals in Hc1. revert Hq. deq p pid; intros; [subst; lia|lia]. }
    assert (retryE : forall p, aget p (retry s') =
              if p =? pid then (if r <? err_n s pid then None else Some (err_n s pid)) else aget p (retry s)).
    { intros p. rewrite Fr. destruct (r <? err_n s pid).
      - rewrite aget_apop, aget_aset. deq p pid; reflexivity.
      - rewrite aget_aset. reflexivity. }
    assert (tbsE : forall p, aget p (tbs s') = if p =? pid then Some tt else aget p (tbs s)).
    { intros p. rewrite Ftb, aget_aset. reflexivity. }
    assert (nerrE : forall p, nerr p (tr s') = (if p =? pid then 1 else 0) + nerr p (tr s)).
    { intros p. rewrite Ft. reflexivity. }
    assert (nsubE : forall p, nsub p (tr s') = nsub p (tr s)) by (intros; rewrite Ft; reflexivity).
    assert (nokE : forall p, nok p (tr s') = nok p (tr s)) by (intros; rewrite Ft; reflexivity).
    assert (ntellE : forall p, ntell p (tr s') = ntell p (tr s)) by (intros; rewrite Ft; reflexivity).
    constructor.
    - intros f Hf. rewrite Fp in Hf. apply akeys_apop_In in Hf. rewrite Ff. apply (i_fids HI). tauto.
    - rewrite Fp. apply apop_nodup, (i_pend_nd HI).
    - rewrite Fr. destruct (r <? err_n s pid); [apply apop_nodup|]; apply aset_nodup, (i_retry_nd HI).
    - rewrite Fi, Fn. apply (i_idp_lt HI).
    - intros p Hp. rewrite Fn in Hp. rewrite nsubE, nerrE, nokE, ntellE.
      assert (p <> pid).
      { intros ->. assert (pid < nid s) by (apply (i_idp_lt HI); congruence). lia. }
      deq p pid; [congruence|]. apply (i_fresh HI). exact Hp.
    - intros p Hp Hnone. rewrite Fn in Hp. rewrite Fi in Hnone. rewrite nsubE, nerrE, nokE, ntellE.
      deq p pid; [congruence|]. apply (i_told HI); assumption.
    - intros p x Hx. rewrite Fi in Hx. rewrite nsubE, nerrE, nokE, ntellE, cntE.
      unfold E. rewrite !retryE, !tbsE.
      destruct (i_live HI _ _ Hx) as (H1 & H2 & H3 & H4 & H5 & H6 & H7). unfold E in H3.
      deq p pid.
      + subst p. destruct (Nat.ltb_spec r (err_n s pid)).
        * fin.
        * fin.
      + do 5 (split; [assumption|]). split; [exact H6|exact H7].
    - intros p Hnone. rewrite Fi in Hnone. rewrite retryE, tbsE, cntE.
      deq p pid; [congruence|]. apply (i_dom HI). exact Hnone.
    - intros f q Hq. rewrite Fp, aget_apop in Hq. deq f fid; [discriminate|].
      destruct (i_pend_sub HI _ _ Hq) as (x & Hx & Hin & Hnd). exists x. rewrite Fi, Ft.
      split; [exact Hx|]. split; [right; exact Hin|].
      intros (q' & o & [Heq|Hin']); [inversion Heq; congruence|]. apply Hnd. exists q', o. exact Hin'.
    - intros f q x Hin. rewrite Ft in Hin. destruct Hin as [Heq|Hin]; [discriminate|].
      destruct (i_sub_acc HI _ _ _ Hin) as (Hlt & Hor). rewrite Ff, Ft, Fp. split; [exact Hlt|].
      destruct Hor as [(o & Ho)|Hq]; [left; exists o; right; exact Ho|].
      deq f fid.
      + subst f. left. exists Err. left. congruence.
      + right. rewrite aget_apop. deq f fid; [congruence|exact Hq].
    - intros p x Hx. rewrite Fi in Hx. rewrite Ft.
      destruct (i_idp_asked HI _ _ Hx) as (n & ret & Hin & Hr). exists n, ret. split; [right; exact Hin|exact Hr].
    - intros f q o Hin. rewrite Ft in Hin. rewrite Ff. destruct Hin as [Heq|Hin]; [|apply (i_done_lt HI _ _ _ Hin)].
      inversion Heq; subst. apply (i_fids HI). apply aget_In_keys. congruence.
  Qed.

  (* ---- _process_futures, success branch -------------------------------- *)
  Definition ok_step s fid pid x y : rst :=
    let s0 := emit (set_pend s (apop fid (pend s))) (TDone fid pid (Ok y)) in
    let s1 := set_retry s0 (apop pid (retry s0)) in
    let s2 := set_tbs s1 (apop pid (tbs s1)) in
    let s3 := set_idp s2 (apop pid (idp s2)) in
    let s4 := if c_log c then set_log s3 (log s3 ++ [LTell x y]) else s3 in
    emit (set_lst s4 (l_tell lrn (lst s4) x y)) (TTell pid x y).

  Lemma process_one_ok s fid pid x y : aget fid (pend s) = Some pid -> aget pid (idp s) = Some x ->
    process_one lrn c s fid (Ok y) = (ok_step s fid pid x y, None).
  Proof. intros H Hx. unfold process_one, ok_step. rewrite H. sp. rewrite Hx. reflexivity. Qed.

  Lemma ok_fields s fid pid x y :
    let s' := ok_step s fid pid x y in
    pend s' = apop fid (pend s) /\ tr s' = TTell pid x y :: TDone fid pid (Ok y) :: tr s /\
    tbs s' = apop pid (tbs s) /\ idp s' = apop pid (idp s) /\ nid s' = nid s /\ nfid s' = nfid s /\
    log s' = (if c_log c then log s ++ [LTell x y] else log s) /\ lst s' = l_tell lrn (lst s) x y /\
    ph s' = ph s /\ retry s' = apop pid (retry s).
  Proof. unfold ok_step. destruct (c_log c); sp; repeat split. Qed.

  Lemma Inv_ok_step s fid pid x y : Inv s -> aget fid (pend s) = Some pid -> aget pid (idp s) = Some x ->
    Inv (ok_step s fid pid x y).
  Proof.
    intros HI H Hx.
    destruct (live_pending s fid pid HI H) as (x0 & Hx0 & Hc1 & Hok & Hnt & Hne & Hler & Hns).
    destruct (ok_fields s fid pid x y) as (Fp & Ft & Ftb & Fi & Fn & Ff & _ & _ & _ & Fr).
    set (s' := ok_step s fid pid x y) in *.
    assert (cntE : forall p, cnt p (pvals s') = if p =? pid then 0 else cnt p (pvals s)).
    { intros p. unfold pvals. rewrite Fp. pose proof (cnt_apop fid (pend s) p (i_pend_nd HI)) as Hq.
      rewrite H in Hq. unfold pvals in Hc1. revert Hq. deq p pid; intros; [subst; lia|lia]. }
    assert (retryE : forall p, aget p (retry s') = if p =? pid then None else aget p (retry s))
      by (intros; rewrite Fr; apply aget_apop).
    assert (tbsE : forall p, aget p (tbs s') = if p =? pid then None else aget p (tbs s))
      by (intros; rewrite Ftb; apply aget_apop).
    assert (idpE : forall p, aget p (idp s') = if p =? pid then None else aget p (idp s))
      by (intros; rewrite Fi; apply aget_apop).
    assert (nerrE : forall p, nerr p (tr s') = nerr p (tr s)) by (intros; rewrite Ft; reflexivity).
    assert (nsubE : forall p, nsub p (tr s') = nsub p (tr s)) by (intros; rewrite Ft; reflexivity).
    assert (nokE : forall p, nok p (tr s') = (if p =? pid then 1 else 0) + nok p (tr s))
      by (intros; rewrite Ft; reflexivity).
    assert (ntellE : forall p, ntell p (tr s') = (if p =? pid then 1 else 0) + ntell p (tr s))
      by (intros; rewrite Ft; reflexivity).
    assert (Hpl : pid < nid s) by (apply (i_idp_lt HI); congruence).
    constructor.
    - intros f Hf. rewrite Fp in Hf. apply akeys_apop_In in Hf. rewrite Ff. apply (i_fids HI). tauto.
    - rewrite Fp. apply apop_nodup, (i_pend_nd HI).
    - rewrite Fr. apply apop_nodup, (i_retry_nd HI).
    - intros p Hp. rewrite idpE in Hp. rewrite Fn. deq p pid; [congruence|]. apply (i_idp_lt HI). exact Hp.
    - intros p Hp. rewrite Fn in Hp. rewrite nsubE, nerrE, nokE, ntellE.
      deq p pid; [lia|]. apply (i_fresh HI). exact Hp.
    - intros p Hp Hnone. rewrite Fn in Hp. rewrite idpE in Hnone. rewrite nsubE, nerrE, nokE, ntellE.
      revert Hnone. deq p pid; intros Hnone.
      + subst p. fin.
      + apply (i_told HI); assumption.
    - intros p x1 Hx1. rewrite idpE in Hx1. rewrite nsubE, nerrE, nokE, ntellE, cntE.
      unfold E. rewrite !retryE, !tbsE. revert Hx1. deq p pid; intros Hx1; [discriminate|].
      destruct (i_live HI _ _ Hx1) as (H1 & H2 & H3 & H4 & H5 & H6 & H7). unfold E in H3.
      do 5 (split; [assumption|]). split; [exact H6|exact H7].
    - intros p Hnone. rewrite idpE in Hnone. rewrite retryE, tbsE, cntE.
      revert Hnone. deq p pid; intros Hnone; [fin|]. apply (i_dom HI). exact Hnone.
    - intros f q Hq.
      assert (Hqp : q <> pid).
      { intros ->. pose proof (pend_cnt s' f pid Hq) as Hpc. rewrite cntE, Nat.eqb_refl in Hpc. lia. }
      rewrite Fp, aget_apop in Hq. revert Hq. deq f fid; intros Hq; [discriminate|].
      destruct (i_pend_sub HI _ _ Hq) as (x1 & Hx1 & Hin & Hnd). exists x1. rewrite idpE, Ft.
      deq q pid; [congruence|].
      split; [exact Hx1|]. split; [right; right; exact Hin|].
      intros (q' & o & [Heq|[Heq|Hin']]); [discriminate|inversion Heq; congruence|].
      apply Hnd. exists q', o. exact Hin'.
    - intros f q x1 Hin. rewrite Ft in Hin. destruct Hin as [Heq|[Heq|Hin]]; [discriminate|discriminate|].
      destruct (i_sub_acc HI _ _ _ Hin) as (Hlt & Hor). rewrite Ff, Ft, Fp. split; [exact Hlt|].
      destruct Hor as [(o & Ho)|Hq]; [left; exists o; right; right; exact Ho|].
      deq f fid.
      + subst f. left. exists (Ok y). right. left. congruence.
      + right. rewrite aget_apop. deq f fid; [congruence|exact Hq].
    - intros p x1 Hx1. rewrite idpE in Hx1. revert Hx1. deq p pid; intros Hx1; [discriminate|]. rewrite Ft.
      destruct (i_idp_asked HI _ _ Hx1) as (n' & ret & Hin & Hr). exists n', ret.
      split; [right; right; exact Hin|exact Hr].
    - intros f q o Hin. rewrite Ft in Hin. rewrite Ff.
      destruct Hin as [Heq|[Heq|Hin]]; [discriminate| |apply (i_done_lt HI _ _ _ Hin)].
      inversion Heq; subst. apply (i_fids HI). apply aget_In_keys. congruence.
  Qed.

  (* one iteration of the for loop keeps the invariant *)
  Lemma Inv_process_one s fid o s' res : Inv s -> process_one lrn c s fid o = (s', res) -> Inv s'.
  Proof.
    intros HI H. destruct (aget fid (pend s)) as [pid|] eqn:Ep.
    - destruct o as [y|].
      + destruct (i_pend_sub HI _ _ Ep) as (x & Hx & _).
        rewrite (process_one_ok _ _ _ _ y Ep Hx) in H. inversion H; subst. apply Inv_ok_step; assumption.
      + rewrite (process_one_err _ _ _ Ep) in H. inversion H; subst. apply Inv_err_step; assumption.
    - unfold process_one in H. rewrite Ep in H. inversion H; subst. exact HI.
  Qed.

  Lemma Inv_process done : forall s s' res, Inv s -> process lrn c s done = (s', res) -> Inv s'.
  Proof.
    induction done as [|[fid o] done IH]; cbn [process]; intros s s' res HI H.
    - inversion H; subst. exact HI.
    - destruct (process_one lrn c s fid o) as [s1 [pid|]] eqn:E1.
      + inversion H; subst. eapply Inv_process_one; eauto.
      + eapply IH; [|exact H]. eapply Inv_process_one; eauto.
  Qed.

  (* ---- _ask ------------------------------------------------------------- *)
  Lemma assign_ids_keys i pts : akeys (assign_ids i pts) = seq i (length pts).
  Proof. revert i. induction pts as [|x pts IH]; intros i; cbn [assign_ids akeys map fst length seq]; [reflexivity|]. f_equal. apply IH. Qed.

  Lemma assign_ids_length i pts : length (assign_ids i pts) = length pts.
  Proof. revert i. induction pts as [|x pts IH]; intros i; cbn [assign_ids length]; [reflexivity|]. f_equal. apply IH. Qed.

  Lemma assign_ids_range i pts p : aget p (assign_ids i pts) <> None <-> i <= p < i + length pts.
  Proof. rewrite aget_In_keys, assign_ids_keys, in_seq. tauto. Qed.

  Definition ask_ext s m pts (l' : L) : rst :=
    let new := assign_ids (nid s) pts in
    let s1 := set_lst s l' in
    let s2 := set_idp s1 (idp s1 ++ new) in
    let s3 := set_nid s2 (nid s2 + length pts) in
    emit s3 (TAsk m new).

  Lemma ask_eq s n :
    let pids := firstn n (retry_candidates s) in
    ask lrn s n =
      if length pids <? n then
        (pids ++ map fst (assign_ids (nid s) (fst (l_ask lrn (lst s) (n - length pids)))),
         ask_ext s (n - length pids) (fst (l_ask lrn (lst s) (n - length pids)))
                 (snd (l_ask lrn (lst s) (n - length pids))))
      else (pids, s).
  Proof.
    intros pids. unfold ask. fold pids. destruct (length pids <? n); [|reflexivity].
    destruct (l_ask lrn (lst s) (n - length pids)) as [pts l']. reflexivity.
  Qed.

  Lemma Inv_ask_ext s m pts l' : Inv s -> Inv (ask_ext s m pts l').
  Proof.
    intros HI. unfold ask_ext.
    set (new := assign_ids (nid s) pts).
    assert (Hnew : forall p, aget p new <> None <-> nid s <= p < nid s + length pts)
      by (intros; apply assign_ids_range).
    assert (Hold : forall p v, aget p (idp s) = Some v -> aget p (idp s ++ new) = Some v)
      by (intros p v Hv; rewrite aget_app, Hv; reflexivity).
    assert (Hnone : forall p, aget p (idp s ++ new) = None -> aget p (idp s) = None /\ aget p new = None).
    { intros p Hn. rewrite aget_app in Hn. destruct (aget p (idp s)); [discriminate|auto]. }
    constructor; sp.
    - apply (i_fids HI).
    - apply (i_pend_nd HI).
    - apply (i_retry_nd HI).
    - intros p Hp. rewrite aget_app in Hp. destruct (aget p (idp s)) eqn:Ei.
      + assert (p < nid s) by (apply (i_idp_lt HI); congruence). lia.
      + apply Hnew in Hp. lia.
    - intros p Hp. apply (i_fresh HI). lia.
    - intros p Hp Hn. destruct (Hnone _ Hn) as [Hn1 Hn2]. apply (i_told HI); [|exact Hn1].
      destruct (Nat.lt_ge_cases p (nid s)); [assumption|]. exfalso.
      assert (aget p new <> None) by (apply Hnew; lia). congruence.
    - intros p x Hx. rewrite aget_app in Hx. destruct (aget p (idp s)) as [v|] eqn:Ei.
      + inversion Hx; subst v. apply (i_live HI _ _ Ei).
      + assert (Hr : nid s <= p) by (apply Hnew; congruence).
        destruct (i_fresh HI _ Hr) as (F1 & F2 & F3 & F4). destruct (i_dom HI _ Ei) as (D1 & D2 & D3).
        unfold E, pvals in *. sp. rewrite D1, D2. fin.
    - intros p Hn. apply (i_dom HI). apply Hnone. exact Hn.
    - intros f q Hq. destruct (i_pend_sub HI _ _ Hq) as (x & Hx & Hin & Hnd). exists x.
      split; [apply Hold; exact Hx|]. split; [right; exact Hin|].
      intros (q' & o & [Heq|Hin']); [discriminate|]. apply Hnd. exists q', o. exact Hin'.
    - intros f q x [Heq|Hin]; [discriminate|]. destruct (i_sub_acc HI _ _ _ Hin) as (Hlt & Hor).
      split; [exact Hlt|]. destruct Hor as [(o & Ho)|Hq]; [left; exists o; right; exact Ho|right; exact Hq].
    - intros p x Hx. rewrite aget_app in Hx. destruct (aget p (idp s)) as [v|] eqn:Ei.
      + inversion Hx; subst v. destruct (i_idp_asked HI _ _ Ei) as (n' & ret & Hin & Hr).
        exists n', ret. split; [right; exact Hin|exact Hr].
      + exists m, new. split; [left; reflexivity|]. apply aget_Some_In. exact Hx.
    - intros f q o [Heq|Hin]; [discriminate|]. apply (i_done_lt HI _ _ _ Hin).
  Qed.

  (* ---- _submit ---------------------------------------------------------- *)
  Definition sub_step s pid x : rst :=
    emit (set_nfid (set_pend s (pend s ++ [(nfid s, pid)])) (S (nfid s))) (TSubmit (nfid s) pid x).

  Lemma submit_pid_eq s pid x : aget pid (idp s) = Some x -> submit_pid s pid = sub_step s pid x.
  Proof. intros H. unfold submit_pid. rewrite H. reflexivity. Qed.

  Lemma nfid_fresh s : Inv s -> aget (nfid s) (pend s) = None.
  Proof.
    intros HI. apply aget_None_keys. intros Hin. pose proof (i_fids HI _ Hin). lia.
  Qed.

  Lemma Inv_sub_step s pid x : Inv s -> aget pid (idp s) = Some x -> cnt pid (pvals s) = 0 ->
    (aget pid (tbs s) <> None -> aget pid (retry s) <> None) -> Inv (sub_step s pid x).
  Proof.
    intros HI Hx Hc0 Htb. unfold sub_step.
    pose proof (nfid_fresh s HI) as Hfresh.
    assert (cntE : forall p, cnt p (map snd (pend s ++ [(nfid s, pid)])) = cnt p (pvals s) + if p =? pid then 1 else 0).
    { intros p. unfold pvals. rewrite map_app, cnt_app. cbn [map snd cnt]. lia. }
    assert (Hpl : pid < nid s) by (apply (i_idp_lt HI); congruence).
    constructor; sp; unfold pvals; sp.
    - intros f Hf. rewrite akeys_app in Hf. apply in_app_or in Hf. destruct Hf as [Hf|[<-|[]]]; [|lia].
      pose proof (i_fids HI _ Hf). lia.
    - rewrite akeys_app. cbn [akeys map fst]. apply NoDup_app_disj; [apply (i_pend_nd HI)|repeat constructor; tauto|].
      intros f Hf [<-|[]]. pose proof (i_fids HI _ Hf). lia.
    - apply (i_retry_nd HI).
    - apply (i_idp_lt HI).
    - intros p Hp. unfold nsub. cbn [count_true is_sub]. deq p pid; [lia|]. apply (i_fresh HI). exact Hp.
    - intros p Hp Hn. unfold nsub. cbn [count_true is_sub]. deq p pid; [congruence|]. apply (i_told HI); assumption.
    - intros p x1 Hx1. rewrite cntE. unfold nsub. cbn [count_true is_sub]. fold (nsub p (tr s)).
      destruct (i_live HI _ _ Hx1) as (H1 & H2 & H3 & H4 & H5 & H6 & H7).
      change (nok p (TSubmit (nfid s) pid x :: tr s)) with (nok p (tr s)).
      change (ntell p (TSubmit (nfid s) pid x :: tr s)) with (ntell p (tr s)).
      change (nerr p (TSubmit (nfid s) pid x :: tr s)) with (nerr p (tr s)).
      change (E (mkrst (pend s ++ [(nfid s, pid)]) (retry s) (tbs s) (idp s) (nid s) (S (nfid s)) (log s) (lst s) (ph s)
                       (TSubmit (nfid s) pid x :: tr s)) p) with (E s p).
      deq p pid.
      + subst p. do 3 (split; [assumption|]). split; [lia|]. split; [lia|]. split; [exact H6|].
        intros Ht Hr. exfalso. apply (Htb Ht). exact Hr.
      + do 3 (split; [assumption|]). split; [lia|]. split; [lia|]. split; [exact H6|].
        intros Ht Hr. rewrite (H7 Ht Hr). reflexivity.
    - intros p Hn. rewrite cntE. destruct (i_dom HI _ Hn) as (D1 & D2 & D3).
      deq p pid; [congruence|]. fin.
    - intros f q Hq. rewrite aget_app in Hq. destruct (aget f (pend s)) as [q0|] eqn:Ef.
      + inversion Hq; subst q0. destruct (i_pend_sub HI _ _ Ef) as (x1 & Hx1 & Hin & Hnd). exists x1.
        split; [exact Hx1|]. split; [right; exact Hin|].
        intros (q' & o & [Heq|Hin']); [discriminate|]. apply Hnd. exists q', o. exact Hin'.
      + cbn [aget] in Hq. revert Hq. deq f (nfid s); intros Hq; [|discriminate]. inversion Hq; subst.
        exists x. split; [exact Hx|]. split; [left; reflexivity|].
        intros (q' & o & [Heq|Hin']); [discriminate|]. pose proof (i_done_lt HI _ _ _ Hin'). lia.
    - intros f q x1 [Heq|Hin].
      + inversion Heq; subst. split; [lia|]. right. rewrite aget_app, Hfresh. cbn [aget]. rewrite Nat.eqb_refl. reflexivity.
      + destruct (i_sub_acc HI _ _ _ Hin) as (Hlt & Hor). split; [lia|].
        destruct Hor as [(o & Ho)|Hq]; [left; exists o; right; exact Ho|right].
        rewrite aget_app, Hq. reflexivity.
    - intros p x1 Hx1. destruct (i_idp_asked HI _ _ Hx1) as (n' & ret & Hin & Hr).
      exists n', ret. split; [right; exact Hin|exact Hr].
    - intros f q o [Heq|Hin]; [discriminate|]. pose proof (i_done_lt HI _ _ _ Hin). lia.
  Qed.
