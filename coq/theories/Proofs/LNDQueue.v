(* The order of the LearnerND priority-queue key (-round(loss, 8), simplex,
   subsimplex) and sorted insertion (SortedKeyList.add); used by the queue
   invariant of property C04 in Proofs/LNDProofs.v. *)
From Coq Require Import ZArith Sorted.
From AV Require Import Base.Prelude Base.NatSet Model.Tri Model.LND Proofs.TriProofs.

(* ---------------- the order of the queue key ---------------- *)
Lemma lex_leb_refl a : lex_leb a a = true.
Proof. induction a as [|x a IH]; cbn [lex_leb]; auto. rewrite Nat.ltb_irrefl, Nat.eqb_refl. exact IH. Qed.

Lemma lex_leb_total : forall a b, lex_leb a b = true \/ lex_leb b a = true.
Proof.
  induction a as [|x a IH]; intros [|y b]; cbn [lex_leb]; auto.
  destruct (Nat.ltb_spec x y), (Nat.ltb_spec y x), (Nat.eqb_spec x y), (Nat.eqb_spec y x); auto; try lia.
Qed.

Lemma lex_leb_trans : forall a b c, lex_leb a b = true -> lex_leb b c = true -> lex_leb a c = true.
Proof.
  induction a as [|x a IH]; intros [|y b] [|z c]; cbn [lex_leb]; auto; try discriminate.
  destruct (Nat.ltb_spec x y), (Nat.ltb_spec y z), (Nat.ltb_spec x z), (Nat.eqb_spec x y), (Nat.eqb_spec y z),
    (Nat.eqb_spec x z); auto; try lia; try discriminate. apply IH.
Qed.

Lemma lex_leb_antisym : forall a b, lex_leb a b = true -> lex_leb b a = true -> a = b.
Proof.
  induction a as [|x a IH]; intros [|y b]; cbn [lex_leb]; auto; try discriminate.
  destruct (Nat.ltb_spec x y), (Nat.ltb_spec y x), (Nat.eqb_spec x y), (Nat.eqb_spec y x); try lia; try discriminate.
  intros H1 H2. subst. f_equal. auto.
Qed.

Section Queue.
  Variable L : Type.
  Variable rnd : L -> Z.
  Notation entry := (entry L).
  Implicit Types (e x : entry) (q : list entry).

  Definition kle e1 e2 : Prop := key_leb rnd e1 e2 = true.
  Definition queue_sorted q : Prop := StronglySorted kle q.

  Lemma kle_rnd l1 s1 u1 l2 s2 u2 : kle (l1, s1, u1) (l2, s2, u2) -> (rnd l2 <= rnd l1)%Z.
  Proof.
    unfold kle, key_leb. destruct (Z.ltb_spec (- rnd l1) (- rnd l2)); [lia|].
    destruct (Z.eqb_spec (- rnd l1) (- rnd l2)); [lia|discriminate].
  Qed.

  Lemma kle_total e1 e2 : kle e1 e2 \/ kle e2 e1.
  Proof.
    destruct e1 as [[l1 s1] u1], e2 as [[l2 s2] u2]. unfold kle, key_leb.
    destruct (Z.ltb_spec (- rnd l1) (- rnd l2)); auto.
    destruct (Z.ltb_spec (- rnd l2) (- rnd l1)); auto.
    destruct (Z.eqb_spec (- rnd l1) (- rnd l2)); [|lia].
    destruct (Z.eqb_spec (- rnd l2) (- rnd l1)); [|lia].
    destruct (simplex_eqb s1 s2) eqn:E1.
    - apply simplex_eqb_eq in E1. subst. rewrite simplex_eqb_refl. apply lex_leb_total.
    - destruct (simplex_eqb s2 s1) eqn:E2; [apply simplex_eqb_eq in E2; subst; rewrite simplex_eqb_refl in E1; discriminate|].
      apply lex_leb_total.
  Qed.

  Lemma kle_trans e1 e2 e3 : kle e1 e2 -> kle e2 e3 -> kle e1 e3.
  Proof.
    destruct e1 as [[l1 s1] u1], e2 as [[l2 s2] u2], e3 as [[l3 s3] u3]. unfold kle, key_leb.
    destruct (Z.ltb_spec (- rnd l1) (- rnd l2)), (Z.ltb_spec (- rnd l2) (- rnd l3)), (Z.ltb_spec (- rnd l1) (- rnd l3));
      auto; try lia;
      destruct (Z.eqb_spec (- rnd l1) (- rnd l2)), (Z.eqb_spec (- rnd l2) (- rnd l3)), (Z.eqb_spec (- rnd l1) (- rnd l3));
      auto; try lia; try discriminate.
    destruct (simplex_eqb s1 s2) eqn:E12, (simplex_eqb s2 s3) eqn:E23, (simplex_eqb s1 s3) eqn:E13;
      repeat match goal with H : simplex_eqb _ _ = true |- _ => apply simplex_eqb_eq in H; subst end;
      rewrite ?simplex_eqb_refl in *; try discriminate; auto.
    - apply lex_leb_trans.
    - intros G1 G2. apply (lex_leb_antisym _ _ G1) in G2. subst. rewrite simplex_eqb_refl in E12. discriminate.
    - apply lex_leb_trans.
  Qed.

  Lemma queue_add_In e q y : In y (queue_add rnd e q) <-> y = e \/ In y q.
  Proof.
    induction q as [|x q IH]; cbn [queue_add In]; [intuition|].
    destruct (key_leb rnd x e); cbn [In]; [rewrite IH|]; intuition.
  Qed.

  Lemma queue_add_sorted e q : queue_sorted q -> queue_sorted (queue_add rnd e q).
  Proof.
    unfold queue_sorted. induction q as [|x q IH]; cbn [queue_add]; intros H.
    - constructor; constructor.
    - inversion H as [|? ? Hs Hf]; subst. destruct (key_leb rnd x e) eqn:E.
      + constructor; [apply IH; exact Hs|]. rewrite Forall_forall in *. intros y Hy.
        apply queue_add_In in Hy as [->|Hy]; [exact E|auto].
      + constructor; [exact H|]. assert (Hex : kle e x) by (destruct (kle_total e x); [auto|unfold kle in *; congruence]).
        constructor; [exact Hex|]. rewrite Forall_forall in *. intros y Hy. eapply kle_trans; eauto.
  Qed.

  Lemma fold_queue_add_In {A} (f : A -> entry) (l : list A) : forall q y,
    In y (fold_left (fun q u => queue_add rnd (f u) q) l q) <-> In y q \/ exists u, In u l /\ y = f u.
  Proof.
    induction l as [|a l IH]; intros q y; cbn [fold_left In].
    - split; [auto|intros [H|[u [[] _]]]; auto].
    - rewrite IH, queue_add_In. split.
      + intros [[->|H]|[u [Hu ->]]]; eauto.
      + intros [H|[u [[<-|Hu] ->]]]; eauto.
  Qed.

  Lemma fold_queue_add_sorted {A} (f : A -> entry) (l : list A) : forall q,
    queue_sorted q -> queue_sorted (fold_left (fun q u => queue_add rnd (f u) q) l q).
  Proof. induction l as [|a l IH]; intros q H; cbn [fold_left]; auto. apply IH, queue_add_sorted, H. Qed.

  Lemma sorted_app_inv pre e q : queue_sorted (pre ++ e :: q) -> queue_sorted q /\ Forall (kle e) q.
  Proof.
    unfold queue_sorted. induction pre as [|x pre IH]; cbn [app]; intros H.
    - inversion H; auto.
    - inversion H; auto.
  Qed.
End Queue.

Arguments queue_sorted {L}.
Arguments kle {L}.
Arguments kle_rnd {L}.
Arguments queue_add_In {L}.
Arguments queue_add_sorted {L}.
Arguments fold_queue_add_In {L} rnd {A}.
Arguments fold_queue_add_sorted {L} rnd {A}.
Arguments sorted_app_inv {L}.
