(* Bookkeeping lemmas for properties C09 / C10 about AverageLearner1D:
   Model/Avg1D.v (sample bookkeeping, owned by C16) with the pending-point
   overlay Model/Avg1DPend.v.  Generic in the number structure; the lemmas
   that compare abscissae need [EqLaws] (== on abscissae is an equivalence:
   true of reals / integers, and of IEEE doubles except NaN, which the
   learner's bounds check excludes).  Axiom-free.

   Not modelled, hence not claimed: loss(), the interval losses, neighbours
   (so "both losses unchanged" of C09 and "the two losses are equal after a
   discard" of C10 are not theorems here: names end in _partial). *)
From Coq Require Import Permutation.
From AV Require Import Base.Prelude Base.NatSet Model.AvgNum Model.Avg1D Model.Avg1DPend.
From AV Require Import Proofs.AvgProofs Proofs.Avg1DProofs.

#[local] Arguments resample_px {N}. #[local] Arguments batch_px {N}. #[local] Arguments batch_nonempty {N}.
#[local] Arguments batch_rest_ok {N}. #[local] Arguments fresh_at_spec {N}. #[local] Arguments tell_many_expands {N}.
#[local] Arguments find_pt_In {N}. #[local] Arguments G_reach {N}. #[local] Arguments tell_groups_run {N}.

Record EqLaws (N : NumOps) : Prop := mkEqLaws {
  eql_refl : forall x : num N, n_eqb N x x = true;
  eql_sym : forall x y : num N, n_eqb N x y = n_eqb N y x;
  eql_trans : forall x y z : num N, n_eqb N x y = true -> n_eqb N y z = true -> n_eqb N x z = true
}.

Arguments eql_refl {N}. Arguments eql_sym {N}. Arguments eql_trans {N}.

Lemma filter_id {A} (f : A -> bool) (l : list A) : (forall x, In x l -> f x = true) -> filter f l = l.
Proof.
  induction l as [|a l IH]; cbn [filter]; intros H; [reflexivity|].
  rewrite (H a (or_introl eq_refl)). f_equal. apply IH. intros x Hx. apply H. right; exact Hx.
Qed.

Section A1D.
  Variable N : NumOps.
  Variable tppf : nat -> num N.
  Implicit Types (c : cfg N) (s : pst N) (b : st N) (p q : pt N) (k : key N) (P : list (key N))
                 (h : list (pop N)) (o : pop N) (x y : num N) (l : list (nat * num N)).

  Notation pstepF := (pstep tppf).
  Notation prunF := (prun tppf).
  Notation preachF := (preach tppf).

  Lemma prun_cons c s o h : prunF c s (o :: h) = prunF c (fst (pstepF c s o)) h.
  Proof. reflexivity. Qed.

  (* ================= C09 ================= *)
  (* the non-committing ask returns the state it was given (the model's ask is a
     function of the state, like the code's candidate computation) *)
  Theorem a1d_ask_noop c s n hint :
    fst (pstepF c s (PAsk n false hint)) = s /\
    (forall h, prunF c (fst (pstepF c s (PAsk n false hint))) h = prunF c s h) /\
    (forall o, pstepF c (fst (pstepF c s (PAsk n false hint))) o = pstepF c s o) /\
    snd (pstepF c (fst (pstepF c s (PAsk n false hint))) (PAsk n false hint)) = snd (pstepF c s (PAsk n false hint)).
  Proof. repeat split. Qed.

  Theorem a1d_ask_commit c s n hint :
    snd (pstepF c s (PAsk n true hint)) = snd (pstepF c s (PAsk n false hint)) /\
    fst (pstepF c s (PAsk n true hint)) =
      fold_left (@tell_pending N) (asked (snd (pstepF c s (PAsk n false hint)))) (fst (pstepF c s (PAsk n false hint))).
  Proof. split; reflexivity. Qed.

  (* ================= pending-set algebra (no laws needed) ================= *)
  Lemma pmem_premove_same k P : pmem k (premove k P) = false.
  Proof.
    unfold pmem, premove. induction P as [|q P IH]; cbn [filter existsb]; [reflexivity|].
    destruct (keqb k q) eqn:E; cbn [negb existsb]; [exact IH|]. rewrite E, IH. reflexivity.
  Qed.

  Lemma pmem_premove_mono k k' P : pmem k P = false -> pmem k (premove k' P) = false.
  Proof.
    unfold pmem, premove. induction P as [|q P IH]; cbn [filter existsb]; [reflexivity|].
    intros H. apply orb_false_iff in H as [H1 H2].
    destruct (negb (keqb k' q)); cbn [existsb]; [rewrite H1; cbn [orb]|]; apply IH; exact H2.
  Qed.

  Lemma pmem_premove_all_mono k ks : forall P, pmem k P = false -> pmem k (premove_all ks P) = false.
  Proof.
    induction ks as [|k' ks IH]; intros P H; cbn [premove_all fold_left]; [exact H|].
    apply IH. apply pmem_premove_mono. exact H.
  Qed.

  Lemma pmem_premove_all_in k ks : forall P, In k ks -> pmem k (premove_all ks P) = false.
  Proof.
    induction ks as [|k' ks IH]; intros P; cbn [In premove_all fold_left]; [tauto|].
    intros [->|H]; [|apply IH; exact H].
    apply pmem_premove_all_mono. apply pmem_premove_same.
  Qed.

  Lemma fold_tell_pending_base ks : forall s, base (fold_left (@tell_pending N) ks s) = base s.
  Proof. induction ks as [|k ks IH]; intros s; cbn [fold_left]; [reflexivity|]. rewrite IH. reflexivity. Qed.

  Lemma fold_tell_pending_pend ks : forall s, pend (fold_left (@tell_pending N) ks s) = padd_all ks (pend s).
  Proof. induction ks as [|k ks IH]; intros s; cbn [fold_left padd_all]; [reflexivity|]. rewrite IH. reflexivity. Qed.

  (* ================= C10: told is not pending (post-condition) ================= *)
  Theorem a1d_told_not_pending c s seed x y :
    pmem (seed, x) (pend (fst (pstepF c s (PTell seed x y)))) = false.
  Proof. cbn [pstep fst pend]. apply pmem_premove_same. Qed.

  Theorem a1d_told_not_pending_batch c s x l m seed :
    in_bounds c x = true -> In seed (map fst l) ->
    pmem (seed, x) (pend (fst (pstepF c s (PTellManyAt x l m)))) = false.
  Proof.
    intros Hb Hin. cbn [pstep fst pend]. rewrite Hb. apply pmem_premove_all_in.
    unfold keys_at. apply in_map_iff in Hin as [[s0 y0] [<- Hin]]. apply in_map_iff. exists (s0, y0). auto.
  Qed.

  Theorem a1d_told_not_pending_many c s trip hints seed x :
    forallb (fun e => in_bounds c (snd (fst e))) trip = true -> (exists y, In (seed, x, y) trip) ->
    pmem (seed, x) (pend (fst (pstepF c s (PTellMany trip hints)))) = false.
  Proof.
    intros Hb [y Hin]. cbn [pstep fst pend]. rewrite Hb. apply pmem_premove_all_in.
    unfold keys_of. apply in_map_iff. exists (seed, x, y). auto.
  Qed.

  (* ================= C10: re-tell ================= *)
  Lemma update_pt_id x (f : option (pt N) -> pt N -> option (pt N) -> pt N) : forall b prev p,
    find_pt x b = Some p -> (forall a a', f a p a' = p) -> update_pt x f prev b = b.
  Proof.
    induction b as [|q b IH]; intros prev p; cbn [find_pt update_pt]; [discriminate|].
    destruct (n_eqb N x (px q)).
    - intros H Hf. inversion H; subst. rewrite Hf. reflexivity.
    - intros H Hf. f_equal. eapply IH; eauto.
  Qed.

  (* telling a (seed, x) that already has a value changes nothing in the sample
     bookkeeping, whatever the value *)
  Lemma tell_known c b seed x y : toldb b (seed, x) = true -> tell tppf c b seed x y = b.
  Proof.
    unfold toldb, seeds_at, samples_at. cbn [fst snd]. unfold tell.
    destruct (find_pt x b) as [p|] eqn:E; [|cbn; discriminate].
    intros H. apply (update_pt_id x _ b None p E).
    intros a a'. unfold pt_resample. unfold seeds. rewrite H. reflexivity.
  Qed.

  Theorem a1d_retell_noop c s seed x y :
    toldb (base s) (seed, x) = true -> pmem (seed, x) (pend s) = false ->
    fst (pstepF c s (PTell seed x y)) = s.
  Proof.
    intros Ht Hp. cbn [pstep fst]. rewrite (tell_known c _ _ _ _ Ht).
    destruct s as [b P]. cbn [base pend] in *. f_equal.
    unfold premove. apply filter_id. intros q Hq.
    destruct (keqb (seed, x) q) eqn:E; [|reflexivity].
    unfold pmem in Hp. assert (existsb (keqb (seed, x)) P = true) by (apply existsb_exists; eauto). congruence.
  Qed.

  (* ================= C10: discard (partial: no loss in the model) ================= *)
  Theorem a1d_discard c s :
    pend (fst (pstepF c s PRemoveUnfinished)) = [] /\ base (fst (pstepF c s PRemoveUnfinished)) = base s.
  Proof. split; reflexivity. Qed.

  (* ================= the overlay does not disturb the base model ================= *)
  Lemma run_app c b (h1 h2 : list (op N)) : run tppf c b (h1 ++ h2) = run tppf c (run tppf c b h1) h2.
  Proof. unfold run. apply fold_left_app. Qed.

  Lemma base_step c s o : base (fst (pstepF c s o)) = run tppf c (base s) (base_op o).
  Proof.
    destruct o as [n cm hint|seed x y|x l m|trip hints|k|]; cbn [pstep base_op fst base run fold_left step]; try reflexivity.
    unfold pask. cbn [fst]. destruct cm; [apply fold_tell_pending_base|reflexivity].
  Qed.

  Lemma base_run c h : forall s, base (prunF c s h) = run tppf c (base s) (base_ops h).
  Proof.
    induction h as [|o h IH]; intros s; [reflexivity|].
    rewrite prun_cons, IH, base_step. unfold base_ops. cbn [flat_map]. rewrite run_app. reflexivity.
  Qed.
End A1D.

(* ====================================================================== *)
(* Lemmas that compare abscissae: == is an equivalence *)
Section B1D.
  Variable N : NumOps.
  Variable tppf : nat -> num N.
  Hypothesis EL : EqLaws N.
  Implicit Types (c : cfg N) (s : pst N) (b : st N) (p q : pt N) (k : key N) (P : list (key N))
                 (h : list (pop N)) (o : pop N) (x y : num N) (l : list (nat * num N)) (d : list (nat * num N)).

  Notation pstepF := (pstep tppf).
  Notation prunF := (prun tppf).
  Notation preachF := (preach tppf).
  Notation runF := (run tppf).
  Notation stepF := (step tppf).

  Lemma eqb_cong x x' z : n_eqb N x x' = true -> n_eqb N x z = n_eqb N x' z.
  Proof.
    intros H. destruct (n_eqb N x' z) eqn:E.
    - eapply (eql_trans EL); eauto.
    - destruct (n_eqb N x z) eqn:E2; [|reflexivity].
      rewrite (eql_sym EL) in H. rewrite (eql_trans EL _ _ _ H E2) in E. discriminate.
  Qed.

  Lemma keqb_refl k : keqb k k = true.
  Proof. unfold keqb. rewrite Nat.eqb_refl, (eql_refl EL). reflexivity. Qed.

  Lemma keqb_sym k k' : keqb k k' = keqb k' k.
  Proof. unfold keqb. rewrite Nat.eqb_sym, (eql_sym EL). reflexivity. Qed.

  Lemma keqb_trans k1 k2 k3 : keqb k1 k2 = true -> keqb k2 k3 = true -> keqb k1 k3 = true.
  Proof.
    unfold keqb. intros H1 H2. apply andb_true_iff in H1 as [A1 B1]. apply andb_true_iff in H2 as [A2 B2].
    apply Nat.eqb_eq in A1, A2. apply andb_true_iff. split; [apply Nat.eqb_eq; congruence|].
    eapply (eql_trans EL); eauto.
  Qed.

  Lemma keqb_cong k k' z : keqb k k' = true -> keqb k z = keqb k' z.
  Proof.
    intros H. destruct (keqb k' z) eqn:E.
    - eapply keqb_trans; eauto.
    - destruct (keqb k z) eqn:E2; [|reflexivity].
      rewrite keqb_sym in H. rewrite (keqb_trans _ _ _ H E2) in E. discriminate.
  Qed.

  (* ---------------- find_pt ---------------- *)
  Lemma find_pt_cong x x' b : n_eqb N x x' = true -> find_pt x b = find_pt x' b.
  Proof.
    intros H. induction b as [|q b IH]; cbn [find_pt]; [reflexivity|].
    rewrite (eqb_cong _ _ (px q) H), IH. reflexivity.
  Qed.

  Lemma find_pt_px x b p : find_pt x b = Some p -> n_eqb N x (px p) = true.
  Proof.
    induction b as [|q b IH]; cbn [find_pt]; [discriminate|].
    destruct (n_eqb N x (px q)) eqn:E; [intros H; inversion H; subst; exact E|exact IH].
  Qed.

  Lemma find_insert p b x' : find_pt (px p) b = None ->
    find_pt x' (insert_pt p b) = if n_eqb N x' (px p) then Some p else find_pt x' b.
  Proof.
    induction b as [|q b IH]; cbn [find_pt insert_pt]; [reflexivity|].
    destruct (n_eqb N (px p) (px q)) eqn:E; [discriminate|]. intros Hn.
    destruct (n_ltb N (px p) (px q)); cbn [find_pt]; [reflexivity|].
    rewrite (IH Hn). destruct (n_eqb N x' (px q)) eqn:E1; [|reflexivity].
    destruct (n_eqb N x' (px p)) eqn:E2; [|reflexivity].
    rewrite (eql_sym EL) in E2. rewrite (eql_trans EL _ _ _ E2 E1) in E. discriminate.
  Qed.

  Lemma find_update x (f : option (pt N) -> pt N -> option (pt N) -> pt N) x' :
    (forall a q a', px (f a q a') = px q) -> forall b prev p,
    find_pt x b = Some p ->
    if n_eqb N x' x then exists a a', find_pt x' (update_pt x f prev b) = Some (f a p a')
    else find_pt x' (update_pt x f prev b) = find_pt x' b.
  Proof.
    intros Hpx. induction b as [|q b IH]; intros prev p; cbn [find_pt update_pt]; [discriminate|].
    destruct (n_eqb N x (px q)) eqn:E.
    - intros H. inversion H; subst q. cbn [find_pt]. rewrite Hpx.
      destruct (n_eqb N x' x) eqn:E1.
      + rewrite (eqb_cong _ _ (px p) E1), E. eauto.
      + destruct (n_eqb N x' (px p)) eqn:E2; [|reflexivity].
        rewrite (eql_sym EL) in E. rewrite (eql_trans EL _ _ _ E2 E) in E1. discriminate.
    - intros H. cbn [find_pt]. specialize (IH (Some q) p H).
      destruct (n_eqb N x' x) eqn:E1.
      + rewrite (eqb_cong _ _ (px q) E1), E. exact IH.
      + destruct (n_eqb N x' (px q)); [reflexivity|exact IH].
  Qed.

  (* ---------------- samples held at an abscissa ---------------- *)
  Lemma samples_at_cong x x' b : n_eqb N x x' = true -> samples_at x b = samples_at x' b.
  Proof. intros H. unfold samples_at. rewrite (find_pt_cong _ _ b H). reflexivity. Qed.

  Lemma samples_at_tell c b seed x y x' :
    samples_at x' (tell tppf c b seed x y) =
    if n_eqb N x' x then add1 (samples_at x b) (seed, y) else samples_at x' b.
  Proof.
    unfold tell. destruct (find_pt x b) as [p|] eqn:E.
    - pose proof (find_update x (pt_resample tppf c seed y) x' (resample_px tppf c seed y) b None p E) as H.
      unfold samples_at at 1. destruct (n_eqb N x' x) eqn:E1.
      + destruct H as [a [a' ->]]. unfold samples_at. rewrite E. unfold pt_resample, add1, seeds. cbn [fst].
        destruct (nat_mem seed (map fst (samples p))); reflexivity.
      + rewrite H. reflexivity.
    - unfold samples_at at 1.
      rewrite (find_insert (pt_new N x seed y) b x') by exact E. cbn [px pt_new].
      destruct (n_eqb N x' x); [|reflexivity].
      unfold samples_at. rewrite E. reflexivity.
  Qed.

  Lemma fold_add1_nodup l : forall d, NoDup (map fst l) ->
    fold_left (@add1 N) l d = d ++ filter (fun sy => negb (nat_mem (fst sy) (map fst d))) l.
  Proof.
    induction l as [|sy l IH]; intros d Hn; cbn [fold_left filter]; [symmetry; apply app_nil_r|].
    cbn [map] in Hn. inversion Hn as [|? ? Hk Hn']; subst.
    unfold add1 at 2. destruct (nat_mem (fst sy) (map fst d)) eqn:E; cbn [negb].
    - apply IH. exact Hn'.
    - rewrite (IH _ Hn'), <- app_assoc. cbn [app]. f_equal. f_equal.
      apply filter_ext_in. intros sy' Hin. f_equal. rewrite map_app. cbn [map].
      unfold nat_mem. rewrite existsb_app. cbn [existsb]. rewrite orb_false_r.
      destruct (Nat.eqb_spec (fst sy') (fst sy)) as [Heq|_]; [|apply orb_false_r].
      exfalso. apply Hk. rewrite <- Heq. apply in_map. exact Hin.
  Qed.

  Lemma batch_rest_is_filter c p l : (dedup c = true \/ fresh p l) ->
    batch_rest c p l = filter (fun sy => negb (nat_mem (fst sy) (seeds p))) l.
  Proof.
    intros [Hd|Hf]; unfold batch_rest.
    - rewrite Hd. reflexivity.
    - destruct (dedup c); [reflexivity|]. symmetry. apply filter_id.
      intros [k y] Hin. cbn [fst].
      destruct (nat_mem k (seeds p)) eqn:E; [|reflexivity]. apply nat_mem_In in E.
      exfalso. apply (Hf k); [apply in_map_iff; exists (k, y); auto|exact E].
  Qed.

  Lemma samples_batch c rest m p : NoDup (map fst rest) -> fresh p rest ->
    samples (pt_batch tppf c rest m p) = samples p ++ rest.
  Proof.
    intros Hn Hf. destruct rest as [|e rest'] eqn:Er.
    - cbn. symmetry. apply app_nil_r.
    - rewrite <- Er in *. apply (batch_nonempty tppf c rest m p); [subst; discriminate|exact Hf|exact Hn].
  Qed.

  Lemma legal_batch_unpack c b x l m :
    legal_flat_op c b (TellManyAt N x l m) = true ->
    in_bounds c x = true /\ l <> [] /\ NoDup (map fst l) /\ (dedup c = true \/ fresh_at b x l = true).
  Proof.
    cbn [legal_flat_op]. intros Hl. apply andb_true_iff in Hl as [Hl Hfr].
    apply andb_true_iff in Hl as [Hl Hnd0]. apply andb_true_iff in Hl as [Hb Hne0].
    split; [exact Hb|]. split; [destruct l; [discriminate|discriminate]|].
    split; [apply nodupb_NoDup; exact Hnd0|]. apply orb_true_iff in Hfr. exact Hfr.
  Qed.

  Lemma samples_at_tell_many_at c b x l m x' :
    legal_flat_op c b (TellManyAt N x l m) = true ->
    samples_at x' (fst (tell_many_at tppf c b x l m)) =
    if n_eqb N x' x then fold_left (@add1 N) l (samples_at x b) else samples_at x' b.
  Proof.
    intros Hl. destruct (legal_batch_unpack c b x l m Hl) as [Hb [Hne [Hnd Hd]]].
    unfold tell_many_at. rewrite Hb. cbn [negb].
    destruct (find_pt x b) as [p|] eqn:E.
    - cbn [fst].
      pose proof (find_update x (fun _ q _ => pt_batch tppf c (batch_rest c q l) m q) x'
                              (fun _ q _ => batch_px tppf c (batch_rest c q l) m q) b None p E) as H.
      assert (Hd' : dedup c = true \/ fresh p l).
      { destruct Hd as [Hd|Hd]; [left; exact Hd|right; eapply fresh_at_spec; eauto]. }
      unfold samples_at at 1. destruct (n_eqb N x' x) eqn:E1.
      + destruct H as [_ [_ ->]].
        destruct (batch_rest_ok c p l Hnd Hd') as [Hn' Hf'].
        rewrite (samples_batch c _ m p Hn' Hf'), (batch_rest_is_filter c p l Hd').
        unfold samples_at. rewrite E. rewrite (fold_add1_nodup l (samples p) Hnd). reflexivity.
      + rewrite H. reflexivity.
    - destruct l as [|[seed y] rest]; [congruence|]. cbn [fst].
      assert (Hfi : find_pt x (insert_pt (pt_new N x seed y) b) = Some (pt_new N x seed y)).
      { rewrite (find_insert (pt_new N x seed y) b x) by exact E. cbn [px pt_new]. rewrite (eql_refl EL). reflexivity. }
      pose proof (find_update x (fun _ q _ => pt_batch tppf c rest m q) x'
                              (fun _ q _ => batch_px tppf c rest m q) _ None _ Hfi) as H.
      cbn [map fst] in Hnd. inversion Hnd as [|? ? Hk Hn']; subst.
      unfold samples_at at 1. destruct (n_eqb N x' x) eqn:E1.
      + destruct H as [_ [_ ->]].
        rewrite (samples_batch c rest m _ Hn').
        2:{ intros k Hk'. cbn. intros [<-|[]]. contradiction. }
        unfold samples_at. rewrite E. cbn [samples pt_new].
        rewrite (fold_add1_nodup ((seed, y) :: rest) []) by (cbn [map fst]; exact Hnd).
        cbn [app map]. symmetry. apply filter_id. intros; reflexivity.
      + rewrite H. rewrite (find_insert (pt_new N x seed y) b x') by exact E. cbn [px pt_new]. rewrite E1.
        reflexivity.
  Qed.

  (* ---------------- flat histories ---------------- *)
  Lemma run_cons c b (o : op N) (hh : list (op N)) : runF c b (o :: hh) = runF c (fst (stepF c b o)) hh.
  Proof. reflexivity. Qed.

  Lemma spec_run c (hh : list (op N)) : forall b, legal_flat tppf c b hh = true -> forall x,
    samples_at x (runF c b hh) = fold_left (spec_step x) hh (samples_at x b).
  Proof.
    induction hh as [|o hh IH]; intros b Hl x; [reflexivity|].
    cbn [legal_flat] in Hl. apply andb_true_iff in Hl as [Hl1 Hl2].
    rewrite run_cons, (IH _ Hl2 x). cbn [fold_left]. f_equal.
    destruct o as [n hint|seed x0 y|x0 l m|trip hs]; cbn [step fst spec_step].
    - reflexivity.
    - rewrite samples_at_tell. destruct (n_eqb N x x0) eqn:E; [|reflexivity].
      rewrite (samples_at_cong _ _ b E). reflexivity.
    - rewrite (samples_at_tell_many_at c b x0 l m x Hl1). destruct (n_eqb N x x0) eqn:E; [|reflexivity].
      rewrite (samples_at_cong _ _ b E). reflexivity.
    - discriminate.
  Qed.

  Lemma legal_flat_app c (h1 : list (op N)) : forall b (h2 : list (op N)),
    legal_flat tppf c b (h1 ++ h2) = legal_flat tppf c b h1 && legal_flat tppf c (runF c b h1) h2.
  Proof.
    induction h1 as [|o h1 IH]; intros b h2; [reflexivity|].
    cbn [app legal_flat]. rewrite IH, run_cons, andb_assoc. reflexivity.
  Qed.

  Lemma flat_legal c (hh : list (op N)) : forall b, legal tppf c b hh = true ->
    legal_flat tppf c b (flat hh) = true /\ runF c b (flat hh) = runF c b hh.
  Proof.
    induction hh as [|o hh IH]; intros b Hl; [split; reflexivity|].
    cbn [legal] in Hl. apply andb_true_iff in Hl as [Hl1 Hl2].
    unfold flat. cbn [flat_map]. fold (flat hh). rewrite legal_flat_app, run_app, run_cons.
    assert (H1 : legal_flat tppf c b (flat1 o) = true /\ runF c b (flat1 o) = fst (stepF c b o)).
    { destruct o as [n hint|seed x0 y|x0 l m|trip hs]; cbn [flat1 legal_flat legal_op] in *;
        try (rewrite Hl1; split; reflexivity).
      apply andb_true_iff in Hl1 as [Hb Hg]. split; [exact Hg|].
      rewrite (tell_many_expands tppf c b trip hs), Hb. reflexivity. }
    destruct H1 as [A B]. rewrite A, B. cbn [andb]. apply IH. exact Hl2.
  Qed.

  (* ================= C10: data exactness ================= *)
  (* along every legal history (C16's quantifier domain) the samples held at x
     are exactly the samples told at (an abscissa == to) x, each seed once with
     the value of its first tell, in order of first tell *)
  Theorem a1d_data_exact c h x :
    legal tppf c (init N) (base_ops h) = true ->
    samples_at x (base (preachF c h)) = spec_samples (flat (base_ops h)) x.
  Proof.
    intros Hl. unfold preach. rewrite base_run. cbn [pinit base].
    destruct (flat_legal c (base_ops h) (init N) Hl) as [A B].
    rewrite <- B. rewrite (spec_run c _ _ A x). reflexivity.
  Qed.

  (* ================= pending-set algebra with the laws ================= *)
  Lemma pmem_cong k k' P : keqb k k' = true -> pmem k P = pmem k' P.
  Proof.
    intros H. unfold pmem. induction P as [|q P IH]; cbn [existsb]; [reflexivity|].
    rewrite (keqb_cong _ _ q H), IH. reflexivity.
  Qed.

  Lemma pmem_padd k k' P : pmem k (padd k' P) = keqb k k' || pmem k P.
  Proof.
    unfold padd. destruct (pmem k' P) eqn:E.
    - destruct (keqb k k') eqn:E1; [|reflexivity]. rewrite (pmem_cong _ _ P E1), E. reflexivity.
    - unfold pmem. rewrite existsb_app. cbn [existsb]. rewrite orb_false_r. apply orb_comm.
  Qed.

  Lemma pmem_padd_all k ks : forall P, pmem k (padd_all ks P) = existsb (keqb k) ks || pmem k P.
  Proof.
    induction ks as [|k' ks IH]; intros P; cbn [padd_all fold_left existsb]; [reflexivity|].
    fold (padd_all ks (padd k' P)). rewrite IH, pmem_padd.
    destruct (keqb k k'), (existsb (keqb k) ks), (pmem k P); reflexivity.
  Qed.

  Lemma pmem_premove k k' P : pmem k (premove k' P) = negb (keqb k' k) && pmem k P.
  Proof.
    unfold pmem, premove. induction P as [|q P IH]; cbn [filter existsb]; [rewrite andb_false_r; reflexivity|].
    destruct (keqb k' q) eqn:E1; cbn [negb existsb].
    - rewrite IH. destruct (keqb k q) eqn:E2; cbn [orb]; [|reflexivity].
      rewrite keqb_sym in E2. rewrite (keqb_trans _ _ _ E1 E2). reflexivity.
    - rewrite IH. destruct (keqb k q) eqn:E2; cbn [orb]; [|reflexivity].
      destruct (keqb k' k) eqn:E3; [|reflexivity].
      rewrite (keqb_trans _ _ _ E3 E2) in E1. discriminate.
  Qed.

  Lemma pmem_premove_all k ks : forall P,
    pmem k (premove_all ks P) = negb (existsb (fun k' => keqb k' k) ks) && pmem k P.
  Proof.
    induction ks as [|k' ks IH]; intros P; cbn [premove_all fold_left existsb]; [reflexivity|].
    fold (premove_all ks (premove k' P)). rewrite IH, pmem_premove.
    destruct (keqb k' k), (existsb (fun k'0 => keqb k'0 k) ks), (pmem k P); reflexivity.
  Qed.

  Lemma existsb_keqb_sym k ks : existsb (fun k' => keqb k' k) ks = existsb (keqb k) ks.
  Proof. induction ks as [|k' ks IH]; cbn [existsb]; [reflexivity|]. rewrite IH, keqb_sym. reflexivity. Qed.

  Lemma existsb_keqb_In k ks : In k ks -> existsb (keqb k) ks = true.
  Proof. intros H. apply existsb_exists. exists k. split; [exact H|apply keqb_refl]. Qed.

  (* ================= which (seed, x) have a value ================= *)
  Lemma toldb_cong b k k' : keqb k k' = true -> toldb b k = toldb b k'.
  Proof.
    unfold keqb, toldb, seeds_at. intros H. apply andb_true_iff in H as [H1 H2]. apply Nat.eqb_eq in H1.
    rewrite H1, (samples_at_cong _ _ b H2). reflexivity.
  Qed.

  Lemma mem_add1 sd d seed y :
    nat_mem sd (map fst (add1 d (seed, y))) = nat_mem sd (map fst d) || (sd =? seed).
  Proof.
    unfold add1. cbn [fst]. destruct (nat_mem seed (map fst d)) eqn:E.
    - destruct (Nat.eqb_spec sd seed) as [->|_]; [rewrite E; reflexivity|rewrite orb_false_r; reflexivity].
    - rewrite map_app. cbn [map fst]. unfold nat_mem. rewrite existsb_app. cbn [existsb]. rewrite orb_false_r. reflexivity.
  Qed.

  Lemma mem_fold_add1 sd l : forall d,
    nat_mem sd (map fst (fold_left (@add1 N) l d)) = nat_mem sd (map fst d) || nat_mem sd (map fst l).
  Proof.
    induction l as [|[seed y] l IH]; intros d; cbn [fold_left map]; [rewrite orb_false_r; reflexivity|].
    rewrite IH, mem_add1. cbn [fst]. unfold nat_mem at 4. cbn [existsb]. fold (nat_mem sd (map fst l)).
    rewrite orb_assoc. reflexivity.
  Qed.

  Lemma existsb_keys_at k x l : existsb (keqb k) (keys_at x l) = n_eqb N (snd k) x && nat_mem (fst k) (map fst l).
  Proof.
    unfold keys_at, nat_mem. induction l as [|[seed y] l IH]; cbn [map existsb]; [rewrite andb_false_r; reflexivity|].
    rewrite IH. unfold keqb. cbn [fst snd]. destruct (fst k =? seed), (n_eqb N (snd k) x); reflexivity.
  Qed.

  Lemma toldb_step_flat c b (o : op N) k : legal_flat_op c b o = true ->
    toldb (fst (stepF c b o)) k = toldb b k || existsb (keqb k) (told_keys_op o).
  Proof.
    intros Hl. destruct o as [n hint|seed x0 y|x0 l m|trip hs]; cbn [step fst told_keys_op existsb].
    - rewrite orb_false_r. reflexivity.
    - rewrite orb_false_r. unfold toldb, seeds_at. rewrite samples_at_tell.
      unfold keqb. cbn [fst snd]. destruct (n_eqb N (snd k) x0) eqn:E.
      + rewrite mem_add1, (samples_at_cong _ _ b E), andb_true_r. reflexivity.
      + rewrite andb_false_r, orb_false_r. reflexivity.
    - unfold toldb, seeds_at. rewrite (samples_at_tell_many_at c b x0 l m (snd k) Hl), existsb_keys_at.
      destruct (n_eqb N (snd k) x0) eqn:E; cbn [andb].
      + rewrite mem_fold_add1, (samples_at_cong _ _ b E). reflexivity.
      + rewrite orb_false_r. reflexivity.
    - discriminate.
  Qed.

  Lemma toldb_run_flat c (hh : list (op N)) k : forall b, legal_flat tppf c b hh = true ->
    toldb (runF c b hh) k = toldb b k || existsb (keqb k) (flat_map (@told_keys_op N) hh).
  Proof.
    induction hh as [|o hh IH]; intros b Hl; [cbn; rewrite orb_false_r; reflexivity|].
    cbn [legal_flat] in Hl. apply andb_true_iff in Hl as [Hl1 Hl2].
    rewrite run_cons, (IH _ Hl2), (toldb_step_flat c b o k Hl1). cbn [flat_map].
    rewrite existsb_app, orb_assoc. reflexivity.
  Qed.

  (* exactly the told (seed, x) have a value *)
  Theorem a1d_told_exact c h k :
    legal tppf c (init N) (base_ops h) = true ->
    toldb (base (preachF c h)) k = existsb (keqb k) (flat_map (@told_keys_op N) (flat (base_ops h))).
  Proof.
    intros Hl. unfold preach. rewrite base_run. cbn [pinit base].
    destruct (flat_legal c (base_ops h) (init N) Hl) as [A B].
    rewrite <- B, (toldb_run_flat c _ k _ A). reflexivity.
  Qed.

  (* ---------------- the keys tell_many works on ---------------- *)
  Definition gkeys (g : list (num N * list (nat * num N))) : list (key N) :=
    flat_map (fun xm => keys_at (fst xm) (snd xm)) g.

  Lemma dict_set_keys sd v (dd : list (nat * num N)) sd' :
    In sd' (map fst (dict_set N sd v dd)) -> sd' = sd \/ In sd' (map fst dd).
  Proof.
    induction dd as [|[k0 v0] dd IH]; cbn [dict_set map fst In]; [intros [H|[]]; left; auto|].
    destruct (Nat.eqb_spec sd k0) as [->|_]; cbn [map fst In]; [intros [H|H]; auto|].
    intros [H|H]; [auto|]. destruct (IH H); auto.
  Qed.

  Lemma In_keys_at k x l : In k (keys_at x l) <-> snd k = x /\ In (fst k) (map fst l).
  Proof.
    unfold keys_at. split.
    - intros H. apply in_map_iff in H as [[sd y] [<- Hin]]. cbn [fst snd]. split; [reflexivity|].
      apply in_map_iff. exists (sd, y). auto.
    - intros [Hx Hin]. apply in_map_iff in Hin as [[sd y] [Hs Hin]]. apply in_map_iff. exists (sd, y). cbn [fst] in *.
      split; [destruct k; cbn [fst snd] in *; subst; reflexivity|exact Hin].
  Qed.

  Lemma gadd_keys x seed y g k :
    In k (gkeys (group_add N x seed y g)) -> In k (gkeys g) \/ keqb (seed, x) k = true.
  Proof.
    induction g as [|[x0 m0] g IH]; cbn [group_add].
    - unfold gkeys. cbn [flat_map fst snd keys_at map app In]. intros [<-|[]]. right. apply keqb_refl.
    - destruct (n_eqb N x x0) eqn:E.
      + unfold gkeys. cbn [flat_map fst snd]. rewrite !in_app_iff, !In_keys_at.
        intros [[Hx Hin]|H]; [|tauto].
        apply dict_set_keys in Hin as [Hs|Hin]; [|left; left; tauto].
        right. unfold keqb. cbn [fst snd]. rewrite Hs, Nat.eqb_refl, Hx. exact E.
      + unfold gkeys in *. cbn [flat_map fst snd]. rewrite !in_app_iff.
        intros [H|H]; [tauto|]. destruct (IH H); tauto.
  Qed.

  Lemma groups_fold_keys trip k : forall g0,
    In k (gkeys (fold_left (fun g e => group_add N (snd (fst e)) (fst (fst e)) (snd e) g) trip g0)) ->
    In k (gkeys g0) \/ exists k', In k' (keys_of trip) /\ keqb k' k = true.
  Proof.
    induction trip as [|[[sd x] y] trip IH]; intros g0 H; cbn [fold_left] in H; [left; exact H|].
    cbn [fst snd] in H. destruct (IH _ H) as [H1|[k' [H1 H2]]].
    - destruct (gadd_keys x sd y g0 k H1) as [H3|H3]; [left; exact H3|].
      right. exists (sd, x). split; [left; reflexivity|exact H3].
    - right. exists k'. split; [right; exact H1|exact H2].
  Qed.

  Lemma group_ops_keys g : forall hs k,
    In k (flat_map (@told_keys_op N) (group_ops N g hs)) -> In k (gkeys g).
  Proof.
    induction g as [|[x m0] g IH]; intros hs k; [cbn; tauto|].
    unfold gkeys. cbn [flat_map fst snd]. fold (gkeys g). rewrite in_app_iff.
    destruct m0 as [|[sd y] [|e m']]; cbn [group_ops].
    - destruct hs as [|hh hs']; [cbn; tauto|]. cbn [flat_map told_keys_op]. rewrite in_app_iff.
      intros [H|H]; [left; exact H|right; eapply IH; eauto].
    - cbn [flat_map told_keys_op]. rewrite in_app_iff. intros [H|H]; [left; exact H|right; eapply IH; eauto].
    - destruct hs as [|hh hs']; [cbn; tauto|]. cbn [flat_map told_keys_op]. rewrite in_app_iff.
      intros [H|H]; [left; exact H|right; eapply IH; eauto].
  Qed.

  Lemma tell_many_keys trip hs k :
    existsb (keqb k) (flat_map (@told_keys_op N) (group_ops N (groups N trip) hs)) = true ->
    existsb (fun k' => keqb k' k) (keys_of trip) = true.
  Proof.
    intros H. apply existsb_exists in H as [k1 [Hin He]].
    apply group_ops_keys in Hin. unfold groups in Hin.
    destruct (groups_fold_keys trip k1 [] Hin) as [[]|[k' [H1 H2]]].
    apply existsb_exists. exists k'. split; [exact H1|]. rewrite keqb_sym in He. eapply keqb_trans; eauto.
  Qed.

  (* ================= C10: data and pending are disjoint ================= *)
  Definition Disj s : Prop := forall k, pmem k (pend s) = true -> toldb (base s) k = false.

  Definition plegal_op c s o : bool :=
    match base_op o with bo :: _ => legal_op tppf c (base s) bo | [] => true end.

  (* with consecutive seeds at every abscissa, ask hands out only (seed, x) without a value *)
  Lemma ask_fresh b n hint k : consecb b = true -> In k (asked (ask b n hint)) -> toldb b k = false.
  Proof.
    intros Hc. unfold ask. destruct n as [|n]; [cbn; tauto|]. destruct hint as [|[k0 x] hint]; [cbn; tauto|].
    assert (Hmore : forall p, find_pt x b = Some p -> In k (more_samples p (S n)) -> toldb b k = false).
    { intros p Hf Hin. unfold more_samples in Hin. apply in_map_iff in Hin as [i [<- Hi]].
      unfold toldb, seeds_at, samples_at. cbn [fst snd].
      pose proof (find_pt_px _ _ _ Hf) as Hx. rewrite (eql_sym EL) in Hx.
      rewrite (find_pt_cong _ _ b Hx), Hf.
      unfold consecb in Hc. rewrite forallb_forall in Hc. specialize (Hc p (find_pt_In x b p Hf)).
      rewrite forallb_forall in Hc.
      destruct (nat_mem (i + pcount p) (map fst (samples p))) eqn:E; [|reflexivity].
      apply nat_mem_In in E. specialize (Hc _ E). apply Nat.ltb_lt in Hc. lia. }
    destruct (existsb (@under N) b).
    - destruct (find_pt x b) as [p|] eqn:Ef; [|cbn; tauto].
      destruct (under p); [|cbn; tauto]. cbn [asked]. apply Hmore. reflexivity.
    - destruct (find_pt x b) as [p|] eqn:Ef; cbn [asked]; [apply Hmore; reflexivity|].
      intros Hin. apply in_map_iff in Hin as [i [<- _]].
      unfold toldb, seeds_at, samples_at. cbn [fst snd]. rewrite Ef. reflexivity.
  Qed.

  Lemma disj_step c s o :
    Disj s -> polite_op s o = true -> plegal_op c s o = true ->
    (match o with PAsk _ true _ => consecb (base s) = true | _ => True end) ->
    Disj (fst (pstepF c s o)).
  Proof.
    intros HD Hp Hl Hc k. destruct o as [n cm hint|seed x y|x l m|trip hints|k0|]; cbn [pstep fst].
    - unfold pask. cbn [fst]. destruct cm; [|apply HD].
      rewrite fold_tell_pending_base, fold_tell_pending_pend, pmem_padd_all. intros H.
      apply orb_true_iff in H as [H|H]; [|apply HD; exact H].
      apply existsb_exists in H as [k' [Hin He]]. rewrite (toldb_cong _ _ _ He).
      eapply ask_fresh; eauto.
    - cbn [base pend]. rewrite pmem_premove. intros H. apply andb_true_iff in H as [H1 H2].
      apply negb_true_iff in H1. cbn [plegal_op base_op] in Hl.
      pose proof (toldb_step_flat c (base s) (Tell N seed x y) k Hl) as Ht. cbn [step fst told_keys_op existsb] in Ht.
      rewrite Ht, (HD k H2), orb_false_r, keqb_sym, H1. reflexivity.
    - cbn [base pend]. cbn [plegal_op base_op] in Hl.
      destruct (legal_batch_unpack c (base s) x l m Hl) as [Hb _]. rewrite Hb, pmem_premove_all.
      intros H. apply andb_true_iff in H as [H1 H2]. apply negb_true_iff in H1.
      pose proof (toldb_step_flat c (base s) (TellManyAt N x l m) k Hl) as Ht. cbn [step fst told_keys_op] in Ht.
      rewrite Ht, (HD k H2), <- existsb_keqb_sym, H1. reflexivity.
    - cbn [base pend]. cbn [plegal_op base_op legal_op] in Hl. apply andb_true_iff in Hl as [Hb Hg].
      rewrite Hb, pmem_premove_all. intros H. apply andb_true_iff in H as [H1 H2]. apply negb_true_iff in H1.
      change (tell_many tppf c (base s) trip hints) with (stepF c (base s) (TellMany N trip hints)).
      rewrite (tell_many_expands tppf c (base s) trip hints), Hb. cbn [fst].
      rewrite (toldb_run_flat c _ k _ Hg), (HD k H2). cbn [orb].
      destruct (existsb (keqb k) _) eqn:E; [|reflexivity].
      rewrite (tell_many_keys trip hints k E) in H1. discriminate.
    - cbn [tell_pending base pend]. rewrite pmem_padd. cbn [polite_op] in Hp. apply negb_true_iff in Hp.
      intros H. apply orb_true_iff in H as [H|H]; [|apply HD; exact H].
      rewrite (toldb_cong _ _ _ H). exact Hp.
    - cbn [pend pmem existsb]. discriminate.
  Qed.

  Fixpoint plegal c s h : bool :=
    match h with
    | [] => true
    | o :: h' => plegal_op c s o && plegal c (fst (pstepF c s o)) h'
    end.

  Lemma disj_run c h : forall s, Disj s -> polite tppf c s h = true -> plegal c s h = true ->
    consec_at_asks tppf c s h = true -> Disj (prunF c s h).
  Proof.
    induction h as [|o h IH]; intros s HD Hp Hl Hc; [exact HD|].
    cbn [polite plegal consec_at_asks] in *.
    apply andb_true_iff in Hp as [Hp1 Hp2]. apply andb_true_iff in Hl as [Hl1 Hl2].
    apply andb_true_iff in Hc as [Hc1 Hc2].
    rewrite prun_cons. apply IH; try assumption. apply disj_step; try assumption.
    destruct o as [n [|] hint| | | | |]; try exact I. exact Hc1.
  Qed.

  Lemma plegal_legal c h : forall s, plegal c s h = legal tppf c (base s) (base_ops h).
  Proof.
    induction h as [|o h IH]; intros s; [reflexivity|].
    cbn [plegal]. rewrite IH, base_step. unfold base_ops. cbn [flat_map]. fold (base_ops h).
    unfold plegal_op.
    destruct o as [n cm hint|seed x y|x l m|trip hints|k0|]; cbn [base_op app legal run fold_left]; try reflexivity.
  Qed.

  (* the history-level statement: legal (C16's domain), tell_pending only of
     (seed, x) without a value, and consecutive seeds at every abscissa whenever
     a committing ask is made (the hypothesis that excludes finding C10:F22) *)
  Theorem a1d_data_pending_disjoint c h :
    legal tppf c (init N) (base_ops h) = true -> polite tppf c (pinit N) h = true ->
    consec_at_asks tppf c (pinit N) h = true ->
    forall k, pmem k (pend (preachF c h)) = true -> toldb (base (preachF c h)) k = false.
  Proof.
    intros Hl Hp Hc. apply disj_run; try assumption.
    - intros k Hk. cbn in Hk. discriminate.
    - rewrite plegal_legal. exact Hl.
  Qed.

  (* ================= C10: asked is pending until told or discarded ================= *)
  Definition keeps k o : bool :=
    match o with
    | PRemoveUnfinished => false
    | PTell seed x _ => negb (keqb (seed, x) k)
    | PTellManyAt x l _ => negb (existsb (fun k' => keqb k' k) (keys_at x l))
    | PTellMany trip _ => negb (existsb (fun k' => keqb k' k) (keys_of trip))
    | _ => true
    end.

  Lemma pend_step_keeps c s o k : keeps k o = true -> pmem k (pend s) = true -> pmem k (pend (fst (pstepF c s o))) = true.
  Proof.
    intros Hk Hp. destruct o as [n cm hint|seed x y|x l m|trip hints|k0|]; cbn [pstep fst keeps] in *.
    - unfold pask. cbn [fst]. destruct cm; [|exact Hp].
      rewrite fold_tell_pending_pend, pmem_padd_all, Hp. apply orb_true_r.
    - cbn [pend]. rewrite pmem_premove, Hk, Hp. reflexivity.
    - cbn [pend]. destruct (in_bounds c x); [|exact Hp]. rewrite pmem_premove_all, Hk, Hp. reflexivity.
    - cbn [pend]. destruct (forallb _ trip); [|exact Hp]. rewrite pmem_premove_all, Hk, Hp. reflexivity.
    - cbn [tell_pending pend]. rewrite pmem_padd, Hp. apply orb_true_r.
    - discriminate.
  Qed.

  Lemma pend_run_keeps c h k : forall s, forallb (keeps k) h = true -> pmem k (pend s) = true ->
    pmem k (pend (prunF c s h)) = true.
  Proof.
    induction h as [|o h IH]; intros s Hh Hp; [exact Hp|].
    cbn [forallb] in Hh. apply andb_true_iff in Hh as [H1 H2].
    rewrite prun_cons. apply IH; [exact H2|]. apply pend_step_keeps; assumption.
  Qed.

  Theorem a1d_asked_is_pending c s n hint h k :
    In k (asked (snd (pstepF c s (PAsk n true hint)))) -> forallb (keeps k) h = true ->
    pmem k (pend (prunF c (fst (pstepF c s (PAsk n true hint))) h)) = true.
  Proof.
    intros Hin Hh. apply pend_run_keeps; [exact Hh|].
    cbn [pstep pask fst snd] in *. rewrite fold_tell_pending_pend, pmem_padd_all.
    rewrite (existsb_keqb_In _ _ Hin). reflexivity.
  Qed.

  (* ================= C10: the sample count = number of distinct told (seed, x) ================= *)
  Definition total b : nat := list_sum (map (fun p => length (samples p)) b).

  Lemma total_cons q b : total (q :: b) = length (samples q) + total b.
  Proof. reflexivity. Qed.

  Lemma total_insert p b : total (insert_pt p b) = length (samples p) + total b.
  Proof.
    induction b as [|q b IH]; cbn [insert_pt]; [reflexivity|].
    destruct (n_ltb N (px p) (px q)); [reflexivity|]. rewrite !total_cons, IH. lia.
  Qed.

  Lemma total_update x (f : option (pt N) -> pt N -> option (pt N) -> pt N) dlt : forall b prev p,
    find_pt x b = Some p -> (forall a a', length (samples (f a p a')) = length (samples p) + dlt) ->
    total (update_pt x f prev b) = total b + dlt.
  Proof.
    induction b as [|q b IH]; intros prev p; cbn [find_pt update_pt]; [discriminate|].
    destruct (n_eqb N x (px q)).
    - intros H Hf. inversion H; subst q. rewrite !total_cons, Hf. lia.
    - intros H Hf. rewrite !total_cons, (IH _ _ H Hf). lia.
  Qed.

  Lemma total_tell c b seed x y :
    total (tell tppf c b seed x y) = total b + (if toldb b (seed, x) then 0 else 1).
  Proof.
    unfold tell, toldb, seeds_at, samples_at. cbn [fst snd]. destruct (find_pt x b) as [p|] eqn:E.
    - apply (total_update x _ _ b None p E). intros a a'. unfold pt_resample, seeds.
      destruct (nat_mem seed (map fst (samples p))); cbn [samples]; [lia|]. rewrite app_length. reflexivity.
    - rewrite total_insert. cbn. lia.
  Qed.

  Definition newseeds b x l : list (nat * num N) :=
    filter (fun sy => negb (toldb b (fst sy, x))) l.

  Lemma total_tell_many_at c b x l m :
    legal_flat_op c b (TellManyAt N x l m) = true ->
    total (fst (tell_many_at tppf c b x l m)) = total b + length (newseeds b x l).
  Proof.
    intros Hl. destruct (legal_batch_unpack c b x l m Hl) as [Hb [Hne [Hnd Hd]]].
    unfold tell_many_at, newseeds, toldb, seeds_at, samples_at. rewrite Hb. cbn [negb fst snd].
    destruct (find_pt x b) as [p|] eqn:E.
    - cbn [fst].
      assert (Hd' : dedup c = true \/ fresh p l).
      { destruct Hd as [Hd|Hd]; [left; exact Hd|right; eapply fresh_at_spec; eauto]. }
      destruct (batch_rest_ok c p l Hnd Hd') as [Hn' Hf'].
      apply (total_update x _ _ b None p E). intros a a'.
      rewrite (samples_batch c _ m p Hn' Hf'), app_length, (batch_rest_is_filter c p l Hd'). reflexivity.
    - destruct l as [|[seed y] rest]; [congruence|]. cbn [fst].
      assert (Hfi : find_pt x (insert_pt (pt_new N x seed y) b) = Some (pt_new N x seed y)).
      { rewrite (find_insert (pt_new N x seed y) b x) by exact E. cbn [px pt_new]. rewrite (eql_refl EL). reflexivity. }
      cbn [map fst] in Hnd. inversion Hnd as [|? ? Hk Hn']; subst.
      rewrite (total_update x _ (length rest) _ None _ Hfi).
      + rewrite total_insert. cbn [samples pt_new length map nat_mem existsb negb filter].
        rewrite (filter_id _ rest) by (intros; reflexivity). lia.
      + intros a a'. rewrite (samples_batch c rest m _ Hn'); [rewrite app_length; reflexivity|].
        intros k Hk'. cbn. intros [<-|[]]. contradiction.
  Qed.

  Lemma length_padd k P : length (padd k P) = length P + (if pmem k P then 0 else 1).
  Proof. unfold padd. destruct (pmem k P); [lia|]. rewrite app_length. reflexivity. Qed.

  Lemma length_padd_keys_at x l : forall P, NoDup (map fst l) ->
    length (padd_all (keys_at x l) P) = length P + length (filter (fun sy => negb (pmem (fst sy, x) P)) l).
  Proof.
    induction l as [|[sd y] l IH]; intros P Hn; [cbn; lia|].
    cbn [map fst] in Hn. inversion Hn as [|? ? Hk Hn']; subst.
    cbn [keys_at map padd_all fold_left fst filter]. fold (keys_at x l). fold (padd_all (keys_at x l) (padd (sd, x) P)).
    rewrite (IH _ Hn'), length_padd.
    replace (filter (fun sy => negb (pmem (fst sy, x) (padd (sd, x) P))) l)
      with (filter (fun sy => negb (pmem (fst sy, x) P)) l).
    2:{ apply filter_ext_in. intros [s' y'] Hin. cbn [fst]. f_equal. rewrite pmem_padd.
        unfold keqb at 1. cbn [fst snd].
        destruct (Nat.eqb_spec s' sd) as [->|_]; [|reflexivity].
        exfalso. apply Hk. apply in_map_iff. exists (sd, y'). auto. }
    destruct (pmem (sd, x) P); cbn [negb length]; lia.
  Qed.

  (* [acc] = the distinct keys told so far *)
  Definition CInv (acc : list (key N)) b : Prop :=
    (forall k, pmem k acc = toldb b k) /\ total b = length acc.

  Lemma cinv_step c b (o : op N) acc : legal_flat_op c b o = true -> CInv acc b ->
    CInv (padd_all (told_keys_op o) acc) (fst (stepF c b o)).
  Proof.
    intros Hl [H1 H2]. split.
    - intros k. rewrite pmem_padd_all, (toldb_step_flat c b o k Hl), H1. apply orb_comm.
    - destruct o as [n hint|seed x0 y|x0 l m|trip hs]; cbn [step fst told_keys_op padd_all fold_left].
      + exact H2.
      + rewrite total_tell, length_padd, H1, H2. reflexivity.
      + destruct (legal_batch_unpack c b x0 l m Hl) as [_ [_ [Hnd _]]].
        fold (padd_all (keys_at x0 l) acc).
        rewrite (total_tell_many_at c b x0 l m Hl), (length_padd_keys_at x0 l acc Hnd), H2. f_equal.
        unfold newseeds. f_equal. apply filter_ext. intros sy. rewrite H1. reflexivity.
      + discriminate.
  Qed.

  Lemma padd_all_app ks1 ks2 (P : list (key N)) : padd_all (ks1 ++ ks2) P = padd_all ks2 (padd_all ks1 P).
  Proof. unfold padd_all. apply fold_left_app. Qed.

  Lemma cinv_run c (hh : list (op N)) : forall b acc, legal_flat tppf c b hh = true -> CInv acc b ->
    CInv (padd_all (flat_map (@told_keys_op N) hh) acc) (runF c b hh).
  Proof.
    induction hh as [|o hh IH]; intros b acc Hl HC; [exact HC|].
    cbn [legal_flat] in Hl. apply andb_true_iff in Hl as [Hl1 Hl2].
    cbn [flat_map]. rewrite padd_all_app, run_cons. apply IH; [exact Hl2|]. apply cinv_step; assumption.
  Qed.

  Lemma nsamples_total c b : Forall (G c) b -> nsamples b = total b.
  Proof.
    induction 1 as [|p b [Hp _] _ IH]; [reflexivity|].
    rewrite total_cons, <- IH, <- Hp. reflexivity.
  Qed.

  (* nsamples (= sum of _number_samples) is the number of distinct told (seed, x) *)
  Theorem a1d_nsamples c h :
    legal tppf c (init N) (base_ops h) = true ->
    nsamples (base (preachF c h)) = length (told_set (flat (base_ops h))) /\
    (forall k, pmem k (told_set (flat (base_ops h))) = existsb (keqb k) (flat_map (@told_keys_op N) (flat (base_ops h)))).
  Proof.
    intros Hl. split.
    - assert (Hb : base (preachF c h) = reach tppf c (base_ops h)).
      { unfold preach. rewrite base_run. reflexivity. }
      rewrite Hb, (nsamples_total c _ (G_reach tppf c (base_ops h) Hl)).
      destruct (flat_legal c (base_ops h) (init N) Hl) as [A B]. unfold reach. rewrite <- B.
      assert (HC : CInv [] (init N)) by (split; [intros k; reflexivity|reflexivity]).
      destruct (cinv_run c _ _ _ A HC) as [_ H2]. exact H2.
    - intros k. unfold told_set. rewrite pmem_padd_all. cbn [pmem existsb]. apply orb_false_r.
  Qed.

  (* an abscissa is in data iff a sample was told at (an abscissa == to) it *)
  Theorem a1d_abscissae_exact c h x :
    legal tppf c (init N) (base_ops h) = true ->
    (find_pt x (base (preachF c h)) <> None <->
     exists k, In k (flat_map (@told_keys_op N) (flat (base_ops h))) /\ n_eqb N x (snd k) = true).
  Proof.
    intros Hl. split.
    - destruct (find_pt x (base (preachF c h))) as [p|] eqn:E; [intros _|congruence].
      assert (Hb : base (preachF c h) = reach tppf c (base_ops h)) by (unfold preach; rewrite base_run; reflexivity).
      pose proof (G_reach tppf c (base_ops h) Hl) as HG. rewrite <- Hb in HG. rewrite Forall_forall in HG.
      destruct (HG p (find_pt_In x _ p E)) as [H1 [_ [H3 _]]].
      destruct (samples p) as [|[sd y] rest] eqn:Es; [cbn in H1; lia|].
      assert (Ht : toldb (base (preachF c h)) (sd, x) = true).
      { unfold toldb, seeds_at, samples_at. cbn [fst snd]. rewrite E, Es. cbn. rewrite Nat.eqb_refl. reflexivity. }
      rewrite (a1d_told_exact c h (sd, x) Hl) in Ht. apply existsb_exists in Ht as [k [Hin He]].
      exists k. split; [exact Hin|]. unfold keqb in He. apply andb_true_iff in He as [_ He]. exact He.
    - intros [[sd x0] [Hin He]]. cbn [snd] in He.
      assert (Ht : toldb (base (preachF c h)) (sd, x) = true).
      { rewrite (a1d_told_exact c h (sd, x) Hl). apply existsb_exists. exists (sd, x0). split; [exact Hin|].
        unfold keqb. cbn [fst snd]. rewrite Nat.eqb_refl. exact He. }
      unfold toldb, seeds_at, samples_at in Ht. cbn [fst snd] in Ht.
      destruct (find_pt x (base (preachF c h))); [discriminate|]. cbn in Ht. discriminate.
  Qed.
End B1D.
Arguments Disj {N} s.
Arguments keeps {N} k o.
Arguments gkeys {N} g.

(* ====================================================================== *)
(* the integers satisfy the laws; closed examples / witnesses *)
From Coq Require Import ZArith.
From AV Require Proofs.BookkeepingAvg.
Notation ZOps := BookkeepingAvg.ZOps.

Lemma ZOps_eqlaws : EqLaws ZOps.
Proof.
  split; cbn [n_eqb ZOps num].
  - apply Z.eqb_refl.
  - apply Z.eqb_sym.
  - intros x y z H1 H2. apply Z.eqb_eq in H1, H2. apply Z.eqb_eq. congruence.
Qed.

(* Finding C10:F22 on the model: after samples with the non-consecutive seeds
   0 and 2 at x = 5 (count 2) a committing ask(1) returns (2, 5) -- seed
   = count -- which already has a value, and marks it pending. *)
Lemma a1d_commit_hands_out_told_pf :
  exists (c : cfg ZOps) (h : list (pop ZOps)) (k : key ZOps),
    let t : nat -> num ZOps := fun _ : nat => 1%Z in
    legal t c (init ZOps) (base_ops h) = true /\ polite t c (pinit ZOps) h = true /\
    consec_at_asks t c (pinit ZOps) h = false /\
    pmem k (pend (preach t c h)) = true /\ toldb (base (preach t c h)) k = true.
Proof.
  exists (mkcfg ZOps (-10)%Z 10%Z 2 1%Z true),
         [@PTell ZOps 0 5%Z 1%Z; @PTell ZOps 2 5%Z 3%Z; @PAsk ZOps 1 true [(0, 5%Z)]], ((2, 5%Z) : key ZOps).
  vm_compute. repeat split.
Qed.
