(* Bookkeeping lemmas for properties C09 / C10 about Model/DataSaver.v
   (DataSaver), GENERIC in the wrapped learner [L : Learner]: each clause of
   the wrapper follows from the same clause of the child (hypotheses are stated
   pointwise, at the child state in question, so they can be discharged by the
   child's own C09 / C10 theorem for reachable states).  Axiom-free.

   data, pending_points, npoints are not attributes of DataSaver: __getattr__
   forwards them to the child ([getattr]); loss is the child's.  The wrapper's
   own record is extra_data (an OrderedDict: last full result per point). *)
From AV Require Import Base.Prelude Model.GenericLearner Model.DataSaver Proofs.DataSaverProofs.

Section DS.
  Variable L : Learner.
  Variable R : Type.
  Variable pick : R -> value L.
  Implicit Types (s : dst L R) (k : state L) (x : point L) (e : list (point L * R)) (h : list (op L R)).

  Notation dtell := (DataSaver.tell pick).
  Notation dtell_pending := (@DataSaver.tell_pending L R).
  Notation dask := (@DataSaver.ask L R).
  Notation dremove := (@DataSaver.remove_unfinished L R).
  Notation dloss := (@DataSaver.loss L R).
  Notation dmk := (@DataSaver.mk L R).

  Lemma dst_eta s : dmk (child s) (extra s) = s.
  Proof. destruct s; reflexivity. Qed.

  (* ================= C09 ================= *)
  (* if the child's non-committing ask leaves the child unchanged, so does the wrapper's *)
  Theorem ds_ask_noop s n :
    snd (GenericLearner.ask L (child s) n false) = child s ->
    snd (dask s n false) = s /\
    fst (dask s n false) = fst (GenericLearner.ask L (child s) n false) /\
    (forall h, run pick (snd (dask s n false)) h = run pick s h) /\
    (forall real, dloss (snd (dask s n false)) real = dloss s real) /\
    fst (dask (snd (dask s n false)) n false) = fst (dask s n false).
  Proof.
    intros H. assert (E : snd (dask s n false) = s).
    { unfold ask. destruct (GenericLearner.ask L (child s) n false) as [a k] eqn:Ea. cbn [snd] in *. subst k. apply dst_eta. }
    rewrite E. repeat split. unfold ask. destruct (GenericLearner.ask L (child s) n false); reflexivity.
  Qed.

  Lemma fold_dtell_pending pts : forall k e,
    fold_left dtell_pending pts (dmk k e) = dmk (fold_left (GenericLearner.tell_pending L) pts k) e.
  Proof. induction pts as [|p pts IH]; intros k e; cbn [fold_left]; [reflexivity|]. apply IH. Qed.

  (* if the child's committing ask is its non-committing ask followed by
     tell_pending of each point, so is the wrapper's *)
  Theorem ds_ask_commit s n :
    fst (GenericLearner.ask L (child s) n true) = fst (GenericLearner.ask L (child s) n false) ->
    snd (GenericLearner.ask L (child s) n true) =
      fold_left (GenericLearner.tell_pending L) (fst (fst (GenericLearner.ask L (child s) n false)))
                (snd (GenericLearner.ask L (child s) n false)) ->
    fst (dask s n true) = fst (dask s n false) /\
    snd (dask s n true) = fold_left dtell_pending (fst (fst (dask s n false))) (snd (dask s n false)).
  Proof.
    intros H1 H2. unfold ask.
    destruct (GenericLearner.ask L (child s) n true) as [a1 k1].
    destruct (GenericLearner.ask L (child s) n false) as [a0 k0]. cbn [fst snd] in *. subst a1 k1.
    split; [reflexivity|]. rewrite fold_dtell_pending. reflexivity.
  Qed.

  (* ================= C10 ================= *)
  (* everything the property observes of a DataSaver -- data, pending_points,
     npoints, both losses -- is what the unwrapped learner shows after the same
     history with the picked values (so every C10 clause about them that holds of
     the child along that history holds of the wrapper) *)
  Theorem ds_observables_are_childs h k :
    let s := run pick (DataSaver.init L R k) h in
    let kc := lrun k (flat_map (pick_ops pick) h) in
    getattr (data L) s = data L kc /\ getattr (pending L) s = pending L kc /\
    getattr (npoints L) s = npoints L kc /\ (forall real, dloss s real = GenericLearner.loss L kc real).
  Proof.
    cbv zeta. destruct (bisimulation pick h (DataSaver.init L R k)) as [Hc _]. cbn [child DataSaver.init] in Hc.
    unfold getattr, DataSaver.loss. rewrite Hc. repeat split.
  Qed.

  (* post-condition of tell *)
  Theorem ds_told_not_pending s x r :
    ~ In x (pending L (GenericLearner.tell L (child s) x (pick r))) ->
    ~ In x (getattr (pending L) (dtell s x r)).
  Proof. intros H. exact H. Qed.

  (* a committing ask leaves its points pending whenever the child's does *)
  Theorem ds_asked_is_pending s n p :
    (In p (fst (fst (GenericLearner.ask L (child s) n true))) -> In p (pending L (snd (GenericLearner.ask L (child s) n true)))) ->
    In p (fst (fst (dask s n true))) -> In p (getattr (pending L) (snd (dask s n true))).
  Proof.
    unfold ask, getattr. destruct (GenericLearner.ask L (child s) n true) as [a k1]. cbn [fst snd child]. auto.
  Qed.

  (* extra_data holds exactly the told points, each with the full result told LAST *)
  Theorem ds_extra_exact : PointLaws L -> forall h k x,
    alookup L x (extra (run pick (DataSaver.init L R k) h)) = last_told x h /\
    ((exists r, alookup L x (extra (run pick (DataSaver.init L R k) h)) = Some r) <->
     (exists x' r, In (x', r) (tolds h) /\ peqb L x' x = true)).
  Proof. intros PL h k x. split; [apply (extra_data_value pick PL)|apply (extra_data_keys pick PL)]. Qed.

  (* re-tell: same full result for a point whose child ignores / accepts the
     re-tell without change -> nothing changes at all *)
  Lemma aset_same x (r : R) e : alookup L x e = Some r -> aset L x r e = e.
  Proof.
    induction e as [|[x0 r0] e IH]; cbn [alookup aset]; [discriminate|].
    destruct (peqb L x0 x); [intros H; inversion H; reflexivity|intros H; rewrite (IH H); reflexivity].
  Qed.

  Theorem ds_retell_noop s x r :
    GenericLearner.tell L (child s) x (pick r) = child s -> alookup L x (extra s) = Some r ->
    dtell s x r = s.
  Proof. intros H1 H2. unfold tell. rewrite H1, (aset_same _ _ _ H2). apply dst_eta. Qed.

  (* a re-tell with ANOTHER full result always replaces extra_data[x], also when
     the child keeps its first value: finding C10:F20 *)
  Theorem ds_retell_overwrites_extra : PointLaws L -> forall s x r',
    alookup L x (extra (dtell s x r')) = Some r'.
  Proof. intros PL s x r'. cbn [tell extra]. rewrite (alookup_aset PL). rewrite (peq_refl PL). reflexivity. Qed.

  (* discard *)
  Theorem ds_discard s :
    pending L (GenericLearner.remove_unfinished L (child s)) = [] ->
    data L (GenericLearner.remove_unfinished L (child s)) = data L (child s) ->
    GenericLearner.loss L (GenericLearner.remove_unfinished L (child s)) false = GenericLearner.loss L (GenericLearner.remove_unfinished L (child s)) true ->
    getattr (pending L) (dremove s) = [] /\ getattr (data L) (dremove s) = getattr (data L) s /\
    extra (dremove s) = extra s /\ dloss (dremove s) false = dloss (dremove s) true.
  Proof. intros H1 H2 H3. repeat split; assumption. Qed.
End DS.

(* ---------------------------------------------------------------------- *)
(* A small child that keeps the FIRST value of a point (like Learner1D,
   LearnerND, the averaging learners): witness for finding C10:F20 and
   instance showing that the hypotheses above are satisfiable. *)
Module KeepFirst.
  Record kst := mk { known : list (nat * nat); pend : list nat }.
  Definition has (s : kst) (x : nat) : bool := existsb (Nat.eqb x) (map fst (known s)).
  Definition k_tell (s : kst) (x y : nat) : kst :=
    if has s x then s else mk (known s ++ [(x, y)]) (filter (fun p => negb (Nat.eqb p x)) (pend s)).
  Definition k_tell_pending (s : kst) (x : nat) : kst :=
    if existsb (Nat.eqb x) (pend s) then s else mk (known s) (pend s ++ [x]).
  Definition next (s : kst) (n : nat) : list nat :=
    firstn n (filter (fun x => negb (has s x) && negb (existsb (Nat.eqb x) (pend s)))
                     (seq 0 (length (known s) + length (pend s) + n))).
  Definition learner : Learner :=
    @mkLearner kst nat nat nat (list (nat * nat)) Nat.eqb Nat.ltb Nat.eqb 1000
      (fun s n commit => ((next s n, map (fun _ => 1) (next s n)),
                          if commit then fold_left k_tell_pending (next s n) s else s))
      k_tell k_tell_pending
      (fun s => mk (known s) [])
      (fun s real => 10 - length (known s) - (if real then 0 else length (pend s)))
      (fun s => length (known s))
      known pend
      (fun old cur => old)
      known
      (fun s b => mk b (pend s)).
  Definition init : kst := mk [] [].
End KeepFirst.

(* F20 on the model: tell(3, (7, "a")); tell(3, (9, "b")): the child keeps 7,
   extra_data[3] says (9, "b") -- extra_data no longer belongs to data *)
Lemma ds_extra_overwritten_pf :
  let KL := KeepFirst.learner in
  let pick : nat * nat -> value KL := fun r : nat * nat => fst r in
  let s := run pick (DataSaver.init KL (nat * nat) KeepFirst.init)
               [@Tell KL (nat * nat) 3 (7, 1); @Tell KL (nat * nat) 3 (9, 2)] in
  getattr (data KL) s = [(3, 7)] /\ alookup KL 3 (extra s) = Some (9, 2).
Proof. vm_compute. split; reflexivity. Qed.
