(* Proofs about Model/SaveFS.v: for every environment (every fault plan and
   crash point), every chunking, every initial file system. *)
From Coq Require Import String Ascii.
From AV Require Import Base.Prelude Model.SaveFS.

(* ------------------------------------------------------------------ *)
(* association lists *)
Lemma alookup_aset_same p b l : alookup p (aset p b l) = Some b.
Proof.
  induction l as [|[q c] l IH]; cbn [aset alookup].
  - now rewrite String.eqb_refl.
  - destruct (String.eqb_spec p q) as [->|Hn]; cbn [alookup].
    + now rewrite String.eqb_refl.
    + destruct (String.eqb_spec p q); [contradiction|exact IH].
Qed.

Lemma alookup_aset_other p q b l : p <> q -> alookup p (aset q b l) = alookup p l.
Proof.
  intros Hpq. induction l as [|[r c] l IH]; cbn [aset alookup].
  - destruct (String.eqb_spec p q); [contradiction|reflexivity].
  - destruct (String.eqb_spec q r) as [->|Hn]; cbn [alookup].
    + destruct (String.eqb_spec p r); [contradiction|reflexivity].
    + destruct (String.eqb_spec p r); [reflexivity|exact IH].
Qed.

Lemma alookup_adel_same p l : alookup p (adel p l) = None.
Proof.
  induction l as [|[q c] l IH]; cbn [adel alookup]; [reflexivity|].
  destruct (String.eqb_spec p q) as [->|Hn]; [exact IH|].
  cbn [alookup]. destruct (String.eqb_spec p q); [contradiction|exact IH].
Qed.

Lemma alookup_adel_other p q l : p <> q -> alookup p (adel q l) = alookup p l.
Proof.
  intros Hpq. induction l as [|[r c] l IH]; cbn [adel alookup]; [reflexivity|].
  destruct (String.eqb_spec q r) as [->|Hn].
  - destruct (String.eqb_spec p r); [contradiction|exact IH].
  - cbn [alookup]. destruct (String.eqb_spec p r); [reflexivity|exact IH].
Qed.

(* file-system operations *)
Lemma lookup_set_same p b s : lookup p (set_file p b s) = Some b.
Proof. apply alookup_aset_same. Qed.
Lemma lookup_set_other p q b s : p <> q -> lookup p (set_file q b s) = lookup p s.
Proof. apply alookup_aset_other. Qed.
Lemma lookup_del_same p s : lookup p (del_file p s) = None.
Proof. apply alookup_adel_same. Qed.
Lemma lookup_del_other p q s : p <> q -> lookup p (del_file q s) = lookup p s.
Proof. apply alookup_adel_other. Qed.
Lemma lookup_add_dir p d s : lookup p (add_dir d s) = lookup p s.
Proof. unfold add_dir. destruct (is_dir d s); reflexivity. Qed.
Lemma is_dir_add_dir d s : is_dir d (add_dir d s) = true.
Proof.
  unfold add_dir. destruct (is_dir d s) eqn:E; [exact E|].
  unfold is_dir; cbn [dirs]. rewrite existsb_app. cbn [existsb].
  rewrite String.eqb_refl. now rewrite orb_true_r.
Qed.
Lemma lookup_makedirs p d s : lookup p (makedirs d s) = lookup p s.
Proof.
  unfold makedirs. rewrite lookup_add_dir.
  generalize (proper_ancestors (String.length d) d) as l. intros l; revert s.
  induction l as [|a l IH]; intros s; cbn [fold_left]; [reflexivity|].
  rewrite IH. apply lookup_add_dir.
Qed.
Lemma is_dir_makedirs d s : is_dir d (makedirs d s) = true.
Proof. apply is_dir_add_dir. Qed.
Lemma lookup_append_other p q d s : p <> q -> lookup p (append_file q d s) = lookup p s.
Proof.
  intros H. unfold append_file. destruct (lookup q s); [|reflexivity].
  now apply lookup_set_other.
Qed.
Lemma lookup_append_same p d s b : lookup p s = Some b -> lookup p (append_file p d s) = Some (b ++ d).
Proof. intros H. unfold append_file. rewrite H. apply lookup_set_same. Qed.

Lemma tmp_name_neq fname pid : tmp_name fname pid <> fname.
Proof.
  unfold tmp_name. induction fname as [|c f IH]; cbn [String.append].
  - discriminate.
  - intros H. inversion H. contradiction.
Qed.

Lemma failed_sc_failed sc tr : failed_sc sc tr = true -> failed tr = true.
Proof.
  unfold failed_sc, failed. induction tr as [|ev tr IH]; cbn [existsb]; [discriminate|].
  rewrite !orb_true_iff, andb_true_iff. intros [[H _]|H]; [now left|right; auto].
Qed.

Arguments lookup : simpl never.
Arguments set_file : simpl never.
Arguments del_file : simpl never.
Arguments append_file : simpl never.
Arguments makedirs : simpl never.
Arguments add_dir : simpl never.
Arguments is_dir : simpl never.
Arguments firstn : simpl never.

(* ------------------------------------------------------------------ *)
Section SaveSpec.
  Variable e : env.
  Variable dir : option path.
  Variables dst tmp : path.
  Hypothesis Hneq : tmp <> dst.
  Implicit Types (s : fs) (tr : list event) (chunks : list bytes).

  Let Hneq' : dst <> tmp. Proof. intros H; apply Hneq; now symmetry. Qed.

  (* the write loop only touches the temp file; when it completes, the temp
     file holds everything *)
  Lemma write_all_spec : forall chunks s tr b,
    lookup tmp s = Some b ->
    exists w s' tr',
      write_all e tmp chunks s tr = (w, s', tr') /\
      (forall p, p <> tmp -> lookup p s' = lookup p s) /\
      match w with
      | WDone => lookup tmp s' = Some (b ++ concat chunks) /\
                 failed tr' = failed tr /\
                 (forall sc, failed_sc sc tr' = failed_sc sc tr)
      | WFailed => failed_sc SWrite tr' = true
      | WDied => exists i n, e i = Die n
      end.
  Proof.
    induction chunks as [|c cs IH]; intros s tr b Hb; cbn [write_all].
    - exists WDone, s, tr. repeat split; auto. cbn [concat]. now rewrite app_nil_r.
    - destruct (e (length tr)) as [|n|n] eqn:Ee.
      + destruct (IH (append_file tmp c s) (mkev SWrite tmp E0 (length c) ROk :: tr) (b ++ c))
          as (w & s' & tr' & Heq & Hfr & Hw).
        { now apply lookup_append_same. }
        exists w, s', tr'. split; [exact Heq|]. split.
        * intros p Hp. rewrite (Hfr p Hp). now apply lookup_append_other.
        * destruct w; auto.
          destruct Hw as (H1 & H2 & H3). cbn [concat]. rewrite app_assoc. repeat split; auto.
      + eexists WFailed, _, _. split; [reflexivity|]. split.
        * intros p Hp. now apply lookup_append_other.
        * reflexivity.
      + eexists WDied, _, _. split; [reflexivity|]. split.
        * intros p Hp. now apply lookup_append_other.
        * eauto.
  Qed.

  Definition frame (s0 s1 : fs) : Prop :=
    forall p, p <> dst -> p <> tmp -> lookup p s1 = lookup p s0.

  (* what is known after the run, by outcome *)
  Definition post (new : bytes) (s0 : fs) (r : result) : Prop :=
    frame s0 (r_fs r) /\
    match r_out r with
    | Returned true =>
        lookup dst (r_fs r) = Some new /\ lookup tmp (r_fs r) = None /\ failed (r_trace r) = false
    | Returned false =>
        lookup dst (r_fs r) = lookup dst s0 /\ failed_io (r_trace r) = true
    | Raised sc =>
        lookup dst (r_fs r) = lookup dst s0 /\ failed_sc sc (r_trace r) = true /\
        (sc = SRemove \/ (sc = SMakedirs /\ failed_io (r_trace r) = false))
    | Died =>
        (lookup dst (r_fs r) = lookup dst s0 \/
         (lookup dst (r_fs r) = Some new /\ failed (r_trace r) = false)) /\
        exists i n, e i = Die n
    end.

  (* clean-up, started in a state where dst is already decided *)
  Lemma cleanup_spec : forall out s tr,
    let r := cleanup e tmp out s tr in
    (forall p, p <> tmp -> lookup p (r_fs r) = lookup p s) /\
    (lookup tmp s = None -> lookup tmp (r_fs r) = None) /\
    ((r_out r = out /\ failed (r_trace r) = failed tr /\
      (forall sc, sc <> SRemove -> failed_sc sc (r_trace r) = failed_sc sc tr)) \/
     (r_out r = Raised SRemove /\ failed_sc SRemove (r_trace r) = true) \/
     (r_out r = Died /\ failed (r_trace r) = failed tr /\ exists i n, e i = Die n)).
  Proof.
    intros out s tr. unfold cleanup.
    destruct (e (length tr)) as [|n|n] eqn:E1.
    - destruct (mem tmp s) eqn:Em.
      + cbn [length]. destruct (e (S (length tr))) as [|n|n] eqn:E2; cbn [r_fs r_out r_trace].
        * split; [intros p Hp; now apply lookup_del_other|]. split; [intros _; apply lookup_del_same|].
          left. split; [reflexivity|]. split; [reflexivity|]. intros sc Hsc. reflexivity.
        * split; [reflexivity|]. split; [auto|]. right; left. split; reflexivity.
        * split; [reflexivity|]. split; [auto|]. right; right. split; [reflexivity|]. split; [reflexivity|eauto].
      + cbn [r_fs r_out r_trace]. split; [reflexivity|]. split; [auto|].
        left. repeat split.
    - cbn [r_fs r_out r_trace]. split; [reflexivity|]. split; [auto|]. left. repeat split.
    - cbn [r_fs r_out r_trace]. split; [reflexivity|]. split; [auto|].
      right; right. split; [reflexivity|]. split; [reflexivity|eauto].
  Qed.

  Lemma failed_io_cons ev tr :
    failed_io (ev :: tr) =
    (res_failed (ev_res ev) &&
       (syscall_eqb SOpen (ev_sc ev) || syscall_eqb SWrite (ev_sc ev) ||
        syscall_eqb SClose (ev_sc ev) || syscall_eqb SReplace (ev_sc ev)))
    || failed_io tr.
  Proof.
    unfold failed_io, failed_sc. cbn [existsb].
    destruct (res_failed (ev_res ev)); cbn [andb orb]; [|reflexivity].
    destruct (syscall_eqb SOpen (ev_sc ev)), (syscall_eqb SWrite (ev_sc ev)),
      (syscall_eqb SClose (ev_sc ev)), (syscall_eqb SReplace (ev_sc ev)); cbn [orb];
      rewrite ?orb_true_r, ?orb_false_r; reflexivity.
  Qed.

  Lemma save_tail_spec : forall new s0 s tr,
    lookup tmp s = Some new ->
    lookup dst s = lookup dst s0 ->
    frame s0 s ->
    failed tr = false ->
    failed_io tr = false ->
    post new s0 (save_tail e dst tmp s tr).
  Proof.
    intros new s0 s tr Ht Hd Hfr Hf Hio. unfold save_tail.
    destruct (e (length tr)) as [|n|n] eqn:E1.
    - rewrite Ht.
      set (s1 := set_file dst new (del_file tmp s)).
      set (tr1 := mkev SReplace tmp dst 0 ROk :: tr).
      assert (Hd1 : lookup dst s1 = Some new) by apply lookup_set_same.
      assert (Ht1 : lookup tmp s1 = None).
      { unfold s1. rewrite lookup_set_other by exact Hneq. apply lookup_del_same. }
      assert (Hfr1 : frame s0 s1).
      { intros p H1 H2. unfold s1. rewrite lookup_set_other by exact H1.
        rewrite lookup_del_other by exact H2. now apply Hfr. }
      assert (Hf1 : failed tr1 = false) by (unfold tr1, failed; cbn; exact Hf).
      destruct (cleanup_spec (Returned true) s1 tr1) as (Hc1 & Hc2 & Hc3).
      unfold post. split.
      { intros p H1 H2. rewrite Hc1 by exact H2. now apply Hfr1. }
      destruct Hc3 as [(Ho & Hff & _)|[(Ho & Hff)|(Ho & Hff & Hdie)]]; rewrite Ho.
      + split; [rewrite Hc1 by exact Hneq'; exact Hd1|]. split; [auto|]. now rewrite Hff.
      + exfalso. apply failed_sc_failed in Hff.
        (* remove is only reached when the temp file still exists *)
        revert Ho Hff. unfold cleanup. destruct (e (length tr1)); cbn [r_out];
          unfold mem; rewrite ?Ht1; cbn [r_out]; try discriminate.
      + split; [|exact Hdie]. right. split; [rewrite Hc1 by exact Hneq'; exact Hd1|].
        now rewrite Hff.
    - set (tr1 := mkev SReplace tmp dst 0 RFail :: tr).
      destruct (cleanup_spec (Returned false) s tr1) as (Hc1 & Hc2 & Hc3).
      unfold post. split.
      { intros p H1 H2. rewrite Hc1 by exact H2. now apply Hfr. }
      assert (Hio1 : failed_io tr1 = true).
      { unfold tr1. rewrite failed_io_cons. cbn. reflexivity. }
      destruct Hc3 as [(Ho & Hff & Hsc)|[(Ho & Hff)|(Ho & Hff & Hdie)]]; rewrite Ho.
      + split; [rewrite Hc1 by exact Hneq'; exact Hd|].
        unfold failed_io. rewrite !Hsc by discriminate. exact Hio1.
      + split; [rewrite Hc1 by exact Hneq'; exact Hd|]. split; [exact Hff|now left].
      + split; [|exact Hdie]. left. rewrite Hc1 by exact Hneq'; exact Hd.
    - cbn [r_fs r_out r_trace]. unfold post; cbn [r_fs r_out r_trace].
      split; [exact Hfr|]. split; [now left|eauto].
  Qed.

  Lemma save_from_open_spec : forall chunks s0 s tr,
    lookup dst s = lookup dst s0 ->
    frame s0 s ->
    failed tr = false ->
    failed_io tr = false ->
    post (concat chunks) s0 (save_from_open e dir dst tmp chunks s tr).
  Proof.
    intros chunks s0 s tr Hd Hfr Hf Hio. unfold save_from_open.
    assert (Hbase : forall r ev, r_fs r = s -> r_out r = Returned false ->
               r_trace r = ev :: tr -> ev_res ev = RFail -> ev_sc ev = SOpen ->
               post (concat chunks) s0 r).
    { intros r ev H1 H2 H3 H4 H5. unfold post. rewrite H1, H2, H3. split; [exact Hfr|].
      split; [exact Hd|]. rewrite failed_io_cons, H4, H5. reflexivity. }
    destruct (e (length tr)) as [|n|n] eqn:E1.
    2:{ eapply Hbase; reflexivity. }
    2:{ unfold post; cbn [r_fs r_out r_trace]. split; [exact Hfr|]. split; [now left|eauto]. }
    destruct (parent_ok dir s).
    2:{ eapply Hbase; reflexivity. }
    set (tr1 := mkev SOpen tmp E0 0 ROk :: tr).
    destruct (write_all_spec chunks (set_file tmp [] s) tr1 [] (lookup_set_same tmp [] s))
      as (w & s2 & tr2 & Heq & Hfr2 & Hw).
    rewrite Heq.
    assert (Hd2 : lookup dst s2 = lookup dst s0).
    { rewrite Hfr2 by exact Hneq'. rewrite lookup_set_other by exact Hneq'. exact Hd. }
    assert (Hframe2 : frame s0 s2).
    { intros p H1 H2. rewrite Hfr2 by exact H2. rewrite lookup_set_other by exact H2. now apply Hfr. }
    assert (Hf1 : failed tr1 = false) by (unfold tr1, failed; cbn; exact Hf).
    assert (Hio1 : failed_io tr1 = false) by (unfold tr1; rewrite failed_io_cons; cbn; exact Hio).
    destruct w.
    - (* all chunks written *)
      destruct Hw as (Ht2 & Hff & Hsc). cbn [app] in Ht2.
      destruct (e (length tr2)) as [|n|n] eqn:E2.
      + apply save_tail_spec; auto.
        * unfold failed; cbn. fold (failed tr2). now rewrite Hff.
        * rewrite failed_io_cons; cbn. unfold failed_io. rewrite !Hsc. exact Hio1.
      + unfold post; cbn [r_fs r_out r_trace]. split; [exact Hframe2|]. split; [exact Hd2|].
        rewrite failed_io_cons. reflexivity.
      + unfold post; cbn [r_fs r_out r_trace]. split; [exact Hframe2|]. split; [now left|eauto].
    - (* a write raised OSError: the file is closed, save returns False *)
      assert (Hio2 : failed_io tr2 = true).
      { unfold failed_io. rewrite Hw. now rewrite orb_true_r. }
      destruct (e (length tr2)) as [|n|n] eqn:E2;
        unfold post; cbn [r_fs r_out r_trace]; (split; [exact Hframe2|]).
      + split; [exact Hd2|]. rewrite failed_io_cons, Hio2. apply orb_true_r.
      + split; [exact Hd2|]. rewrite failed_io_cons, Hio2. apply orb_true_r.
      + split; [now left|eauto].
    - unfold post; cbn [r_fs r_out r_trace]. split; [exact Hframe2|]. split; [now left|exact Hw].
  Qed.

  Theorem save_spec : forall chunks s0, post (concat chunks) s0 (save e dir dst tmp chunks s0).
  Proof.
    intros chunks s0. unfold save. destruct dir as [d|] eqn:Ed.
    - destruct (e 0) as [|n|n] eqn:E0'.
      + assert (H := save_from_open_spec chunks s0 (makedirs d s0)
                       [mkev SMakedirs d E0 0 ROk]).
        assert (Hp : post (concat chunks) s0
                  (save_from_open e dir dst tmp chunks (makedirs d s0) [mkev SMakedirs d E0 0 ROk])).
        { apply H; try reflexivity.
          - apply lookup_makedirs.
          - intros p _ _. apply lookup_makedirs. }
        rewrite Ed in Hp. exact Hp.
      + unfold post; cbn [r_fs r_out r_trace]. split; [intros p _ _; reflexivity|].
        split; [reflexivity|]. split; [reflexivity|]. right. split; reflexivity.
      + unfold post; cbn [r_fs r_out r_trace]. split; [intros p _ _; reflexivity|].
        split; [now left|eauto].
    - assert (Hp := save_from_open_spec chunks s0 s0 []).
      rewrite Ed in Hp. apply Hp; try reflexivity. intros p _ _; reflexivity.
  Qed.

  (* ---------------- the property, in pieces ---------------- *)
  Theorem atomic : forall chunks s0,
    let r := save e dir dst tmp chunks s0 in
    (lookup dst (r_fs r) = lookup dst s0 \/ lookup dst (r_fs r) = Some (concat chunks)) /\
    (forall p, p <> dst -> p <> tmp -> lookup p (r_fs r) = lookup p s0).
  Proof.
    intros chunks s0 r. destruct (save_spec chunks s0) as [Hfr Hp]. fold r in Hfr, Hp.
    split; [|exact Hfr].
    destruct (r_out r) as [[|]|sc|]; intuition.
  Qed.

  Theorem error_reports_and_preserves : forall chunks s0,
    let r := save e dir dst tmp chunks s0 in
    failed (r_trace r) = true ->
    lookup dst (r_fs r) = lookup dst s0 /\
    r_out r <> Returned true /\
    ((forall i, is_die (e i) = false) -> failed_io (r_trace r) = true ->
     failed_sc SRemove (r_trace r) = false -> r_out r = Returned false).
  Proof.
    intros chunks s0 r Hf. destruct (save_spec chunks s0) as [_ Hp]. fold r in Hp.
    destruct (r_out r) as [[|]|sc|].
    - destruct Hp as (_ & _ & H). congruence.
    - destruct Hp as (H & _). split; [exact H|]. split; [discriminate|reflexivity].
    - destruct Hp as (H & Hsc & Hwhich). split; [exact H|]. split; [discriminate|].
      intros _ Hio Hrm. destruct Hwhich as [->|[-> Hio']]; congruence.
    - destruct Hp as ([H|[_ H]] & (i & n & Hdie)); [|congruence].
      split; [exact H|]. split; [discriminate|].
      intros Hnd. specialize (Hnd i). rewrite Hdie in Hnd. discriminate.
  Qed.

  (* what each way of coming back tells the caller *)
  Theorem outcome_meaning : forall chunks s0,
    let r := save e dir dst tmp chunks s0 in
    match r_out r with
    | Returned true => lookup dst (r_fs r) = Some (concat chunks) /\ lookup tmp (r_fs r) = None /\
                       failed (r_trace r) = false
    | Returned false => lookup dst (r_fs r) = lookup dst s0 /\ failed_io (r_trace r) = true
    | Raised sc => lookup dst (r_fs r) = lookup dst s0 /\ (sc = SMakedirs \/ sc = SRemove) /\
                   failed_sc sc (r_trace r) = true
    | Died => exists i n, e i = Die n
    end.
  Proof.
    intros chunks s0 r. destruct (save_spec chunks s0) as [_ Hp]. fold r in Hp.
    destruct (r_out r) as [[|]|sc|]; intuition.
  Qed.
End SaveSpec.

(* without faults: the new content is in place, True is returned, no temp file *)
Theorem success : forall e dir dst tmp chunks s0,
  tmp <> dst -> (forall i, e i = Ok) ->
  let r := save e dir dst tmp chunks s0 in
  r_out r = Returned true /\ lookup dst (r_fs r) = Some (concat chunks) /\
  lookup tmp (r_fs r) = None /\
  (forall p, p <> dst -> p <> tmp -> lookup p (r_fs r) = lookup p s0).
Proof.
  intros e dir dst tmp chunks s0 Hneq Hok r.
  assert (Hout : r_out r = Returned true).
  { unfold r, save.
    assert (Hopen : forall s tr, parent_ok dir s = true ->
              r_out (save_from_open e dir dst tmp chunks s tr) = Returned true).
    { intros s tr Hpar. unfold save_from_open. rewrite Hok, Hpar.
      destruct (write_all_spec e tmp chunks (set_file tmp [] s)
                  (mkev SOpen tmp E0 0 ROk :: tr) [] (lookup_set_same tmp [] s))
        as (w & s2 & tr2 & Heq & Hfr2 & Hw).
      rewrite Heq. destruct w.
      - destruct Hw as (Ht2 & _). rewrite Hok. unfold save_tail. rewrite Hok, Ht2.
        unfold cleanup. rewrite Hok. unfold mem.
        rewrite lookup_set_other by exact Hneq. rewrite lookup_del_same. reflexivity.
      - (* a failed write needs a Fail decision *)
        exfalso. clear - Hok Heq.
        assert (G : forall cs x t x' t', write_all e tmp cs x t = (WFailed, x', t') -> False).
        { induction cs as [|c cs IH]; intros x t x' t'; cbn [write_all]; [discriminate|].
          rewrite Hok. apply IH. }
        eapply G, Heq.
      - destruct Hw as (i & n & Hd). rewrite Hok in Hd. discriminate. }
    destruct dir as [d|] eqn:Ed.
    - rewrite Hok. apply Hopen. cbn [parent_ok]. apply is_dir_makedirs.
    - apply Hopen. reflexivity. }
  destruct (@save_spec e dir dst tmp Hneq chunks s0) as [Hfr Hp]. fold r in Hfr, Hp.
  rewrite Hout in Hp. destruct Hp as (H1 & H2 & _). auto.
Qed.

(* ------------------------------------------------------------------ *)
Section LoadSpec.
  Variables D L : Type.
  Variable decode : bytes -> decoded D.
  Variable set_data : L -> D -> L.
  (* pickle.load / gzip on an empty file raise EOFError (checked on the real
     functions by the harness on every run) *)
  Hypothesis decode_empty : decode [] = DecEOF D.

  Theorem load_absent_noop : forall s fname (l : L),
    lookup fname s = None \/ lookup fname s = Some [] ->
    load decode set_data s fname l = LoadOk l.
  Proof.
    intros s fname l [H|H]; unfold load; rewrite H; [reflexivity|].
    now rewrite decode_empty.
  Qed.

  (* load only looks at the destination *)
  Lemma load_ext : forall s s' fname (l : L),
    lookup fname s' = lookup fname s ->
    load decode set_data s' fname l = load decode set_data s fname l.
  Proof. intros s s' fname l H. unfold load. now rewrite H. Qed.

  (* after any execution of save the destination loads: as before, or as the
     new data *)
  Theorem atomic_loadable : forall e dir dst tmp chunks s0 (l : L) d,
    tmp <> dst ->
    decode (concat chunks) = DecOk d ->
    let r := save e dir dst tmp chunks s0 in
    load decode set_data (r_fs r) dst l = load decode set_data s0 dst l \/
    load decode set_data (r_fs r) dst l = LoadOk (set_data l d).
  Proof.
    intros e dir dst tmp chunks s0 l d Hneq Hdec r.
    destruct (@atomic e dir dst tmp Hneq chunks s0) as [[H|H] _]; fold r in H.
    - left. now apply load_ext.
    - right. unfold load. now rewrite H, Hdec.
  Qed.
End LoadSpec.

(* ------------------------------------------------------------------ *)
(* the function as Python calls it: the temp name is fname + "." + pid, hence
   different from fname *)
Theorem atomic_py : forall e fname pid chunks s0,
  let r := save_py e fname pid chunks s0 in
  (lookup fname (r_fs r) = lookup fname s0 \/ lookup fname (r_fs r) = Some (concat chunks)) /\
  (forall p, p <> fname -> p <> tmp_name fname pid -> lookup p (r_fs r) = lookup p s0).
Proof.
  intros e fname pid chunks s0. unfold save_py.
  apply (@atomic e (dirname_opt fname) fname (tmp_name fname pid) (tmp_name_neq fname pid)).
Qed.

(* crash after exactly k file-system calls of an otherwise arbitrary run *)
Definition crash_at (k : nat) (e : env) : env := fun i => if i <? k then e i else Die 0.

Theorem atomic_prefix : forall k e dir dst tmp chunks s0,
  tmp <> dst ->
  let r := save (crash_at k e) dir dst tmp chunks s0 in
  lookup dst (r_fs r) = lookup dst s0 \/ lookup dst (r_fs r) = Some (concat chunks).
Proof.
  intros k e dir dst tmp chunks s0 Hneq r.
  apply (@atomic (crash_at k e) dir dst tmp Hneq chunks s0).
Qed.
