(* List lemmas about consecutive pairs and the window of _get_intervals. *)
From AV Require Import Base.Prelude Model.L1D.
Set Implicit Arguments.

Section Window.
  Variable num : Type.
  Variable eqb : num -> num -> bool.
  Hypothesis eqb_eq : forall x y, eqb x y = true <-> x = y.
  Notation pairs := (@pairs num).
  Notation index_of := (@index_of num eqb).

  Lemma pairs_cons2 a b (l : list num) : pairs (a :: b :: l) = (a, b) :: pairs (b :: l).
  Proof. reflexivity. Qed.

  Lemma pairs_tail k a (l : list num) : In k (pairs l) -> In k (pairs (a :: l)).
  Proof. destruct l as [|b l]; [intros []|]. rewrite pairs_cons2. intros H; right; exact H. Qed.

  Lemma pairs_skipn m : forall (l : list num) k, In k (pairs (skipn m l)) -> In k (pairs l).
  Proof.
    induction m as [|m IH]; intros l k; [rewrite skipn_O; tauto|].
    destruct l as [|a l]; [cbn; tauto|]. cbn [skipn]. intros H. apply pairs_tail. apply IH. exact H.
  Qed.

  Lemma pairs_firstn n : forall (l : list num) k, In k (pairs (firstn n l)) -> In k (pairs l).
  Proof.
    induction n as [|n IH]; intros l k; [cbn; tauto|].
    destruct l as [|a l]; [cbn; tauto|]. cbn [firstn].
    destruct n as [|n']; [destruct l; cbn; tauto|].
    destruct l as [|b l]; [cbn; tauto|]. cbn [firstn]. rewrite !pairs_cons2. cbn [In].
    intros [H|H]; [left; exact H|right]. apply (IH (b :: l)). cbn [firstn]. exact H.
  Qed.

  Lemma pairs_app_mid (p : list num) a b q : In (a, b) (pairs (p ++ a :: b :: q)).
  Proof.
    induction p as [|c p IH]; cbn [app]; [rewrite pairs_cons2; left; reflexivity|].
    apply pairs_tail. exact IH.
  Qed.

  Lemma pairs_split (l : list num) a b : In (a, b) (pairs l) -> exists p q, l = p ++ a :: b :: q.
  Proof.
    induction l as [|c l IH]; [intros []|]. destruct l as [|d l]; [intros []|].
    rewrite pairs_cons2. intros [H|H].
    - inversion H; subst. exists [], l. reflexivity.
    - destruct (IH H) as [p [q E]]. exists (c :: p), q. rewrite E. reflexivity.
  Qed.

  Lemma index_of_app (p : list num) x q : ~ In x p -> index_of x (p ++ x :: q) = length p.
  Proof.
    induction p as [|c p IH]; cbn [app L1D.index_of length In]; intros Hn.
    - rewrite (proj2 (eqb_eq x x) eq_refl). reflexivity.
    - destruct (eqb x c) eqn:E; [apply eqb_eq in E; subst; tauto|]. f_equal. apply IH. tauto.
  Qed.

  Lemma skipn_app_le m (p q : list num) : m <= length p -> skipn m (p ++ q) = skipn m p ++ q.
  Proof.
    revert p; induction m as [|m IH]; intros p Hle; [reflexivity|].
    destruct p as [|c p]; cbn [length] in Hle; [lia|]. cbn [app skipn]. apply IH. lia.
  Qed.

  Lemma firstn_app_ge n (p q : list num) : length p <= n -> firstn n (p ++ q) = p ++ firstn (n - length p) q.
  Proof.
    revert p; induction n as [|n IH]; intros p Hle.
    - destruct p; [reflexivity|cbn [length] in Hle; lia].
    - destruct p as [|c p]; [reflexivity|]. cbn [app firstn length]. f_equal. apply IH. cbn [length] in Hle. lia.
  Qed.

  (* the window of _get_intervals contains the two intervals around x *)
  Lemma window_has (l : list num) (p q : list num) a b nn i :
    l = p ++ a :: b :: q -> (i = length p \/ i = S (length p)) ->
    In (a, b) (pairs (firstn (Nat.min (length l) (i + nn + 2) - (i - nn - 1)) (skipn (i - nn - 1) l))).
  Proof.
    intros El Hi. subst l.
    assert (Hs : i - nn - 1 <= length p) by lia.
    rewrite (skipn_app_le _ (a :: b :: q) Hs).
    set (p' := skipn (i - nn - 1) p).
    assert (Hp' : length p' = length p - (i - nn - 1)) by (unfold p'; apply skipn_length).
    rewrite app_length. cbn [length].
    rewrite firstn_app_ge; [|lia].
    replace (Nat.min (length p + S (S (length q))) (i + nn + 2) - (i - nn - 1) - length p')
      with (S (S (Nat.min (length p + S (S (length q))) (i + nn + 2) - (i - nn - 1) - length p' - 2))) by lia.
    cbn [firstn]. apply pairs_app_mid.
  Qed.

  (* general form: a consecutive pair at position j lies in the slice [start, stop) *)
  Lemma slice_has (p q : list num) a b start stop :
    start <= length p -> length p + 2 <= stop ->
    In (a, b) (pairs (firstn (stop - start) (skipn start (p ++ a :: b :: q)))).
  Proof.
    intros Hs Ht. rewrite (skipn_app_le _ (a :: b :: q) Hs).
    set (p' := skipn start p).
    assert (Hp' : length p' = length p - start) by (unfold p'; apply skipn_length).
    rewrite firstn_app_ge; [|lia].
    replace (stop - start - length p') with (S (S (stop - start - length p' - 2))) by lia.
    cbn [firstn]. apply pairs_app_mid.
  Qed.

  (* nth_error in p ++ x :: q versus p ++ q *)
  Lemma nth_error_app_left (p q : list num) j : j < length p -> nth_error (p ++ q) j = nth_error p j.
  Proof. intros H. apply nth_error_app1. exact H. Qed.

  Lemma nth_error_insert_right (p q : list num) x m :
    nth_error (p ++ x :: q) (length p + 1 + m) = nth_error (p ++ q) (length p + m).
  Proof.
    rewrite !nth_error_app2 by lia.
    replace (length p + 1 + m - length p) with (S m) by lia.
    replace (length p + m - length p) with m by lia. reflexivity.
  Qed.

  Lemma index_of_app_right (p : list num) x q : ~ In x p -> index_of x (p ++ q) = length p + index_of x q.
  Proof.
    induction p as [|c p IH]; cbn [app L1D.index_of length In]; intros Hn; [reflexivity|].
    destruct (eqb x c) eqn:E; [apply eqb_eq in E; subst; tauto|]. cbn. f_equal. apply IH. tauto.
  Qed.

  Lemma index_of_lt (l : list num) x : In x l -> index_of x l < length l.
  Proof.
    induction l as [|c l IH]; cbn [In L1D.index_of length]; [tauto|].
    destruct (eqb x c) eqn:E; [lia|]. intros [->|H]; [rewrite (proj2 (eqb_eq x x) eq_refl) in E; discriminate|].
    specialize (IH H). lia.
  Qed.

  Lemma nth_index_of (l : list num) x : In x l -> nth_error l (index_of x l) = Some x.
  Proof.
    induction l as [|c l IH]; cbn [In L1D.index_of]; [tauto|].
    destruct (eqb x c) eqn:E; [apply eqb_eq in E; subst; reflexivity|].
    intros [->|H]; [rewrite (proj2 (eqb_eq x x) eq_refl) in E; discriminate|]. cbn [nth_error]. auto.
  Qed.
End Window.
