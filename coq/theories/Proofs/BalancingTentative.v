(* The tentative ask, ask(n, tell_pending=False), of the REPAIRED model
   (repaired = true): with children that utils.restore puts back exactly
   (hypothesis [Hrestore]) it is the identity on the state and answers what the
   committing ask would answer.  Hence every invariant of the repaired model
   holds along ALL histories, tentative asks included.
   What this does not establish: that the snapshot/restore of each concrete
   learner type is exact -- that is property C09 of the children. *)
From AV Require Import Base.Prelude Model.GenericLearner Model.Balancing
  Proofs.BalancingProofs Proofs.BalancingOrder Proofs.BalancingCoh Proofs.BalancingStrat
  Proofs.BalancingProv Proofs.BalancingMain.
Set Implicit Arguments.

Section Tentative.
  Variable L : Learner.
  Hypothesis Hrestore : forall old cur : state L, restore L old cur = old.
  Implicit Types (s pre : bst L) (tp : list nat).

  Lemma map2_restore (ks : list (state L)) : forall ks', length ks' = length ks -> map2 (restore L) ks ks' = ks.
  Proof.
    induction ks as [|k ks IH]; intros [|k' ks'] H; cbn [map2 length] in *; try reflexivity; try discriminate.
    rewrite Hrestore, IH by lia. reflexivity.
  Qed.

  Lemma loopn_kids_length rep st n : forall s tp,
    failed (fst (loopn (body_of rep st) n s tp)) = false ->
    length (kids (fst (loopn (body_of rep st) n s tp))) = length (kids s).
  Proof.
    induction n as [|n IH]; intros s tp H; cbn [loopn] in *; [reflexivity|].
    destruct (body_of rep st s tp) as [s1 [[tp' [[i p] v]]|]] eqn:E; [|discriminate H].
    apply body_shape in E as [E1 _].
    specialize (IH s1 tp'). destruct (loopn (body_of rep st) n s1 tp') as [s2 r]. cbn [fst] in *.
    rewrite (IH H). exact E1.
  Qed.

  (* the tentative ask answers what the committing ask would, and raises iff it would *)
  Lemma bask_nc_out rep s n :
    snd (bask rep s n false) = snd (bask rep s n true) /\
    failed (fst (bask true s n false)) = failed (fst (bask true s n true)).
  Proof.
    unfold bask. destruct (n =? 0); [split; reflexivity|].
    split.
    - destruct (ask_and_tell rep s n) as [s' r]. destruct rep; reflexivity.
    - destruct (ask_and_tell true s n) as [s' r]. reflexivity.
  Qed.

  (* ... and leaves no trace *)
  Lemma bask_nc_identity s n :
    failed s = false -> failed (fst (bask true s n false)) = false -> fst (bask true s n false) = s.
  Proof.
    intros Hs. unfold bask. destruct (n =? 0); [reflexivity|].
    pose proof (@loopn_kids_length true (strat s) n s (total_points s)) as Hl.
    unfold ask_and_tell in *. destruct (loopn (body_of true (strat s)) n s (total_points s)) as [s' r].
    cbn [fst failed] in *. intros Hf. rewrite (map2_restore (kids s) (kids s') (Hl Hf)), Hf, <- Hs.
    destruct s; reflexivity.
  Qed.

  (* ---------------- invariants along ALL histories ---------------- *)
  Section InvAll.
    Variable J : bst L -> Prop.
    Hypothesis J_tell : forall s i x y, J s -> J (tell s i x y).
    Hypothesis J_tp : forall s i x, J s -> J (tell_pending true s i x).
    Hypothesis J_body : forall st s tp s1 r, J s -> body_of true st s tp = (s1, Some r) -> J s1.
    Hypothesis J_loss : forall s real, J s -> J (fst (bloss s real)).
    Hypothesis J_rem : forall s, J s -> J (bremove_unfinished true s).
    Hypothesis J_strat : forall s st, J s -> J (set_strategy s st).

    Lemma step_state_inv_all s o : failed s = false -> J s ->
      failed (step_state true s o) = true \/ J (step_state true s o).
    Proof.
      intros Hs HJ. destruct o as [n c|i x y|i x|real| |st]; cbn [step_state]; auto.
      destruct c.
      - unfold bask. destruct (n =? 0); [right; exact HJ|].
        unfold ask_and_tell. apply loopn_inv; [|exact HJ]. intros; eapply J_body; eauto.
      - destruct (failed (fst (bask true s n false))) eqn:Hf; [left; reflexivity|].
        right. rewrite (bask_nc_identity s n Hs Hf). exact HJ.
    Qed.

    Lemma run_inv_all h : forall s, (failed s = true \/ J s) ->
      failed (run true s h) = true \/ J (run true s h).
    Proof.
      induction h as [|o h IH]; intros s HJ; [exact HJ|].
      rewrite run_cons. apply IH. rewrite step_fst.
      destruct (failed s) eqn:Ef; [left; exact Ef|].
      destruct HJ as [HJ|HJ]; [discriminate HJ|]. apply step_state_inv_all; assumption.
    Qed.
  End InvAll.

  (* provenance and shape *)
  Lemma prov_run_all ks0 st (h : list (op L)) :
    failed (run true (init L ks0 st) h) = false -> Prov ks0 (run true (init L ks0 st) h).
  Proof.
    intros Hf.
    destruct (@run_inv_all (Prov ks0)) with (h := h) (s := init L ks0 st) as [H|H]; try congruence; try exact H.
    - intros; apply prov_tell; assumption.
    - intros; apply prov_tell_pending; assumption.
    - intros st0 s tp s1 [tp' [[i p] v]] HP Hb. eapply prov_body; eauto.
    - intros; apply prov_bloss; assumption.
    - intros; apply prov_remove; assumption.
    - intros; apply prov_set_strategy; assumption.
    - right. apply prov_init.
  Qed.

  Lemma shape_inv_all ks st (h : list (op L)) :
    ks <> [] -> failed (run true (init L ks st) h) = false ->
    ShapeInv (length ks) (run true (init L ks st) h).
  Proof.
    intros Hne Hf.
    assert (Hpos : 0 < length ks) by (destruct ks; [contradiction|cbn; lia]).
    destruct (@run_inv_all (ShapeInv (length ks))) with (h := h) (s := init L ks st) as [H|H]; try congruence; try exact H.
    - intros s i x y [H1 H2]. destruct (tell_shape s i x y) as [E1 E2]. split; congruence.
    - intros s i x [H1 H2]. destruct (tell_pending_shape true s i x) as [E1 [E2 _]]. split; congruence.
    - intros st0 s tp s1 [tp' [[i p] v]] [H1 H2] Hb.
      apply body_shape in Hb as [E1 [E2 E3]]. split; [congruence|].
      destruct (strategy_eqb st0 SCycle) eqn:Es.
      + destruct st0; try discriminate Es. destruct (E3 eq_refl) as [_ [E4 _]].
        rewrite E4, H1. apply Nat.mod_upper_bound. lia.
      + destruct E2 as [E2 _]; [intros ->; discriminate Es|congruence].
    - intros s real [H1 H2]. unfold bloss. destruct (losses_shape s real) as [E1 [E2 _]].
      destruct (losses s real) as [s0 vs]. cbn [fst] in *.
      destruct (pymax _ vs); unfold ShapeInv; cbn [fst fail kids cyc]; rewrite ?E1, ?E2; split; assumption.
    - intros s [H1 H2]. unfold bremove_unfinished, ShapeInv. cbn [kids cyc]. rewrite map_length. split; assumption.
    - intros s st0 [H1 H2]. unfold set_strategy, ShapeInv. cbn [kids cyc]. split; [exact H1|].
      destruct st0; assumption.
    - right. split; [reflexivity|exact Hpos].
  Qed.

  (* every (i, p) returned by an ask -- committing or tentative -- was proposed by child i *)
  Lemma routing_ask_all ks0 st (h : list (op L)) n c i p v :
    let s := run true (init L ks0 st) h in
    failed s = false -> failed (fst (bask true s n c)) = false ->
    In ((i, p), v) (snd (bask true s n c)) ->
    exists k0, nth_error ks0 i = Some k0 /\ @proposed L k0 p v.
  Proof.
    intros s Hf Hf2 Hin. pose proof (prov_run_all ks0 st h Hf) as HP. fold s in HP.
    assert (Hf3 : failed (fst (bask true s n true)) = false).
    { destruct c; [exact Hf2|]. destruct (bask_nc_out true s n) as [_ <-]. exact Hf2. }
    assert (Hin3 : In ((i, p), v) (snd (bask true s n true))).
    { destruct c; [exact Hin|]. destruct (bask_nc_out true s n) as [<- _]. exact Hin. }
    destruct (bask_trace true s n Hf3) as [E _]. rewrite E in Hin3.
    apply in_map_iff in Hin3 as [[[pre tp] e] [Ee Hin3]]. cbn [snd] in Ee. subst e.
    destruct (@loop_trace_inv L (body_of true (strat s)) (fun s _ => Prov ks0 s)) with (n := n) (s := s)
      (tp := total_points s) (pre := pre) (tpp := tp) (e := ((i, p), v)) as [HPp [s1 [tp' Hb]]]; auto.
    - intros s0 tp0 s1 tp' [[i0 p0] v0] HJ Hb. eapply prov_body; eauto.
    - eapply prov_body; eauto.
  Qed.

  Lemma cycle_all ks st (h : list (op L)) n :
    ks <> [] ->
    let s := run true (init L ks st) h in
    failed s = false -> strat s = SCycle ->
    failed (fst (bask true s n true)) = false ->
    map (fun e => fst (fst e)) (snd (bask true s n true)) =
      map (fun t => (cyc s + t) mod length ks) (seq 0 n) /\
    cyc (fst (bask true s n true)) = (cyc s + n) mod length ks /\
    length (snd (bask true s n true)) = n.
  Proof.
    intros Hne s Hf Hs Hf2.
    destruct (@shape_inv_all ks st h Hne Hf) as [H1 H2]. fold s in H1, H2.
    destruct (@cycle_ask L true s n Hs) as [E1 E2]; [rewrite H1; exact H2|exact Hf2|].
    rewrite H1 in E1, E2. split; [exact E1|]. split; [exact E2|].
    apply (bask_trace true s n Hf2).
  Qed.

  (* ---------------- the cache-dependent statements ---------------- *)
  Hypothesis Hnc : forall k : state L, snd (ask L k 1 false) = k.

  Lemma cache_coherent_all ks st (h : list (op L)) :
    failed (run true (init L ks st) h) = false -> Coh (run true (init L ks st) h).
  Proof.
    intros Hf.
    destruct (@run_inv_all (@Coh L)) with (h := h) (s := init L ks st) as [H|H]; try congruence; try exact H.
    - intros; apply coh_tell; assumption.
    - intros; apply coh_tell_pending; assumption.
    - intros; eapply (body_coh Hnc); eauto.
    - intros s real HC. apply (bloss_spec real HC).
    - intros; apply coh_remove_unfinished.
    - intros; apply coh_set_strategy; assumption.
    - right. apply coh_init.
  Qed.

  Hypothesis NL : NumLaws L.

  Lemma loss_is_max_all ks st (h : list (op L)) real m :
    let s := run true (init L ks st) h in
    failed s = false -> snd (bloss s real) = Some m ->
    (exists k, In k (kids s) /\ m = loss L k real) /\
    (forall k, In k (kids s) -> nltb L m (loss L k real) = false) /\
    kids (fst (bloss s real)) = kids s.
  Proof.
    intros s Hf Hm. eapply loss_is_max; [exact NL| |exact Hm]. apply cache_coherent_all; assumption.
  Qed.

  Lemma improvement_all ks st (h : list (op L)) n :
    let s := run true (init L ks st) h in
    failed s = false -> strat s = SImp ->
    forall pre tp i p v,
      In ((pre, tp), ((i, p), v)) (loop_trace (body_of true (strat s)) n s (total_points s)) ->
      exists ki ps vs, nth_error (kids pre) i = Some ki /\
        fst (ask L ki 1 false) = (p :: ps, v :: vs) /\
        forall j kj pj psj vj vsj, nth_error (kids pre) j = Some kj ->
          fst (ask L kj 1 false) = (pj :: psj, vj :: vsj) ->
          nltb L v vj = false /\ kgt L (vj, nth j tp 0) (v, nth i tp 0) = false.
  Proof.
    intros s Hf Hs pre tp i p v Hin. rewrite Hs in Hin. cbn [body_of] in Hin.
    destruct (@improvement_strategy L Hnc NL s n pre tp i p v) as [ki [ps [vs [H1 [H2 H3]]]]];
      [apply cache_coherent_all; assumption|exact Hin|].
    exists ki, ps, vs. split; [exact H1|]. split; [exact H2|].
    intros j kj pj psj vj vsj Hj Ha. specialize (H3 j kj pj psj vj vsj Hj Ha).
    split; [apply (kgt_false_fst NL) in H3; exact H3|exact H3].
  Qed.

  Lemma loss_all ks st (h : list (op L)) n :
    let s := run true (init L ks st) h in
    failed s = false -> strat s = SLoss ->
    forall pre tp i p v,
      In ((pre, tp), ((i, p), v)) (loop_trace (body_of true (strat s)) n s (total_points s)) ->
      exists ki, nth_error (kids pre) i = Some ki /\
        forall j kj, nth_error (kids pre) j = Some kj ->
          nltb L (loss L ki false) (loss L kj false) = false /\
          kgt L (loss L kj false, nth j tp 0) (loss L ki false, nth i tp 0) = false.
  Proof.
    intros s Hf Hs pre tp i p v Hin. rewrite Hs in Hin. cbn [body_of] in Hin.
    destruct (@loss_strategy L Hnc NL s n pre tp i p v) as [ki [H1 H3]];
      [apply cache_coherent_all; assumption|exact Hin|].
    exists ki. split; [exact H1|]. intros j kj Hj. specialize (H3 j kj Hj).
    split; [apply (kgt_false_fst NL) in H3; exact H3|exact H3].
  Qed.
End Tentative.
