(* The batch path of tell_many establishes the combined-loss invariant CInv.
   (C01 second sentence, C11) *)
From AV Require Import Base.Prelude Base.SortLemmas Model.L1D
  Proofs.L1DOrder Proofs.L1DMaps Proofs.L1DWindow Proofs.L1DStruct Proofs.L1DLoss Proofs.L1DValues
  Proofs.L1DBatch Proofs.L1DCombined Proofs.L1DBatchTi.
From Coq Require Import Sorted.
Set Implicit Arguments.

Section BatchC.
  Variable num : Type.
  Variables (add sub mul div : num -> num -> num).
  Variables (ltb eqb : num -> num -> bool).
  Variables (zero one inf neg_inf : num).
  Variables (is_nan is_inf : num -> bool).
  Variable round12 : num -> num.
  Variable of_nat : nat -> num.
  Variable L : list (option num) -> list (option (Y num)) -> num.
  Variable P : params num.
  Hypothesis OL : OrdLaws ltb eqb.

  Notation st := (st num).
  Notation ival := (num * num)%type.
  Notation lget := (@lget num eqb).
  Notation lset := (@lset num ltb eqb).
  Notation mem := (@mem num eqb).
  Notation find_left := (@find_left num ltb).
  Notation find_right := (@find_right num ltb).
  Notation get_loss := (@get_loss num sub div ltb eqb zero one L P).
  Notation update_interp := (@update_interp num sub mul div ltb eqb zero one L P).
  Notation batch_combined := (@batch_combined num ltb eqb inf).
  Notation lt := (lt ltb).
  Notation sorted := (sorted ltb).
  Notation adj := (adj ltb).
  Notation ksorted := (@ksorted num ltb eqb).
  Notation keys := (@keys num).
  Notation SInv := (@SInv num ltb eqb).
  Notation COK := (@COK num sub mul div ltb eqb inf).
  Notation CInv := (@CInv num sub mul div ltb eqb inf).
  Notation le := (@L1DCombined.le num ltb).
  Notation interp := (@interp num sub mul div).
  Notation inside := (@inside num ltb eqb).
  Notation fresh_vals := (@fresh_vals num sub div ltb eqb zero one L P).

  (* ---------------- values written by batch_combined ---------------- *)
  Definition bc_val (s : st) (k : ival) : num :=
    match lget k (los s) with Some v => v | None => inf end.

  Lemma batch_combined_values ivs (s : st) : forall lc ti k,
    (In k ivs -> lget k (fst (batch_combined ivs s lc ti)) = Some (bc_val s k)) /\
    (~ In k ivs -> lget k (fst (batch_combined ivs s lc ti)) = lget k lc).
  Proof.
    induction ivs as [|iv ivs IH]; intros lc ti k; cbn [L1D.batch_combined].
    - cbn [fst]. split; [intros []|reflexivity].
    - assert (Hstep : forall lc' ti',
                (In k (iv :: ivs) -> lget k lc' = (if L1D.ival_eqb eqb k iv then Some (bc_val s k) else lget k lc) ->
                   lget k (fst (batch_combined ivs s lc' ti')) = Some (bc_val s k)) /\
                (~ In k (iv :: ivs) -> lget k lc' = (if L1D.ival_eqb eqb k iv then Some (bc_val s k) else lget k lc) ->
                   lget k (fst (batch_combined ivs s lc' ti')) = lget k lc)).
      { intros lc' ti'. destruct (IH lc' ti' k) as [H1 H2]. split.
        - intros Hin Hlc'. destruct (In_dec_ival OL k ivs) as [Hi|Hn]; [apply H1; exact Hi|].
          destruct Hin as [->|Hin]; [|contradiction]. rewrite (H2 Hn), Hlc', (ival_eqb_refl OL). reflexivity.
        - intros Hn Hlc'. cbn [In] in Hn. rewrite H2 by tauto. rewrite Hlc'.
          destruct (L1D.ival_eqb eqb k iv) eqn:E; [|reflexivity].
          apply (ival_eqb_eq OL) in E. subst. tauto. }
      destruct (lget iv (los s)) as [v|] eqn:Ev.
      + destruct (Hstep (lset iv v lc) ti) as [H1 H2].
        assert (Hl : lget k (lset iv v lc) = (if L1D.ival_eqb eqb k iv then Some (bc_val s k) else lget k lc)).
        { rewrite (lget_lset OL). destruct (L1D.ival_eqb eqb k iv) eqn:E; [|reflexivity].
          apply (ival_eqb_eq OL) in E. subst k. unfold bc_val. rewrite Ev. reflexivity. }
        split; [intros H; apply H1; assumption|intros H; apply H2; assumption].
      + match goal with |- context [batch_combined ivs s ?lc' ?ti'] => destruct (Hstep lc' ti') as [H1 H2] end.
        assert (Hl : lget k (lset iv inf lc) = (if L1D.ival_eqb eqb k iv then Some (bc_val s k) else lget k lc)).
        { rewrite (lget_lset OL). destruct (L1D.ival_eqb eqb k iv) eqn:E; [|reflexivity].
          apply (ival_eqb_eq OL) in E. subst k. unfold bc_val. rewrite Ev. reflexivity. }
        split; [intros H; apply H1; assumption|intros H; apply H2; assumption].
  Qed.

  (* ---------------- floor / ceiling among the evaluated points ---------------- *)
  Definition floor (l : list num) (p : num) : option num :=
    if mem p l then Some p else find_left p l None.
  Definition ceil (l : list num) (q : num) : option num :=
    if mem q l then Some q else find_right q l.

  Lemma floor_spec l p : sorted l ->
    match floor l p with
    | Some a => In a l /\ le a p /\ forall c, In c l -> le c p -> le c a
    | None => forall c, In c l -> ~ le c p
    end.
  Proof.
    intros Hs. unfold floor. destruct (mem p l) eqn:Em.
    - apply (mem_In OL) in Em. split; [exact Em|]. split; [right; reflexivity|]. intros c _ H; exact H.
    - pose proof (find_left_spec OL p Hs) as H.
      assert (Hn : ~ In p l) by (intros Hin; apply (mem_In OL) in Hin; congruence).
      destruct (find_left p l None) as [a|]; cbn [is_left] in H.
      + destruct H as [Ha [Hap Hmax]]. split; [exact Ha|]. split; [left; exact Hap|].
        intros c Hc [Hlt|E]; [|subst; contradiction].
        destruct (Hmax c Hc Hlt) as [->|H']; [right; reflexivity|left; exact H'].
      + intros c Hc [Hlt|E]; [exact (H c Hc Hlt)|subst; contradiction].
  Qed.

  Lemma ceil_spec l q : sorted l ->
    match ceil l q with
    | Some b => In b l /\ le q b /\ forall c, In c l -> le q c -> le b c
    | None => forall c, In c l -> ~ le q c
    end.
  Proof.
    intros Hs. unfold ceil. destruct (mem q l) eqn:Em.
    - apply (mem_In OL) in Em. split; [exact Em|]. split; [right; reflexivity|]. intros c _ H; exact H.
    - pose proof (find_right_spec q Hs) as H.
      assert (Hn : ~ In q l) by (intros Hin; apply (mem_In OL) in Hin; congruence).
      destruct (find_right q l) as [b|]; cbn [is_right] in H.
      + destruct H as [Hb [Hqb Hmin]]. split; [exact Hb|]. split; [left; exact Hqb|].
        intros c Hc [Hlt|E]; [|subst; contradiction].
        destruct (Hmin c Hc Hlt) as [->|H']; [right; reflexivity|left; exact H'].
      + intros c Hc [Hlt|E]; [exact (H c Hc Hlt)|subst; contradiction].
  Qed.

  (* ---------------- the pending-fix invariant through the final fold ---------------- *)
  Definition Pinv (rem : list ival) (s : st) : Prop :=
    forall k val, adj (nbc s) k -> lget k (losc s) = Some val ->
      COK (nb s) (los s) k val \/
      (val = inf /\ exists A B, In (A, B) rem /\ adj (nb s) (A, B) /\ le A (fst k) /\ le (snd k) B).

  Lemma COK_ext l m m' k val : (forall j, lget j m' = lget j m) -> COK l m k val -> COK l m' k val.
  Proof.
    intros He [[a [b [v [H1 [H2 [H3 [H4 H5]]]]]]]|H]; [left|right; exact H].
    exists a, b, v. rewrite He. tauto.
  Qed.

  Lemma cond_fold_cinv rem : forall (s : st), SInv s -> fresh_vals s -> Pinv rem s ->
    CInv (fold_left (fun s iv => match lget iv (los s) with Some _ => update_interp s iv | None => s end) rem s).
  Proof.
    induction rem as [|[A B] rem IH]; intros s HI HF HP; cbn [fold_left].
    - intros k val Hadj Hv. destruct (HP k val Hadj Hv) as [H|[_ [A [B [[] _]]]]]. exact H.
    - destruct (lget (A, B) (los s)) as [v|] eqn:Ev.
      + assert (Hk : In (A, B) (keys (los s))) by (apply (In_keys_lget OL); congruence).
        assert (Hadj0 : adj (nb s) (A, B)) by (apply (s_los_keys HI); exact Hk).
        apply IH.
        * apply (update_interp_key_sinv add sub mul div zero one is_nan is_inf round12 L P OL (A, B) HI Hk).
        * apply (update_interp_key_fresh mul OL (A, B) HF).
        * (* los is unchanged as a function, the pieces inside (A, B) are now fixed *)
          assert (Hlos : forall j, lget j (los (update_interp s (A, B))) = lget j (los s)).
          { intros j. cbn [L1D.update_interp L1D.with_los los]. rewrite (lget_lset OL).
            destruct (L1D.ival_eqb eqb j (A, B)) eqn:E; [|reflexivity].
            apply (ival_eqb_eq OL) in E. subst j. symmetry. exact (HF (A, B) Hk). }
          intros k val Hadj Hv. change (nbc (update_interp s (A, B))) with (nbc s) in Hadj.
          change (nb (update_interp s (A, B))) with (nb s).
          destruct (update_interp_losc add sub mul div zero one is_nan is_inf round12 L P OL s (A, B) k) as [UA UB].
          cbn [fst snd] in UA, UB.
          assert (Hkp : In k (L1D.pairs (nbc s))) by (apply (pairs_adj OL (s_nbc HI)); exact Hadj).
          destruct (L1D.leb ltb eqb A (fst k) && ltb (fst k) B) eqn:Ein.
          -- left. apply (COK_ext _ Hlos).
             rewrite (UA Hkp Ein) in Hv. inversion Hv; subst val.
             apply (inside_spec add sub mul div zero is_nan is_inf round12 OL) in Ein as [Hi1 Hi2].
             left. exists A, B, (get_loss s A B). split; [exact Hadj0|]. split; [exact Hi1|]. split.
             ++ apply (adj_snd_le OL Hadj); [apply (s_comb HI); left; apply Hadj0|exact Hi2].
             ++ split; [exact (HF (A, B) Hk)|left; reflexivity].
          -- rewrite UB in Hv by (intros [_ H]; unfold L1DStruct.inside in H; congruence).
             destruct (HP k val Hadj Hv) as [H|[Hinf [A' [B' [Hin [Hab' [H1 H2]]]]]]].
             ++ left. apply (COK_ext _ Hlos). exact H.
             ++ destruct Hin as [E|Hin].
                ** inversion E; subst A' B'. exfalso.
                   assert (Hins : inside A B k) by (apply (enclosed_inside add sub mul div zero is_nan is_inf round12 OL k); [apply Hadj|exact H1|exact H2]).
                   unfold L1DStruct.inside in Hins. congruence.
                ** right. split; [exact Hinf|]. exists A', B'. tauto.
      + apply IH; [exact HI|exact HF|].
        intros k val Hadj Hv. destruct (HP k val Hadj Hv) as [H|[Hinf [A' [B' [Hin [Hab' [H1 H2]]]]]]]; [left; exact H|].
        destruct Hin as [E|Hin].
        * inversion E; subst A' B'. exfalso. apply (s_los_keys HI) in Hab'. apply (In_keys_lget OL) in Hab'. congruence.
        * right. split; [exact Hinf|]. exists A', B'. tauto.
  Qed.

  (* ---------------- the batch path ---------------- *)
  Notation tell_many_batch := (@tell_many_batch num sub mul div ltb eqb zero one inf is_nan L P).
  Notation DInv := (@DInv num ltb).
  Notation dset := (@dset num ltb eqb).
  Notation remove := (@remove num eqb).
  Notation merge_sorted := (@merge_sorted num ltb eqb).

  Theorem batch_cinv (s : st) (xys : list (num * Y num)) : SInv s -> DInv s -> CInv (tell_many_batch s xys).
  Proof.
    intros HI HD. unfold L1D.tell_many_batch.
    set (data' := fold_left (fun d xy => dset (fst xy) (snd xy) d) xys (data s)).
    set (pend' := fold_left (fun p xy => remove (fst xy) p) xys (pend s)).
    set (points := map fst data').
    set (comb := merge_sorted (length pend' + length points) pend' points).
    set (bx := (L1D.pmin ltb (lo P) (match comb with x :: _ => x | [] => zero end), L1D.pmax ltb (hi P) (L1D.last_num comb zero))).
    match goal with |- context [L1D.mk data' pend' points comb [] [] bx ?by' ?sx' ?sy' ?sy' ?sx'] =>
      set (s1 := L1D.mk data' pend' points comb [] [] bx by' sx' sy' sy' sx') end.
    set (l := fold_left (fun m iv => lset iv (get_loss s1 (fst iv) (snd iv)) m) (L1D.pairs points) []).
    set (s2 := L1D.with_los s1 l []).
    destruct (batch_combined (L1D.pairs comb) s2 [] []) as [lc ti] eqn:Ebc.
    set (s3 := L1D.with_los s2 l lc).
    assert (Hpts : sorted points) by (apply (fold_dset_sorted add sub mul div zero is_nan is_inf round12 OL); exact HD).
    destruct (fold_remove_In add sub mul div zero is_nan is_inf round12 OL xys zero (s_pend HI)) as [_ Hps].
    assert (Hpend_spec : forall z, In z pend' <-> In z (pend s) /\ ~ In z (map fst xys)).
    { intros z. apply (fold_remove_In add sub mul div zero is_nan is_inf round12 OL xys z (s_pend HI)). }
    destruct (@merge_spec num add sub mul div ltb eqb zero is_nan is_inf round12 of_nat OL
                (length pend' + length points) pend' points (le_n _) Hps Hpts) as [Hcomb_In Hcomb_s].
    fold comb in Hcomb_In, Hcomb_s.
    assert (Hnil : ksorted []) by (unfold L1DMaps.ksorted, L1DMaps.keys; cbn; constructor).
    destruct (@fold_lset_spec num add sub mul div ltb eqb zero is_nan is_inf round12 OL
                (fun iv => get_loss s1 (fst iv) (snd iv)) (L1D.pairs points) [] Hnil)
      as [Hl1 [Hl2 [Hl3 _]]]. cbn zeta in Hl1, Hl2, Hl3. fold l in Hl1.
    destruct (@batch_combined_spec' num add sub mul div ltb eqb zero inf is_nan is_inf round12 OL
                (L1D.pairs comb) s2 [] [] lc ti Ebc Hnil) as [Hc1 Hc2].
    assert (HI3 : SInv s3).
    { constructor; cbn [s3 s2 s1 L1D.with_los nb nbc pend data los losc].
      - exact Hpts.
      - exact Hcomb_s.
      - exact Hps.
      - intros z. rewrite Hcomb_In. tauto.
      - intros z Hz. apply (dget_keys add sub mul div zero is_nan is_inf round12 OL). exact Hz.
      - intros z Hz. apply Hpend_spec in Hz as [Hz Hn].
        unfold data'. rewrite (fold_dset_get_other add sub mul div zero is_nan is_inf round12 OL xys (data s) z Hn).
        exact (s_pd HI _ Hz).
      - exact Hl1.
      - exact Hc1.
      - intros iv. rewrite <- (pairs_adj OL Hpts). pose proof (Hl2 iv) as Hl2'. cbn [L1DMaps.keys map In] in Hl2'.
        split; [intros H; apply Hl2' in H; tauto|intros H; apply Hl2'; left; exact H].
      - intros iv. rewrite Hc2. cbn [L1DMaps.keys map In]. rewrite <- (pairs_adj OL Hcomb_s). tauto. }
    assert (HF3 : fresh_vals s3).
    { intros k Hk. change (los s3) with l in *. unfold l in Hk. apply Hl2 in Hk as [Hk|[]].
      etransitivity; [exact (Hl3 k Hk)|reflexivity]. }
    (* the initial pending-fix invariant *)
    apply cond_fold_cinv; [exact HI3|exact HF3|].
    intros k val Hadj Hv. change (nbc s3) with comb in Hadj. change (losc s3) with lc in Hv.
    change (nb s3) with points. change (los s3) with l.
    assert (Hkp : In k (L1D.pairs comb)) by (apply (pairs_adj OL Hcomb_s); exact Hadj).
    destruct (batch_combined_values (L1D.pairs comb) s2 [] [] k) as [BV _].
    rewrite Ebc in BV. cbn [fst] in BV. rewrite (BV Hkp) in Hv. inversion Hv as [Hval]. clear Hv.
    unfold bc_val. change (los s2) with l.
    destruct (lget k l) as [v|] eqn:Ek.
    - (* an evaluated piece: copied verbatim *)
      left. left. exists (fst k), (snd k), v. destruct k as [p q]; cbn [fst snd] in *.
      split; [apply (s_los_keys HI3); apply (In_keys_lget OL); change (los s3) with l; congruence|].
      split; [right; reflexivity|]. split; [right; reflexivity|]. split; [exact Ek|right; split; reflexivity].
    - (* not an evaluated piece: infinite, and either unenclosed or scheduled *)
      pose proof (floor_spec (fst k) Hpts) as HA. pose proof (ceil_spec (snd k) Hpts) as HB.
      destruct (floor points (fst k)) as [A|]; [|left; right; split; [left; exact HA|reflexivity]].
      destruct (ceil points (snd k)) as [B|]; [|left; right; split; [right; exact HB|reflexivity]].
      destruct HA as [HAin [HAle HAmax]]. destruct HB as [HBin [HBle HBmin]].
      assert (Hklt : lt (fst k) (snd k)) by apply Hadj.
      assert (HAB : adj points (A, B)).
      { split; [exact HAin|]. split; [exact HBin|]. cbn [fst snd].
        split; [exact (le_lt_trans OL HAle (lt_le_trans OL Hklt HBle))|].
        intros c Hc [H1 H2].
        destruct (trichotomy OL c (fst k)) as [T1|[T1|T1]].
        - exact (le_not_lt OL (HAmax c Hc (or_introl T1)) H1).
        - exact (le_not_lt OL (HAmax c Hc (or_intror T1)) H1).
        - destruct (trichotomy OL c (snd k)) as [T2|[T2|T2]].
          + assert (Hcc : In c comb) by (apply Hcomb_In; right; exact Hc).
            destruct Hadj as [_ [_ [_ Hno]]]. exact (Hno c Hcc (conj T1 T2)).
          + exact (le_not_lt OL (HBmin c Hc (or_intror (eq_sym T2))) H2).
          + exact (le_not_lt OL (HBmin c Hc (or_introl T2)) H2). }
      right. split; [reflexivity|]. exists A, B. split; [|split; [exact HAB|split; assumption]].
      (* (A, B) has a combined point strictly inside, hence it was scheduled *)
      assert (Hob : oblig ltb s2 comb A B).
      { split; [exact HAB|].
        destruct HAle as [HAlt|HAeq].
        - exists (fst k). split; [apply Hadj|]. split; [exact HAlt|exact (lt_le_trans OL Hklt HBle)].
        - destruct HBle as [HBlt|HBeq].
          + exists (snd k). split; [apply Hadj|]. split; [rewrite HAeq; exact Hklt|exact HBlt].
          + exfalso. subst A B. destruct k as [p q]; cbn [fst snd] in *.
            apply (s_los_keys HI3) in HAB. apply (In_keys_lget OL) in HAB. change (los s3) with l in HAB. congruence. }
      pose proof (@ti_complete num ltb eqb inf OL s2 comb Hcomb_s
                    (fun z Hz => proj2 (Hcomb_In z) (or_intror Hz))
                    (fun iv => conj (fun H => proj1 (s_los_keys HI3 iv) (proj2 (In_keys_lget OL l iv) H))
                                    (fun H => proj1 (In_keys_lget OL l iv) (proj2 (s_los_keys HI3 iv) H)))
                    [] A B Hob) as Hti.
      rewrite Ebc in Hti. exact Hti.
  Qed.

  (* ---------------- histories including batched tells ---------------- *)
  Notation step := (@step num add sub mul div ltb eqb zero one inf neg_inf is_nan is_inf round12 of_nat L P).
  Notation run := (@run num add sub mul div ltb eqb zero one inf neg_inf is_nan is_inf round12 of_nat L P).
  Notation init := (@init num sub zero inf neg_inf P).
  Notation legal := (@L1DBatch.legal num add sub mul div ltb eqb zero one inf neg_inf is_nan is_inf round12 of_nat L P).
  Notation legal_op := (@L1DBatch.legal_op num sub mul div ltb eqb zero one inf is_nan L P).
  Notation Inv := (@L1DBatch.Inv num sub mul div ltb eqb zero one L P).

  Lemma step_cinv_full (s : st) o : Inv s -> CInv s -> legal_op s o = true -> CInv (fst (step s o)).
  Proof.
    intros [HI [HD HV]] HC Hl.
    destruct o as [x y|x|xys force| |n c].
    - apply (step_cinv add zero one neg_inf is_nan is_inf round12 of_nat L P OL (Tell x y) HI HC). exact Hl.
    - apply (step_cinv add zero one neg_inf is_nan is_inf round12 of_nat L P OL (TellPending x) HI HC). reflexivity.
    - cbn [L1D.step fst L1DBatch.legal_op] in *. unfold L1D.tell_many.
      destruct (negb force && negb ((length (data s) <? 2 * length xys) && (2 <? length xys))) eqn:Ec.
      + pose proof (step_cinv add zero one neg_inf is_nan is_inf round12 of_nat L P OL (TellMany xys force) HI HC) as H.
        cbn [L1D.step fst L1DStruct.legal_op] in H. unfold L1D.tell_many in H. rewrite Ec in H.
        apply H. rewrite Hl. reflexivity.
      + apply batch_cinv; assumption.
    - apply (step_cinv add zero one neg_inf is_nan is_inf round12 of_nat L P OL RemoveUnfinished HI HC). reflexivity.
    - apply (step_cinv add zero one neg_inf is_nan is_inf round12 of_nat L P OL (Ask n c) HI HC). reflexivity.
  Qed.

  Theorem combined_inv_full h : forall (s : st), Inv s -> CInv s -> legal s h = true -> CInv (run s h).
  Proof.
    induction h as [|o h IH]; intros s HI HC Hl; [exact HC|].
    change (run s (o :: h)) with (run (fst (step s o)) h).
    cbn [L1DBatch.legal] in Hl. apply andb_true_iff in Hl as [Hl1 Hl2].
    apply IH; [|apply step_cinv_full; assumption|exact Hl2].
    apply (L1DBatch.step_inv add inf neg_inf is_nan is_inf round12 of_nat OL); assumption.
  Qed.
End BatchC.
