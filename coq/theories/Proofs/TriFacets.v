(* Facet multiplicities under Bowyer-Watson, for every outcome of every geometric
   predicate: a facet that does NOT contain the vertex being inserted never ends
   up in more than two simplices.  Hence the pseudo-manifold clause of C03
   ("every facet belongs to at most two simplices") can only be broken AT the new
   vertex (a pinched / non-star-shaped cavity), never elsewhere in the
   triangulation.  Purely combinatorial; the geometric predicates stay oracles. *)
From AV Require Import Base.Prelude Base.NatSet Model.Tri Proofs.TriProofs.
From Coq Require Import Sorted FinFun.
Set Implicit Arguments.

(* multiplicity of the face [g] among the facets of the simplices [ss]: the
   quantity the code's hull property inspects (broken_faces / hull_faces) *)
Definition cf (g : simplex) (ss : list simplex) : nat := count_face g (all_faces ss).

Lemma cf_nil g : cf g [] = 0.
Proof. reflexivity. Qed.

Lemma cf_cons g s ss : cf g (s :: ss) = count_face g (drop_one s) + cf g ss.
Proof. unfold cf, all_faces, count_face. cbn [flat_map]. rewrite filter_app, app_length. reflexivity. Qed.

Lemma cf_app g a b : cf g (a ++ b) = cf g a + cf g b.
Proof. induction a as [|x a IH]; [reflexivity|]. cbn [app]. rewrite !cf_cons, IH. lia. Qed.

Lemma cf_incl g : forall a b, NoDup a -> incl a b -> cf g a <= cf g b.
Proof.
  induction a as [|x a IH]; intros b Hn Hi.
  - rewrite cf_nil. lia.
  - inversion Hn as [|? ? Hx Hn']; subst.
    destruct (in_split x b) as [b1 [b2 ->]]; [apply Hi; left; reflexivity|].
    assert (H : cf g a <= cf g (b1 ++ b2)).
    { apply IH; auto. intros y Hy. assert (Hy' : In y (b1 ++ x :: b2)) by (apply Hi; right; exact Hy).
      rewrite in_app_iff in *. cbn [In] in Hy'. destruct Hy' as [|[<-|]]; auto. contradiction. }
    rewrite cf_cons, !cf_app, cf_cons in *. lia.
Qed.

Lemma cf_partition g (p : simplex -> bool) : forall ss,
  cf g ss = cf g (filter p ss) + cf g (filter (fun s => negb (p s)) ss).
Proof.
  induction ss as [|s ss IH]; [reflexivity|]. cbn [filter]. destruct (p s); cbn [negb];
    rewrite !cf_cons, IH; lia.
Qed.

Lemma count_face_notin g : forall fs, ~ In g fs -> count_face g fs = 0.
Proof.
  induction fs as [|x fs IH]; intros H; [reflexivity|]. unfold count_face in *. cbn [filter].
  destruct (simplex_eqb g x) eqn:E.
  - apply simplex_eqb_eq in E. subst. exfalso. apply H. left; reflexivity.
  - apply IH. intros Hc. apply H. right; exact Hc.
Qed.

Lemma count_face_in g : forall fs, In g fs -> 1 <= count_face g fs.
Proof.
  induction fs as [|x fs IH]; intros H; [destruct H|]. unfold count_face in *. cbn [filter].
  destruct (simplex_eqb g x) eqn:E; [cbn [length]; lia|].
  destruct H as [->|H]; [rewrite simplex_eqb_refl in E; discriminate|auto].
Qed.

Lemma count_face_NoDup g : forall fs, NoDup fs -> count_face g fs <= 1.
Proof.
  induction fs as [|x fs IH]; intros Hn; [cbn; lia|]. inversion Hn as [|? ? Hx Hn']; subst.
  unfold count_face in *. cbn [filter]. destruct (simplex_eqb g x) eqn:E; [|auto].
  apply simplex_eqb_eq in E. subst. cbn [length]. fold (count_face x fs).
  rewrite count_face_notin; auto.
Qed.

Lemma cf_zero g : forall ss, (forall s, In s ss -> ~ In g (drop_one s)) -> cf g ss = 0.
Proof.
  induction ss as [|s ss IH]; intros H; [reflexivity|]. rewrite cf_cons, IH.
  - rewrite count_face_notin; [reflexivity|]. apply H. left; reflexivity.
  - intros s' Hs'. apply H. right; exact Hs'.
Qed.

Lemma cf_pos_ex g : forall ss, 1 <= cf g ss -> exists s, In s ss /\ In g (drop_one s).
Proof.
  induction ss as [|s ss IH]; intros H; [rewrite cf_nil in H; lia|]. rewrite cf_cons in H.
  destruct (In_dec_s g (drop_one s)) as [Hg|Hg].
  - exists s. split; [left; reflexivity|exact Hg].
  - rewrite count_face_notin in H by exact Hg. destruct (IH H) as [s' [H1 H2]].
    exists s'. split; [right; exact H1|exact H2].
Qed.

Lemma cf_in_pos g s ss : In s ss -> In g (drop_one s) -> 1 <= cf g ss.
Proof.
  intros Hs Hg. destruct (in_split _ _ Hs) as [a [b ->]]. rewrite cf_app, cf_cons.
  pose proof (count_face_in _ _ Hg). lia.
Qed.

(* ---------------- faces of sorted simplices ---------------- *)
Lemma drop_one_spec : forall s g, In g (drop_one s) ->
  exists v, forall x, In x s <-> x = v \/ In x g.
Proof.
  induction s as [|a l IH]; cbn [drop_one]; intros g Hg; [destruct Hg|].
  destruct Hg as [<-|Hg].
  - exists a. intros x. cbn [In]. intuition.
  - apply in_map_iff in Hg as [f [<- Hf]]. destruct (IH _ Hf) as [v Hv].
    exists v. intros x. cbn [In]. rewrite Hv. intuition.
Qed.

Lemma drop_one_sorted : forall s g, sorted s -> In g (drop_one s) -> sorted g.
Proof.
  induction s as [|a l IH]; cbn [drop_one]; intros g Hs Hg; [destruct Hg|].
  apply sorted_cons_inv in Hs as [Hs Hf]. destruct Hg as [<-|Hg]; [exact Hs|].
  apply in_map_iff in Hg as [f [<- Hf']]. constructor; [apply IH; auto|].
  rewrite Forall_forall in *. intros y Hy. apply Hf. eapply drop_one_incl; eauto.
Qed.

Lemma drop_one_NoDup : forall s, NoDup s -> NoDup (drop_one s).
Proof.
  induction s as [|a l IH]; intros Hn; cbn [drop_one]; [constructor|].
  inversion Hn as [|? ? Ha Hn']; subst. constructor.
  - rewrite in_map_iff. intros [f [Hf _]]. apply Ha. rewrite <- Hf. left; reflexivity.
  - apply Injective_map_NoDup; [|apply IH; exact Hn'].
    intros x y E. inversion E. reflexivity.
Qed.

Lemma count_face_sorted g s : sorted s -> count_face g (drop_one s) <= 1.
Proof. intros H. apply count_face_NoDup, drop_one_NoDup, sorted_NoDup, H. Qed.

(* the only sorted simplex that contains [pt] and has the [pt]-free face [g] *)
Lemma face_plus_vertex pt s g :
  sorted s -> In g (drop_one s) -> In pt s -> ~ In pt g -> s = nat_insert pt g.
Proof.
  intros Hs Hg Hp Hn. destruct (drop_one_spec _ _ Hg) as [v Hv].
  apply sorted_ext; auto.
  - apply nat_insert_sorted. eapply drop_one_sorted; eauto.
  - intros x. rewrite nat_insert_In, Hv.
    assert (pt = v) by (apply Hv in Hp; destruct Hp; [auto|contradiction]). subst v. tauto.
Qed.

Lemma nat_insert_inj pt f g :
  sorted f -> sorted g -> ~ In pt f -> ~ In pt g -> nat_insert pt f = nat_insert pt g -> f = g.
Proof.
  intros Hf Hg Hnf Hng E. apply sorted_ext; auto. intros x.
  assert (H : In x (nat_insert pt f) <-> In x (nat_insert pt g)) by (rewrite E; tauto).
  rewrite !nat_insert_In in H. split; intros Hx.
  - destruct (proj1 H (or_intror Hx)) as [->|]; [contradiction|auto].
  - destruct (proj2 H (or_intror Hx)) as [->|]; [contradiction|auto].
Qed.

(* at most one simplex of a duplicate-free list of sorted simplices can have
   the face [g] when all of those that do are equal to [s0] *)
Lemma cf_single g s0 : forall ss, NoDup ss -> (forall s, In s ss -> sorted s) ->
  (forall s, In s ss -> In g (drop_one s) -> s = s0) -> cf g ss <= 1.
Proof.
  induction ss as [|s ss IH]; intros Hn Hs H1; [rewrite cf_nil; lia|].
  inversion Hn as [|? ? Hx Hn']; subst. rewrite cf_cons.
  destruct (In_dec_s g (drop_one s)) as [Hg|Hg].
  - assert (s = s0) by (apply H1; [left; reflexivity|exact Hg]). subst s0.
    rewrite (cf_zero g ss).
    + pose proof (@count_face_sorted g s (Hs s (or_introl eq_refl))). lia.
    + intros s' Hs' Hg'. apply Hx. rewrite <- (H1 s' (or_intror Hs') Hg'). exact Hs'.
  - rewrite count_face_notin by exact Hg. cbn [plus]. apply IH; auto.
    + intros s' Hs'. apply Hs. right; exact Hs'.
    + intros s' Hs'. apply H1. right; exact Hs'.
Qed.

Lemma sadd_NoDup s l : NoDup l -> NoDup (sadd s l).
Proof.
  intros H. unfold sadd. destruct (smem s l) eqn:E; [exact H|].
  apply smem_false in E. apply NoDup_app_disj; auto.
  - constructor; [intros []|constructor].
  - intros x Hx [<-|[]]. contradiction.
Qed.

Lemma sremove_NoDup s l : NoDup l -> NoDup (sremove s l).
Proof. apply NoDup_filter. Qed.

(* ---------------- removing the new vertex from a face ---------------- *)
Lemma nat_remove_insert pt f : sorted f -> ~ In pt f -> nat_remove pt (nat_insert pt f) = f.
Proof.
  intros Hs Hn. apply sorted_ext; auto.
  - apply nat_remove_sorted, nat_insert_sorted, Hs.
  - intros x. rewrite nat_remove_In, nat_insert_In. split.
    + intros [[->|Hx] Hne]; [congruence|exact Hx].
    + intros Hx. split; [right; exact Hx|]. intros ->. contradiction.
Qed.

Lemma face_minus_vertex pt : forall s g, sorted s -> In g (drop_one s) -> In pt g ->
  In (nat_remove pt g) (drop_one (nat_remove pt s)).
Proof.
  induction s as [|a l IH]; cbn [drop_one]; intros g Hs Hg Hp; [destruct Hg|].
  pose proof (sorted_NoDup _ Hs) as Hnd. inversion Hnd as [|? ? Ha Hnd']; subst.
  apply sorted_cons_inv in Hs as [Hsl Hf].
  destruct Hg as [<-|Hg].
  - (* the head was dropped *)
    cbn [nat_remove]. destruct (Nat.eqb_spec pt a) as [->|Hne]; [contradiction|].
    cbn [drop_one]. left; reflexivity.
  - apply in_map_iff in Hg as [f [<- Hf']]. cbn [nat_remove].
    destruct (Nat.eqb_spec pt a) as [->|Hne].
    + assert (Haf : ~ In a f) by (intros Hc; apply Ha; eapply drop_one_incl; eauto).
      rewrite !nat_remove_notin by assumption. exact Hf'.
    + cbn [drop_one]. right. apply in_map. apply IH; auto.
      destruct Hp as [Hp|Hp]; [congruence|exact Hp].
Qed.

Lemma NoDup_map_on {A B} (f : A -> B) : forall l, NoDup l ->
  (forall x y, In x l -> In y l -> f x = f y -> x = y) -> NoDup (map f l).
Proof.
  induction l as [|a l IH]; intros Hn Hi; cbn [map]; [constructor|].
  inversion Hn as [|? ? Ha Hn']; subst. constructor.
  - intros Hc. apply in_map_iff in Hc as [y [Ey Hy]]. apply Ha.
    rewrite (Hi a y); auto; [left; reflexivity|right; exact Hy].
  - apply IH; auto. intros x y Hx Hy. apply Hi; right; assumption.
Qed.

Lemma cf_map_remove pt g : forall ss, (forall s, In s ss -> sorted s) -> In pt g ->
  cf g ss <= cf (nat_remove pt g) (map (nat_remove pt) ss).
Proof.
  induction ss as [|s ss IH]; intros Hs Hp; [rewrite cf_nil; lia|]. cbn [map]. rewrite !cf_cons.
  assert (H1 : count_face g (drop_one s) <= count_face (nat_remove pt g) (drop_one (nat_remove pt s))).
  { destruct (In_dec_s g (drop_one s)) as [Hg|Hg].
    - pose proof (@count_face_sorted g s (Hs s (or_introl eq_refl))).
      pose proof (count_face_in _ _ (face_minus_vertex pt _ (Hs s (or_introl eq_refl)) Hg Hp)). lia.
    - rewrite (count_face_notin _ _ Hg). lia. }
  assert (H2 : cf g ss <= cf (nat_remove pt g) (map (nat_remove pt) ss)).
  { apply IH; auto. intros s' Hs'. apply Hs. right; exact Hs'. }
  lia.
Qed.

(* ---------------- and back: adding the vertex to a face of the link ---------------- *)
Lemma nat_insert_head a r : (forall y, In y r -> a < y) -> nat_insert a r = a :: r.
Proof.
  destruct r as [|b r]; intros H; [reflexivity|]. cbn [nat_insert].
  destruct (Nat.ltb_spec a b) as [_|Hc]; [reflexivity|]. specialize (H b (or_introl eq_refl)). lia.
Qed.

Lemma nat_insert_remove pt l : sorted l -> In pt l -> nat_insert pt (nat_remove pt l) = l.
Proof.
  intros Hs Hp. apply sorted_ext; auto.
  - apply nat_insert_sorted, nat_remove_sorted, Hs.
  - intros x. rewrite nat_insert_In, nat_remove_In. split.
    + intros [->|[Hx _]]; assumption.
    + intros Hx. destruct (Nat.eq_dec x pt) as [->|Hne]; [left; reflexivity|right; split; assumption].
Qed.

Lemma face_plus_vertex_in pt : forall s r, sorted s -> In pt s ->
  In r (drop_one (nat_remove pt s)) -> In (nat_insert pt r) (drop_one s).
Proof.
  induction s as [|a l IH]; intros r Hs Hp Hr; [destruct Hp|].
  pose proof (sorted_NoDup _ Hs) as Hnd. inversion Hnd as [|? ? Ha Hnd']; subst.
  apply sorted_cons_inv in Hs as [Hsl Hf]. rewrite Forall_forall in Hf.
  cbn [nat_remove] in Hr. cbn [drop_one].
  destruct (Nat.eqb_spec pt a) as [->|Hne].
  - rewrite nat_remove_notin in Hr by exact Ha. right.
    rewrite nat_insert_head; [apply in_map; exact Hr|].
    intros y Hy. apply Hf. eapply drop_one_incl; eauto.
  - destruct Hp as [Hp|Hp]; [congruence|]. cbn [drop_one] in Hr. destruct Hr as [<-|Hr].
    + left. symmetry. apply nat_insert_remove; assumption.
    + apply in_map_iff in Hr as [r' [<- Hr']]. right.
      assert (Hlt : a < pt) by (apply Hf; exact Hp).
      cbn [nat_insert]. destruct (Nat.ltb_spec pt a) as [Hc|_]; [lia|].
      destruct (Nat.eqb_spec pt a) as [Hc|_]; [lia|]. apply in_map. apply IH; assumption.
Qed.

Lemma cf_map_remove_rev pt r : forall ss, (forall s, In s ss -> sorted s /\ In pt s) ->
  cf r (map (nat_remove pt) ss) <= cf (nat_insert pt r) ss.
Proof.
  induction ss as [|s ss IH]; intros Hs; [rewrite !cf_nil; lia|]. cbn [map]. rewrite !cf_cons.
  destruct (Hs s (or_introl eq_refl)) as [Hss Hps].
  assert (H1 : count_face r (drop_one (nat_remove pt s)) <= count_face (nat_insert pt r) (drop_one s)).
  { destruct (In_dec_s r (drop_one (nat_remove pt s))) as [Hr|Hr].
    - pose proof (@count_face_sorted r (nat_remove pt s) (nat_remove_sorted pt _ Hss)).
      pose proof (count_face_in _ _ (@face_plus_vertex_in pt s r Hss Hps Hr)). lia.
    - rewrite (count_face_notin _ _ Hr). lia. }
  assert (H2 : cf r (map (nat_remove pt) ss) <= cf (nat_insert pt r) ss).
  { apply IH. intros s' Hs'. apply Hs. right; exact Hs'. }
  lia.
Qed.

(* the link of vertex [pt]: the simplices around it with [pt] removed *)
Definition link_of (pt : nat) (ss : list simplex) : list simplex :=
  map (nat_remove pt) (filter (fun s => nat_mem pt s) ss).

Section TriFacets.
  Variable P : Type.
  Variable d : nat.
  Notation tri := (tri P).
  Notation Inv := (@Inv P).
  Implicit Types (t : tri) (s x g : simplex) (o : orc).
  Local Arguments inv_range {P t}.
  Local Arguments inv_index {P t}.
  Local Arguments fold_add_simplex_spec {P}.

  (* simplices are sorted tuples, the set of simplices has no duplicates *)
  Record WF t : Prop := {
    wf_sorted : forall s, In s (simplices t) -> sorted s;
    wf_nodup : NoDup (simplices t)
  }.

  Lemma add_simplex_WF t s : WF t -> sorted s -> WF (add_simplex t s).
  Proof.
    intros [H1 H2] Hs. constructor; rewrite add_simplex_simplices.
    - intros x Hx. apply sadd_In in Hx as [->|Hx]; auto.
    - apply sadd_NoDup; auto.
  Qed.

  Lemma delete_simplex_WF t s : WF t -> WF (delete_simplex t s).
  Proof.
    intros [H1 H2]. constructor; unfold delete_simplex; cbn [simplices].
    - intros x Hx. apply sremove_In in Hx as [Hx _]. auto.
    - apply sremove_NoDup; auto.
  Qed.

  Lemma fold_add_simplex_WF : forall news t, WF t -> (forall s, In s news -> sorted s) ->
    WF (fold_left (@add_simplex P) news t).
  Proof.
    induction news as [|s news IH]; intros t HW Hn; cbn [fold_left]; [exact HW|].
    apply IH.
    - apply add_simplex_WF; auto. apply Hn. left; reflexivity.
    - intros s' Hs'. apply Hn. right; exact Hs'.
  Qed.

  Lemma bw_loop_WF o : forall fuel t queue done bad t' bad',
    WF t -> bw_loop d o fuel t queue done bad = (t', bad') -> WF t'.
  Proof.
    induction fuel as [|fuel IH]; intros t queue done bad t' bad' HW E; cbn [bw_loop] in E.
    { inversion E; subst; exact HW. }
    destruct queue as [|s q0]; [inversion E; subst; exact HW|].
    destruct (o_incirc o s).
    - eapply IH in E; eauto. apply delete_simplex_WF; exact HW.
    - eapply IH in E; eauto.
  Qed.

  Lemma init_WF (vs : list P) ss : (forall s, In s ss -> sorted s) -> WF (init vs ss).
  Proof.
    intros H. unfold init. apply fold_add_simplex_WF; auto.
    constructor; cbn [simplices]; [intros s []|constructor].
  Qed.

  (* ---------------- Bowyer-Watson, old facets ---------------- *)
  (* [U] is the state handed to bowyer_watson (for the hull-extension path it
     already holds the temporary simplices); [T] are its simplices without
     [pt]; every simplex of [U] with [pt] stands on a face that has
     multiplicity one in [T] (a hull face). *)
  Lemma bw_old_facets o pt U seed t2 bad newt (T : list simplex) :
    Inv U -> WF U -> pt < nverts U -> (forall s, In s seed -> In s (simplices U)) ->
    bowyer_watson d o pt U seed = (t2, bad, newt) ->
    NoDup T -> (forall s, In s T <-> In s (simplices U) /\ ~ In pt s) ->
    (forall s, In s (simplices U) -> In pt s ->
       exists f, s = nat_insert pt f /\ ~ In pt f /\ sorted f /\ cf f T = 1) ->
    WF t2 /\
    forall g, ~ In pt g -> cf g T <= 2 -> cf g (simplices t2) <= 2.
  Proof.
    intros HI HW Hpt Hseed E HnT HT Hpts. unfold bowyer_watson in E.
    destruct (bw_loop d o (length (simplices U) + length seed + 1) U seed [] []) as [t1 bad1] eqn:El.
    inversion E; subst t2 bad newt; clear E.
    pose proof (@bw_loop_WF _ _ _ _ _ _ _ _ HW El) as HW1.
    apply bw_loop_spec in El; auto. destruct El as [H1 [H2 [H3 [H4 [H5 H6]]]]].
    assert (Hbad : forall s, In s bad1 -> In s (simplices U) /\ ~ In s (simplices t1)).
    { intros s Hs. destruct (H5 _ Hs) as [[]|Hb]; auto. }
    set (faces := filter (fun f => negb (nat_mem pt f)) (hole_faces bad1)) in *.
    assert (Hfaces : forall f, In f faces ->
              ~ In pt f /\ sorted f /\ exists b, In b bad1 /\ In f (drop_one b)).
    { intros f Hf. unfold faces in Hf. apply filter_In in Hf as [Hf Hn]. split.
      - intros Hc. apply nat_mem_In in Hc. rewrite Hc in Hn. discriminate.
      - unfold hole_faces in Hf. apply filter_In in Hf as [Hf _]. unfold all_faces in Hf.
        apply in_flat_map in Hf as [b [Hb Hfb]]. split; [|eauto].
        eapply drop_one_sorted; [|exact Hfb]. apply (wf_sorted HW). apply Hbad; exact Hb. }
    assert (Hnews : forall x, In x (new_from_faces o pt faces) ->
                     In pt x /\ sorted x /\ forall v, In v x -> v < nverts t1).
    { intros x Hx. apply new_from_faces_In in Hx as [f [Hf ->]].
      destruct (Hfaces _ Hf) as [Hnp [Hsf [b [Hb Hfb]]]]. split; [|split].
      - apply nat_insert_In. auto.
      - apply nat_insert_sorted; exact Hsf.
      - intros v Hv. unfold nverts. rewrite H2. fold (nverts U).
        apply nat_insert_In in Hv as [->|Hv]; auto.
        apply Hbad in Hb as [Hb _]. eapply (inv_range HI); eauto. eapply drop_one_incl; eauto. }
    destruct (fold_add_simplex_spec (new_from_faces o pt faces) t1) as [G1 [G2 G3]]; auto.
    { intros s v Hs Hv. apply Hnews in Hs as [_ [_ Hs]]. auto. }
    set (t2 := fold_left (@add_simplex P) (new_from_faces o pt faces) t1) in *.
    assert (HW2 : WF t2).
    { apply fold_add_simplex_WF; auto. intros s Hs. apply Hnews in Hs. tauto. }
    split; [exact HW2|]. intros g Hg Hle.
    set (nopt := fun s : simplex => negb (nat_mem pt s)).
    rewrite (cf_partition g nopt (simplices t2)).
    set (A := filter nopt (simplices t2)). set (B := filter (fun s => negb (nopt s)) (simplices t2)).
    assert (HA : forall s, In s A -> In s T /\ In s (simplices t1)).
    { intros s Hs. unfold A in Hs. apply filter_In in Hs as [Hs Hn]. unfold nopt in Hn.
      assert (Hnp : ~ In pt s).
      { intros Hc. apply nat_mem_In in Hc. rewrite Hc in Hn. discriminate. }
      apply G3 in Hs as [Hs|Hs]; [|apply Hnews in Hs; tauto].
      split; [apply HT; split; auto|exact Hs]. }
    assert (HnA : NoDup A) by (apply NoDup_filter, (wf_nodup HW2)).
    assert (HAT : cf g A <= cf g T).
    { apply cf_incl; auto. intros s Hs. apply HA; exact Hs. }
    assert (HB : forall s, In s B -> In s (simplices t2) /\ In pt s).
    { intros s Hs. unfold B in Hs. apply filter_In in Hs as [Hs Hn]. split; auto.
      unfold nopt in Hn. apply negb_true_iff, negb_false_iff, nat_mem_In in Hn. exact Hn. }
    assert (HB1 : cf g B <= 1).
    { apply cf_single with (s0 := nat_insert pt g).
      - apply NoDup_filter, (wf_nodup HW2).
      - intros s Hs. apply HB in Hs as [Hs _]. apply (wf_sorted HW2); exact Hs.
      - intros s Hs Hgs. destruct (HB _ Hs) as [Hs2 Hp].
        apply face_plus_vertex; auto. apply (wf_sorted HW2); exact Hs2. }
    destruct (Nat.eq_dec (cf g B) 0) as [E0|E0]; [fold A B; lia|].
    (* some simplex with pt stands on g: it is pt+g *)
    destruct (@cf_pos_ex g B) as [s0 [Hs0 Hg0]]; [lia|].
    destruct (HB _ Hs0) as [Hs02 Hp0].
    pose proof (wf_sorted HW2 s0 Hs02) as Hsorted0.
    assert (Hsg : sorted g) by (eapply drop_one_sorted; eauto).
    assert (Es0 : s0 = nat_insert pt g) by (apply face_plus_vertex; auto).
    (* a hull face has multiplicity one *)
    assert (Hhull : In s0 (simplices U) -> cf g T = 1).
    { intros Hu. destruct (Hpts _ Hu Hp0) as [f [Ef [Hnf [Hsf Hc]]]].
      assert (f = g) by (eapply nat_insert_inj; eauto; congruence). subst f. exact Hc. }
    assert (HA1 : cf g A <= 1).
    { apply G3 in Hs02 as [Hs02|Hs02].
      - (* a surviving simplex of U that contains pt *)
        rewrite <- Hhull; auto.
      - (* a new simplex: g is a face of the hole *)
        apply new_from_faces_In in Hs02 as [f [Hf Ef]].
        destruct (Hfaces _ Hf) as [Hnf [Hsf [b [Hb Hfb]]]].
        assert (f = g) by (eapply nat_insert_inj; eauto; congruence). subst f.
        destruct (Hbad _ Hb) as [HbU Hbt1].
        destruct (in_dec Nat.eq_dec pt b) as [Hpb|Hpb].
        + assert (b = nat_insert pt g).
          { apply face_plus_vertex; auto. apply (wf_sorted HW); exact HbU. }
          rewrite <- Hhull; auto. congruence.
        + (* b is an old simplex with face g that was removed *)
          assert (HbT : In b T) by (apply HT; auto).
          assert (Hinc : cf g (b :: A) <= cf g T).
          { apply cf_incl.
            - constructor; auto. intros Hc. apply HA in Hc. tauto.
            - intros s [<-|Hs]; auto. apply HA; exact Hs. }
          rewrite cf_cons in Hinc. pose proof (count_face_in _ _ Hfb). lia. }
    fold A B. lia.
  Qed.

  (* ---------------- Bowyer-Watson, facets at the new vertex ---------------- *)
  (* when no simplex of the state handed to bowyer_watson contains [pt] (the
     point lies inside the hull), a facet WITH [pt] is in at most as many
     simplices afterwards as the ridge [g - pt] has faces of the cavity boundary
     around it *)
  Lemma bw_new_facets o pt U seed t2 bad newt :
    Inv U -> WF U -> pt < nverts U -> (forall s, In s seed -> In s (simplices U)) ->
    (forall s, In s (simplices U) -> ~ In pt s) ->
    bowyer_watson d o pt U seed = (t2, bad, newt) ->
    forall g, In pt g -> cf g (simplices t2) <= cf (nat_remove pt g) (hole_faces bad).
  Proof.
    intros HI HW Hpt Hseed Hold E g Hg. unfold bowyer_watson in E.
    destruct (bw_loop d o (length (simplices U) + length seed + 1) U seed [] []) as [t1 bad1] eqn:El.
    inversion E; subst t2 bad newt; clear E.
    pose proof (@bw_loop_WF _ _ _ _ _ _ _ _ HW El) as HW1.
    apply bw_loop_spec in El; auto. destruct El as [H1 [H2 [H3 [H4 [H5 H6]]]]].
    assert (Hbad : forall s, In s bad1 -> In s (simplices U) /\ ~ In s (simplices t1)).
    { intros s Hs. destruct (H5 _ Hs) as [[]|Hb]; auto. }
    set (faces := filter (fun f => negb (nat_mem pt f)) (hole_faces bad1)) in *.
    assert (Hfaces : forall f, In f faces -> ~ In pt f /\ sorted f /\ In f (hole_faces bad1)).
    { intros f Hf. unfold faces in Hf. apply filter_In in Hf as [Hf Hn]. split; [|split; [|exact Hf]].
      - intros Hc. apply nat_mem_In in Hc. rewrite Hc in Hn. discriminate.
      - unfold hole_faces in Hf. apply filter_In in Hf as [Hf _]. unfold all_faces in Hf.
        apply in_flat_map in Hf as [b [Hb Hfb]].
        eapply drop_one_sorted; [|exact Hfb]. apply (wf_sorted HW). apply Hbad; exact Hb. }
    assert (Hnews : forall x, In x (new_from_faces o pt faces) ->
                     In pt x /\ sorted x /\ forall v, In v x -> v < nverts t1).
    { intros x Hx. apply new_from_faces_In in Hx as [f [Hf ->]].
      destruct (Hfaces _ Hf) as [Hnp [Hsf Hh]]. split; [|split].
      - apply nat_insert_In. auto.
      - apply nat_insert_sorted; exact Hsf.
      - intros v Hv. unfold nverts. rewrite H2. fold (nverts U).
        apply nat_insert_In in Hv as [->|Hv]; auto.
        unfold hole_faces in Hh. apply filter_In in Hh as [Hh _]. unfold all_faces in Hh.
        apply in_flat_map in Hh as [b [Hb Hfb]].
        apply Hbad in Hb as [Hb _]. eapply (inv_range HI); eauto. eapply drop_one_incl; eauto. }
    destruct (fold_add_simplex_spec (new_from_faces o pt faces) t1) as [G1 [G2 G3]]; auto.
    { intros s v Hs Hv. apply Hnews in Hs as [_ [_ Hs]]. auto. }
    set (t2 := fold_left (@add_simplex P) (new_from_faces o pt faces) t1) in *.
    assert (HW2 : WF t2).
    { apply fold_add_simplex_WF; auto. intros s Hs. apply Hnews in Hs. tauto. }
    set (nopt := fun s : simplex => negb (nat_mem pt s)).
    rewrite (cf_partition g nopt (simplices t2)).
    set (A := filter nopt (simplices t2)). set (B := filter (fun s => negb (nopt s)) (simplices t2)).
    assert (HA0 : cf g A = 0).
    { apply cf_zero. intros s Hs Hgs. unfold A in Hs. apply filter_In in Hs as [_ Hn]. unfold nopt in Hn.
      apply negb_true_iff in Hn. assert (Hc : nat_mem pt s = true); [|rewrite Hc in Hn; discriminate].
      apply nat_mem_In. eapply drop_one_incl; eauto. }
    assert (HB : forall s, In s B -> exists f, In f faces /\ s = nat_insert pt f).
    { intros s Hs. unfold B in Hs. apply filter_In in Hs as [Hs Hn].
      unfold nopt in Hn. apply negb_true_iff, negb_false_iff, nat_mem_In in Hn.
      apply G3 in Hs as [Hs|Hs]; [exfalso; apply (Hold s); auto|].
      apply new_from_faces_In in Hs. exact Hs. }
    assert (HsB : forall s, In s B -> sorted s).
    { intros s Hs. apply HB in Hs as [f [Hf ->]]. apply nat_insert_sorted. apply Hfaces; exact Hf. }
    rewrite HA0. cbn [plus].
    eapply Nat.le_trans; [apply (@cf_map_remove pt g B HsB Hg)|].
    apply cf_incl.
    - apply NoDup_map_on; [apply NoDup_filter, (wf_nodup HW2)|].
      intros x y Hx Hy Exy. apply HB in Hx as [fx [Hfx ->]]. apply HB in Hy as [fy [Hfy ->]].
      destruct (Hfaces _ Hfx) as [Nx [Sx _]]. destruct (Hfaces _ Hfy) as [Ny [Sy _]].
      rewrite !nat_remove_insert in Exy by assumption. congruence.
    - intros r Hr. apply in_map_iff in Hr as [s [<- Hs]]. apply HB in Hs as [f [Hf ->]].
      destruct (Hfaces _ Hf) as [Nf [Sf Hh]]. rewrite nat_remove_insert by assumption. exact Hh.
  Qed.

  (* ---------------- one insertion ---------------- *)
  Lemma WF_same_simplices t t' : simplices t' = simplices t -> WF t -> WF t'.
  Proof. intros E [H1 H2]. constructor; rewrite E; auto. Qed.

  Lemma hull_candidates_face o t x :
    Inv t -> WF t -> In x (hull_candidates o (nverts t) t) ->
    exists f, x = nat_insert (nverts t) f /\ ~ In (nverts t) f /\ sorted f /\ cf f (simplices t) = 1.
  Proof.
    intros HI HW Hx. unfold hull_candidates in Hx. apply new_from_faces_In in Hx as [f [Hf ->]].
    exists f. split; [reflexivity|]. apply filter_In in Hf as [Hf _]. unfold hull_faces in Hf.
    apply filter_In in Hf as [Hf Hc]. apply Nat.eqb_eq in Hc.
    pose proof Hf as Hf'. unfold all_faces in Hf'. apply in_flat_map in Hf' as [b [Hb Hfb]].
    split; [|split].
    - intros Hin. pose proof (inv_range HI _ _ Hb (drop_one_incl _ _ _ Hfb Hin)). lia.
    - eapply drop_one_sorted; [|exact Hfb]. apply (wf_sorted HW). exact Hb.
    - exact Hc.
  Qed.

  Lemma add_point_facets t p hint o t' r :
    Inv t -> WF t -> legal_op t (AddPoint p hint o) = true ->
    add_point d t p hint o = (t', r) ->
    WF t' /\ forall g, ~ In (nverts t) g -> cf g (simplices t) <= 2 -> cf g (simplices t') <= 2.
  Proof.
    intros HI HW Hleg E. unfold add_point in E. cbn [legal_op] in Hleg. fold (loc_of hint o) in *.
    set (tb := mk (verts t ++ [p]) (simplices t) (v2s t ++ [[]])) in *.
    assert (Htb : Inv tb) by (apply base_Inv; auto).
    assert (HWb : WF tb) by (apply (@WF_same_simplices t); auto).
    assert (Hnb : nverts tb = S (nverts t)).
    { unfold nverts, tb; cbn [verts]. rewrite app_length. cbn [length]. lia. }
    destruct (loc_of hint o) as [|l0 loc] eqn:Eloc.
    - destruct (broken_faces (all_faces (simplices t))) eqn:Eb.
      { inversion E; subst. split; [apply (@WF_same_simplices t); auto|auto]. }
      destruct (hull_candidates o (nverts t) t) as [|c temp'] eqn:Et.
      { inversion E; subst. split; [apply (@WF_same_simplices t); auto|auto]. }
      rewrite <- Et in E. set (temp := hull_candidates o (nverts t) t) in *.
      destruct (fold_add_simplex_spec temp tb) as [G1 [G2 G3]]; auto.
      { intros s v Hs Hv. rewrite Hnb. apply (hull_candidates_spec _ o t _ HI) in Hs as [_ Hs]. specialize (Hs _ Hv). lia. }
      set (t1 := fold_left (@add_simplex P) temp tb) in *.
      assert (HW1 : WF t1).
      { apply fold_add_simplex_WF; auto. intros s Hs.
        destruct (@hull_candidates_face o t s HI HW Hs) as [f [-> [_ [Hsf _]]]]. apply nat_insert_sorted; exact Hsf. }
      assert (HS1 : forall s, In s (simplices t1) <-> In s (simplices t) \/ In s temp).
      { intros s. rewrite G3. unfold tb; cbn [simplices]. tauto. }
      destruct (bowyer_watson d o (nverts t) t1 (nth (nverts t) (v2s t1) [])) as [[t2 bad] newt] eqn:Ebw.
      inversion E; subst t' r; clear E.
      eapply bw_old_facets with (T := simplices t) in Ebw; auto.
      + unfold nverts at 2. rewrite G2. fold (nverts tb). lia.
      + intros s Hs. apply (inv_index G1) in Hs. tauto.
      + apply (wf_nodup HW).
      + intros s. rewrite HS1. split.
        * intros Hs. split; [auto|apply pt_not_in_old; auto].
        * intros [[Hs|Hs] Hn]; [exact Hs|]. apply (hull_candidates_spec _ o t _ HI) in Hs. tauto.
      + intros s Hs Hp. apply HS1 in Hs as [Hs|Hs].
        * exfalso. exact (pt_not_in_old _ t s HI Hs Hp).
        * apply (@hull_candidates_face o t s); auto.
    - assert (Hloc : In (l0 :: loc) (simplices t)) by (apply smem_In; exact Hleg).
      destruct (o_reduce o) as [|r0 [|r1 red]] eqn:Er.
      { inversion E; subst. split; [apply (@WF_same_simplices t); auto|auto]. }
      { inversion E; subst. split; [apply (@WF_same_simplices t); auto|auto]. }
      destruct (bowyer_watson d o (nverts t) tb (@cons simplex (l0 :: loc) nil)) as [[t2 bad] newt] eqn:Ebw.
      inversion E; subst t' r; clear E.
      eapply bw_old_facets with (T := simplices t) in Ebw; auto.
      + lia.
      + intros s [<-|[]]; exact Hloc.
      + apply (wf_nodup HW).
      + intros s. unfold tb; cbn [simplices]. split; [|tauto].
        intros Hs. split; [auto|apply pt_not_in_old; auto].
      + intros s Hs Hp. exfalso. exact (pt_not_in_old _ t s HI Hs Hp).
  Qed.

  Lemma sdiff_disjoint (a b : list simplex) : (forall x, In x a -> ~ In x b) -> sdiff a b = a.
  Proof.
    induction a as [|x a IH]; intros H; [reflexivity|]. unfold sdiff in *. cbn [filter].
    assert (E : smem x b = false) by (apply smem_false; apply H; left; reflexivity).
    rewrite E. cbn [negb]. f_equal. apply IH. intros y Hy. apply H. right; exact Hy.
  Qed.

  (* a point inserted inside the hull (located / hinted simplex): the reported
     [del] is the cavity, and a facet with the new vertex is in at most as many
     simplices as the ridge under it has faces of the cavity boundary *)
  Lemma add_point_interior t p hint o t' del add :
    Inv t -> WF t -> legal_op t (AddPoint p hint o) = true -> loc_of hint o <> [] ->
    add_point d t p hint o = (t', Accepted del add) ->
    forall g, In (nverts t) g -> cf g (simplices t') <= cf (nat_remove (nverts t) g) (hole_faces del).
  Proof.
    intros HI HW Hleg Hne E. unfold add_point in E. cbn [legal_op] in Hleg. fold (loc_of hint o) in *.
    set (tb := mk (verts t ++ [p]) (simplices t) (v2s t ++ [[]])) in *.
    assert (Htb : Inv tb) by (apply base_Inv; auto).
    assert (HWb : WF tb) by (apply (@WF_same_simplices t); auto).
    assert (Hnb : nverts tb = S (nverts t)).
    { unfold nverts, tb; cbn [verts]. rewrite app_length. cbn [length]. lia. }
    destruct (loc_of hint o) as [|l0 loc] eqn:Eloc; [congruence|].
    assert (Hloc : In (l0 :: loc) (simplices t)) by (apply smem_In; exact Hleg).
    destruct (o_reduce o) as [|r0 [|r1 red]] eqn:Er; [inversion E|inversion E|].
    destruct (bowyer_watson d o (nverts t) tb (@cons simplex (l0 :: loc) nil)) as [[t2 bad] newt] eqn:Ebw.
    inversion E; subst t' del add; clear E.
    assert (Hold : forall s, In s (simplices tb) -> ~ In (nverts t) s).
    { intros s Hs. apply pt_not_in_old; auto. }
    assert (Hseed : forall s, In s [l0 :: loc] -> In s (simplices tb)).
    { intros s [<-|[]]; exact Hloc. }
    assert (Hpt : nverts t < nverts tb) by lia.
    pose proof Ebw as Ebw'. apply bowyer_watson_spec in Ebw'; auto.
    destruct Ebw' as [_ [_ [BA [_ [_ [_ BE]]]]]].
    rewrite sdiff_disjoint.
    - intros g Hg. apply (@bw_new_facets o (nverts t) tb [l0 :: loc] t2 bad newt); auto.
    - intros x Hx Hc. apply BE in Hc as [_ Hc]. apply BA in Hx. exact (Hold x Hx Hc).
  Qed.

  (* the model's own hull property speaks about the same multiplicities *)
  Lemma broken_faces_false ss :
    broken_faces (all_faces ss) = false <-> forall g, cf g ss <= 2.
  Proof.
    unfold broken_faces, cf. split.
    - intros H g. destruct (In_dec_s g (all_faces ss)) as [Hg|Hg].
      + destruct (Nat.ltb_spec 2 (count_face g (all_faces ss))) as [Hc|Hc]; [|exact Hc].
        exfalso. assert (Ht : existsb (fun f => 2 <? count_face f (all_faces ss)) (all_faces ss) = true).
        { apply existsb_exists. exists g. split; auto. apply Nat.ltb_lt; exact Hc. }
        rewrite Ht in H. discriminate.
      + rewrite count_face_notin by exact Hg. lia.
    - intros H. destruct (existsb _ _) eqn:Ex; [|reflexivity].
      apply existsb_exists in Ex as [g [_ Hg]]. apply Nat.ltb_lt in Hg. specialize (H g). lia.
  Qed.

  (* ---------------- histories ---------------- *)
  Notation op := (op P).

  Lemma run_WF : forall (h : list op) t, Inv t -> WF t -> legal d t h = true -> WF (run d t h).
  Proof.
    induction h as [|a h IH]; intros t HI HW Hl; [exact HW|].
    cbn [legal] in Hl. apply andb_true_iff in Hl as [Ha Hl]. rewrite run_cons. apply IH; auto.
    - apply step_Inv; auto.
    - destruct a as [p hint o]. cbn [step]. destruct (add_point d t p hint o) as [t' r] eqn:E.
      cbn [fst]. eapply add_point_facets in E; eauto. tauto.
  Qed.

  Section AtState.
    Variables (vs : list P) (ss : list simplex) (h : list op).
    Variables (p : P) (hint : option simplex) (o : orc).
    Hypothesis Hw : wf_init vs ss.
    Hypothesis Hsorted : forall s, In s ss -> sorted s.
    Hypothesis Hl : legal d (init vs ss) (h ++ [AddPoint p hint o]) = true.
    Let t := reach d vs ss h.
    Let t' := fst (add_point d t p hint o).

    Lemma reach_WF : WF t.
    Proof.
      apply legal_app in Hl as [H1 _]. apply run_WF; auto; [apply init_Inv; auto|apply init_WF; auto].
    Qed.

    (* a facet without the new vertex is in at most two simplices afterwards *)
    Theorem old_facets_stay_le2 g :
      ~ In (nverts t) g -> cf g (simplices t) <= 2 -> cf g (simplices t') <= 2.
    Proof.
      destruct (at_state P d vs ss h p hint o Hw Hl) as [HI Hleg]. fold t in HI, Hleg.
      unfold t'. destruct (add_point d t p hint o) as [t2 r] eqn:E. cbn [fst].
      eapply add_point_facets in E; eauto using reach_WF. destruct E as [_ E]. apply E.
    Qed.

    (* if the triangulation had the hull property before the insertion and a
       facet is in three or more simplices afterwards, that facet contains the
       vertex just inserted *)
    Theorem first_overlap_at_new_vertex g :
      broken_faces (all_faces (simplices t)) = false ->
      2 < cf g (simplices t') -> In (nverts t) g.
    Proof.
      intros Hb Hc. destruct (in_dec Nat.eq_dec (nverts t) g) as [Hin|Hin]; [exact Hin|].
      exfalso. pose proof (proj1 (broken_faces_false _) Hb g) as Hle.
      pose proof (@old_facets_stay_le2 g Hin Hle). lia.
    Qed.

    (* simplices stay sorted duplicate-free tuples *)
    Theorem simplices_sorted_nodup :
      NoDup (simplices t') /\ forall s, In s (simplices t') -> sorted s.
    Proof.
      destruct (at_state P d vs ss h p hint o Hw Hl) as [HI Hleg]. fold t in HI, Hleg.
      unfold t'. destruct (add_point d t p hint o) as [t2 r] eqn:E. cbn [fst].
      eapply add_point_facets in E; eauto using reach_WF. destruct E as [[E1 E2] _]. split; auto.
    Qed.
    (* a point inserted inside the hull whose cavity boundary is a closed
       pseudo-manifold (every ridge in at most two boundary faces -- what a
       star-shaped cavity gives) keeps the hull property: EVERY facet is in at
       most two simplices afterwards *)
    Theorem closed_cavity_keeps_hull_property del add :
      loc_of hint o <> [] ->
      snd (add_point d t p hint o) = Accepted del add ->
      broken_faces (all_faces (simplices t)) = false ->
      (forall r, cf r (hole_faces del) <= 2) ->
      broken_faces (all_faces (simplices t')) = false.
    Proof.
      intros Hne Hr Hb Hridge. destruct (at_state P d vs ss h p hint o Hw Hl) as [HI Hleg]. fold t in HI, Hleg.
      apply broken_faces_false. intros g.
      destruct (in_dec Nat.eq_dec (nverts t) g) as [Hin|Hin].
      - unfold t'. destruct (add_point d t p hint o) as [t2 r] eqn:E. cbn [fst snd] in *. subst r.
        eapply Nat.le_trans; [eapply add_point_interior; eauto using reach_WF|apply Hridge].
      - apply old_facets_stay_le2; auto. apply broken_faces_false; exact Hb.
    Qed.
    (* both paths of add_point: if the link of the new vertex is a
       pseudo-manifold (every ridge of the link in at most two of its faces),
       every facet of the triangulation is in at most two simplices *)
    Theorem link_manifold_keeps_hull_property :
      broken_faces (all_faces (simplices t)) = false ->
      (forall r, cf r (link_of (nverts t) (simplices t')) <= 2) ->
      broken_faces (all_faces (simplices t')) = false.
    Proof.
      intros Hb Hlink. apply broken_faces_false. intros g.
      destruct (in_dec Nat.eq_dec (nverts t) g) as [Hin|Hin].
      - destruct simplices_sorted_nodup as [_ Hsrt].
        rewrite (cf_partition g (fun s => nat_mem (nverts t) s) (simplices t')).
        rewrite (cf_zero g (filter (fun s => negb (nat_mem (nverts t) s)) (simplices t'))).
        + rewrite Nat.add_0_r. eapply Nat.le_trans; [|apply (Hlink (nat_remove (nverts t) g))].
          unfold link_of. apply cf_map_remove; [|exact Hin].
          intros s Hs. apply filter_In in Hs as [Hs _]. apply Hsrt; exact Hs.
        + intros s Hs Hgs. apply filter_In in Hs as [_ Hn]. apply negb_true_iff in Hn.
          assert (Hc : nat_mem (nverts t) s = true); [|rewrite Hc in Hn; discriminate].
          apply nat_mem_In. eapply drop_one_incl; eauto.
      - apply old_facets_stay_le2; auto. apply broken_faces_false; exact Hb.
    Qed.
    (* ... and conversely: a triangulation with the hull property has a
       pseudo-manifold link at the new vertex *)
    Theorem hull_property_gives_link_manifold :
      broken_faces (all_faces (simplices t')) = false ->
      forall r, cf r (link_of (nverts t) (simplices t')) <= 2.
    Proof.
      intros Hb r. destruct simplices_sorted_nodup as [_ Hsrt].
      pose proof (proj1 (broken_faces_false _) Hb (nat_insert (nverts t) r)) as Hle.
      unfold link_of. eapply Nat.le_trans; [apply cf_map_remove_rev|].
      - intros s Hs. apply filter_In in Hs as [Hs Hm]. split; [apply Hsrt; exact Hs|apply nat_mem_In; exact Hm].
      - eapply Nat.le_trans; [|exact Hle].
        rewrite (cf_partition (nat_insert (nverts t) r) (fun s => nat_mem (nverts t) s) (simplices t')). apply Nat.le_add_r.
    Qed.
  End AtState.
End TriFacets.
