(* History-level corollaries used by Props/C15.v. *)
From AV Require Import Base.Prelude Model.GenericLearner Model.Balancing
  Proofs.BalancingProofs Proofs.BalancingOrder Proofs.BalancingCoh Proofs.BalancingStrat Proofs.BalancingProv.
Set Implicit Arguments.

Section Main.
  Variable L : Learner.
  Implicit Types (s pre : bst L) (tp : list nat).

  Lemma npoints_hist rep s n :
    strat s = SNpoints ->
    (forall pre tp i p v,
       In ((pre, tp), ((i, p), v)) (loop_trace (body_of rep (strat s)) n s (total_points s)) ->
       exists t, nth_error tp i = Some t /\
                 (forall j tj, nth_error tp j = Some tj -> t <= tj) /\
                 (forall j tj, j < i -> nth_error tp j = Some tj -> t < tj)) /\
    (forall m pre tp e,
       nth_error (loop_trace (body_of rep (strat s)) n s (total_points s)) m = Some ((pre, tp), e) ->
       tp = fold_left (fun t i => list_inc i t)
              (map (fun x => fst (fst (snd x)))
                   (firstn m (loop_trace (body_of rep (strat s)) n s (total_points s))))
              (map (fun k => npoints L k + length (pending L k)) (kids s))).
  Proof.
    intros Hs. rewrite Hs. cbn [body_of]. split.
    - intros pre tp i p v Hin. eapply npoints_strategy; eauto.
    - intros m pre tp e Hn. apply (@trace_counts L (np_body rep)) with (pre := pre) (e := e); [|exact Hn].
      intros s0 tp0 s1 tp' [[i p] v] Hb. apply np_body_spec in Hb as [-> _]. reflexivity.
  Qed.

  Lemma cycle_hist rep ks st h n :
    ks <> [] -> legal h = true ->
    let s := run rep (init L ks st) h in
    failed s = false -> strat s = SCycle ->
    failed (fst (bask rep s n true)) = false ->
    map (fun e => fst (fst e)) (snd (bask rep s n true)) =
      map (fun t => (cyc s + t) mod length ks) (seq 0 n) /\
    cyc (fst (bask rep s n true)) = (cyc s + n) mod length ks /\
    length (snd (bask rep s n true)) = n.
  Proof.
    intros Hne Hl s Hf Hs Hf2.
    destruct (@shape_inv L rep ks st h Hne Hl Hf) as [H1 H2]. fold s in H1, H2.
    destruct (@cycle_ask L rep s n Hs) as [E1 E2]; [rewrite H1; exact H2|exact Hf2|].
    rewrite H1 in E1, E2. split; [exact E1|]. split; [exact E2|].
    apply (bask_trace rep s n Hf2).
  Qed.

  Hypothesis Hnc : forall k : state L, snd (ask L k 1 false) = k.
  Hypothesis NL : NumLaws L.

  Lemma loss_is_max_hist ks st h real m :
    legal h = true ->
    let s := run true (init L ks st) h in
    failed s = false -> snd (bloss s real) = Some m ->
    (exists k, In k (kids s) /\ m = loss L k real) /\
    (forall k, In k (kids s) -> nltb L m (loss L k real) = false) /\
    kids (fst (bloss s real)) = kids s.
  Proof.
    intros Hl s Hf Hm. eapply loss_is_max; [exact NL| |exact Hm].
    apply (cache_coherent Hnc); assumption.
  Qed.

  Lemma improvement_hist ks st h n :
    legal h = true ->
    let s := run true (init L ks st) h in
    failed s = false -> strat s = SImp ->
    forall pre tp i p v,
      In ((pre, tp), ((i, p), v)) (loop_trace (body_of true (strat s)) n s (total_points s)) ->
      exists ki ps vs, nth_error (kids pre) i = Some ki /\
        fst (ask L ki 1 false) = (p :: ps, v :: vs) /\
        forall j kj pj psj vj vsj, nth_error (kids pre) j = Some kj ->
          fst (ask L kj 1 false) = (pj :: psj, vj :: vsj) ->
          nltb L v vj = false /\ kgt L (vj, nth j tp 0) (v, nth i tp 0) = false.
  Proof.
    intros Hl s Hf Hs pre tp i p v Hin. rewrite Hs in Hin. cbn [body_of] in Hin.
    destruct (@improvement_strategy L Hnc NL s n pre tp i p v) as [ki [ps [vs [H1 [H2 H3]]]]];
      [apply (cache_coherent Hnc); assumption|exact Hin|].
    exists ki, ps, vs. split; [exact H1|]. split; [exact H2|].
    intros j kj pj psj vj vsj Hj Ha. specialize (H3 j kj pj psj vj vsj Hj Ha).
    split; [apply (kgt_false_fst NL) in H3; exact H3|exact H3].
  Qed.

  Lemma loss_hist ks st h n :
    legal h = true ->
    let s := run true (init L ks st) h in
    failed s = false -> strat s = SLoss ->
    forall pre tp i p v,
      In ((pre, tp), ((i, p), v)) (loop_trace (body_of true (strat s)) n s (total_points s)) ->
      exists ki, nth_error (kids pre) i = Some ki /\
        forall j kj, nth_error (kids pre) j = Some kj ->
          nltb L (loss L ki false) (loss L kj false) = false /\
          kgt L (loss L kj false, nth j tp 0) (loss L ki false, nth i tp 0) = false.
  Proof.
    intros Hl s Hf Hs pre tp i p v Hin. rewrite Hs in Hin. cbn [body_of] in Hin.
    destruct (@loss_strategy L Hnc NL s n pre tp i p v) as [ki [H1 H3]];
      [apply (cache_coherent Hnc); assumption|exact Hin|].
    exists ki. split; [exact H1|]. intros j kj Hj. specialize (H3 j kj Hj).
    split; [apply (kgt_false_fst NL) in H3; exact H3|exact H3].
  Qed.
End Main.
