(* Bookkeeping lemmas shared by properties C09 (asking without committing is
   invisible; committing is the same ask) and C10 (telling is faithful
   bookkeeping), for the two hand-written learner models:
     Module SeqBK : Model/Seq.v  (SequenceLearner)
     Module L1DBK : Model/L1D.v  (Learner1D), generic in the number type,
                    under the order laws [OrderLaws] (inhabited: Z).
   Both models share constructor / function names, hence the two modules. *)
From AV Require Import Base.Prelude Base.NatSet.
From AV Require Model.Seq Proofs.SeqProofs Model.L1D Proofs.L1DProofs.
From Coq Require Import Sorted ZArith.

(* ====================================================================== *)
Module SeqBK.
Import AV.Model.Seq AV.Proofs.SeqProofs.

Section S.
  Variable V : Type.
  Notation st := (st V).
  Notation op := (op V).
  Implicit Types (s : st) (o : op) (h : list op).

  (* ---------------- C09 ---------------- *)
  Theorem seq_ask_noop s k :
    fst (ask s k false) = s /\
    (forall h, run (fst (ask s k false)) h = run s h) /\
    (forall k' c, ask (fst (ask s k false)) k' c = ask s k' c) /\
    snd (ask (fst (ask s k false)) k false) = snd (ask s k false).
  Proof. repeat split. Qed.

  Theorem seq_ask_commit s k :
    snd (ask s k true) = snd (ask s k false) /\
    fst (ask s k true) = fold_left (@tell_pending V) (snd (ask s k false)) (fst (ask s k false)).
  Proof. split; reflexivity. Qed.

  (* ---------------- C10: data ---------------- *)
  Lemma assoc_In_keys i (d : list (nat * V)) : In i (map fst d) <-> assoc V i d <> None.
  Proof.
    induction d as [|[j w] d IH]; cbn [map fst In assoc]; [tauto|].
    destruct (Nat.eqb_spec i j) as [E|E].
    - subst. split; [discriminate|auto].
    - rewrite IH. split; [intros [?|?]; [congruence|assumption]|auto].
  Qed.

  (* a list with strictly increasing keys is determined by its lookups *)
  Lemma data_determined (d1 : list (nat * V)) : forall d2,
    sorted (map fst d1) -> sorted (map fst d2) ->
    (forall k, assoc V k d1 = assoc V k d2) -> d1 = d2.
  Proof.
    induction d1 as [|[j w] d1 IH]; intros [|[j' w'] d2] H1 H2 He.
    - reflexivity.
    - specialize (He j'). cbn [assoc] in He. rewrite Nat.eqb_refl in He. discriminate.
    - specialize (He j). cbn [assoc] in He. rewrite Nat.eqb_refl in He. discriminate.
    - cbn [map fst] in H1, H2.
      apply sorted_cons_inv in H1 as [H1 F1]. apply sorted_cons_inv in H2 as [H2 F2].
      rewrite Forall_forall in F1, F2.
      assert (Ej : j = j').
      { pose proof (He j) as A. pose proof (He j') as B. cbn [assoc] in A, B.
        rewrite Nat.eqb_refl in A, B.
        destruct (Nat.eqb_spec j j') as [E|E]; [exact E|exfalso].
        destruct (Nat.eqb_spec j' j) as [E'|_]; [congruence|].
        assert (I1 : In j (map fst d2)) by (apply assoc_In_keys; rewrite <- A; discriminate).
        assert (I2 : In j' (map fst d1)) by (apply assoc_In_keys; rewrite B; discriminate).
        specialize (F1 _ I2). specialize (F2 _ I1). lia. }
      subst j'.
      assert (Ew : w = w').
      { specialize (He j). cbn [assoc] in He. rewrite Nat.eqb_refl in He. congruence. }
      subst w'. f_equal. apply IH; auto.
      intros k. specialize (He k). cbn [assoc] in He.
      destruct (Nat.eqb_spec k j) as [E|E]; [|exact He].
      subst k.
      destruct (assoc V j d1) eqn:A1.
      { assert (I : In j (map fst d1)) by (apply assoc_In_keys; congruence). specialize (F1 _ I). lia. }
      destruct (assoc V j d2) eqn:A2; [|reflexivity].
      assert (I : In j (map fst d2)) by (apply assoc_In_keys; congruence). specialize (F2 _ I). lia.
  Qed.

  (* data holds exactly the told indices, each with the value told last *)
  Theorem seq_data_exact n h : legal (init V n) h = true ->
    sorted (keys (reach V n h)) /\
    (forall k, assoc V k (data (reach V n h)) = last_told h k) /\
    (forall k, In k (keys (reach V n h)) <-> last_told h k <> None).
  Proof.
    intros Hl. pose proof (partition_inv V n h Hl) as HI.
    assert (A : forall k, assoc V k (data (reach V n h)) = last_told h k).
    { intros k. unfold reach. rewrite data_run_assoc. reflexivity. }
    split; [apply (inv_keys_sorted V _ HI)|]. split; [exact A|].
    intros k. unfold keys. rewrite assoc_In_keys, A. tauto.
  Qed.

  (* ---------------- C10: told is not pending ---------------- *)
  Theorem seq_told_not_pending s i v : ~ In i (pend (tell s i v)).
  Proof. cbn. rewrite nat_remove_In. tauto. Qed.

  Theorem seq_data_pending_disjoint n h : legal (init V n) h = true ->
    forall i, In i (pend (reach V n h)) -> ~ In i (keys (reach V n h)).
  Proof. intros Hl. apply (inv_pd V _ (partition_inv V n h Hl)). Qed.

  (* ---------------- C10: asked is pending until told or discarded ---------------- *)
  Definition keeps (i : nat) (o : op) : bool :=
    match o with
    | RemoveUnfinished => false
    | Tell j _ => negb (j =? i)
    | _ => true
    end.

  Lemma pend_commit_mono l : forall s i, In i (pend s) -> In i (pend (fold_left (@tell_pending V) l s)).
  Proof.
    induction l as [|a l IH]; intros s i Hi; cbn [fold_left]; [exact Hi|].
    apply IH. cbn. apply nat_insert_In. right; exact Hi.
  Qed.

  Lemma pend_commit_in l : forall s i, In i l -> In i (pend (fold_left (@tell_pending V) l s)).
  Proof.
    induction l as [|a l IH]; intros s i; cbn [fold_left In]; [tauto|].
    intros [->|Hi]; [|apply IH; exact Hi].
    apply pend_commit_mono. cbn. apply nat_insert_In. left; reflexivity.
  Qed.

  Lemma pend_step_keeps s o i : keeps i o = true -> In i (pend s) -> In i (pend (fst (step s o))).
  Proof.
    destruct o as [n c|j v|j|]; cbn [keeps step fst]; intros Hk Hi; try discriminate.
    - unfold ask; cbn [fst]. destruct c; [apply pend_commit_mono|]; exact Hi.
    - cbn. apply nat_remove_In. split; [exact Hi|].
      apply negb_true_iff in Hk. apply Nat.eqb_neq in Hk. congruence.
    - cbn. apply nat_insert_In. right; exact Hi.
  Qed.

  Lemma pend_run_keeps h : forall s i, forallb (keeps i) h = true -> In i (pend s) -> In i (pend (run s h)).
  Proof.
    induction h as [|o h IH]; intros s i Hh Hi; [exact Hi|].
    rewrite run_cons. cbn [forallb] in Hh. apply andb_true_iff in Hh as [Ho Hh].
    apply IH; [exact Hh|]. apply pend_step_keeps; assumption.
  Qed.

  Theorem seq_asked_is_pending s k h i :
    In i (snd (ask s k true)) -> forallb (keeps i) h = true ->
    In i (pend (run (fst (ask s k true)) h)).
  Proof.
    intros Hi Hh. apply pend_run_keeps; [exact Hh|].
    cbn [ask fst snd] in *. apply pend_commit_in. exact Hi.
  Qed.

  (* ---------------- C10: npoints = number of distinct told indices ---------------- *)
  Definition told_ins (acc : list nat) (o : op) : list nat :=
    match o with Tell i _ => nat_insert i acc | _ => acc end.
  Definition told_set (h : list op) : list nat := fold_left told_ins h [].

  Lemma keys_data_set i v (d : list (nat * V)) : map fst (data_set i v d) = nat_insert i (map fst d).
  Proof.
    induction d as [|[j w] d IH]; cbn [data_set map fst nat_insert]; [reflexivity|].
    destruct (i <? j); [reflexivity|].
    destruct (Nat.eqb_spec i j) as [E|E]; [subst; reflexivity|].
    cbn [map fst]. rewrite IH. reflexivity.
  Qed.

  Lemma keys_step s o : keys (fst (step s o)) = told_ins (keys s) o.
  Proof.
    destruct o as [n c|i v|i|]; cbn [step fst told_ins]; try reflexivity.
    - unfold ask, keys; cbn [fst]. destruct c; [rewrite data_commit|]; reflexivity.
    - unfold keys. cbn. apply keys_data_set.
  Qed.

  Lemma keys_run h : forall s, keys (run s h) = fold_left told_ins h (keys s).
  Proof.
    induction h as [|o h IH]; intros s; [reflexivity|].
    rewrite run_cons, IH, keys_step. reflexivity.
  Qed.

  Lemma told_fold_sorted h : forall acc, sorted acc -> sorted (fold_left told_ins h acc).
  Proof.
    induction h as [|o h IH]; intros acc Ha; [exact Ha|]. cbn [fold_left]. apply IH.
    destruct o; cbn [told_ins]; auto. apply nat_insert_sorted; exact Ha.
  Qed.

  Lemma told_fold_In h : forall acc k,
    In k (fold_left told_ins h acc) <-> In k acc \/ exists v, In (Tell k v) h.
  Proof.
    induction h as [|o h IH]; intros acc k; cbn [fold_left In].
    - split; [auto|intros [?|[? []]]; assumption].
    - rewrite IH. destruct o as [n c|i v|i|]; cbn [told_ins].
      + split; [intros [?|[v ?]]; [auto|right; exists v; auto]|intros [?|[v [?|?]]]; [auto|discriminate|right; exists v; auto]].
      + rewrite nat_insert_In. split.
        * intros [[->|?]|[w ?]]; [right; exists v; auto|auto|right; exists w; auto].
        * intros [?|[w [E|?]]]; [auto|inversion E; subst; auto|right; exists w; auto].
      + split; [intros [?|[v ?]]; [auto|right; exists v; auto]|intros [?|[v [?|?]]]; [auto|discriminate|right; exists v; auto]].
      + split; [intros [?|[v ?]]; [auto|right; exists v; auto]|intros [?|[v [?|?]]]; [auto|discriminate|right; exists v; auto]].
  Qed.

  Theorem seq_npoints n h :
    npoints (reach V n h) = length (told_set h) /\
    NoDup (told_set h) /\
    (forall k, In k (told_set h) <-> exists v, In (Tell k v) h).
  Proof.
    split; [|split].
    - unfold npoints. rewrite <- (map_length fst). change (map fst (data (reach V n h))) with (keys (reach V n h)).
      unfold reach. rewrite keys_run. reflexivity.
    - apply sorted_NoDup. apply told_fold_sorted. constructor.
    - intros k. unfold told_set. rewrite told_fold_In. cbn [In]. tauto.
  Qed.

  (* ---------------- C10: re-tell of the same value ---------------- *)
  Lemma data_set_same i v (d : list (nat * V)) :
    sorted (map fst d) -> assoc V i d = Some v -> data_set i v d = d.
  Proof.
    induction d as [|[j w] d IH]; cbn [map fst assoc data_set]; intros Hs Ha; [discriminate|].
    apply sorted_cons_inv in Hs as [Hs Hf]. rewrite Forall_forall in Hf.
    destruct (Nat.eqb_spec i j) as [E|E].
    - subst. rewrite Nat.ltb_irrefl. congruence.
    - assert (Hin : In i (map fst d)) by (apply assoc_In_keys; congruence).
      specialize (Hf _ Hin). destruct (Nat.ltb_spec i j); [lia|].
      f_equal. apply IH; assumption.
  Qed.

  Theorem seq_retell_noop s i v : Inv s -> assoc V i (data s) = Some v -> tell s i v = s.
  Proof.
    intros HI Ha.
    assert (Hk : In i (keys s)) by (apply assoc_In_keys; congruence).
    assert (Ht : ~ In i (todo s)) by (intros H; exact (inv_td V _ HI _ H Hk)).
    assert (Hp : ~ In i (pend s)) by (intros H; exact (inv_pd V _ HI _ H Hk)).
    unfold tell. rewrite (nat_remove_notin _ _ Ht), (nat_remove_notin _ _ Hp).
    rewrite data_set_same; [destruct s; reflexivity|apply (inv_keys_sorted V _ HI)|exact Ha].
  Qed.

  (* ---------------- C10: discard ---------------- *)
  Theorem seq_discard s :
    pend (remove_unfinished s) = [] /\
    data (remove_unfinished s) = data s /\
    loss_num (remove_unfinished s) false = loss_num (remove_unfinished s) true.
  Proof.
    repeat split.
  Qed.
End S.
End SeqBK.

(* ====================================================================== *)
Module L1DBK.
Import AV.Model.L1D AV.Proofs.L1DProofs.
Set Implicit Arguments.

(* what the proofs need of the comparison on abscissae *)
Record OrderLaws (num : Type) (ltb eqb : num -> num -> bool) : Prop := {
  eqb_eq : forall a b, eqb a b = true <-> a = b;
  ltb_irrefl : forall a, ltb a a = false;
  ltb_trans : forall a b c, ltb a b = true -> ltb b c = true -> ltb a c = true;
  ltb_total : forall a b, ltb a b = true \/ a = b \/ ltb b a = true
}.
Arguments OrderLaws {num}.
Arguments eqb_eq {num ltb eqb}. Arguments ltb_irrefl {num ltb eqb}.
Arguments ltb_trans {num ltb eqb}. Arguments ltb_total {num ltb eqb}.

Lemma OrderLaws_Z : OrderLaws Z.ltb Z.eqb.
Proof.
  constructor.
  - intros a b. apply Z.eqb_eq.
  - intros a. apply Z.ltb_irrefl.
  - intros a b c H1 H2. apply Z.ltb_lt in H1, H2. apply Z.ltb_lt. lia.
  - intros a b. rewrite !Z.ltb_lt. lia.
Qed.

Section S.
  Variable num : Type.
  Variables (add sub mul div : num -> num -> num).
  Variables (ltb eqb : num -> num -> bool).
  Variables (zero one inf neg_inf : num).
  Variable is_nan : num -> bool.
  Variable is_inf : num -> bool.
  Variable round12 : num -> num.
  Variable of_nat : nat -> num.
  Variable L : list (option num) -> list (option (Y num)) -> num.
  Variable P : params num.
  Hypothesis OL : OrderLaws ltb eqb.

  Notation st := (st num).
  Notation op := (op num).
  Notation Yt := (Y num).
  Notation tell := (@tell num sub mul div ltb eqb zero one inf neg_inf is_nan is_inf round12 L P).
  Notation tell_pending := (@tell_pending num sub mul div ltb eqb zero one inf L P).
  Notation tell_many := (@tell_many num sub mul div ltb eqb zero one inf neg_inf is_nan is_inf round12 L P).
  Notation tell_many_batch := (@tell_many_batch num sub mul div ltb eqb zero one inf is_nan L P).
  Notation ask := (@ask num add sub mul div ltb eqb zero one inf is_nan is_inf round12 of_nat L P).
  Notation step := (@step num add sub mul div ltb eqb zero one inf neg_inf is_nan is_inf round12 of_nat L P).
  Notation run := (@run num add sub mul div ltb eqb zero one inf neg_inf is_nan is_inf round12 of_nat L P).
  Notation loss := (@loss num sub div ltb eqb inf is_nan is_inf round12 P).
  Notation update_losses := (@update_losses num sub mul div ltb eqb zero one inf L P).
  Notation update_interp := (@update_interp num sub mul div ltb eqb zero one L P).
  Notation sweep := (@sweep num sub mul div ltb eqb zero one is_nan is_inf round12 L P).
  Notation update_scale := (@update_scale num sub ltb zero inf neg_inf is_nan).
  Notation dget := (@dget num eqb).
  Notation dset := (@dset num ltb eqb).
  Notation insert := (@insert num ltb eqb).
  Notation remove := (@remove num eqb).
  Notation init := (@init num sub zero inf neg_inf P).
  Notation remove_unfinished := (@remove_unfinished num).
  Implicit Types (s : st) (o : op) (h : list op) (x z : num) (y : Yt) (l : list num) (d : list (num * Yt)).

  (* ---------------- order facts ---------------- *)
  Lemma eqb_refl x : eqb x x = true.
  Proof. apply (eqb_eq OL). reflexivity. Qed.
  Lemma eqb_false x z : x <> z -> eqb x z = false.
  Proof. intros H. destruct (eqb x z) eqn:E; [apply (eqb_eq OL) in E; contradiction|reflexivity]. Qed.
  Lemma ltb_asym x z : ltb x z = true -> ltb z x = false.
  Proof.
    intros H. destruct (ltb z x) eqn:E; [|reflexivity].
    pose proof (ltb_trans OL _ _ _ H E) as C. rewrite (ltb_irrefl OL) in C. discriminate.
  Qed.
  Lemma ltb_neq x z : ltb x z = true -> x <> z.
  Proof. intros H ->. rewrite (ltb_irrefl OL) in H. discriminate. Qed.

  Definition ltP x z : Prop := ltb x z = true.
  Definition lsorted l : Prop := StronglySorted ltP l.

  Lemma lsorted_inv x l : lsorted (x :: l) -> lsorted l /\ (forall z, In z l -> ltP x z).
  Proof. intros H. inversion H as [|? ? Hs Hf]; subst. split; [exact Hs|]. rewrite Forall_forall in Hf. exact Hf. Qed.
  Lemma lsorted_cons x l : lsorted l -> (forall z, In z l -> ltP x z) -> lsorted (x :: l).
  Proof. intros Hs Hf. constructor; [exact Hs|]. rewrite Forall_forall. exact Hf. Qed.
  Lemma lsorted_NoDup l : lsorted l -> NoDup l.
  Proof.
    induction l as [|a l IH]; intros H; [constructor|].
    apply lsorted_inv in H as [Hs Hf]. constructor; [|apply IH; exact Hs].
    intros Hin. apply Hf in Hin. unfold ltP in Hin. rewrite (ltb_irrefl OL) in Hin. discriminate.
  Qed.

  (* ---------------- insert / remove on sorted lists ---------------- *)
  Lemma insert_In x z l : In z (insert x l) <-> z = x \/ In z l.
  Proof.
    induction l as [|a l IH]; cbn [L1D.insert In]; [intuition|].
    destruct (ltb x a); [cbn [In]; intuition|].
    destruct (eqb x a) eqn:E.
    - apply (eqb_eq OL) in E. subst. cbn [In]. intuition.
    - cbn [In]. rewrite IH. intuition.
  Qed.

  Lemma insert_sorted x l : lsorted l -> lsorted (insert x l).
  Proof.
    induction l as [|a l IH]; cbn [L1D.insert]; intros H.
    - apply lsorted_cons; [constructor|intros z []].
    - pose proof (lsorted_inv H) as [Hs Hf].
      destruct (ltb x a) eqn:E1.
      + apply lsorted_cons; [exact H|]. intros z [<-|Hz]; [exact E1|].
        exact (ltb_trans OL _ _ _ E1 (Hf _ Hz)).
      + destruct (eqb x a) eqn:E2; [exact H|].
        apply lsorted_cons; [apply IH; exact Hs|].
        intros z Hz. apply insert_In in Hz as [->|Hz]; [|apply Hf; exact Hz].
        destruct (ltb_total OL x a) as [C|[C|C]]; [congruence| |exact C].
        subst. rewrite eqb_refl in E2. discriminate.
  Qed.

  Lemma insert_same x l : lsorted l -> In x l -> insert x l = l.
  Proof.
    induction l as [|a l IH]; cbn [L1D.insert In]; intros H Hin; [tauto|].
    apply lsorted_inv in H as [Hs Hf].
    destruct Hin as [->|Hin].
    - rewrite (ltb_irrefl OL), eqb_refl. reflexivity.
    - pose proof (Hf _ Hin) as Hlt. unfold ltP in Hlt.
      rewrite (ltb_asym Hlt). rewrite (eqb_false (fun E => ltb_neq Hlt (eq_sym E))).
      f_equal. apply IH; assumption.
  Qed.

  Lemma remove_subset x z l : In z (remove x l) -> In z l.
  Proof.
    induction l as [|a l IH]; cbn [L1D.remove In]; [tauto|].
    destruct (eqb x a); cbn [In]; intuition.
  Qed.

  Lemma remove_keeps x z l : In z l -> z <> x -> In z (remove x l).
  Proof.
    induction l as [|a l IH]; cbn [L1D.remove In]; [tauto|]. intros Hin Hne.
    destruct (eqb x a) eqn:E.
    - apply (eqb_eq OL) in E. subst. destruct Hin; [congruence|assumption].
    - cbn [In]. destruct Hin; [left; assumption|right; apply IH; assumption].
  Qed.

  Lemma remove_sorted x l : lsorted l -> lsorted (remove x l).
  Proof.
    induction l as [|a l IH]; cbn [L1D.remove]; intros H; [exact H|].
    apply lsorted_inv in H as [Hs Hf].
    destruct (eqb x a); [exact Hs|].
    apply lsorted_cons; [apply IH; exact Hs|]. intros z Hz. apply Hf. eapply remove_subset; exact Hz.
  Qed.

  Lemma remove_gone x l : lsorted l -> ~ In x (remove x l).
  Proof.
    induction l as [|a l IH]; cbn [L1D.remove]; intros H; [intros []|].
    apply lsorted_inv in H as [Hs Hf].
    destruct (eqb x a) eqn:E.
    - apply (eqb_eq OL) in E. subst. intros Hin. apply Hf in Hin. exact (ltb_neq Hin eq_refl).
    - intros [->|Hin]; [rewrite eqb_refl in E; discriminate|]. exact (IH Hs Hin).
  Qed.

  (* ---------------- the data dictionary ---------------- *)
  Lemma dget_In d x : In x (map fst d) <-> dget x d <> None.
  Proof.
    induction d as [|[k v] d IH]; cbn [map fst In L1D.dget]; [tauto|].
    destruct (eqb x k) eqn:E.
    - apply (eqb_eq OL) in E. subst. split; [discriminate|auto].
    - rewrite IH. split; [intros [->|?]; [rewrite eqb_refl in E; discriminate|assumption]|auto].
  Qed.

  Lemma dget_dset d x x' y : dget x (dset x' y d) = if eqb x x' then Some y else dget x d.
  Proof.
    induction d as [|[k v] d IH]; cbn [L1D.dset L1D.dget]; [reflexivity|].
    destruct (ltb x' k); [reflexivity|].
    destruct (eqb x' k) eqn:E.
    - apply (eqb_eq OL) in E. subst. cbn [L1D.dget]. destruct (eqb x k); reflexivity.
    - cbn [L1D.dget]. rewrite IH. destruct (eqb x k) eqn:E1, (eqb x x') eqn:E2; try reflexivity.
      apply (eqb_eq OL) in E1, E2. subst. rewrite eqb_refl in E. discriminate.
  Qed.

  Lemma dset_keys d x y : map fst (dset x y d) = insert x (map fst d).
  Proof.
    induction d as [|[k v] d IH]; cbn [L1D.dset map fst L1D.insert]; [reflexivity|].
    destruct (ltb x k); [reflexivity|].
    destruct (eqb x k) eqn:E.
    - apply (eqb_eq OL) in E. subst. reflexivity.
    - cbn [map fst]. rewrite IH. reflexivity.
  Qed.

  (* ---------------- frame: which operations touch data / pending ---------------- *)
  Definition dp s := (data s, pend s).

  Lemma dp_with_los s a b : dp (with_los s a b) = dp s.
  Proof. reflexivity. Qed.

  Lemma dp_update_interp s iv : dp (update_interp s iv) = dp s.
  Proof. destruct iv as [a b]. reflexivity. Qed.

  Lemma dp_fold_interp ivs : forall s, dp (fold_left update_interp ivs s) = dp s.
  Proof. induction ivs as [|iv ivs IH]; intros s; cbn [fold_left]; [reflexivity|]. rewrite IH. apply dp_update_interp. Qed.

  Lemma dp_update_scale s x y : dp (update_scale s x y) = dp s.
  Proof.
    unfold L1D.update_scale.
    match goal with |- dp (let '(_, _) := ?e in _) = _ => destruct e end. reflexivity.
  Qed.

  Lemma dp_sweep s : dp (sweep s) = dp s.
  Proof. unfold L1D.sweep. apply dp_fold_interp. Qed.

  Lemma dp_update_losses s x real : dp (update_losses s x real) = dp s.
  Proof.
    unfold L1D.update_losses.
    destruct (find_neighbors ltb x (nb s)) as [xl xr].
    destruct (find_neighbors ltb x (nbc s)) as [a b].
    cbv zeta.
    set (s1 := with_los s (los s) (lpop_opt eqb a b (losc s))).
    assert (H1 : dp s1 = dp s) by reflexivity.
    match goal with |- dp (if ?ru then with_los ?s3 _ _ else _) = _ => set (s3' := s3); set (ru' := ru) end.
    assert (H3 : dp s3' = dp s).
    { subst s3'.
      match goal with |- dp (if ?lu then with_los ?s2 _ _ else _) = _ => set (s2' := s2); set (lu' := lu) end.
      assert (H2 : dp s2' = dp s).
      { subst s2'. destruct real.
        - rewrite dp_with_los, dp_fold_interp. exact H1.
        - destruct xl as [xl|]; [|exact H1]. destruct xr as [xr|]; [|exact H1].
          destruct (lget eqb (xl, xr) (los s1)); [|exact H1]. rewrite dp_with_los. exact H1. }
      destruct lu'; [rewrite dp_with_los|]; exact H2. }
    destruct ru'; [rewrite dp_with_los|]; exact H3.
  Qed.

  Lemma tell_known s x y v : dget x (data s) = Some v -> tell s x y = s.
  Proof. intros H. unfold L1D.tell. rewrite H. reflexivity. Qed.

  Lemma dp_tell_unknown s x y : dget x (data s) = None ->
    dp (tell s x y) = (dset x y (data s), remove x (pend s)).
  Proof.
    intros H. unfold L1D.tell. rewrite H. cbv zeta.
    destruct (negb (in_bounds ltb eqb P x)); [reflexivity|].
    match goal with |- dp (if ?c then _ else _) = _ => destruct c end.
    - unfold dp at 1. cbn [data pend].
      match goal with |- (data ?u, pend ?u) = ?r => change (dp u = r) end.
      rewrite dp_sweep, dp_update_losses, dp_update_scale. reflexivity.
    - rewrite dp_update_losses, dp_update_scale. reflexivity.
  Qed.

  Lemma tell_pending_known s x v : dget x (data s) = Some v -> tell_pending s x = s.
  Proof. intros H. unfold L1D.tell_pending. rewrite H. reflexivity. Qed.

  Lemma dp_tell_pending_unknown s x : dget x (data s) = None ->
    dp (tell_pending s x) = (data s, insert x (pend s)).
  Proof. intros H. unfold L1D.tell_pending. rewrite H. cbv zeta. rewrite dp_update_losses. reflexivity. Qed.

  Lemma dp_fold_interp_opt ivs : forall s,
    dp (fold_left (fun s iv => match lget eqb iv (los s) with Some _ => update_interp s iv | None => s end) ivs s) = dp s.
  Proof.
    induction ivs as [|iv ivs IH]; intros s; cbn [fold_left]; [reflexivity|]. rewrite IH.
    destruct (lget eqb iv (los s)); [apply dp_update_interp|reflexivity].
  Qed.

  Lemma dp_tell_many_batch s (xys : list (num * Yt)) :
    dp (tell_many_batch s xys) =
    (fold_left (fun d xy => dset (fst xy) (snd xy) d) xys (data s),
     fold_left (fun p xy => remove (fst xy) p) xys (pend s)).
  Proof.
    unfold L1D.tell_many_batch. cbv zeta.
    match goal with |- dp (let '(_, _) := ?e in _) = _ => destruct e as [lc ti] end.
    rewrite dp_fold_interp_opt. reflexivity.
  Qed.

  Lemma data_of_dp s s' : dp s' = dp s -> data s' = data s.
  Proof. intros H. apply (f_equal fst) in H. exact H. Qed.
  Lemma pend_of_dp s s' : dp s' = dp s -> pend s' = pend s.
  Proof. intros H. apply (f_equal snd) in H. exact H. Qed.
  Lemma data_of_dp_eq s d (p : list num) : dp s = (d, p) -> data s = d.
  Proof. intros H. apply (f_equal fst) in H. exact H. Qed.
  Lemma pend_of_dp_eq s d (p : list num) : dp s = (d, p) -> pend s = p.
  Proof. intros H. apply (f_equal snd) in H. exact H. Qed.

  (* ---------------- C09 ---------------- *)
  Theorem l1d_ask_noop s n :
    fst (ask s n false) = s /\
    (forall h, run (fst (ask s n false)) h = run s h) /\
    (forall n' c, ask (fst (ask s n false)) n' c = ask s n' c) /\
    snd (ask (fst (ask s n false)) n false) = snd (ask s n false).
  Proof. repeat split. Qed.

  Theorem l1d_ask_commit s n :
    snd (ask s n true) = snd (ask s n false) /\
    fst (ask s n true) = fold_left tell_pending (fst (snd (ask s n false))) (fst (ask s n false)).
  Proof. split; reflexivity. Qed.

  (* ---------------- the bookkeeping invariant (holds along ALL histories) ---------------- *)
  Definition dkeys s : list num := map fst (data s).

  Record BInv s : Prop := {
    bi_keys : lsorted (dkeys s);
    bi_pend : lsorted (pend s);
    bi_disj : forall x, In x (pend s) -> ~ In x (dkeys s)
  }.

  Lemma binv_init : BInv init.
  Proof. constructor; cbn; [constructor|constructor|intros x []]. Qed.

  Lemma binv_tell s x y : BInv s -> BInv (tell s x y).
  Proof.
    intros [H1 H2 H3]. destruct (dget x (data s)) as [v|] eqn:E.
    - rewrite (tell_known s x y E). constructor; assumption.
    - pose proof (dp_tell_unknown s x y E) as Hdp.
      pose proof (f_equal fst Hdp) as Hd. pose proof (f_equal snd Hdp) as Hp. cbn [dp fst snd] in Hd, Hp.
      constructor; unfold dkeys; rewrite ?Hd, ?Hp.
      + rewrite dset_keys. apply insert_sorted. exact H1.
      + apply remove_sorted. exact H2.
      + intros z Hz. rewrite dset_keys, insert_In. intros [->|Hk].
        * exact (remove_gone x H2 Hz).
        * apply remove_subset in Hz. exact (H3 _ Hz Hk).
  Qed.

  Lemma binv_tell_pending s x : BInv s -> BInv (tell_pending s x).
  Proof.
    intros [H1 H2 H3]. destruct (dget x (data s)) as [v|] eqn:E.
    - rewrite (tell_pending_known s x E). constructor; assumption.
    - pose proof (dp_tell_pending_unknown s x E) as Hdp.
      pose proof (f_equal fst Hdp) as Hd. pose proof (f_equal snd Hdp) as Hp. cbn [dp fst snd] in Hd, Hp.
      constructor; unfold dkeys; rewrite ?Hd, ?Hp.
      + exact H1.
      + apply insert_sorted. exact H2.
      + intros z Hz. apply insert_In in Hz as [->|Hz]; [|apply H3; exact Hz].
        intros Hk. apply dget_In in Hk. congruence.
  Qed.

  Lemma binv_fold_tell_pending pts : forall s, BInv s -> BInv (fold_left tell_pending pts s).
  Proof. induction pts as [|p pts IH]; intros s H; cbn [fold_left]; [exact H|]. apply IH, binv_tell_pending, H. Qed.

  Lemma binv_fold_tell (xys : list (num * Yt)) : forall s, BInv s ->
    BInv (fold_left (fun s xy => tell s (fst xy) (snd xy)) xys s).
  Proof. induction xys as [|p xys IH]; intros s H; cbn [fold_left]; [exact H|]. apply IH, binv_tell, H. Qed.

  Lemma fold_dset_keys (xys : list (num * Yt)) : forall d,
    map fst (fold_left (fun d xy => dset (fst xy) (snd xy) d) xys d) =
    fold_left (fun a xy => insert (fst xy) a) xys (map fst d).
  Proof. induction xys as [|p xys IH]; intros d; cbn [fold_left]; [reflexivity|]. rewrite IH, dset_keys. reflexivity. Qed.

  Lemma fold_insert_sorted (xys : list (num * Yt)) : forall a, lsorted a ->
    lsorted (fold_left (fun a xy => insert (fst xy) a) xys a).
  Proof. induction xys as [|p xys IH]; intros a H; cbn [fold_left]; [exact H|]. apply IH, insert_sorted, H. Qed.

  Lemma fold_insert_In (xys : list (num * Yt)) : forall a z,
    In z (fold_left (fun a xy => insert (fst xy) a) xys a) <-> In z a \/ In z (map fst xys).
  Proof.
    induction xys as [|p xys IH]; intros a z; cbn [fold_left map In]; [tauto|].
    rewrite IH, insert_In. intuition.
  Qed.

  Lemma fold_remove_sorted (xys : list (num * Yt)) : forall p, lsorted p ->
    lsorted (fold_left (fun p xy => remove (fst xy) p) xys p).
  Proof. induction xys as [|q xys IH]; intros p H; cbn [fold_left]; [exact H|]. apply IH, remove_sorted, H. Qed.

  Lemma fold_remove_In (xys : list (num * Yt)) : forall p z, lsorted p ->
    In z (fold_left (fun p xy => remove (fst xy) p) xys p) -> In z p /\ ~ In z (map fst xys).
  Proof.
    induction xys as [|q xys IH]; intros p z Hs; cbn [fold_left map In]; [tauto|].
    intros H. apply IH in H as [H1 H2]; [|apply remove_sorted; exact Hs].
    split; [eapply remove_subset; exact H1|]. intros [E|E]; [|exact (H2 E)].
    subst z. exact (remove_gone _ Hs H1).
  Qed.

  Lemma fold_remove_keeps (xys : list (num * Yt)) : forall p z,
    In z p -> ~ In z (map fst xys) -> In z (fold_left (fun p xy => remove (fst xy) p) xys p).
  Proof.
    induction xys as [|q xys IH]; intros p z Hin Hn; cbn [fold_left]; [exact Hin|].
    cbn [map In] in Hn. apply IH; [|tauto]. apply remove_keeps; [exact Hin|]. intros E. apply Hn. left. symmetry. exact E.
  Qed.

  Lemma binv_batch s xys : BInv s -> BInv (tell_many_batch s xys).
  Proof.
    intros [H1 H2 H3]. pose proof (dp_tell_many_batch s xys) as Hdp.
    pose proof (f_equal fst Hdp) as Hd. pose proof (f_equal snd Hdp) as Hp. cbn [dp fst snd] in Hd, Hp.
    constructor; unfold dkeys; rewrite ?Hd, ?Hp.
    - rewrite fold_dset_keys. apply fold_insert_sorted. exact H1.
    - apply fold_remove_sorted. exact H2.
    - intros z Hz. apply fold_remove_In in Hz as [Hz1 Hz2]; [|exact H2].
      rewrite fold_dset_keys, fold_insert_In. intros [Hk|Hk]; [exact (H3 _ Hz1 Hk)|exact (Hz2 Hk)].
  Qed.

  Lemma binv_tell_many s xys f : BInv s -> BInv (tell_many s xys f).
  Proof.
    intros H. unfold L1D.tell_many.
    match goal with |- BInv (if ?c then _ else _) => destruct c end.
    - apply binv_fold_tell. exact H.
    - apply binv_batch. exact H.
  Qed.

  Lemma binv_step s o : BInv s -> BInv (fst (step s o)).
  Proof.
    intros H. destruct o as [x y|x|xys f| |n c]; cbn [L1D.step fst].
    - apply binv_tell, H.
    - apply binv_tell_pending, H.
    - apply binv_tell_many, H.
    - destruct H as [H1 _ _]. constructor; [exact H1|constructor|intros x []].
    - unfold L1D.ask; cbn [fst]. destruct c; [apply binv_fold_tell_pending|]; exact H.
  Qed.

  Lemma run_cons s o h : run s (o :: h) = run (fst (step s o)) h.
  Proof. reflexivity. Qed.

  Theorem binv_run h : forall s, BInv s -> BInv (run s h).
  Proof. induction h as [|o h IH]; intros s H; [exact H|]. rewrite run_cons. apply IH, binv_step, H. Qed.

  (* ---------------- C10: data = first told value (incremental tells) ---------------- *)
  Definition first_xy x (acc : option Yt) (xy : num * Yt) : option Yt :=
    match acc with Some _ => acc | None => if eqb x (fst xy) then Some (snd xy) else None end.
  Definition last_xy x (acc : option Yt) (xy : num * Yt) : option Yt :=
    if eqb x (fst xy) then Some (snd xy) else acc.
  Definition first_upd x (acc : option Yt) o : option Yt :=
    match o with
    | Tell x' y => first_xy x acc (x', y)
    | TellMany xys _ => fold_left (first_xy x) xys acc
    | _ => acc
    end.
  Definition first_told h x : option Yt := fold_left (first_upd x) h None.

  (* does [tell_many] take the rebuilding path? *)
  Definition is_batch s o : bool :=
    match o with
    | TellMany xys f => negb (negb f && negb ((length (data s) <? 2 * length xys) && (2 <? length xys)))
    | _ => false
    end.
  Fixpoint incremental s h : bool :=
    match h with
    | [] => true
    | o :: h' => negb (is_batch s o) && incremental (fst (step s o)) h'
    end.

  Lemma dget_tell s x x' y : dget x (data (tell s x' y)) = first_xy x (dget x (data s)) (x', y).
  Proof.
    unfold first_xy. cbn [fst snd]. destruct (dget x' (data s)) as [v|] eqn:E.
    - rewrite (tell_known s x' y E). destruct (dget x (data s)) eqn:E2; [reflexivity|].
      destruct (eqb x x') eqn:E3; [|reflexivity]. apply (eqb_eq OL) in E3. subst. congruence.
    - rewrite (data_of_dp_eq (dp_tell_unknown s x' y E)). rewrite dget_dset.
      destruct (eqb x x') eqn:E3; [|destruct (dget x (data s)); reflexivity].
      apply (eqb_eq OL) in E3. subst. rewrite E. reflexivity.
  Qed.

  Lemma data_tell_pending s x : data (tell_pending s x) = data s.
  Proof.
    destruct (dget x (data s)) as [v|] eqn:E.
    - rewrite (tell_pending_known s x E). reflexivity.
    - exact (data_of_dp_eq (dp_tell_pending_unknown s x E)).
  Qed.

  Lemma data_fold_tell_pending pts : forall s, data (fold_left tell_pending pts s) = data s.
  Proof. induction pts as [|p pts IH]; intros s; cbn [fold_left]; [reflexivity|]. rewrite IH. apply data_tell_pending. Qed.

  Lemma dget_fold_tell (xys : list (num * Yt)) x : forall s,
    dget x (data (fold_left (fun s xy => tell s (fst xy) (snd xy)) xys s)) = fold_left (first_xy x) xys (dget x (data s)).
  Proof.
    induction xys as [|[x' y] xys IH]; intros s; cbn [fold_left fst snd]; [reflexivity|].
    rewrite IH, dget_tell. reflexivity.
  Qed.

  Lemma dget_step s o x : is_batch s o = false ->
    dget x (data (fst (step s o))) = first_upd x (dget x (data s)) o.
  Proof.
    destruct o as [x' y|x'|xys f| |n c]; cbn [L1D.step fst first_upd is_batch]; intros Hb.
    - apply dget_tell.
    - rewrite data_tell_pending. reflexivity.
    - unfold L1D.tell_many. apply negb_false_iff in Hb. rewrite Hb. apply dget_fold_tell.
    - reflexivity.
    - unfold L1D.ask; cbn [fst]. destruct c; [rewrite data_fold_tell_pending|]; reflexivity.
  Qed.

  Theorem l1d_data_first h : forall s x, incremental s h = true ->
    dget x (data (run s h)) = fold_left (first_upd x) h (dget x (data s)).
  Proof.
    induction h as [|o h IH]; intros s x Hi; [reflexivity|].
    cbn [incremental] in Hi. apply andb_true_iff in Hi as [Hb Hi]. apply negb_true_iff in Hb.
    rewrite run_cons. cbn [fold_left]. rewrite <- (dget_step s o x Hb). apply IH. exact Hi.
  Qed.

  (* the rebuilding path of tell_many OVERWRITES known values (unlike tell) *)
  Lemma dget_fold_dset (xys : list (num * Yt)) x : forall d,
    dget x (fold_left (fun d xy => dset (fst xy) (snd xy) d) xys d) = fold_left (last_xy x) xys (dget x d).
  Proof.
    induction xys as [|[x' y] xys IH]; intros d; cbn [fold_left fst snd]; [reflexivity|].
    rewrite IH, dget_dset. reflexivity.
  Qed.

  Theorem l1d_batch_overwrites s xys x :
    dget x (data (tell_many_batch s xys)) = fold_left (last_xy x) xys (dget x (data s)).
  Proof. rewrite (data_of_dp_eq (dp_tell_many_batch s xys)). apply dget_fold_dset. Qed.

  Theorem l1d_data_exact h x : incremental init h = true ->
    dget x (data (run init h)) = first_told h x /\
    lsorted (dkeys (run init h)) /\
    (In x (dkeys (run init h)) <-> first_told h x <> None).
  Proof.
    intros Hi. pose proof (l1d_data_first h init x Hi) as A. cbn [L1D.init data L1D.dget] in A.
    split; [exact A|]. split; [apply (bi_keys (binv_run h binv_init))|].
    unfold dkeys. rewrite dget_In, A. unfold first_told. tauto.
  Qed.

  (* ---------------- C10: told is not pending; data and pending are disjoint ---------------- *)
  Theorem l1d_told_not_pending s x y : BInv s -> ~ In x (pend (tell s x y)).
  Proof.
    intros HI. destruct (dget x (data s)) as [v|] eqn:E.
    - rewrite (tell_known s x y E). intros Hp. apply (bi_disj HI _ Hp). apply dget_In. congruence.
    - rewrite (pend_of_dp_eq (dp_tell_unknown s x y E)). apply remove_gone. apply (bi_pend HI).
  Qed.

  Theorem l1d_data_pending_disjoint h x :
    In x (pend (run init h)) -> dget x (data (run init h)) = None.
  Proof.
    intros Hp. pose proof (binv_run h binv_init) as HI.
    destruct (dget x (data (run init h))) eqn:E; [exfalso|reflexivity].
    apply (bi_disj HI _ Hp). apply dget_In. congruence.
  Qed.

  (* ---------------- C10: asked is pending until told or discarded ---------------- *)
  Definition keeps x o : bool :=
    match o with
    | RemoveUnfinished => false
    | Tell x' _ => negb (eqb x' x)
    | TellMany xys _ => forallb (fun xy => negb (eqb (fst xy) x)) xys
    | _ => true
    end.

  Lemma pend_tell_pending_mono s x z : In z (pend s) -> In z (pend (tell_pending s x)).
  Proof.
    intros Hz. destruct (dget x (data s)) as [v|] eqn:E.
    - rewrite (tell_pending_known s x E). exact Hz.
    - rewrite (pend_of_dp_eq (dp_tell_pending_unknown s x E)). apply insert_In. right; exact Hz.
  Qed.

  Lemma pend_fold_tell_pending_mono pts : forall s z, In z (pend s) -> In z (pend (fold_left tell_pending pts s)).
  Proof. induction pts as [|p pts IH]; intros s z Hz; cbn [fold_left]; [exact Hz|]. apply IH, pend_tell_pending_mono, Hz. Qed.

  Lemma pend_fold_tell_pending_in pts : forall s x, In x pts -> dget x (data s) = None ->
    In x (pend (fold_left tell_pending pts s)).
  Proof.
    induction pts as [|p pts IH]; intros s x; cbn [fold_left In]; [tauto|].
    intros [->|Hin] Hd.
    - apply pend_fold_tell_pending_mono. rewrite (pend_of_dp_eq (dp_tell_pending_unknown s x Hd)).
      apply insert_In. left; reflexivity.
    - apply IH; [exact Hin|]. rewrite data_tell_pending. exact Hd.
  Qed.

  Lemma pend_tell_keeps s x' y x : eqb x' x = false -> In x (pend s) -> In x (pend (tell s x' y)).
  Proof.
    intros Hne Hx. destruct (dget x' (data s)) as [v|] eqn:E.
    - rewrite (tell_known s x' y E). exact Hx.
    - rewrite (pend_of_dp_eq (dp_tell_unknown s x' y E)). apply remove_keeps; [exact Hx|].
      intros ->. rewrite eqb_refl in Hne. discriminate.
  Qed.

  Lemma pend_fold_tell_keeps (xys : list (num * Yt)) x : forall s,
    forallb (fun xy => negb (eqb (fst xy) x)) xys = true -> In x (pend s) ->
    In x (pend (fold_left (fun s xy => tell s (fst xy) (snd xy)) xys s)).
  Proof.
    induction xys as [|[x' y] xys IH]; intros s Hf Hx; cbn [fold_left fst snd]; [exact Hx|].
    cbn [forallb fst] in Hf. apply andb_true_iff in Hf as [H1 H2]. apply negb_true_iff in H1.
    apply IH; [exact H2|]. apply pend_tell_keeps; assumption.
  Qed.

  Lemma pend_step_keeps s o x : keeps x o = true -> In x (pend s) -> In x (pend (fst (step s o))).
  Proof.
    destruct o as [x' y|x'|xys f| |n c]; cbn [L1D.step fst keeps]; intros Hk Hx; try discriminate.
    - apply negb_true_iff in Hk. apply pend_tell_keeps; assumption.
    - apply pend_tell_pending_mono. exact Hx.
    - unfold L1D.tell_many. match goal with |- In x (pend (if ?c then _ else _)) => destruct c end.
      + apply pend_fold_tell_keeps; assumption.
      + rewrite (pend_of_dp_eq (dp_tell_many_batch s xys)). apply fold_remove_keeps; [exact Hx|].
        intros Hin. apply in_map_iff in Hin as [[x' y] [E Hin]]. cbn [fst] in E. subst x'.
        rewrite forallb_forall in Hk. specialize (Hk _ Hin). cbn [fst] in Hk. rewrite eqb_refl in Hk. discriminate.
    - unfold L1D.ask; cbn [fst]. destruct c; [apply pend_fold_tell_pending_mono|]; exact Hx.
  Qed.

  Lemma pend_run_keeps h : forall s x, forallb (keeps x) h = true -> In x (pend s) -> In x (pend (run s h)).
  Proof.
    induction h as [|o h IH]; intros s x Hh Hx; [exact Hx|].
    rewrite run_cons. cbn [forallb] in Hh. apply andb_true_iff in Hh as [Ho Hh].
    apply IH; [exact Hh|]. apply pend_step_keeps; assumption.
  Qed.

  Theorem l1d_asked_is_pending s n h x :
    In x (fst (snd (ask s n true))) -> dget x (data s) = None -> forallb (keeps x) h = true ->
    In x (pend (run (fst (ask s n true)) h)).
  Proof.
    intros Hin Hd Hh. apply pend_run_keeps; [exact Hh|].
    cbn [L1D.ask fst snd] in *. apply pend_fold_tell_pending_in; assumption.
  Qed.

  (* ---------------- C10: npoints = number of distinct told points ---------------- *)
  Definition told_ins (acc : list num) o : list num :=
    match o with
    | Tell x _ => insert x acc
    | TellMany xys _ => fold_left (fun a xy => insert (fst xy) a) xys acc
    | _ => acc
    end.
  Definition told_set h : list num := fold_left told_ins h [].
  Definition tells x o : Prop :=
    match o with
    | Tell x' _ => x' = x
    | TellMany xys _ => In x (map fst xys)
    | _ => False
    end.

  Lemma dkeys_tell s x y : BInv s -> dkeys (tell s x y) = insert x (dkeys s).
  Proof.
    intros HI. unfold dkeys. destruct (dget x (data s)) as [v|] eqn:E.
    - rewrite (tell_known s x y E). symmetry. apply insert_same; [apply (bi_keys HI)|].
      apply dget_In. congruence.
    - rewrite (data_of_dp_eq (dp_tell_unknown s x y E)). apply dset_keys.
  Qed.

  Lemma dkeys_fold_tell (xys : list (num * Yt)) : forall s, BInv s ->
    dkeys (fold_left (fun s xy => tell s (fst xy) (snd xy)) xys s) =
    fold_left (fun a xy => insert (fst xy) a) xys (dkeys s).
  Proof.
    induction xys as [|[x y] xys IH]; intros s HI; cbn [fold_left fst snd]; [reflexivity|].
    rewrite IH; [|apply binv_tell; exact HI]. rewrite dkeys_tell; [reflexivity|exact HI].
  Qed.

  Lemma dkeys_step s o : BInv s -> dkeys (fst (step s o)) = told_ins (dkeys s) o.
  Proof.
    intros HI. destruct o as [x y|x|xys f| |n c]; cbn [L1D.step fst told_ins].
    - apply dkeys_tell. exact HI.
    - unfold dkeys. rewrite data_tell_pending. reflexivity.
    - unfold L1D.tell_many. match goal with |- dkeys (if ?c then _ else _) = _ => destruct c end.
      + apply dkeys_fold_tell. exact HI.
      + unfold dkeys. rewrite (data_of_dp_eq (dp_tell_many_batch s xys)). apply fold_dset_keys.
    - reflexivity.
    - unfold L1D.ask, dkeys; cbn [fst]. destruct c; [rewrite data_fold_tell_pending|]; reflexivity.
  Qed.

  Lemma dkeys_run h : forall s, BInv s -> dkeys (run s h) = fold_left told_ins h (dkeys s).
  Proof.
    induction h as [|o h IH]; intros s HI; [reflexivity|].
    rewrite run_cons, IH; [|apply binv_step; exact HI]. rewrite dkeys_step; [reflexivity|exact HI].
  Qed.

  Lemma told_fold_In h : forall acc x,
    In x (fold_left told_ins h acc) <-> In x acc \/ exists o, In o h /\ tells x o.
  Proof.
    induction h as [|o h IH]; intros acc x; cbn [fold_left In].
    - split; [auto|intros [?|[? [[] _]]]; assumption].
    - rewrite IH. split.
      + intros [Hx|[o' [Ho' Ht]]]; [|right; exists o'; auto].
        destruct o as [x' y|x'|xys f| |n c]; cbn [told_ins] in Hx; auto.
        * apply insert_In in Hx as [->|Hx]; [right; exists (Tell x' y); cbn; auto|auto].
        * apply fold_insert_In in Hx as [Hx|Hx]; [auto|right; exists (TellMany xys f); cbn; auto].
      + intros [Hx|[o' [[->|Ho'] Ht]]].
        * left. destruct o as [x' y|x'|xys f| |n c]; cbn [told_ins]; auto.
          -- apply insert_In. auto.
          -- apply fold_insert_In. auto.
        * left. destruct o' as [x' y|x'|xys f| |n c]; cbn [tells told_ins] in *; try contradiction.
          -- subst. apply insert_In. auto.
          -- apply fold_insert_In. auto.
        * right. exists o'. auto.
  Qed.

  Theorem l1d_npoints h :
    length (data (run init h)) = length (told_set h) /\
    NoDup (told_set h) /\
    (forall x, In x (told_set h) <-> exists o, In o h /\ tells x o).
  Proof.
    pose proof (dkeys_run h binv_init) as A. cbn [L1D.init dkeys data map] in A.
    split; [|split].
    - rewrite <- (map_length fst). fold (dkeys (run init h)). rewrite A. reflexivity.
    - apply lsorted_NoDup. unfold told_set. rewrite <- A. apply (bi_keys (binv_run h binv_init)).
    - intros x. unfold told_set. rewrite told_fold_In. cbn [In]. tauto.
  Qed.

  (* ---------------- C10: re-tell; discard ---------------- *)
  Theorem l1d_retell_noop s x y' v : dget x (data s) = Some v ->
    tell s x y' = s /\ tell_pending s x = s.
  Proof. intros H. split; [exact (tell_known s x y' H)|exact (tell_pending_known s x H)]. Qed.

  Theorem l1d_discard s :
    pend (remove_unfinished s) = [] /\
    data (remove_unfinished s) = data s /\
    losc (remove_unfinished s) = los (remove_unfinished s) /\
    loss (remove_unfinished s) false = loss (remove_unfinished s) true.
  Proof. repeat split. Qed.
End S.
End L1DBK.
