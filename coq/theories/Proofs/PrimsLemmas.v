(* Reflection lemmas and tactics shared by the proofs about gen/Prims.v. *)
From Coq Require Import Reals Lra Bool.
From AV Require Import Model.PrimsBase.
Local Open Scope R_scope.

Lemma Rltb_spec a b : reflect (a < b) (Rltb a b).
Proof. unfold Rltb; destruct (Rlt_dec a b); constructor; assumption. Qed.

Lemma Rleb_spec a b : reflect (a <= b) (Rleb a b).
Proof. unfold Rleb; destruct (Rle_dec a b); constructor; assumption. Qed.

Lemma Reqb_spec a b : reflect (a = b) (Reqb a b).
Proof. unfold Reqb; destruct (Req_EM_T a b); constructor; assumption. Qed.

Lemma Rltb_true a b : a < b -> Rltb a b = true.
Proof. intros; destruct (Rltb_spec a b); tauto. Qed.
Lemma Rltb_false a b : ~ a < b -> Rltb a b = false.
Proof. intros; destruct (Rltb_spec a b); tauto. Qed.
Lemma Rleb_true a b : a <= b -> Rleb a b = true.
Proof. intros; destruct (Rleb_spec a b); tauto. Qed.
Lemma Rleb_false a b : ~ a <= b -> Rleb a b = false.
Proof. intros; destruct (Rleb_spec a b); tauto. Qed.

(* split on every boolean comparison in the goal *)
Ltac rcase :=
  repeat match goal with
  | |- context [Rltb ?a ?b] => destruct (Rltb_spec a b)
  | |- context [Rleb ?a ?b] => destruct (Rleb_spec a b)
  | |- context [Reqb ?a ?b] => destruct (Reqb_spec a b)
  end.

(* sqrt x = y  from  x = y*y, 0 <= y *)
Lemma sqrt_of_square x y : 0 <= y -> x = y * y -> sqrt x = y.
Proof. intros Hy ->. apply sqrt_square; assumption. Qed.

Lemma sqrt_sq_abs x y : x = y * y -> sqrt x = Rabs y.
Proof.
  intros ->. replace (y * y) with (Rsqr y) by reflexivity. apply sqrt_Rsqr_abs.
Qed.

Lemma Rabs_sq x : Rabs x * Rabs x = x * x.
Proof. unfold Rabs; destruct (Rcase_abs x); lra. Qed.

Lemma sqrt_mul_self x : 0 <= x -> sqrt x * sqrt x = x.
Proof. apply sqrt_sqrt. Qed.

Lemma sgnR_pos x : 0 < x -> sgnR x = 1.
Proof. intros; unfold sgnR; destruct (Rlt_dec 0 x); [reflexivity|tauto]. Qed.
Lemma sgnR_neg x : x < 0 -> sgnR x = -1.
Proof. intros; unfold sgnR; destruct (Rlt_dec 0 x); [lra|]. destruct (Rlt_dec x 0); [reflexivity|tauto]. Qed.
Lemma sgnR_zero : sgnR 0 = 0.
Proof. unfold sgnR; destruct (Rlt_dec 0 0); [lra|]. destruct (Rlt_dec 0 0); [lra|reflexivity]. Qed.
