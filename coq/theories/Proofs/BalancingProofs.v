(* Lemmas about Model/Balancing.v: for every child learner type [L] (every
   behaviour of the children), every number of children and every history. *)
From AV Require Import Base.Prelude Model.GenericLearner Model.Balancing.
Set Implicit Arguments.

(* ------------------------------------------------------------------ *)
(* lists and int-keyed dicts *)
Lemma length_list_set A i (x : A) l : length (list_set i x l) = length l.
Proof. revert i; induction l as [|h t IH]; intros [|i]; cbn [list_set length]; auto. Qed.

Lemma nth_error_list_set_eq A i (x : A) l : i < length l -> nth_error (list_set i x l) i = Some x.
Proof.
  revert i; induction l as [|h t IH]; intros [|i]; cbn [list_set length nth_error]; intros H; try lia; auto.
  apply IH; lia.
Qed.

Lemma nth_error_list_set_neq A i j (x : A) l : j <> i -> nth_error (list_set i x l) j = nth_error l j.
Proof.
  revert i j; induction l as [|h t IH]; intros [|i] [|j] H; cbn [list_set nth_error]; auto; try lia.
Qed.

Lemma nth_error_list_set A i j (x : A) l :
  nth_error (list_set i x l) j = if j =? i then (if i <? length l then Some x else None) else nth_error l j.
Proof.
  destruct (Nat.eqb_spec j i) as [->|E]; [|apply nth_error_list_set_neq; exact E].
  destruct (Nat.ltb_spec i (length l)) as [H|H]; [apply nth_error_list_set_eq; exact H|].
  apply nth_error_None. rewrite length_list_set. exact H.
Qed.

Lemma list_set_same A i (x : A) l : nth_error l i = Some x -> list_set i x l = l.
Proof.
  revert i; induction l as [|h t IH]; intros [|i]; cbn [list_set nth_error]; intros H; auto;
    try congruence.
  rewrite IH; auto.
Qed.

Lemma length_list_inc i l : length (list_inc i l) = length l.
Proof. revert i; induction l as [|h t IH]; intros [|i]; cbn [list_inc length]; auto. Qed.

Lemma nth_error_list_inc i j l :
  nth_error (list_inc i l) j = if j =? i then option_map S (nth_error l j) else nth_error l j.
Proof.
  revert i j; induction l as [|h t IH]; intros [|i] [|j]; cbn [list_inc nth_error Nat.eqb option_map]; auto;
    try (destruct (j =? i); reflexivity); try apply IH.
Qed.

Lemma fset_eq A (f : nat -> option A) i v : fset f i v i = v.
Proof. unfold fset. rewrite Nat.eqb_refl. reflexivity. Qed.
Lemma fset_neq A (f : nat -> option A) i j v : j <> i -> fset f i v j = f j.
Proof. unfold fset. intros H. destruct (Nat.eqb_spec j i); [contradiction|reflexivity]. Qed.

Lemma Forall2_list_set A B (R : A -> B -> Prop) l0 l i x :
  Forall2 R l0 l -> (forall a, nth_error l0 i = Some a -> R a x) -> Forall2 R l0 (list_set i x l).
Proof.
  intros H; revert i; induction H as [|a b l0 l Hab H IH]; intros [|i] Hx; cbn [list_set]; constructor; auto.
Qed.

Lemma Forall2_nth_error A B (R : A -> B -> Prop) l0 l i b :
  Forall2 R l0 l -> nth_error l i = Some b -> exists a, nth_error l0 i = Some a /\ R a b.
Proof.
  intros H; revert i; induction H as [|a0 b0 l0 l Hab H IH]; intros [|i] Hi; cbn [nth_error] in *; try discriminate.
  - inversion Hi; subst. eauto.
  - apply IH. exact Hi.
Qed.

(* ------------------------------------------------------------------ *)
Section Proofs.
  Variable L : Learner.
  Implicit Types (s : bst L) (k : state L) (i j n : nat) (x p : point L) (tp : list nat).

  (* ---------------- routing of tell / tell_pending ---------------- *)
  Lemma tell_kids s i x y k :
    nth_error (kids s) i = Some k ->
    kids (tell s i x y) = list_set i (GenericLearner.tell L k x y) (kids s).
  Proof. intros H. unfold tell. rewrite H. reflexivity. Qed.

  Lemma tell_pending_kids rep s i x k :
    nth_error (kids s) i = Some k ->
    kids (tell_pending rep s i x) = list_set i (GenericLearner.tell_pending L k x) (kids s).
  Proof. intros H. unfold tell_pending. rewrite H. reflexivity. Qed.

  Lemma routing_tell s i x y k :
    nth_error (kids s) i = Some k ->
    nth_error (kids (tell s i x y)) i = Some (GenericLearner.tell L k x y) /\
    (forall j, j <> i -> nth_error (kids (tell s i x y)) j = nth_error (kids s) j) /\
    length (kids (tell s i x y)) = length (kids s).
  Proof.
    intros H. rewrite (@tell_kids s i x y k H). repeat split.
    - apply nth_error_list_set_eq. apply nth_error_Some. congruence.
    - intros j Hj. apply nth_error_list_set_neq. exact Hj.
    - apply length_list_set.
  Qed.

  Lemma routing_tell_pending rep s i x k :
    nth_error (kids s) i = Some k ->
    nth_error (kids (tell_pending rep s i x)) i = Some (GenericLearner.tell_pending L k x) /\
    (forall j, j <> i -> nth_error (kids (tell_pending rep s i x)) j = nth_error (kids s) j) /\
    length (kids (tell_pending rep s i x)) = length (kids s).
  Proof.
    intros H. rewrite (@tell_pending_kids rep s i x k H). repeat split.
    - apply nth_error_list_set_eq. apply nth_error_Some. congruence.
    - intros j Hj. apply nth_error_list_set_neq. exact Hj.
    - apply length_list_set.
  Qed.

  (* ---------------- aggregates ---------------- *)
  Lemma agg_In A (f : state L -> list A) ks : forall i0 i a,
    In (i, a) (agg L f i0 ks) <-> exists k, i0 <= i /\ nth_error ks (i - i0) = Some k /\ In a (f k).
  Proof.
    induction ks as [|k ks IH]; intros i0 i a; cbn [agg].
    - split; [intros []|intros [k [_ [H _]]]]. destruct (i - i0); discriminate.
    - rewrite in_app_iff, in_map_iff, IH. split.
      + intros [[a' [E Ha]]|[k' [H1 [H2 H3]]]].
        * inversion E; subst. exists k. rewrite Nat.sub_diag. auto.
        * exists k'. split; [lia|]. replace (i - i0) with (S (i - S i0)) by lia. auto.
      + intros [k' [H1 [H2 H3]]]. destruct (Nat.eq_dec i i0) as [->|E].
        * rewrite Nat.sub_diag in H2. cbn in H2. inversion H2; subst. left. eauto.
        * right. exists k'. split; [lia|]. replace (i - i0) with (S (i - S i0)) in H2 by lia. auto.
  Qed.

  Lemma aggregates s :
    (forall i p v, In (i, (p, v)) (bdata s) <->
                   exists k, nth_error (kids s) i = Some k /\ In (p, v) (data L k)) /\
    (forall i p, In (i, p) (bpending s) <->
                 exists k, nth_error (kids s) i = Some k /\ In p (pending L k)) /\
    bnpoints s = list_sum (map (npoints L) (kids s)) /\
    length (bdata s) = list_sum (map (fun k => length (data L k)) (kids s)) /\
    length (bpending s) = list_sum (map (fun k => length (pending L k)) (kids s)).
  Proof.
    unfold bdata, bpending, bnpoints. repeat split.
    - rewrite agg_In. intros [k [_ [H1 H2]]]. rewrite Nat.sub_0_r in H1. eauto.
    - intros [k [H1 H2]]. apply agg_In. exists k. rewrite Nat.sub_0_r. split; [lia|auto].
    - rewrite agg_In. intros [k [_ [H1 H2]]]. rewrite Nat.sub_0_r in H1. eauto.
    - intros [k [H1 H2]]. apply agg_In. exists k. rewrite Nat.sub_0_r. split; [lia|auto].
    - generalize 0. induction (kids s) as [|k ks IH]; intros i0; cbn [agg map list_sum length]; auto.
      rewrite app_length, map_length, IH. reflexivity.
    - generalize 0. induction (kids s) as [|k ks IH]; intros i0; cbn [agg map list_sum length]; auto.
      rewrite app_length, map_length, IH. reflexivity.
  Qed.
End Proofs.
