(* Provenance of the points handed out by the BalancingLearner model: every
   returned (i, p) was proposed by child i's own ask, in a state child i
   actually went through.  Holds for both values of [repaired]. *)
From AV Require Import Base.Prelude Model.GenericLearner Model.Balancing
  Proofs.BalancingProofs Proofs.BalancingOrder Proofs.BalancingCoh Proofs.BalancingStrat.
Set Implicit Arguments.

Lemma pymax_from_In A (gt : A -> A -> bool) l : forall b, pymax_from gt b l = b \/ In (pymax_from gt b l) l.
Proof.
  induction l as [|x l IH]; intros b; cbn [pymax_from In]; [left; reflexivity|].
  destruct (IH (if gt x b then x else b)) as [H|H]; [|right; right; exact H].
  rewrite H. destruct (gt x b); [right; left; reflexivity|left; reflexivity].
Qed.

Lemma pymax_In A (gt : A -> A -> bool) l m : pymax gt l = Some m -> In m l.
Proof.
  destruct l as [|b l]; cbn [pymax]; [discriminate|]. intros H; inversion H; subst.
  destruct (pymax_from_In gt l b) as [E|E]; [left; symmetry; exact E|right; exact E].
Qed.

Lemma Forall2_map_r A B (R : A -> B -> Prop) (f : B -> B) l0 l :
  Forall2 R l0 l -> (forall a b, R a b -> R a (f b)) -> Forall2 R l0 (map f l).
Proof. intros H Hf. induction H; cbn [map]; constructor; auto. Qed.

Section Prov.
  Variable L : Learner.
  Implicit Types (s : bst L) (k : state L) (i j n : nat) (tp : list nat).

  (* the states a learner can go through from k0 *)
  Inductive creach (k0 : state L) : state L -> Prop :=
  | cr_refl : creach k0 k0
  | cr_ask k n c : creach k0 k -> creach k0 (snd (ask L k n c))
  | cr_tell k x y : creach k0 k -> creach k0 (GenericLearner.tell L k x y)
  | cr_tp k x : creach k0 k -> creach k0 (GenericLearner.tell_pending L k x)
  | cr_rem k : creach k0 k -> creach k0 (remove_unfinished L k)
  | cr_restore k k' : creach k0 k -> creach k0 k' -> creach k0 (restore L k k').

  (* p (with improvement v) heads an answer of ask(1) of the learner started at k0 *)
  Definition proposed (k0 : state L) (p : point L) (v : num L) : Prop :=
    exists k c ps vs, creach k0 k /\ fst (ask L k 1 c) = (p :: ps, v :: vs).

  Variable ks0 : list (state L).

  Definition cprov (c : nat -> option (answer L)) : Prop :=
    forall j a, c j = Some a ->
      exists k0 k cc, nth_error ks0 j = Some k0 /\ creach k0 k /\ fst (ask L k 1 cc) = a.

  Definition Prov s : Prop := Forall2 creach ks0 (kids s) /\ cprov (acache s).

  Lemma cprov_pop c i : cprov c -> cprov (fset c i None).
  Proof.
    intros H j a. unfold fset. destruct (j =? i); [intros E; discriminate E|apply H].
  Qed.

  Lemma prov_init st : Prov (init L ks0 st).
  Proof.
    split; cbn [init kids acache].
    - induction ks0; constructor; auto. constructor.
    - intros j a H. discriminate H.
  Qed.

  Lemma prov_tell s i x y : Prov s -> Prov (tell s i x y).
  Proof.
    intros [H1 H2]. unfold tell. destruct (nth_error (kids s) i) as [k|] eqn:E;
      (split; cbn [kids acache with_kids fail]; [|apply cprov_pop; exact H2]); [|exact H1].
    apply Forall2_list_set; [exact H1|]. intros a Ha.
    destruct (Forall2_nth_error _ H1 E) as [a' [Ha' Hr]]. rewrite Ha in Ha'. inversion Ha'; subst.
    apply cr_tell. exact Hr.
  Qed.

  Lemma prov_tell_pending rep s i x : Prov s -> Prov (tell_pending rep s i x).
  Proof.
    intros [H1 H2]. unfold tell_pending. destruct (nth_error (kids s) i) as [k|] eqn:E;
      (split; cbn [kids acache with_kids fail]; [|apply cprov_pop; exact H2]); [|exact H1].
    apply Forall2_list_set; [exact H1|]. intros a Ha.
    destruct (Forall2_nth_error _ H1 E) as [a' [Ha' Hr]]. rewrite Ha in Ha'. inversion Ha'; subst.
    apply cr_tp. exact Hr.
  Qed.

  Lemma prov_set_strategy s st : Prov s -> Prov (set_strategy s st).
  Proof. intros H. exact H. Qed.

  Lemma prov_remove rep s : Prov s -> Prov (bremove_unfinished rep s).
  Proof.
    intros [H1 H2]. unfold bremove_unfinished.
    assert (Forall2 creach ks0 (map (remove_unfinished L) (kids s))).
    { apply Forall2_map_r; [exact H1|]. intros a b. apply cr_rem. }
    destruct rep; split; cbn [kids acache with_kids]; auto.
    intros j a E. discriminate E.
  Qed.

  Lemma prov_bloss s real : Prov s -> Prov (fst (bloss s real)).
  Proof.
    intros [H1 H2]. unfold bloss. destruct (losses_shape s real) as [E1 [_ E3]].
    destruct (losses s real) as [s0 vs]. cbn [fst] in *.
    destruct (pymax _ vs); cbn [fst]; split; cbn [fail kids acache]; rewrite ?E1, ?E3; assumption.
  Qed.

  (* serving child i: the selected point is one child i proposed *)
  Lemma prov_serve rep s i tp' s1 tp'' i' p v :
    Prov s -> serve rep s i tp' = (s1, Some (tp'', ((i', p), v))) ->
    Prov s1 /\ exists k0, nth_error ks0 i' = Some k0 /\ proposed k0 p v.
  Proof.
    intros [H1 H2]. unfold serve.
    destruct (nth_error (kids s) i) as [k|] eqn:Ek; [|intros H; discriminate H].
    destruct (Forall2_nth_error _ H1 Ek) as [k0 [Hk0 Hr]].
    assert (Hx : exists a k', (match acache s i with Some a => (a, k) | None => ask L k 1 true end) = (a, k')
                 /\ creach k0 k' /\ exists kk cc, creach k0 kk /\ fst (ask L kk 1 cc) = a).
    { destruct (acache s i) as [a|] eqn:Ea.
      - exists a, k. split; [reflexivity|]. split; [exact Hr|].
        destruct (H2 i a Ea) as [k0' [kk [cc [E1 [E2 E3]]]]]. rewrite Hk0 in E1. inversion E1; subst.
        eauto.
      - exists (fst (ask L k 1 true)), (snd (ask L k 1 true)).
        split; [destruct (ask L k 1 true); reflexivity|]. split; [apply cr_ask; exact Hr|eauto]. }
    destruct Hx as [a [k' [-> [Hr' [kk [cc [Hkk Ha]]]]]]].
    destruct a as [[|p0 ps] [|v0 vs]]; try (intros H; discriminate H).
    intros H; inversion H; subst; clear H. split.
    - apply prov_tell_pending. split; cbn [kids acache with_kids with_acache].
      + apply Forall2_list_set; [exact H1|]. intros a0 Ha0. rewrite Hk0 in Ha0. inversion Ha0; subst. exact Hr'.
      + intros j a. unfold fset. destruct (Nat.eqb_spec j i') as [->|Hj]; [|apply H2].
        intros E; inversion E; subst. exists k0, kk, cc. auto.
    - exists k0. split; [exact Hk0|]. exists kk, cc, ps, vs. auto.
  Qed.

  Lemma imp_scan_prov tp : forall ks0' ks, Forall2 creach ks0' ks -> forall i c,
    skipn i ks0 = ks0' -> cprov c ->
    Forall2 creach ks0' (fst (fst (imp_scan ks i c tp))) /\
    cprov (snd (fst (imp_scan ks i c tp))) /\
    (forall es, snd (imp_scan ks i c tp) = Some es ->
       forall j p v t, In ((j, p), (v, t)) es -> exists k0, nth_error ks0 j = Some k0 /\ proposed k0 p v).
  Proof.
    induction 1 as [|k0 k ks0' ks Hr HF IH]; intros i c Hs Hc; cbn [imp_scan].
    - cbn [fst snd]. split; [constructor|]. split; [exact Hc|].
      intros es E; inversion E; subst. intros j p v t [].
    - apply skipn_cons_inv in Hs as [Hk0 Hs].
      assert (Hx : exists a k', (match c i with Some a => (a, k) | None => ask L k 1 false end) = (a, k')
                   /\ creach k0 k' /\ exists kk cc, creach k0 kk /\ fst (ask L kk 1 cc) = a).
      { destruct (c i) as [a|] eqn:Ea.
        - exists a, k. split; [reflexivity|]. split; [exact Hr|].
          destruct (Hc i a Ea) as [k0' [kk [cc [E1 [E2 E3]]]]]. rewrite Hk0 in E1. inversion E1; subst.
          eauto.
        - exists (fst (ask L k 1 false)), (snd (ask L k 1 false)).
          split; [destruct (ask L k 1 false); reflexivity|]. split; [apply cr_ask; exact Hr|eauto]. }
      destruct Hx as [a [k' [-> [Hr' [kk [cc [Hkk Ha]]]]]]].
      assert (Hc' : cprov (fset c i (Some a))).
      { intros j a'. unfold fset. destruct (Nat.eqb_spec j i) as [->|Hj]; [|apply Hc].
        intros E; inversion E; subst. exists k0, kk, cc. auto. }
      destruct a as [[|p ps] [|v vs]];
        try (cbn [fst snd]; split; [constructor; assumption|]; split; [exact Hc'|intros es E; discriminate E]).
      match goal with |- context [imp_scan ks (S i) ?cc' tp] =>
        destruct (IH (S i) cc' Hs Hc') as [H1 [H2 H3]];
        destruct (imp_scan ks (S i) cc' tp) as [[ks'' c''] r] end.
      cbn [fst snd] in *. split; [constructor; assumption|]. split; [exact H2|].
      intros es E. destruct r as [es'|]; [|discriminate E]. cbn [option_map] in E. inversion E; subst; clear E.
      intros j p' v' t [E|Hin].
      + inversion E; subst. exists k0. split; [exact Hk0|]. exists kk, cc, ps, vs. auto.
      + eapply H3; eauto.
  Qed.

  Lemma prov_body rep st s tp s1 tp' i p v :
    Prov s -> body_of rep st s tp = (s1, Some (tp', ((i, p), v))) ->
    Prov s1 /\ exists k0, nth_error ks0 i = Some k0 /\ proposed k0 p v.
  Proof.
    intros HP. destruct st; cbn [body_of]; intros H.
    - destruct HP as [H1 H2]. unfold imp_body in H.
      destruct (@imp_scan_prov tp ks0 (kids s) H1 0 (acache s) eq_refl H2) as [E1 [E2 E3]].
      destruct (imp_scan (kids s) 0 (acache s) tp) as [[ks c] rr]. cbn [fst snd] in *.
      destruct rr as [es|]; [|discriminate H].
      destruct (pymax _ es) as [[[i0 p0] [v0 t0]]|] eqn:E; [|discriminate H].
      inversion H; subst; clear H. apply pymax_In in E. split.
      + apply prov_tell_pending. split; assumption.
      + eapply E3; eauto.
    - unfold loss_body in H. pose proof (prov_bloss false HP) as HP'. unfold bloss in HP'.
      destruct (losses_shape s false) as [E1 [_ E3]].
      destruct (losses s false) as [s0 vs]. cbn [fst] in *.
      assert (HP0 : Prov s0) by (destruct HP as [A B]; split; rewrite ?E1, ?E3; assumption).
      destruct (argmax _ _) as [i0|]; [|discriminate H].
      eapply prov_serve; eauto.
    - unfold np_body in H. destruct (argmax _ tp) as [i0|]; [|discriminate H].
      eapply prov_serve; eauto.
    - destruct HP as [H1 H2]. unfold cycle_body in H.
      destruct (kids s) as [|kk0 kks0] eqn:EK; [discriminate H|]. rewrite <- EK in *.
      destruct (nth_error (kids s) (cyc s)) as [k|] eqn:Ek; [|discriminate H].
      destruct (Forall2_nth_error _ H1 Ek) as [k0 [Hk0 Hr]].
      destruct (ask L k 1 true) as [a k'] eqn:Eask.
      destruct a as [[|p0 ps] [|v0 vs]]; try discriminate H.
      inversion H; subst; clear H. split.
      + apply prov_tell_pending. split; cbn [kids acache with_kids].
        * apply Forall2_list_set; [exact H1|]. intros a0 Ha0. rewrite Hk0 in Ha0. inversion Ha0; subst.
          replace k' with (snd (ask L k 1 true)) by (rewrite Eask; reflexivity). apply cr_ask. exact Hr.
        * exact H2.
      + exists k0. split; [exact Hk0|]. exists k, true, ps, vs. rewrite Eask. auto.
  Qed.

  Lemma prov_run rep st h :
    legal h = true -> failed (run rep (init L ks0 st) h) = false -> Prov (run rep (init L ks0 st) h).
  Proof.
    intros Hl Hf.
    destruct (@run_inv L rep Prov) with (h := h) (s := init L ks0 st) as [H|H]; try exact Hl; try congruence.
    - intros; apply prov_tell; assumption.
    - intros; apply prov_tell_pending; assumption.
    - intros st0 s tp s1 [tp' [[i p] v]] HP Hb. eapply prov_body; eauto.
    - intros; apply prov_bloss; assumption.
    - intros; apply prov_remove; assumption.
    - intros; apply prov_set_strategy; assumption.
    - right. apply prov_init.
  Qed.

  (* every (i, p) returned by ask was proposed by child i *)
  Lemma routing_ask rep st h n i p v :
    legal h = true ->
    let s := run rep (init L ks0 st) h in
    failed s = false -> failed (fst (bask rep s n true)) = false ->
    In ((i, p), v) (snd (bask rep s n true)) ->
    exists k0, nth_error ks0 i = Some k0 /\ proposed k0 p v.
  Proof.
    intros Hl s Hf Hf2 Hin. pose proof (prov_run rep st h Hl Hf) as HP. fold s in HP.
    destruct (bask_trace rep s n Hf2) as [E _]. rewrite E in Hin.
    apply in_map_iff in Hin as [[[pre tp] e] [Ee Hin]]. cbn [snd] in Ee. subst e.
    destruct (@loop_trace_inv L (body_of rep (strat s)) (fun s _ => Prov s)) with (n := n) (s := s)
      (tp := total_points s) (pre := pre) (tpp := tp) (e := ((i, p), v)) as [HPp [s1 [tp' Hb]]]; auto.
    - intros s0 tp0 s1 tp' [[i0 p0] v0] HJ Hb. eapply prov_body; eauto.
    - eapply prov_body; eauto.
  Qed.
End Prov.
