(* Order irrelevance (property C11) for the Learner1D model, data-level part.

   The state of Model/L1D.v splits into
     - data-level components: data, pend, nb (neighbors), nbc
       (neighbors_combined), bbx, bby (_bbox), sx, sy (_scale), and
     - loss-level components: los, losc (the two loss tables), osy
       (_oldscale[1]) and mgrx (x-scale captured by the loss managers).
   [proj_tell] shows that the data-level components evolve autonomously
   ([tell] never reads a loss-level component to compute a data-level one),
   and [l1d_data_level_order_irrelevant] that they do not depend on the order
   in which distinct points are told, for every number structure whose
   comparison is a strict total order ([OrdLaws]); any set of pending points
   may be present in the start state.  [batch_*] relate the batch path of
   tell_many to the incremental one for data and pend. *)
From AV Require Import Base.Prelude Proofs.OrderProofs Model.L1D.
From Coq Require Import Permutation ZArith QArith Qcanon.

Record OrdLaws (num : Type) (ltb eqb : num -> num -> bool) (is_nan : num -> bool) : Prop := {
  ol_irrefl : forall a, ltb a a = false;
  ol_trans : forall a b c, ltb a b = true -> ltb b c = true -> ltb a c = true;
  ol_total : forall a b, ltb a b = false -> ltb b a = false -> a = b;
  ol_eqb : forall a b, eqb a b = true <-> a = b;
  ol_nonan : forall a, is_nan a = false
}.
Arguments OrdLaws {num} ltb eqb is_nan.
Arguments ol_irrefl {num ltb eqb is_nan}. Arguments ol_trans {num ltb eqb is_nan}.
Arguments ol_total {num ltb eqb is_nan}. Arguments ol_eqb {num ltb eqb is_nan}.
Arguments ol_nonan {num ltb eqb is_nan}.

(* the laws are inhabited: integers, and canonical rationals (a field) *)
Lemma OrdLaws_Z : OrdLaws Z.ltb Z.eqb (fun _ => false).
Proof.
  split; intros; try reflexivity.
  - apply Z.ltb_irrefl.
  - apply Z.ltb_lt in H, H0. apply Z.ltb_lt. lia.
  - apply Z.ltb_ge in H, H0. lia.
  - apply Z.eqb_eq.
Qed.

Definition Qc_ltb (a b : Qc) : bool := if Qclt_le_dec a b then true else false.
Definition Qc_eqb (a b : Qc) : bool := if Qc_eq_dec a b then true else false.
Lemma OrdLaws_Qc : OrdLaws Qc_ltb Qc_eqb (fun _ => false).
Proof.
  split; unfold Qc_ltb, Qc_eqb; intros; try reflexivity.
  - destruct (Qclt_le_dec a a) as [H|H]; [exfalso; exact (Qclt_not_eq _ _ H eq_refl)|reflexivity].
  - destruct (Qclt_le_dec a b) as [H1|]; [|discriminate]. destruct (Qclt_le_dec b c) as [H2|]; [|discriminate].
    destruct (Qclt_le_dec a c) as [|H3]; [reflexivity|]. exfalso.
    apply (Qclt_not_le _ _ (Qclt_trans _ _ _ H1 H2)). exact H3.
  - destruct (Qclt_le_dec a b) as [|H1]; [discriminate|]. destruct (Qclt_le_dec b a) as [|H2]; [discriminate|].
    apply Qcle_antisym; assumption.
  - destruct (Qc_eq_dec a b); split; intros; congruence.
Qed.

Section L1DOrder.
  Variable num : Type.
  Variables (add sub mul div : num -> num -> num).
  Variables (ltb eqb : num -> num -> bool).
  Variables (zero one inf neg_inf : num).
  Variable is_nan : num -> bool.
  Variable is_inf : num -> bool.
  Variable round12 : num -> num.
  Variable of_nat : nat -> num.
  Variable L : list (option num) -> list (option (Y num)) -> num.
  Variable P : params num.
  Hypothesis OL : OrdLaws ltb eqb is_nan.

  Notation st := (L1D.st num).
  Notation Y := (L1D.Y num).
  Notation tell := (@L1D.tell num sub mul div ltb eqb zero one inf neg_inf is_nan is_inf round12 L P).
  Notation tell_pending := (@L1D.tell_pending num sub mul div ltb eqb zero one inf L P).
  Notation tell_many := (@L1D.tell_many num sub mul div ltb eqb zero one inf neg_inf is_nan is_inf round12 L P).
  Notation tell_many_batch := (@L1D.tell_many_batch num sub mul div ltb eqb zero one inf is_nan L P).
  Notation update_scale := (@L1D.update_scale num sub ltb zero inf neg_inf is_nan).
  Notation update_losses := (@L1D.update_losses num sub mul div ltb eqb zero one inf L P).
  Notation sweep := (@L1D.sweep num sub mul div ltb eqb zero one is_nan is_inf round12 L P).
  Notation update_interp := (@L1D.update_interp num sub mul div ltb eqb zero one L P).
  Notation insert := (@L1D.insert num ltb eqb).
  Notation remove := (@L1D.remove num eqb).
  Notation dset := (@L1D.dset num ltb eqb).
  Notation dget := (@L1D.dget num eqb).
  Notation pmin := (@L1D.pmin num ltb).
  Notation pmax := (@L1D.pmax num ltb).
  Notation nanmin := (@L1D.nanmin num ltb is_nan).
  Notation nanmax := (@L1D.nanmax num ltb is_nan).
  Notation in_bounds := (@L1D.in_bounds num ltb eqb P).
  Implicit Types (s : st) (x a b c : num) (y : Y) (l : list num) (d : list (num * Y)).

  (* ---------------- order reasoning ---------------- *)
  Lemma lt_asym a b : ltb a b = true -> ltb b a = false.
  Proof.
    intros H. destruct (ltb b a) eqn:E; [|reflexivity].
    pose proof (ol_trans OL _ _ _ H E) as H0. rewrite (ol_irrefl OL) in H0. discriminate.
  Qed.
  Lemma eqb_refl a : eqb a a = true.
  Proof. apply (ol_eqb OL). reflexivity. Qed.
  Lemma eqb_neq a b : a <> b -> eqb a b = false.
  Proof. intros H. destruct (eqb a b) eqn:E; [|reflexivity]. apply (ol_eqb OL) in E. contradiction. Qed.
  Lemma lt_neq a b : ltb a b = true -> a <> b.
  Proof. intros H ->. rewrite (ol_irrefl OL) in H. discriminate. Qed.

  Inductive cmp3 a b : Prop :=
  | CLt : ltb a b = true -> ltb b a = false -> eqb a b = false -> eqb b a = false -> cmp3 a b
  | CEq : a = b -> cmp3 a b
  | CGt : ltb b a = true -> ltb a b = false -> eqb a b = false -> eqb b a = false -> cmp3 a b.

  Lemma cmp a b : cmp3 a b.
  Proof.
    destruct (ltb a b) eqn:E1.
    - apply CLt; auto using lt_asym; apply eqb_neq; [|apply not_eq_sym]; apply lt_neq; exact E1.
    - destruct (ltb b a) eqn:E2.
      + apply CGt; auto; apply eqb_neq; [apply not_eq_sym|]; apply lt_neq; exact E2.
      + apply CEq. apply (ol_total OL); assumption.
  Qed.

  Ltac cmp x y :=
    let H1 := fresh "Hlt" in let H2 := fresh "Hnl" in let H3 := fresh "Hne" in let H4 := fresh "Hne" in
    destruct (cmp x y) as [H1 H2 H3 H4|H1|H1 H2 H3 H4].
  Ltac ord_rw :=
    repeat first
      [ rewrite (ol_irrefl OL) | rewrite eqb_refl | rewrite (ol_nonan OL)
      | match goal with
        | H : ltb ?a ?b = _ |- context[ltb ?a ?b] => rewrite H
        | H : eqb ?a ?b = _ |- context[eqb ?a ?b] => rewrite H
        end ].
  Ltac ord_sat :=
    repeat match goal with
    | H1 : ltb ?a ?b = true, H2 : ltb ?b ?c = true |- _ =>
        lazymatch goal with
        | H : ltb a c = true |- _ => fail
        | _ => pose proof (ol_trans OL _ _ _ H1 H2)
        end
    end.
  Ltac ord_contra :=
    exfalso; ord_sat;
    match goal with
    | H : ltb ?a ?a = true |- _ => rewrite (ol_irrefl OL) in H; discriminate H
    | H1 : ltb ?a ?b = true, H2 : ltb ?a ?b = false |- _ => rewrite H1 in H2; discriminate H2
    | H : ?a <> ?a |- _ => apply H; reflexivity
    end.

  (* ---------------- containers ---------------- *)
  Lemma insert_comm x1 x2 l : insert x1 (insert x2 l) = insert x2 (insert x1 l).
  Proof.
    cmp x1 x2; [|subst; reflexivity|];
    (induction l as [|k l IH]; cbn [L1D.insert];
     [ord_rw; cbn [L1D.insert]; ord_rw; reflexivity|];
     cmp x1 k; cmp x2 k; subst; cbn [L1D.insert]; ord_rw; cbn [L1D.insert]; ord_rw;
     try reflexivity; try (rewrite IH; reflexivity); try ord_contra).
  Qed.

  Lemma remove_comm x1 x2 l : remove x1 (remove x2 l) = remove x2 (remove x1 l).
  Proof.
    cmp x1 x2; [|subst; reflexivity|];
    (induction l as [|k l IH]; cbn [L1D.remove]; [reflexivity|];
     cmp x1 k; cmp x2 k; subst; cbn [L1D.remove]; ord_rw; cbn [L1D.remove]; ord_rw;
     try reflexivity; try (rewrite IH; reflexivity); try ord_contra).
  Qed.

  Lemma dset_comm x1 y1 x2 y2 d : x1 <> x2 ->
    dset x1 y1 (dset x2 y2 d) = dset x2 y2 (dset x1 y1 d).
  Proof.
    intros Hne. cmp x1 x2; [|contradiction|];
    (induction d as [|[k u] d IH]; cbn [L1D.dset];
     [ord_rw; cbn [L1D.dset]; ord_rw; reflexivity|];
     cmp x1 k; cmp x2 k; subst; cbn [L1D.dset]; ord_rw; cbn [L1D.dset]; ord_rw;
     try reflexivity; try (rewrite IH; reflexivity); try ord_contra).
  Qed.

  Lemma dget_dset_other x1 x2 y2 d : x1 <> x2 -> dget x1 (dset x2 y2 d) = dget x1 d.
  Proof.
    intros Hne. cmp x1 x2; [|contradiction|];
    (induction d as [|[k u] d IH]; cbn [L1D.dset L1D.dget];
     [ord_rw; reflexivity|];
     cmp x1 k; cmp x2 k; subst; cbn [L1D.dset L1D.dget]; ord_rw; cbn [L1D.dget]; ord_rw;
     try reflexivity; try exact IH; try ord_contra).
  Qed.

  Lemma dget_dset_same x y d : dget x (dset x y d) = Some y.
  Proof.
    induction d as [|[k u] d IH]; cbn [L1D.dset L1D.dget]; [ord_rw; reflexivity|].
    cmp x k; subst; cbn [L1D.dset L1D.dget]; ord_rw; cbn [L1D.dget]; ord_rw; try reflexivity. exact IH.
  Qed.

  (* ---------------- min / max ---------------- *)
  Lemma pmin_rcomm a b c : pmin (pmin a b) c = pmin (pmin a c) b.
  Proof.
    unfold L1D.pmin. cmp a b; cmp a c; cmp b c; subst; ord_rw; try reflexivity; try ord_contra.
  Qed.
  Lemma pmax_rcomm a b c : pmax (pmax a b) c = pmax (pmax a c) b.
  Proof.
    unfold L1D.pmax. cmp a b; cmp a c; cmp b c; subst; ord_rw; try reflexivity; try ord_contra.
  Qed.
  Lemma nanmin_rcomm a b c : nanmin (nanmin a b) c = nanmin (nanmin a c) b.
  Proof.
    unfold L1D.nanmin. rewrite !(ol_nonan OL). cmp a b; cmp a c; cmp b c; subst; ord_rw; try reflexivity; try ord_contra.
  Qed.
  Lemma nanmax_rcomm a b c : nanmax (nanmax a b) c = nanmax (nanmax a c) b.
  Proof.
    unfold L1D.nanmax. rewrite !(ol_nonan OL). cmp a b; cmp a c; cmp b c; subst; ord_rw; try reflexivity; try ord_contra.
  Qed.
  Lemma nanmin_comm a b : nanmin a b = nanmin b a.
  Proof. unfold L1D.nanmin. rewrite !(ol_nonan OL). cmp a b; subst; ord_rw; reflexivity. Qed.
  Lemma nanmax_comm a b : nanmax a b = nanmax b a.
  Proof. unfold L1D.nanmax. rewrite !(ol_nonan OL). cmp a b; subst; ord_rw; reflexivity. Qed.

  Lemma map2_rcomm (f : num -> num -> num) : (forall a b c, f (f a b) c = f (f a c) b) ->
    forall m v1 v2, map2 f (map2 f m v1) v2 = map2 f (map2 f m v2) v1.
  Proof.
    intros Hf. induction m as [|a m IH]; intros [|b v1] [|c v2]; cbn [map2]; try reflexivity.
    rewrite Hf, IH. reflexivity.
  Qed.
  Lemma map2_comm (f : num -> num -> num) : (forall a b, f a b = f b a) ->
    forall v1 v2, map2 f v1 v2 = map2 f v2 v1.
  Proof.
    intros Hf. induction v1 as [|a v1 IH]; intros [|b v2]; cbn [map2]; try reflexivity.
    rewrite Hf, IH. reflexivity.
  Qed.

  (* ---------------- the data-level projection ---------------- *)
  Record dst := mkd {
    d_data : list (num * Y); d_pend : list num; d_nb : list num; d_nbc : list num;
    d_bbx : num * num; d_bby : Y * Y; d_sx : num; d_sy : num
  }.
  Definition proj s : dst := mkd (data s) (pend s) (nb s) (nbc s) (bbx s) (bby s) (sx s) (sy s).

  (* _update_scale as a function of the bounding box alone *)
  Definition scale_of (bx : num * num) (bY : Y * Y) x y : (num * num) * (Y * Y) * num * num :=
    let s' := update_scale (mk [] [] [] [] [] [] bx bY zero zero zero zero) x y in
    (bbx s', bby s', sx s', sy s').

  Definition tell_d (t : dst) x y : dst :=
    match dget x (d_data t) with
    | Some _ => t
    | None =>
        let data' := dset x y (d_data t) in
        let pend' := remove x (d_pend t) in
        if negb (in_bounds x) then mkd data' pend' (d_nb t) (d_nbc t) (d_bbx t) (d_bby t) (d_sx t) (d_sy t)
        else
          let '(bx, bY, sx', sy') := scale_of (d_bbx t) (d_bby t) x y in
          mkd data' pend' (insert x (d_nb t)) (insert x (d_nbc t)) bx bY sx' sy'
    end.

  Lemma proj_with_los s m1 m2 : proj (with_los s m1 m2) = proj s.
  Proof. reflexivity. Qed.

  Lemma proj_update_interp s iv : proj (update_interp s iv) = proj s.
  Proof. destruct iv as [a b]. reflexivity. Qed.

  Lemma proj_fold_update_interp ivs : forall s, proj (fold_left update_interp ivs s) = proj s.
  Proof.
    induction ivs as [|iv ivs IH]; intros s; cbn [fold_left]; [reflexivity|].
    rewrite IH. apply proj_update_interp.
  Qed.

  Lemma proj_update_losses s x real : proj (update_losses s x real) = proj s.
  Proof.
    unfold L1D.update_losses.
    destruct (find_neighbors ltb x (nb s)) as [xl xr].
    destruct (find_neighbors ltb x (nbc s)) as [a b].
    destruct real.
    - repeat match goal with
             | |- context[if ?c then _ else _] => destruct c
             end; rewrite ?proj_with_los, ?proj_fold_update_interp, ?proj_with_los; reflexivity.
    - destruct xl as [l0|], xr as [r0|]; cbn [negb andb];
        try (destruct (lget eqb (l0, r0) (los (with_los s (los s) (lpop_opt eqb a b (losc s))))));
        repeat match goal with
               | |- context[if ?c then _ else _] => destruct c
               end; rewrite ?proj_with_los; reflexivity.
  Qed.

  Lemma proj_sweep s : proj (sweep s) = proj s.
  Proof. unfold L1D.sweep. apply proj_fold_update_interp. Qed.

  Lemma update_scale_scale_of s x y :
    proj (update_scale s x y) =
    let '(bx, bY, sx', sy') := scale_of (bbx s) (bby s) x y in
    mkd (data s) (pend s) (nb s) (nbc s) bx bY sx' sy'.
  Proof.
    unfold scale_of, L1D.update_scale. cbn [bbx bby].
    destruct y as [v|vs].
    - reflexivity.
    - destruct (bby s) as [[m|m] [M|M]]; reflexivity.
  Qed.

  Theorem proj_tell s x y : proj (tell s x y) = tell_d (proj s) x y.
  Proof.
    unfold L1D.tell, tell_d. cbn [proj d_data d_pend d_nb d_nbc d_bbx d_bby d_sx d_sy].
    destruct (dget x (data s)); [reflexivity|].
    destruct (negb (in_bounds x)); [reflexivity|].
    match goal with |- context[if ?c then _ else _] => destruct c end.
    - change (proj (mk ?a ?b ?c ?d ?e ?f ?g ?h ?i ?j ?k ?m)) with (mkd a b c d g h i j).
      cbn [data pend nb nbc bbx bby sx sy].
      change (mkd (data ?t) (pend ?t) (nb ?t) (nbc ?t) (bbx ?t) (bby ?t) (sx ?t) (sy ?t)) with (proj t).
      rewrite proj_sweep, proj_update_losses, update_scale_scale_of. reflexivity.
    - rewrite proj_update_losses, update_scale_scale_of. reflexivity.
  Qed.

  (* ---------------- commutation at the data level ---------------- *)
  Definition same_kind (y1 y2 : Y) : Prop :=
    match y1, y2 with YS _, YS _ => True | YV _, YV _ => True | _, _ => False end.

  Lemma same_kind_sym y1 y2 : same_kind y1 y2 -> same_kind y2 y1.
  Proof. destruct y1, y2; cbn; auto. Qed.

  Lemma scale_of_comm bx bY x1 y1 x2 y2 : same_kind y1 y2 ->
    (let '(bx1, by1, _, _) := scale_of bx bY x1 y1 in scale_of bx1 by1 x2 y2) =
    (let '(bx2, by2, _, _) := scale_of bx bY x2 y2 in scale_of bx2 by2 x1 y1).
  Proof.
    intros HK. unfold scale_of, L1D.update_scale. cbn [bbx bby sx sy fst snd].
    destruct y1 as [v1|v1], y2 as [v2|v2]; cbn in HK; try contradiction.
    - cbn [bbx bby sx sy fst snd].
      rewrite (pmin_rcomm (fst bx) x1 x2), (pmax_rcomm (snd bx) x1 x2).
      rewrite (pmin_rcomm _ v1 v2), (pmax_rcomm _ v1 v2). reflexivity.
    - destruct bY as [[m|m] [M|M]]; cbn [bbx bby sx sy fst snd];
        rewrite (pmin_rcomm (fst bx) x1 x2), (pmax_rcomm (snd bx) x1 x2);
        rewrite ?(map2_comm _ nanmin_comm v1 v2), ?(map2_comm _ nanmax_comm v1 v2);
        rewrite ?(map2_rcomm _ nanmin_rcomm m v1 v2), ?(map2_rcomm _ nanmax_rcomm M v1 v2);
        reflexivity.
  Qed.

  Definition related (p q : num * Y) : Prop := fst p <> fst q /\ same_kind (snd p) (snd q).

  Lemma tell_d_known t x y y0 : dget x (d_data t) = Some y0 -> tell_d t x y = t.
  Proof. intros G. unfold tell_d. rewrite G. reflexivity. Qed.

  Lemma tell_d_out t x y : dget x (d_data t) = None -> in_bounds x = false ->
    tell_d t x y = mkd (dset x y (d_data t)) (remove x (d_pend t)) (d_nb t) (d_nbc t)
                       (d_bbx t) (d_bby t) (d_sx t) (d_sy t).
  Proof. intros G B. unfold tell_d. rewrite G, B. reflexivity. Qed.

  Lemma tell_d_in t x y bx bY sx' sy' : dget x (d_data t) = None -> in_bounds x = true ->
    scale_of (d_bbx t) (d_bby t) x y = (bx, bY, sx', sy') ->
    tell_d t x y = mkd (dset x y (d_data t)) (remove x (d_pend t)) (insert x (d_nb t)) (insert x (d_nbc t))
                       bx bY sx' sy'.
  Proof. intros G B E. unfold tell_d. rewrite G, B, E. reflexivity. Qed.

  Lemma tell_d_comm t x1 y1 x2 y2 : x1 <> x2 -> same_kind y1 y2 ->
    tell_d (tell_d t x1 y1) x2 y2 = tell_d (tell_d t x2 y2) x1 y1.
  Proof.
    intros Hne HK. assert (Hne' : x2 <> x1) by congruence.
    pose proof (scale_of_comm (d_bbx t) (d_bby t) x1 y1 x2 y2 HK) as HS.
    destruct (scale_of (d_bbx t) (d_bby t) x1 y1) as [[[bx1 by1] sx1] sy1] eqn:E1.
    destruct (scale_of (d_bbx t) (d_bby t) x2 y2) as [[[bx2 by2] sx2] sy2] eqn:E2.
    destruct (scale_of bx1 by1 x2 y2) as [[[bx3 by3] sx3] sy3] eqn:E3. symmetry in HS.
    assert (G12 : forall y, dget x1 (dset x2 y (d_data t)) = dget x1 (d_data t))
      by (intros; apply dget_dset_other; exact Hne).
    assert (G21 : forall y, dget x2 (dset x1 y (d_data t)) = dget x2 (d_data t))
      by (intros; apply dget_dset_other; exact Hne').
    destruct (dget x1 (d_data t)) as [y0|] eqn:G1, (dget x2 (d_data t)) as [y0'|] eqn:G2.
    - rewrite (tell_d_known t x1 y1 _ G1), (tell_d_known t x2 y2 _ G2). symmetry. apply (tell_d_known t x1 y1 _ G1).
    - rewrite (tell_d_known t x1 y1 _ G1).
      destruct (in_bounds x2) eqn:B2.
      + rewrite (tell_d_in t x2 y2 _ _ _ _ G2 B2 E2). symmetry. eapply tell_d_known. cbn [d_data]. rewrite G12. reflexivity.
      + rewrite (tell_d_out t x2 y2 G2 B2). symmetry. eapply tell_d_known. cbn [d_data]. rewrite G12. reflexivity.
    - rewrite (tell_d_known t x2 y2 _ G2).
      destruct (in_bounds x1) eqn:B1.
      + rewrite (tell_d_in t x1 y1 _ _ _ _ G1 B1 E1). eapply tell_d_known. cbn [d_data]. rewrite G21. reflexivity.
      + rewrite (tell_d_out t x1 y1 G1 B1). eapply tell_d_known. cbn [d_data]. rewrite G21. reflexivity.
    - destruct (in_bounds x1) eqn:B1, (in_bounds x2) eqn:B2.
      + rewrite (tell_d_in t x1 y1 _ _ _ _ G1 B1 E1), (tell_d_in t x2 y2 _ _ _ _ G2 B2 E2).
        erewrite tell_d_in; [|cbn [d_data]; rewrite G21; reflexivity|exact B2|cbn [d_bbx d_bby]; exact E3].
        erewrite tell_d_in; [|cbn [d_data]; rewrite G12; reflexivity|exact B1|cbn [d_bbx d_bby]; exact HS].
        cbn [d_data d_pend d_nb d_nbc].
        rewrite (dset_comm x2 y2 x1 y1 _ Hne'), (remove_comm x2 x1), (insert_comm x2 x1 (d_nb t)),
          (insert_comm x2 x1 (d_nbc t)). reflexivity.
      + rewrite (tell_d_in t x1 y1 _ _ _ _ G1 B1 E1), (tell_d_out t x2 y2 G2 B2).
        erewrite tell_d_out; [|cbn [d_data]; rewrite G21; reflexivity|exact B2].
        erewrite tell_d_in; [|cbn [d_data]; rewrite G12; reflexivity|exact B1|cbn [d_bbx d_bby]; exact E1].
        cbn [d_data d_pend d_nb d_nbc d_bbx d_bby d_sx d_sy].
        rewrite (dset_comm x2 y2 x1 y1 _ Hne'), (remove_comm x2 x1). reflexivity.
      + rewrite (tell_d_out t x1 y1 G1 B1), (tell_d_in t x2 y2 _ _ _ _ G2 B2 E2).
        erewrite tell_d_in; [|cbn [d_data]; rewrite G21; reflexivity|exact B2|cbn [d_bbx d_bby]; exact E2].
        erewrite tell_d_out; [|cbn [d_data]; rewrite G12; reflexivity|exact B1].
        cbn [d_data d_pend d_nb d_nbc d_bbx d_bby d_sx d_sy].
        rewrite (dset_comm x2 y2 x1 y1 _ Hne'), (remove_comm x2 x1). reflexivity.
      + rewrite (tell_d_out t x1 y1 G1 B1), (tell_d_out t x2 y2 G2 B2).
        erewrite tell_d_out; [|cbn [d_data]; rewrite G21; reflexivity|exact B2].
        erewrite tell_d_out; [|cbn [d_data]; rewrite G12; reflexivity|exact B1].
        cbn [d_data d_pend d_nb d_nbc d_bbx d_bby d_sx d_sy].
        rewrite (dset_comm x2 y2 x1 y1 _ Hne'), (remove_comm x2 x1). reflexivity.
  Qed.

  Definition tell1 s (p : num * Y) : st := tell s (fst p) (snd p).
  Definition tell_d1 (t : dst) (p : num * Y) : dst := tell_d t (fst p) (snd p).

  Lemma proj_tells (ps : list (num * Y)) : forall s, proj (fold_left tell1 ps s) = fold_left tell_d1 ps (proj s).
  Proof.
    induction ps as [|p ps IH]; intros s; cbn [fold_left]; [reflexivity|].
    rewrite IH. unfold tell1, tell_d1. rewrite proj_tell. reflexivity.
  Qed.

  (* The data-level components after telling a list of results do not depend
     on the order, whatever the start state (in particular with any set of
     pending points): points pairwise distinct, values all scalars or all vectors. *)
  Theorem l1d_data_level_order_irrelevant s (l1 l2 : list (num * Y)) :
    Pairwise related l1 -> Permutation l1 l2 ->
    proj (fold_left tell1 l1 s) = proj (fold_left tell1 l2 s).
  Proof.
    intros HW HP. rewrite !proj_tells.
    apply fold_perm with (R := related); auto.
    - intros p q [H1 H2]. split; [congruence|apply same_kind_sym; exact H2].
    - intros t [x1 y1] [x2 y2] [H1 H2]. unfold tell_d1; cbn [fst snd] in *. apply tell_d_comm; assumption.
  Qed.

  Corollary l1d_data_level_components s (l1 l2 : list (num * Y)) :
    Pairwise related l1 -> Permutation l1 l2 ->
    let s1 := fold_left tell1 l1 s in let s2 := fold_left tell1 l2 s in
    data s1 = data s2 /\ pend s1 = pend s2 /\ nb s1 = nb s2 /\ nbc s1 = nbc s2 /\
    bbx s1 = bbx s2 /\ bby s1 = bby s2 /\ sx s1 = sx s2 /\ sy s1 = sy s2.
  Proof.
    intros HW HP. pose proof (l1d_data_level_order_irrelevant s l1 l2 HW HP) as H.
    unfold proj in H. inversion H. repeat split; assumption.
  Qed.

  (* ---------------- batch path: data and pending ---------------- *)
  Definition dset1 d (p : num * Y) := dset (fst p) (snd p) d.
  Definition remove1 l (p : num * Y) := remove (fst p) l.

  Lemma proj_batch_fold ti : forall s,
    proj (fold_left (fun s iv => match lget eqb iv (los s) with Some _ => update_interp s iv | None => s end) ti s) = proj s.
  Proof.
    induction ti as [|iv ti IH]; intros s; cbn [fold_left]; [reflexivity|].
    rewrite IH. destruct (lget eqb iv (los s)); [apply proj_update_interp|reflexivity].
  Qed.

  Lemma batch_data_pend s xys :
    data (tell_many_batch s xys) = fold_left dset1 xys (data s) /\
    pend (tell_many_batch s xys) = fold_left remove1 xys (pend s).
  Proof.
    unfold L1D.tell_many_batch.
    match goal with |- context[batch_combined ?e ?a ?b ?c ?d] => destruct (batch_combined e a b c d) as [lc ti] end.
    match goal with |- data ?t = _ /\ _ =>
      change (data t) with (d_data (proj t)); change (pend t) with (d_pend (proj t)) end.
    rewrite proj_batch_fold. split; reflexivity.
  Qed.

  Lemma dget_fold_dset_other x xys : forall d, ~ In x (map fst xys) ->
    dget x (fold_left dset1 xys d) = dget x d.
  Proof.
    induction xys as [|[x' y'] xys IH]; intros d Hn; cbn [fold_left map fst In] in *; [reflexivity|].
    rewrite IH by tauto. unfold dset1; cbn [fst snd]. apply dget_dset_other. intros E. apply Hn. left. congruence.
  Qed.

  Lemma incr_data_pend xys : forall s, NoDup (map fst xys) ->
    (forall x, In x (map fst xys) -> dget x (data s) = None) ->
    data (fold_left tell1 xys s) = fold_left dset1 xys (data s) /\
    pend (fold_left tell1 xys s) = fold_left remove1 xys (pend s).
  Proof.
    induction xys as [|[x y] xys IH]; intros s Hnd Hnew; cbn [fold_left map fst] in *; [split; reflexivity|].
    inversion Hnd as [|? ? Hx Hnd']; subst.
    assert (G : dget x (data s) = None) by (apply Hnew; left; reflexivity).
    assert (E : proj (tell1 s (x, y)) = tell_d (proj s) x y) by apply proj_tell.
    assert (Ed : data (tell1 s (x, y)) = dset x y (data s) /\ pend (tell1 s (x, y)) = remove x (pend s)).
    { change (data (tell1 s (x, y))) with (d_data (proj (tell1 s (x, y)))).
      change (pend (tell1 s (x, y))) with (d_pend (proj (tell1 s (x, y)))).
      rewrite E. unfold tell_d. cbn [proj d_data d_pend d_nb d_nbc d_bbx d_bby]. rewrite G.
      destruct (negb (in_bounds x)); [split; reflexivity|].
      destruct (scale_of (bbx s) (bby s) x y) as [[[bx bY] sx'] sy']. split; reflexivity. }
    destruct Ed as [Ed Ep].
    destruct (IH (tell1 s (x, y)) Hnd') as [H1 H2].
    - intros x' Hx'. rewrite Ed. rewrite dget_dset_other; [apply Hnew; right; exact Hx'|].
      intros ->. contradiction.
    - rewrite H1, H2, Ed, Ep. split; reflexivity.
  Qed.

  (* batch and incremental delivery agree on data and pending, for both
     settings of [force] (hence also for the default switch) *)
  Theorem l1d_batch_data_pend s xys force : NoDup (map fst xys) ->
    (forall x, In x (map fst xys) -> dget x (data s) = None) ->
    data (tell_many s xys force) = data (fold_left tell1 xys s) /\
    pend (tell_many s xys force) = pend (fold_left tell1 xys s).
  Proof.
    intros Hnd Hnew. destruct (incr_data_pend xys s Hnd Hnew) as [H1 H2].
    unfold L1D.tell_many.
    match goal with |- context[if ?c then _ else _] => destruct c end.
    - split; reflexivity.
    - destruct (batch_data_pend s xys) as [B1 B2]. rewrite B1, B2, H1, H2. split; reflexivity.
  Qed.

  (* ================================================================ *)
  (* Support for property C13: the data dictionary is kept sorted and
     duplicate-free by every operation, and telling its items to a fresh
     learner (either path of tell_many) rebuilds it. *)
  Notation step := (@L1D.step num add sub mul div ltb eqb zero one inf neg_inf is_nan is_inf round12 of_nat L P).
  Notation run := (@L1D.run num add sub mul div ltb eqb zero one inf neg_inf is_nan is_inf round12 of_nat L P).
  Notation init := (@L1D.init num sub zero inf neg_inf P).

  Definition ksorted (ks : list num) : Prop := Sorted.StronglySorted (fun a b => ltb a b = true) ks.

  Lemma dset_keys_In x y d k : In k (map fst (dset x y d)) <-> k = x \/ In k (map fst d).
  Proof.
    induction d as [|[k0 u] d IH]; cbn [L1D.dset map fst In]; [intuition|].
    cmp x k0; subst; ord_rw; cbn [map fst In]; [intuition|intuition|]. rewrite IH. intuition.
  Qed.

  Lemma dset_sorted x y d : ksorted (map fst d) -> ksorted (map fst (dset x y d)).
  Proof.
    unfold ksorted. induction d as [|[k0 u] d IH]; cbn [L1D.dset map fst]; intros H.
    - repeat constructor.
    - inversion H as [|? ? Hs Hf]; subst.
      cmp x k0; subst; ord_rw; cbn [map fst].
      + constructor; [exact H|]. constructor; [assumption|].
        rewrite Forall_forall in *. intros z Hz. eapply (ol_trans OL); [eassumption|apply Hf; exact Hz].
      + constructor; assumption.
      + constructor; [apply IH; exact Hs|].
        rewrite Forall_forall in *. intros z Hz. apply dset_keys_In in Hz as [->|Hz]; [assumption|apply Hf; exact Hz].
  Qed.

  Lemma ksorted_NoDup ks : ksorted ks -> NoDup ks.
  Proof.
    unfold ksorted. induction ks as [|k ks IH]; intros H; [constructor|].
    inversion H as [|? ? Hs Hf]; subst. constructor; [|apply IH; exact Hs].
    intros Hin. rewrite Forall_forall in Hf. specialize (Hf _ Hin). rewrite (ol_irrefl OL) in Hf. discriminate.
  Qed.

  Lemma ksorted_app_lt (l1 : list num) x (l2 : list num) :
    ksorted (l1 ++ x :: l2) -> Forall (fun k => ltb k x = true) l1.
  Proof.
    unfold ksorted. induction l1 as [|k l1 IH]; cbn [app]; intros H; [constructor|].
    inversion H as [|? ? Hs Hf]; subst. constructor; [|apply IH; exact Hs].
    rewrite Forall_forall in Hf. apply Hf. apply in_or_app. right. left. reflexivity.
  Qed.

  Lemma dset_append x y d : Forall (fun k => ltb k x = true) (map fst d) -> dset x y d = d ++ [(x, y)].
  Proof.
    induction d as [|[k0 u] d IH]; cbn [L1D.dset map fst app]; intros H; [reflexivity|].
    inversion H as [|? ? Hk Hf]; subst.
    rewrite (lt_asym _ _ Hk), (eqb_neq x k0); [|apply not_eq_sym; apply lt_neq; exact Hk].
    rewrite IH by exact Hf. reflexivity.
  Qed.

  Lemma fold_dset_rebuild (xys : list (num * Y)) : forall acc, ksorted (map fst (acc ++ xys)) ->
    fold_left dset1 xys acc = acc ++ xys.
  Proof.
    induction xys as [|[x y] xys IH]; intros acc H; cbn [fold_left]; [rewrite app_nil_r; reflexivity|].
    unfold dset1 at 2; cbn [fst snd].
    rewrite dset_append.
    - rewrite IH; rewrite <- app_assoc; [reflexivity|exact H].
    - rewrite map_app in H. cbn [map fst] in H. eapply ksorted_app_lt. exact H.
  Qed.

  Lemma data_tell s x y : data (tell s x y) = data s \/ data (tell s x y) = dset x y (data s).
  Proof.
    change (data (tell s x y)) with (d_data (proj (tell s x y))). rewrite proj_tell. unfold tell_d.
    cbn [proj d_data d_pend d_nb d_nbc d_bbx d_bby].
    destruct (dget x (data s)); [left; reflexivity|]. right.
    destruct (negb (in_bounds x)); [reflexivity|].
    destruct (scale_of (bbx s) (bby s) x y) as [[[bx bY] sx'] sy']. reflexivity.
  Qed.

  Lemma data_tell_pending s x : data (tell_pending s x) = data s.
  Proof.
    unfold L1D.tell_pending. destruct (dget x (data s)); [reflexivity|].
    match goal with |- data ?t = _ => change (data t) with (d_data (proj t)) end.
    rewrite proj_update_losses. reflexivity.
  Qed.

  Lemma data_fold_tell_pending (xs : list num) : forall s, data (fold_left tell_pending xs s) = data s.
  Proof.
    induction xs as [|x xs IH]; intros s; cbn [fold_left]; [reflexivity|]. rewrite IH. apply data_tell_pending.
  Qed.

  Lemma sorted_fold_tell (xys : list (num * Y)) : forall s, ksorted (map fst (data s)) ->
    ksorted (map fst (data (fold_left tell1 xys s))).
  Proof.
    induction xys as [|[x y] xys IH]; intros s H; cbn [fold_left]; [exact H|].
    apply IH. unfold tell1; cbn [fst snd].
    destruct (data_tell s x y) as [E|E]; rewrite E; [exact H|apply dset_sorted; exact H].
  Qed.

  Lemma sorted_fold_dset (xys : list (num * Y)) : forall d, ksorted (map fst d) ->
    ksorted (map fst (fold_left dset1 xys d)).
  Proof.
    induction xys as [|[x y] xys IH]; intros d H; cbn [fold_left]; [exact H|].
    apply IH. apply dset_sorted. exact H.
  Qed.

  Lemma sorted_step s o : ksorted (map fst (data s)) -> ksorted (map fst (data (fst (step s o)))).
  Proof.
    intros H. destruct o as [x y|x|xys f| |n c]; cbn [L1D.step fst].
    - destruct (data_tell s x y) as [E|E]; rewrite E; [exact H|apply dset_sorted; exact H].
    - rewrite data_tell_pending. exact H.
    - unfold L1D.tell_many. match goal with |- context[if ?c then _ else _] => destruct c end.
      + apply (sorted_fold_tell xys s H).
      + destruct (batch_data_pend s xys) as [B _]. rewrite B. apply sorted_fold_dset. exact H.
    - exact H.
    - unfold L1D.ask; cbn [fst]. destruct c; [|exact H]. rewrite data_fold_tell_pending. exact H.
  Qed.

  Theorem l1d_data_sorted h : forall s, ksorted (map fst (data s)) -> ksorted (map fst (data (run s h))).
  Proof.
    induction h as [|o h IH]; intros s H; [exact H|].
    change (run s (o :: h)) with (run (fst (step s o)) h). apply IH. apply sorted_step. exact H.
  Qed.

  (* _get_data returns the data dictionary; _set_data tells all its items in
     one tell_many call (default switch between the two paths) *)
  Definition l1d_get_data s : list (num * Y) := data s.
  Definition l1d_set_data s (d : list (num * Y)) : st :=
    match d with [] => s | _ => tell_many s d false end.

  Lemma set_data_rebuilds (d : list (num * Y)) : ksorted (map fst d) -> data (l1d_set_data init d) = d.
  Proof.
    intros H. unfold l1d_set_data. destruct d as [|p d']; [reflexivity|].
    set (d := p :: d') in *.
    assert (Hnd : NoDup (map fst d)) by (apply ksorted_NoDup; exact H).
    assert (Hnew : forall x, In x (map fst d) -> dget x (data init) = None) by (intros; reflexivity).
    destruct (l1d_batch_data_pend init d false Hnd Hnew) as [E _]. rewrite E.
    destruct (incr_data_pend d init Hnd Hnew) as [E' _]. rewrite E'.
    change (data init) with (@nil (num * Y)). apply (fold_dset_rebuild d []). exact H.
  Qed.

  Theorem l1d_data_roundtrip h :
    data (l1d_set_data init (l1d_get_data (run init h))) = data (run init h).
  Proof.
    apply set_data_rebuilds. apply l1d_data_sorted. constructor.
  Qed.
End L1DOrder.
