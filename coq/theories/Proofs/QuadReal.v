(* Property C08: the code's formulas in the ORTHONORMAL Legendre basis
   (B_k = sqrt(k + 1/2) P_k, igral = (b - a) c_0 / sqrt 2,
   err = (b - a) ||c_old - c_new||_2), over R, and their relation to the
   unnormalised rational model of Model/QuadAlg.v.  These lemmas use Coq's
   axiomatised real numbers (the standard Reals axioms only). *)
From Coq Require Import Reals Lra Arith.
Local Open Scope R_scope.

Fixpoint sumR (n : nat) (f : nat -> R) : R :=
  match n with
  | O => 0
  | S k => sumR k f + f k
  end.

(* integrator_coeffs.calc_V: V[i] *= sqrt(i + 0.5) *)
Definition sigma (k : nat) : R := sqrt (INR k + / 2).

(* _Interval.calc_igral *)
Definition igral_code (a b c0 : R) : R := (b - a) * c0 / sqrt 2.

(* _Interval.calc_err on two coefficient vectors already padded to length n *)
Definition err_code (a b : R) (n : nat) (c_old c_new : nat -> R) : R :=
  (b - a) * sqrt (sumR n (fun k => (c_old k - c_new k) * (c_old k - c_new k))).

(* IntegratorLearner.done(): err == 0 or err < |igral| tol or (removed-interval clause) or no interval left *)
Definition done_code (err igral tol : R) (other : Prop) : Prop :=
  err = 0 \/ err < Rabs igral * tol \/ other.

Lemma sumR_ext n f g : (forall k, (k < n)%nat -> f k = g k) -> sumR n f = sumR n g.
Proof.
  induction n as [|n IH]; intro H.
  - reflexivity.
  - cbn [sumR]. rewrite IH, H; auto.
Qed.

Lemma sumR_nonneg n f : (forall k, (k < n)%nat -> 0 <= f k) -> 0 <= sumR n f.
Proof.
  induction n as [|n IH]; intro H.
  - cbn [sumR]. lra.
  - cbn [sumR]. assert (0 <= sumR n f) by (apply IH; auto). assert (0 <= f n) by (apply H; auto). lra.
Qed.

Lemma sumR_zero n f : (forall k, (k < n)%nat -> f k = 0) -> sumR n f = 0.
Proof.
  induction n as [|n IH]; intro H.
  - reflexivity.
  - cbn [sumR]. rewrite IH, H by auto. lra.
Qed.

Lemma sigma_sq k : sigma k * sigma k = INR k + / 2.
Proof. unfold sigma. apply sqrt_sqrt. assert (0 <= INR k) by apply pos_INR. lra. Qed.

Lemma sigma_pos k : 0 < sigma k.
Proof. unfold sigma. apply sqrt_lt_R0. assert (0 <= INR k) by apply pos_INR. lra. Qed.

(* sqrt(1/2) * sqrt 2 = 1: the prefactor 1/sqrt 2 of calc_igral is the
   normalisation sqrt(0 + 1/2) of the constant basis function *)
Lemma sigma0_sqrt2 : sigma 0 * sqrt 2 = 1.
Proof.
  unfold sigma. cbn [INR]. rewrite <- sqrt_mult by lra.
  replace ((0 + / 2) * 2) with 1 by lra. apply sqrt_1.
Qed.

(* calc_igral in the orthonormal basis = (b - a) ct_0 in the unnormalised one,
   ct_0 = sigma_0 c_0 *)
Lemma igral_unnormalised a b ct0 : igral_code a b (ct0 / sigma 0) = (b - a) * ct0.
Proof.
  unfold igral_code.
  assert (S0 := sigma_pos 0). assert (S2 : 0 < sqrt 2) by (apply sqrt_lt_R0; lra).
  assert (E := sigma0_sqrt2).
  replace ((b - a) * (ct0 / sigma 0) / sqrt 2) with ((b - a) * ct0 / (sigma 0 * sqrt 2)) by (field; lra).
  rewrite E. field.
Qed.

(* calc_err squared in the orthonormal basis = Model.QuadAlg.err_sq read over R *)
Lemma err_unnormalised_sq a b n (ct_old ct_new : nat -> R) :
  let e := err_code a b n (fun k => ct_old k / sigma k) (fun k => ct_new k / sigma k) in
  e * e = (b - a) * (b - a)
          * sumR n (fun k => (ct_old k - ct_new k) * (ct_old k - ct_new k) / (INR k + / 2)).
Proof.
  intro e. unfold e, err_code.
  set (S := sumR n _).
  assert (HS : 0 <= S).
  { apply sumR_nonneg. intros k _. apply Rle_0_sqr. }
  replace ((b - a) * sqrt S * ((b - a) * sqrt S)) with ((b - a) * (b - a) * (sqrt S * sqrt S)) by ring.
  rewrite sqrt_sqrt by exact HS. f_equal. unfold S. apply sumR_ext. intros k _.
  assert (P := sigma_pos k). rewrite <- (sigma_sq k). field. lra.
Qed.

(* the error estimate is 0 when the padded coefficient vectors agree ... *)
Lemma err_code_zero a b n (c_old c_new : nat -> R) :
  (forall k, (k < n)%nat -> c_old k = c_new k) -> err_code a b n c_old c_new = 0.
Proof.
  intro H. unfold err_code. rewrite sumR_zero.
  - rewrite sqrt_0. ring.
  - intros k Hk. rewrite H by exact Hk. ring.
Qed.

(* ... and then done() holds, whatever the tolerance *)
Lemma done_code_when_coeffs_agree a b n (c_old c_new : nat -> R) igral tol other :
  (forall k, (k < n)%nat -> c_old k = c_new k) ->
  done_code (err_code a b n c_old c_new) igral tol other.
Proof. intro H. left. apply err_code_zero. exact H. Qed.

(* the estimate scales with the width and is non-negative for b >= a *)
Lemma err_code_nonneg a b n (c_old c_new : nat -> R) : a <= b -> 0 <= err_code a b n c_old c_new.
Proof.
  intro H. unfold err_code. apply Rmult_le_pos; [lra | apply sqrt_pos].
Qed.
