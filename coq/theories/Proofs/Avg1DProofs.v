(* Lemmas about Model/Avg1D.v.
   Part 1 (Section Generic1D): for every number structure -- per-abscissa
   bookkeeping invariant (counts = number of samples, seeds distinct, points
   with fewer than min_samples samples are undersampled), lifted to all legal
   histories; ask goes to an undersampled abscissa; tell_many expands into
   tell / tell_many_at_point.  Axiom-free.
   Part 2 (Section Real1D): over the reals -- data[x] is the sample mean,
   error[x] the Student-t half-width, batched = one-by-one. *)
From AV Require Import Base.Prelude Base.NatSet Model.AvgNum Model.Avg1D.

Lemma nodupb_NoDup l : nodupb l = true -> NoDup l.
Proof.
  induction l as [|a l IH]; cbn [nodupb]; intros H; [constructor|].
  apply andb_true_iff in H as [H1 H2]. constructor; [|apply IH; exact H2].
  intros Hin. apply nat_mem_In in Hin. rewrite Hin in H1. discriminate.
Qed.

Lemma NoDup_map_filter {A} (f : A -> nat) (g : A -> bool) l :
  NoDup (map f l) -> NoDup (map f (filter g l)).
Proof.
  induction l as [|a l IH]; cbn [map filter]; intros H; [constructor|].
  inversion H as [|? ? Hn Hd]; subst. destruct (g a); cbn [map]; [|apply IH; exact Hd].
  constructor; [|apply IH; exact Hd].
  intros Hin. apply Hn. apply in_map_iff in Hin as [b [Hb Hin]]. apply filter_In in Hin as [Hin _].
  apply in_map_iff. eauto.
Qed.

Section Generic1D.
  Variable N : NumOps.
  Variable tppf : nat -> num N.
  Implicit Types (c : cfg N) (s : st N) (p q : pt N) (l rest : list (nat * num N)).

  (* ---- dict.update with new keys appends ---- *)
  Lemma dict_set_fresh k v (d : list (nat * num N)) :
    ~ In k (map fst d) -> dict_set N k v d = d ++ [(k, v)].
  Proof.
    induction d as [|[k' v'] d IH]; cbn [dict_set map fst In app]; intros H; [reflexivity|].
    destruct (Nat.eqb_spec k k') as [->|Hne]; [tauto|]. f_equal. apply IH. tauto.
  Qed.

  Lemma dict_update_fresh upd : forall d : list (nat * num N),
    NoDup (map fst upd) -> (forall k, In k (map fst upd) -> ~ In k (map fst d)) ->
    dict_update N d upd = d ++ upd.
  Proof.
    induction upd as [|[k v] upd IH]; intros d Hn Hf; cbn [dict_update fold_left].
    - symmetry. apply app_nil_r.
    - cbn [map fst] in Hn. inversion Hn as [|? ? Hk Hn']; subst.
      cbn [fst snd]. rewrite dict_set_fresh by (apply Hf; left; reflexivity).
      fold (dict_update N (d ++ [(k, v)]) upd). rewrite IH; [rewrite <- app_assoc; reflexivity|exact Hn'|].
      intros k' Hk'. rewrite map_app, in_app_iff. cbn [map fst In].
      intros [H|[H|[]]]; [eapply Hf; [right; exact Hk'|exact H]|subst; contradiction].
  Qed.

  (* ---- per-abscissa invariant ---- *)
  Definition G c p : Prop :=
    pcount p = length (samples p) /\ NoDup (seeds p) /\ 1 <= pcount p /\
    (pcount p < min_samples c -> under p = true).

  Definition fresh p l : Prop := forall k, In k (map fst l) -> ~ In k (seeds p).

  Lemma G_new c x seed y : G c (pt_new N x seed y).
  Proof.
    clear tppf. unfold G, pt_new, seeds. cbn. repeat split; auto. constructor; [cbn; tauto|constructor].
  Qed.

  Lemma resample_unknown c seed y a p b :
    nat_mem seed (seeds p) = false ->
    samples (pt_resample tppf c seed y a p b) = samples p ++ [(seed, y)] /\
    px (pt_resample tppf c seed y a p b) = px p /\
    pcount (pt_resample tppf c seed y a p b) = S (pcount p).
  Proof. intros H. unfold pt_resample. rewrite H. cbn. auto. Qed.

  Lemma resample_px c seed y a p b : px (pt_resample tppf c seed y a p b) = px p.
  Proof. unfold pt_resample. destruct (nat_mem seed (seeds p)); reflexivity. Qed.

  Lemma G_resample c seed y a p b : G c p -> G c (pt_resample tppf c seed y a p b).
  Proof.
    intros [H1 [H2 [H3 H4]]]. unfold pt_resample. destruct (nat_mem seed (seeds p)) eqn:E; [repeat split; assumption|].
    unfold G, seeds. cbn [samples pcount under]. rewrite app_length, map_app. cbn [length map fst].
    split; [lia|]. split.
    { apply NoDup_app_disj; [exact H2|repeat constructor; cbn; tauto|].
      intros k Hk [<-|[]]. apply nat_mem_In in Hk. unfold seeds in E. congruence. }
    split; [lia|]. intros Hlt.
    assert ((min_samples c <=? S (pcount p)) = false) as -> by (apply Nat.leb_gt; lia).
    rewrite andb_false_r. apply H4. lia.
  Qed.

  Lemma batch_nonempty c rest m p : rest <> [] -> fresh p rest -> NoDup (map fst rest) ->
    samples (pt_batch tppf c rest m p) = samples p ++ rest /\
    px (pt_batch tppf c rest m p) = px p /\
    pcount (pt_batch tppf c rest m p) = length rest + pcount p.
  Proof.
    intros Hne Hf Hn. unfold pt_batch. destruct rest as [|e rest']; [congruence|].
    cbn [samples px pcount]. split; [|auto]. apply dict_update_fresh; assumption.
  Qed.

  Lemma batch_px c rest m p : px (pt_batch tppf c rest m p) = px p.
  Proof. unfold pt_batch. destruct rest; reflexivity. Qed.

  Lemma G_batch c rest m p : G c p -> NoDup (map fst rest) -> fresh p rest -> G c (pt_batch tppf c rest m p).
  Proof.
    intros HG Hn Hf. destruct rest as [|e rest'] eqn:E; [exact HG|]. rewrite <- E in *.
    assert (Hne : rest <> []) by (subst; discriminate).
    destruct (batch_nonempty c rest m p Hne Hf Hn) as [Hs [_ Hc]].
    destruct HG as [H1 [H2 [H3 H4]]].
    unfold G, seeds. rewrite Hs, Hc, app_length, map_app. split; [lia|]. split.
    { apply NoDup_app_disj; [exact H2|exact Hn|]. intros k Hk Hk'. exact (Hf k Hk' Hk). }
    split; [lia|]. intros Hlt. unfold pt_batch. rewrite E. cbn [under]. rewrite <- E.
    assert ((min_samples c <? length rest + pcount p) = false) as -> by (apply Nat.ltb_ge; lia).
    apply H4. lia.
  Qed.

  (* ---- list-level helpers ---- *)
  Lemma Forall_insert (P : pt N -> Prop) p s : Forall P s -> P p -> Forall P (insert_pt p s).
  Proof.
    induction s as [|q s IH]; cbn [insert_pt]; intros Hs Hp; [repeat constructor; exact Hp|].
    inversion Hs; subst. destruct (n_ltb N (px p) (px q)); constructor; auto.
  Qed.

  Lemma Forall_update (P : pt N -> Prop) x f : forall s prev,
    Forall P s -> (forall a q b, P q -> find_pt x s = Some q -> P (f a q b)) ->
    Forall P (update_pt x f prev s).
  Proof.
    induction s as [|p s IH]; cbn [update_pt find_pt]; intros prev Hs Hf; [constructor|].
    inversion Hs; subst. destruct (n_eqb N x (px p)) eqn:E.
    - constructor; [apply Hf; [assumption|reflexivity]|assumption].
    - constructor; [assumption|]. apply IH; assumption.
  Qed.

  Lemma find_pt_In x s p : find_pt x s = Some p -> In p s.
  Proof.
    induction s as [|q s IH]; cbn [find_pt]; [discriminate|].
    destruct (n_eqb N x (px q)); [intros H; inversion H; left; reflexivity|intros H; right; auto].
  Qed.

  (* the only point with abscissa x in [insert_pt p s] is p, when s had none *)
  Lemma find_insert_only x p s q :
    find_pt x s = None -> find_pt x (insert_pt p s) = Some q -> q = p.
  Proof.
    induction s as [|r s IH]; cbn [find_pt insert_pt].
    - intros _. destruct (n_eqb N x (px p)); [intros H; inversion H; reflexivity|discriminate].
    - destruct (n_eqb N x (px r)) eqn:E; [discriminate|]. intros Hn.
      destruct (n_ltb N (px p) (px r)); cbn [find_pt].
      + destruct (n_eqb N x (px p)); [intros H; inversion H; reflexivity|]. rewrite E, Hn. discriminate.
      + rewrite E. apply IH. exact Hn.
  Qed.

  Lemma fresh_at_spec s x l p : fresh_at s x l = true -> find_pt x s = Some p -> fresh p l.
  Proof.
    unfold fresh_at. intros H Hp. rewrite Hp in H. intros k Hk Hin.
    apply in_map_iff in Hk as [[k' y] [<- Hk]].
    rewrite forallb_forall in H. specialize (H _ Hk). cbn [fst] in *.
    apply nat_mem_In in Hin. rewrite Hin in H. discriminate.
  Qed.

  Lemma batch_rest_ok c p l : NoDup (map fst l) -> (dedup c = true \/ fresh p l) ->
    NoDup (map fst (batch_rest c p l)) /\ fresh p (batch_rest c p l).
  Proof.
    intros Hn Hd. unfold batch_rest. destruct (dedup c) eqn:E.
    - split; [apply NoDup_map_filter; exact Hn|].
      intros k Hk Hin. apply in_map_iff in Hk as [[k' y] [<- Hk]]. apply filter_In in Hk as [_ Hk].
      cbn [fst] in *. apply nat_mem_In in Hin. rewrite Hin in Hk. discriminate.
    - destruct Hd as [Hd|Hd]; [discriminate|]. split; assumption.
  Qed.

  (* ---- lifting a per-abscissa property to histories ----
     [okm m rest] : what is assumed of the recorded np.mean of a batch *)
  Variable okm : num N -> list (nat * num N) -> Prop.

  Definition rest_of c s (x : num N) l : list (nat * num N) :=
    match find_pt x s with None => tl l | Some p => batch_rest c p l end.

  Definition hint_ok c s (o : op N) : Prop :=
    match o with
    | TellManyAt _ x l m => okm m (rest_of c s x l)
    | _ => True
    end.

  Fixpoint hints_flat c s (h : list (op N)) : Prop :=
    match h with
    | [] => True
    | o :: h' => hint_ok c s o /\ hints_flat c (fst (step tppf c s o)) h'
    end.

  Definition hints_op c s (o : op N) : Prop :=
    match o with
    | TellMany _ l hs => hints_flat c s (group_ops N (groups N l) hs)
    | _ => hint_ok c s o
    end.

  Fixpoint hints c s (h : list (op N)) : Prop :=
    match h with
    | [] => True
    | o :: h' => hints_op c s o /\ hints c (fst (step tppf c s o)) h'
    end.

  Section Lift.
    Variable c : cfg N.
    Variable P : pt N -> Prop.
    Hypothesis P_new : forall x seed y, P (pt_new N x seed y).
    Hypothesis P_resample : forall seed y a p b, P p -> P (pt_resample tppf c seed y a p b).
    Hypothesis P_batch : forall rest m p, P p -> NoDup (map fst rest) -> fresh p rest -> okm m rest ->
                                          P (pt_batch tppf c rest m p).

    Lemma lift_flat_op s o :
      Forall P s -> legal_flat_op c s o = true -> hint_ok c s o -> Forall P (fst (step tppf c s o)).
    Proof.
      intros HP Hl Hh. destruct o as [n hint|seed x y|x l m|l hs]; cbn [step fst].
      - exact HP.
      - unfold tell. destruct (find_pt x s) eqn:E.
        + apply Forall_update; [exact HP|]. intros a q b Hq _. apply P_resample. exact Hq.
        + apply Forall_insert; [exact HP|apply P_new].
      - cbn [legal_flat_op] in Hl. apply andb_true_iff in Hl as [Hl Hfr].
        apply andb_true_iff in Hl as [Hl Hnd0]. apply andb_true_iff in Hl as [Hb Hne0].
        unfold tell_many_at. rewrite Hb. cbn [negb]. cbn [hint_ok] in Hh. unfold rest_of in Hh.
        assert (Hnd : NoDup (map fst l)) by (apply nodupb_NoDup; assumption).
        destruct (find_pt x s) as [p|] eqn:E.
        + cbn [fst]. apply Forall_update; [exact HP|]. intros a q b Hq Hfq.
          rewrite E in Hfq. inversion Hfq; subst q.
          assert (Hd : dedup c = true \/ fresh p l).
          { apply orb_true_iff in Hfr as [Hfr|Hfr]; [left; assumption|right; eapply fresh_at_spec; eauto]. }
          destruct (batch_rest_ok c p l Hnd Hd) as [Hn' Hf']. apply P_batch; assumption.
        + destruct l as [|[seed y] rest]; [discriminate|]. cbn [fst tl] in *.
          apply Forall_update; [apply Forall_insert; [exact HP|apply P_new]|].
          intros a q b Hq Hfq. apply (find_insert_only x _ s q E) in Hfq. subst q.
          cbn [map fst] in Hnd. inversion Hnd as [|? ? Hk Hn']; subst.
          apply P_batch; [exact Hq|exact Hn'| |exact Hh].
          intros k Hk'. cbn. intros [<-|[]]. contradiction.
      - discriminate.
    Qed.

    Lemma lift_flat h : forall s,
      Forall P s -> legal_flat tppf c s h = true -> hints_flat c s h -> Forall P (run tppf c s h).
    Proof.
      induction h as [|o h IH]; intros s HP Hl Hh; [exact HP|].
      cbn [legal_flat] in Hl. apply andb_true_iff in Hl as [Hl1 Hl2]. destruct Hh as [Hh1 Hh2].
      change (run tppf c s (o :: h)) with (run tppf c (fst (step tppf c s o)) h).
      apply IH; [apply lift_flat_op; assumption|exact Hl2|exact Hh2].
    Qed.
  End Lift.

  (* tell_many = the tell / tell_many_at_point calls on its groups *)
  Lemma tell_groups_run c g : forall s hs,
    tell_groups tppf c s g hs = run tppf c s (group_ops N g hs).
  Proof.
    induction g as [|[x m] g IH]; intros s hs; [reflexivity|].
    destruct m as [|[seed y] [|e m']]; cbn [tell_groups group_ops].
    - destruct hs as [|h hs']; [reflexivity|]. rewrite IH. reflexivity.
    - rewrite IH. reflexivity.
    - destruct hs as [|h hs']; [reflexivity|]. rewrite IH. reflexivity.
  Qed.

  Lemma tell_many_expands c s (trip : list (nat * num N * num N)) hs :
    step tppf c s (TellMany N trip hs) =
    if forallb (fun e => in_bounds c (snd (fst e))) trip
    then (run tppf c s (group_ops N (groups N trip) hs), Done)
    else (s, Err).
  Proof.
    cbn [step]. unfold tell_many. destruct (forallb _ trip); [|reflexivity].
    rewrite tell_groups_run. reflexivity.
  Qed.

  Section Lift2.
    Variable c : cfg N.
    Variable P : pt N -> Prop.
    Hypothesis P_new : forall x seed y, P (pt_new N x seed y).
    Hypothesis P_resample : forall seed y a p b, P p -> P (pt_resample tppf c seed y a p b).
    Hypothesis P_batch : forall rest m p, P p -> NoDup (map fst rest) -> fresh p rest -> okm m rest ->
                                          P (pt_batch tppf c rest m p).

    Lemma lift_op s o :
      Forall P s -> legal_op tppf c s o = true -> hints_op c s o -> Forall P (fst (step tppf c s o)).
    Proof.
      intros HP Hl Hh. destruct o as [n hint|seed x y|x l m|l hs].
      1-3: apply (lift_flat_op c P P_new P_resample P_batch); auto.
      rewrite tell_many_expands. cbn [legal_op] in Hl. apply andb_true_iff in Hl as [Hb Hl].
      rewrite Hb. cbn [fst]. apply (lift_flat c P P_new P_resample P_batch); auto.
    Qed.

    Lemma lift h : forall s,
      Forall P s -> legal tppf c s h = true -> hints c s h -> Forall P (run tppf c s h).
    Proof.
      induction h as [|o h IH]; intros s HP Hl Hh; [exact HP|].
      cbn [legal] in Hl. apply andb_true_iff in Hl as [Hl1 Hl2]. destruct Hh as [Hh1 Hh2].
      change (run tppf c s (o :: h)) with (run tppf c (fst (step tppf c s o)) h).
      apply IH; [apply lift_op; assumption|exact Hl2|exact Hh2].
    Qed.
  End Lift2.

  (* ---- ask goes to an undersampled abscissa ---- *)
  Lemma ask_undersampled c s n hint :
    Forall (G c) s -> (exists p, In p s /\ pcount p < min_samples c) ->
    match ask s n hint with
    | Asked pts => exists q, In q s /\ under q = true /\ pts = more_samples q n
    | Err => True
    | Done => False
    end.
  Proof.
    intros HG [p [Hp Hlt]].
    assert (Hu : existsb (@under N) s = true).
    { apply existsb_exists. exists p. split; [exact Hp|]. rewrite Forall_forall in HG. apply (HG p Hp). exact Hlt. }
    unfold ask. destruct n as [|n]; [exact I|]. destruct hint as [|[k x] hint]; [exact I|].
    rewrite Hu. destruct (find_pt x s) as [q|] eqn:E; [|exact I].
    destruct (under q) eqn:Eu; [|exact I]. exists q. split; [eapply find_pt_In; eauto|auto].
  Qed.
End Generic1D.
Arguments G {N}. Arguments fresh {N}. Arguments rest_of {N}. Arguments hint_ok {N}.
Arguments hints_flat {N}. Arguments hints_op {N}. Arguments hints {N}.

(* the structural invariant along every legal history, any number structure *)
Lemma hints_trivial N tppf c h : forall s, @hints N tppf (fun _ _ => True) c s h.
Proof.
  assert (Hf : forall h s, @hints_flat N tppf (fun _ _ => True) c s h).
  { induction h0 as [|o h0 IH]; intros s; cbn [hints_flat]; [exact I|]. split; [destruct o; exact I|apply IH]. }
  induction h as [|o h IH]; intros s; cbn [hints]; [exact I|]. split; [|apply IH].
  destruct o; cbn [hints_op hint_ok]; auto.
Qed.

Lemma G_reach N tppf (c : cfg N) h :
  legal tppf c (init N) h = true -> Forall (G c) (reach tppf c h).
Proof.
  intros Hl. unfold reach.
  apply (@lift N tppf (fun _ _ => True) c (G c)); auto using G_new, G_resample, hints_trivial.
  - intros rest m p HG Hn Hf _. apply G_batch; assumption.
  - constructor.
Qed.

(* ------------------------------------------------------------------ *)
From Coq Require Import Reals Lra.
From AV Require Import Proofs.AvgProofs.

Lemma batch_mean_alg (A B k n : R) : (k <> 0 -> n <> 0 -> k + n <> 0 ->
  (A / k * k + B / n * n) / (k + n) = (B + A) / (n + k))%R.
Proof. intros. field. repeat split; try assumption. lra. Qed.

Lemma resample_mean_alg (S y n : R) : (n <> 0 -> n + 1 <> 0 ->
  S / n * n / (n + 1) + y / (n + 1) = (S + (y + 0)) / (n + 1))%R.
Proof. intros. field. split; assumption. Qed.

Section Real1D.
  Variable infR : R.
  Variable tppf : nat -> R.
  Notation RN := (ROps infR).
  Implicit Types (c : cfg RN) (s : st RN) (p q : pt RN) (l rest : list (nat * AvgNum.num RN)).

  (* Student-t half-width of the samples: t(n-1) * sqrt(corrected variance / n) *)
  Definition errspec (v : list R) : R :=
    (tppf (length v - 1) * sqrt (varR v / INR (length v)))%R.

  Definition RG p : Prop :=
    pmean p = meanR (ys p) /\
    perr p = (if pcount p =? 1 then infR else errspec (ys p)).

  Definition GR c p : Prop := G c p /\ RG p.
  Definition okmR (m : R) (rest : list (nat * AvgNum.num RN)) : Prop := rest <> [] -> m = meanR (map snd rest).

  Lemma calc_error_R (v : list R) avg n :
    avg = meanR v -> n = length v -> calc_error RN tppf v avg n = errspec v.
  Proof.
    intros -> ->. unfold calc_error, errspec, varR, sqdevR. rewrite suml_R. reflexivity.
  Qed.

  Lemma ys_length p : @length R (ys p) = length (samples p).
  Proof. unfold ys. apply map_length. Qed.

  Lemma ys_length' p : @length (AvgNum.num RN) (ys p) = length (samples p).
  Proof. unfold ys. apply map_length. Qed.

  Lemma RG_new (x : R) seed (y : R) : RG (pt_new RN x seed y).
  Proof.
    unfold RG, pt_new, ys, meanR. split; [|reflexivity]. change (@eq R y ((y + 0) / INR 1)%R). cbn [INR]. field.
  Qed.

  Lemma INR_pos n : 1 <= n -> INR n <> 0%R.
  Proof. intros H. apply not_0_INR. lia. Qed.

  Lemma RG_resample c seed (y : R) a p b : G c p -> RG p -> RG (@pt_resample RN tppf c seed y a p b).
  Proof.
    intros [H1 [H2 [H3 H4]]] [M E]. unfold pt_resample. destruct (nat_mem seed (seeds p)); [split; assumption|].
    assert (Hm : (pmean p * INR (length (samples p)) / INR (length (samples p) + 1) + y / INR (length (samples p) + 1))%R
                 = meanR (ys p ++ [y])).
    { rewrite M. unfold meanR. rewrite sumR_app, app_length, ?ys_length, ?ys_length'. cbn [sumR length].
      rewrite <- H1. rewrite plus_INR. cbn [INR].
      assert (INR (pcount p) <> 0%R) by (apply INR_pos; exact H3).
      assert ((INR (pcount p) + 1)%R <> 0%R) by (pose proof (pos_INR (pcount p)); lra).
      apply resample_mean_alg; assumption. }
    unfold RG, ys. cbn [samples pmean pcount perr]. rewrite map_app. cbn [map snd].
    cbn [n_add n_div n_mul n_of_nat ROps]. fold (ys p). split; [exact Hm|].
    destruct (pcount p) as [|k] eqn:Ek; [lia|]. cbn [Nat.eqb].
    apply calc_error_R; [exact Hm|]. rewrite app_length, ?ys_length, ?ys_length'. cbn [length]. lia.
  Qed.

  Lemma RG_batch c rest (m : R) p :
    G c p -> RG p -> NoDup (map fst rest) -> fresh p rest -> okmR m rest -> RG (@pt_batch RN tppf c rest m p).
  Proof.
    intros HG [M E] Hn Hf Hm. destruct rest as [|e rest'] eqn:Er; [split; assumption|]. rewrite <- Er in *.
    assert (Hne : rest <> []) by (subst; discriminate).
    destruct (@batch_nonempty RN tppf c rest m p Hne Hf Hn) as [Hs [_ Hc]].
    destruct HG as [H1 [H2 [H3 H4]]].
    assert (Hk : 1 <= length rest) by (subst rest; cbn; lia).
    assert (Hys : ys (@pt_batch RN tppf c rest m p) = ys p ++ map snd rest) by (unfold ys; rewrite Hs, map_app; reflexivity).
    assert (Hmean : pmean (@pt_batch RN tppf c rest m p) = meanR (ys p ++ map snd rest)).
    { unfold pt_batch. rewrite Er. cbn [pmean]. rewrite <- Er.
      cbn [n_add n_div n_mul n_of_nat ROps]. rewrite (Hm Hne), M. unfold meanR.
      rewrite sumR_app, app_length, !map_length, ?ys_length, ?ys_length', <- H1, !plus_INR.
      assert (INR (pcount p) <> 0%R) by (apply INR_pos; exact H3).
      assert (INR (length rest) <> 0%R) by (apply INR_pos; exact Hk).
      assert ((INR (length rest) + INR (pcount p))%R <> 0%R)
        by (pose proof (pos_INR (pcount p)); pose proof (pos_INR (length rest)); lra).
      apply batch_mean_alg; assumption. }
    split; [rewrite Hys; exact Hmean|].
    destruct (pcount (@pt_batch RN tppf c rest m p) =? 1) eqn:E1; [apply Nat.eqb_eq in E1; rewrite Hc in E1; lia|].
    rewrite Hys. unfold pt_batch. rewrite Er. cbn [perr]. rewrite <- Er.
    replace (map snd (dict_update RN (samples p) rest)) with (ys p ++ map snd rest).
    2:{ unfold pt_batch in Hs. rewrite Er in Hs. cbn [samples] in Hs. rewrite <- Er in Hs.
        rewrite Hs, map_app. reflexivity. }
    apply calc_error_R.
    - unfold pt_batch in Hmean. rewrite Er in Hmean. cbn [pmean] in Hmean. rewrite <- Er in Hmean. exact Hmean.
    - rewrite app_length, map_length, ?ys_length, ?ys_length'. lia.
  Qed.

  Lemma GR_reach c h :
    @legal RN tppf c (init RN) h = true -> @hints RN tppf okmR c (init RN) h -> Forall (GR c) (@reach RN tppf c h).
  Proof.
    intros Hl Hh. unfold reach. apply (@lift RN tppf okmR c (GR c)); auto.
    - intros x seed y. split; [apply G_new|apply RG_new].
    - intros seed y a p b [HG HR]. split; [apply G_resample; exact HG|apply RG_resample; assumption].
    - intros rest m p [HG HR] Hn Hf Hm. split; [apply G_batch; assumption|apply RG_batch; assumption].
    - constructor.
  Qed.

  (* ---- batched = one by one ---- *)
  Lemma Reqb_refl x : Reqb x x = true.
  Proof. unfold Reqb. destruct (Req_EM_T x x); [reflexivity|congruence]. Qed.

  Lemma find_insert_new x seed y s :
    find_pt x s = None -> find_pt x (insert_pt (pt_new RN x seed y) s) = Some (pt_new RN x seed y).
  Proof.
    induction s as [|r s IH]; cbn [find_pt insert_pt].
    - intros _. cbn [px pt_new n_eqb ROps]. rewrite Reqb_refl. reflexivity.
    - destruct (n_eqb RN x (px r)) eqn:E; [discriminate|]. intros Hn.
      destruct (n_ltb RN (px (pt_new RN x seed y)) (px r)); cbn [find_pt].
      + cbn [px pt_new n_eqb ROps]. rewrite Reqb_refl. reflexivity.
      + rewrite E. apply IH. exact Hn.
  Qed.

  Lemma update_update x (f1 f2 : option (pt RN) -> pt RN -> option (pt RN) -> pt RN) :
    (forall a q b, px (f1 a q b) = px q) -> forall s prev,
    update_pt x f2 prev (update_pt x f1 prev s) = update_pt x (fun a q b => f2 a (f1 a q b) b) prev s.
  Proof.
    intros Hpx. induction s as [|p s IH]; intros prev; cbn [update_pt]; [reflexivity|].
    destruct (n_eqb RN x (px p)) eqn:E; cbn [update_pt].
    - rewrite Hpx, E. reflexivity.
    - rewrite E, IH. reflexivity.
  Qed.

  Lemma update_id x : forall s prev, update_pt x (fun _ (q : pt RN) _ => q) prev s = s.
  Proof.
    induction s as [|p s IH]; intros prev; cbn [update_pt]; [reflexivity|].
    destruct (n_eqb RN x (px p)); [reflexivity|]. rewrite IH. reflexivity.
  Qed.

  Lemma find_update x f : (forall a q b, px (f a q b) = px q) -> forall s prev q,
    find_pt x s = Some q -> exists q', find_pt x (update_pt x f prev s) = Some q'.
  Proof.
    intros Hpx. induction s as [|p s IH]; intros prev q; cbn [find_pt update_pt]; [discriminate|].
    destruct (n_eqb RN x (px p)) eqn:E; cbn [find_pt].
    - intros _. rewrite Hpx, E. eauto.
    - rewrite E. apply IH.
  Qed.

  Definition resample_all c l (a : option (pt RN)) (q : pt RN) (b : option (pt RN)) : pt RN :=
    fold_left (fun q sy => @pt_resample RN tppf c (fst sy) (snd sy) a q b) l q.

  Lemma resample_all_px c l a b : forall q, px (resample_all c l a q b) = px q.
  Proof.
    induction l as [|e l IH]; intros q; [reflexivity|].
    unfold resample_all in *. cbn [fold_left]. rewrite IH. apply (@resample_px RN tppf).
  Qed.

  Lemma fold_tell_update c x l : forall s q0, find_pt x s = Some q0 ->
    fold_left (fun s sy => @tell RN tppf c s (fst sy) x (snd sy)) l s = update_pt x (resample_all c l) None s.
  Proof.
    induction l as [|e l IH]; intros s q0 Hf.
    - cbn [fold_left]. symmetry. apply (update_id x s None).
    - cbn [fold_left]. unfold tell at 2. rewrite Hf.
      destruct (find_update x (@pt_resample RN tppf c (fst e) (snd e)) (@resample_px RN tppf c (fst e) (snd e)) s None q0 Hf) as [q' Hq'].
      rewrite (IH _ _ Hq'). rewrite update_update by (apply (@resample_px RN tppf)). reflexivity.
  Qed.

  Lemma update_ext_core x f g : forall s prev,
    (forall a q b, find_pt x s = Some q -> core (f a q b) = core (g a q b)) ->
    map (@core RN) (update_pt x f prev s) = map (@core RN) (update_pt x g prev s).
  Proof.
    induction s as [|p s IH]; intros prev H; cbn [update_pt find_pt] in *; [reflexivity|].
    destruct (n_eqb RN x (px p)) eqn:E; cbn [map].
    - rewrite H by reflexivity. reflexivity.
    - f_equal. apply IH. exact H.
  Qed.

  (* one-by-one telling of fresh seeds: samples appended, invariants kept *)
  Lemma resample_all_fresh c a b rest : forall q,
    GR c q -> NoDup (map fst rest) -> fresh q rest ->
    GR c (resample_all c rest a q b) /\ samples (resample_all c rest a q b) = samples q ++ rest.
  Proof.
    induction rest as [|[k y] rest IH]; intros q HGR Hn Hf.
    - cbn. rewrite app_nil_r. auto.
    - cbn [map fst] in Hn. inversion Hn as [|? ? Hk Hn']; subst.
      assert (Hu : nat_mem k (seeds q) = false).
      { destruct (nat_mem k (seeds q)) eqn:E; [|reflexivity]. apply nat_mem_In in E.
        exfalso. apply (Hf k); [left; reflexivity|exact E]. }
      destruct (@resample_unknown RN tppf c k y a q b Hu) as [Hs [_ _]].
      unfold resample_all. cbn [fold_left fst snd]. fold (resample_all c rest a (@pt_resample RN tppf c k y a q b) b).
      destruct HGR as [HG HR].
      destruct (IH (@pt_resample RN tppf c k y a q b)) as [H1 H2].
      + split; [apply G_resample; exact HG|apply RG_resample; assumption].
      + exact Hn'.
      + intros k' Hk'. unfold seeds. rewrite Hs, map_app, in_app_iff. cbn [map fst In].
        intros [H|[H|[]]]; [apply (Hf k'); [right; exact Hk'|exact H]|subst; contradiction].
      + split; [exact H1|]. rewrite H2, Hs, <- app_assoc. reflexivity.
  Qed.

  (* mean, count and error are functions of the samples *)
  Lemma GR_core_det c p1 p2 :
    GR c p1 -> GR c p2 -> px p1 = px p2 -> samples p1 = samples p2 -> core p1 = core p2.
  Proof.
    intros [[C1 _] [M1 E1]] [[C2 _] [M2 E2]] Hx Hs. unfold core.
    assert (Hy : ys p1 = ys p2) by (unfold ys; rewrite Hs; reflexivity).
    assert (Hc : pcount p1 = pcount p2) by (rewrite C1, C2, Hs; reflexivity).
    rewrite Hx, Hs, M1, M2, E1, E2, Hy, Hc. reflexivity.
  Qed.

  Lemma batch_vs_single_pt c rest m a b q :
    GR c q -> NoDup (map fst rest) -> fresh q rest -> okmR m rest ->
    core (@pt_batch RN tppf c rest m q) = core (resample_all c rest a q b).
  Proof.
    intros HGR Hn Hf Hm. destruct rest as [|e rest'] eqn:Er; [reflexivity|]. rewrite <- Er in *.
    assert (Hne : rest <> []) by (subst; discriminate).
    destruct (resample_all_fresh c a b rest q HGR Hn Hf) as [H1 H2].
    destruct (@batch_nonempty RN tppf c rest m q Hne Hf Hn) as [Hs [Hx _]].
    destruct HGR as [HG HR].
    apply (GR_core_det c).
    - split; [apply G_batch; assumption|apply RG_batch; assumption].
    - exact H1.
    - rewrite Hx, resample_all_px. reflexivity.
    - rewrite Hs, H2. reflexivity.
  Qed.

  (* seeds already known at x are skipped by tell *)
  Definition unknown_in q (sy : nat * R) : bool := negb (nat_mem (fst sy) (seeds q)).

  Lemma resample_all_skip c a b l : forall q, NoDup (map fst l) ->
    resample_all c l a q b = resample_all c (filter (unknown_in q) l) a q b.
  Proof.
    induction l as [|[k y] l IH]; intros q Hn; [reflexivity|].
    cbn [map fst] in Hn. inversion Hn as [|? ? Hk Hn']; subst.
    cbn [filter]. unfold unknown_in at 1. cbn [fst].
    destruct (nat_mem k (seeds q)) eqn:E; cbn [negb].
    - unfold resample_all at 1. cbn [fold_left fst snd]. unfold pt_resample at 2. rewrite E.
      apply IH. exact Hn'.
    - unfold resample_all. cbn [fold_left fst snd].
      fold (resample_all c l a (@pt_resample RN tppf c k y a q b) b).
      fold (resample_all c (filter (unknown_in q) l) a (@pt_resample RN tppf c k y a q b) b).
      rewrite (IH _ Hn'). f_equal.
      apply filter_ext_in. intros [k' y'] Hin. unfold unknown_in. cbn [fst]. f_equal.
      destruct (@resample_unknown RN tppf c k y a q b E) as [Hs _]. unfold seeds. rewrite Hs, map_app. cbn [map fst].
      unfold nat_mem. rewrite existsb_app. cbn [existsb]. rewrite orb_false_r.
      destruct (Nat.eqb_spec k' k) as [->|_]; [|apply orb_false_r].
      exfalso. apply Hk. apply in_map_iff. exists (k, y'). split; [reflexivity|exact Hin].
  Qed.

  Lemma batch_rest_filter c q l : (dedup c = true \/ fresh q l) -> batch_rest c q l = filter (unknown_in q) l.
  Proof.
    intros [Hd|Hf]; unfold batch_rest.
    - rewrite Hd. reflexivity.
    - destruct (dedup c); [reflexivity|]. symmetry. apply filter_all.
      intros [k y] Hin. unfold unknown_in. cbn [fst].
      destruct (nat_mem k (seeds q)) eqn:E; [|reflexivity]. apply nat_mem_In in E.
      exfalso. apply (Hf k); [apply in_map_iff; exists (k, y); auto|exact E].
  Qed.

  Lemma batch_equals_incremental c s x l m :
    Forall (GR c) s -> legal_flat_op c s (TellManyAt RN x l m) = true ->
    @hint_ok RN okmR c s (TellManyAt RN x l m) ->
    map (@core RN) (fst (@tell_many_at RN tppf c s x l m)) =
    map (@core RN) (fold_left (fun s sy => @tell RN tppf c s (fst sy) x (snd sy)) l s).
  Proof.
    intros HP Hl Hh. cbn [legal_flat_op] in Hl. apply andb_true_iff in Hl as [Hl Hfr].
    apply andb_true_iff in Hl as [Hl Hnd0]. apply andb_true_iff in Hl as [Hb Hne0].
    unfold tell_many_at. rewrite Hb. cbn [negb]. cbn [hint_ok] in Hh. unfold rest_of in Hh.
    assert (Hnd : NoDup (map fst l)) by (apply nodupb_NoDup; assumption).
    destruct (find_pt x s) as [p|] eqn:E.
    - cbn [fst]. rewrite (fold_tell_update c x l s p E).
      apply update_ext_core. intros a q b Hfq. rewrite E in Hfq. inversion Hfq; subst q.
      assert (Hd : dedup c = true \/ fresh p l).
      { apply orb_true_iff in Hfr as [Hfr|Hfr]; [left; assumption|right; eapply fresh_at_spec; eauto]. }
      destruct (batch_rest_ok _ c p l Hnd Hd) as [Hn' Hf'].
      rewrite (resample_all_skip c a b l p Hnd), <- (batch_rest_filter c p l Hd).
      apply batch_vs_single_pt; try assumption.
      rewrite Forall_forall in HP. apply HP. eapply find_pt_In; eauto.
    - destruct l as [|[seed y] rest]; [discriminate|]. cbn [fst tl snd fold_left] in *.
      unfold tell at 2. rewrite E.
      pose proof (find_insert_new x seed y s E) as Hfi.
      rewrite (fold_tell_update c x rest _ _ Hfi).
      apply update_ext_core. intros a q b Hfq. rewrite Hfi in Hfq. inversion Hfq; subst q.
      cbn [map fst] in Hnd. inversion Hnd as [|? ? Hk Hn']; subst.
      apply batch_vs_single_pt; try assumption.
      + split; [apply G_new|apply RG_new].
      + intros k Hk'. cbn. intros [<-|[]]. contradiction.
  Qed.
End Real1D.
