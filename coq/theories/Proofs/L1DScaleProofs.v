(* Scale equivariance of the Learner1D model (property C12).

   Two scaling actions on the abstract number type: [sx_] (sigma, on abscissae)
   and [sy_] (tau, on function values).  Under the explicitly listed laws
   ([ScaleLaws], [OrdLaws]) and for a loss function that ignores a common
   rescaling of values it receives un-normalised (which only happens while
   all values seen so far are equal: [_scale[1] or 1]), running the scaled
   history on the scaled learner gives the scaled state, sigma-scaled points
   from every [ask] with identical loss improvements, and identical [loss].

   One lemma per model function, by structural induction on the lists. *)
From AV Require Import Base.Prelude Model.L1D.

Set Implicit Arguments.

Section Scale.
  Variable num : Type.
  Variables (add sub mul div : num -> num -> num).
  Variables (ltb eqb : num -> num -> bool).
  Variables (zero one inf neg_inf : num).
  Variable is_nan : num -> bool.
  Variable is_inf : num -> bool.
  Variable round12 : num -> num.
  Variable of_nat : nat -> num.
  Variable L : list (option num) -> list (option (Y num)) -> num.
  Variables (sx_ sy_ : num -> num).
  Variable P : params num.

  (* ---------------- the laws ---------------- *)
  Record ScaleLaws : Prop := {
    (* sigma: abscissae *)
    sx_ltb : forall a b, ltb (sx_ a) (sx_ b) = ltb a b;
    sx_eqb : forall a b, eqb (sx_ a) (sx_ b) = eqb a b;
    sx_sub : forall a b, sub (sx_ a) (sx_ b) = sx_ (sub a b);
    sx_add : forall a b, add (sx_ a) (sx_ b) = sx_ (add a b);
    sx_mul_r : forall a r, mul (sx_ a) r = sx_ (mul a r);      (* r scale-free *)
    sx_mul_l : forall r a, mul r (sx_ a) = sx_ (mul r a);
    sx_div_r : forall a r, div (sx_ a) r = sx_ (div a r);
    sx_div : forall a b, div (sx_ a) (sx_ b) = div a b;
    sx_zero : sx_ zero = zero;
    (* tau: values *)
    sy_ltb : forall a b, ltb (sy_ a) (sy_ b) = ltb a b;
    sy_eqb : forall a b, eqb (sy_ a) (sy_ b) = eqb a b;
    sy_sub : forall a b, sub (sy_ a) (sy_ b) = sy_ (sub a b);
    sy_mul_l : forall r a, mul r (sy_ a) = sy_ (mul r a);
    sy_div : forall a b, div (sy_ a) (sy_ b) = div a b;
    sy_zero : sy_ zero = zero;
    sy_inf : sy_ inf = inf;
    sy_neg_inf : sy_ neg_inf = neg_inf;
    sy_is_nan : forall a, is_nan (sy_ a) = is_nan a
  }.

  (* what is needed of the order itself (for the "all values equal" invariant) *)
  Record OrdLaws : Prop := {
    ltb_irrefl : forall a, ltb a a = false;
    ltb_trans : forall a b c, ltb a b = true -> ltb b c = true -> ltb a c = true;
    eqb_eq : forall a b, eqb a b = true -> a = b;
    eqb_refl : forall a, eqb a a = true
  }.

  Hypothesis SL : ScaleLaws.
  Hypothesis OL : OrdLaws.

  Notation Y := (Y num).
  Notation ival := (ival num).
  Notation st := (st num).
  Notation params := (params num).
  Notation qual := (qual num).

  (* ---------------- scaling maps ---------------- *)
  Definition ymap (f : num -> num) (y : Y) : Y :=
    match y with YS v => YS (f v) | YV vs => YV (map f vs) end.
  Definition sc_iv (i : ival) : ival := (sx_ (fst i), sx_ (snd i)).
  Definition sc_e (e : ival * num) : ival * num := (sc_iv (fst e), snd e).
  Definition sc_d (e : num * Y) : num * Y := (sx_ (fst e), ymap sy_ (snd e)).
  Definition sc_q (q : qual) : qual := (sc_iv (fst (fst q)), snd (fst q), snd q).
  Definition sc_st (s : st) : st :=
    mk (map sc_d (data s)) (map sx_ (pend s)) (map sx_ (nb s)) (map sx_ (nbc s))
       (map sc_e (los s)) (map sc_e (losc s))
       (sx_ (fst (bbx s)), sx_ (snd (bbx s)))
       (ymap sy_ (fst (bby s)), ymap sy_ (snd (bby s)))
       (sx_ (sx s)) (sy_ (sy s)) (sy_ (osy s)) (sx_ (mgrx s)).
  Definition sc_P : params :=
    mkparams (sx_ (lo P)) (sx_ (hi P)) (sx_ (dx_eps P)) (nn P) (factor P).
  Definition sc_op (o : op num) : op num :=
    match o with
    | Tell x y => Tell (sx_ x) (ymap sy_ y)
    | TellPending x => TellPending (sx_ x)
    | TellMany xys f => TellMany (map sc_d xys) f
    | RemoveUnfinished => RemoveUnfinished
    | Ask n c => Ask n c
    end.
  Definition sc_out (r : list num * list num) : list num * list num := (map sx_ (fst r), snd r).

  (* ---------------- local names for the model functions ---------------- *)
  Notation mem := (mem eqb).
  Notation insert := (insert ltb eqb).
  Notation remove := (remove eqb).
  Notation find_left := (find_left ltb).
  Notation find_right := (find_right ltb).
  Notation find_neighbors := (find_neighbors ltb).
  Notation index_of := (index_of eqb).
  Notation get_intervals := (get_intervals eqb).
  Notation dget := (dget eqb).
  Notation dset := (dset ltb eqb).
  Notation ival_eqb := (ival_eqb eqb).
  Notation ival_ltb := (ival_ltb ltb eqb).
  Notation lget := (lget eqb).
  Notation lset := (lset ltb eqb).
  Notation lpop := (lpop eqb).
  Notation lpop_opt := (lpop_opt eqb).
  Notation pmin := (pmin ltb).
  Notation pmax := (pmax ltb).
  Notation nanmin := (nanmin ltb is_nan).
  Notation nanmax := (nanmax ltb is_nan).
  Notation npmax := (npmax ltb is_nan).
  Notation arr_max := (arr_max ltb zero is_nan).
  Notation update_scale := (update_scale sub ltb zero inf neg_inf is_nan).
  Notation yscale := (yscale eqb zero one).
  Notation scale_y := (scale_y div eqb zero one).
  Notation get_loss := (get_loss sub div ltb eqb zero one L).
  Notation walk := (walk sub mul div ltb eqb).
  Notation leb := (leb ltb eqb).
  Notation update_interp := (update_interp sub mul div ltb eqb zero one L).
  Notation set_opt := (set_opt ltb eqb).
  Notation update_losses := (update_losses sub mul div ltb eqb zero one inf L).
  Notation finite_loss2 := (finite_loss2 sub div is_nan is_inf round12).
  Notation finite_loss3 := (finite_loss3 sub div is_nan is_inf round12 of_nat).
  Notation key2_ltb := (key2_ltb sub div ltb eqb is_nan is_inf round12).
  Notation sweep := (sweep sub mul div ltb eqb zero one is_nan is_inf round12 L).
  Notation in_bounds := (in_bounds ltb eqb).
  Notation tell := (tell sub mul div ltb eqb zero one inf neg_inf is_nan is_inf round12 L).
  Notation tell_pending := (tell_pending sub mul div ltb eqb zero one inf L).
  Notation merge_sorted := (merge_sorted ltb eqb).
  Notation missing_bounds := (missing_bounds eqb).
  Notation np_linspace := (np_linspace add sub mul div eqb zero of_nat).
  Notation linspace := (linspace add sub mul div of_nat).
  Notation qual_ltb := (qual_ltb sub div ltb eqb is_nan is_inf round12 of_nat).
  Notation ival_ge_qual := (ival_ge_qual sub div ltb eqb is_nan is_inf round12 of_nat).
  Notation ask_loop := (ask_loop sub mul div ltb eqb is_nan is_inf round12 of_nat).
  Notation ask_points := (ask_points add sub mul div ltb eqb zero inf is_nan is_inf round12 of_nat).
  Notation ask := (ask add sub mul div ltb eqb zero one inf is_nan is_inf round12 of_nat L).
  Notation loss := (loss sub div ltb eqb inf is_nan is_inf round12).
  Notation tell_many_batch := (tell_many_batch sub mul div ltb eqb zero one inf is_nan L).
  Notation tell_many := (tell_many sub mul div ltb eqb zero one inf neg_inf is_nan is_inf round12 L).
  Notation step := (step add sub mul div ltb eqb zero one inf neg_inf is_nan is_inf round12 of_nat L).
  Notation run := (run add sub mul div ltb eqb zero one inf neg_inf is_nan is_inf round12 of_nat L).
  Notation init := (init sub zero inf neg_inf).

  Implicit Types (x a b : num) (l : list num) (s : st) (y : Y).

  Lemma sx_eqb_zero a : eqb (sx_ a) zero = eqb a zero.
  Proof. rewrite <- (sx_zero SL) at 1. apply (sx_eqb SL). Qed.
  Lemma sy_eqb_zero a : eqb (sy_ a) zero = eqb a zero.
  Proof. rewrite <- (sy_zero SL) at 1. apply (sy_eqb SL). Qed.

  (* ---------------- sorted lists ---------------- *)
  Lemma mem_sc x l : mem (sx_ x) (map sx_ l) = mem x l.
  Proof. induction l as [|y l IH]; cbn [L1D.mem map]; [reflexivity|]. now rewrite (sx_eqb SL), IH. Qed.

  Lemma insert_sc x l : insert (sx_ x) (map sx_ l) = map sx_ (insert x l).
  Proof.
    induction l as [|y l IH]; cbn [L1D.insert map]; [reflexivity|].
    rewrite (sx_ltb SL), (sx_eqb SL). destruct (ltb x y); [reflexivity|].
    destruct (eqb x y); [reflexivity|]. cbn [map]. now rewrite IH.
  Qed.

  Lemma remove_sc x l : remove (sx_ x) (map sx_ l) = map sx_ (remove x l).
  Proof.
    induction l as [|y l IH]; cbn [L1D.remove map]; [reflexivity|].
    rewrite (sx_eqb SL). destruct (eqb x y); [reflexivity|]. cbn [map]. now rewrite IH.
  Qed.

  Lemma find_left_sc x l acc :
    find_left (sx_ x) (map sx_ l) (option_map sx_ acc) = option_map sx_ (find_left x l acc).
  Proof.
    revert acc; induction l as [|y l IH]; intros acc; cbn [L1D.find_left map]; [reflexivity|].
    rewrite (sx_ltb SL). destruct (ltb y x); [|reflexivity]. apply (IH (Some y)).
  Qed.

  Lemma find_right_sc x l : find_right (sx_ x) (map sx_ l) = option_map sx_ (find_right x l).
  Proof.
    induction l as [|y l IH]; cbn [L1D.find_right map]; [reflexivity|].
    rewrite (sx_ltb SL). destruct (ltb x y); [reflexivity|]. apply IH.
  Qed.

  Lemma find_neighbors_sc x l :
    find_neighbors (sx_ x) (map sx_ l) =
    (option_map sx_ (fst (find_neighbors x l)), option_map sx_ (snd (find_neighbors x l))).
  Proof.
    unfold L1D.find_neighbors. cbn [fst snd]. pose proof (find_left_sc x l None) as H.
    cbn [option_map] in H. now rewrite H, find_right_sc.
  Qed.

  Lemma index_of_sc x l : index_of (sx_ x) (map sx_ l) = index_of x l.
  Proof.
    induction l as [|y l IH]; cbn [L1D.index_of map]; [reflexivity|].
    rewrite (sx_eqb SL). destruct (eqb x y); [reflexivity|]. now rewrite IH.
  Qed.

  Lemma pairs_cons2 (A : Type) (a b : A) (l : list A) : pairs (a :: b :: l) = (a, b) :: pairs (b :: l).
  Proof. reflexivity. Qed.

  Lemma pairs_sc l : pairs (map sx_ l) = map sc_iv (pairs l).
  Proof.
    induction l as [|a l IH]; [reflexivity|]. destruct l as [|b l]; [reflexivity|].
    cbn [map] in *. rewrite !pairs_cons2. cbn [map]. rewrite IH. reflexivity.
  Qed.

  Lemma get_intervals_sc x l :
    get_intervals sc_P (sx_ x) (map sx_ l) = map sc_iv (get_intervals P x l).
  Proof.
    unfold L1D.get_intervals. rewrite index_of_sc, map_length. cbn [nn sc_P].
    rewrite skipn_map, firstn_map, pairs_sc. reflexivity.
  Qed.
  (* ---------------- dictionaries ---------------- *)
  Lemma dget_sc x (d : list (num * Y)) :
    dget (sx_ x) (map sc_d d) = option_map (ymap sy_) (dget x d).
  Proof.
    induction d as [|[k v] d IH]; cbn [L1D.dget map sc_d fst snd]; [reflexivity|].
    rewrite (sx_eqb SL). destruct (eqb x k); [reflexivity|apply IH].
  Qed.

  Lemma dset_sc x y (d : list (num * Y)) :
    dset (sx_ x) (ymap sy_ y) (map sc_d d) = map sc_d (dset x y d).
  Proof.
    induction d as [|[k v] d IH]; cbn [L1D.dset map sc_d fst snd]; [reflexivity|].
    rewrite (sx_ltb SL), (sx_eqb SL). destruct (ltb x k); [reflexivity|].
    destruct (eqb x k); [reflexivity|]. cbn [map sc_d fst snd]. now rewrite IH.
  Qed.

  Lemma ival_eqb_sc (i j : ival) : ival_eqb (sc_iv i) (sc_iv j) = ival_eqb i j.
  Proof. unfold L1D.ival_eqb, sc_iv. cbn [fst snd]. now rewrite !(sx_eqb SL). Qed.
  Lemma ival_ltb_sc (i j : ival) : ival_ltb (sc_iv i) (sc_iv j) = ival_ltb i j.
  Proof. unfold L1D.ival_ltb, sc_iv. cbn [fst snd]. now rewrite !(sx_eqb SL), !(sx_ltb SL). Qed.

  Lemma lget_sc (i : ival) (m : list (ival * num)) : lget (sc_iv i) (map sc_e m) = lget i m.
  Proof.
    induction m as [|[k v] m IH]; cbn [L1D.lget map sc_e fst snd]; [reflexivity|].
    rewrite ival_eqb_sc. destruct (ival_eqb i k); [reflexivity|apply IH].
  Qed.

  Lemma lset_sc (i : ival) v (m : list (ival * num)) :
    lset (sc_iv i) v (map sc_e m) = map sc_e (lset i v m).
  Proof.
    induction m as [|[k w] m IH]; cbn [L1D.lset map sc_e fst snd]; [reflexivity|].
    rewrite ival_ltb_sc, ival_eqb_sc. destruct (ival_ltb i k); [reflexivity|].
    destruct (ival_eqb i k); [reflexivity|]. cbn [map sc_e fst snd]. now rewrite IH.
  Qed.

  Lemma lpop_sc (i : ival) (m : list (ival * num)) :
    lpop (sc_iv i) (map sc_e m) = map sc_e (lpop i m).
  Proof.
    induction m as [|[k w] m IH]; cbn [L1D.lpop map sc_e fst snd]; [reflexivity|].
    rewrite ival_eqb_sc. destruct (ival_eqb i k); [reflexivity|]. cbn [map sc_e fst snd]. now rewrite IH.
  Qed.

  Lemma lpop_opt_sc (a b : option num) (m : list (ival * num)) :
    lpop_opt (option_map sx_ a) (option_map sx_ b) (map sc_e m) = map sc_e (lpop_opt a b m).
  Proof. destruct a, b; cbn [L1D.lpop_opt option_map]; try reflexivity. apply (lpop_sc (n, n0)). Qed.

  Lemma set_opt_sc (a b : option num) v (m : list (ival * num)) :
    set_opt (option_map sx_ a) (option_map sx_ b) v (map sc_e m) = map sc_e (set_opt a b v m).
  Proof. destruct a, b; cbn [L1D.set_opt option_map]; try reflexivity. apply (lset_sc (n, n0)). Qed.

  (* ---------------- scaling, bounding box ---------------- *)
  Lemma pmin_sx a b : pmin (sx_ a) (sx_ b) = sx_ (pmin a b).
  Proof. unfold L1D.pmin. rewrite (sx_ltb SL). now destruct (ltb b a). Qed.
  Lemma pmax_sx a b : pmax (sx_ a) (sx_ b) = sx_ (pmax a b).
  Proof. unfold L1D.pmax. rewrite (sx_ltb SL). now destruct (ltb a b). Qed.
  Lemma pmin_sy a b : pmin (sy_ a) (sy_ b) = sy_ (pmin a b).
  Proof. unfold L1D.pmin. rewrite (sy_ltb SL). now destruct (ltb b a). Qed.
  Lemma pmax_sy a b : pmax (sy_ a) (sy_ b) = sy_ (pmax a b).
  Proof. unfold L1D.pmax. rewrite (sy_ltb SL). now destruct (ltb a b). Qed.
  Lemma nanmin_sy a b : nanmin (sy_ a) (sy_ b) = sy_ (nanmin a b).
  Proof.
    unfold L1D.nanmin. rewrite !(sy_is_nan SL), (sy_ltb SL).
    destruct (is_nan a), (is_nan b), (ltb b a); reflexivity.
  Qed.
  Lemma nanmax_sy a b : nanmax (sy_ a) (sy_ b) = sy_ (nanmax a b).
  Proof.
    unfold L1D.nanmax. rewrite !(sy_is_nan SL), (sy_ltb SL).
    destruct (is_nan a), (is_nan b), (ltb a b); reflexivity.
  Qed.
  Lemma npmax_sy l acc : npmax (map sy_ l) (sy_ acc) = sy_ (npmax l acc).
  Proof.
    revert acc; induction l as [|v l IH]; intros acc; cbn [L1D.npmax map]; [reflexivity|].
    rewrite !(sy_is_nan SL), (sy_ltb SL). rewrite <- IH. f_equal.
    destruct (is_nan acc), (is_nan v), (ltb acc v); reflexivity.
  Qed.
  Lemma arr_max_sy l : arr_max (map sy_ l) = sy_ (arr_max l).
  Proof. destruct l as [|v l]; cbn [L1D.arr_max map]; [now rewrite (sy_zero SL)|apply npmax_sy]. Qed.

  Lemma map2_map (f : num -> num -> num) (g : num -> num)
        (H : forall a b, f (g a) (g b) = g (f a b)) (u w : list num) :
    map2 f (map g u) (map g w) = map g (map2 f u w).
  Proof.
    revert w; induction u as [|a u IH]; intros [|b w]; cbn [L1D.map2 map]; try reflexivity.
    now rewrite H, IH.
  Qed.

  Lemma update_scale_sc s x y :
    update_scale (sc_st s) (sx_ x) (ymap sy_ y) = sc_st (update_scale s x y).
  Proof.
    destruct s as [d p n nc lo lc [bx0 bx1] [b0 b1] sx0 sy0 osy0 mg].
    unfold L1D.update_scale, sc_st.
    cbn [data pend nb nbc los losc bbx bby sx sy osy mgrx fst snd].
    rewrite pmin_sx, pmax_sx, (sx_sub SL).
    destruct y as [v|vs]; cbn [ymap].
    - assert (E0 : match ymap sy_ b0 with YS m => m | YV _ => inf end
                   = sy_ (match b0 with YS m => m | YV _ => inf end)).
      { destruct b0; cbn [ymap]; [reflexivity|now rewrite (sy_inf SL)]. }
      assert (E1 : match ymap sy_ b1 with YS m => m | YV _ => neg_inf end
                   = sy_ (match b1 with YS m => m | YV _ => neg_inf end)).
      { destruct b1; cbn [ymap]; [reflexivity|now rewrite (sy_neg_inf SL)]. }
      rewrite E0, E1, pmin_sy, pmax_sy, (sy_sub SL). reflexivity.
    - destruct b0 as [m0|m0], b1 as [m1|m1]; cbn [ymap fst snd];
        rewrite ?(map2_map _ _ nanmin_sy), ?(map2_map _ _ nanmax_sy), ?(map2_map _ _ (sy_sub SL)), ?arr_max_sy;
        reflexivity.
  Qed.

  (* ---------------- the degenerate value scale: [_scale[1] or 1] ---------------- *)
  (* While all values seen so far are equal the code divides by 1 instead of
     the (zero) value range: the loss function then sees un-normalised values.
     [absorbed B y]: telling [y] again would not move the bounding box [B]. *)
  Definition spread (B : Y * Y) : num :=
    match B with
    | (YS mn, YS mx) => sub mx mn
    | (YV mn, YV mx) => arr_max (map2 sub mx mn)
    | _ => zero
    end.
  Definition absc (a b v : num) : Prop :=
    is_nan v = true \/
    (is_nan a = false /\ is_nan b = false /\ ltb v a = false /\ ltb b v = false).
  Fixpoint absv (mn mx vs : list num) : Prop :=
    match mn, mx, vs with
    | a :: mn', b :: mx', v :: vs' => absc a b v /\ absv mn' mx' vs'
    | _, _, _ => True
    end.
  Definition absorbed (B : Y * Y) (y : Y) : Prop :=
    match B, y with
    | (YS mn, YS mx), YS v => ltb v mn = false /\ ltb mx v = false
    | (YV mn, YV mx), YV vs => absv mn mx vs
    | _, _ => False
    end.
  Definition is_vec (y : Y) : bool := match y with YS _ => false | YV _ => true end.
  Definition bshape (B : Y * Y) : option bool :=
    match B with (YS _, YS _) => Some false | (YV _, YV _) => Some true | _ => None end.

  (* the loss function ignores a common rescaling of un-normalised values when
     their range is zero (shipped losses only use differences of values) *)
  Definition LossFlat : Prop := forall xs ys B,
    (forall y, In (Some y) ys -> absorbed B y /\ eqb (spread B) zero = true) ->
    L xs (map (option_map (ymap (fun v => div (sy_ v) one))) ys) =
    L xs (map (option_map (ymap (fun v => div v one))) ys).
  Hypothesis LF : LossFlat.

  (* [vec]: the learnt function returns vectors (true) or scalars (false) *)
  Variable vec : bool.
  Definition Inv s : Prop :=
    (forall z, In z (nb s) -> dget z (data s) <> None) /\
    (forall z yz, In z (nb s) -> dget z (data s) = Some yz ->
                  absorbed (bby s) yz /\ sy s = spread (bby s)) /\
    (nb s = [] \/ bshape (bby s) = Some vec) /\
    (forall e, In e (data s) -> is_vec (snd e) = vec).

  Lemma point_at_sc l i k : point_at sc_P (map sx_ l) i k = option_map sx_ (point_at P l i k).
  Proof.
    unfold L1D.point_at. cbn [nn sc_P]. destruct (i + k <? nn P); [reflexivity|apply nth_error_map].
  Qed.

  Lemma scale_y_ymap s y : scale_y s y = ymap (fun v => div v (yscale s)) y.
  Proof. destruct y; reflexivity. Qed.
  Lemma ymap_ymap (f g : num -> num) y : ymap f (ymap g y) = ymap (fun v => f (g v)) y.
  Proof. destruct y; cbn [ymap]; [reflexivity|now rewrite map_map]. Qed.
  Lemma ymap_ext (f g : num -> num) y : (forall v, f v = g v) -> ymap f y = ymap g y.
  Proof. intros H; destruct y; cbn [ymap]; [now rewrite H|f_equal; now apply map_ext]. Qed.

  Lemma omap_map_map {A B C} (f : A -> B) (g : B -> C) (l : list (option A)) :
    map (option_map g) (map (option_map f) l) = map (option_map (fun v => g (f v))) l.
  Proof. rewrite map_map. apply map_ext. now intros [v|]. Qed.
  Lemma omap_ext {A B} (f g : A -> B) (l : list (option A)) :
    (forall v, f v = g v) -> map (option_map f) l = map (option_map g) l.
  Proof. intros H. apply map_ext. intros [v|]; cbn; [now rewrite H|reflexivity]. Qed.

  Lemma yscale_sc s : yscale (sc_st s) = if eqb (sy s) zero then one else sy_ (sy s).
  Proof. unfold L1D.yscale, sc_st. cbn [sy]. now rewrite sy_eqb_zero. Qed.

  Lemma get_loss_sc s a b : Inv s ->
    get_loss sc_P (sc_st s) (sx_ a) (sx_ b) = get_loss P s a b.
  Proof.
    intros (_ & HI & _ & _). unfold L1D.get_loss. cbn [dx_eps sc_P nn].
    rewrite (sx_sub SL), (sx_ltb SL). destruct (ltb (sub b a) (dx_eps P)); [reflexivity|].
    replace (nb (sc_st s)) with (map sx_ (nb s)) by reflexivity.
    replace (data (sc_st s)) with (map sc_d (data s)) by reflexivity.
    replace (sx (sc_st s)) with (sx_ (sx s)) by reflexivity.
    rewrite index_of_sc.
    set (i := index_of a (nb s)). set (ks := seq 0 (2 * nn P + 2)).
    set (xs := map (point_at P (nb s) i) ks).
    assert (Exs : map (point_at sc_P (map sx_ (nb s)) i) ks = map (option_map sx_) xs).
    { unfold xs. rewrite map_map. apply map_ext. intros k. apply point_at_sc. }
    rewrite Exs.
    set (ys := map (fun ox => match ox with Some x => dget x (data s) | None => None end) xs).
    assert (Eys : map (fun ox => match ox with Some x => dget x (map sc_d (data s)) | None => None end)
                      (map (option_map sx_) xs) = map (option_map (ymap sy_)) ys).
    { unfold ys. rewrite !map_map. apply map_ext. intros [x|]; cbn [option_map]; [apply dget_sc|reflexivity]. }
    rewrite Eys, !omap_map_map.
    rewrite (omap_ext (fun v => div (sx_ v) (sx_ (sx s))) (fun v => div v (sx s)) xs (fun v => sx_div SL v (sx s))).
    rewrite (omap_ext (fun v => scale_y (sc_st s) (ymap sy_ v))
                      (fun v => ymap (fun w => div (sy_ w) (yscale (sc_st s))) v) ys)
      by (intros v; now rewrite scale_y_ymap, ymap_ymap).
    rewrite (omap_ext (scale_y s) (fun v => ymap (fun w => div w (yscale s)) v) ys)
      by (intros v; apply scale_y_ymap).
    rewrite yscale_sc. unfold L1D.yscale.
    destruct (eqb (sy s) zero) eqn:Ez.
    - apply LF with (B := bby s). intros y Hy.
      unfold ys in Hy. apply in_map_iff in Hy. destruct Hy as [[x|] [Hd Hx]]; [|discriminate].
      unfold xs in Hx. apply in_map_iff in Hx. destruct Hx as [k [Hk _]].
      assert (Hin : In x (nb s)).
      { unfold L1D.point_at in Hk. destruct (i + k <? nn P); [discriminate|]. eapply nth_error_In; eauto. }
      destruct (HI x y Hin Hd) as [Ha Hs]. split; [exact Ha|now rewrite <- Hs].
    - f_equal. apply omap_ext. intros v. apply ymap_ext. intros w. apply (sy_div SL).
  Qed.

  (* ---------------- loss bookkeeping ---------------- *)
  Lemma interp_val_sc d loss dx : div (mul (sx_ d) loss) (sx_ dx) = div (mul d loss) dx.
  Proof. now rewrite (sx_mul_r SL), (sx_div SL). Qed.

  Lemma leb_sx a b : leb (sx_ a) (sx_ b) = leb a b.
  Proof. unfold L1D.leb. now rewrite (sx_ltb SL), (sx_eqb SL). Qed.

  Lemma walk_sc a xr loss dx keys (m : list (ival * num)) :
    walk (sx_ a) (sx_ xr) loss (sx_ dx) (map sx_ keys) (map sc_e m) =
    map sc_e (walk a xr loss dx keys m).
  Proof.
    unfold L1D.walk. rewrite pairs_sc. generalize (pairs keys) as ps.
    intros ps; revert m; induction ps as [|pq ps IH]; intros m; cbn [fold_left map]; [reflexivity|].
    rewrite <- IH. f_equal. unfold sc_iv at 1 2 4 5. cbn [fst snd].
    rewrite leb_sx, (sx_ltb SL), (sx_sub SL), interp_val_sc.
    destruct (leb a (fst pq) && ltb (fst pq) xr); [|reflexivity].
    apply (lset_sc pq).
  Qed.

  (* the part of the state the invariant talks about *)
  Definition same_core s s' : Prop :=
    nb s' = nb s /\ data s' = data s /\ bby s' = bby s /\ sy s' = sy s.
  Lemma same_core_refl s : same_core s s.
  Proof. repeat split. Qed.
  Lemma same_core_trans s1 s2 s3 : same_core s1 s2 -> same_core s2 s3 -> same_core s1 s3.
  Proof. intros (A&B&C&D) (A'&B'&C'&D'). repeat split; congruence. Qed.
  Lemma Inv_core s s' : same_core s s' -> Inv s -> Inv s'.
  Proof. intros (A&B&C&D) (H1&H2&H3&H4). unfold Inv. rewrite A, B, C, D. split; [exact H1|split; [exact H2|split; [exact H3|exact H4]]]. Qed.
  Lemma with_los_core s (l lc : list (ival * num)) : same_core s (with_los s l lc).
  Proof. repeat split. Qed.

  Lemma with_los_sc s (l lc : list (ival * num)) :
    with_los (sc_st s) (map sc_e l) (map sc_e lc) = sc_st (with_los s l lc).
  Proof. reflexivity. Qed.

  Lemma update_interp_core s iv : same_core s (update_interp P s iv).
  Proof. destruct iv. repeat split. Qed.

  Lemma update_interp_sc s iv : Inv s ->
    update_interp sc_P (sc_st s) (sc_iv iv) = sc_st (update_interp P s iv).
  Proof.
    intros HI. destruct iv as [a b]. unfold L1D.update_interp, sc_iv. cbn [fst snd].
    rewrite (get_loss_sc a b HI).
    replace (los (sc_st s)) with (map sc_e (los s)) by reflexivity.
    replace (losc (sc_st s)) with (map sc_e (losc s)) by reflexivity.
    replace (nbc (sc_st s)) with (map sx_ (nbc s)) by reflexivity.
    rewrite (sx_sub SL), walk_sc, (lset_sc (a, b)). reflexivity.
  Qed.

  Lemma fold_interp_core ivs s : same_core s (fold_left (update_interp P) ivs s).
  Proof.
    revert s; induction ivs as [|iv ivs IH]; intros s; cbn [fold_left]; [apply same_core_refl|].
    eapply same_core_trans; [apply update_interp_core|apply IH].
  Qed.

  Lemma fold_interp_sc ivs s : Inv s ->
    fold_left (update_interp sc_P) (map sc_iv ivs) (sc_st s) = sc_st (fold_left (update_interp P) ivs s).
  Proof.
    revert s; induction ivs as [|iv ivs IH]; intros s HI; cbn [fold_left map]; [reflexivity|].
    rewrite (update_interp_sc iv HI). apply IH. eapply Inv_core; [apply update_interp_core|exact HI].
  Qed.

  (* [update_losses] cut into its three stages *)
  Definition ul_real (Q : params) s1 x (xl xr : option num) : st :=
    let s' := fold_left (update_interp Q) (get_intervals Q x (nb s1)) s1 in
    with_los s' (lpop_opt xl xr (los s')) (lpop_opt xl xr (losc s')).
  Definition odef (o : option num) (d : num) : num := match o with Some v => v | None => d end.
  Definition ul_pend s1 x (xl xr a b : option num) : st :=
    match xl, xr with
    | Some l, Some r =>
        let dx := sub r l in
        match lget (l, r) (los s1) with
        | Some loss =>
            with_los s1 (los s1)
              (set_opt (Some x) b (div (mul (sub (odef b x) x) loss) dx)
                 (set_opt a (Some x) (div (mul (sub x (odef a x)) loss) dx) (losc s1)))
        | None => s1
        end
    | _, _ => s1
    end.
  Definition tl_left s x (a : option num) : st := with_los s (los s) (set_opt a (Some x) inf (losc s)).
  Definition tl_right s x (b : option num) : st := with_los s (los s) (set_opt (Some x) b inf (losc s)).
  Definition ul_tail s2 x (xl xr a b : option num) (real : bool) : st :=
    let left_unknown := match xl with None => true | Some _ => negb real && match xr with None => true | _ => false end end in
    let s3 := if left_unknown then tl_left s2 x a else s2 in
    let right_unknown := match xr with None => true | Some _ => negb real && match xl with None => true | _ => false end end in
    if right_unknown then tl_right s3 x b else s3.

  Lemma update_losses_eq (Q : params) s x real :
    update_losses Q s x real =
    let xlr := find_neighbors x (nb s) in
    let ab := find_neighbors x (nbc s) in
    let s1 := with_los s (los s) (lpop_opt (fst ab) (snd ab) (losc s)) in
    ul_tail (if real then ul_real Q s1 x (fst xlr) (snd xlr)
             else ul_pend s1 x (fst xlr) (snd xlr) (fst ab) (snd ab))
            x (fst xlr) (snd xlr) (fst ab) (snd ab) real.
  Proof.
    unfold L1D.update_losses.
    destruct (find_neighbors x (nb s)) as [xl xr], (find_neighbors x (nbc s)) as [a b].
    cbn [fst snd]. destruct real; reflexivity.
  Qed.

  Lemma ul_real_core s1 x xl xr : same_core s1 (ul_real P s1 x xl xr).
  Proof. unfold ul_real. eapply same_core_trans; [apply fold_interp_core|apply with_los_core]. Qed.
  Lemma ul_pend_core s1 x xl xr (a b : option num) : same_core s1 (ul_pend s1 x xl xr a b).
  Proof.
    unfold ul_pend. destruct xl, xr; try apply same_core_refl.
    destruct (lget _ _); [apply with_los_core|apply same_core_refl].
  Qed.
  Lemma ul_tail_core s2 x xl xr (a b : option num) real : same_core s2 (ul_tail s2 x xl xr a b real).
  Proof.
    unfold ul_tail, tl_left, tl_right.
    repeat match goal with |- context [if ?c then _ else _] => destruct c end;
      repeat split.
  Qed.

  Lemma update_losses_core s x real : same_core s (update_losses P s x real).
  Proof.
    rewrite update_losses_eq. cbv zeta.
    eapply same_core_trans; [|apply ul_tail_core].
    eapply same_core_trans; [apply with_los_core|].
    destruct real; [apply ul_real_core|apply ul_pend_core].
  Qed.

  Lemma odef_sc o d : odef (option_map sx_ o) (sx_ d) = sx_ (odef o d).
  Proof. now destruct o. Qed.

  Lemma ul_real_sc s1 x xl xr : Inv s1 ->
    ul_real sc_P (sc_st s1) (sx_ x) (option_map sx_ xl) (option_map sx_ xr) = sc_st (ul_real P s1 x xl xr).
  Proof.
    intros HI. unfold ul_real.
    replace (nb (sc_st s1)) with (map sx_ (nb s1)) by reflexivity.
    rewrite get_intervals_sc, (fold_interp_sc _ HI).
    set (s' := fold_left (update_interp P) (get_intervals P x (nb s1)) s1).
    replace (los (sc_st s')) with (map sc_e (los s')) by reflexivity.
    replace (losc (sc_st s')) with (map sc_e (losc s')) by reflexivity.
    rewrite !lpop_opt_sc. reflexivity.
  Qed.

  Lemma ul_pend_sc s1 x xl xr (a b : option num) :
    ul_pend (sc_st s1) (sx_ x) (option_map sx_ xl) (option_map sx_ xr) (option_map sx_ a) (option_map sx_ b)
    = sc_st (ul_pend s1 x xl xr a b).
  Proof.
    unfold ul_pend. destruct xl as [l|], xr as [r|]; cbn [option_map]; try reflexivity.
    replace (los (sc_st s1)) with (map sc_e (los s1)) by reflexivity.
    rewrite (lget_sc (l, r)). destruct (lget (l, r) (los s1)) as [loss|]; [|reflexivity].
    replace (losc (sc_st s1)) with (map sc_e (losc s1)) by reflexivity.
    rewrite !odef_sc, !(sx_sub SL), !interp_val_sc.
    change (Some (sx_ x)) with (option_map sx_ (Some x)).
    rewrite !set_opt_sc. reflexivity.
  Qed.

  Lemma tl_left_sc s x (a : option num) : tl_left (sc_st s) (sx_ x) (option_map sx_ a) = sc_st (tl_left s x a).
  Proof.
    unfold tl_left. replace (losc (sc_st s)) with (map sc_e (losc s)) by reflexivity.
    change (Some (sx_ x)) with (option_map sx_ (Some x)). rewrite set_opt_sc. reflexivity.
  Qed.
  Lemma tl_right_sc s x (b : option num) : tl_right (sc_st s) (sx_ x) (option_map sx_ b) = sc_st (tl_right s x b).
  Proof.
    unfold tl_right. replace (losc (sc_st s)) with (map sc_e (losc s)) by reflexivity.
    change (Some (sx_ x)) with (option_map sx_ (Some x)). rewrite set_opt_sc. reflexivity.
  Qed.

  Lemma ul_tail_sc s2 x xl xr (a b : option num) real :
    ul_tail (sc_st s2) (sx_ x) (option_map sx_ xl) (option_map sx_ xr) (option_map sx_ a) (option_map sx_ b) real
    = sc_st (ul_tail s2 x xl xr a b real).
  Proof.
    unfold ul_tail.
    destruct xl, xr, real; cbn [option_map negb andb]; rewrite ?tl_left_sc, ?tl_right_sc; reflexivity.
  Qed.

  Lemma update_losses_sc s x real : Inv s ->
    update_losses sc_P (sc_st s) (sx_ x) real = sc_st (update_losses P s x real).
  Proof.
    intros HI. rewrite !update_losses_eq. cbv zeta.
    replace (nb (sc_st s)) with (map sx_ (nb s)) by reflexivity.
    replace (nbc (sc_st s)) with (map sx_ (nbc s)) by reflexivity.
    rewrite !find_neighbors_sc. cbn [fst snd].
    replace (losc (sc_st s)) with (map sc_e (losc s)) by reflexivity.
    replace (los (sc_st s)) with (map sc_e (los s)) by reflexivity.
    rewrite lpop_opt_sc, with_los_sc.
    set (s1 := with_los s (los s) _).
    assert (HI1 : Inv s1) by (eapply Inv_core; [apply with_los_core|exact HI]).
    destruct real.
    - rewrite (ul_real_sc _ _ _ HI1). apply ul_tail_sc.
    - rewrite ul_pend_sc. apply ul_tail_sc.
  Qed.

  (* ---------------- sort keys ---------------- *)
  Lemma finite_loss2_sc (iv : ival) loss xs : finite_loss2 (sc_iv iv) loss (sx_ xs) = finite_loss2 iv loss xs.
  Proof. unfold L1D.finite_loss2, sc_iv. cbn [fst snd]. now rewrite (sx_sub SL), (sx_div SL). Qed.
  Lemma finite_loss3_sc (iv : ival) n loss xs : finite_loss3 (sc_iv iv) n loss (sx_ xs) = finite_loss3 iv n loss xs.
  Proof. unfold L1D.finite_loss3, sc_iv. cbn [fst snd]. now rewrite (sx_sub SL), (sx_div SL). Qed.

  Lemma key2_ltb_sc xs (e1 e2 : ival * num) : key2_ltb (sx_ xs) (sc_e e1) (sc_e e2) = key2_ltb xs e1 e2.
  Proof. unfold L1D.key2_ltb, sc_e. cbn [fst snd]. now rewrite !finite_loss2_sc, ival_ltb_sc. Qed.

  Lemma sort_insert_map {A} (f : A -> A) (lt lt' : A -> A -> bool)
        (H : forall u w, lt' (f u) (f w) = lt u w) (u : A) (m : list A) :
    sort_insert lt' (f u) (map f m) = map f (sort_insert lt u m).
  Proof.
    induction m as [|w m IH]; cbn [sort_insert map]; [reflexivity|].
    rewrite H. destruct (lt w u); [|reflexivity]. cbn [map]. now rewrite IH.
  Qed.
  Lemma sort_by_map {A} (f : A -> A) (lt lt' : A -> A -> bool)
        (H : forall u w, lt' (f u) (f w) = lt u w) (m : list A) :
    sort_by lt' (map f m) = map f (sort_by lt m).
  Proof.
    unfold sort_by. change (@nil A) with (map f []) at 1. generalize (@nil A) as acc.
    induction m as [|u m IH]; intros acc; cbn [fold_left map]; [reflexivity|].
    rewrite (sort_insert_map f lt lt' H). apply IH.
  Qed.

  Lemma map_fst_sc_e (m : list (ival * num)) : map fst (map sc_e m) = map sc_iv (map fst m).
  Proof. rewrite !map_map. reflexivity. Qed.

  Lemma sweep_core s : same_core s (sweep P s).
  Proof. apply fold_interp_core. Qed.

  Lemma sweep_sc s : Inv s -> sweep sc_P (sc_st s) = sc_st (sweep P s).
  Proof.
    intros HI. unfold L1D.sweep.
    replace (los (sc_st s)) with (map sc_e (los s)) by reflexivity.
    replace (mgrx (sc_st s)) with (sx_ (mgrx s)) by reflexivity.
    rewrite (sort_by_map sc_e (key2_ltb (mgrx s)) (key2_ltb (sx_ (mgrx s))) (key2_ltb_sc (mgrx s))).
    rewrite map_fst_sc_e, <- map_rev. apply (fold_interp_sc _ HI).
  Qed.

  Lemma in_bounds_sc x : in_bounds sc_P (sx_ x) = in_bounds P x.
  Proof. unfold L1D.in_bounds. cbn [lo hi sc_P]. now rewrite !leb_sx. Qed.

  (* ---------------- the invariant is kept ---------------- *)
  Lemma In_insert z x l : In z (insert x l) -> z = x \/ In z l.
  Proof.
    induction l as [|w l IH]; cbn [L1D.insert In].
    - intros [H|[]]; auto.
    - destruct (ltb x w).
      + intros [H|H]; [left; congruence|right; exact H].
      + destruct (eqb x w); [intros H; right; exact H|].
        intros [H|H]; [right; left; exact H|]. destruct (IH H); [left|right; right]; assumption.
  Qed.

  Lemma dget_dset_fresh x y (d : list (num * Y)) z :
    dget x d = None -> dget z (dset x y d) = if eqb z x then Some y else dget z d.
  Proof.
    induction d as [|[k v] d IH]; cbn [L1D.dget L1D.dset]; [reflexivity|].
    destruct (eqb x k) eqn:Exk; [discriminate|]. intros Hd.
    destruct (ltb x k); [reflexivity|]. cbn [L1D.dget]. rewrite (IH Hd).
    destruct (eqb z k) eqn:Ezk, (eqb z x) eqn:Ezx; try reflexivity.
    pose proof (eqb_eq OL Ezk) as E1. pose proof (eqb_eq OL Ezx) as E2.
    rewrite <- E1, <- E2 in Exk. rewrite <- E2 in Ezx. congruence.
  Qed.

  Lemma update_scale_core s x y :
    nb (update_scale s x y) = nb s /\ data (update_scale s x y) = data s.
  Proof.
    destruct s as [d p n nc lo lc bx [[m0|m0] [m1|m1]] sx0 sy0 osy0 mg], y; split; reflexivity.
  Qed.

  Lemma bshape_upd s x y : bshape (bby (update_scale s x y)) = Some (is_vec y).
  Proof.
    destruct s as [d p n nc lo lc bx [[m0|m0] [m1|m1]] sx0 sy0 osy0 mg], y; reflexivity.
  Qed.

  Lemma spread_upd s x y : sy (update_scale s x y) = spread (bby (update_scale s x y)).
  Proof.
    destruct s as [d p n nc lo lc bx [[m0|m0] [m1|m1]] sx0 sy0 osy0 mg], y; reflexivity.
  Qed.

  Lemma ltb_pmin_keep w m v : ltb w m = false -> ltb w (pmin m v) = false.
  Proof.
    intros H. unfold L1D.pmin. destruct (ltb v m) eqn:E; [|exact H].
    destruct (ltb w v) eqn:E'; [|reflexivity]. now rewrite (ltb_trans OL E' E) in H.
  Qed.
  Lemma ltb_pmax_keep w m v : ltb m w = false -> ltb (pmax m v) w = false.
  Proof.
    intros H. unfold L1D.pmax. destruct (ltb m v) eqn:E; [|exact H].
    destruct (ltb v w) eqn:E'; [|reflexivity]. now rewrite (ltb_trans OL E E') in H.
  Qed.
  Lemma ltb_pmin_new m v : ltb v (pmin m v) = false.
  Proof. unfold L1D.pmin. destruct (ltb v m) eqn:E; [apply (ltb_irrefl OL)|exact E]. Qed.
  Lemma ltb_pmax_new m v : ltb (pmax m v) v = false.
  Proof. unfold L1D.pmax. destruct (ltb m v) eqn:E; [apply (ltb_irrefl OL)|exact E]. Qed.

  Lemma absc_keep a b v w : absc a b w -> absc (nanmin a v) (nanmax b v) w.
  Proof.
    intros [H|(Ha & Hb & H1 & H2)]; [now left|right].
    unfold L1D.nanmin, L1D.nanmax. rewrite Ha, Hb.
    destruct (is_nan v) eqn:Ev; [repeat split; assumption|].
    repeat split.
    - destruct (ltb v a); assumption.
    - destruct (ltb b v); assumption.
    - apply (ltb_pmin_keep v H1).
    - apply (ltb_pmax_keep v H2).
  Qed.
  Lemma absc_new a b v : absc (nanmin a v) (nanmax b v) v.
  Proof.
    destruct (is_nan v) eqn:Ev; [now left|right].
    unfold L1D.nanmin, L1D.nanmax. rewrite Ev.
    assert (Ir := ltb_irrefl OL v).
    repeat split.
    - destruct (is_nan a) eqn:Ea; [exact Ev|]. destruct (ltb v a); assumption.
    - destruct (is_nan b) eqn:Eb; [exact Ev|]. destruct (ltb b v); assumption.
    - destruct (is_nan a); [exact Ir|]. destruct (ltb v a) eqn:E; assumption.
    - destruct (is_nan b); [exact Ir|]. destruct (ltb b v) eqn:E; assumption.
  Qed.
  Lemma absc_self v : absc v v v.
  Proof. destruct (is_nan v) eqn:Ev; [now left|right]. repeat split; auto using (ltb_irrefl OL). Qed.

  Lemma absv_keep mn mx vs ws : absv mn mx ws -> absv (map2 nanmin mn vs) (map2 nanmax mx vs) ws.
  Proof.
    revert mx vs ws; induction mn as [|a mn IH]; intros [|b mx] [|v vs] [|w ws]; cbn [absv L1D.map2]; auto.
    intros [H1 H2]. split; [now apply absc_keep|now apply IH].
  Qed.
  Lemma absv_new mn mx vs : absv (map2 nanmin mn vs) (map2 nanmax mx vs) vs.
  Proof.
    revert mx vs; induction mn as [|a mn IH]; intros [|b mx] [|v vs]; cbn [absv L1D.map2]; auto.
    split; [apply absc_new|apply IH].
  Qed.
  Lemma absv_self vs : absv vs vs vs.
  Proof. induction vs as [|v vs IH]; cbn [absv]; auto using absc_self. Qed.

  Lemma absorbed_new s x y : absorbed (bby (update_scale s x y)) y.
  Proof.
    destruct s as [d p n nc lo lc bx [[m0|m0] [m1|m1]] sx0 sy0 osy0 mg], y as [v|vs];
      cbn [L1D.update_scale bby fst snd absorbed];
      auto using ltb_pmin_new, ltb_pmax_new, absv_new, absv_self.
  Qed.

  Lemma absorbed_keep s x y yz :
    bshape (bby s) = Some (is_vec y) -> absorbed (bby s) yz -> absorbed (bby (update_scale s x y)) yz.
  Proof.
    destruct s as [d p n nc lo lc bx [[m0|m0] [m1|m1]] sx0 sy0 osy0 mg], y as [v|vs], yz as [w|ws];
      cbn [L1D.update_scale bby fst snd absorbed bshape is_vec]; try discriminate; try tauto.
    - intros _ [H1 H2]. split; [now apply ltb_pmin_keep|now apply ltb_pmax_keep].
    - intros _. apply absv_keep.
  Qed.

  (* ---------------- tell ---------------- *)
  Definition t0 s x y : st :=
    mk (dset x y (data s)) (remove x (pend s)) (nb s) (nbc s) (los s) (losc s)
       (bbx s) (bby s) (sx s) (sy s) (osy s) (mgrx s).
  Definition t1 s0 x : st :=
    mk (data s0) (pend s0) (insert x (nb s0)) (insert x (nbc s0)) (los s0) (losc s0)
       (bbx s0) (bby s0) (sx s0) (sy s0) (osy s0) (mgrx s0).
  Definition t_fin s4 : st :=
    mk (data s4) (pend s4) (nb s4) (nbc s4) (los s4) (losc s4) (bbx s4) (bby s4)
       (sx s4) (sy s4) (sy s4) (mgrx s4).

  Lemma tell_eq (Q : params) s x y :
    tell Q s x y =
    match dget x (data s) with
    | Some _ => s
    | None =>
        if negb (in_bounds Q x) then t0 s x y
        else
          let s3 := update_losses Q (update_scale (t1 (t0 s x y) x) x y) x true in
          if ltb (mul (factor Q) (osy s3)) (sy s3) then t_fin (sweep Q s3) else s3
    end.
  Proof. reflexivity. Qed.

  Lemma t0_sc s x y : t0 (sc_st s) (sx_ x) (ymap sy_ y) = sc_st (t0 s x y).
  Proof. unfold t0, sc_st. cbn [data pend nb nbc los losc bbx bby sx sy osy mgrx]. now rewrite dset_sc, remove_sc. Qed.
  Lemma t1_sc s x : t1 (sc_st s) (sx_ x) = sc_st (t1 s x).
  Proof. unfold t1, sc_st. cbn [data pend nb nbc los losc bbx bby sx sy osy mgrx]. now rewrite !insert_sc. Qed.
  Lemma t_fin_sc s : t_fin (sc_st s) = sc_st (t_fin s).
  Proof. reflexivity. Qed.

  Lemma In_dset e x y (d : list (num * Y)) : In e (dset x y d) -> e = (x, y) \/ In e d.
  Proof.
    induction d as [|[k v] d IH]; cbn [L1D.dset In].
    - intros [H|[]]; auto.
    - destruct (ltb x k); [intros [H|H]; auto|].
      destruct (eqb x k); [intros [H|H]; auto|].
      intros [H|H]; [auto|]. destruct (IH H); auto.
  Qed.

  Lemma Inv_t0 s x y : Inv s -> dget x (data s) = None -> is_vec y = vec -> Inv (t0 s x y).
  Proof.
    intros (H1 & H2 & H3 & H4) Hd Hv. unfold Inv, t0. cbn [data nb bby sy].
    assert (Hne : forall z, In z (nb s) -> eqb z x = false).
    { intros z Hz. destruct (eqb z x) eqn:E; [|reflexivity].
      apply (eqb_eq OL) in E. subst z. now destruct (H1 x Hz). }
    split; [|split; [|split; [exact H3|]]].
    - intros z Hz. rewrite (@dget_dset_fresh x y (data s) z Hd), (Hne z Hz). now apply H1.
    - intros z yz Hz. rewrite (@dget_dset_fresh x y (data s) z Hd), (Hne z Hz). now apply H2.
    - intros e He. destruct (In_dset _ _ _ _ He) as [->|He']; [exact Hv|now apply H4].
  Qed.

  Lemma Inv_t2 s x y : Inv s -> dget x (data s) = None -> is_vec y = vec ->
    Inv (update_scale (t1 (t0 s x y) x) x y).
  Proof.
    intros (H1 & H2 & H3 & H4) Hd Hv.
    set (s1 := t1 (t0 s x y) x).
    destruct (update_scale_core s1 x y) as [En Ed].
    unfold Inv. rewrite En, Ed. cbn [s1 t1 t0 nb data].
    split; [|split; [|split]].
    - intros z Hz. rewrite (@dget_dset_fresh x y (data s) z Hd).
      destruct (eqb z x) eqn:E; [discriminate|].
      destruct (In_insert _ _ _ Hz) as [->|Hz']; [now rewrite (eqb_refl OL) in E|now apply H1].
    - intros z yz Hz. rewrite (@dget_dset_fresh x y (data s) z Hd). rewrite spread_upd.
      destruct (eqb z x) eqn:E.
      + intros [= <-]. split; [apply absorbed_new|reflexivity].
      + intros Hy. split; [|reflexivity].
        destruct (In_insert _ _ _ Hz) as [->|Hz']; [congruence|].
        destruct (H2 z yz Hz' Hy) as [Ha _].
        destruct H3 as [H3|H3]; [rewrite H3 in Hz'; destruct Hz'|].
        apply absorbed_keep; [|exact Ha]. change (bby s1) with (bby s). now rewrite Hv.
    - right. rewrite bshape_upd. now rewrite Hv.
    - intros e He. destruct (In_dset _ _ _ _ He) as [->|He']; [exact Hv|now apply H4].
  Qed.

  Lemma tell_sc s x y : Inv s -> is_vec y = vec ->
    tell sc_P (sc_st s) (sx_ x) (ymap sy_ y) = sc_st (tell P s x y) /\ Inv (tell P s x y).
  Proof.
    intros HI Hv. rewrite !tell_eq.
    replace (data (sc_st s)) with (map sc_d (data s)) by reflexivity.
    rewrite dget_sc. destruct (dget x (data s)) eqn:Hd; cbn [option_map]; [now split|].
    rewrite in_bounds_sc, t0_sc. destruct (in_bounds P x) eqn:Hb; cbn [negb].
    2:{ split; [reflexivity|now apply Inv_t0]. }
    cbv zeta. rewrite t1_sc, update_scale_sc.
    assert (HI2 := @Inv_t2 s x y HI Hd Hv).
    set (s2 := update_scale (t1 (t0 s x y) x) x y) in *.
    rewrite (@update_losses_sc _ x true HI2).
    assert (HI3 : Inv (update_losses P s2 x true)) by (eapply Inv_core; [apply update_losses_core|exact HI2]).
    set (s3 := update_losses P s2 x true) in *.
    replace (osy (sc_st s3)) with (sy_ (osy s3)) by reflexivity.
    replace (sy (sc_st s3)) with (sy_ (sy s3)) by reflexivity.
    cbn [factor sc_P]. rewrite (sy_mul_l SL), (sy_ltb SL).
    destruct (ltb (mul (factor P) (osy s3)) (sy s3)); [|now split].
    rewrite (sweep_sc HI3), t_fin_sc. split; [reflexivity|].
    eapply Inv_core; [|exact HI3]. eapply same_core_trans; [apply sweep_core|]. repeat split.
  Qed.

  (* ---------------- tell_pending, remove_unfinished ---------------- *)
  Definition tp1 s x : st :=
    mk (data s) (insert x (pend s)) (nb s) (insert x (nbc s)) (los s) (losc s)
       (bbx s) (bby s) (sx s) (sy s) (osy s) (mgrx s).
  Lemma tell_pending_eq (Q : params) s x :
    tell_pending Q s x =
    match dget x (data s) with Some _ => s | None => update_losses Q (tp1 s x) x false end.
  Proof. reflexivity. Qed.
  Lemma tp1_sc s x : tp1 (sc_st s) (sx_ x) = sc_st (tp1 s x).
  Proof. unfold tp1, sc_st. cbn [data pend nb nbc los losc bbx bby sx sy osy mgrx]. now rewrite !insert_sc. Qed.

  Lemma tell_pending_sc s x : Inv s ->
    tell_pending sc_P (sc_st s) (sx_ x) = sc_st (tell_pending P s x) /\ Inv (tell_pending P s x).
  Proof.
    intros HI. rewrite !tell_pending_eq.
    replace (data (sc_st s)) with (map sc_d (data s)) by reflexivity.
    rewrite dget_sc. destruct (dget x (data s)); cbn [option_map]; [now split|].
    assert (HI1 : Inv (tp1 s x)) by (eapply Inv_core; [|exact HI]; repeat split).
    rewrite tp1_sc, (@update_losses_sc _ x false HI1). split; [reflexivity|].
    eapply Inv_core; [apply update_losses_core|exact HI1].
  Qed.

  Lemma fold_tell_pending_sc xs s : Inv s ->
    fold_left (tell_pending sc_P) (map sx_ xs) (sc_st s) = sc_st (fold_left (tell_pending P) xs s)
    /\ Inv (fold_left (tell_pending P) xs s).
  Proof.
    revert s; induction xs as [|x xs IH]; intros s HI; cbn [fold_left map]; [now split|].
    destruct (@tell_pending_sc s x HI) as [E HI']. rewrite E. now apply IH.
  Qed.

  Lemma remove_unfinished_sc s :
    remove_unfinished (sc_st s) = sc_st (remove_unfinished s) /\ (Inv s -> Inv (remove_unfinished s)).
  Proof. split; [reflexivity|]. intros HI. eapply Inv_core; [|exact HI]. repeat split. Qed.

  (* ---------------- tell_many, incremental path ---------------- *)
  Definition ys_shape (xys : list (num * Y)) : Prop := forall xy, In xy xys -> is_vec (snd xy) = vec.

  Lemma fold_tell_sc (xys : list (num * Y)) s : Inv s -> ys_shape xys ->
    fold_left (fun s xy => tell sc_P s (fst xy) (snd xy)) (map sc_d xys) (sc_st s)
    = sc_st (fold_left (fun s xy => tell P s (fst xy) (snd xy)) xys s)
    /\ Inv (fold_left (fun s xy => tell P s (fst xy) (snd xy)) xys s).
  Proof.
    revert s; induction xys as [|[x y] xys IH]; intros s HI Hs; cbn [fold_left map sc_d fst snd]; [now split|].
    destruct (@tell_sc s x y HI) as [E HI']. { apply (Hs (x, y)). now left. }
    rewrite E. apply IH; [exact HI'|]. intros xy Hxy. apply Hs. now right.
  Qed.

  (* ---------------- ask ---------------- *)
  Lemma merge_sorted_sc fuel (u w : list num) :
    merge_sorted fuel (map sx_ u) (map sx_ w) = map sx_ (merge_sorted fuel u w).
  Proof.
    revert u w; induction fuel as [|f IH]; intros u w; cbn [L1D.merge_sorted]; [now rewrite map_app|].
    destruct u as [|a u], w as [|b w]; cbn [map]; try reflexivity.
    rewrite (sx_ltb SL), (sx_eqb SL).
    destruct (ltb a b); [cbn [map]; f_equal; apply (IH u (b :: w))|].
    destruct (eqb a b); cbn [map]; f_equal; [apply (IH u w)|apply (IH (a :: u) w)].
  Qed.

  Lemma filter_map_comm {A} (f : A -> A) (p p' : A -> bool) (H : forall v, p' (f v) = p v) (m : list A) :
    filter p' (map f m) = map f (filter p m).
  Proof. induction m as [|v m IH]; cbn [filter map]; [reflexivity|]. rewrite H. destruct (p v); cbn [map]; now rewrite IH. Qed.

  Lemma missing_bounds_sc s : missing_bounds sc_P (sc_st s) = map sx_ (missing_bounds P s).
  Proof.
    unfold L1D.missing_bounds. cbn [lo hi sc_P]. rewrite (sx_eqb SL).
    replace (data (sc_st s)) with (map sc_d (data s)) by reflexivity.
    replace (pend (sc_st s)) with (map sx_ (pend s)) by reflexivity.
    replace (if eqb (lo P) (hi P) then [sx_ (lo P)] else [sx_ (lo P); sx_ (hi P)])
      with (map sx_ (if eqb (lo P) (hi P) then [lo P] else [lo P; hi P])) by (now destruct (eqb (lo P) (hi P))).
    apply filter_map_comm. intros v. rewrite dget_sc, mem_sc. now destruct (dget v (data s)).
  Qed.

  Lemma np_linspace_sc a b n : np_linspace (sx_ a) (sx_ b) n = map sx_ (np_linspace a b n).
  Proof.
    destruct n as [|[|m]]; [reflexivity| |].
    - cbn [L1D.np_linspace map]. now rewrite (sx_sub SL), (sx_mul_l SL), (sx_add SL).
    - unfold L1D.np_linspace. rewrite map_map. apply map_ext. intros i.
      rewrite (sx_sub SL), (sx_div_r SL), sx_eqb_zero.
      destruct (i =? S m); [reflexivity|].
      destruct (eqb (div (sub b a) (of_nat (S m))) zero); now rewrite (sx_mul_l SL), (sx_add SL).
  Qed.

  Lemma linspace_sc a b n : linspace (sx_ a) (sx_ b) n = map sx_ (linspace a b n).
  Proof.
    unfold L1D.linspace. destruct n as [|[|m]]; [| reflexivity |];
      rewrite map_map; apply map_ext; intros i;
      now rewrite (sx_sub SL), (sx_div_r SL), (sx_mul_r SL), (sx_add SL).
  Qed.

  Lemma qual_ltb_sc xs (q1 q2 : qual) : qual_ltb (sx_ xs) (sc_q q1) (sc_q q2) = qual_ltb xs q1 q2.
  Proof.
    unfold L1D.qual_ltb, q_iv, q_n, q_loss, sc_q. cbn [fst snd].
    now rewrite !finite_loss3_sc, ival_ltb_sc, ival_eqb_sc.
  Qed.
  Lemma ival_ge_qual_sc xs (e : ival * num) (q : qual) :
    ival_ge_qual (sx_ xs) (sc_e e) (sc_q q) = ival_ge_qual xs e q.
  Proof.
    unfold L1D.ival_ge_qual, q_iv, q_n, q_loss, sc_q, sc_e. cbn [fst snd].
    now rewrite finite_loss3_sc, finite_loss2_sc, ival_ltb_sc.
  Qed.

  Definition newq (e : ival * num) : qual := (fst e, 2, div (snd e) (of_nat 2)).
  Definition incq (q : qual) : qual :=
    (q_iv q, S (q_n q), div (mul (q_loss q) (of_nat (q_n q))) (of_nat (S (q_n q)))).
  Lemma newq_sc e : newq (sc_e e) = sc_q (newq e).
  Proof. reflexivity. Qed.
  Lemma incq_sc q : incq (sc_q q) = sc_q (incq q).
  Proof. reflexivity. Qed.

  Lemma ask_loop_S k xs (rest : list (ival * num)) (quals : list qual) :
    ask_loop (S k) xs rest quals =
    match quals, rest with
    | [], [] => quals
    | [], e :: rest' => ask_loop k xs rest' (sort_insert (qual_ltb xs) (newq e) quals)
    | q :: qs, [] => ask_loop k xs rest (sort_insert (qual_ltb xs) (incq q) qs)
    | q :: qs, e :: rest' =>
        if ival_ge_qual xs e q
        then ask_loop k xs rest' (sort_insert (qual_ltb xs) (newq e) quals)
        else ask_loop k xs rest (sort_insert (qual_ltb xs) (incq q) qs)
    end.
  Proof. reflexivity. Qed.

  Lemma ask_loop_sc k xs (rest : list (ival * num)) (quals : list qual) :
    ask_loop k (sx_ xs) (map sc_e rest) (map sc_q quals) = map sc_q (ask_loop k xs rest quals).
  Proof.
    revert rest quals; induction k as [|k IH]; intros rest quals; [reflexivity|].
    rewrite !ask_loop_S.
    pose proof (sort_insert_map sc_q (qual_ltb xs) (qual_ltb (sx_ xs)) (qual_ltb_sc xs)) as SI.
    destruct quals as [|q qs], rest as [|e rest']; cbn [map]; try reflexivity.
    - rewrite newq_sc. pose proof (SI (newq e) []) as S0. cbn [map] in S0. rewrite S0. apply IH.
    - rewrite incq_sc, SI. apply (IH []).
    - rewrite ival_ge_qual_sc. destruct (ival_ge_qual xs e q).
      + rewrite newq_sc. pose proof (SI (newq e) (q :: qs)) as S1. cbn [map] in S1. rewrite S1. apply IH.
      + rewrite incq_sc, SI. apply (IH (e :: rest')).
  Qed.

  Lemma first_num_sc l d : first_num (map sx_ l) (sx_ d) = sx_ (first_num l d).
  Proof. now destruct l. Qed.
  Lemma last_num_sc l d : last_num (map sx_ l) (sx_ d) = sx_ (last_num l d).
  Proof.
    induction l as [|v l IH]; [reflexivity|]. destruct l as [|w l]; [reflexivity|].
    change (last_num (map sx_ (v :: w :: l)) (sx_ d)) with (last_num (map sx_ (w :: l)) (sx_ d)).
    rewrite IH. reflexivity.
  Qed.

  Lemma flat_map_sc_pts (quals : list qual) :
    flat_map (fun q => linspace (fst (q_iv q)) (snd (q_iv q)) (q_n q)) (map sc_q quals)
    = map sx_ (flat_map (fun q => linspace (fst (q_iv q)) (snd (q_iv q)) (q_n q)) quals).
  Proof.
    induction quals as [|q quals IH]; cbn [flat_map map]; [reflexivity|].
    rewrite map_app, <- IH. f_equal. apply linspace_sc.
  Qed.
  Lemma flat_map_sc_imp (quals : list qual) :
    flat_map (fun q => repeat (q_loss q) (q_n q - 1)) (map sc_q quals)
    = flat_map (fun q => repeat (q_loss q) (q_n q - 1)) quals.
  Proof. induction quals as [|q quals IH]; cbn [flat_map map]; [reflexivity|]. now rewrite IH. Qed.

  Lemma ask_points_sc s n : ask_points sc_P (sc_st s) n = sc_out (ask_points P s n).
  Proof.
    destruct n as [|n]; [reflexivity|]. unfold L1D.ask_points, sc_out.
    rewrite missing_bounds_sc, map_length.
    set (mb := missing_bounds P s).
    destruct (S n <=? length mb); cbn [fst snd]; [now rewrite firstn_map|].
    replace (data (sc_st s)) with (map sc_d (data s)) by reflexivity.
    replace (pend (sc_st s)) with (map sx_ (pend s)) by reflexivity.
    replace (losc (sc_st s)) with (map sc_e (losc s)) by reflexivity.
    replace (sx (sc_st s)) with (sx_ (sx s)) by reflexivity.
    replace (mgrx (sc_st s)) with (sx_ (mgrx s)) by reflexivity.
    rewrite !map_length.
    destruct (length (data s) + length (pend s) =? 0); cbn [fst snd lo hi sc_P]; [now rewrite np_linspace_sc|].
    replace (map fst (map sc_d (data s))) with (map sx_ (map fst (data s))) by (now rewrite !map_map).
    rewrite merge_sorted_sc, !mem_sc, first_num_sc, last_num_sc.
    set (allp := merge_sorted _ _ _).
    set (q0 := (if mem (lo P) mb then [((lo P, first_num allp (lo P)), 1, inf)] else []) ++
               (if mem (hi P) mb then [((last_num allp (hi P), hi P), 1, inf)] else [])).
    assert (Eq0 : (if mem (lo P) mb then [((sx_ (lo P), sx_ (first_num allp (lo P))), 1, inf)] else []) ++
                  (if mem (hi P) mb then [((sx_ (last_num allp (hi P)), sx_ (hi P)), 1, inf)] else [])
                  = map sc_q q0).
    { unfold q0. destruct (mem (lo P) mb), (mem (hi P) mb); reflexivity. }
    rewrite Eq0.
    rewrite (sort_by_map sc_q (qual_ltb (sx s)) (qual_ltb (sx_ (sx s))) (qual_ltb_sc (sx s))).
    rewrite (sort_by_map sc_e (key2_ltb (mgrx s)) (key2_ltb (sx_ (mgrx s))) (key2_ltb_sc (mgrx s))).
    rewrite ask_loop_sc, flat_map_sc_pts, flat_map_sc_imp, map_app. reflexivity.
  Qed.

  Lemma ask_sc s n c : Inv s ->
    ask sc_P (sc_st s) n c = (sc_st (fst (ask P s n c)), sc_out (snd (ask P s n c)))
    /\ Inv (fst (ask P s n c)).
  Proof.
    intros HI. unfold L1D.ask. cbn [fst snd]. rewrite ask_points_sc.
    destruct c; [|now split].
    unfold sc_out at 1. cbn [fst].
    destruct (@fold_tell_pending_sc (fst (ask_points P s n)) s HI) as [E HI']. rewrite E. now split.
  Qed.

  Lemma loss_sc s real : loss sc_P (sc_st s) real = loss P s real.
  Proof.
    unfold L1D.loss. rewrite missing_bounds_sc. destruct (missing_bounds P s); cbn [map]; [|reflexivity].
    replace (mgrx (sc_st s)) with (sx_ (mgrx s)) by reflexivity.
    replace (if real then los (sc_st s) else losc (sc_st s))
      with (map sc_e (if real then los s else losc s)) by (now destruct real).
    rewrite (sort_by_map sc_e (key2_ltb (mgrx s)) (key2_ltb (sx_ (mgrx s))) (key2_ltb_sc (mgrx s))).
    now destruct (sort_by _ _).
  Qed.

  (* ---------------- histories ---------------- *)
  Definition op_shape (o : op num) : Prop :=
    match o with
    | Tell _ y => is_vec y = vec
    | TellMany xys _ => ys_shape xys
    | _ => True
    end.
  (* does this op take tell_many's batch path (the part left unproved)? *)
  Definition takes_batch s (o : op num) : bool :=
    match o with
    | TellMany xys force =>
        negb (negb force && negb ((length (data s) <? 2 * length xys) && (2 <? length xys)))
    | _ => false
    end.
  Fixpoint legal s (h : list (op num)) : Prop :=
    match h with
    | [] => True
    | o :: h' => op_shape o /\ takes_batch s o = false /\ legal (fst (step P s o)) h'
    end.
  Fixpoint trace (Q : params) s (h : list (op num)) : list (list num * list num) :=
    match h with
    | [] => []
    | o :: h' => snd (step Q s o) :: trace Q (fst (step Q s o)) h'
    end.

  Lemma run_cons (Q : params) s o h : run Q s (o :: h) = run Q (fst (step Q s o)) h.
  Proof. reflexivity. Qed.

  Lemma step_sc s o : Inv s -> op_shape o -> takes_batch s o = false ->
    step sc_P (sc_st s) (sc_op o) = (sc_st (fst (step P s o)), sc_out (snd (step P s o)))
    /\ Inv (fst (step P s o)).
  Proof.
    intros HI Hs Hb. destruct o as [x y|x|xys force| |n c]; cbn [L1D.step sc_op fst snd].
    - destruct (@tell_sc s x y HI Hs) as [E HI']. rewrite E. now split.
    - destruct (@tell_pending_sc s x HI) as [E HI']. rewrite E. now split.
    - unfold L1D.tell_many. cbn [takes_batch] in Hb. apply negb_false_iff in Hb.
      replace (data (sc_st s)) with (map sc_d (data s)) by reflexivity.
      rewrite !map_length, Hb.
      destruct (@fold_tell_sc xys s HI Hs) as [E HI']. rewrite E. now split.
    - destruct (remove_unfinished_sc s) as [E HI']. rewrite E. split; [reflexivity|now apply HI'].
    - destruct (@ask_sc s n c HI) as [E HI']. rewrite E. now split.
  Qed.

  Lemma run_sc h : forall s, Inv s -> legal s h ->
    run sc_P (sc_st s) (map sc_op h) = sc_st (run P s h)
    /\ trace sc_P (sc_st s) (map sc_op h) = map sc_out (trace P s h)
    /\ Inv (run P s h).
  Proof.
    induction h as [|o h IH]; intros s HI Hl; [split; [reflexivity|split; [reflexivity|exact HI]]|].
    destruct Hl as (Hs & Hb & Hl).
    destruct (@step_sc s o HI Hs Hb) as [E HI'].
    cbn [map trace]. rewrite !run_cons, E. cbn [fst snd].
    destruct (IH _ HI' Hl) as (E1 & E2 & E3). rewrite E1, E2. split; [reflexivity|split; [reflexivity|exact E3]].
  Qed.

  Lemma init_sc : init sc_P = sc_st (init P).
  Proof.
    unfold L1D.init, sc_st. cbn [lo hi sc_P data pend nb nbc los losc bbx bby sx sy osy mgrx fst snd map ymap].
    now rewrite (sx_sub SL), (sy_zero SL), (sy_inf SL), (sy_neg_inf SL).
  Qed.
  Lemma Inv_init : Inv (init P).
  Proof. split; [intros z []|split; [intros z yz []|split; [now left|intros e []]]]. Qed.

  (* The simulation theorem: for every history whose tell_many operations take
     the incremental path, the scaled learner run on the scaled history is, at
     every step, the scaled image of the original: same state up to scaling,
     every ask returns the sigma-scaled points with identical improvements,
     and loss() is identical. *)
  Theorem l1d_scale_equivariant h : legal (init P) h ->
    run sc_P (init sc_P) (map sc_op h) = sc_st (run P (init P) h)
    /\ trace sc_P (init sc_P) (map sc_op h) = map sc_out (trace P (init P) h)
    /\ forall real, loss sc_P (run sc_P (init sc_P) (map sc_op h)) real = loss P (run P (init P) h) real.
  Proof.
    intros Hl. rewrite init_sc. destruct (run_sc h Inv_init Hl) as (E1 & E2 & _).
    split; [exact E1|split; [exact E2|]]. intros real. rewrite E1. apply loss_sc.
  Qed.


  (* ================================================================== *)
  (* tell_many, batch path.  The bounding box of the values is recomputed with
     NaN-propagating minima (values.min(axis=0)); the "all values equal"
     invariant is re-established here for number structures without NaN. *)
  Notation batch_combined := (batch_combined ltb eqb inf).
  Notation np_min2 := (np_min2 ltb is_nan).
  Notation np_max2 := (np_max2 ltb is_nan).
  Notation wrap_like := (wrap_like zero).

  Definition b_data s (xys : list (num * Y)) := fold_left (fun d xy => dset (fst xy) (snd xy) d) xys (data s).
  Definition b_pend s (xys : list (num * Y)) := fold_left (fun p xy => remove (fst xy) p) xys (pend s).
  Definition b_s1 (Q : params) s (xys : list (num * Y)) : st :=
    let data' := b_data s xys in
    let pend' := b_pend s xys in
    let points := map fst data' in
    let comb := merge_sorted (length pend' + length points) pend' points in
    let bx := (pmin (lo Q) (match comb with x :: _ => x | [] => zero end), pmax (hi Q) (last_num comb zero)) in
    let ys := map snd data' in
    let y0 := match ys with y :: _ => y | [] => YS zero end in
    let mn := col_fold np_min2 ys in let mx := col_fold np_max2 ys in
    let sx' := sub (snd bx) (fst bx) in
    let sy' := arr_max (map2 sub mx mn) in
    mk data' pend' points comb [] [] bx (wrap_like y0 mn, wrap_like y0 mx) sx' sy' sy' sx'.
  Definition b_l (Q : params) s1 : list (ival * num) :=
    fold_left (fun m iv => lset iv (get_loss Q s1 (fst iv) (snd iv)) m) (pairs (nb s1)) [].
  Definition b_fin (Q : params) s3 (ti : list ival) : st :=
    fold_left (fun s iv => match lget iv (los s) with Some _ => update_interp Q s iv | None => s end) ti s3.

  Lemma tell_many_batch_eq (Q : params) s xys :
    tell_many_batch Q s xys =
    let s1 := b_s1 Q s xys in
    let l := b_l Q s1 in
    let s2 := with_los s1 l [] in
    let cb := batch_combined (pairs (nbc s1)) s2 [] [] in
    b_fin Q (with_los s2 l (fst cb)) (snd cb).
  Proof.
    unfold L1D.tell_many_batch, b_s1, b_l, b_fin, b_data, b_pend. cbv zeta. cbn [nb nbc].
    match goal with |- context [let '(lc, ti) := ?bc in _] => destruct bc as [lc ti] end.
    reflexivity.
  Qed.

  Lemma fold_dset_sc (xys : list (num * Y)) (d : list (num * Y)) :
    fold_left (fun d xy => dset (fst xy) (snd xy) d) (map sc_d xys) (map sc_d d)
    = map sc_d (fold_left (fun d xy => dset (fst xy) (snd xy) d) xys d).
  Proof.
    revert d; induction xys as [|[x y] xys IH]; intros d; cbn [fold_left map sc_d fst snd]; [reflexivity|].
    now rewrite dset_sc, IH.
  Qed.
  Lemma fold_remove_sc (xys : list (num * Y)) (p : list num) :
    fold_left (fun p xy => remove (fst xy) p) (map sc_d xys) (map sx_ p)
    = map sx_ (fold_left (fun p xy => remove (fst xy) p) xys p).
  Proof.
    revert p; induction xys as [|[x y] xys IH]; intros p; cbn [fold_left map sc_d fst snd]; [reflexivity|].
    now rewrite remove_sc, IH.
  Qed.

  Lemma np_min2_sy a b : np_min2 (sy_ a) (sy_ b) = sy_ (np_min2 a b).
  Proof. unfold L1D.np_min2. rewrite !(sy_is_nan SL), (sy_ltb SL). destruct (is_nan a), (is_nan b), (ltb b a); reflexivity. Qed.
  Lemma np_max2_sy a b : np_max2 (sy_ a) (sy_ b) = sy_ (np_max2 a b).
  Proof. unfold L1D.np_max2. rewrite !(sy_is_nan SL), (sy_ltb SL). destruct (is_nan a), (is_nan b), (ltb a b); reflexivity. Qed.

  Lemma y_components_sc y : y_components (ymap sy_ y) = map sy_ (y_components y).
  Proof. now destruct y. Qed.

  Lemma col_fold_sc (f : num -> num -> num) (H : forall a b, f (sy_ a) (sy_ b) = sy_ (f a b)) (ys : list Y) :
    col_fold f (map (ymap sy_) ys) = map sy_ (col_fold f ys).
  Proof.
    destruct ys as [|y ys]; [reflexivity|]. unfold L1D.col_fold. cbn [map]. rewrite y_components_sc.
    generalize (y_components y) as acc. induction ys as [|y' ys IH]; intros acc; cbn [fold_left map]; [reflexivity|].
    rewrite y_components_sc, (map2_map f sy_ H). apply IH.
  Qed.

  Lemma wrap_like_sc y (m : list num) : wrap_like (ymap sy_ y) (map sy_ m) = ymap sy_ (wrap_like y m).
  Proof. destruct y, m; cbn [L1D.wrap_like ymap map]; try reflexivity. now rewrite (sy_zero SL). Qed.

  Lemma last_num_sc0 l : last_num (map sx_ l) zero = sx_ (last_num l zero).
  Proof. rewrite <- (sx_zero SL) at 1. apply last_num_sc. Qed.

  Lemma b_s1_sc s xys : b_s1 sc_P (sc_st s) (map sc_d xys) = sc_st (b_s1 P s xys).
  Proof.
    unfold b_s1, b_data, b_pend. cbv zeta.
    replace (data (sc_st s)) with (map sc_d (data s)) by reflexivity.
    replace (pend (sc_st s)) with (map sx_ (pend s)) by reflexivity.
    rewrite fold_dset_sc, fold_remove_sc.
    set (d' := fold_left _ xys (data s)). set (p' := fold_left _ xys (pend s)).
    replace (map fst (map sc_d d')) with (map sx_ (map fst d')) by (now rewrite !map_map).
    replace (map snd (map sc_d d')) with (map (ymap sy_) (map snd d')) by (now rewrite !map_map).
    rewrite !map_length, merge_sorted_sc.
    set (comb := merge_sorted _ p' (map fst d')).
    rewrite (col_fold_sc _ np_min2_sy), (col_fold_sc _ np_max2_sy).
    replace (match map (ymap sy_) (map snd d') with y :: _ => y | [] => YS zero end)
      with (ymap sy_ (match map snd d' with y :: _ => y | [] => YS zero end))
      by (destruct (map snd d'); cbn [map ymap]; [now rewrite (sy_zero SL)|reflexivity]).
    rewrite !wrap_like_sc, (map2_map _ _ (sy_sub SL)), arr_max_sy.
    replace (match map sx_ comb with x :: _ => x | [] => zero end)
      with (sx_ (match comb with x :: _ => x | [] => zero end))
      by (destruct comb; cbn [map]; [apply (sx_zero SL)|reflexivity]).
    rewrite last_num_sc0. cbn [lo hi sc_P]. rewrite pmin_sx, pmax_sx. cbn [fst snd]. rewrite (sx_sub SL). reflexivity.
  Qed.

  Lemma b_l_sc s1 : Inv s1 -> b_l sc_P (sc_st s1) = map sc_e (b_l P s1).
  Proof.
    intros HI. unfold b_l. replace (nb (sc_st s1)) with (map sx_ (nb s1)) by reflexivity.
    rewrite pairs_sc. change (@nil (ival * num)) with (map sc_e []) at 1.
    generalize (@nil (ival * num)) as m. generalize (pairs (nb s1)) as ivs.
    induction ivs as [|iv ivs IH]; intros m; cbn [fold_left map]; [reflexivity|].
    change (fst (sc_iv iv)) with (sx_ (fst iv)). change (snd (sc_iv iv)) with (sx_ (snd iv)).
    rewrite (get_loss_sc (fst iv) (snd iv) HI), lset_sc. apply IH.
  Qed.

  Lemma batch_combined_sc (ivs : list ival) s (lc : list (ival * num)) (ti : list ival) :
    batch_combined (map sc_iv ivs) (sc_st s) (map sc_e lc) (map sc_iv ti)
    = (map sc_e (fst (batch_combined ivs s lc ti)), map sc_iv (snd (batch_combined ivs s lc ti))).
  Proof.
    revert lc ti; induction ivs as [|iv ivs IH]; intros lc ti; cbn [L1D.batch_combined map fst snd].
    - now rewrite map_rev.
    - replace (los (sc_st s)) with (map sc_e (los s)) by reflexivity.
      replace (nb (sc_st s)) with (map sx_ (nb s)) by reflexivity.
      rewrite lget_sc. destruct (lget iv (los s)) as [v|].
      + rewrite lset_sc. apply IH.
      + rewrite lset_sc.
        destruct ti as [|[a b] rest]; cbn [map].
        * apply (IH _ [iv]).
        * change (sc_iv (a, b)) with (sx_ a, sx_ b). change (fst (sc_iv iv)) with (sx_ (fst iv)).
          change (snd (sc_iv iv)) with (sx_ (snd iv)). cbv iota beta. rewrite (sx_eqb SL), mem_sc.
          destruct (eqb b (fst iv) && negb (mem b (nb s))).
          -- apply (IH _ ((a, snd iv) :: rest)).
          -- apply (IH _ (iv :: (a, b) :: rest)).
  Qed.

  Lemma b_fin_sc ti s3 : Inv s3 ->
    b_fin sc_P (sc_st s3) (map sc_iv ti) = sc_st (b_fin P s3 ti) /\ same_core s3 (b_fin P s3 ti).
  Proof.
    unfold b_fin. revert s3; induction ti as [|iv ti IH]; intros s3 HI; cbn [fold_left map].
    - split; [reflexivity|apply same_core_refl].
    - replace (los (sc_st s3)) with (map sc_e (los s3)) by reflexivity. rewrite lget_sc.
      destruct (lget iv (los s3)).
      + rewrite (update_interp_sc iv HI).
        assert (HI' : Inv (update_interp P s3 iv)) by (eapply Inv_core; [apply update_interp_core|exact HI]).
        destruct (IH _ HI') as [E C]. split; [exact E|].
        eapply same_core_trans; [apply update_interp_core|exact C].
      + now apply IH.
  Qed.

  Lemma tell_many_batch_sc s xys : Inv (b_s1 P s xys) ->
    tell_many_batch sc_P (sc_st s) (map sc_d xys) = sc_st (tell_many_batch P s xys)
    /\ Inv (tell_many_batch P s xys).
  Proof.
    intros HI1. rewrite !tell_many_batch_eq. cbv zeta. rewrite b_s1_sc.
    set (s1 := b_s1 P s xys) in *.
    rewrite (b_l_sc HI1).
    set (l := b_l P s1).
    change (with_los (sc_st s1) (map sc_e l) []) with (sc_st (with_los s1 l [])).
    set (s2 := with_los s1 l []).
    replace (nbc (sc_st s1)) with (map sx_ (nbc s1)) by reflexivity.
    rewrite pairs_sc.
    pose proof (batch_combined_sc (pairs (nbc s1)) s2 [] []) as B. cbn [map] in B. rewrite B. cbn [fst snd].
    set (cb := batch_combined (pairs (nbc s1)) s2 [] []).
    rewrite with_los_sc.
    assert (HI3 : Inv (with_los s2 l (fst cb))).
    { eapply Inv_core; [|exact HI1]. repeat split. }
    destruct (b_fin_sc (snd cb) HI3) as [E C]. split; [exact E|].
    eapply Inv_core; [exact C|exact HI3].
  Qed.

  (* ---- the invariant after the batch path, for number structures without NaN ---- *)
  Hypothesis NoNaN : forall a, is_nan a = false.

  Lemma np_min2_pmin a b : np_min2 a b = pmin a b.
  Proof. unfold L1D.np_min2, L1D.pmin. now rewrite !NoNaN. Qed.
  Lemma np_max2_pmax a b : np_max2 a b = pmax a b.
  Proof. unfold L1D.np_max2, L1D.pmax. now rewrite !NoNaN. Qed.
  Lemma absc_iff a b w : absc a b w <-> ltb w a = false /\ ltb b w = false.
  Proof.
    unfold absc. rewrite !NoNaN. split.
    - intros [H|(_ & _ & H1 & H2)]; [discriminate|now split].
    - intros [H1 H2]. right. now repeat split.
  Qed.
  Lemma absc_keep2 a b v w : absc a b w -> absc (np_min2 a v) (np_max2 b v) w.
  Proof.
    rewrite !absc_iff, np_min2_pmin, np_max2_pmax. intros [H1 H2].
    split; [now apply ltb_pmin_keep|now apply ltb_pmax_keep].
  Qed.
  Lemma absc_new2 a b v : absc (np_min2 a v) (np_max2 b v) v.
  Proof. rewrite absc_iff, np_min2_pmin, np_max2_pmax. split; [apply ltb_pmin_new|apply ltb_pmax_new]. Qed.
  Lemma absv_keep2 mn mx vs ws : absv mn mx ws -> absv (map2 np_min2 mn vs) (map2 np_max2 mx vs) ws.
  Proof.
    revert mx vs ws; induction mn as [|a mn IH]; intros [|b mx] [|v vs] [|w ws]; cbn [absv L1D.map2]; auto.
    intros [H1 H2]. split; [now apply absc_keep2|now apply IH].
  Qed.
  Lemma absv_new2 mn mx vs : absv (map2 np_min2 mn vs) (map2 np_max2 mx vs) vs.
  Proof.
    revert mx vs; induction mn as [|a mn IH]; intros [|b mx] [|v vs]; cbn [absv L1D.map2]; auto.
    split; [apply absc_new2|apply IH].
  Qed.

  Definition cf (f : num -> num -> num) (acc : list num) (rest : list Y) : list num :=
    fold_left (fun acc y' => map2 f acc (y_components y')) rest acc.
  Lemma col_fold_cf f y (ys : list Y) : col_fold f (y :: ys) = cf f (y_components y) ys.
  Proof. reflexivity. Qed.

  Lemma col_keep (rest : list Y) mn mx ws :
    absv mn mx ws -> absv (cf np_min2 mn rest) (cf np_max2 mx rest) ws.
  Proof.
    revert mn mx; induction rest as [|y rest IH]; intros mn mx H; cbn [cf fold_left]; [exact H|].
    apply IH. now apply absv_keep2.
  Qed.
  Lemma col_new (rest : list Y) mn mx y :
    In y rest -> absv (cf np_min2 mn rest) (cf np_max2 mx rest) (y_components y).
  Proof.
    revert mn mx; induction rest as [|y' rest IH]; intros mn mx; [intros []|].
    intros [H|H]; cbn [cf fold_left].
    - subst y'. apply col_keep. apply absv_new2.
    - now apply IH.
  Qed.
  Lemma col_fold_abs (ys : list Y) y :
    In y ys -> absv (col_fold np_min2 ys) (col_fold np_max2 ys) (y_components y).
  Proof.
    destruct ys as [|y0 ys]; [intros []|]. rewrite !col_fold_cf. intros [H|H].
    - subst y0. apply col_keep. apply absv_self.
    - now apply col_new.
  Qed.

  Lemma cf_scalar f (rest : list Y) a :
    (forall y, In y rest -> is_vec y = false) -> exists m, cf f [a] rest = [m].
  Proof.
    revert a; induction rest as [|y rest IH]; intros a H; cbn [cf fold_left]; [now exists a|].
    destruct y as [v|vs]; [|now specialize (H (YV vs) (or_introl eq_refl))].
    cbn [y_components L1D.map2]. apply IH. intros y Hy. apply H. now right.
  Qed.

  Lemma dget_In z (d : list (num * Y)) yz : dget z d = Some yz -> exists k, In (k, yz) d.
  Proof.
    induction d as [|[k v] d IH]; cbn [L1D.dget]; [discriminate|].
    destruct (eqb z k).
    - intros [= <-]. exists k. now left.
    - intros H. destruct (IH H) as [k' Hk]. exists k'. now right.
  Qed.
  Lemma dget_fst_ne z (d : list (num * Y)) : In z (map fst d) -> dget z d <> None.
  Proof.
    induction d as [|[k v] d IH]; cbn [L1D.dget map fst In]; [intros []|].
    intros [H|H].
    - subst k. now rewrite (eqb_refl OL).
    - destruct (eqb z k); [discriminate|now apply IH].
  Qed.
  Lemma In_fold_dset e (xys d : list (num * Y)) :
    In e (fold_left (fun d xy => dset (fst xy) (snd xy) d) xys d) -> In e d \/ In e xys.
  Proof.
    revert d; induction xys as [|[x y] xys IH]; intros d; cbn [fold_left fst snd]; [auto|].
    intros H. destruct (IH _ H) as [H'|H']; [|right; now right].
    destruct (In_dset _ _ _ _ H') as [->|H'']; [right; now left|now left].
  Qed.

  Lemma Inv_b_s1 s xys : Inv s -> ys_shape xys -> Inv (b_s1 P s xys).
  Proof.
    intros (_ & _ & _ & H4) Hs.
    assert (Hshape : forall e, In e (b_data s xys) -> is_vec (snd e) = vec).
    { intros e He. destruct (In_fold_dset _ _ _ He) as [H|H]; [now apply H4|now apply Hs]. }
    unfold Inv, b_s1. cbv zeta. cbn [nb data bby sy].
    set (d' := b_data s xys) in *.
    assert (Hys : forall y, In y (map snd d') -> is_vec y = vec).
    { intros y Hy. apply in_map_iff in Hy. destruct Hy as [e [<- He]]. now apply Hshape. }
    split; [|split; [|split; [|exact Hshape]]].
    - intros z Hz. now apply dget_fst_ne.
    - intros z yz _ Hd. destruct (dget_In _ _ Hd) as [k Hk].
      assert (Hin : In yz (map snd d')) by (apply in_map_iff; exists (k, yz); now split).
      pose proof (col_fold_abs _ _ Hin) as Habs.
      destruct (map snd d') as [|y0 ys] eqn:Eys; [destruct Hin|].
      pose proof (Hys y0 (or_introl eq_refl)) as Hv0. pose proof (Hys yz Hin) as Hvz.
      destruct y0 as [v0|vs0], yz as [w|ws]; cbn [is_vec] in Hv0, Hvz; try congruence.
      + destruct (@cf_scalar np_min2 ys v0) as [m1 E1].
        { intros y Hy. rewrite (Hys y (or_intror Hy)). now rewrite <- Hv0. }
        destruct (@cf_scalar np_max2 ys v0) as [m2 E2].
        { intros y Hy. rewrite (Hys y (or_intror Hy)). now rewrite <- Hv0. }
        rewrite !col_fold_cf in *. cbn [y_components] in *. rewrite E1, E2 in *.
        cbn [L1D.wrap_like absorbed spread L1D.map2 L1D.arr_max L1D.npmax absv] in *.
        split; [|reflexivity]. now apply absc_iff.
      + cbn [L1D.wrap_like absorbed spread y_components] in *. split; [exact Habs|reflexivity].
    - destruct d' as [|[k0 y0] d'']; [now left|right]. cbn [map snd].
      assert (is_vec y0 = vec) as <- by (apply (Hys y0); now left).
      now destruct y0.
  Qed.

  (* ---------------- all histories ---------------- *)
  Fixpoint shaped (h : list (op num)) : Prop :=
    match h with [] => True | o :: h' => op_shape o /\ shaped h' end.

  Lemma step_sc_full s o : Inv s -> op_shape o ->
    step sc_P (sc_st s) (sc_op o) = (sc_st (fst (step P s o)), sc_out (snd (step P s o)))
    /\ Inv (fst (step P s o)).
  Proof.
    intros HI Hs. destruct (takes_batch s o) eqn:Hb; [|now apply step_sc].
    destruct o as [x y|x|xys force| |n c]; try discriminate.
    cbn [L1D.step sc_op fst snd]. unfold L1D.tell_many. cbn [takes_batch] in Hb. apply negb_true_iff in Hb.
    replace (data (sc_st s)) with (map sc_d (data s)) by reflexivity.
    rewrite !map_length, Hb.
    destruct (@tell_many_batch_sc s xys (@Inv_b_s1 s xys HI Hs)) as [E HI']. rewrite E. now split.
  Qed.

  Lemma run_sc_full h : forall s, Inv s -> shaped h ->
    run sc_P (sc_st s) (map sc_op h) = sc_st (run P s h)
    /\ trace sc_P (sc_st s) (map sc_op h) = map sc_out (trace P s h)
    /\ Inv (run P s h).
  Proof.
    induction h as [|o h IH]; intros s HI Hl; [split; [reflexivity|split; [reflexivity|exact HI]]|].
    destruct Hl as (Hs & Hl).
    destruct (@step_sc_full s o HI Hs) as [E HI'].
    cbn [map trace]. rewrite !run_cons, E. cbn [fst snd].
    destruct (IH _ HI' Hl) as (E1 & E2 & E3). rewrite E1, E2. split; [reflexivity|split; [reflexivity|exact E3]].
  Qed.

  (* The full statement, for number structures without NaN: every history in
     which the learnt function returns either always scalars or always vectors. *)
  Theorem l1d_scale_equivariant_full h : shaped h ->
    run sc_P (init sc_P) (map sc_op h) = sc_st (run P (init P) h)
    /\ trace sc_P (init sc_P) (map sc_op h) = map sc_out (trace P (init P) h)
    /\ forall real, loss sc_P (run sc_P (init sc_P) (map sc_op h)) real = loss P (run P (init P) h) real.
  Proof.
    intros Hl. rewrite init_sc. destruct (run_sc_full h Inv_init Hl) as (E1 & E2 & _).
    split; [exact E1|split; [exact E2|]]. intros real. rewrite E1. apply loss_sc.
  Qed.

End Scale.
