(* Interval-keyed association lists of the Learner1D model (losses,
   losses_combined): functional specifications of lget / lset / lpop. *)
From AV Require Import Base.Prelude Model.L1D Proofs.L1DOrder.
From Coq Require Import Sorted.
Set Implicit Arguments.

Section Maps.
  Variable num : Type.
  Variables (ltb eqb : num -> num -> bool).
  Hypothesis OL : OrdLaws ltb eqb.

  Notation ival := (num * num)%type.
  Notation ival_eqb := (@ival_eqb num eqb).
  Notation ival_ltb := (@ival_ltb num ltb eqb).
  Notation lget := (@lget num eqb).
  Notation lset := (@lset num ltb eqb).
  Notation lpop := (@lpop num eqb).
  Notation lt := (lt ltb).

  Definition ilt (i j : ival) : Prop := ival_ltb i j = true.
  Definition keys (m : list (ival * num)) : list ival := map fst m.
  Definition ksorted (m : list (ival * num)) : Prop := StronglySorted ilt (keys m).

  Lemma ival_eqb_eq i j : ival_eqb i j = true <-> i = j.
  Proof.
    destruct i as [a b], j as [c d]. unfold L1D.ival_eqb; cbn [fst snd].
    rewrite andb_true_iff, !(eqb_eq OL). split; [intros [-> ->]; reflexivity|intros H; inversion H; auto].
  Qed.
  Lemma ival_eqb_refl i : ival_eqb i i = true.
  Proof. apply ival_eqb_eq. reflexivity. Qed.
  Lemma ival_eqb_neq i j : ival_eqb i j = false <-> i <> j.
  Proof.
    split.
    - intros H E. apply ival_eqb_eq in E. congruence.
    - intros H. destruct (ival_eqb i j) eqn:E; [|reflexivity]. apply ival_eqb_eq in E. contradiction.
  Qed.
  Lemma ival_eqb_sym i j : ival_eqb i j = ival_eqb j i.
  Proof.
    destruct (ival_eqb i j) eqn:E1, (ival_eqb j i) eqn:E2; try reflexivity.
    - apply ival_eqb_eq in E1. subst. rewrite ival_eqb_refl in E2. discriminate.
    - apply ival_eqb_eq in E2. subst. rewrite ival_eqb_refl in E1. discriminate.
  Qed.

  Lemma ilt_spec i j : ilt i j <-> lt (fst i) (fst j) \/ (fst i = fst j /\ lt (snd i) (snd j)).
  Proof.
    unfold ilt, L1D.ival_ltb, L1DOrder.lt. rewrite orb_true_iff, andb_true_iff, (eqb_eq OL). tauto.
  Qed.
  Lemma ilt_irrefl i : ~ ilt i i.
  Proof. rewrite ilt_spec. intros [H|[_ H]]; exact (lt_irrefl OL H). Qed.
  Lemma ilt_trans i j k : ilt i j -> ilt j k -> ilt i k.
  Proof.
    rewrite !ilt_spec. intros [H1|[E1 H1]] [H2|[E2 H2]].
    - left. eapply lt_trans; eauto.
    - left. rewrite <- E2. exact H1.
    - left. rewrite E1. exact H2.
    - right. split; [congruence|eapply lt_trans; eauto].
  Qed.
  Lemma ilt_total i j : ilt i j \/ i = j \/ ilt j i.
  Proof.
    destruct i as [a b], j as [c d]. rewrite !ilt_spec; cbn [fst snd].
    destruct (trichotomy OL a c) as [H|[->|H]]; [tauto| |tauto].
    destruct (trichotomy OL b d) as [H|[->|H]]; tauto.
  Qed.
  Lemma ilt_false i j : ival_ltb i j = false -> i = j \/ ilt j i.
  Proof. intros H. destruct (ilt_total i j) as [H'|H']; [unfold ilt in H'; congruence|exact H']. Qed.

  Lemma In_dec_ival (i : ival) (l : list ival) : In i l \/ ~ In i l.
  Proof.
    induction l as [|j l IH]; [right; intros []|].
    destruct (ival_eqb i j) eqn:E.
    - apply ival_eqb_eq in E. left; left; congruence.
    - apply ival_eqb_neq in E. destruct IH as [H|H]; [left; right; exact H|right; intros [H'|H']; [congruence|contradiction]].
  Qed.

  (* ---------------- lget / lset ---------------- *)
  Lemma lget_lset i v m j : lget j (lset i v m) = if ival_eqb j i then Some v else lget j m.
  Proof.
    induction m as [|[k w] m IH]; cbn [L1D.lset L1D.lget].
    - destruct (ival_eqb j i); reflexivity.
    - destruct (ival_ltb i k) eqn:E1; [cbn [L1D.lget]; destruct (ival_eqb j i); reflexivity|].
      destruct (ival_eqb i k) eqn:E2.
      + apply ival_eqb_eq in E2. subst k. cbn [L1D.lget]. destruct (ival_eqb j i); reflexivity.
      + cbn [L1D.lget]. rewrite IH. destruct (ival_eqb j k) eqn:E3; [|reflexivity].
        apply ival_eqb_eq in E3. subst k. rewrite ival_eqb_sym, E2. reflexivity.
  Qed.

  Lemma keys_lset i v m k : In k (keys (lset i v m)) <-> k = i \/ In k (keys m).
  Proof.
    unfold keys. induction m as [|[k' w] m IH]; cbn [L1D.lset map fst In].
    - intuition.
    - destruct (ival_ltb i k') eqn:E1; [cbn [map fst In]; intuition|].
      destruct (ival_eqb i k') eqn:E2.
      + apply ival_eqb_eq in E2. subst k'. cbn [map fst In]. intuition.
      + cbn [map fst In]. rewrite IH. intuition.
  Qed.

  Lemma ksorted_inv k w m : ksorted ((k, w) :: m) -> ksorted m /\ Forall (ilt k) (keys m).
  Proof. unfold ksorted, keys; cbn [map fst]. intros H; inversion H; auto. Qed.

  Lemma lset_ksorted i v m : ksorted m -> ksorted (lset i v m).
  Proof.
    induction m as [|[k w] m IH]; cbn [L1D.lset]; intros H.
    - unfold ksorted, keys; cbn. constructor; constructor.
    - destruct (ival_ltb i k) eqn:E1.
      + unfold ksorted, keys in *; cbn [map fst] in *. constructor; [exact H|].
        constructor; [exact E1|]. inversion H as [|? ? _ Hf]; subst.
        apply Forall_impl with (P := ilt k); [intros a Ha; eapply ilt_trans; eauto|exact Hf].
      + destruct (ival_eqb i k) eqn:E2.
        * apply ival_eqb_eq in E2. subst k. exact H.
        * pose proof (ksorted_inv H) as [Hs Hf].
          unfold ksorted, keys; cbn [map fst]. constructor; [apply IH; exact Hs|].
          apply Forall_forall. intros a Ha. apply keys_lset in Ha as [->|Ha].
          -- destruct (ilt_false _ _ E1) as [->|Hl]; [rewrite ival_eqb_refl in E2; discriminate|exact Hl].
          -- rewrite Forall_forall in Hf. auto.
  Qed.

  Lemma lget_None m i : lget i m = None <-> ~ In i (keys m).
  Proof.
    unfold keys. induction m as [|[k w] m IH]; cbn [L1D.lget map fst In]; [tauto|].
    destruct (ival_eqb i k) eqn:E.
    - apply ival_eqb_eq in E. subst. split; [discriminate|tauto].
    - apply ival_eqb_neq in E. rewrite IH. intuition.
  Qed.
  Lemma lget_Some_In m i v : lget i m = Some v -> In i (keys m).
  Proof.
    unfold keys. induction m as [|[k w] m IH]; cbn [L1D.lget map fst In]; [discriminate|].
    destruct (ival_eqb i k) eqn:E; [apply ival_eqb_eq in E; subst; tauto|]. intros H. right. auto.
  Qed.

  (* ---------------- lpop ---------------- *)
  Lemma lget_lpop i m j : ksorted m ->
    lget j (lpop i m) = if ival_eqb j i then None else lget j m.
  Proof.
    induction m as [|[k w] m IH]; cbn [L1D.lpop L1D.lget]; intros Hs.
    - destruct (ival_eqb j i); reflexivity.
    - pose proof (ksorted_inv Hs) as [Hs' Hf]. destruct (ival_eqb i k) eqn:E1.
      + apply ival_eqb_eq in E1. subst k. destruct (ival_eqb j i) eqn:E2; [|reflexivity].
        apply ival_eqb_eq in E2. subst j. apply lget_None. intros Hin.
        rewrite Forall_forall in Hf. exact (ilt_irrefl (Hf _ Hin)).
      + cbn [L1D.lget]. rewrite (IH Hs'). destruct (ival_eqb j k) eqn:E2; [|reflexivity].
        apply ival_eqb_eq in E2. subst k. rewrite ival_eqb_sym, E1. reflexivity.
  Qed.

  Lemma keys_lpop_incl i m k : In k (keys (lpop i m)) -> In k (keys m).
  Proof.
    unfold keys. induction m as [|[k' w] m IH]; cbn [L1D.lpop map fst In]; [tauto|].
    destruct (ival_eqb i k'); cbn [map fst In]; intuition.
  Qed.

  Lemma lpop_ksorted i m : ksorted m -> ksorted (lpop i m).
  Proof.
    induction m as [|[k w] m IH]; cbn [L1D.lpop]; intros H; [exact H|].
    pose proof (ksorted_inv H) as [Hs Hf]. destruct (ival_eqb i k); [exact Hs|].
    unfold ksorted, keys; cbn [map fst]. constructor; [apply IH; exact Hs|].
    apply Forall_forall. intros a Ha. apply keys_lpop_incl in Ha. rewrite Forall_forall in Hf. auto.
  Qed.

  Lemma In_keys_lget m k : In k (keys m) <-> lget k m <> None.
  Proof.
    split.
    - intros Hin Hn. apply lget_None in Hn. contradiction.
    - intros Hn. destruct (lget k m) eqn:E; [eapply lget_Some_In; eauto|congruence].
  Qed.

  Lemma keys_lpop i m k : ksorted m -> (In k (keys (lpop i m)) <-> In k (keys m) /\ k <> i).
  Proof.
    intros Hs. rewrite !In_keys_lget, (lget_lpop i k Hs).
    destruct (ival_eqb k i) eqn:E.
    - apply ival_eqb_eq in E. subst. split; [congruence|tauto].
    - apply ival_eqb_neq in E. tauto.
  Qed.

  Lemma In_lget m k v : ksorted m -> In (k, v) m -> lget k m = Some v.
  Proof.
    induction m as [|[k' w] m IH]; intros Hs Hin; [destruct Hin|].
    pose proof (ksorted_inv Hs) as [Hs' Hf]. cbn [L1D.lget].
    destruct Hin as [E|Hin].
    - inversion E; subst. rewrite ival_eqb_refl. reflexivity.
    - destruct (ival_eqb k k') eqn:E; [|apply IH; assumption].
      apply ival_eqb_eq in E. subst k'. exfalso. rewrite Forall_forall in Hf.
      apply (@ilt_irrefl k). apply Hf. unfold keys. apply in_map_iff. exists (k, v). split; [reflexivity|exact Hin].
  Qed.

  (* two key-sorted maps with the same lookups are equal *)
  Lemma ksorted_ext m1 : forall m2, ksorted m1 -> ksorted m2 ->
    (forall i, lget i m1 = lget i m2) -> m1 = m2.
  Proof.
    induction m1 as [|[k1 w1] m1 IH]; intros [|[k2 w2] m2] H1 H2 Hx.
    - reflexivity.
    - specialize (Hx k2). cbn [L1D.lget] in Hx. rewrite ival_eqb_refl in Hx. discriminate.
    - specialize (Hx k1). cbn [L1D.lget] in Hx. rewrite ival_eqb_refl in Hx. discriminate.
    - pose proof (ksorted_inv H1) as [Hs1 Hf1]. pose proof (ksorted_inv H2) as [Hs2 Hf2].
      rewrite Forall_forall in Hf1, Hf2.
      assert (Hk : k1 = k2).
      { destruct (ilt_total k1 k2) as [Hl|[E|Hl]]; [|exact E|]; exfalso.
        - pose proof (Hx k1) as Hx1. cbn [L1D.lget] in Hx1. rewrite ival_eqb_refl in Hx1.
          destruct (ival_eqb k1 k2) eqn:E; [apply ival_eqb_eq in E; subst; exact (ilt_irrefl Hl)|].
          symmetry in Hx1. assert (Hin : In k1 (keys m2)).
          { eapply lget_Some_In. exact Hx1. }
          exact (ilt_irrefl (ilt_trans Hl (Hf2 _ Hin))).
        - pose proof (Hx k2) as Hx2. cbn [L1D.lget] in Hx2. rewrite ival_eqb_refl in Hx2.
          destruct (ival_eqb k2 k1) eqn:E; [apply ival_eqb_eq in E; subst; exact (ilt_irrefl Hl)|].
          assert (Hin : In k2 (keys m1)).
          { eapply lget_Some_In. exact Hx2. }
          exact (ilt_irrefl (ilt_trans Hl (Hf1 _ Hin))). }
      subst k2. pose proof (Hx k1) as Hx1. cbn [L1D.lget] in Hx1. rewrite ival_eqb_refl in Hx1.
      inversion Hx1; subst w2. f_equal. apply IH; auto.
      intros i. specialize (Hx i). cbn [L1D.lget] in Hx. destruct (ival_eqb i k1) eqn:E; [|exact Hx].
      apply ival_eqb_eq in E. subst i.
      transitivity (@None num); [|symmetry]; apply lget_None; intros Hin.
      + exact (ilt_irrefl (Hf1 _ Hin)).
      + exact (ilt_irrefl (Hf2 _ Hin)).
  Qed.
End Maps.
