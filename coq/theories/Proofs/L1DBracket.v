(* The numeric reading of the bounding-box invariant of Proofs/L1DValues.v /
   L1DBatch.v (C01, "the output normalisation is never more than the
   recomputation factor out of date, exact when the factor is 1"):
   every stored loss is the loss function on the current data at a y-scale g
   with   osy <= g <= sy   and   (sy = osy  or  not factor * osy < sy),
   where sy is the current y-scale and osy the one of the last full
   recomputation.  Needs, beyond the order laws, that the width of a box grows
   with the box ([SubLaws]); scalar outputs. *)
From Coq Require Import ZArith Lia.
From AV Require Import Base.Prelude Model.L1D Proofs.L1DOrder Proofs.L1DMaps Proofs.L1DStruct
  Proofs.L1DLoss Proofs.L1DValues Proofs.L1DBatch.
Set Implicit Arguments.

Section Bracket.
  Variable num : Type.
  Variables (add sub mul div : num -> num -> num).
  Variables (ltb eqb : num -> num -> bool).
  Variables (zero one inf neg_inf : num).
  Variables (is_nan is_inf : num -> bool).
  Variable round12 : num -> num.
  Variable of_nat : nat -> num.
  Variable L : list (option num) -> list (option (Y num)) -> num.
  Variable P : params num.
  Hypothesis OL : OrdLaws ltb eqb.

  Notation st := (st num).
  Notation le := (le ltb).
  Notation lget := (@lget num eqb).
  Notation keys := (@keys num).
  Notation loss_of := (@loss_of num sub div ltb eqb zero one L P).
  Notation get_loss := (@get_loss num sub div ltb eqb zero one L P).
  Notation ScaleOK := (@ScaleOK num mul ltb P).
  Notation run := (@run num add sub mul div ltb eqb zero one inf neg_inf is_nan is_inf round12 of_nat L P).
  Notation init := (@init num sub zero inf neg_inf P).
  Notation legal := (@L1DBatch.legal num add sub mul div ltb eqb zero one inf neg_inf is_nan is_inf round12 of_nat L P).
  Notation scalar_op := (@scalar_op num).
  Notation BFull := (@BFull num sub mul div ltb eqb zero one L P).

  (* the width of a box is monotone in the box and not negative *)
  Record SubLaws : Prop := {
    sub_mono : forall a a' b b', le a' a -> le b b' -> le (sub b a) (sub b' a');
    sub_nonneg : forall a b, le a b -> le zero (sub b a)
  }.

  Lemma bfull_init : BFull init.
  Proof.
    split; [apply (inv_init add sub mul div ltb eqb zero one inf neg_inf is_nan is_inf round12 L P)|apply binv_init].
  Qed.

  Theorem scale_bracket : SubLaws -> forall h,
    legal init h = true -> forallb scalar_op h = true ->
    let s := run init h in
    ScaleOK s (sy s) /\
    forall iv, In iv (keys (los s)) -> exists g,
      lget iv (los s) = Some (loss_of (nb s) (data s) (sx s) g (fst iv) (snd iv)) /\
      le (osy s) g /\ le g (sy s).
  Proof.
    intros SL h Hl Hs s.
    destruct (@bracket_inv num add sub mul div ltb eqb zero one inf neg_inf is_nan is_inf round12 of_nat L P OL h init bfull_init Hl Hs)
      as [[HI _] [b0 [b1 [ob [Hby [Hds [Hsy [Hob [Hsc Hvals]]]]]]]]].
    fold s in HI, Hby, Hds, Hsy, Hob, Hsc, Hvals.
    split; [exact Hsc|]. intros iv Hk.
    destruct (Hvals iv Hk) as [m0 [m1 [H1 [H2 [H3 H4]]]]].
    exists (sub m1 m0). split; [exact H4|].
    assert (Hsy' : sy s = sub b1 b0).
    { destruct Hsy as [Hd|Hd]; [|exact Hd]. exfalso. destruct iv as [a b].
      apply (s_los_keys HI) in Hk. destruct Hk as [Ha _]. cbn [fst] in Ha.
      apply (s_real HI) in Ha. rewrite Hd in Ha. apply Ha. reflexivity. }
    split.
    - destruct ob as [[o0 o1]|]; cbn [Nest] in H3.
      + destruct Hob as [-> _]. destruct H3 as [H3 H3']. apply (sub_mono SL); assumption.
      + rewrite Hob. apply (sub_nonneg SL). exact H3.
    - rewrite Hsy'. apply (sub_mono SL); assumption.
  Qed.

  Lemma le_antisym a b : le a b -> le b a -> a = b.
  Proof.
    unfold L1DValues.le. intros H1 H2. destruct (trichotomy OL a b) as [H|[H|H]]; [|exact H|];
      unfold L1DOrder.lt in H; congruence.
  Qed.

  (* with the factor equal to the unit the table is exact: every stored loss
     is the loss function on the current data at the CURRENT scale *)
  Theorem factor1_exact : SubLaws -> (forall x, mul (factor P) x = x) -> forall h,
    legal init h = true -> forallb scalar_op h = true ->
    let s := run init h in
    forall iv, In iv (keys (los s)) -> lget iv (los s) = Some (get_loss s (fst iv) (snd iv)).
  Proof.
    intros SL Hone h Hl Hs s iv Hk.
    destruct (scale_bracket SL h Hl Hs) as [Hsc Hv]. fold s in Hsc, Hv.
    destruct (Hv iv Hk) as [g [Hval [Hlo Hhi]]].
    assert (Hg : g = sy s).
    { apply le_antisym; [exact Hhi|]. destruct Hsc as [E|E].
      - rewrite E. exact Hlo.
      - rewrite Hone in E. eapply (le_trans OL); [exact E|exact Hlo]. }
    rewrite Hval, Hg. reflexivity.
  Qed.

  (* ---------------- vector outputs of length k, no NaN ---------------- *)
  Notation lle := (lle ltb).
  Notation scv := (@scv num sub ltb zero is_nan).
  Notation vector_op := (@vector_op num).
  Notation VFull := (@VFull num sub mul div ltb eqb zero one is_nan L P).
  Hypothesis NoNaN : forall z, is_nan z = false.

  Lemma pmax_mono a a' b b' : le a a' -> le b b' -> le (L1D.pmax ltb a b) (L1D.pmax ltb a' b').
  Proof.
    intros H1 H2. unfold L1D.pmax at 1. destruct (ltb a b).
    - eapply (le_trans OL); [exact H2|apply (pmax_ge_r OL)].
    - eapply (le_trans OL); [exact H1|apply (pmax_ge_l OL)].
  Qed.

  Lemma npmax_mono l : forall m acc acc', lle l m -> le acc acc' ->
    le (L1D.npmax ltb is_nan l acc) (L1D.npmax ltb is_nan m acc').
  Proof.
    induction l as [|x l IH]; intros m acc acc' Hlm Hacc; inversion Hlm; subst; cbn [L1D.npmax]; [exact Hacc|].
    apply IH; [assumption|]. rewrite !NoNaN.
    change (le (L1D.pmax ltb acc x) (L1D.pmax ltb acc' y)). apply pmax_mono; assumption.
  Qed.

  Lemma npmax_ge_acc l : forall acc, le acc (L1D.npmax ltb is_nan l acc).
  Proof.
    induction l as [|x l IH]; intros acc; cbn [L1D.npmax]; [apply (le_refl OL)|].
    rewrite !NoNaN. eapply (le_trans OL); [|apply IH].
    change (le acc (L1D.pmax ltb acc x)). apply (pmax_ge_l OL).
  Qed.

  Lemma map2_sub_mono (SL : SubLaws) a : forall a' b b', lle a' a -> lle b b' ->
    lle (L1D.map2 sub b a) (L1D.map2 sub b' a').
  Proof.
    induction a as [|x a IH]; intros a' b b' Ha Hb; inversion Ha; subst; inversion Hb; subst; cbn [L1D.map2]; try constructor.
    - apply (sub_mono SL); assumption.
    - apply IH; assumption.
  Qed.

  Lemma scv_mono (SL : SubLaws) a a' b b' : lle a' a -> lle b b' -> le (scv a b) (scv a' b').
  Proof.
    intros Ha Hb. unfold L1DValues.scv, L1D.arr_max.
    pose proof (map2_sub_mono SL Ha Hb) as H. inversion H as [|x y l m Hxy Hlm E1 E2]; [apply (le_refl OL)|].
    apply npmax_mono; assumption.
  Qed.

  Lemma scv_nonneg (SL : SubLaws) a : forall b, lle a b -> le zero (scv a b).
  Proof.
    intros b H. unfold L1DValues.scv, L1D.arr_max. inversion H as [|x y l m Hxy Hlm]; subst; cbn [L1D.map2]; [apply (le_refl OL)|].
    eapply (le_trans OL); [apply (sub_nonneg SL); exact Hxy|apply npmax_ge_acc].
  Qed.

  Lemma vfull_init k : VFull k init.
  Proof.
    split; [apply (inv_init add sub mul div ltb eqb zero one inf neg_inf is_nan is_inf round12 L P)|apply binvv_init].
  Qed.

  Theorem scale_bracket_v : SubLaws -> forall k h,
    legal init h = true -> forallb (vector_op k) h = true ->
    let s := run init h in
    ScaleOK s (sy s) /\
    forall iv, In iv (keys (los s)) -> exists g,
      lget iv (los s) = Some (loss_of (nb s) (data s) (sx s) g (fst iv) (snd iv)) /\
      le (osy s) g /\ le g (sy s).
  Proof.
    intros SL k h Hl Hs s.
    destruct (@bracket_inv_v num add sub mul div ltb eqb zero one inf neg_inf is_nan is_inf round12 of_nat L P OL k h NoNaN init (vfull_init k) Hl Hs)
      as [[HI _] [Hds [Hsc Hcase]]].
    fold s in HI, Hds, Hsc, Hcase.
    split; [exact Hsc|]. intros iv Hk.
    destruct Hcase as [[Hemp _]|[b0 [b1 [ob [Hby [Hl0 [Hl1 [Hsy [Hob Hvals]]]]]]]]].
    { exfalso. exact (@no_keys_of_no_data num ltb eqb s HI Hemp iv Hk). }
    destruct (Hvals iv Hk) as [m0 [m1 [H1 [H2 [H3 H4]]]]].
    exists (scv m0 m1). split; [exact H4|]. split.
    - destruct ob as [[o0 o1]|]; cbn [NestV] in H3.
      + destruct Hob as [-> _]. destruct H3 as [H3 H3']. apply (scv_mono SL); assumption.
      + rewrite Hob. apply (scv_nonneg SL). exact H3.
    - rewrite Hsy. apply (scv_mono SL); assumption.
  Qed.

  Theorem factor1_exact_v : SubLaws -> (forall x, mul (factor P) x = x) -> forall k h,
    legal init h = true -> forallb (vector_op k) h = true ->
    let s := run init h in
    forall iv, In iv (keys (los s)) -> lget iv (los s) = Some (get_loss s (fst iv) (snd iv)).
  Proof.
    intros SL Hone k h Hl Hs s iv Hk.
    destruct (scale_bracket_v SL k h Hl Hs) as [Hsc Hv]. fold s in Hsc, Hv.
    destruct (Hv iv Hk) as [g [Hval [Hlo Hhi]]].
    assert (Hg : g = sy s).
    { apply le_antisym; [exact Hhi|]. destruct Hsc as [E|E].
      - rewrite E. exact Hlo.
      - rewrite Hone in E. eapply (le_trans OL); [exact E|exact Hlo]. }
    rewrite Hval, Hg. reflexivity.
  Qed.
End Bracket.

(* the width laws are inhabited: integers *)
Lemma SubLaws_Z : SubLaws Z.sub Z.ltb 0%Z.
Proof.
  constructor; unfold L1DValues.le.
  - intros a a' b b' H1 H2. apply Z.ltb_ge in H1, H2. apply Z.ltb_ge. lia.
  - intros a b H. apply Z.ltb_ge in H. apply Z.ltb_ge. lia.
Qed.
