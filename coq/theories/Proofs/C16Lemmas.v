(* Proofs of the C16 statements (same statements as Props/C16.v, suffixed _pf), assembled
   from Proofs/AvgProofs.v and Proofs/Avg1DProofs.v. *)
From Coq Require Import PrimFloat.
From Coq Require Import Reals.
From AV Require Import Base.Prelude Base.NatSet Model.AvgNum Proofs.AvgProofs Proofs.Avg1DProofs.
From AV Require Model.Avg Model.Avg1D.

(* ================= AverageLearner ================= *)
Section C16_generic_pf.
  Variable N : NumOps.
  Variable c : Avg.cfg N.

  (* after ANY history (repeated, missing, out-of-order seeds; asks, discards):
     data holds each seed once with the value of its first tell, npoints = |data|,
     sum_f / sum_f_sq are the left-to-right sums of the values / their squares *)
  Theorem C16_each_seed_once_pf : forall h : list (Avg.op N),
    let s := Avg.reach c h in
    NoDup (Avg.keys s) /\ Avg.npoints s = length (Avg.data s) /\
    Avg.sum_f s = Avg.suml N (Avg.values s) /\
    Avg.sum_f_sq s = Avg.suml N (map (n_sq N) (Avg.values s)) /\
    forall seed, Avg.lookup N seed (Avg.data s) = Avg.first_told h seed.
  Proof.
    intros h s. pose proof (inv_reach N c h) as H.
    repeat split; try apply H.
    intros seed. unfold s, Avg.reach. rewrite first_value. reflexivity.
  Qed.

  Theorem C16_std_undefined_pf : forall h, let s := Avg.reach c h in
    Avg.npoints s < Avg.min_npoints c -> Avg.std c s = n_inf N.
  Proof. intros h s. exact (std_undefined N c s). Qed.

  Theorem C16_loss_undefined_pf : forall h (real : bool), let s := Avg.reach c h in
    (if real then Avg.npoints s else Avg.n_requested s) < Avg.min_npoints c ->
    Avg.loss c s real = Some (n_inf N).
  Proof. intros h real s. exact (loss_undefined N c s real). Qed.

  (* finding F11, exactly: loss(real=False) raises iff nothing is evaluated and
     at least min_npoints seeds are pending (and the guard of the repair is absent);
     loss(real=True) never raises *)
  Theorem C16_loss_exp_raises_iff_pf : forall h, let s := Avg.reach c h in
    (Avg.loss c s false = None <->
     Avg.guard c = false /\ Avg.npoints s = 0 /\ Avg.min_npoints c <= length (Avg.pend s)) /\
    Avg.loss c s true <> None.
  Proof. intros h s. split; [exact (loss_exp_raises_iff N c s)|exact (loss_real_some N c s)]. Qed.

  Theorem C16_loss_total_repaired_pf : forall h real,
    Avg.guard c = true -> Avg.loss c (Avg.reach c h) real <> None.
  Proof. intros h real. exact (loss_total_repaired N c (Avg.reach c h) real). Qed.

  (* whatever ask returns: n distinct seeds, none evaluated, none pending; a
     committing ask marks them pending.  With np.isfinite(inf) = False, ask(n >= 1)
     always answers. *)
  Theorem C16_fresh_seeds_pf : forall h n commit hint,
    let s := Avg.reach c h in
    (forall pts imp, snd (Avg.ask c s n commit hint) = Avg.Asked N pts imp ->
       length pts = n /\ NoDup pts /\
       (forall p, In p pts -> ~ In p (Avg.keys s) /\ ~ In p (Avg.pend s)) /\
       (commit = true -> forall p, In p pts -> In p (Avg.pend (fst (Avg.ask c s n commit hint))))) /\
    (n_finite N (n_inf N) = false -> 1 <= n ->
       exists pts imp, snd (Avg.ask c s n commit hint) = Avg.Asked N pts imp).
  Proof.
    intros h n commit hint s. split.
    - intros pts imp Hs. pose proof (ask_returns N c s n commit hint pts imp Hs) as ->.
      destruct (ask_points_fresh N s n hint (inv_reach N c h)) as [H1 [H2 H3]].
      repeat split; auto; try (apply H3; assumption).
      intros -> p Hp. eapply ask_commits; eauto.
    - intros Hf Hn. destruct (ask_answers N c s n commit hint Hf Hn) as [imp Hi]. eauto.
  Qed.

  (* the model's nondeterminism covers every hash order: in the fallback branch
     any n distinct candidates (seeds below n_requested + n, neither evaluated
     nor pending) are the answer for a suitable hint *)
  Theorem C16_fresh_seeds_any_choice_pf : forall h n pts,
    let s := Avg.reach c h in
    existsb (Avg.taken s) (seq (Avg.n_requested s) n) = true ->
    NoDup pts -> length pts = n -> (forall p, In p pts -> In p (Avg.candidates s n)) ->
    Avg.ask_points s n pts = pts.
  Proof. intros h n pts s. exact (ask_points_any_choice N s n pts). Qed.
End C16_generic_pf.

(* the unrepaired code does raise: two pending seeds, nothing evaluated *)
Theorem C16_loss_total_refuted_pf : forall (N : NumOps) (a r : num N),
  exists (c : Avg.cfg N) (h : list (Avg.op N)),
    Avg.guard c = false /\ Avg.loss c (Avg.reach c h) false = None.
Proof.
  intros N a r. exists (Avg.mkcfg N a r 2 false), [Avg.TellPending 0; Avg.TellPending 1].
  split; [reflexivity|exact (loss_total_refuted N a r)].
Qed.

Section C16_real_pf.
  Variable infR : R.
  Notation RN := (ROps infR).
  Variable c : Avg.cfg RN.

  (* sum_f, sum_f_sq are the sums of the values / squares; mean is the sample mean *)
  Theorem C16_mean_pf : forall h : list (Avg.op RN), let s := Avg.reach c h in
    Avg.sum_f s = sumR (Avg.values s) /\
    Avg.sum_f_sq s = sumR (map (fun y => (y * y)%R) (Avg.values s)) /\
    (0 < Avg.npoints s -> Avg.mean s = Some (meanR (Avg.values s))) /\
    (Avg.npoints s = 0 -> Avg.mean s = None).
  Proof.
    intros h s. subst s. pose proof (inv_reach RN c h) as H. repeat split.
    - rewrite (inv_sum H). apply suml_R.
    - rewrite (inv_sumsq H). apply suml_R.
    - apply mean_R. exact H.
    - intros E. unfold Avg.mean. rewrite E. reflexivity.
  Qed.

  (* sum_f_sq - n * mean^2 = sum of squared deviations from the sample mean, hence
     std = sqrt( sum (y - mean)^2 / (n - 1) ), the corrected sample standard deviation *)
  Theorem C16_std_pf : forall h : list (Avg.op RN), let s := Avg.reach c h in
    Avg.min_npoints c <= Avg.npoints s ->
    Avg.std_numerator s = sqdevR (Avg.values s) (meanR (Avg.values s)) /\
    Avg.std c s = sqrt (sqdevR (Avg.values s) (meanR (Avg.values s)) / INR (Avg.npoints s - 1)).
  Proof.
    intros h s Hn. pose proof (inv_reach RN c h) as H. fold s in H. clearbody s.
    assert (Hlen : @length R (Avg.values s) = Avg.npoints s)
      by (unfold Avg.values; rewrite map_length, (inv_npoints H); reflexivity).
    split.
    - unfold Avg.std_numerator. rewrite (inv_sumsq H), suml_R, (mean_val_R infR s H).
      cbn [n_sub n_mul n_of_nat n_sq ROps]. rewrite <- Hlen. apply moment_identity.
      intros E. rewrite E in Hlen. cbn in Hlen. unfold Avg.min_npoints in Hn. lia.
    - rewrite (std_R infR c s H Hn). unfold varR. rewrite Hlen. reflexivity.
  Qed.

  (* loss = max(se / atol, se / rtol / |mean|) with se = std / sqrt(n), n the number of
     evaluated (real) or evaluated + pending (not real) seeds *)
  Theorem C16_loss_formula_pf : forall (h : list (Avg.op RN)) (real : bool), let s := Avg.reach c h in
    Avg.min_npoints c <= Avg.npoints s ->
    Avg.loss c s real =
    Some (loss_spec infR c (Avg.std c s) (meanR (Avg.values s))
                    (if real then Avg.npoints s else Avg.npoints s + length (Avg.pend s))).
  Proof. intros h real s Hn. apply loss_R; [apply inv_reach|exact Hn]. Qed.
End C16_real_pf.

(* ================= AverageLearner1D ================= *)
Section C16_1d_generic_pf.
  Variable N : NumOps.
  Variable tppf : nat -> num N.
  Variable c : Avg1D.cfg N.

  (* along every legal history: _number_samples[x] = number of samples held at x,
     seeds at x distinct *)
  Theorem C16_1d_counts_pf : forall h : list (Avg1D.op N),
    Avg1D.legal tppf c (Avg1D.init N) h = true ->
    Forall (fun p => Avg1D.pcount p = length (Avg1D.samples p) /\ NoDup (Avg1D.seeds p) /\
                     1 <= Avg1D.pcount p)
           (Avg1D.reach tppf c h).
  Proof.
    intros h Hl. eapply Forall_impl; [|apply (G_reach N tppf c h Hl)].
    intros p [H1 [H2 [H3 _]]]. auto.
  Qed.

  (* every evaluated abscissa with fewer than min_samples samples is in
     _undersampled_points, and while there is one, ask sends all n requests to one
     abscissa of _undersampled_points, with the next seeds there *)
  Theorem C16_1d_undersampled_first_pf : forall h : list (Avg1D.op N),
    Avg1D.legal tppf c (Avg1D.init N) h = true ->
    let s := Avg1D.reach tppf c h in
    Forall (fun p => Avg1D.pcount p < Avg1D.min_samples c -> Avg1D.under p = true) s /\
    forall n hint, (exists p, In p s /\ Avg1D.pcount p < Avg1D.min_samples c) ->
      match Avg1D.ask s n hint with
      | Avg1D.Asked pts => exists q, In q s /\ Avg1D.under q = true /\ pts = Avg1D.more_samples q n
      | Avg1D.Err => True
      | Avg1D.Done => False
      end.
  Proof.
    intros h Hl s. pose proof (G_reach N tppf c h Hl) as HG. split.
    - eapply Forall_impl; [|exact HG]. intros p [_ [_ [_ H]]]. exact H.
    - intros n hint. apply ask_undersampled. exact HG.
  Qed.

  (* tell_many is exactly the tell / tell_many_at_point calls on its groups *)
  Theorem C16_1d_tell_many_expands_pf : forall s trip hs,
    Avg1D.step tppf c s (Avg1D.TellMany N trip hs) =
    if forallb (fun e => Avg1D.in_bounds c (snd (fst e))) trip
    then (Avg1D.run tppf c s (Avg1D.group_ops N (Avg1D.groups N trip) hs), Avg1D.Done)
    else (s, Avg1D.Err).
  Proof. exact (tell_many_expands N tppf c). Qed.
End C16_1d_generic_pf.

Section C16_1d_real_pf.
  Variable infR : R.
  Variable tppf : nat -> R.
  Notation RN := (ROps infR).
  Variable c : Avg1D.cfg RN.
  Notation reachR h := (@Avg1D.reach RN tppf c h).
  (* the recorded np.mean of each batch is the mean of that batch *)
  Notation hints_ok h := (@hints RN tppf (okmR infR) c (Avg1D.init RN) h).

  (* the running update m*n/(n+1) + y/(n+1) and the batch update keep data[x] equal
     to the mean of the samples held at x *)
  Theorem C16_1d_mean_is_sample_mean_pf : forall h : list (Avg1D.op RN),
    @Avg1D.legal RN tppf c (Avg1D.init RN) h = true -> hints_ok h ->
    Forall (fun p : Avg1D.pt RN => Avg1D.pmean p = meanR (Avg1D.ys p)) (reachR h).
  Proof.
    intros h Hl Hh. eapply Forall_impl; [|apply (GR_reach infR tppf c h Hl Hh)].
    intros p [_ [H _]]. exact H.
  Qed.

  (* error[x] = inf for one sample, else t.ppf(1-alpha, n-1) * sqrt(s^2 / n), s^2 the
     corrected sample variance of the n samples at x *)
  Theorem C16_1d_error_is_t_halfwidth_pf : forall h : list (Avg1D.op RN),
    @Avg1D.legal RN tppf c (Avg1D.init RN) h = true -> hints_ok h ->
    Forall (fun p : Avg1D.pt RN =>
              Avg1D.perr p =
              if length (Avg1D.ys p) =? 1 then infR
              else (tppf (length (Avg1D.ys p) - 1) *
                    sqrt (varR (Avg1D.ys p) / INR (length (Avg1D.ys p))))%R)
           (reachR h).
  Proof.
    intros h Hl Hh. eapply Forall_impl; [|apply (GR_reach infR tppf c h Hl Hh)].
    intros p [[Hc _] [_ H]]. rewrite H. unfold errspec.
    assert (Hlen : @length R (Avg1D.ys p) = Avg1D.pcount p) by (unfold Avg1D.ys; rewrite map_length; auto).
    assert (Hlen' : @length (num RN) (Avg1D.ys p) = Avg1D.pcount p) by exact Hlen.
    rewrite ?Hlen, ?Hlen'. reflexivity.
  Qed.

  (* telling a batch at x (tell_many_at_point) and telling its samples one by one give,
     at every abscissa, the same samples, value, count and error *)
  Theorem C16_1d_batch_equals_incremental_pf : forall (h : list (Avg1D.op RN)) x l m,
    @Avg1D.legal RN tppf c (Avg1D.init RN) h = true -> hints_ok h ->
    Avg1D.legal_flat_op c (reachR h) (Avg1D.TellManyAt RN x l m) = true ->
    @hint_ok RN (okmR infR) c (reachR h) (Avg1D.TellManyAt RN x l m) ->
    map (@Avg1D.core RN) (fst (@Avg1D.tell_many_at RN tppf c (reachR h) x l m)) =
    map (@Avg1D.core RN) (fold_left (fun s sy => @Avg1D.tell RN tppf c s (fst sy) x (snd sy)) l (reachR h)).
  Proof.
    intros h x l m Hl Hh Hlo Hho. apply batch_equals_incremental; auto.
    apply GR_reach; assumption.
  Qed.
End C16_1d_real_pf.

(* finding F21: with the code as it is (dedup = false) a batch that contains a seed
   already known at x breaks counts = number of samples (the sample is overwritten
   and counted again): after tell(0,.5)=1, tell(1,.5)=2, tell_many_at_point(.5,{1:10, 2:3})
   the count is 4 with 3 samples held and the "mean" is 4 = (1+2+10+3)/4; witness in
   IEEE doubles *)
Theorem C16_1d_batch_known_seed_refuted_pf :
  exists (c : Avg1D.cfg (FloatOps [])) (h : list (Avg1D.op (FloatOps []))),
    Avg1D.dedup c = false /\
    map (fun p => (Avg1D.pcount p, length (Avg1D.samples p), Avg1D.pmean p))
        (@Avg1D.reach (FloatOps []) (fun _ => PrimFloat.one) c h) = [(4, 3, 4%float)].
Proof.
  exists (Avg1D.mkcfg (FloatOps []) (-1)%float 1%float 3 0.3%float false).
  exists [Avg1D.Tell (FloatOps []) 0 0.5%float 1%float; Avg1D.Tell (FloatOps []) 1 0.5%float 2%float;
          Avg1D.TellManyAt (FloatOps []) 0.5%float [(1, 10%float); (2, 3%float)] 6.5%float].
  split; [reflexivity|]. vm_compute. reflexivity.
Qed.

(* non-vacuity: concrete histories in IEEE doubles *)
Example C16_example_avg_pf :
  let F := FloatOps [] in
  let c := Avg.mkcfg F 0.5%float PrimFloat.infinity 2 false in
  let h := [Avg.Ask 2 true []; Avg.Tell F 1 3%float; Avg.Tell F 1 100%float; Avg.Tell F 5 1%float;
            Avg.TellPending 2; Avg.Ask 3 true [7; 3; 6]; Avg.Tell F 0 2%float] in
  let s := Avg.reach c h in
  Avg.data s = [(1, 3%float); (5, 1%float); (0, 2%float)] /\ Avg.pend s = [2; 3; 4; 6] /\
  Avg.mean s = Some 2%float /\ Avg.std c s = 1%float /\ Avg.min_npoints c <= Avg.npoints s.
Proof. vm_compute. repeat split; lia. Qed.

Example C16_example_1d_pf :
  let F := FloatOps [] in
  let c := Avg1D.mkcfg F (-1)%float 1%float 3 0.3%float false in
  let t := fun _ : nat => 2%float in
  let h := [Avg1D.Tell F 0 0.5%float 1%float; Avg1D.Tell F 4 0.5%float 2%float; Avg1D.Tell F 4 0.5%float 9%float;
            Avg1D.TellManyAt F 0.25%float [(0, 1%float); (3, 3%float)] 3%float;
            Avg1D.TellMany F [(1, 0.5%float, 3%float); (7, 0.25%float, 5%float); (9, 0.25%float, 6%float)] [5.5%float]] in
  @Avg1D.legal F t c (Avg1D.init F) h = true /\
  map (fun p => (Avg1D.pcount p, Avg1D.pmean p)) (@Avg1D.reach F t c h) = [(4, 3.75%float); (3, 2%float)].
Proof. vm_compute. split; reflexivity. Qed.

