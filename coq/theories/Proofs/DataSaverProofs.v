(* Lemmas about Model/DataSaver.v, for every wrapped learner, picker and history. *)
From AV Require Import Base.Prelude Model.GenericLearner Model.DataSaver.
Set Implicit Arguments.

Section Proofs.
  Variable L : Learner.
  Variable R : Type.
  Variable pick : R -> value L.
  Implicit Types (s : dst L R) (h : list (op L R)) (x : point L) (e : list (point L * R))
                 (xrs : list (point L * R)).

  Lemma run_cons s o h : run pick s (o :: h) = run pick (fst (step pick s o)) h.
  Proof. reflexivity. Qed.
  Lemma lrun_cons (k : state L) o hh : lrun k (o :: hh) = lrun (fst (lstep k o)) hh.
  Proof. reflexivity. Qed.
  Lemma lrun_app (k : state L) (h1 h2 : list (lop L)) : lrun k (h1 ++ h2) = lrun (lrun k h1) h2.
  Proof. unfold lrun. apply fold_left_app. Qed.

  (* tell_many is the sequence of its tells *)
  Lemma tell_many_cons s xr xrs : tell_many pick s (xr :: xrs) = tell_many pick (tell pick s (fst xr) (snd xr)) xrs.
  Proof. reflexivity. Qed.

  Lemma tell_many_is_tells xrs : forall s,
    tell_many pick s xrs = run pick s (map (fun xr => Tell (fst xr) (snd xr)) xrs).
  Proof.
    induction xrs as [|xr xrs IH]; intros s; [reflexivity|].
    rewrite tell_many_cons. cbn [map]. rewrite run_cons. cbn [step fst]. apply IH.
  Qed.

  Lemma tell_many_child xrs : forall s,
    child (tell_many pick s xrs) =
    lrun (child s) (map (fun xr => LTell (fst xr) (pick (snd xr))) xrs).
  Proof.
    induction xrs as [|xr xrs IH]; intros s; [reflexivity|].
    rewrite tell_many_cons, IH. cbn [map]. rewrite lrun_cons. reflexivity.
  Qed.

  (* one step of the wrapper = the picked op(s) on the child *)
  Lemma step_child s o :
    child (fst (step pick s o)) = lrun (child s) (pick_ops pick o) /\
    snd (step pick s o) = out_on_child pick (child s) o.
  Proof.
    destruct o as [n c|x r|xrs|x|real|]; cbn [step pick_ops out_on_child]; try (split; reflexivity).
    - unfold ask. unfold lrun. cbn [fold_left lstep].
      destruct (GenericLearner.ask L (child s) n c) as [[pts imps] k]. split; reflexivity.
    - cbn [fst snd]. split; [apply tell_many_child|reflexivity].
  Qed.

  Lemma bisimulation h : forall s,
    child (run pick s h) = lrun (child s) (flat_map (pick_ops pick) h) /\
    trace pick s h = ctrace pick (child s) h.
  Proof.
    induction h as [|o h IH]; intros s; [split; reflexivity|].
    cbn [flat_map]. rewrite run_cons, lrun_app. cbn [trace ctrace].
    destruct (step_child s o) as [Hc Ho].
    destruct (IH (fst (step pick s o))) as [H1 H2].
    rewrite H1, H2, Hc, Ho. split; reflexivity.
  Qed.

  (* everything reached through __getattr__ (data, pending_points, npoints,
     ...) and loss are the unwrapped learner's *)
  Lemma bisimulation_obs A (attr : state L -> A) h s :
    getattr attr (run pick s h) = attr (lrun (child s) (flat_map (pick_ops pick) h)).
  Proof. unfold getattr. destruct (bisimulation h s) as [-> _]. reflexivity. Qed.

  (* ---------------- extra_data ---------------- *)
  Hypothesis PL : PointLaws L.

  Lemma alookup_aset x x' (r : R) e :
    alookup L x (aset L x' r e) = if peqb L x' x then Some r else alookup L x e.
  Proof.
    induction e as [|[x0 r0] e IH]; cbn [aset alookup]; [reflexivity|].
    destruct (peqb L x0 x') eqn:E0; cbn [alookup].
    - destruct (peqb L x' x) eqn:E1.
      + rewrite (peq_trans PL _ _ _ E0 E1). reflexivity.
      + destruct (peqb L x0 x) eqn:E2; [|reflexivity].
        rewrite (peq_sym PL) in E0. rewrite (peq_trans PL _ _ _ E0 E2) in E1. discriminate.
    - rewrite IH. destruct (peqb L x0 x) eqn:E2; [|reflexivity].
      destruct (peqb L x' x) eqn:E1; [|reflexivity].
      rewrite (peq_sym PL) in E1. rewrite (peq_trans PL _ _ _ E2 E1) in E0. discriminate.
  Qed.

  (* the last full result among [xrs] told for (a point equal to) x *)
  Definition last_of (acc : option R) x xrs : option R :=
    fold_left (fun acc xr => if peqb L (fst xr) x then Some (snd xr) else acc) xrs acc.
  Definition last_told x h := last_of None x (tolds h).

  Lemma last_of_app acc x l1 l2 : last_of acc x (l1 ++ l2) = last_of (last_of acc x l1) x l2.
  Proof. unfold last_of. apply fold_left_app. Qed.

  Lemma extra_tell_many x xrs : forall s,
    alookup L x (extra (tell_many pick s xrs)) = last_of (alookup L x (extra s)) x xrs.
  Proof.
    induction xrs as [|xr xrs IH]; intros s; [reflexivity|].
    rewrite tell_many_cons, IH. cbn [tell extra]. rewrite alookup_aset. reflexivity.
  Qed.

  Lemma extra_step s o x :
    alookup L x (extra (fst (step pick s o))) = last_of (alookup L x (extra s)) x (told_of o).
  Proof.
    destruct o as [n c|x' r|xrs|x'|real|]; cbn [step fst told_of]; try reflexivity.
    - unfold ask. destruct (GenericLearner.ask L (child s) n c) as [[pts imps] k]. reflexivity.
    - cbn [tell extra]. rewrite alookup_aset. reflexivity.
    - apply extra_tell_many.
  Qed.

  Lemma extra_lookup h : forall s x,
    alookup L x (extra (run pick s h)) = last_of (alookup L x (extra s)) x (tolds h).
  Proof.
    induction h as [|o h IH]; intros s x; [reflexivity|].
    rewrite run_cons, IH, extra_step. unfold tolds. cbn [flat_map]. rewrite last_of_app. reflexivity.
  Qed.

  Lemma extra_data_value h (k : state L) x :
    alookup L x (extra (run pick (DataSaver.init L R k) h)) = last_told x h.
  Proof. apply extra_lookup. Qed.

  Lemma last_of_some acc x xrs :
    (exists r, last_of acc x xrs = Some r) <->
    ((exists r, acc = Some r) \/ exists x' r, In (x', r) xrs /\ peqb L x' x = true).
  Proof.
    revert acc. induction xrs as [|[x0 r0] xrs IH]; intros acc.
    - cbn. split; [intros H; left; exact H|intros [H|[x' [r [[] _]]]]; exact H].
    - unfold last_of in *. cbn [fold_left fst snd]. rewrite IH. cbn [In].
      destruct (peqb L x0 x) eqn:E.
      + split; [intros _; right; exists x0, r0; auto|intros _; left; eexists; reflexivity].
      + split.
        * intros [H|[x1 [r1 [H1 H2]]]]; [left; exact H|right; exists x1, r1; auto].
        * intros [H|[x1 [r1 [[H1|H1] H2]]]]; [left; exact H| |right; exists x1, r1; auto].
          inversion H1; subst. congruence.
  Qed.

  (* keys of extra_data = the told points *)
  Lemma extra_data_keys h (k : state L) x :
    (exists r, alookup L x (extra (run pick (DataSaver.init L R k) h)) = Some r) <->
    (exists x' r, In (x', r) (tolds h) /\ peqb L x' x = true).
  Proof.
    rewrite extra_data_value. unfold last_told. rewrite last_of_some.
    split; [intros [[r H]|H]; [discriminate H|exact H]|intros H; right; exact H].
  Qed.

  (* no key occurs twice (up to ==) *)
  Fixpoint distinct_keys e : Prop :=
    match e with
    | [] => True
    | (x, _) :: e' => alookup L x e' = None /\ distinct_keys e'
    end.

  Lemma alookup_none_aset x x' (r : R) e :
    peqb L x' x = false -> alookup L x e = None -> alookup L x (aset L x' r e) = None.
  Proof. intros H1 H2. rewrite alookup_aset, H1. exact H2. Qed.

  Lemma aset_distinct x (r : R) e : distinct_keys e -> distinct_keys (aset L x r e).
  Proof.
    induction e as [|[x0 r0] e IH]; cbn [aset distinct_keys]; [auto|].
    intros [H1 H2]. destruct (peqb L x0 x) eqn:E; cbn [distinct_keys]; [auto|].
    split; [|auto]. apply alookup_none_aset; [|exact H1].
    rewrite (peq_sym PL). exact E.
  Qed.

  Lemma tell_many_distinct xrs : forall s, distinct_keys (extra s) -> distinct_keys (extra (tell_many pick s xrs)).
  Proof.
    induction xrs as [|xr xrs IH]; intros s H; [exact H|].
    rewrite tell_many_cons. apply IH. cbn [tell extra]. apply aset_distinct. exact H.
  Qed.

  Lemma extra_distinct h : forall s, distinct_keys (extra s) -> distinct_keys (extra (run pick s h)).
  Proof.
    induction h as [|o h IH]; intros s H; [exact H|]. rewrite run_cons. apply IH.
    destruct o as [n c|x' r|xrs|x'|real|]; cbn [step fst]; try exact H.
    - unfold ask. destruct (GenericLearner.ask L (child s) n c) as [[pts imps] k]. exact H.
    - cbn [tell extra]. apply aset_distinct. exact H.
    - apply tell_many_distinct. exact H.
  Qed.

  (* ---------------- _get_data / _set_data ---------------- *)
  Lemma roundtrip s s0 :
    set_data s (get_data s0) =
    @DataSaver.mk L R (GenericLearner.set_data L (child s) (GenericLearner.get_data L (child s0))) (extra s0).
  Proof. reflexivity. Qed.
End Proofs.
