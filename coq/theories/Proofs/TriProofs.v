(* Proofs about the combinatorial Triangulation model (property C03).
   Everything here holds for ALL answers of the geometric oracles. *)
From AV Require Import Base.Prelude Base.NatSet Model.Tri.

(* ------------------------------------------------------------------ *)
(* lists of simplices used as sets *)
Lemma simplex_eqb_eq a b : simplex_eqb a b = true <-> a = b.
Proof. unfold simplex_eqb. apply list_eqb_spec. intros; apply Nat.eqb_eq. Qed.

Lemma simplex_eqb_refl a : simplex_eqb a a = true.
Proof. apply simplex_eqb_eq; reflexivity. Qed.

Lemma smem_In s l : smem s l = true <-> In s l.
Proof.
  unfold smem. rewrite existsb_exists. split.
  - intros [y [Hy He]]. apply simplex_eqb_eq in He. subst; auto.
  - intros H. exists s. split; auto. apply simplex_eqb_refl.
Qed.

Lemma smem_false s l : smem s l = false <-> ~ In s l.
Proof. rewrite <- smem_In. destruct (smem s l); split; congruence. Qed.

Lemma In_dec_s (s : simplex) l : In s l \/ ~ In s l.
Proof. destruct (smem s l) eqn:E; [left; apply smem_In; auto | right; apply smem_false; auto]. Qed.

Lemma sadd_In s l x : In x (sadd s l) <-> x = s \/ In x l.
Proof.
  unfold sadd. destruct (smem s l) eqn:E.
  - apply smem_In in E. split; [auto|]. intros [->|]; auto.
  - rewrite in_app_iff. cbn [In]. intuition.
Qed.

Lemma sremove_In s l x : In x (sremove s l) <-> In x l /\ x <> s.
Proof.
  unfold sremove. rewrite filter_In. split; intros [H1 H2]; split; auto.
  - intros ->. rewrite simplex_eqb_refl in H2. discriminate.
  - destruct (simplex_eqb s x) eqn:E; auto. apply simplex_eqb_eq in E. congruence.
Qed.

Lemma sunion_In b : forall a x, In x (sunion a b) <-> In x a \/ In x b.
Proof.
  unfold sunion. induction b as [|y b IH]; intros a x; cbn [fold_left In]; [intuition|].
  rewrite IH, sadd_In. intuition.
Qed.

Lemma sdiff_In a b x : In x (sdiff a b) <-> In x a /\ ~ In x b.
Proof.
  unfold sdiff. rewrite filter_In. rewrite negb_true_iff, smem_false. reflexivity.
Qed.

(* ------------------------------------------------------------------ *)
(* pointwise update of the index *)
Lemma upd_nth_length {A} (f : A -> A) : forall l n, length (upd_nth n f l) = length l.
Proof. induction l as [|x l IH]; intros [|n]; cbn; auto. Qed.

Lemma In_nth_upd_add s : forall (l : list (list simplex)) u v x,
  In x (nth v (upd_nth u (sadd s) l) []) <->
  In x (nth v l []) \/ (x = s /\ u = v /\ v < length l).
Proof.
  induction l as [|y l IH]; intros u v x.
  - cbn [upd_nth length]. destruct v; cbn [nth In]; intuition lia.
  - destruct u as [|u], v as [|v]; cbn [upd_nth nth length].
    + rewrite sadd_In. intuition lia.
    + intuition lia.
    + intuition lia.
    + rewrite IH. intuition lia.
Qed.

Lemma In_nth_upd_del s : forall (l : list (list simplex)) u v x,
  In x (nth v (upd_nth u (sremove s) l) []) <->
  In x (nth v l []) /\ ~ (x = s /\ u = v).
Proof.
  induction l as [|y l IH]; intros u v x.
  - cbn [upd_nth]. destruct v; cbn [nth In]; intuition.
  - destruct u as [|u], v as [|v]; cbn [upd_nth nth].
    + rewrite sremove_In. intuition.
    + intuition lia.
    + intuition lia.
    + rewrite IH. intuition lia.
Qed.

Lemma v2s_add_spec s : forall vs (l : list (list simplex)) v x,
  In x (nth v (fold_left (fun a u => upd_nth u (sadd s) a) vs l) []) <->
  In x (nth v l []) \/ (x = s /\ In v vs /\ v < length l).
Proof.
  induction vs as [|u vs IH]; intros l v x; cbn [fold_left In].
  - intuition.
  - rewrite IH, In_nth_upd_add, upd_nth_length. intuition (subst; auto).
Qed.

Lemma v2s_add_length s : forall vs (l : list (list simplex)),
  length (fold_left (fun a u => upd_nth u (sadd s) a) vs l) = length l.
Proof. induction vs as [|u vs IH]; intros l; cbn [fold_left]; auto. rewrite IH. apply upd_nth_length. Qed.

Lemma v2s_del_spec s : forall vs (l : list (list simplex)) v x,
  In x (nth v (fold_left (fun a u => upd_nth u (sremove s) a) vs l) []) <->
  In x (nth v l []) /\ ~ (x = s /\ In v vs).
Proof.
  induction vs as [|u vs IH]; intros l v x; cbn [fold_left In].
  - intuition.
  - rewrite IH, In_nth_upd_del. intuition (subst; auto).
Qed.

Lemma v2s_del_length s : forall vs (l : list (list simplex)),
  length (fold_left (fun a u => upd_nth u (sremove s) a) vs l) = length l.
Proof. induction vs as [|u vs IH]; intros l; cbn [fold_left]; auto. rewrite IH. apply upd_nth_length. Qed.

Lemma nth_app_nil {A} (l : list (list A)) v : nth v (l ++ [[]]) [] = nth v l [].
Proof.
  destruct (Nat.lt_ge_cases v (length l)) as [H|H].
  - apply app_nth1; auto.
  - rewrite (nth_overflow l); auto. rewrite app_nth2; auto.
    destruct (v - length l) as [|[|k]]; reflexivity.
Qed.

Lemma no_elements_nil {A} (l : list A) : (forall x, ~ In x l) -> l = [].
Proof. destruct l as [|a l]; auto. intros H. exfalso. apply (H a). left; auto. Qed.

Lemma all_nil_app {A} : forall (m : list (list A)), (forall i, nth i m [] = []) -> m ++ [[]] = [] :: m.
Proof.
  induction m as [|y m IHm]; intros Hm; [reflexivity|].
  cbn [app]. rewrite IHm; [|intros i; apply (Hm (S i))].
  specialize (Hm 0). cbn in Hm. subst y. reflexivity.
Qed.

Lemma remove_nth_trailing {A} : forall (l : list (list A)) n,
  n <= length l -> (forall i, n <= i -> nth i l [] = []) -> remove_nth n (l ++ [[]]) = l.
Proof.
  induction l as [|x l IH]; intros n Hn Hz.
  - cbn in Hn. assert (n = 0) by lia. subst. reflexivity.
  - destruct n as [|n]; cbn [app remove_nth].
    + rewrite (all_nil_app l); [|intros i; apply (Hz (S i)); lia].
      specialize (Hz 0 (Nat.le_refl 0)). cbn in Hz. subst x. reflexivity.
    + f_equal. apply IH; [cbn in Hn; lia|]. intros i Hi. apply (Hz (S i)). lia.
Qed.

(* ------------------------------------------------------------------ *)
(* faces *)
Lemma drop_one_incl : forall s f v, In f (drop_one s) -> In v f -> In v s.
Proof.
  induction s as [|x s IH]; intros f v Hf Hv; cbn [drop_one In] in *; [tauto|].
  destruct Hf as [<-|Hf]; [right; exact Hv|].
  apply in_map_iff in Hf as [g [<- Hg]]. destruct Hv as [->|Hv]; [left; reflexivity|].
  right. eapply IH; eauto.
Qed.

Lemma all_faces_incl ss f v : In f (all_faces ss) -> In v f -> exists s, In s ss /\ In v s.
Proof.
  unfold all_faces. rewrite in_flat_map. intros [s [Hs Hf]] Hv. exists s. split; auto.
  eapply drop_one_incl; eauto.
Qed.

(* ------------------------------------------------------------------ *)
Section TriProofs.
  Variable P : Type.
  Variable d : nat.
  Notation tri := (tri P).
  Implicit Types (t : tri) (s x : simplex) (o : orc).

  (* the reference invariant of the code (Triangulation.reference_invariant)
     plus well-formedness of vertex indices *)
  Record Inv t : Prop := {
    inv_index : forall v s, In s (nth v (v2s t) []) <-> In s (simplices t) /\ In v s;
    inv_range : forall s v, In s (simplices t) -> In v s -> v < nverts t;
    inv_len : nverts t <= length (v2s t)
  }.
  Arguments inv_index {t}. Arguments inv_range {t}. Arguments inv_len {t}.

  Lemma add_simplex_simplices t s : simplices (add_simplex t s) = sadd s (simplices t).
  Proof. reflexivity. Qed.
  Lemma add_simplex_verts t s : verts (add_simplex t s) = verts t.
  Proof. reflexivity. Qed.

  Lemma add_simplex_Inv t s : Inv t -> (forall v, In v s -> v < nverts t) -> Inv (add_simplex t s).
  Proof.
    intros HI Hs. constructor.
    - intros v x. unfold add_simplex; cbn [v2s simplices]. rewrite v2s_add_spec, sadd_In, (inv_index HI).
      split.
      + intros [[H1 H2]|[-> [H1 H2]]]; auto.
      + intros [[->|H1] H2]; auto. right. repeat split; auto.
        pose proof (inv_len HI). specialize (Hs _ H2). lia.
    - intros x v. rewrite add_simplex_simplices, sadd_In. unfold nverts. rewrite add_simplex_verts.
      intros [->|H] Hv; [apply Hs; auto | eapply (inv_range HI); eauto].
    - unfold nverts, add_simplex; cbn [verts v2s]. rewrite v2s_add_length. apply (inv_len HI).
  Qed.

  Lemma delete_simplex_Inv t s : Inv t -> Inv (delete_simplex t s).
  Proof.
    intros HI. constructor.
    - intros v x. unfold delete_simplex; cbn [v2s simplices]. rewrite v2s_del_spec, sremove_In, (inv_index HI).
      split.
      + intros [[H1 H2] H3]. repeat split; auto. intros ->. apply H3; auto.
      + intros [[H1 H2] H3]. repeat split; auto. intros [-> _]. congruence.
    - intros x v. unfold delete_simplex; cbn [simplices]. rewrite sremove_In. intros [H _] Hv.
      eapply (inv_range HI); eauto.
    - unfold nverts, delete_simplex; cbn [verts v2s]. rewrite v2s_del_length. apply (inv_len HI).
  Qed.

  Lemma fold_add_simplex_spec : forall news t,
    Inv t -> (forall s v, In s news -> In v s -> v < nverts t) ->
    let t' := fold_left (@add_simplex P) news t in
    Inv t' /\ verts t' = verts t /\ (forall x, In x (simplices t') <-> In x (simplices t) \/ In x news).
  Proof.
    induction news as [|s news IH]; intros t HI Hn; cbn [fold_left].
    - split; [exact HI|]. split; [reflexivity|]. intros x. cbn [In]. tauto.
    - destruct (IH (add_simplex t s)) as [H1 [H2 H3]].
      + apply add_simplex_Inv; auto. intros v Hv. apply (Hn s v); [left; auto|auto].
      + intros s' v Hs' Hv. unfold nverts. rewrite add_simplex_verts. apply (Hn s' v); [right; auto|auto].
      + split; [exact H1|]. split; [rewrite H2; reflexivity|].
        intros x. rewrite H3, add_simplex_simplices, sadd_In. cbn [In]. intuition.
  Qed.

  (* ---------------- initial triangulation ---------------- *)
  Lemma nth_map_nil {A} (vs : list A) v : nth v (map (fun _ => @nil simplex) vs) [] = [].
  Proof. revert v; induction vs as [|a vs IH]; intros [|v]; cbn; auto. Qed.

  Lemma init_Inv (vs : list P) ss :
    (forall s v, In s ss -> In v s -> v < length vs) -> Inv (init vs ss).
  Proof.
    intros H. unfold init.
    apply (fold_add_simplex_spec ss (mk vs [] (map (fun _ => []) vs))); [|exact H].
    constructor; cbn [v2s simplices verts nverts].
    - intros v s. rewrite nth_map_nil. cbn [In]. tauto.
    - intros s v [].
    - unfold nverts; cbn [verts]. rewrite map_length. lia.
  Qed.

  Lemma init_simplices (vs : list P) ss :
    (forall s v, In s ss -> In v s -> v < length vs) ->
    forall x, In x (simplices (init vs ss)) <-> In x ss.
  Proof.
    intros H x. unfold init.
    destruct (fold_add_simplex_spec ss (mk vs [] (map (fun _ => []) vs))) as [_ [_ H3]]; [| exact H |].
    - constructor; cbn [v2s simplices verts nverts].
      + intros v s. rewrite nth_map_nil. cbn [In]. tauto.
      + intros s v [].
      + unfold nverts; cbn [verts]. rewrite map_length. lia.
    - rewrite H3. cbn [simplices In]. tauto.
  Qed.

  (* ---------------- the flood fill ---------------- *)
  Lemma bw_loop_spec o : forall fuel t queue done bad t' bad',
    Inv t -> (forall s, In s queue -> In s (simplices t)) ->
    bw_loop d o fuel t queue done bad = (t', bad') ->
    Inv t' /\ verts t' = verts t /\
    (forall s, In s (simplices t') -> In s (simplices t)) /\
    (forall s, In s (simplices t) -> In s (simplices t') \/ In s bad') /\
    (forall s, In s bad' -> In s bad \/ (In s (simplices t) /\ ~ In s (simplices t'))) /\
    (forall s, In s bad -> In s bad').
  Proof.
    induction fuel as [|fuel IH]; intros t queue done bad t' bad' HI Hq E; cbn [bw_loop] in E.
    { inversion E; subst. split; [assumption|]. split; [reflexivity|]. split; [auto|]. split; [auto|]. split; auto. }
    destruct queue as [|s q0].
    { inversion E; subst. split; [assumption|]. split; [reflexivity|]. split; [auto|]. split; [auto|]. split; auto. }
    destruct (o_incirc o s) eqn:Ec.
    - apply IH in E.
      + destruct E as [H1 [H2 [H3 [H4 [H5 H6]]]]].
        assert (Hsub : forall x, In x (simplices (delete_simplex t s)) <-> In x (simplices t) /\ x <> s).
        { intros x. unfold delete_simplex; cbn [simplices]. apply sremove_In. }
        split; [exact H1|]. split; [rewrite H2; reflexivity|].
        split; [intros x Hx; apply H3 in Hx; apply Hsub in Hx; tauto|].
        split.
        { intros x Hx. destruct (In_dec_s x [s]) as [[<-|[]]|Hne].
          - right. apply H6. apply sadd_In. auto.
          - apply H4. apply Hsub. split; auto. intros ->. apply Hne. left; auto. }
        split.
        { intros x Hx. destruct (H5 _ Hx) as [Hb|[Hb1 Hb2]].
          - apply sadd_In in Hb as [->|Hb]; auto. right. split; [apply Hq; left; auto|].
            intros Hc. apply H3 in Hc. apply Hsub in Hc. tauto.
          - right. apply Hsub in Hb1. tauto. }
        intros x Hx. apply H6. apply sadd_In. auto.
      + apply delete_simplex_Inv; auto.
      + intros x Hx. apply sunion_In in Hx as [Hx|Hx].
        * apply sremove_In in Hx as [Hx Hne]. unfold delete_simplex; cbn [simplices].
          apply sremove_In. split; auto. apply Hq. right; auto.
        * apply filter_In in Hx as [Hx _]. apply filter_In in Hx as [Hx _].
          apply in_flat_map in Hx as [v [_ Hx]].
          apply (inv_index (delete_simplex_Inv t s HI)) in Hx. tauto.
    - apply IH in E; auto.
      intros x Hx. apply sremove_In in Hx as [Hx _]. apply Hq. right; auto.
  Qed.

  Lemma new_from_faces_In o pt faces x :
    In x (new_from_faces o pt faces) -> exists f, In f faces /\ x = nat_insert pt f.
  Proof.
    unfold new_from_faces. rewrite filter_In, in_map_iff. intros [[f [<- Hf]] _]. eauto.
  Qed.

  (* specification of bowyer_watson, for every oracle *)
  Lemma bowyer_watson_spec o pt t seed t2 bad newt :
    Inv t -> pt < nverts t -> (forall s, In s seed -> In s (simplices t)) ->
    bowyer_watson d o pt t seed = (t2, bad, newt) ->
    Inv t2 /\ verts t2 = verts t /\
    (forall s, In s bad -> In s (simplices t)) /\
    (forall s, In s (simplices t2) -> In s (simplices t) \/ In pt s) /\
    (forall s, In s (simplices t) -> ~ In s bad -> In s (simplices t2)) /\
    (forall s, In s bad -> ~ In pt s -> ~ In s (simplices t2)) /\
    (forall s, In s newt <-> In s (simplices t2) /\ In pt s).
  Proof.
    intros HI Hpt Hseed E. unfold bowyer_watson in E.
    destruct (bw_loop d o (length (simplices t) + length seed + 1) t seed [] []) as [t1 bad1] eqn:El.
    inversion E; subst t2 bad newt; clear E.
    apply bw_loop_spec in El; auto. destruct El as [H1 [H2 [H3 [H4 [H5 H6]]]]].
    assert (Hbad : forall s, In s bad1 -> In s (simplices t) /\ ~ In s (simplices t1)).
    { intros s Hs. destruct (H5 _ Hs) as [[]|Hb]; auto. }
    set (faces := filter (fun f => negb (nat_mem pt f)) (hole_faces bad1)).
    assert (Hnews : forall x, In x (new_from_faces o pt faces) ->
                     In pt x /\ forall v, In v x -> v < nverts t1).
    { intros x Hx. apply new_from_faces_In in Hx as [f [Hf ->]]. split.
      - apply nat_insert_In. auto.
      - intros v Hv. unfold nverts. rewrite H2. fold (nverts t).
        apply nat_insert_In in Hv as [->|Hv]; auto.
        unfold faces in Hf. apply filter_In in Hf as [Hf _]. unfold hole_faces in Hf.
        apply filter_In in Hf as [Hf _]. destruct (all_faces_incl _ _ _ Hf Hv) as [b [Hb Hvb]].
        apply Hbad in Hb as [Hb _]. eapply (inv_range HI); eauto. }
    destruct (fold_add_simplex_spec (new_from_faces o pt faces) t1) as [G1 [G2 G3]]; auto.
    { intros s v Hs Hv. apply Hnews in Hs as [_ Hs]. auto. }
    fold faces. split; [exact G1|]. split; [rewrite G2; exact H2|].
    split; [intros s Hs; apply Hbad in Hs; tauto|].
    split.
    { intros s Hs. apply G3 in Hs as [Hs|Hs]; [left; auto|right; apply Hnews in Hs; tauto]. }
    split.
    { intros s Hs Hnb. apply G3. left. destruct (H4 _ Hs); tauto. }
    split.
    { intros s Hs Hnp Hc. apply G3 in Hc as [Hc|Hc].
      - apply Hbad in Hs. tauto.
      - apply Hnews in Hc. tauto. }
    intros s. rewrite (inv_index G1). tauto.
  Qed.

  (* ---------------- add_point ---------------- *)
  Lemma base_Inv t p : Inv t -> Inv (mk (verts t ++ [p]) (simplices t) (v2s t ++ [[]])).
  Proof.
    intros HI. constructor; cbn [v2s simplices verts].
    - intros v s. rewrite nth_app_nil. apply (inv_index HI).
    - intros s v Hs Hv. unfold nverts; cbn [verts]. rewrite app_length. cbn [length].
      pose proof (inv_range HI _ _ Hs Hv). unfold nverts in *. lia.
    - unfold nverts; cbn [verts]. rewrite !app_length. cbn [length]. pose proof (inv_len HI).
      unfold nverts in *. lia.
  Qed.

  Lemma pt_not_in_old t s : Inv t -> In s (simplices t) -> ~ In (nverts t) s.
  Proof. intros HI Hs Hc. pose proof (inv_range HI _ _ Hs Hc). lia. Qed.

  Lemma hull_candidates_spec o t x :
    Inv t -> In x (hull_candidates o (nverts t) t) ->
    In (nverts t) x /\ forall v, In v x -> v <= nverts t.
  Proof.
    intros HI Hx. unfold hull_candidates in Hx. apply new_from_faces_In in Hx as [f [Hf ->]].
    split; [apply nat_insert_In; auto|]. intros v Hv. apply nat_insert_In in Hv as [->|Hv]; auto.
    apply filter_In in Hf as [Hf _]. unfold hull_faces in Hf. apply filter_In in Hf as [Hf _].
    destruct (all_faces_incl _ _ _ Hf Hv) as [b [Hb Hvb]]. pose proof (inv_range HI _ _ Hb Hvb). lia.
  Qed.

  Definition loc_of (hint : option simplex) o : simplex :=
    match hint with Some s => s | None => o_locate o end.

  Definition exact_report t t' (del add : list simplex) : Prop :=
    (forall s, In s del <-> In s (simplices t) /\ ~ In s (simplices t')) /\
    (forall s, In s add <-> In s (simplices t') /\ ~ In s (simplices t)).

  (* everything that is proved about one accepted / rejected insertion *)
  Lemma add_point_spec t p hint o t' r :
    Inv t -> legal_op t (AddPoint p hint o) = true ->
    add_point d t p hint o = (t', r) ->
    Inv t' /\
    match r with
    | Accepted del add =>
        exact_report t t' del add /\ verts t' = verts t ++ [p] /\
        (forall s, In s add -> In (nverts t) s)
    | Rejected _ => t' = t
    | Broken => verts t' = verts t /\ simplices t' = simplices t
    end.
  Proof.
    intros HI Hleg E. unfold add_point in E. cbn [legal_op] in Hleg. fold (loc_of hint o) in *.
    destruct (loc_of hint o) as [|l0 loc] eqn:Eloc.
    - (* outside the hull *)
      destruct (broken_faces (all_faces (simplices t))) eqn:Eb.
      { inversion E; subst. split; [|split; reflexivity].
        constructor; cbn [v2s simplices verts].
        - intros v s. rewrite nth_app_nil. apply (inv_index HI).
        - intros s v Hs Hv. apply (inv_range HI _ _ Hs Hv).
        - unfold nverts; cbn [verts]. rewrite app_length. pose proof (inv_len HI). unfold nverts in *. lia. }
      destruct (hull_candidates o (nverts t) t) as [|c temp'] eqn:Et.
      { inversion E; subst. assert (Hs : mk (verts t) (simplices t) (remove_nth (nverts t) (v2s t ++ [[]])) = t).
        { rewrite remove_nth_trailing; [destruct t; reflexivity|apply (inv_len HI)|].
          intros i Hi. apply no_elements_nil. intros x Hx. apply (inv_index HI) in Hx as [Hx1 Hx2].
          pose proof (inv_range HI _ _ Hx1 Hx2). lia. }
        rewrite Hs. split; auto. }
      rewrite <- Et in E. set (temp := hull_candidates o (nverts t) t) in *.
      set (tb := mk (verts t ++ [p]) (simplices t) (v2s t ++ [[]])) in *.
      assert (Htb : Inv tb) by (apply base_Inv; auto).
      assert (Hnb : nverts tb = S (nverts t)).
      { unfold nverts, tb; cbn [verts]. rewrite app_length. cbn [length]. lia. }
      destruct (fold_add_simplex_spec temp tb) as [G1 [G2 G3]]; auto.
      { intros s v Hs Hv. rewrite Hnb. apply (hull_candidates_spec o t _ HI) in Hs as [_ Hs]. specialize (Hs _ Hv). lia. }
      set (t1 := fold_left (@add_simplex P) temp tb) in *.
      destruct (bowyer_watson d o (nverts t) t1 (nth (nverts t) (v2s t1) [])) as [[t2 bad] newt] eqn:Ebw.
      inversion E; subst t' r; clear E.
      apply bowyer_watson_spec in Ebw; auto.
      2:{ unfold nverts at 2. rewrite G2. fold (nverts tb). lia. }
      2:{ intros s Hs. apply (inv_index G1) in Hs. tauto. }
      destruct Ebw as [B0 [B1 [BA [BB [BC [BD BE]]]]]].
      assert (HT : forall s, In s temp -> In (nverts t) s).
      { intros s Hs. apply (hull_candidates_spec o t _ HI) in Hs. tauto. }
      assert (HS1 : forall s, In s (simplices t1) <-> In s (simplices t) \/ In s temp).
      { intros s. rewrite G3. unfold tb; cbn [simplices]. tauto. }
      split; [exact B0|]. split; [|split].
      + split; intros s.
        * rewrite !sdiff_In. split.
          -- intros [[Hb Hn] Hnt]. assert (Hs : In s (simplices t)).
             { apply BA in Hb. apply HS1 in Hb. tauto. }
             split; auto. apply BD; auto. apply pt_not_in_old; auto.
          -- intros [Hs Hn2]. assert (Hb : In s bad).
             { destruct (In_dec_s s bad); auto. exfalso. apply Hn2. apply BC; auto. apply HS1; auto. }
             repeat split; auto.
             ++ intros Hc. apply BE in Hc. tauto.
             ++ intros Hc. apply HT in Hc. apply (pt_not_in_old t s HI Hs Hc).
        * rewrite sunion_In, !sdiff_In. split.
          -- intros [[Hn Hnb2]|[Ht Hnd]].
             ++ apply BE in Hn as [Hn1 Hn2]. split; auto. intros Hc. apply (pt_not_in_old t s HI Hc Hn2).
             ++ split; [|intros Hc; apply HT in Ht; apply (pt_not_in_old t s HI Hc Ht)].
                destruct (In_dec_s s bad) as [Hb|Hb].
                ** destruct (In_dec_s s newt) as [Hn|Hn]; [apply BE in Hn; tauto|].
                   exfalso. apply Hnd. split; auto.
                ** apply BC; auto. apply HS1; auto.
          -- intros [Hs2 Hns]. assert (Hp : In (nverts t) s).
             { destruct (BB _ Hs2) as [H|H]; auto. apply HS1 in H as [H|H]; [tauto|auto]. }
             assert (Hn : In s newt) by (apply BE; auto).
             destruct (In_dec_s s bad) as [Hb|Hb]; [|left; auto].
             right. split.
             ++ apply BA in Hb. apply HS1 in Hb. tauto.
             ++ intros [_ Hc]. tauto.
      + rewrite B1, G2. reflexivity.
      + intros s Hs. apply sunion_In in Hs as [Hs|Hs].
        * apply sdiff_In in Hs as [Hs _]. apply BE in Hs. tauto.
        * apply sdiff_In in Hs as [Hs _]. auto.
    - (* hinted / located simplex *)
      assert (Hloc : In (l0 :: loc) (simplices t)) by (apply smem_In; exact Hleg).
      assert (Hrej : mk (verts t) (simplices t) (removelast (v2s t ++ [[]])) = t).
      { rewrite removelast_last. destruct t; reflexivity. }
      destruct (o_reduce o) as [|r0 [|r1 red]] eqn:Er.
      { inversion E; subst. rewrite Hrej. auto. }
      { inversion E; subst. rewrite Hrej. auto. }
      set (tb := mk (verts t ++ [p]) (simplices t) (v2s t ++ [[]])) in *.
      assert (Htb : Inv tb) by (apply base_Inv; auto).
      assert (Hnb : nverts tb = S (nverts t)).
      { unfold nverts, tb; cbn [verts]. rewrite app_length. cbn [length]. lia. }
      destruct (bowyer_watson d o (nverts t) tb (@cons simplex (l0 :: loc) nil)) as [[t2 bad] newt] eqn:Ebw.
      inversion E; subst t' r; clear E.
      apply bowyer_watson_spec in Ebw; auto; [|lia|intros s [<-|[]]; exact Hloc].
      destruct Ebw as [B0 [B1 [BA [BB [BC [BD BE]]]]]]. cbn [simplices tb] in *.
      split; [exact B0|]. split; [|split].
      + split; intros s; rewrite sdiff_In.
        * split.
          -- intros [Hb Hn]. split; [apply BA; auto|]. apply BD; auto. apply pt_not_in_old; auto.
          -- intros [Hs Hn]. assert (Hb : In s bad).
             { destruct (In_dec_s s bad); auto. exfalso. apply Hn. apply BC; auto. }
             split; auto. intros Hc. apply BE in Hc. tauto.
        * split.
          -- intros [Hn Hb]. apply BE in Hn as [Hn1 Hn2]. split; auto. intros Hc. apply (pt_not_in_old t s HI Hc Hn2).
          -- intros [Hs Hn]. assert (Hp : In (nverts t) s) by (destruct (BB _ Hs); tauto).
             split; [apply BE; auto|]. intros Hc. apply BA in Hc. tauto.
      + rewrite B1. reflexivity.
      + intros s Hs. apply sdiff_In in Hs as [Hs _]. apply BE in Hs. tauto.
  Qed.

  (* ---------------- histories ---------------- *)
  Notation op := (op P).
  Implicit Types (h : list op).

  Lemma run_cons t (a : op) h : run d t (a :: h) = run d (fst (step d t a)) h.
  Proof. reflexivity. Qed.

  Lemma step_Inv t (a : op) : Inv t -> legal_op t a = true -> Inv (fst (step d t a)).
  Proof.
    intros HI Hl. destruct a as [p hint o]. cbn [step].
    destruct (add_point d t p hint o) as [t' r] eqn:E. cbn [fst].
    eapply add_point_spec in E; eauto. tauto.
  Qed.

  Lemma run_Inv : forall h t, Inv t -> legal d t h = true -> Inv (run d t h).
  Proof.
    induction h as [|a h IH]; intros t HI Hl; [exact HI|].
    cbn [legal] in Hl. apply andb_true_iff in Hl as [H1 H2]. rewrite run_cons.
    apply IH; auto. apply step_Inv; auto.
  Qed.

  Lemma legal_app : forall h1 h2 t, legal d t (h1 ++ h2) = true ->
    legal d t h1 = true /\ legal d (run d t h1) h2 = true.
  Proof.
    induction h1 as [|a h1 IH]; intros h2 t H; cbn [app legal] in *; [auto|].
    apply andb_true_iff in H as [H1 H2]. apply IH in H2 as [H2 H3]. rewrite H1, H2. auto.
  Qed.

  (* the state reached by a legal history from a well-formed initial triangulation *)
  Definition reach (vs : list P) (ss : list simplex) h : tri := run d (init vs ss) h.
  Definition wf_init (vs : list P) (ss : list simplex) : Prop :=
    forall s v, In s ss -> In v s -> v < length vs.

  Theorem index_consistent vs ss h :
    wf_init vs ss -> legal d (init vs ss) h = true -> Inv (reach vs ss h).
  Proof. intros Hw Hl. apply run_Inv; auto. apply init_Inv; auto. Qed.

  Section AtState.
    Variables (vs : list P) (ss : list simplex) (h : list op).
    Variables (p : P) (hint : option simplex) (o : orc).
    Hypothesis Hw : wf_init vs ss.
    Hypothesis Hl : legal d (init vs ss) (h ++ [AddPoint p hint o]) = true.
    Let t := reach vs ss h.
    Let res := add_point d t p hint o.

    Lemma at_state : Inv t /\ legal_op t (AddPoint p hint o) = true.
    Proof.
      apply legal_app in Hl as [H1 H2]. split; [apply index_consistent; auto|].
      cbn [legal] in H2. apply andb_true_iff in H2. tauto.
    Qed.

    Theorem report_exact del add :
      snd res = Accepted del add -> exact_report t (fst res) del add.
    Proof.
      destruct at_state as [HI Hleg]. unfold res. destruct (add_point d t p hint o) as [t' r] eqn:E.
      cbn [fst snd]. intros ->. eapply add_point_spec in E; eauto. tauto.
    Qed.

    Theorem reject_unchanged why : snd res = Rejected why -> fst res = t.
    Proof.
      destruct at_state as [HI Hleg]. unfold res. destruct (add_point d t p hint o) as [t' r] eqn:E.
      cbn [fst snd]. intros ->. eapply add_point_spec in E; eauto. tauto.
    Qed.

    Theorem every_new_simplex_has_pt del add s :
      snd res = Accepted del add -> In s add -> In (nverts t) s.
    Proof.
      destruct at_state as [HI Hleg]. unfold res. destruct (add_point d t p hint o) as [t' r] eqn:E.
      cbn [fst snd]. intros -> Hs. eapply add_point_spec in E; eauto. destruct E as [_ [_ [_ E]]]. auto.
    Qed.

    Theorem vertices_appended_once :
      match snd res with
      | Accepted _ _ => verts (fst res) = verts t ++ [p]
      | _ => verts (fst res) = verts t
      end.
    Proof.
      destruct at_state as [HI Hleg]. unfold res. destruct (add_point d t p hint o) as [t' r] eqn:E.
      cbn [fst snd]. eapply add_point_spec in E; eauto. destruct E as [_ E].
      destruct r; [tauto | rewrite E; reflexivity | tauto].
    Qed.
  End AtState.
End TriProofs.

Arguments wf_init {P}.
Arguments reach {P}.
Arguments Inv {P}.
