(* The reported loss is a maximal entry of the loss table (by the code's own
   sort key), and the rescale sweep recomputes every interval.  (C01) *)
From AV Require Import Base.Prelude Base.SortLemmas Model.L1D Proofs.L1DOrder Proofs.L1DMaps Proofs.L1DStruct.
Set Implicit Arguments.

(* ---- insertion sort: the head is minimal for a comparator that is
        asymmetric and negatively transitive (any strict weak order) ---- *)
Section SortHead.
  Variable A : Type.
  Variable lt' : A -> A -> bool.
  Hypothesis asym : forall a b, lt' a b = true -> lt' b a = false.
  Hypothesis negtrans : forall a b c, lt' a c = true -> lt' a b = true \/ lt' b c = true.

  Definition head_min (l : list A) : Prop :=
    match l with [] => True | h :: t => forall y, In y t -> lt' y h = false end.

  Lemma sort_insert_head x l : head_min l -> head_min (sort_insert lt' x l).
  Proof.
    destruct l as [|h t]; cbn [sort_insert head_min]; [intros _ y []|].
    intros Hm. destruct (lt' h x) eqn:E; cbn [head_min].
    - intros y Hy. apply sort_insert_In in Hy as [->|Hy]; [apply asym; exact E|apply Hm; exact Hy].
    - intros y [<-|Hy]; [exact E|].
      destruct (lt' y x) eqn:E2; [|reflexivity].
      destruct (negtrans h E2) as [H|H]; [rewrite (Hm y Hy) in H; discriminate|congruence].
  Qed.

  Lemma sort_by_head l : head_min (sort_by lt' l).
  Proof.
    unfold sort_by. assert (H : forall acc, head_min acc -> head_min (fold_left (fun acc0 e => sort_insert lt' e acc0) l acc)).
    { induction l as [|a l IH]; intros acc Hm; cbn [fold_left]; [exact Hm|]. apply IH, sort_insert_head, Hm. }
    apply H. exact I.
  Qed.

  Lemma sort_by_head_spec l h t : sort_by lt' l = h :: t -> In h l /\ forall y, In y l -> lt' y h = false \/ y = h.
  Proof.
    intros E. pose proof (sort_by_head l) as Hm. rewrite E in Hm. cbn [head_min] in Hm.
    assert (Hin : forall y, In y l <-> In y (h :: t)) by (intros y; rewrite <- E; symmetry; apply sort_by_In).
    split; [apply Hin; left; reflexivity|].
    intros y Hy. apply Hin in Hy as [<-|Hy]; [right; reflexivity|left; apply Hm; exact Hy].
  Qed.
End SortHead.

Section Loss.
  Variable num : Type.
  Variables (add sub mul div : num -> num -> num).
  Variables (ltb eqb : num -> num -> bool).
  Variables (zero one inf neg_inf : num).
  Variables (is_nan is_inf : num -> bool).
  Variable round12 : num -> num.
  Variable of_nat : nat -> num.
  Variable L : list (option num) -> list (option (Y num)) -> num.
  Variable P : params num.
  Hypothesis OL : OrdLaws ltb eqb.

  Notation st := (st num).
  Notation ival := (num * num)%type.
  Notation loss := (@loss num sub div ltb eqb inf is_nan is_inf round12 P).
  Notation key2_ltb := (@key2_ltb num sub div ltb eqb is_nan is_inf round12).
  Notation finite_loss2 := (@finite_loss2 num sub div is_nan is_inf round12).
  Notation missing_bounds := (@missing_bounds num eqb P).
  Notation get_loss := (@get_loss num sub div ltb eqb zero one L P).
  Notation update_interp := (@update_interp num sub mul div ltb eqb zero one L P).
  Notation sweep := (@sweep num sub mul div ltb eqb zero one is_nan is_inf round12 L P).
  Notation lget := (@lget num eqb).
  Notation lt := (lt ltb).

  Definition fl (xs : num) (e : ival * num) : num := finite_loss2 (fst e) (snd e) xs.

  Lemma key2_asym xs a b : key2_ltb xs a b = true -> key2_ltb xs b a = false.
  Proof.
    unfold L1D.key2_ltb. change (finite_loss2 (fst a) (snd a) xs) with (fl xs a). change (finite_loss2 (fst b) (snd b) xs) with (fl xs b).
    generalize (fl xs a) (fl xs b). intros fa fb.
    rewrite orb_true_iff, andb_true_iff, orb_false_iff, andb_false_iff.
    intros [H|[H1 H2]].
    - split.
      + destruct (ltb fa fb) eqn:E; [exfalso; exact (lt_asym OL H E)|reflexivity].
      + left. apply (eqb_neq OL). intros E. rewrite E in H. exact (lt_irrefl OL H).
    - apply (eqb_eq OL) in H1. rewrite H1. split; [apply (ltb_irrefl OL)|].
      right. destruct (L1D.ival_ltb ltb eqb (fst b) (fst a)) eqn:E; [|reflexivity].
      exfalso. exact (ilt_irrefl OL (ilt_trans OL H2 E)).
  Qed.

  Lemma key2_negtrans xs a b c : key2_ltb xs a c = true -> key2_ltb xs a b = true \/ key2_ltb xs b c = true.
  Proof.
    unfold L1D.key2_ltb.
    change (finite_loss2 (fst a) (snd a) xs) with (fl xs a). change (finite_loss2 (fst b) (snd b) xs) with (fl xs b).
    change (finite_loss2 (fst c) (snd c) xs) with (fl xs c).
    generalize (fl xs a) (fl xs b) (fl xs c). intros fa fb fc.
    rewrite !orb_true_iff, !andb_true_iff, !(eqb_eq OL).
    change (ltb ?x ?y = true) with (lt x y).
    change (L1D.ival_ltb ltb eqb ?i ?j = true) with (ilt ltb eqb i j).
    intros [H|[H1 H2]].
    - destruct (trichotomy OL fb fa) as [Hb|[Hb|Hb]].
      + left; left; exact Hb.
      + right; left. rewrite Hb. exact H.
      + right; left. exact (lt_trans OL H Hb).
    - destruct (trichotomy OL fb fa) as [Hb|[Hb|Hb]].
      + left; left; exact Hb.
      + destruct (ilt_total OL (fst a) (fst b)) as [Hi|[Hi|Hi]].
        * left; right. split; [symmetry; exact Hb|exact Hi].
        * right; right. split; [congruence|rewrite <- Hi; exact H2].
        * right; right. split; [congruence|exact (ilt_trans OL Hi H2)].
      + right; left. rewrite <- H1. exact Hb.
  Qed.

  (* loss(real): infinite while an end point is neither evaluated nor pending
     or no interval exists; otherwise the stored loss of a table entry whose
     finite_loss key is not smaller than that of any other entry *)
  Theorem loss_is_max (s : st) (real : bool) :
    let table := if real then los s else losc s in
    (missing_bounds s <> [] \/ table = [] -> loss s real = inf) /\
    (missing_bounds s = [] -> table <> [] ->
       exists e, In e table /\ loss s real = snd e /\
                 forall e', In e' table -> ltb (fl (mgrx s) e) (fl (mgrx s) e') = false).
  Proof.
    cbn zeta. unfold L1D.loss. split.
    - intros [Hm|Ht].
      + destruct (missing_bounds s); [congruence|reflexivity].
      + destruct (missing_bounds s); [|reflexivity]. rewrite Ht. reflexivity.
    - intros Hm Ht. rewrite Hm.
      destruct (sort_by (key2_ltb (mgrx s)) (if real then los s else losc s)) as [|e t] eqn:E.
      + exfalso. destruct (if real then los s else losc s) as [|e0 l0] eqn:E0; [congruence|].
        assert (Hin : In e0 (sort_by (key2_ltb (mgrx s)) (e0 :: l0))) by (apply sort_by_In; left; reflexivity).
        rewrite E in Hin. exact Hin.
      + destruct (@sort_by_head_spec _ _ (@key2_asym (mgrx s)) (@key2_negtrans (mgrx s)) _ _ _ E) as [Hin Hmin].
        exists e. split; [exact Hin|]. split; [reflexivity|].
        intros e' He'. destruct (Hmin e' He') as [Hk| ->]; [|apply (ltb_irrefl OL)].
        unfold L1D.key2_ltb in Hk. fold (fl (mgrx s) e') (fl (mgrx s) e) in Hk.
        apply orb_false_iff in Hk as [Hk _]. exact Hk.
  Qed.

  (* ---------------- the sweep recomputes every interval ---------------- *)
  Lemma get_loss_update_interp (s : st) (iv : ival) a b : get_loss (update_interp s iv) a b = get_loss s a b.
  Proof. destruct iv as [p q]. reflexivity. Qed.

  Lemma fold_interp_values ivs : forall (s : st) (iv : ival), In iv ivs ->
    lget iv (los (fold_left update_interp ivs s)) = Some (get_loss s (fst iv) (snd iv)) /\
    forall a b, get_loss (fold_left update_interp ivs s) a b = get_loss s a b.
  Proof.
    induction ivs as [|i0 ivs IH]; intros s iv Hin; [destruct Hin|].
    cbn [fold_left].
    assert (Hg : forall s' a b, get_loss (fold_left update_interp ivs s') a b = get_loss s' a b).
    { clear. induction ivs as [|i1 ivs IH]; intros s' a b; cbn [fold_left]; [reflexivity|].
      rewrite IH. apply get_loss_update_interp. }
    split; [|intros a b; rewrite Hg; apply get_loss_update_interp].
    destruct (In_dec_ival OL iv ivs) as [Hin'|Hn].
    - destruct (IH (update_interp s i0) iv Hin') as [H _]. rewrite H. f_equal. apply get_loss_update_interp.
    - destruct Hin as [->|Hin]; [|contradiction].
      (* iv is processed first and never touched again *)
      assert (Hk : forall s', lget iv (los (fold_left update_interp ivs s')) = lget iv (los s')).
      { clear - Hn OL. induction ivs as [|i1 ivs IH]; intros s'; cbn [fold_left]; [reflexivity|].
        rewrite IH; [|intros H; apply Hn; right; exact H].
        destruct i1 as [p q]. cbn [L1D.update_interp L1D.with_los los].
        rewrite (lget_lset OL). destruct (L1D.ival_eqb eqb iv (p, q)) eqn:E; [|reflexivity].
        apply (ival_eqb_eq OL) in E. exfalso. apply Hn. left. symmetry; exact E. }
      rewrite Hk. destruct iv as [p q]. cbn [L1D.update_interp L1D.with_los los fst snd].
      rewrite (lget_lset OL), (ival_eqb_refl OL). reflexivity.
  Qed.

  Theorem sweep_resets_all (s : st) (iv : ival) : In iv (keys (los s)) ->
    lget iv (los (sweep s)) = Some (get_loss (sweep s) (fst iv) (snd iv)).
  Proof.
    intros Hin. unfold L1D.sweep.
    set (order := rev (map fst (sort_by _ (los s)))).
    assert (Ho : In iv order).
    { unfold order. apply -> in_rev. unfold L1DMaps.keys in Hin. apply in_map_iff in Hin as [e [<- He]].
      apply in_map. apply sort_by_In. exact He. }
    destruct (fold_interp_values order s iv Ho) as [H1 H2]. rewrite H1, H2. reflexivity.
  Qed.
End Loss.
