(* Lemmas about the idealised quadrature rule of Model/QuadAlg.v (property C08).
   Everything is over Qc, exact and axiom-free. *)
From Coq Require Import QArith Qcanon List Arith Bool Lia.
From AV Require Import Model.QuadAlg.
Import ListNotations.
Local Open Scope Qc_scope.

Implicit Types (p q r : poly) (c : vec) (x a b m h : Qc) (k j n : nat).

(* ------------------------------------------------------------------ *)
(* numbers *)

Lemma of_nat_S k : of_nat (S k) = of_nat k + 1.
Proof.
  unfold of_nat, Qcplus. apply Q2Qc_eq_iff.
  change (this (Q2Qc (inject_Z (Z.of_nat k)))) with (Qred (inject_Z (Z.of_nat k))).
  rewrite Qred_correct. change (this 1) with 1%Q.
  rewrite Nat2Z.inj_succ. unfold Z.succ. rewrite inject_Z_plus. reflexivity.
Qed.

Lemma of_nat_0 : of_nat 0 = 0.
Proof. apply Qc_is_canon. reflexivity. Qed.

Lemma of_nat_S_neq0 k : of_nat (S k) <> 0.
Proof.
  unfold of_nat. intro H. apply Q2Qc_eq_iff in H.
  unfold Qeq in H. simpl in H. lia.
Qed.

Lemma two_neq0 : two <> 0.
Proof. unfold two. intro H. discriminate H. Qed.

(* [field] does not accept the constant [two] as an atom *)
Ltac field2 := unfold two; field; repeat split; try (let HH := fresh in intro HH; discriminate HH).

Lemma Qc_eqb_eq x y : Qc_eqb x y = true -> x = y.
Proof. unfold Qc_eqb. intro H. apply Qc_is_canon. apply Qeq_bool_eq. exact H. Qed.

Lemma Qc_eqb_neq x y : Qc_eqb x y = false -> x <> y.
Proof.
  unfold Qc_eqb. intros H E. subst y.
  rewrite (Qeq_eq_bool x x) in H; [discriminate | reflexivity].
Qed.

Lemma div0 x : 0 / x = 0.
Proof. unfold Qcdiv. ring. Qed.

(* ------------------------------------------------------------------ *)
(* coefficients *)

Definition peq p q : Prop := forall k, coef p k = coef q k.

Lemma coef_nil k : coef [] k = 0.
Proof. unfold coef. destruct k; reflexivity. Qed.

Lemma coef_cons_0 x p : coef (x :: p) 0 = x.
Proof. reflexivity. Qed.

Lemma coef_cons_S x p k : coef (x :: p) (S k) = coef p k.
Proof. reflexivity. Qed.

Lemma coef_overflow p k : (length p <= k)%nat -> coef p k = 0.
Proof. intro H. unfold coef. apply nth_overflow. exact H. Qed.

Lemma coef_padd p q k : coef (padd p q) k = coef p k + coef q k.
Proof.
  revert q k. induction p as [|u p IH]; intros q k.
  - cbn [padd]. rewrite coef_nil. ring.
  - destruct q as [|v q].
    + cbn [padd]. rewrite coef_nil. ring.
    + cbn [padd]. destruct k as [|k].
      * rewrite !coef_cons_0. reflexivity.
      * rewrite !coef_cons_S. apply IH.
Qed.

Lemma coef_pscale x p k : coef (pscale x p) k = x * coef p k.
Proof.
  revert k. induction p as [|u p IH]; intro k.
  - cbn [pscale map]. rewrite coef_nil. ring.
  - cbn [pscale map]. destruct k as [|k].
    + rewrite !coef_cons_0. reflexivity.
    + rewrite !coef_cons_S. apply IH.
Qed.

Lemma coef_psub p q k : coef (psub p q) k = coef p k - coef q k.
Proof. unfold psub. rewrite coef_padd, coef_pscale. ring. Qed.

Lemma coef_pmulx_0 p : coef (pmulx p) 0 = 0.
Proof. reflexivity. Qed.

Lemma coef_pmulx_S p k : coef (pmulx p) (S k) = coef p k.
Proof. reflexivity. Qed.

Lemma coef_pmul_lin_0 m h r : coef (pmul_lin m h r) 0 = m * coef r 0.
Proof. unfold pmul_lin. rewrite coef_padd, coef_pscale, coef_pmulx_0. ring. Qed.

Lemma coef_pmul_lin_S m h r k :
  coef (pmul_lin m h r) (S k) = m * coef r (S k) + h * coef r k.
Proof. unfold pmul_lin. rewrite coef_padd, coef_pscale, coef_pmulx_S, coef_pscale. ring. Qed.

Lemma coef_single x k : coef [x] (S k) = 0.
Proof. rewrite coef_cons_S. apply coef_nil. Qed.

(* ------------------------------------------------------------------ *)
(* evaluation *)

Lemma peval_zero q x : (forall k, coef q k = 0) -> peval q x = 0.
Proof.
  induction q as [|u q IH]; intro H.
  - reflexivity.
  - cbn [peval]. rewrite IH.
    + specialize (H 0%nat). rewrite coef_cons_0 in H. rewrite H. ring.
    + intro k. specialize (H (S k)). rewrite coef_cons_S in H. exact H.
Qed.

Lemma peval_ext p q x : peq p q -> peval p x = peval q x.
Proof.
  unfold peq. revert q. induction p as [|u p IH]; intros q H.
  - cbn [peval]. symmetry. apply peval_zero. intro k. rewrite <- H. apply coef_nil.
  - destruct q as [|v q].
    + apply peval_zero. intro k. rewrite H. apply coef_nil.
    + cbn [peval]. rewrite (IH q).
      * specialize (H 0%nat). rewrite !coef_cons_0 in H. rewrite H. reflexivity.
      * intro k. specialize (H (S k)). rewrite !coef_cons_S in H. exact H.
Qed.

Lemma peval_padd p q x : peval (padd p q) x = peval p x + peval q x.
Proof.
  revert q. induction p as [|u p IH]; intro q.
  - cbn [padd peval]. ring.
  - destruct q as [|v q].
    + cbn [padd peval]. ring.
    + cbn [padd peval]. rewrite IH. ring.
Qed.

Lemma peval_pscale y p x : peval (pscale y p) x = y * peval p x.
Proof.
  induction p as [|u p IH].
  - cbn [pscale map peval]. ring.
  - cbn [pscale map peval]. fold (pscale y p). rewrite IH. ring.
Qed.

Lemma peval_pmulx p x : peval (pmulx p) x = x * peval p x.
Proof. unfold pmulx. cbn [peval]. ring. Qed.

Lemma peval_psub p q x : peval (psub p q) x = peval p x - peval q x.
Proof. unfold psub. rewrite peval_padd, peval_pscale. ring. Qed.

Lemma peval_pmul_lin m h r x : peval (pmul_lin m h r) x = (m + h * x) * peval r x.
Proof. unfold pmul_lin. rewrite peval_padd, peval_pscale, peval_pmulx, peval_pscale. ring. Qed.

Lemma peval_pshift p m h x : peval (pshift p m h) x = peval p (m + h * x).
Proof.
  induction p as [|u p IH].
  - reflexivity.
  - cbn [pshift]. rewrite peval_padd, peval_pmul_lin, IH. cbn [peval]. ring.
Qed.

(* ------------------------------------------------------------------ *)
(* lengths: the substitution x = m + h t does not raise the degree *)

Lemma length_padd p q : length (padd p q) = Nat.max (length p) (length q).
Proof.
  revert q. induction p as [|u p IH]; intro q.
  - reflexivity.
  - destruct q as [|v q].
    + reflexivity.
    + cbn [padd length]. rewrite IH. reflexivity.
Qed.

Lemma length_pscale x p : length (pscale x p) = length p.
Proof. unfold pscale. apply map_length. Qed.

Lemma length_pmul_lin m h r : length (pmul_lin m h r) = S (length r).
Proof.
  unfold pmul_lin, pmulx. rewrite length_padd. cbn [length].
  rewrite !length_pscale. lia.
Qed.

Lemma length_pshift p m h : length (pshift p m h) = length p.
Proof.
  induction p as [|u p IH].
  - reflexivity.
  - cbn [pshift]. rewrite length_padd, length_pmul_lin, IH. cbn [length]. lia.
Qed.

(* ------------------------------------------------------------------ *)
(* derivative, antiderivative *)

Lemma coef_pderiv_from p i k :
  coef (pderiv_from i p) k = of_nat (i + k) * coef p k.
Proof.
  revert i k. induction p as [|u p IH]; intros i k.
  - cbn [pderiv_from]. rewrite !coef_nil. ring.
  - cbn [pderiv_from]. destruct k as [|k].
    + rewrite !coef_cons_0. rewrite Nat.add_0_r. reflexivity.
    + rewrite !coef_cons_S. rewrite IH. replace (S i + k)%nat with (i + S k)%nat by lia. reflexivity.
Qed.

Lemma coef_pderiv p k : coef (pderiv p) k = of_nat (S k) * coef p (S k).
Proof.
  unfold pderiv. rewrite coef_pderiv_from. destruct p as [|u p].
  - cbn [tl]. rewrite !coef_nil. ring.
  - cbn [tl]. rewrite coef_cons_S. reflexivity.
Qed.

Lemma coef_pantider_from p i k :
  coef (pantider_from i p) k = coef p k / of_nat (S (i + k)).
Proof.
  revert i k. induction p as [|u p IH]; intros i k.
  - cbn [pantider_from]. rewrite !coef_nil. rewrite div0. reflexivity.
  - cbn [pantider_from]. destruct k as [|k].
    + rewrite !coef_cons_0. rewrite Nat.add_0_r. reflexivity.
    + rewrite !coef_cons_S. rewrite IH. replace (S i + k)%nat with (i + S k)%nat by lia. reflexivity.
Qed.

Lemma coef_pantider_0 p : coef (pantider p) 0 = 0.
Proof. reflexivity. Qed.

Lemma coef_pantider_S p k : coef (pantider p) (S k) = coef p k / of_nat (S k).
Proof. unfold pantider. rewrite coef_cons_S. rewrite coef_pantider_from. reflexivity. Qed.

(* the formal fundamental theorem: (antiderivative p)' = p *)
Lemma pderiv_pantider p : peq (pderiv (pantider p)) p.
Proof.
  intro k. rewrite coef_pderiv, coef_pantider_S. field. apply of_nat_S_neq0.
Qed.

Lemma pint_ext p q a b : peq p q -> pint p a b = pint q a b.
Proof.
  intro H. unfold pint.
  assert (E : peq (pantider p) (pantider q)).
  { intros [|k].
    - reflexivity.
    - rewrite !coef_pantider_S. rewrite H. reflexivity. }
  rewrite (peval_ext _ _ b E), (peval_ext _ _ a E). reflexivity.
Qed.

Lemma pint_padd p q a b : pint (padd p q) a b = pint p a b + pint q a b.
Proof.
  unfold pint.
  assert (E : peq (pantider (padd p q)) (padd (pantider p) (pantider q))).
  { intros [|k].
    - rewrite coef_padd, !coef_pantider_0. ring.
    - rewrite coef_padd, !coef_pantider_S, coef_padd. unfold Qcdiv. ring. }
  rewrite (peval_ext _ _ b E), (peval_ext _ _ a E), !peval_padd. ring.
Qed.

Lemma pint_pscale y p a b : pint (pscale y p) a b = y * pint p a b.
Proof.
  unfold pint.
  assert (E : peq (pantider (pscale y p)) (pscale y (pantider p))).
  { intros [|k].
    - rewrite coef_pscale, !coef_pantider_0. ring.
    - rewrite coef_pscale, !coef_pantider_S, coef_pscale. unfold Qcdiv. ring. }
  rewrite (peval_ext _ _ b E), (peval_ext _ _ a E), !peval_pscale. ring.
Qed.

Lemma pint_nil a b : pint [] a b = 0.
Proof. unfold pint, pantider. cbn. ring. Qed.

(* additivity over a split, any polynomial *)
Lemma pint_split p a m b : pint p a m + pint p m b = pint p a b.
Proof. unfold pint. ring. Qed.

(* ------------------------------------------------------------------ *)
(* the substitution x = m + h t respects coefficient-wise equality and sums *)

Lemma padd_nil_r p : padd p [] = p.
Proof. destruct p; reflexivity. Qed.

Lemma pshift_zero q m h : (forall k, coef q k = 0) -> forall k, coef (pshift q m h) k = 0.
Proof.
  induction q as [|u q IH]; intros H k.
  - cbn [pshift]. apply coef_nil.
  - assert (Hq : forall k, coef q k = 0).
    { intro i. specialize (H (S i)). rewrite coef_cons_S in H. exact H. }
    specialize (IH Hq). cbn [pshift]. rewrite coef_padd. destruct k as [|k].
    + rewrite coef_pmul_lin_0, IH. specialize (H 0%nat). rewrite coef_cons_0 in H |- *. rewrite H. ring.
    + rewrite coef_pmul_lin_S, !IH, coef_single. ring.
Qed.

Lemma peq_pshift p q m h : peq p q -> peq (pshift p m h) (pshift q m h).
Proof.
  unfold peq. revert q. induction p as [|u p IH]; intros q H k.
  - cbn [pshift]. rewrite coef_nil. symmetry. apply pshift_zero.
    intro i. rewrite <- H. apply coef_nil.
  - destruct q as [|v q].
    + change (pshift [] m h) with (@nil Qc). rewrite coef_nil. apply pshift_zero.
      intro i. rewrite H. apply coef_nil.
    + assert (Huv : u = v). { specialize (H 0%nat). rewrite !coef_cons_0 in H. exact H. }
      assert (Hpq : forall i, coef p i = coef q i).
      { intro i. specialize (H (S i)). rewrite !coef_cons_S in H. exact H. }
      specialize (IH q Hpq). cbn [pshift]. rewrite !coef_padd. subst v. f_equal.
      destruct k as [|k].
      * rewrite !coef_pmul_lin_0, IH. reflexivity.
      * rewrite !coef_pmul_lin_S, !IH. reflexivity.
Qed.

Lemma pshift_cons u p m h : pshift (u :: p) m h = padd [u] (pmul_lin m h (pshift p m h)).
Proof. reflexivity. Qed.

Lemma padd_cons u v p q : padd (u :: p) (v :: q) = (u + v) :: padd p q.
Proof. reflexivity. Qed.

Lemma pshift_padd p q m h : peq (pshift (padd p q) m h) (padd (pshift p m h) (pshift q m h)).
Proof.
  revert q. induction p as [|u p IH]; intros q k.
  - reflexivity.
  - destruct q as [|v q].
    + cbn [padd]. change (pshift [] m h) with (@nil Qc). rewrite padd_nil_r. reflexivity.
    + rewrite padd_cons, !pshift_cons. rewrite !coef_padd. destruct k as [|k].
      * rewrite !coef_pmul_lin_0, IH, coef_padd, !coef_cons_0. ring.
      * rewrite !coef_pmul_lin_S, !IH, !coef_padd, !coef_single. ring.
Qed.

Lemma pshift_pmulx p m h : peq (pshift (pmulx p) m h) (pmul_lin m h (pshift p m h)).
Proof.
  intro k. unfold pmulx. cbn [pshift]. rewrite coef_padd. destruct k as [|k].
  - rewrite coef_cons_0. ring.
  - rewrite coef_single. ring.
Qed.

(* (c + x G)' = G + x G' *)
Lemma pderiv_cons u p : peq (pderiv (u :: p)) (padd p (pmulx (pderiv p))).
Proof.
  intro k. rewrite coef_pderiv, coef_cons_S, coef_padd. destruct k as [|k].
  - rewrite coef_pmulx_0. rewrite of_nat_S, of_nat_0. ring.
  - rewrite coef_pmulx_S, coef_pderiv. rewrite (of_nat_S (S k)). ring.
Qed.

(* chain rule for an affine substitution *)
Lemma pderiv_pshift p m h :
  peq (pderiv (pshift p m h)) (pscale h (pshift (pderiv p) m h)).
Proof.
  induction p as [|u p IH]; intro k.
  - unfold pderiv. cbn [pshift tl pderiv_from pscale map]. reflexivity.
  - rewrite coef_pscale.
    rewrite (peq_pshift _ _ m h (pderiv_cons u p) k).
    rewrite (pshift_padd p (pmulx (pderiv p)) m h k), coef_padd.
    rewrite (pshift_pmulx (pderiv p) m h k).
    cbn [pshift]. rewrite coef_pderiv, coef_padd, coef_single, coef_pmul_lin_S.
    assert (IHk := IH k). rewrite coef_pderiv, coef_pscale in IHk.
    destruct k as [|k].
    + rewrite coef_pmul_lin_0.
      transitivity (m * (of_nat 1 * coef (pshift p m h) 1) + of_nat 1 * h * coef (pshift p m h) 0).
      * ring.
      * rewrite IHk. rewrite of_nat_S, of_nat_0. ring.
    + rewrite coef_pmul_lin_S.
      assert (IHk' := IH k). rewrite coef_pderiv, coef_pscale in IHk'.
      transitivity (m * (of_nat (S (S k)) * coef (pshift p m h) (S (S k)))
                    + h * (of_nat (S k) * coef (pshift p m h) (S k)) + h * coef (pshift p m h) (S k)).
      * rewrite (of_nat_S (S k)). ring.
      * rewrite IHk, IHk'. ring.
Qed.

(* two polynomials whose non-constant coefficients agree have equal differences *)
Lemma peval_diff_tail p q x y :
  (forall k, coef p (S k) = coef q (S k)) -> peval p x - peval p y = peval q x - peval q y.
Proof.
  intro H.
  assert (T : forall p', peval p' x - peval p' y = x * peval (tl p') x - y * peval (tl p') y).
  { intros [|u p']; cbn [tl peval]; ring. }
  rewrite (T p), (T q).
  assert (E : peq (tl p) (tl q)).
  { intro k. specialize (H k). destruct p, q; cbn [tl]; rewrite ?coef_nil in *; rewrite ?coef_cons_S in H; auto. }
  rewrite (peval_ext _ _ x E), (peval_ext _ _ y E). reflexivity.
Qed.

(* integration by substitution x = m + h t *)
Lemma pint_shift p m h : pint p (m - h) (m + h) = h * pint (pshift p m h) (- (1)) 1.
Proof.
  unfold pint.
  set (G := pantider p). set (Q := pantider (pshift p m h)).
  replace (peval G (m + h)) with (peval (pshift G m h) 1) by (rewrite peval_pshift; f_equal; ring).
  replace (peval G (m - h)) with (peval (pshift G m h) (- (1))) by (rewrite peval_pshift; f_equal; ring).
  replace (h * (peval Q 1 - peval Q (- (1))))
    with (peval (pscale h Q) 1 - peval (pscale h Q) (- (1))) by (rewrite !peval_pscale; ring).
  apply peval_diff_tail. intro k.
  rewrite coef_pscale. unfold Q. rewrite coef_pantider_S.
  assert (C := pderiv_pshift G m h k).
  unfold G in *. clear G.
  rewrite coef_pderiv, coef_pscale in C.
  rewrite (peq_pshift _ _ m h (pderiv_pantider p) k) in C.
  assert (N := of_nat_S_neq0 k).
  transitivity (of_nat (S k) * coef (pshift (pantider p) m h) (S k) / of_nat (S k)).
  - field. exact N.
  - rewrite C. field. exact N.
Qed.

(* ------------------------------------------------------------------ *)
(* finite sums *)

Lemma sum_ext n (f g : nat -> Qc) : (forall k, (k < n)%nat -> f k = g k) -> sum n f = sum n g.
Proof.
  induction n as [|n IH]; intro H.
  - reflexivity.
  - cbn [sum]. rewrite IH, H; auto.
Qed.

Lemma sum_zero n (f : nat -> Qc) : (forall k, (k < n)%nat -> f k = 0) -> sum n f = 0.
Proof.
  induction n as [|n IH]; intro H.
  - reflexivity.
  - cbn [sum]. rewrite IH, H by auto. ring.
Qed.

Lemma sum_add n (f g : nat -> Qc) : sum n (fun k => f k + g k) = sum n f + sum n g.
Proof. induction n as [|n IH]; cbn [sum]; [ring | rewrite IH; ring]. Qed.

Lemma sum_scal n x (f : nat -> Qc) : sum n (fun k => x * f k) = x * sum n f.
Proof. induction n as [|n IH]; cbn [sum]; [ring | rewrite IH; ring]. Qed.

Lemma sum_swap n n2 (f : nat -> nat -> Qc) :
  sum n (fun i => sum n2 (fun j => f i j)) = sum n2 (fun j => sum n (fun i => f i j)).
Proof.
  induction n as [|n IH].
  - cbn [sum]. symmetry. apply sum_zero. reflexivity.
  - cbn [sum]. rewrite IH, <- sum_add. reflexivity.
Qed.

Lemma sum_delta n i (f : nat -> Qc) : (i < n)%nat -> sum n (fun k => delta i k * f k) = f i.
Proof.
  induction n as [|n IH]; intro H.
  - lia.
  - cbn [sum]. unfold delta at 2. destruct (Nat.eqb_spec i n) as [E|E].
    + subst i. rewrite sum_zero.
      * ring.
      * intros k Hk. unfold delta. destruct (Nat.eqb_spec n k); [lia | ring].
    + rewrite IH by lia. ring.
Qed.

(* only the term k = 0 *)
Lemma sum_first n (f : nat -> Qc) :
  (forall k, (0 < k < n)%nat -> f k = 0) -> (0 < n)%nat -> sum n f = f 0%nat.
Proof.
  induction n as [|n IH]; intros H Hn.
  - lia.
  - cbn [sum]. destruct n as [|n].
    + cbn [sum]. ring.
    + rewrite IH.
      * rewrite (H (S n)) by lia. ring.
      * intros k Hk. apply H. lia.
      * lia.
Qed.

Lemma sum_more n n' (f : nat -> Qc) :
  (n <= n')%nat -> (forall k, (n <= k < n')%nat -> f k = 0) -> sum n' f = sum n f.
Proof.
  induction n' as [|n' IH]; intros H Z.
  - replace n with 0%nat by lia. reflexivity.
  - destruct (Nat.eq_dec n (S n')) as [E|E].
    + subst n. reflexivity.
    + cbn [sum]. rewrite IH.
      * rewrite (Z n') by lia. ring.
      * lia.
      * intros k Hk. apply Z. lia.
Qed.

(* ------------------------------------------------------------------ *)
(* interpolation in a basis with a left inverse reproduces the coefficients *)

Lemma mv_ext n (M : mat) (v w : vec) i :
  (forall j, (j < n)%nat -> v j = w j) -> mv n M v i = mv n M w i.
Proof. intro H. unfold mv. apply sum_ext. intros j Hj. rewrite H by exact Hj. reflexivity. Qed.

Lemma coeffs_recovered n (Vinv V : mat) c :
  left_inverse n Vinv V -> forall i, (i < n)%nat -> coeffs n Vinv (mv n V c) i = c i.
Proof.
  intros L i Hi. unfold coeffs, mv.
  transitivity (sum n (fun j => sum n (fun k => Vinv i j * V j k * c k))).
  { apply sum_ext. intros j _. rewrite <- sum_scal. apply sum_ext. intros k _. ring. }
  rewrite sum_swap.
  transitivity (sum n (fun k => delta i k * c k)).
  { apply sum_ext. intros k Hk. rewrite <- (L i k Hi Hk). unfold mm.
    transitivity (sum n (fun j => c k * (Vinv i j * V j k))).
    - apply sum_ext. intros j _. ring.
    - rewrite sum_scal. ring. }
  apply sum_delta. exact Hi.
Qed.

(* coeffs is linear in the function values *)
Lemma coeffs_linear n (Vinv : mat) (f g : vec) x y i :
  coeffs n Vinv (fun j => x * f j + y * g j) i = x * coeffs n Vinv f i + y * coeffs n Vinv g i.
Proof.
  unfold coeffs, mv. rewrite <- !sum_scal, <- sum_add. apply sum_ext. intros j _. ring.
Qed.

(* ------------------------------------------------------------------ *)
(* Legendre combinations *)

Lemma coef_lincomb n c j : coef (lincomb n c) j = sum n (fun k => c k * coef (leg k) j).
Proof.
  induction n as [|n IH].
  - cbn [lincomb sum]. apply coef_nil.
  - cbn [lincomb sum]. rewrite coef_padd, coef_pscale, IH. reflexivity.
Qed.

Lemma peval_lincomb n c x : peval (lincomb n c) x = sum n (fun k => c k * peval (leg k) x).
Proof.
  induction n as [|n IH].
  - reflexivity.
  - cbn [lincomb sum]. rewrite peval_padd, peval_pscale, IH. reflexivity.
Qed.

Lemma pint_lincomb n c a b : pint (lincomb n c) a b = sum n (fun k => c k * pint (leg k) a b).
Proof.
  induction n as [|n IH].
  - cbn [lincomb sum]. apply pint_nil.
  - cbn [lincomb sum]. rewrite pint_padd, pint_pscale, IH. reflexivity.
Qed.

Lemma lincomb_pad n n' c : (n <= n')%nat -> peq (lincomb n' (pad n c)) (lincomb n c).
Proof.
  intros H j. rewrite !coef_lincomb.
  rewrite (sum_more n n').
  2: exact H.
  2: { intros k Hk. unfold pad. destruct (Nat.ltb_spec k n); [lia | ring]. }
  apply sum_ext. intros k Hk. unfold pad. destruct (Nat.ltb_spec k n); [reflexivity | lia].
Qed.

(* the values of a Legendre combination at the nodes are V c *)
Lemma values_lincomb n c (xi : vec) j :
  peval (lincomb n c) (xi j) = mv n (Vmat xi) c j.
Proof. rewrite peval_lincomb. unfold mv, Vmat. apply sum_ext. intros k _. ring. Qed.

(* ------------------------------------------------------------------ *)
(* finite facts about P_0 .. P_32, by computation *)

Lemma leg_shape_all : forallb leg_shape_check (seq 0 NMAX) = true.
Proof. vm_compute. reflexivity. Qed.

Lemma leg_int_all : forallb leg_int_check (seq 0 NMAX) = true.
Proof. vm_compute. reflexivity. Qed.

Lemma leg_shape k : (k < NMAX)%nat -> length (leg k) = S k /\ coef (leg k) k <> 0.
Proof.
  intro H. assert (A := leg_shape_all). rewrite forallb_forall in A.
  specialize (A k). unfold leg_shape_check in A.
  rewrite andb_true_iff, Nat.eqb_eq, negb_true_iff in A.
  destruct A as [A1 A2]; [apply in_seq; lia |]. split; [exact A1 | apply Qc_eqb_neq; exact A2].
Qed.

(* int_{-1}^{1} P_0 = 2, int_{-1}^{1} P_k = 0 for 1 <= k <= 32 *)
Lemma leg_int k : (k < NMAX)%nat -> pint (leg k) (- (1)) 1 = if Nat.eqb k 0 then two else 0.
Proof.
  intro H. assert (A := leg_int_all). rewrite forallb_forall in A.
  apply Qc_eqb_eq. apply (A k). apply in_seq. lia.
Qed.

(* every polynomial of degree < n <= 33 is a combination of P_0 .. P_(n-1) *)
Lemma leg_span n : (n <= NMAX)%nat -> forall q,
  (forall j, (n <= j)%nat -> coef q j = 0) -> exists c, peq q (lincomb n c).
Proof.
  induction n as [|n IH]; intros Hn q Hq.
  - exists (fun _ => 0). intro j. cbn [lincomb]. rewrite coef_nil. apply Hq. lia.
  - destruct (leg_shape n) as [Ln Nz]; [lia |].
    set (ck := coef q n / coef (leg n) n).
    set (q' := psub q (pscale ck (leg n))).
    destruct (IH ltac:(lia) q') as [c' Hc'].
    { intros j Hj. unfold q'. rewrite coef_psub, coef_pscale.
      destruct (Nat.eq_dec j n) as [E|E].
      - subst j. unfold ck. field. exact Nz.
      - rewrite Hq by lia. rewrite (coef_overflow (leg n) j) by lia. ring. }
    exists (fun k => if Nat.eqb k n then ck else c' k).
    intro j. cbn [lincomb]. rewrite coef_padd, coef_pscale, Nat.eqb_refl.
    rewrite coef_lincomb.
    rewrite (sum_ext n _ (fun k => c' k * coef (leg k) j)).
    + rewrite <- coef_lincomb, <- Hc'. unfold q'. rewrite coef_psub, coef_pscale. ring.
    + intros k Hk. destruct (Nat.eqb_spec k n); [lia | reflexivity].
Qed.

(* the integral over [-1, 1] of a Legendre combination is 2 c_0 *)
Lemma pint_lincomb_ref n c : (0 < n <= NMAX)%nat -> pint (lincomb n c) (- (1)) 1 = two * c 0%nat.
Proof.
  intro H. rewrite pint_lincomb. rewrite sum_first.
  - rewrite leg_int by lia. cbn [Nat.eqb]. ring.
  - intros k Hk. rewrite leg_int by lia. destruct (Nat.eqb_spec k 0); [lia | ring].
  - lia.
Qed.

(* ------------------------------------------------------------------ *)
(* the rule on polynomials *)

(* if q = sum_{k<n0} c_k P_k then ANY rule with n >= n0 nodes and a left
   inverse returns exactly c, padded with zeros *)
Lemma coeffs_of_lincomb n0 c q n (xi : vec) (Vinv : mat) :
  peq q (lincomb n0 c) -> (n0 <= n)%nat -> left_inverse n Vinv (Vmat xi) ->
  forall i, (i < n)%nat -> coeffs n Vinv (fun j => peval q (xi j)) i = pad n0 c i.
Proof.
  intros E Hn L i Hi.
  rewrite <- (coeffs_recovered n Vinv (Vmat xi) (pad n0 c) L i Hi).
  unfold coeffs. apply mv_ext. intros j _.
  rewrite <- values_lincomb.
  rewrite (peval_ext _ _ (xi j) (lincomb_pad n0 n c Hn)).
  apply peval_ext. exact E.
Qed.

Lemma node_ab_affine a b (xi : vec) j :
  node_ab a b xi j = (a + b) / two + (b - a) / two * xi j.
Proof. unfold node_ab. field2. Qed.

(* the Legendre coefficients of p on [a, b] *)
Lemma poly_on_interval n0 p a b : (length p <= n0 <= NMAX)%nat ->
  exists c, peq (pshift p ((a + b) / two) ((b - a) / two)) (lincomb n0 c).
Proof.
  intro H. apply leg_span; [lia |]. intros j Hj. apply coef_overflow.
  rewrite length_pshift. lia.
Qed.

(* main lemma: calc_igral is the exact integral for polynomials of degree < n *)
Lemma igral_exact_poly n (xi : vec) (Vinv : mat) a b p :
  (n <= NMAX)%nat -> left_inverse n Vinv (Vmat xi) -> (length p <= n)%nat ->
  calc_igral a b (coeffs n Vinv (fun j => peval p (node_ab a b xi j))) = pint p a b.
Proof.
  intros Hn L Hp.
  destruct n as [|n].
  { destruct p; [| cbn [length] in Hp; lia]. rewrite pint_nil. unfold calc_igral, coeffs, mv. cbn [sum]. ring. }
  set (m := (a + b) / two). set (h := (b - a) / two).
  destruct (poly_on_interval (S n) p a b ltac:(lia)) as [c Hc]. fold m h in Hc.
  assert (V : forall i, (i < S n)%nat ->
            coeffs (S n) Vinv (fun j => peval p (node_ab a b xi j)) i = pad (S n) c i).
  { intros i Hi.
    rewrite <- (coeffs_of_lincomb (S n) c (pshift p m h) (S n) xi Vinv Hc (le_n _) L i Hi).
    unfold coeffs. apply mv_ext. intros j _.
    rewrite peval_pshift, node_ab_affine. reflexivity. }
  unfold calc_igral. rewrite V by lia. unfold pad. cbn [Nat.ltb Nat.leb].
  assert (Ea : m - h = a) by (unfold m, h; field2).
  assert (Eb : m + h = b) by (unfold m, h; field2).
  transitivity (pint p (m - h) (m + h)); [| rewrite Ea, Eb; reflexivity].
  rewrite pint_shift. rewrite (pint_ext _ _ _ _ Hc).
  rewrite pint_lincomb_ref by lia.
  unfold h. field2.
Qed.

(* the coefficient vectors of two rules (n <= n' nodes, e.g. depth d and d+1)
   agree after padding when the integrand is a polynomial of degree < n *)
Lemma coeffs_next_depth n n' (xi xi' : vec) (Vinv Vinv' : mat) a b p :
  (n <= n')%nat -> (n' <= NMAX)%nat ->
  left_inverse n Vinv (Vmat xi) -> left_inverse n' Vinv' (Vmat xi') -> (length p <= n)%nat ->
  forall k, (k < n')%nat ->
    coeffs n' Vinv' (fun j => peval p (node_ab a b xi' j)) k
    = pad n (coeffs n Vinv (fun j => peval p (node_ab a b xi j))) k.
Proof.
  intros Hnn Hn' L L' Hp k Hk.
  set (m := (a + b) / two). set (h := (b - a) / two).
  destruct (poly_on_interval n p a b ltac:(lia)) as [c Hc]. fold m h in Hc.
  assert (R : forall nn (x : vec) (W : mat), (n <= nn)%nat -> left_inverse nn W (Vmat x) ->
            forall i, (i < nn)%nat -> coeffs nn W (fun j => peval p (node_ab a b x j)) i = pad n c i).
  { intros nn x W Hle LW i Hi.
    rewrite <- (coeffs_of_lincomb n c (pshift p m h) nn x W Hc Hle LW i Hi).
    unfold coeffs. apply mv_ext. intros j _.
    rewrite peval_pshift, node_ab_affine. reflexivity. }
  rewrite (R n' xi' Vinv' Hnn L' k Hk).
  unfold pad at 2. destruct (Nat.ltb_spec k n) as [Hlt|Hge].
  - rewrite (R n xi Vinv (le_n _) L k Hlt). reflexivity.
  - unfold pad. destruct (Nat.ltb_spec k n); [lia | reflexivity].
Qed.

(* err = 0 as soon as the padded coefficient vectors agree *)
Lemma err_sq_zero a b n (c_old c_new : vec) :
  (forall k, (k < n)%nat -> c_old k = c_new k) -> err_sq a b n c_old c_new = 0.
Proof.
  intro H. unfold err_sq. rewrite sum_zero.
  - ring.
  - intros k Hk. rewrite H by exact Hk. unfold Qcdiv. ring.
Qed.

Lemma done_when_err_zero a b n (c_old c_new : vec) igral tol :
  (forall k, (k < n)%nat -> c_old k = c_new k) -> done_sq (err_sq a b n c_old c_new) igral tol.
Proof. intro H. left. apply err_sq_zero. exact H. Qed.

(* the polynomial family of C08 (degree <= 12 < 17): the estimate of the rule
   with n' >= n nodes is exact, the error estimate against the rule with n nodes
   is 0, done() holds for every tolerance *)
Lemma estimate_exact_and_done n n' (xi xi' : vec) (Vinv Vinv' : mat) a b p tol :
  (n <= n')%nat -> (n' <= NMAX)%nat ->
  left_inverse n Vinv (Vmat xi) -> left_inverse n' Vinv' (Vmat xi') -> (length p <= n)%nat ->
  let c_old := pad n (coeffs n Vinv (fun j => peval p (node_ab a b xi j))) in
  let c_new := coeffs n' Vinv' (fun j => peval p (node_ab a b xi' j)) in
  calc_igral a b c_new = pint p a b /\
  err_sq a b n' c_old c_new = 0 /\
  done_sq (err_sq a b n' c_old c_new) (calc_igral a b c_new) tol.
Proof.
  intros Hnn Hn' L L' Hp c_old c_new.
  assert (A : forall k, (k < n')%nat -> c_old k = c_new k).
  { intros k Hk. unfold c_old, c_new. symmetry. apply coeffs_next_depth; assumption. }
  split; [| split].
  - apply igral_exact_poly; [assumption | assumption | lia].
  - apply err_sq_zero. exact A.
  - apply done_when_err_zero. exact A.
Qed.

(* linearity of calc_igral in the function values, scaling with (b - a) *)
Lemma calc_igral_linear n (Vinv : mat) a b (f g : vec) x y :
  calc_igral a b (coeffs n Vinv (fun j => x * f j + y * g j))
  = x * calc_igral a b (coeffs n Vinv f) + y * calc_igral a b (coeffs n Vinv g).
Proof. unfold calc_igral. rewrite coeffs_linear. ring. Qed.

Lemma calc_igral_width a b a' b' c :
  (b' - a') * calc_igral a b c = (b - a) * calc_igral a' b' c.
Proof. unfold calc_igral. ring. Qed.

(* ------------------------------------------------------------------ *)
(* the shift matrices *)

(* T[:, :np] @ c is the parent's interpolant, resampled at the images
   (xi_j + s)/2 of the rule's nodes in the parent's reference interval, and
   expanded again *)
Lemma shifted_is_resampling n np (Vinv : mat) (xi : vec) s c i :
  (np <= n)%nat ->
  shifted n np (Tshift n Vinv xi s) c i
  = coeffs n Vinv (fun j => peval (lincomb np c) ((xi j + s) / two)) i.
Proof.
  intro H. unfold shifted, Tshift, coeffs, mv, mm.
  transitivity (sum n (fun k => sum n (fun j => Vinv i j * (Vmat (fun j0 => (xi j0 + s) / two) j k * pad np c k)))).
  { apply sum_ext. intros k _. rewrite (Qcmult_comm _ (pad np c k)), <- sum_scal.
    apply sum_ext. intros j _. ring. }
  rewrite sum_swap. apply sum_ext. intros j _. rewrite sum_scal. f_equal.
  rewrite <- (peval_ext _ _ _ (lincomb_pad np n c H)).
  rewrite peval_lincomb. apply sum_ext. intros k _. unfold Vmat. ring.
Qed.

(* after a split the shifted parent coefficients equal the child's own
   coefficients (padded) when the integrand is a polynomial of degree < n0:
   the error estimate of the child is 0.  s = -1: left child [a, (a+b)/2],
   s = +1: right child [(a+b)/2, b]; (n, xi, Vinv) is the rule the shift
   matrix was built from (33 points in the code), (np, xip, Vinvp) the
   parent's completed rule, (n0, xi0, Vinv0) the child's (5 points). *)
Lemma split_coeffs_exact n np n0 (xi xip xi0 : vec) (Vinv Vinvp Vinv0 : mat) a b s p :
  (n0 <= np)%nat -> (np <= n)%nat -> (n <= NMAX)%nat ->
  left_inverse n Vinv (Vmat xi) -> left_inverse np Vinvp (Vmat xip) -> left_inverse n0 Vinv0 (Vmat xi0) ->
  (length p <= n0)%nat ->
  let a' := (a + b) / two + (s - 1) * (b - a) / (two * two) in
  let b' := (a + b) / two + (s + 1) * (b - a) / (two * two) in
  forall i, (i < n)%nat ->
    shifted n np (Tshift n Vinv xi s) (coeffs np Vinvp (fun j => peval p (node_ab a b xip j))) i
    = pad n0 (coeffs n0 Vinv0 (fun j => peval p (node_ab a' b' xi0 j))) i.
Proof.
  intros H0 Hp Hn L Lp L0 Hlen a' b' i Hi.
  set (m := (a + b) / two). set (h := (b - a) / two).
  destruct (poly_on_interval np p a b ltac:(lia)) as [cP HcP]. fold m h in HcP.
  assert (VP : forall k, (k < np)%nat ->
            coeffs np Vinvp (fun j => peval p (node_ab a b xip j)) k = cP k).
  { intros k Hk.
    transitivity (pad np cP k).
    - rewrite <- (coeffs_of_lincomb np cP (pshift p m h) np xip Vinvp HcP (le_n _) Lp k Hk).
      unfold coeffs. apply mv_ext. intros j _. rewrite peval_pshift, node_ab_affine. reflexivity.
    - unfold pad. destruct (Nat.ltb_spec k np); [reflexivity | lia]. }
  rewrite shifted_is_resampling by exact Hp.
  (* the child's coefficients *)
  destruct (poly_on_interval n0 p a' b' ltac:(lia)) as [c0 Hc0].
  set (m' := (a' + b') / two) in Hc0. set (h' := (b' - a') / two) in Hc0.
  assert (R : forall nn (x : vec) (W : mat), (n0 <= nn)%nat -> left_inverse nn W (Vmat x) ->
            forall k, (k < nn)%nat -> coeffs nn W (fun j => peval p (m' + h' * x j)) k = pad n0 c0 k).
  { intros nn x W Hle LW k Hk.
    rewrite <- (coeffs_of_lincomb n0 c0 (pshift p m' h') nn x W Hc0 Hle LW k Hk).
    unfold coeffs. apply mv_ext. intros j _. rewrite peval_pshift. reflexivity. }
  transitivity (pad n0 c0 i).
  - rewrite <- (R n xi Vinv ltac:(lia) L i Hi).
    unfold coeffs. apply mv_ext. intros j _.
    rewrite (peval_ext (lincomb np _) (lincomb np cP)).
    + rewrite <- (peval_ext _ _ _ HcP). rewrite peval_pshift. f_equal.
      unfold m, h, m', h', a', b'. field2.
    + intro k. rewrite !coef_lincomb. apply sum_ext. intros k' Hk'. rewrite VP by exact Hk'. reflexivity.
  - unfold pad. destruct (Nat.ltb_spec i n0) as [Hlt|Hge]; [| reflexivity].
    assert (Q := R n0 xi0 Vinv0 (le_n _) L0 i Hlt). unfold pad in Q.
    destruct (Nat.ltb_spec i n0) in Q; [| lia].
    rewrite <- Q. unfold coeffs. apply mv_ext. intros j _. rewrite node_ab_affine. reflexivity.
Qed.

(* additivity of the estimates over a split, for polynomials of degree < n0 *)
Lemma igral_split_additive n0 (xi0 : vec) (Vinv0 : mat) a b p :
  (n0 <= NMAX)%nat -> left_inverse n0 Vinv0 (Vmat xi0) -> (length p <= n0)%nat ->
  let m := (a + b) / two in
  calc_igral a m (coeffs n0 Vinv0 (fun j => peval p (node_ab a m xi0 j)))
  + calc_igral m b (coeffs n0 Vinv0 (fun j => peval p (node_ab m b xi0 j)))
  = calc_igral a b (coeffs n0 Vinv0 (fun j => peval p (node_ab a b xi0 j))).
Proof.
  intros Hn L Hp m. rewrite !igral_exact_poly by assumption. apply pint_split.
Qed.

(* ------------------------------------------------------------------ *)
(* the hypotheses are satisfiable: rules with 5 and 9 rational nodes
   (-1, -7/10, 0, 7/10, 1 and -1, -9/10, -7/10, -2/5, 0, ...; the 5 nodes are
   nested in the 9) and the exact inverses of their Legendre matrices, found by
   Gauss-Jordan elimination outside Coq and checked here by computation *)

Definition qc (z : Z) (d : positive) : Qc := Q2Qc (z # d).

Definition list_mat (rows : list (list Qc)) : mat :=
  fun i j => nth j (nth i rows []) 0.

Definition left_inverse_b (n : nat) (Vinv V : mat) : bool :=
  forallb (fun i => forallb (fun k => Qc_eqb (mm n Vinv V i k) (delta i k)) (seq 0 n)) (seq 0 n).

Lemma left_inverse_b_sound n Vinv V : left_inverse_b n Vinv V = true -> left_inverse n Vinv V.
Proof.
  unfold left_inverse_b. rewrite forallb_forall. intros H i k Hi Hk.
  specialize (H i ltac:(apply in_seq; lia)). rewrite forallb_forall in H.
  apply Qc_eqb_eq. apply H. apply in_seq. lia.
Qed.

Definition ex_nodes5 : vec := fun j =>
  nth j [qc (-1) 1; qc (-7) 10; qc (0) 1; qc (7) 10; qc (1) 1] 0.

Definition ex_Vinv5 : mat := list_mat
  [[qc (11) 306; qc (2000) 7497; qc (58) 147; qc (2000) 7497; qc (11) 306];
   [qc (-11) 102; qc (-200) 357; qc (0) 1; qc (200) 357; qc (11) 102];
   [qc (257) 1071; qc (10000) 52479; qc (-886) 1029; qc (10000) 52479; qc (257) 1071];
   [qc (-20) 51; qc (200) 357; qc (0) 1; qc (-200) 357; qc (20) 51];
   [qc (80) 357; qc (-8000) 17493; qc (160) 343; qc (-8000) 17493; qc (80) 357]].

Definition ex_nodes9 : vec := fun j =>
  nth j [qc (-1) 1; qc (-9) 10; qc (-7) 10; qc (-2) 5; qc (0) 1; qc (2) 5; qc (7) 10; qc (9) 10; qc (1) 1] 0.

Definition ex_Vinv9 : mat := list_mat
  [[qc (37039) 2563974; qc (99550) 1260441; qc (630250) 5195421; qc (408725) 2270268; qc (105251) 500094; qc (408725) 2270268; qc (630250) 5195421; qc (99550) 1260441; qc (37039) 2563974];
   [qc (-37039) 854658; qc (-9955) 46683; qc (-63025) 247401; qc (-81745) 378378; qc (0) 1; qc (81745) 378378; qc (63025) 247401; qc (9955) 46683; qc (37039) 854658];
   [qc (1050194) 14101857; qc (3835750) 13864851; qc (8541250) 57149631; qc (-6002875) 24972948; qc (-2862781) 5501034; qc (-6002875) 24972948; qc (8541250) 57149631; qc (3835750) 13864851; qc (1050194) 14101857];
   [qc (-214255) 2014551; qc (-6095) 24453; qc (177475) 1166319; qc (999655) 1783782; qc (0) 1; qc (-999655) 1783782; qc (-177475) 1166319; qc (6095) 24453; qc (214255) 2014551];
   [qc (2360140) 20369349; qc (421600) 2225223; qc (-42268000) 82549467; qc (-1039175) 9018009; qc (284230) 441441; qc (-1039175) 9018009; qc (-42268000) 82549467; qc (421600) 2225223; qc (2360140) 20369349];
   [qc (-2020000) 16665831; qc (-12500) 202293; qc (5762500) 9648639; qc (-4450000) 7378371; qc (0) 1; qc (4450000) 7378371; qc (-5762500) 9648639; qc (12500) 202293; qc (2020000) 16665831];
   [qc (2440000) 14101857; qc (-250000) 1066527; qc (-7750000) 57149631; qc (250000) 480249; qc (-1780000) 2750517; qc (250000) 480249; qc (-7750000) 57149631; qc (-250000) 1066527; qc (2440000) 14101857];
   [qc (-2000000) 8729721; qc (500000) 953667; qc (-2500000) 5054049; qc (1000000) 3864861; qc (0) 1; qc (-1000000) 3864861; qc (2500000) 5054049; qc (-500000) 953667; qc (2000000) 8729721];
   [qc (3200000) 26189163; qc (-8000000) 25749009; qc (40000000) 106135029; qc (-4000000) 11594583; qc (1600000) 5108103; qc (-4000000) 11594583; qc (40000000) 106135029; qc (-8000000) 25749009; qc (3200000) 26189163]].

Lemma ex_left_inverse5 : left_inverse 5 ex_Vinv5 (Vmat ex_nodes5).
Proof. apply left_inverse_b_sound. vm_compute. reflexivity. Qed.

Lemma ex_left_inverse9 : left_inverse 9 ex_Vinv9 (Vmat ex_nodes9).
Proof. apply left_inverse_b_sound. vm_compute. reflexivity. Qed.

(* a concrete instance: x^4 - x on [0, 3] with the 5-point rule: 3^5/5 - 3^2/2 *)
Lemma ex_igral :
  calc_igral 0 (qc 3 1) (coeffs 5 ex_Vinv5 (fun j => peval [0; - (1); 0; 0; 1] (node_ab 0 (qc 3 1) ex_nodes5 j)))
  = qc 441 10.
Proof. apply Qc_eqb_eq. vm_compute. reflexivity. Qed.
