(* Completeness of the to_interpolate list built by the batch path of
   Learner1D.tell_many: every evaluated interval that contains pending points
   is scheduled for re-interpolation.  (This is the code repaired by F13; with
   the pre-repair merge condition the statement is false.) *)
From AV Require Import Base.Prelude Base.SortLemmas Model.L1D
  Proofs.L1DOrder Proofs.L1DMaps Proofs.L1DWindow Proofs.L1DStruct.
From Coq Require Import Sorted.
Set Implicit Arguments.

Section Ti.
  Variable num : Type.
  Variables (ltb eqb : num -> num -> bool).
  Variable inf : num.
  Hypothesis OL : OrdLaws ltb eqb.

  Notation st := (st num).
  Notation ival := (num * num)%type.
  Notation lget := (@lget num eqb).
  Notation mem := (@mem num eqb).
  Notation batch_combined := (@batch_combined num ltb eqb inf).
  Notation lt := (lt ltb).
  Notation sorted := (sorted ltb).
  Notation adj := (adj ltb).

  Variable s : st.                       (* only [nb s] and [los s] are read *)
  Variable comb : list num.
  Hypothesis Hcomb : sorted comb.
  Hypothesis Hpts : sorted (nb s).
  Hypothesis Hsub : forall z, In z (nb s) -> In z comb.
  Hypothesis Hkeys : forall iv, lget iv (los s) <> None <-> adj (nb s) iv.

  Definition real (z : num) : Prop := In z (nb s).
  Definition le (a b : num) : Prop := lt a b \/ a = b.

  (* an obligation: an evaluated interval with a combined point strictly inside *)
  Definition oblig (A B : num) : Prop :=
    adj (nb s) (A, B) /\ exists z, In z comb /\ lt A z /\ lt z B.

  (* the run of non-evaluated pairs that is still open at the current point c *)
  Definition open_run (u c : num) : Prop :=
    In u comb /\ lt u c /\ (forall z, In z comb -> lt u z -> lt z c -> ~ real z) /\
    (real u \/ forall z, In z comb -> ~ lt z u).

  Definition I (c : num) (ti : list ival) : Prop :=
    (forall A B, oblig A B -> le B c -> In (A, B) ti) /\
    (~ real c -> (ti = [] /\ forall z, In z comb -> ~ lt z c) \/
                 exists u t, ti = (u, c) :: t /\ open_run u c).

  Lemma mem_real z : mem z (nb s) = true <-> real z.
  Proof. apply (mem_In OL). Qed.

  (* the evaluated predecessor of an evaluated point is unique *)
  Lemma adj_left_unique A A' B : adj (nb s) (A, B) -> adj (nb s) (A', B) -> A = A'.
  Proof.
    intros [HA [_ [HAB Hno]]] [HA' [_ [HA'B Hno']]]. cbn [fst snd] in *.
    destruct (trichotomy OL A A') as [H|[H|H]]; [|exact H|].
    - exfalso. exact (Hno A' HA' (conj H HA'B)).
    - exfalso. exact (Hno' A HA (conj H HAB)).
  Qed.

  Lemma step_I (pre : list num) c d rest ti :
    comb = pre ++ c :: d :: rest -> I c ti ->
    I d (match lget (c, d) (los s) with
         | Some _ => ti
         | None => match ti with
                   | (a, b) :: t => if eqb b c && negb (mem b (nb s)) then (a, d) :: t else (c, d) :: ti
                   | [] => [(c, d)]
                   end
         end).
  Proof.
    intros Ec [Hi Hii].
    assert (Hcin : In c comb) by (rewrite Ec; apply in_or_app; right; left; reflexivity).
    assert (Hdin : In d comb) by (rewrite Ec; apply in_or_app; right; right; left; reflexivity).
    assert (Hcd_adj : adj comb (c, d)).
    { apply (pairs_adj OL Hcomb). rewrite Ec. apply pairs_app_mid. }
    assert (Hcd : lt c d) by apply Hcd_adj.
    assert (Hnobetween : forall z, In z comb -> lt c z -> lt z d -> False).
    { intros z Hz H1 H2. destruct Hcd_adj as [_ [_ [_ Hno]]]. exact (Hno z Hz (conj H1 H2)). }
    (* obligations ending at or before d either end before or at c, or end at d *)
    assert (Hsplit : forall A B, oblig A B -> le B d -> le B c \/ B = d).
    { intros A B [HAB _] [Hlt| ->]; [|right; reflexivity]. left.
      assert (HB : In B comb) by (apply Hsub; apply HAB).
      destruct (trichotomy OL B c) as [H|[H|H]]; [left; exact H|right; exact H|].
      exfalso. exact (Hnobetween B HB H Hlt). }
    destruct (lget (c, d) (los s)) as [v|] eqn:Elos.
    - (* an evaluated pair: nothing is scheduled *)
      assert (Hreal : adj (nb s) (c, d)) by (apply Hkeys; congruence).
      split.
      + intros A B Hob HBd. destruct (Hsplit A B Hob HBd) as [HBc| ->]; [apply Hi; assumption|].
        exfalso. destruct Hob as [HAB [z [Hz [H1 H2]]]].
        assert (A = c) by (eapply adj_left_unique; eauto). subst A.
        exact (Hnobetween z Hz H1 H2).
      + intros Hnr. exfalso. apply Hnr. apply Hreal.
    - (* a non-evaluated pair: it opens or extends a run *)
      assert (Hnotreal : ~ adj (nb s) (c, d)).
      { intros H. apply Hkeys in H. congruence. }
      (* the new head is an open run ending at d *)
      assert (Hhead : exists u t,
                (match ti with
                 | (a, b) :: t => if eqb b c && negb (mem b (nb s)) then (a, d) :: t else (c, d) :: ti
                 | [] => [(c, d)]
                 end) = (u, d) :: t /\ open_run u d /\
                (forall iv, In iv ti -> (exists a, iv = (a, c) /\ ~ real c) \/ In iv t)).
      { destruct (In_dec_num OL c (nb s)) as [Hrc|Hnrc].
        - (* c evaluated: a new run starts at c *)
          exists c, ti. split.
          + destruct ti as [|[a b] t]; [reflexivity|].
            destruct (eqb b c) eqn:Eb; [|reflexivity].
            apply (eqb_eq OL) in Eb. subst b.
            rewrite (proj2 (mem_real c) Hrc). reflexivity.
          + split; [|intros iv Hin; right; exact Hin].
            split; [exact Hcin|]. split; [exact Hcd|]. split; [|left; exact Hrc].
            intros z Hz H1 H2 _. exact (Hnobetween z Hz H1 H2).
        - (* c pending *)
          destruct (Hii Hnrc) as [[Eti Hfirst]|[u [t [Eti Hrun]]]].
          + subst ti. exists c, []. split; [reflexivity|]. split; [|intros iv []].
            split; [exact Hcin|]. split; [exact Hcd|]. split; [|right; exact Hfirst].
            intros z Hz H1 H2 _. exact (Hnobetween z Hz H1 H2).
          + subst ti. exists u, t. split.
            * rewrite (eqb_refl OL). destruct (mem c (nb s)) eqn:Em; [apply mem_real in Em; contradiction|reflexivity].
            * split.
              -- destruct Hrun as [Hu [Huc [Hint Hstart]]].
                 split; [exact Hu|]. split; [exact (lt_trans OL Huc Hcd)|]. split; [|exact Hstart].
                 intros z Hz H1 H2. destruct (trichotomy OL z c) as [H|[H|H]].
                 ++ apply Hint; assumption.
                 ++ subst z. exact Hnrc.
                 ++ intros _. exact (Hnobetween z Hz H H2).
              -- intros iv [<-|Hin]; [left; exists u; split; [reflexivity|exact Hnrc]|right; exact Hin]. }
      destruct Hhead as [u [t [Ehead [Hrun Hold]]]]. rewrite Ehead.
      split.
      + intros A B Hob HBd. destruct (Hsplit A B Hob HBd) as [HBc| ->].
        * (* an older obligation: it was in ti and is not the merged head *)
          destruct (Hold (A, B) (Hi A B Hob HBc)) as [[a [E Hnrc]]|Hin]; [|right; exact Hin].
          inversion E; subst. exfalso. apply Hnrc. apply Hob.
        * (* the obligation ending at d is the open run *)
          left. f_equal. destruct Hob as [HAB [z [Hz [H1 H2]]]].
          destruct Hrun as [Hu [Hud [Hint Hstart]]].
          assert (HA : real A) by apply HAB. assert (HAd : lt A d) by apply HAB.
          destruct (trichotomy OL u A) as [H|[H|H]]; [|exact H|].
          -- exfalso. exact (Hint A (Hsub A HA) H HAd HA).
          -- exfalso. destruct Hstart as [Hru|Hfirst].
             ++ destruct HAB as [_ [_ [_ Hno]]]. exact (Hno u Hru (conj H Hud)).
             ++ exact (Hfirst A (Hsub A HA) H).
      + intros _. right. exists u, t. split; [reflexivity|exact Hrun].
  Qed.

  Lemma sorted_app_last (pre : list num) c z : sorted (pre ++ [c]) -> In z (pre ++ [c]) -> le z c.
  Proof.
    induction pre as [|p pre IH]; cbn [app In]; intros Hs Hz.
    - destruct Hz as [<-|[]]. right; reflexivity.
    - pose proof (sorted_inv Hs) as [Hs' Hf]. rewrite Forall_forall in Hf.
      destruct Hz as [<-|Hz]; [|apply IH; assumption].
      left. apply Hf. apply in_or_app. right; left; reflexivity.
  Qed.

  Lemma loop_complete rest : forall (pre : list num) c ti lc,
    comb = pre ++ c :: rest -> I c ti ->
    forall A B, oblig A B -> In (A, B) (snd (batch_combined (L1D.pairs (c :: rest)) s lc ti)).
  Proof.
    induction rest as [|d rest IH]; intros pre c ti lc Ec HI A B Hob.
    - cbn [L1D.pairs L1D.batch_combined snd]. apply -> in_rev. apply (proj1 HI); [exact Hob|].
      assert (HB : In B comb) by (apply Hsub; apply Hob).
      rewrite Ec in HB, Hcomb. exact (sorted_app_last _ _ _ Hcomb HB).
    - change (L1D.pairs (c :: d :: rest)) with ((c, d) :: L1D.pairs (d :: rest)).
      cbn [L1D.batch_combined fst snd].
      pose proof (@step_I pre c d rest ti Ec HI) as HI'.
      assert (Ec' : comb = (pre ++ [c]) ++ d :: rest) by (rewrite <- app_assoc; exact Ec).
      destruct (lget (c, d) (los s)) as [v|].
      + exact (IH (pre ++ [c]) d ti _ Ec' HI' A B Hob).
      + exact (IH (pre ++ [c]) d _ _ Ec' HI' A B Hob).
  Qed.

  Theorem ti_complete lc : forall A B, oblig A B ->
    In (A, B) (snd (batch_combined (L1D.pairs comb) s lc [])).
  Proof.
    intros A B Hob.
    assert (H : forall l, l = comb -> In (A, B) (snd (batch_combined (L1D.pairs l) s lc []))).
    { intros l El. destruct l as [|c rest].
      - exfalso. destruct Hob as [_ [z [Hz _]]]. rewrite <- El in Hz. exact Hz.
      - apply (@loop_complete rest [] c [] lc); [symmetry; exact El| |exact Hob].
        assert (Hfirst : forall z, In z comb -> ~ lt z c).
        { intros z Hz H. rewrite <- El in Hz. destruct Hz as [<-|Hz]; [exact (lt_irrefl OL H)|].
          pose proof Hcomb as Hc. rewrite <- El in Hc.
          pose proof (sorted_head_lt z Hc Hz) as H'. exact (lt_asym OL H H'). }
        split.
        + intros A' B' [HAB _] HB. exfalso.
          assert (HA' : In A' comb) by (apply Hsub; apply HAB).
          assert (Hlt : lt A' B') by apply HAB.
          apply (Hfirst A' HA'). destruct HB as [HB| ->]; [exact (lt_trans OL Hlt HB)|exact Hlt].
        + intros _. left. split; [reflexivity|exact Hfirst]. }
    exact (H comb eq_refl).
  Qed.
End Ti.
