(* Python's max / argmax / np.argmin as modelled in Model/Balancing.v pick a
   first maximal element, for every strict weak order; the tuple order
   (x, -total_points) is one under NumLaws. *)
From AV Require Import Base.Prelude Model.GenericLearner Model.Balancing.
Set Implicit Arguments.

Section Generic.
  Variable A : Type.
  Variable gt : A -> A -> bool.
  Hypothesis gt_asym : forall a b, gt a b = true -> gt b a = false.
  Hypothesis gt_ntrans : forall a b c, gt a b = false -> gt b c = false -> gt a c = false.

  Lemma gt_irrefl a : gt a a = false.
  Proof. destruct (gt a a) eqn:E; [|reflexivity]. rewrite (gt_asym E) in E. discriminate. Qed.

  Lemma pymax_from_spec l : forall b,
    let m := pymax_from gt b l in
    (m = b \/ In m l) /\ gt b m = false /\ forall x, In x l -> gt x m = false.
  Proof.
    induction l as [|x l IH]; intros b; cbn [pymax_from In].
    - split; [left; reflexivity|]. split; [apply gt_irrefl|intros x []].
    - destruct (IH (if gt x b then x else b)) as [H1 [H2 H3]].
      destruct (gt x b) eqn:E.
      + split; [destruct H1 as [H1|H1]; [right; left; auto|right; right; exact H1]|].
        split; [apply gt_ntrans with x; [apply gt_asym; exact E|exact H2]|].
        intros y [<-|Hy]; [exact H2|apply H3; exact Hy].
      + split; [destruct H1 as [H1|H1]; [left; exact H1|right; right; exact H1]|].
        split; [exact H2|].
        intros y [<-|Hy]; [apply gt_ntrans with b; assumption|apply H3; exact Hy].
  Qed.

  Lemma pymax_spec l m :
    pymax gt l = Some m -> In m l /\ forall x, In x l -> gt x m = false.
  Proof.
    destruct l as [|b l]; cbn [pymax]; [discriminate|]. intros H; inversion H; subst; clear H.
    destruct (pymax_from_spec l b) as [H1 [H2 H3]]. split.
    - destruct H1 as [H1|H1]; [left; symmetry; exact H1|right; exact H1].
    - intros x [<-|Hx]; [exact H2|apply H3; exact Hx].
  Qed.

  Lemma argmax_from_spec l : forall pre bi bk,
    bi < length pre -> nth_error pre bi = Some bk ->
    (forall kj, In kj pre -> gt kj bk = false) ->
    (forall j kj, j < bi -> nth_error pre j = Some kj -> gt bk kj = true) ->
    let r := argmax_from gt bi bk (length pre) l in
    exists k, nth_error (pre ++ l) r = Some k /\
              (forall kj, In kj (pre ++ l) -> gt kj k = false) /\
              (forall j kj, j < r -> nth_error (pre ++ l) j = Some kj -> gt k kj = true).
  Proof.
    induction l as [|x l IH]; intros pre bi bk Hlt Hnth Hmax Hfirst; cbn [argmax_from].
    - rewrite app_nil_r. exists bk. auto.
    - replace (pre ++ x :: l) with ((pre ++ [x]) ++ l) by (rewrite <- app_assoc; reflexivity).
      replace (S (length pre)) with (length (pre ++ [x])) by (rewrite app_length; cbn; lia).
      destruct (gt x bk) eqn:E.
      + apply IH.
        * rewrite app_length; cbn; lia.
        * rewrite nth_error_app2 by lia. rewrite Nat.sub_diag. reflexivity.
        * intros kj Hin. apply in_app_iff in Hin as [Hin|[<-|[]]]; [|apply gt_irrefl].
          apply gt_ntrans with bk; [apply Hmax; exact Hin|apply gt_asym; exact E].
        * intros j kj Hj Hn. rewrite nth_error_app1 in Hn by exact Hj.
          destruct (gt x kj) eqn:E2; [reflexivity|].
          assert (gt kj bk = false) by (apply Hmax; eapply nth_error_In; exact Hn).
          rewrite (gt_ntrans E2 H) in E. discriminate.
      + apply IH.
        * rewrite app_length; cbn; lia.
        * rewrite nth_error_app1 by exact Hlt. exact Hnth.
        * intros kj Hin. apply in_app_iff in Hin as [Hin|[<-|[]]]; [apply Hmax; exact Hin|exact E].
        * intros j kj Hj Hn. rewrite nth_error_app1 in Hn by lia. eapply Hfirst; eauto.
  Qed.

  (* the index returned is that of a maximal element, and every earlier
     element is strictly smaller *)
  Lemma argmax_spec l r :
    argmax gt l = Some r ->
    exists k, nth_error l r = Some k /\
              (forall j kj, nth_error l j = Some kj -> gt kj k = false) /\
              (forall j kj, j < r -> nth_error l j = Some kj -> gt k kj = true).
  Proof.
    destruct l as [|b l]; cbn [argmax]; [discriminate|]. intros H; inversion H; subst; clear H.
    destruct (@argmax_from_spec l [b] 0 b) as [k [H1 [H2 H3]]]; cbn [length]; auto.
    - intros kj [<-|[]]. apply gt_irrefl.
    - intros j kj Hj; lia.
    - cbn [app] in *. exists k. split; [exact H1|]. split; [|exact H3].
      intros j kj Hn. apply H2. eapply nth_error_In; exact Hn.
  Qed.
End Generic.

(* np.argmin on naturals *)
Lemma argmin_spec tp r :
  argmax (fun a b => a <? b) tp = Some r ->
  exists t, nth_error tp r = Some t /\
            (forall j tj, nth_error tp j = Some tj -> t <= tj) /\
            (forall j tj, j < r -> nth_error tp j = Some tj -> t < tj).
Proof.
  intros H. apply argmax_spec in H.
  - destruct H as [t [H1 [H2 H3]]]. exists t. split; [exact H1|]. split.
    + intros j tj Hn. specialize (H2 j tj Hn). apply Nat.ltb_ge in H2. exact H2.
    + intros j tj Hj Hn. specialize (H3 j tj Hj Hn). apply Nat.ltb_lt in H3. exact H3.
  - intros a b Hab. apply Nat.ltb_lt in Hab. apply Nat.ltb_ge. lia.
  - intros a b c H1 H2. apply Nat.ltb_ge in H1, H2. apply Nat.ltb_ge. lia.
Qed.

Section Keys.
  Variable L : Learner.
  Hypothesis NL : NumLaws L.
  Implicit Types (a b c : num L * nat).

  Lemma nlt_asym (x y : num L) : nltb L x y = true -> nltb L y x = false.
  Proof.
    intros H. destruct (nltb L y x) eqn:E; [|reflexivity].
    pose proof (nlt_trans NL _ _ _ H E) as T. rewrite (nlt_irrefl NL) in T. discriminate.
  Qed.

  Lemma kgt_false_iff a b :
    kgt L a b = false <->
    (nltb L (fst a) (fst b) = true \/ (neqb L (fst a) (fst b) = true /\ snd b <= snd a)).
  Proof.
    unfold kgt. destruct (neqb L (fst a) (fst b)) eqn:E.
    - rewrite Nat.ltb_ge. apply (neq_iff NL) in E as [E1 E2]. rewrite E1. intuition discriminate.
    - split.
      + intros H. left. destruct (nltb L (fst a) (fst b)) eqn:E1; [reflexivity|].
        assert (neqb L (fst a) (fst b) = true) by (apply (neq_iff NL); auto). congruence.
      + intros [H|[H _]]; [apply nlt_asym; exact H|discriminate].
  Qed.

  Lemma kgt_asym a b : kgt L a b = true -> kgt L b a = false.
  Proof.
    intros H. apply kgt_false_iff. unfold kgt in H.
    destruct (neqb L (fst a) (fst b)) eqn:E.
    - right. apply Nat.ltb_lt in H. split; [|lia].
      apply (neq_iff NL) in E as [E1 E2]. apply (neq_iff NL). auto.
    - left. exact H.
  Qed.

  Lemma kgt_ntrans a b c : kgt L a b = false -> kgt L b c = false -> kgt L a c = false.
  Proof.
    rewrite !kgt_false_iff. intros [H1|[H1 H1']] [H2|[H2 H2']].
    - left. apply (nlt_trans NL) with (fst b); assumption.
    - left. apply (neq_iff NL) in H2 as [_ H2].
      destruct (nltb L (fst a) (fst c)) eqn:E; [reflexivity|].
      rewrite (nlt_neg_trans NL _ _ _ E H2) in H1. discriminate.
    - left. apply (neq_iff NL) in H1 as [_ H1].
      destruct (nltb L (fst a) (fst c)) eqn:E; [reflexivity|].
      rewrite (nlt_neg_trans NL _ _ _ H1 E) in H2. discriminate.
    - right. apply (neq_iff NL) in H1 as [A1 A2]. apply (neq_iff NL) in H2 as [B1 B2].
      split; [|lia]. apply (neq_iff NL). split.
      + apply (nlt_neg_trans NL) with (fst b); assumption.
      + apply (nlt_neg_trans NL) with (fst b); assumption.
  Qed.

  (* what "not beaten" means for the first component *)
  Lemma kgt_false_fst a b : kgt L a b = false -> nltb L (fst b) (fst a) = false.
  Proof.
    rewrite kgt_false_iff. intros [H|[H _]]; [apply nlt_asym; exact H|].
    apply (neq_iff NL) in H as [_ H]. exact H.
  Qed.

  Lemma ngt_asym (x y : num L) : ngt L x y = true -> ngt L y x = false.
  Proof. unfold ngt. apply nlt_asym. Qed.
  Lemma ngt_ntrans (x y z : num L) : ngt L x y = false -> ngt L y z = false -> ngt L x z = false.
  Proof. unfold ngt. intros H1 H2. apply (nlt_neg_trans NL) with y; assumption. Qed.
End Keys.
