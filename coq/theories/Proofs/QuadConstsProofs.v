(* Proofs for Props/C08consts.v: every fact about the exported quadrature
   constants is a boolean check evaluated by vm_compute on gen/Consts.v plus a
   small generic soundness lemma (boolean check over a range -> quantified
   statement).  The literals stay out of the proof terms.  The last section
   (close_to_sqrt over R) is the only place that uses the Reals axioms. *)
From Coq Require Import ZArith QArith Qabs Qpower List Bool Arith Lia.
From AVGen Require Import Consts.
From AV Require Import Model.QuadConsts.
Import ListNotations.
Local Open Scope Q_scope.

(* ------------------------------------------------------------------ *)
(* generic: from a boolean check over a range to the quantified statement *)

Lemma forallb_seq (f : nat -> bool) a n :
  forallb f (seq a n) = true -> forall i, (a <= i < a + n)%nat -> f i = true.
Proof. intros H i Hi. rewrite forallb_forall in H. apply H. apply in_seq. exact Hi. Qed.

Lemma forallb2_seq (f : nat -> nat -> bool) n m :
  forallb (fun i => forallb (f i) (seq 0 m)) (seq 0 n) = true ->
  forall i j, (i < n)%nat -> (j < m)%nat -> f i j = true.
Proof.
  intros H i j Hi Hj.
  assert (H1 := forallb_seq _ _ _ H i). cbv beta in H1.
  apply (forallb_seq _ _ _ (H1 ltac:(lia))). lia.
Qed.

Lemma Qltb_lt a b : Qltb a b = true -> a < b.
Proof.
  unfold Qltb. intros H. apply Qnot_le_lt. intros Hle.
  apply Qle_bool_iff in Hle. rewrite Hle in H. discriminate.
Qed.

Lemma dy_eqb_eq p q : dy_eqb p q = true -> p = q.
Proof.
  destruct p, q. unfold dy_eqb. cbn [fst snd]. intros H.
  apply andb_true_iff in H. destruct H as [H1 H2].
  apply Z.eqb_eq in H1. apply Z.eqb_eq in H2. subst. reflexivity.
Qed.

Lemma poly_eqb_sound p q : poly_eqb p q = true -> poly_eq p q.
Proof.
  unfold poly_eqb, poly_eq. intros H k.
  destruct (Nat.lt_ge_cases k (Nat.max (length p) (length q))) as [Hk|Hk].
  - apply Qeq_bool_eq. apply (forallb_seq _ _ _ H). lia.
  - unfold coef. rewrite !nth_overflow by lia. reflexivity.
Qed.

Lemma mat_dimsb_sound M r c : mat_dimsb M r c = true -> mat_dims M r c.
Proof.
  unfold mat_dimsb, mat_dims. intros H. apply andb_true_iff in H. destruct H as [H1 H2].
  split. - apply Nat.eqb_eq. exact H1.
  - intros i Hi. apply Nat.eqb_eq. apply (forallb_seq _ _ _ H2). lia.
Qed.

(* ------------------------------------------------------------------ *)
Lemma nodes_check_sound d : nodes_check d = true -> nodes_stmt d.
Proof.
  unfold nodes_check, nodes_stmt. cbv zeta. intros H.
  rewrite !andb_true_iff in H. destruct H as [[[[[[H1 H2] H3] H4] H5] H6] H7].
  split; [|split; [|split; [|split; [|split; [|split]]]]].
  - apply Nat.eqb_eq. exact H1.
  - intros i Hi. apply Qeq_bool_eq. apply (forallb_seq _ _ _ H2). lia.
  - apply Qeq_bool_eq. exact H3.
  - apply Qeq_bool_eq. exact H4.
  - apply Qeq_bool_eq. exact H5.
  - intros i Hi. apply Qltb_lt. apply (forallb_seq _ _ _ H6). lia.
  - intros Hd i Hi. apply orb_true_iff in H7. destruct H7 as [H7|H7].
    + apply negb_true_iff in H7. apply Nat.ltb_ge in H7. lia.
    + apply dy_eqb_eq. apply (forallb_seq _ _ _ H7). lia.
Qed.

Lemma bonnet_check_sound i : bonnet_check i = true -> bonnet_stmt i.
Proof.
  unfold bonnet_check, bonnet_stmt. intros H. apply andb_true_iff in H. destruct H as [H1 H2].
  split. - apply Nat.eqb_eq. exact H1. - apply poly_eqb_sound. exact H2.
Qed.

Lemma legendre_head_check_sound : legendre_head_check = true -> legendre_head_stmt.
Proof.
  unfold legendre_head_check, legendre_head_stmt. intros H.
  rewrite !andb_true_iff in H. destruct H as [[[[H1 H2] H3] H4] H5].
  repeat split; try (apply Nat.eqb_eq; assumption); apply poly_eqb_sound; assumption.
Qed.

Lemma newton_check_sound d : newton_check d = true -> newton_stmt d.
Proof.
  unfold newton_check, newton_stmt. intros H. apply andb_true_iff in H. destruct H as [H1 H2].
  split. - apply Nat.eqb_eq. exact H1. - apply poly_eqb_sound. exact H2.
Qed.

Lemma VVinv_check_sound d : VVinv_check d = true -> VVinv_stmt d.
Proof.
  unfold VVinv_check, VVinv_stmt. cbv zeta. intros H.
  rewrite !andb_true_iff in H. destruct H as [[H1 H2] H3].
  split; [|split].
  - apply mat_dimsb_sound. exact H1.
  - apply mat_dimsb_sound. exact H2.
  - intros i j Hi Hj. apply Qltb_lt.
    apply (forallb2_seq (fun i j => Qltb (Qabs (VVinv_entry d i j - delta i j)) bound40) _ _ H3); assumption.
Qed.

Lemma T_check_sound T a j : T_check T a j = true -> T_stmt T a j.
Proof.
  unfold T_check, T_stmt. cbv zeta. intros H. apply andb_true_iff in H. destruct H as [H1 H2].
  split. - apply poly_eqb_sound. exact H1.
  - intros i Hi. apply (forallb_seq _ _ _ H2). lia.
Qed.

Lemma Vbasis_check_sound d : Vbasis_check d = true -> Vbasis_stmt d.
Proof.
  unfold Vbasis_check, Vbasis_stmt. cbv zeta. intros H i j Hi Hj.
  apply (forallb2_seq (fun i j => close_to_sqrt (mget (nth d V []) i j) (pevalr (P j) (node d i))
                                   (Z.of_nat (2 * j + 1) # 2) bound40) _ _ H); assumption.
Qed.

(* ------------------------------------------------------------------ *)
(* polynomial operations are homomorphic for evaluation *)

Lemma qadd_eq a b : qadd a b == a + b. Proof. apply Qred_correct. Qed.
Lemma qmul_eq a b : qmul a b == a * b. Proof. apply Qred_correct. Qed.
Lemma qsub_eq a b : qsub a b == a - b. Proof. apply Qred_correct. Qed.
Lemma qdiv_eq a b : qdiv a b == a / b. Proof. apply Qred_correct. Qed.

Lemma peval_padd p q x : peval (padd p q) x == peval p x + peval q x.
Proof.
  revert q. induction p as [|a p IH]; intros q.
  - simpl. ring.
  - destruct q as [|b q].
    + simpl. ring.
    + simpl. rewrite qadd_eq, IH. ring.
Qed.

Lemma peval_pscale c p x : peval (pscale c p) x == c * peval p x.
Proof.
  induction p as [|a p IH]; simpl.
  - ring.
  - rewrite qmul_eq. unfold pscale in IH. rewrite IH. ring.
Qed.

Lemma peval_pmulx p x : peval (pmulx p) x == x * peval p x.
Proof. simpl. ring. Qed.

Lemma peval_psub p q x : peval (psub p q) x == peval p x - peval q x.
Proof. unfold psub. rewrite peval_padd, peval_pscale. ring. Qed.

Lemma peval_pmul p q x : peval (pmul p q) x == peval p x * peval q x.
Proof.
  induction p as [|a p IH].
  - simpl. ring.
  - cbn [pmul]. rewrite peval_padd, peval_pscale, peval_pmulx, IH. simpl. ring.
Qed.

Lemma peval_pcomp p q x : peval (pcomp p q) x == peval p (peval q x).
Proof.
  induction p as [|a p IH].
  - reflexivity.
  - cbn [pcomp]. rewrite peval_padd, peval_pmul, IH. simpl. ring.
Qed.

Lemma pevalr_eq p x : pevalr p x == peval p x.
Proof.
  induction p as [|a p IH]; simpl.
  - reflexivity.
  - rewrite qadd_eq, qmul_eq, IH. reflexivity.
Qed.

Lemma peval_zero q x : (forall k, coef q k == 0) -> peval q x == 0.
Proof.
  induction q as [|b q IH]; intros H.
  - reflexivity.
  - simpl. rewrite IH.
    + assert (H0 := H O). unfold coef in H0. simpl in H0. rewrite H0. ring.
    + intros k. exact (H (S k)).
Qed.

Lemma peval_poly_eq p q x : poly_eq p q -> peval p x == peval q x.
Proof.
  revert q. induction p as [|a p IH]; intros q H.
  - simpl. symmetry. apply peval_zero. intros k. rewrite <- (H k). unfold coef. destruct k; reflexivity.
  - destruct q as [|b q].
    + apply peval_zero. intros k. rewrite (H k). unfold coef. destruct k; reflexivity.
    + simpl. rewrite (IH q).
      * assert (H0 := H O). unfold coef in H0. simpl in H0. rewrite H0. reflexivity.
      * intros k. exact (H (S k)).
Qed.

Lemma peval_lincomb cs ps x :
  peval (lincomb cs ps) x ==
  fold_right Qplus 0 (map (fun cp => fst cp * peval (snd cp) x) (combine cs ps)).
Proof.
  revert ps. induction cs as [|c cs IH]; intros ps.
  - reflexivity.
  - destruct ps as [|p ps].
    + reflexivity.
    + cbn [lincomb combine map fold_right fst snd]. rewrite peval_padd, peval_pscale, IH. reflexivity.
Qed.


(* ------------------------------------------------------------------ *)
(* meaning of the number conversions *)

Lemma pow2_pos k : Zpos (Pos.iter xO 1%positive k) = (2 ^ Zpos k)%Z.
Proof.
  change (2 ^ Zpos k)%Z with (Pos.iter (Z.mul 2) 1%Z k).
  apply (Pos.iter_swap_gen _ _ Zpos xO (Z.mul 2)). intros a. reflexivity.
Qed.

Lemma dy2Q_spec m e : dy2Q (m, e) == inject_Z m * (2 # 1) ^ e.
Proof.
  unfold dy2Q. destruct e as [|k|k].
  - simpl. ring.
  - change (Z.pow_pos 2 k) with (2 ^ Zpos k)%Z. rewrite inject_Z_mult.
    rewrite (Zpower_Qpower 2 (Zpos k)) by apply Pos2Z.is_nonneg. reflexivity.
  - rewrite Qmake_Qdiv, pow2_pos.
    rewrite (Zpower_Qpower 2 (Zpos k)) by apply Pos2Z.is_nonneg. reflexivity.
Qed.

Lemma two_pow_neg_spec k : two_pow_neg k == / (2 # 1) ^ Z.of_nat k.
Proof.
  unfold two_pow_neg. induction k as [|k IH].
  - reflexivity.
  - rewrite Nat2Z.inj_succ, <- Z.add_1_r, Qpower_plus by discriminate.
    change (Pos.shiftl_nat 1 (S k)) with (xO (Pos.shiftl_nat 1 k)).
    rewrite Qinv_mult_distr, <- IH. unfold Qeq. simpl. lia.
Qed.

(* the computed expansion, pointwise: sum_i c_i P_i(x) = P_j((x + a)/2) *)
Lemma peval_shift_poly a x : peval (shift_poly a) x == (x + a) / (2 # 1).
Proof. unfold shift_poly. simpl. rewrite qmul_eq. field. Qed.

Lemma expansion_pointwise a j :
  poly_eq (lincomb (shift_coeffs a j) legendre34) (shifted a j) ->
  forall x,
    fold_right Qplus 0 (map (fun cp => fst cp * peval (snd cp) x) (combine (shift_coeffs a j) legendre34))
    == peval (P j) ((x + a) / (2 # 1)).
Proof.
  intros H x. rewrite <- peval_lincomb, (peval_poly_eq _ _ x H).
  unfold shifted. rewrite peval_pcomp.
  (* peval is compatible with == in the point *)
  assert (Hc : forall p u v, u == v -> peval p u == peval p v).
  { induction p as [|c p IH]; intros u v Huv; simpl. reflexivity. rewrite (IH u v Huv), Huv. reflexivity. }
  apply Hc. apply peval_shift_poly.
Qed.

(* ------------------------------------------------------------------ *)
(* the checks, by computation on the exported data *)

Lemma nodes_all : forallb nodes_check (seq 0 4) = true.
Proof. vm_cast_no_check (@eq_refl bool true). Qed.

Lemma legendre_all : legendre_head_check && forallb bonnet_check (seq 2 32) = true.
Proof. vm_cast_no_check (@eq_refl bool true). Qed.

Lemma ortho_all : forallb (fun n => forallb (ortho_check n) (seq 0 34)) (seq 0 34) = true.
Proof. vm_cast_no_check (@eq_refl bool true). Qed.

Lemma newton_all : forallb newton_check (seq 0 4) = true.
Proof. vm_cast_no_check (@eq_refl bool true). Qed.

Lemma VVinv_all : forallb VVinv_check (seq 0 4) = true.
Proof. vm_cast_no_check (@eq_refl bool true). Qed.

Lemma Vbasis_all : forallb Vbasis_check (seq 0 4) = true.
Proof. vm_cast_no_check (@eq_refl bool true). Qed.

Lemma T_all :
  mat_dimsb T_left 33 33 && mat_dimsb T_right 33 33 &&
  forallb (T_check T_left (-1 # 1)) (seq 0 33) && forallb (T_check T_right 1) (seq 0 33) = true.
Proof. vm_cast_no_check (@eq_refl bool true). Qed.

Lemma scalars_all : scalars_check = true.
Proof. vm_cast_no_check (@eq_refl bool true). Qed.

(* ------------------------------------------------------------------ *)
(* the statements *)

Lemma nodes_nested_antisymmetric : forall d, (d < 4)%nat -> nodes_stmt d.
Proof. intros d Hd. apply nodes_check_sound. apply (forallb_seq _ _ _ nodes_all). lia. Qed.

Lemma legendre_bonnet_34 :
  length legendre34 = 34%nat /\
  length (P 0) = 1%nat /\ poly_eq (P 0) [1] /\
  length (P 1) = 2%nat /\ poly_eq (P 1) [0; 1] /\
  forall i, (2 <= i < 34)%nat -> bonnet_stmt i.
Proof.
  assert (H := legendre_all). apply andb_prop in H. destruct H as [H1 H2].
  apply legendre_head_check_sound in H1. destruct H1 as (A & B & C & D & E).
  repeat (split; [assumption|]).
  intros i Hi. apply bonnet_check_sound. apply (forallb_seq _ _ _ H2). lia.
Qed.

Lemma legendre_orthogonal_34 : forall n m, (n < 34)%nat -> (m < 34)%nat -> ortho_stmt n m.
Proof.
  intros n m Hn Hm. unfold ortho_stmt. apply Qeq_bool_eq.
  apply (forallb2_seq ortho_check _ _ ortho_all); assumption.
Qed.

Lemma newton_exact : forall d, (d < 4)%nat -> newton_stmt d.
Proof. intros d Hd. apply newton_check_sound. apply (forallb_seq _ _ _ newton_all). lia. Qed.

Lemma V_Vinv_close : forall d, (d < 4)%nat -> VVinv_stmt d.
Proof. intros d Hd. apply VVinv_check_sound. apply (forallb_seq _ _ _ VVinv_all). lia. Qed.

Lemma V_is_legendre_basis : forall d, (d < 4)%nat -> Vbasis_stmt d.
Proof. intros d Hd. apply Vbasis_check_sound. apply (forallb_seq _ _ _ Vbasis_all). lia. Qed.

Lemma T_close :
  mat_dims T_left 33 33 /\ mat_dims T_right 33 33 /\
  forall j, (j < 33)%nat -> T_stmt T_left (-1 # 1) j /\ T_stmt T_right 1 j.
Proof.
  assert (H := T_all).
  (* no [rewrite !andb_true_iff] here: on closed terms it would unfold the checks *)
  apply andb_prop in H. destruct H as [H H4]. apply andb_prop in H. destruct H as [H H3].
  apply andb_prop in H. destruct H as [H1 H2].
  split; [apply mat_dimsb_sound; exact H1|]. split; [apply mat_dimsb_sound; exact H2|].
  intros j Hj. split; apply T_check_sound.
  - apply (forallb_seq _ _ _ H3). lia.
  - apply (forallb_seq _ _ _ H4). lia.
Qed.

Lemma T_expansion_pointwise : forall j, (j < 33)%nat -> forall x,
  fold_right Qplus 0 (map (fun cp => fst cp * peval (snd cp) x) (combine (shift_coeffs (-1 # 1) j) legendre34))
    == peval (P j) ((x + (-1 # 1)) / (2 # 1)) /\
  fold_right Qplus 0 (map (fun cp => fst cp * peval (snd cp) x) (combine (shift_coeffs 1 j) legendre34))
    == peval (P j) ((x + 1) / (2 # 1)).
Proof.
  intros j Hj x. destruct T_close as (_ & _ & H). destruct (H j Hj) as [[Hl _] [Hr _]].
  split; apply expansion_pointwise; assumption.
Qed.

Lemma scalars_ok : scalars_stmt.
Proof.
  assert (H := scalars_all). unfold scalars_check in H. unfold scalars_stmt.
  apply andb_prop in H. destruct H as [H H7]. apply andb_prop in H. destruct H as [H H6].
  apply andb_prop in H. destruct H as [H H5]. apply andb_prop in H. destruct H as [H H4].
  apply andb_prop in H. destruct H as [H H3]. apply andb_prop in H. destruct H as [H1 H2].
  split; [apply Qeq_bool_eq; exact H1|]. split; [apply Qeq_bool_eq; exact H2|].
  split; [apply Z.eqb_eq; exact H3|]. split; [apply Qltb_lt; exact H4|].
  split; [apply Nat.eqb_eq; exact H5|]. split; [apply Nat.eqb_eq; exact H6|].
  intros k Hk. apply andb_true_iff. apply (forallb_seq _ _ _ H7). lia.
Qed.

(* the operations on coefficient lists are the operations on polynomial
   functions ([peval] = value at a point) *)
Lemma poly_ops_sound :
  (forall a b, qadd a b == a + b) /\ (forall a b, qmul a b == a * b) /\
  (forall a b, qsub a b == a - b) /\ (forall a b, qdiv a b == a / b) /\
  (forall p q x, peval (padd p q) x == peval p x + peval q x) /\
  (forall p q x, peval (psub p q) x == peval p x - peval q x) /\
  (forall c p x, peval (pscale c p) x == c * peval p x) /\
  (forall p x, peval (pmulx p) x == x * peval p x) /\
  (forall p q x, peval (pmul p q) x == peval p x * peval q x) /\
  (forall p q x, peval (pcomp p q) x == peval p (peval q x)) /\
  (forall p x, pevalr p x == peval p x) /\
  (forall p q x, poly_eq p q -> peval p x == peval q x) /\
  (forall m e, dy2Q (m, e) == inject_Z m * (2 # 1) ^ e) /\
  (forall k, two_pow_neg k == / (2 # 1) ^ Z.of_nat k).
Proof.
  repeat split; intros;
    auto using qadd_eq, qmul_eq, qsub_eq, qdiv_eq, peval_padd, peval_psub, peval_pscale, peval_pmulx,
               peval_pmul, peval_pcomp, pevalr_eq, peval_poly_eq, dy2Q_spec, two_pow_neg_spec.
Qed.

(* ------------------------------------------------------------------ *)
(* |t - c sqrt q| < delta over R *)
From Coq Require Import Reals Qreals Lra.

Section SqrtSound.
  Local Open Scope R_scope.

  Lemma Q2R_0' : Q2R 0 = 0.
  Proof. unfold Q2R. simpl. lra. Qed.

  Ltac q2r H := repeat first [rewrite Q2R_mult in H | rewrite Q2R_plus in H
                              | rewrite Q2R_minus in H | rewrite Q2R_0' in H].

  Lemma close_core_sound t c q d :
    close_core t c q d = true -> (0 <= c)%Q -> (0 <= q)%Q ->
    Rabs (Q2R t - Q2R c * sqrt (Q2R q)) < Q2R d.
  Proof.
    unfold close_core. cbv zeta. intros H Hc Hq.
    apply andb_true_iff in H. destruct H as [Hlo Hhi].
    apply andb_true_iff in Hhi. destruct Hhi as [Hhi1 Hhi2].
    apply Qltb_lt in Hhi1. apply Qltb_lt in Hhi2.
    apply Qle_Rle in Hc. apply Qle_Rle in Hq. rewrite Q2R_0' in Hc, Hq.
    apply Qlt_Rlt in Hhi1. apply Qlt_Rlt in Hhi2.
    q2r Hhi1. q2r Hhi2.
    set (T := Q2R t) in *. set (C := Q2R c) in *. set (D := Q2R d) in *.
    assert (Hs := sqrt_sqrt _ Hq). assert (Hs0 := sqrt_pos (Q2R q)).
    set (r := sqrt (Q2R q)) in *. set (QQ := Q2R q) in *.
    assert (Hsr : 0 <= C * r) by (apply Rmult_le_pos; assumption).
    assert (Hs2 : (C * r) * (C * r) = C * C * QQ) by (rewrite <- Hs; ring).
    assert (Hup : C * r < T + D).
    { destruct (Rlt_le_dec (C * r) (T + D)) as [|Hge]; [assumption|]. exfalso.
      assert ((T + D) * (T + D) <= (C * r) * (C * r)) by (apply Rmult_le_compat; lra). lra. }
    assert (Hdn : T - D < C * r).
    { apply orb_true_iff in Hlo. destruct Hlo as [Hlo|Hlo]; apply Qltb_lt in Hlo; apply Qlt_Rlt in Hlo;
      q2r Hlo; fold T D C QQ in Hlo.
      - lra.
      - destruct (Rlt_le_dec (T - D) (C * r)) as [|Hge]; [assumption|]. exfalso.
        assert ((C * r) * (C * r) <= (T - D) * (T - D)) by (apply Rmult_le_compat; lra). lra. }
    apply Rabs_def1; lra.
  Qed.

  Theorem close_to_sqrt_sound t c q d :
    close_to_sqrt t c q d = true -> (0 <= q)%Q ->
    Rabs (Q2R t - Q2R c * sqrt (Q2R q)) < Q2R d.
  Proof.
    unfold close_to_sqrt. intros H Hq. destruct (Qltb c 0) eqn:Hc.
    - apply Qltb_lt in Hc.
      assert (Hc' : (0 <= - c)%Q) by (apply Qlt_le_weak in Hc; apply Qopp_le_compat in Hc; exact Hc).
      assert (H1 := close_core_sound _ _ _ _ H Hc' Hq). rewrite !Q2R_opp in H1.
      replace (Q2R t - Q2R c * sqrt (Q2R q)) with (- (- Q2R t - - Q2R c * sqrt (Q2R q))) by ring.
      rewrite Rabs_Ropp. exact H1.
    - apply close_core_sound; try assumption.
      unfold Qltb in Hc. apply negb_false_iff in Hc. apply Qle_bool_iff in Hc. exact Hc.
  Qed.
End SqrtSound.
