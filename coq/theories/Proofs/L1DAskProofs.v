(* Proofs about [ask_points] / [ask] of the Learner1D model (property C02).

   Part 1 (Section Greedy): the abstract exchange lemma -- a greedy process
     that always bumps an arg-max of antitone key functions minimises the
     maximal key among all allocations with the same total.
   Part 2 (Section Ask): the model's [ask_loop] IS that greedy process
     (refinement), and the structural theorems about [ask_points]: count,
     bounds first, empty learner -> uniform grid, equal subdivision,
     optimality.  Everything is generic in the number type; the laws used are
     explicit ([OrderLaws], [key_antitone], [LinLaws]).
   Part 3 (Section XQ): an exact instance (rationals extended with +-inf) for
     which every law is proved, closing the theorems without hypotheses. *)
From Coq Require Import List Arith Bool Lia Sorted Permutation.
From AV Require Import Base.Prelude Model.L1D.
Import ListNotations.

(* ================================================================== *)
(* Part 1: greedy minimises the maximum                                 *)
(* ================================================================== *)
Section Greedy.
  Variables I K : Type.
  Variable I_eq_dec : forall i j : I, {i = j} + {i <> j}.
  Variable le : K -> K -> Prop.
  Hypothesis le_refl : forall x, le x x.
  Hypothesis le_trans : forall x y z, le x y -> le y z -> le x z.
  Variable key : I -> nat -> K.          (* key i k: cost of item i when it holds k units *)
  Variable idx : list I.                 (* the finite index set *)
  Variable a0 : I -> nat.                (* the initial allocation *)
  Hypothesis antitone : forall i n, In i idx -> a0 i <= n -> le (key i (S n)) (key i n).

  Definition bump (a : I -> nat) (i : I) : I -> nat :=
    fun j => if I_eq_dec j i then S (a j) else a j.

  Fixpoint total (a : I -> nat) (l : list I) : nat :=
    match l with [] => 0 | i :: l' => a i + total a l' end.

  (* one greedy step gives one more unit to an index whose current key is
     maximal (ANY arg-max: ties may be broken arbitrarily) *)
  Inductive greedy : nat -> (I -> nat) -> Prop :=
  | greedy_O : greedy 0 a0
  | greedy_S k a i :
      greedy k a -> In i idx ->
      (forall j, In j idx -> le (key j (a j)) (key i (a i))) ->
      greedy (S k) (bump a i).

  Lemma bump_ge a i j : a j <= bump a i j.
  Proof. unfold bump. destruct (I_eq_dec j i); lia. Qed.

  Lemma greedy_ge k a : greedy k a -> forall j, a0 j <= a j.
  Proof.
    induction 1 as [|k a i H IH Hi Hmax]; intros j; [lia|].
    specialize (IH j). pose proof (bump_ge a i j). lia.
  Qed.

  Lemma antitone_le i n m : In i idx -> a0 i <= n -> n <= m -> le (key i m) (key i n).
  Proof.
    intros Hi Hn Hnm. induction Hnm as [|m Hnm IH]; [apply le_refl|].
    eapply le_trans; [apply antitone; [exact Hi | lia] | exact IH].
  Qed.

  (* the exchange lemma: whenever index i went past level m, its key at level m
     dominated every key of the final allocation *)
  Lemma greedy_bumped_max k a :
    greedy k a -> forall i m, In i idx -> a0 i <= m -> m < a i ->
    forall j, In j idx -> le (key j (a j)) (key i m).
  Proof.
    induction 1 as [|k a i' H IH Hi' Hmax]; intros i m Hi Hm0 Hm j Hj; [lia|].
    assert (Hstep : le (key j (bump a i' j)) (key j (a j))).
    { apply antitone_le; [exact Hj | apply (greedy_ge k a H) | apply bump_ge]. }
    eapply le_trans; [exact Hstep|].
    unfold bump in Hm. destruct (I_eq_dec i i') as [->|Hne].
    - destruct (Nat.eq_dec m (a i')) as [->|Hlt].
      + apply Hmax; exact Hj.
      + apply IH; auto; lia.
    - apply IH; auto.
  Qed.

  Lemma total_pointwise a b l :
    (forall i, In i l -> a i <= b i) -> total a l = total b l -> forall i, In i l -> a i = b i.
  Proof.
    induction l as [|x l IH]; intros Hle Hs i Hi; [destruct Hi|].
    cbn [total] in Hs.
    assert (Hx : a x <= b x) by (apply Hle; left; reflexivity).
    assert (Hl : total a l <= total b l).
    { clear -Hle. induction l as [|y l IH]; cbn [total]; [lia|].
      assert (a y <= b y) by (apply Hle; right; left; reflexivity).
      assert (total a l <= total b l) by (apply IH; intros z [->|Hz]; apply Hle; [left|right; right]; auto).
      lia. }
    destruct Hi as [->|Hi]; [lia|].
    apply IH; auto; [intros z Hz; apply Hle; right; exact Hz | lia].
  Qed.

  Lemma exists_below_or_all_ge (a b : I -> nat) l :
    (exists i, In i l /\ b i < a i) \/ (forall i, In i l -> a i <= b i).
  Proof.
    induction l as [|x l [[i [Hi Hlt]]|IH]].
    - right; intros i [].
    - left; exists i; split; [right|]; assumption.
    - destruct (lt_dec (b x) (a x)) as [Hlt|Hge].
      + left; exists x; split; [left; reflexivity | exact Hlt].
      + right; intros i [->|Hi]; [lia | apply IH; exact Hi].
  Qed.

  Lemma total_bump_notin a i l : ~ In i l -> total (bump a i) l = total a l.
  Proof.
    induction l as [|x l IH]; intros Hn; [reflexivity|]. cbn [total].
    rewrite IH by (intros H; apply Hn; right; exact H).
    unfold bump. destruct (I_eq_dec x i) as [->|]; [exfalso; apply Hn; left; reflexivity | reflexivity].
  Qed.

  Lemma total_bump a i l : NoDup l -> In i l -> total (bump a i) l = S (total a l).
  Proof.
    induction 1 as [|x l Hx Hnd IH]; intros Hi; [destruct Hi|]. cbn [total].
    destruct Hi as [->|Hi].
    - rewrite total_bump_notin by exact Hx. unfold bump. destruct (I_eq_dec i i); [lia|congruence].
    - rewrite IH by exact Hi. unfold bump. destruct (I_eq_dec x i) as [->|]; [contradiction|lia].
  Qed.

  Lemma greedy_total k a : NoDup idx -> greedy k a -> total a idx = total a0 idx + k.
  Proof.
    intros Hnd; induction 1 as [|k a i H IH Hi Hmax]; [lia|].
    rewrite total_bump by assumption. lia.
  Qed.

  (* the maximal key of the greedy allocation is not larger than the maximal
     key of ANY allocation [b >= a0] with the same total *)
  Theorem greedy_minimises_max k a (b : I -> nat) :
    greedy k a ->
    (forall i, In i idx -> a0 i <= b i) ->
    total b idx = total a idx ->
    forall i, In i idx -> exists j, In j idx /\ le (key i (a i)) (key j (b j)).
  Proof.
    intros Hg Hb Htot i Hi.
    destruct (exists_below_or_all_ge a b idx) as [[i0 [Hi0 Hlt]]|Hall].
    - exists i0; split; [exact Hi0|].
      apply (greedy_bumped_max k a Hg); auto.
    - exists i; split; [exact Hi|].
      rewrite (total_pointwise a b idx Hall (eq_sym Htot) i Hi). apply le_refl.
  Qed.
End Greedy.

(* ================================================================== *)
(* Generic facts about the model's insertion sort                       *)
(* ================================================================== *)
Section SortInsert.
  Variable A : Type.
  Variable lt : A -> A -> bool.

  Lemma sort_insert_split x l :
    exists l1 l2, l = l1 ++ l2 /\ sort_insert lt x l = l1 ++ x :: l2.
  Proof.
    induction l as [|y l IH]; cbn [sort_insert].
    - exists [], []; split; reflexivity.
    - destruct (lt y x).
      + destruct IH as (l1 & l2 & -> & ->). exists (y :: l1), l2; split; reflexivity.
      + exists [], (y :: l); split; reflexivity.
  Qed.

  Lemma sort_insert_perm x l : Permutation (sort_insert lt x l) (x :: l).
  Proof.
    destruct (sort_insert_split x l) as (l1 & l2 & -> & ->).
    symmetry; apply Permutation_middle.
  Qed.

  Lemma sort_insert_in x l y : In y (sort_insert lt x l) <-> y = x \/ In y l.
  Proof.
    split; intros H.
    - apply (Permutation_in _ (sort_insert_perm x l)) in H. destruct H; auto.
    - apply (Permutation_in _ (Permutation_sym (sort_insert_perm x l))). destruct H; [left|right]; auto.
  Qed.

  Lemma sort_insert_nonempty x l : sort_insert lt x l <> [].
  Proof. destruct (sort_insert_split x l) as (l1 & l2 & _ & ->). destruct l1; discriminate. Qed.

  Lemma sort_by_perm_acc l : forall acc,
    Permutation (fold_left (fun acc x => sort_insert lt x acc) l acc) (l ++ acc).
  Proof.
    induction l as [|x l IH]; intros acc; cbn [fold_left app]; [reflexivity|].
    rewrite IH. rewrite sort_insert_perm. symmetry; apply Permutation_middle.
  Qed.

  Lemma sort_by_perm l : Permutation (sort_by lt l) l.
  Proof. unfold sort_by. rewrite sort_by_perm_acc, app_nil_r. reflexivity. Qed.

  (* sortedness with respect to any relation compatible with [lt] *)
  Variable R : A -> A -> Prop.
  Hypothesis R_trans : forall x y z, R x y -> R y z -> R x z.
  Hypothesis lt_true : forall y x, lt y x = true -> R y x.
  Hypothesis lt_false : forall y x, lt y x = false -> R x y.

  Lemma sort_insert_sorted x l : StronglySorted R l -> StronglySorted R (sort_insert lt x l).
  Proof.
    induction 1 as [|y l Hs IH Hall]; cbn [sort_insert]; [repeat constructor|].
    destruct (lt y x) eqn:E.
    - constructor; [exact IH|].
      apply Forall_forall; intros z Hz. apply sort_insert_in in Hz. destruct Hz as [->|Hz].
      + apply lt_true; exact E.
      + rewrite Forall_forall in Hall; apply Hall; exact Hz.
    - constructor; [constructor; assumption|].
      constructor; [apply lt_false; exact E|].
      apply Forall_forall; intros z Hz. rewrite Forall_forall in Hall.
      eapply R_trans; [apply lt_false; exact E | apply Hall; exact Hz].
  Qed.

  Lemma sort_by_sorted l : StronglySorted R (sort_by lt l).
  Proof.
    unfold sort_by. assert (H : StronglySorted R []) by constructor. revert H.
    generalize (@nil A). induction l as [|x l IH]; intros acc H; cbn [fold_left]; [exact H|].
    apply IH, sort_insert_sorted, H.
  Qed.
End SortInsert.
Arguments sort_insert_split {A}. Arguments sort_insert_perm {A}. Arguments sort_insert_in {A}.
Arguments sort_insert_nonempty {A}. Arguments sort_by_perm {A}.
Arguments sort_insert_sorted {A}. Arguments sort_by_sorted {A}.

(* ================================================================== *)
(* Part 2: the model's ask                                              *)
(* ================================================================== *)
Section Ask.
  Variable num : Type.
  Variables (add sub mul div : num -> num -> num).
  Variables (ltb eqb : num -> num -> bool).
  Variables (zero one inf neg_inf : num).
  Variable is_nan : num -> bool.
  Variable is_inf : num -> bool.
  Variable round12 : num -> num.
  Variable of_nat : nat -> num.
  Variable L : list (option num) -> list (option (Y num)) -> num.
  Variable P : params num.

  Notation st := (st num).
  Notation ival := (ival num).
  Notation qual := (qual num).
  Notation f2 := (@finite_loss2 num sub div is_nan is_inf round12).
  Notation f3 := (@finite_loss3 num sub div is_nan is_inf round12 of_nat).
  Notation qual_ltb := (@qual_ltb num sub div ltb eqb is_nan is_inf round12 of_nat).
  Notation key2_ltb := (@key2_ltb num sub div ltb eqb is_nan is_inf round12).
  Notation ival_ge_qual := (@ival_ge_qual num sub div ltb eqb is_nan is_inf round12 of_nat).
  Notation ival_ltb := (@ival_ltb num ltb eqb).
  Notation ival_eqb := (@ival_eqb num eqb).
  Notation ask_loop := (@ask_loop num sub mul div ltb eqb is_nan is_inf round12 of_nat).
  Notation ask_points := (@ask_points num add sub mul div ltb eqb zero inf is_nan is_inf round12 of_nat P).
  Notation linspace := (@linspace num add sub mul div of_nat).
  Notation np_linspace := (@np_linspace num add sub mul div eqb zero of_nat).
  Notation missing_bounds := (@missing_bounds num eqb P).
  Notation mem := (@mem num eqb).
  Notation dget := (@dget num eqb).
  Notation merge_sorted := (@merge_sorted num ltb eqb).
  Notation leb := (@leb num ltb eqb).
  Notation in_bounds := (@in_bounds num ltb eqb P).
  Notation pairs := (@pairs num).
  Notation lget := (@lget num eqb).

  (* ---------------- the laws of the number structure ---------------- *)
  (* [ltb] is a strict total order and [eqb] decides Leibniz equality.  IEEE
     doubles satisfy this on non-NaN values up to the identification of +0/-0;
     the exact instance of Part 3 satisfies it outright. *)
  Record OrderLaws : Prop := {
    eqb_eq : forall x y, eqb x y = true <-> x = y;
    ltb_irrefl : forall x, ltb x x = false;
    ltb_trans : forall x y z, ltb x y = true -> ltb y z = true -> ltb x z = true;
    ltb_total : forall x y, ltb x y = false -> ltb y x = false -> x = y
  }.

  (* x <= y on keys *)
  Definition le (x y : num) : Prop := ltb y x = false.

  Section WithOrder.
  Hypothesis OL : OrderLaws.

  Lemma le_refl x : le x x.
  Proof. apply (ltb_irrefl OL). Qed.

  Lemma ltb_asym x y : ltb x y = true -> ltb y x = false.
  Proof.
    intros H. destruct (ltb y x) eqn:E; [|reflexivity].
    pose proof (ltb_trans OL _ _ _ H E) as C. rewrite (ltb_irrefl OL) in C. discriminate.
  Qed.

  Lemma le_trans x y z : le x y -> le y z -> le x z.
  Proof.
    unfold le; intros Hxy Hyz. destruct (ltb z x) eqn:E; [|reflexivity].
    destruct (ltb x y) eqn:Exy.
    - rewrite (ltb_trans OL _ _ _ E Exy) in Hyz. discriminate.
    - pose proof (ltb_total OL _ _ Exy Hxy) as ->. rewrite E in Hyz. discriminate.
  Qed.

  Lemma lt_le x y : ltb x y = true -> le x y.
  Proof. apply ltb_asym. Qed.

  Lemma eqb_refl x : eqb x x = true.
  Proof. apply (eqb_eq OL); reflexivity. Qed.

  Lemma eqb_le x y : eqb x y = true -> le y x.
  Proof. intros H. apply (eqb_eq OL) in H. subst. apply le_refl. Qed.

  Lemma ival_eqb_eq (i j : ival) : ival_eqb i j = true <-> i = j.
  Proof.
    unfold L1D.ival_eqb. destruct i as [a b], j as [c d]; cbn [fst snd].
    rewrite andb_true_iff, !(eqb_eq OL). split; [intros [-> ->]; reflexivity | intros H; inversion H; auto].
  Qed.

  Definition ival_eq_dec (i j : ival) : {i = j} + {i <> j}.
  Proof.
    destruct (ival_eqb i j) eqn:E.
    - left; apply ival_eqb_eq; exact E.
    - right; intros H; apply ival_eqb_eq in H; congruence.
  Defined.

  (* ---------------- the loop, one iteration at a time ---------------- *)
  Definition fq (xs : num) (q : qual) : num := f3 (q_iv q) (q_n q) (q_loss q) xs.
  Definition fe (xs : num) (e : ival * num) : num := f2 (fst e) (snd e) xs.
  Definition newq (e : ival * num) : qual := (fst e, 2, div (snd e) (of_nat 2)).
  Definition bumpq (q : qual) : qual :=
    (q_iv q, S (q_n q), div (mul (q_loss q) (of_nat (q_n q))) (of_nat (S (q_n q)))).

  Lemma q_n_bumpq q : q_n (bumpq q) = S (q_n q). Proof. reflexivity. Qed.
  Lemma q_iv_bumpq q : q_iv (bumpq q) = q_iv q. Proof. reflexivity. Qed.
  Lemma q_loss_bumpq q :
    q_loss (bumpq q) = div (mul (q_loss q) (of_nat (q_n q))) (of_nat (S (q_n q))). Proof. reflexivity. Qed.
  Lemma q_n_newq e : q_n (newq e) = 2. Proof. reflexivity. Qed.
  Lemma q_iv_newq e : q_iv (newq e) = fst e. Proof. reflexivity. Qed.
  Lemma q_loss_newq e : q_loss (newq e) = div (snd e) (of_nat 2). Proof. reflexivity. Qed.

  Inductive lstep (xs : num) : list (ival * num) -> list qual -> list (ival * num) -> list qual -> Prop :=
  | ls_take e rest quals :
      (forall q qs, quals = q :: qs -> ival_ge_qual xs e q = true) ->
      lstep xs (e :: rest) quals rest (sort_insert (qual_ltb xs) (newq e) quals)
  | ls_bump q qs rest :
      (forall e r, rest = e :: r -> ival_ge_qual xs e q = false) ->
      lstep xs rest (q :: qs) rest (sort_insert (qual_ltb xs) (bumpq q) qs).

  Lemma ask_loop_inv xs (Inv : nat -> list (ival * num) -> list qual -> Prop) :
    (forall j r q r' q', Inv j r q -> lstep xs r q r' q' -> Inv (S j) r' q') ->
    forall k j r q, (q <> [] \/ r <> []) -> Inv j r q ->
    exists r', Inv (k + j) r' (ask_loop k xs r q).
  Proof.
    intros Hstep. induction k as [|k IH]; intros j r q Hne HI.
    - exists r. exact HI.
    - replace (S k + j) with (k + S j) by lia.
      cbn [L1D.ask_loop]. destruct q as [|q0 qs], r as [|e r'].
      + destruct Hne; congruence.
      + apply IH; [left; apply sort_insert_nonempty|].
        apply (Hstep j (e :: r') []); [exact HI|]. apply ls_take. intros; discriminate.
      + apply IH; [left; apply sort_insert_nonempty|].
        apply (Hstep j [] (q0 :: qs)); [exact HI|]. apply (ls_bump xs q0 qs []). intros; discriminate.
      + destruct (ival_ge_qual xs e q0) eqn:E.
        * apply IH; [left; apply sort_insert_nonempty|].
          apply (Hstep j (e :: r') (q0 :: qs)); [exact HI|]. apply ls_take.
          intros q qs' Hq; inversion Hq; subst; exact E.
        * apply IH; [left; apply sort_insert_nonempty|].
          apply (Hstep j (e :: r') (q0 :: qs)); [exact HI|]. apply (ls_bump xs q0 qs (e :: r')).
          intros e' r Hq; inversion Hq; subst; exact E.
  Qed.

  (* the comparisons of the loop, read as inequalities between keys *)
  Lemma ge_true xs e q : ival_ge_qual xs e q = true -> le (fq xs q) (fe xs e).
  Proof.
    unfold L1D.ival_ge_qual, fq, fe, le. intros H. apply orb_true_iff in H. destruct H as [H|H].
    - apply ltb_asym; exact H.
    - apply andb_true_iff in H. destruct H as [H _]. apply (eqb_eq OL) in H. rewrite H. apply (ltb_irrefl OL).
  Qed.

  Lemma ge_false xs e q : ival_ge_qual xs e q = false -> le (fe xs e) (fq xs q).
  Proof.
    unfold L1D.ival_ge_qual, fq, fe, le. intros H. apply orb_false_iff in H. destruct H as [H _]. exact H.
  Qed.

  Definition Rq (xs : num) (q1 q2 : qual) : Prop := le (fq xs q2) (fq xs q1).   (* q1 may precede q2 *)
  Definition Re (xs : num) (e1 e2 : ival * num) : Prop := le (fe xs e2) (fe xs e1).

  Lemma qual_ltb_true xs y x : qual_ltb xs y x = true -> Rq xs y x.
  Proof.
    unfold L1D.qual_ltb, Rq, fq, le. intros H. apply orb_true_iff in H. destruct H as [H|H].
    - apply ltb_asym; exact H.
    - apply andb_true_iff in H. destruct H as [H _]. apply (eqb_eq OL) in H. rewrite H. apply (ltb_irrefl OL).
  Qed.
  Lemma qual_ltb_false xs y x : qual_ltb xs y x = false -> Rq xs x y.
  Proof.
    unfold L1D.qual_ltb, Rq, fq, le. intros H. apply orb_false_iff in H. destruct H as [H _]. exact H.
  Qed.
  Lemma key2_ltb_true xs y x : key2_ltb xs y x = true -> Re xs y x.
  Proof.
    unfold L1D.key2_ltb, Re, fe, le. intros H. apply orb_true_iff in H. destruct H as [H|H].
    - apply ltb_asym; exact H.
    - apply andb_true_iff in H. destruct H as [H _]. apply (eqb_eq OL) in H. rewrite H. apply (ltb_irrefl OL).
  Qed.
  Lemma key2_ltb_false xs y x : key2_ltb xs y x = false -> Re xs x y.
  Proof.
    unfold L1D.key2_ltb, Re, fe, le. intros H. apply orb_false_iff in H. destruct H as [H _]. exact H.
  Qed.
  Lemma Rq_trans xs x y z : Rq xs x y -> Rq xs y z -> Rq xs x z.
  Proof. unfold Rq; intros H1 H2. eapply le_trans; eassumption. Qed.
  Lemma Re_trans xs x y z : Re xs x y -> Re xs y z -> Re xs x z.
  Proof. unfold Re; intros H1 H2. eapply le_trans; eassumption. Qed.

  Lemma quals_sorted_insert xs q l :
    StronglySorted (Rq xs) l -> StronglySorted (Rq xs) (sort_insert (qual_ltb xs) q l).
  Proof.
    apply sort_insert_sorted; [apply Rq_trans | apply qual_ltb_true | apply qual_ltb_false].
  Qed.
  Lemma quals_sorted_by xs l : StronglySorted (Rq xs) (sort_by (qual_ltb xs) l).
  Proof. apply sort_by_sorted; [apply Rq_trans | apply qual_ltb_true | apply qual_ltb_false]. Qed.
  Lemma losc_sorted_by xs l : StronglySorted (Re xs) (sort_by (key2_ltb xs) l).
  Proof. apply sort_by_sorted; [apply Re_trans | apply key2_ltb_true | apply key2_ltb_false]. Qed.

  Lemma NoDup_app_disjoint {A} (l1 l2 : list A) x : NoDup (l1 ++ l2) -> In x l1 -> In x l2 -> False.
  Proof.
    induction l1 as [|y l1 IH]; cbn [app]; intros Hnd H1 H2; [destruct H1|].
    inversion Hnd as [|? ? Hy Hnd']; subst. destruct H1 as [->|H1].
    - apply Hy, in_or_app; right; exact H2.
    - apply IH; assumption.
  Qed.

  Lemma NoDup_app_r {A} (l1 l2 : list A) : NoDup (l1 ++ l2) -> NoDup l2.
  Proof. induction l1 as [|y l1 IH]; cbn [app]; intros H; [exact H|]. inversion H; auto. Qed.
  Lemma NoDup_app_l {A} (l1 l2 : list A) : NoDup (l1 ++ l2) -> NoDup l1.
  Proof.
    induction l1 as [|y l1 IH]; cbn [app]; intros H; [constructor|]. inversion H as [|? ? Hy Hnd]; subst.
    constructor; [intros C; apply Hy, in_or_app; left; exact C | apply IH; exact Hnd].
  Qed.

  Lemma list_sum_cons (a : nat) l : list_sum (a :: l) = a + list_sum l.
  Proof. reflexivity. Qed.

  Lemma list_sum_insert {A} (lt : A -> A -> bool) (f : A -> nat) x l :
    list_sum (map f (sort_insert lt x l)) = f x + list_sum (map f l).
  Proof.
    destruct (sort_insert_split lt x l) as (l1 & l2 & -> & ->).
    rewrite !map_app, !list_sum_app. cbn [map]. rewrite list_sum_cons. lia.
  Qed.

  (* ---------------- refinement: the loop is the greedy process ---------------- *)
  Section Loop.
    Variable xs : num.
    (* [ls iv k]: the loss the code stores for interval iv once it is split into k parts;
       [kf iv k]: the code's sort key (finite_loss) at that moment *)
    Variables kf ls : ival -> nat -> num.
    Variable rest0 : list (ival * num).
    Variable quals0 : list qual.
    Definition lidx : list ival := map (@q_iv num) quals0 ++ map fst rest0.
    Hypothesis Hnd0 : NoDup lidx.
    Hypothesis Hls_q : forall q, In q quals0 ->
      q_n q = 1 /\ q_loss q = ls (q_iv q) 1 /\
      ls (q_iv q) 2 = div (mul (ls (q_iv q) 1) (of_nat 1)) (of_nat 2) /\
      kf (q_iv q) 1 = f3 (q_iv q) 1 (ls (q_iv q) 1) xs.
    Hypothesis Hls_c : forall e, In e rest0 ->
      ls (fst e) 2 = div (snd e) (of_nat 2) /\ kf (fst e) 1 = fe xs e.
    Hypothesis Hls_S : forall iv n, 2 <= n ->
      ls iv (S n) = div (mul (ls iv n) (of_nat n)) (of_nat (S n)).
    Hypothesis Hkf : forall iv n, 2 <= n -> kf iv n = f3 iv n (ls iv n) xs.
    Hypothesis Hsq0 : StronglySorted (Rq xs) quals0.
    Hypothesis Hse0 : StronglySorted (Re xs) rest0.

    Definition lgreedy := greedy ival num ival_eq_dec le kf lidx (fun _ => 1).
    Definition nparts (quals : list qual) : nat := list_sum (map (fun q : qual => q_n q - 1) quals).

    Record LInv (j : nat) (rest : list (ival * num)) (quals : list qual) (a : ival -> nat) : Prop := {
      li_sq : StronglySorted (Rq xs) quals;
      li_se : StronglySorted (Re xs) rest;
      li_incl : incl rest rest0;
      li_perm : Permutation (map (@q_iv num) quals ++ map fst rest) lidx;
      li_q : forall q, In q quals ->
             1 <= q_n q /\ a (q_iv q) = q_n q /\ q_loss q = ls (q_iv q) (q_n q) /\ (q_n q = 1 -> In q quals0);
      li_r : forall e, In e rest -> a (fst e) = 1;
      li_sum : nparts quals = j
    }.

    Lemma key_of_q j r q a q1 : LInv j r q a -> In q1 q -> kf (q_iv q1) (a (q_iv q1)) = fq xs q1.
    Proof.
      intros HI Hq. destruct (li_q _ _ _ _ HI q1 Hq) as (Hn & Ha & Hl & H1). rewrite Ha. unfold fq.
      destruct (Nat.eq_dec (q_n q1) 1) as [E|E].
      - destruct (Hls_q q1 (H1 E)) as (_ & _ & _ & Hk). rewrite Hl, E. exact Hk.
      - rewrite Hkf by lia. rewrite Hl. reflexivity.
    Qed.

    Lemma key_of_e j r q a e1 : LInv j r q a -> In e1 r -> kf (fst e1) (a (fst e1)) = fe xs e1.
    Proof.
      intros HI He. rewrite (li_r _ _ _ _ HI e1 He). apply Hls_c, (li_incl _ _ _ _ HI), He.
    Qed.

    Lemma sorted_head_max {A} (R : A -> A -> Prop) x l y :
      (forall z, R z z) -> StronglySorted R (x :: l) -> In y (x :: l) -> R x y.
    Proof.
      intros Hr Hs [->|Hy]; [apply Hr|]. inversion Hs as [|? ? _ Hall]; subst.
      rewrite Forall_forall in Hall. apply Hall, Hy.
    Qed.

    Lemma step_pres j r q r' q' a :
      lgreedy j a -> LInv j r q a -> lstep xs r q r' q' ->
      exists a', lgreedy (S j) a' /\ LInv (S j) r' q' a'.
    Proof.
      intros Hg HI Hst.
      assert (Hnd : NoDup (map (@q_iv num) q ++ map fst r)).
      { eapply Permutation_NoDup; [symmetry; apply (li_perm _ _ _ _ HI) | exact Hnd0]. }
      destruct Hst as [e rest quals Hge | qh qs rest Hge].
      - (* an untouched interval of losses_combined gets its first subdivision *)
        exists (bump ival ival_eq_dec a (fst e)). split.
        + apply greedy_S; [exact Hg | |].
          * eapply Permutation_in; [apply (li_perm _ _ _ _ HI)|]. apply in_or_app; right; left; reflexivity.
          * intros i Hi. rewrite (key_of_e _ _ _ _ e HI) by (left; reflexivity).
            eapply Permutation_in in Hi; [|symmetry; apply (li_perm _ _ _ _ HI)].
            apply in_app_or in Hi. destruct Hi as [Hi|Hi].
            -- apply in_map_iff in Hi. destruct Hi as (q1 & <- & Hq1).
               rewrite (key_of_q _ _ _ _ q1 HI Hq1).
               destruct quals as [|qh qs]; [destruct Hq1|].
               eapply le_trans; [|apply ge_true, (Hge qh qs eq_refl)].
               apply (sorted_head_max (Rq xs) qh qs q1); [intros z; apply le_refl | apply (li_sq _ _ _ _ HI) | exact Hq1].
            -- apply in_map_iff in Hi. destruct Hi as (e1 & <- & He1).
               rewrite (key_of_e _ _ _ _ e1 HI He1).
               apply (sorted_head_max (Re xs) e rest e1); [intros z; apply le_refl | apply (li_se _ _ _ _ HI) | exact He1].
        + assert (Hse : StronglySorted (Re xs) rest).
          { pose proof (li_se _ _ _ _ HI) as H; inversion H; assumption. }
          assert (Hine : In e rest0) by (apply (li_incl _ _ _ _ HI); left; reflexivity).
          constructor.
          * apply quals_sorted_insert, (li_sq _ _ _ _ HI).
          * exact Hse.
          * intros z Hz; apply (li_incl _ _ _ _ HI); right; exact Hz.
          * etransitivity; [|apply (li_perm _ _ _ _ HI)].
            etransitivity; [apply Permutation_app_tail, Permutation_map, sort_insert_perm|].
            cbn [map app]. apply Permutation_middle.
          * intros q1 Hq1. apply sort_insert_in in Hq1. destruct Hq1 as [->|Hq1].
            -- rewrite q_n_newq, q_iv_newq, q_loss_newq. unfold bump.
               destruct (ival_eq_dec (fst e) (fst e)) as [_|C]; [|congruence].
               rewrite (li_r _ _ _ _ HI e) by (left; reflexivity).
               destruct (Hls_c e Hine) as [H2 _]. rewrite H2.
               repeat split; try lia; try reflexivity.
            -- destruct (li_q _ _ _ _ HI q1 Hq1) as (Hn & Ha & Hl & H1).
               repeat split; try assumption. unfold bump.
               destruct (ival_eq_dec (q_iv q1) (fst e)) as [C|_]; [|exact Ha].
               exfalso. apply (NoDup_app_disjoint _ _ (fst e) Hnd); [rewrite <- C; apply in_map; exact Hq1 | left; reflexivity].
          * intros e1 He1. unfold bump.
            destruct (ival_eq_dec (fst e1) (fst e)) as [C|_]; [|apply (li_r _ _ _ _ HI); right; exact He1].
            exfalso. apply NoDup_app_r in Hnd. cbn [map] in Hnd. inversion Hnd as [|? ? Hn _]; subst.
            apply Hn. rewrite <- C. apply in_map; exact He1.
          * unfold nparts. rewrite list_sum_insert, q_n_newq.
            pose proof (li_sum _ _ _ _ HI) as Hs. unfold nparts in Hs. lia.
      - (* the best already subdivided interval gets one more point *)
        assert (Hqh : In qh (qh :: qs)) by (left; reflexivity).
        destruct (li_q _ _ _ _ HI qh Hqh) as (Hnh & Hah & Hlh & H1h).
        exists (bump ival ival_eq_dec a (q_iv qh)). split.
        + apply greedy_S; [exact Hg | |].
          * eapply Permutation_in; [apply (li_perm _ _ _ _ HI)|]. apply in_or_app; left; left; reflexivity.
          * intros i Hi. rewrite (key_of_q _ _ _ _ qh HI Hqh).
            eapply Permutation_in in Hi; [|symmetry; apply (li_perm _ _ _ _ HI)].
            apply in_app_or in Hi. destruct Hi as [Hi|Hi].
            -- apply in_map_iff in Hi. destruct Hi as (q1 & <- & Hq1).
               rewrite (key_of_q _ _ _ _ q1 HI Hq1).
               apply (sorted_head_max (Rq xs) qh qs q1); [intros z; apply le_refl | apply (li_sq _ _ _ _ HI) | exact Hq1].
            -- apply in_map_iff in Hi. destruct Hi as (e1 & <- & He1).
               rewrite (key_of_e _ _ _ _ e1 HI He1).
               destruct rest as [|eh rest']; [destruct He1|].
               eapply le_trans; [|apply ge_false, (Hge eh rest' eq_refl)].
               apply (sorted_head_max (Re xs) eh rest' e1); [intros z; apply le_refl | apply (li_se _ _ _ _ HI) | exact He1].
        + assert (Hsq : StronglySorted (Rq xs) qs).
          { pose proof (li_sq _ _ _ _ HI) as H; inversion H; assumption. }
          constructor.
          * apply quals_sorted_insert, Hsq.
          * apply (li_se _ _ _ _ HI).
          * apply (li_incl _ _ _ _ HI).
          * etransitivity; [|apply (li_perm _ _ _ _ HI)].
            apply Permutation_app_tail. etransitivity; [apply Permutation_map, sort_insert_perm|]. reflexivity.
          * intros q1 Hq1. apply sort_insert_in in Hq1. destruct Hq1 as [->|Hq1].
            -- rewrite q_n_bumpq, q_iv_bumpq, q_loss_bumpq. unfold bump.
               destruct (ival_eq_dec (q_iv qh) (q_iv qh)) as [_|C]; [|congruence].
               rewrite Hah, Hlh. repeat split; try lia.
               destruct (Nat.eq_dec (q_n qh) 1) as [E|E].
               ++ destruct (Hls_q qh (H1h E)) as (_ & _ & H2 & _). rewrite E. symmetry; exact H2.
               ++ symmetry; apply Hls_S; lia.
            -- destruct (li_q _ _ _ _ HI q1 (or_intror Hq1)) as (Hn & Ha & Hl & H1).
               repeat split; try assumption. unfold bump.
               destruct (ival_eq_dec (q_iv q1) (q_iv qh)) as [C|_]; [|exact Ha].
               exfalso. apply NoDup_app_l in Hnd. cbn [map] in Hnd. inversion Hnd as [|? ? Hn' _]; subst.
               apply Hn'. rewrite <- C. apply in_map; exact Hq1.
          * intros e1 He1. unfold bump.
            destruct (ival_eq_dec (fst e1) (q_iv qh)) as [C|_]; [|apply (li_r _ _ _ _ HI); exact He1].
            exfalso. apply (NoDup_app_disjoint _ _ (q_iv qh) Hnd); [left; reflexivity | rewrite <- C; apply in_map; exact He1].
          * unfold nparts. rewrite list_sum_insert, q_n_bumpq.
            pose proof (li_sum _ _ _ _ HI) as Hs. unfold nparts in Hs. cbn [map] in Hs. rewrite list_sum_cons in Hs. lia.
    Qed.

    Lemma nparts_ones (l : list qual) : (forall q, In q l -> q_n q = 1) -> nparts l = 0.
    Proof.
      unfold nparts. induction l as [|q l IH]; intros H; [reflexivity|]. cbn [map]. rewrite list_sum_cons.
      rewrite (H q) by (left; reflexivity). rewrite IH by (intros z Hz; apply H; right; exact Hz). reflexivity.
    Qed.

    Lemma nparts_init : nparts quals0 = 0.
    Proof. apply nparts_ones. intros q Hq; apply (Hls_q q Hq). Qed.

    Lemma LInv_init : LInv 0 rest0 quals0 (fun _ => 1).
    Proof.
      constructor; try assumption.
      - intros z Hz; exact Hz.
      - reflexivity.
      - intros q Hq. destruct (Hls_q q Hq) as (Hn & Hl & _). rewrite Hn. repeat split; auto.
      - reflexivity.
      - apply nparts_init.
    Qed.

    (* REFINEMENT: k iterations of the model's loop are k steps of the abstract
       greedy process over the intervals [lidx] with keys [kf], starting from
       one part per interval.  Ties: the loop picks one particular arg-max (by the
       tuple order of the code); the greedy relation allows any. *)
    Theorem ask_loop_refines k :
      (quals0 <> [] \/ rest0 <> []) ->
      exists r a, lgreedy k a /\ LInv k r (ask_loop k xs rest0 quals0) a.
    Proof.
      intros Hne.
      destruct (ask_loop_inv xs (fun j r q => exists a, lgreedy j a /\ LInv j r q a)) with (k := k) (j := 0) (r := rest0) (q := quals0)
        as (r & a & Hg & HI).
      - intros j r q r' q' (a & Hg & HI) Hst. eapply step_pres; eassumption.
      - exact Hne.
      - exists (fun _ => 1). split; [apply greedy_O | apply LInv_init].
      - rewrite Nat.add_0_r in Hg, HI. exists r, a. split; assumption.
    Qed.

    Lemma total_const1 l : total ival (fun _ => 1) l = length l.
    Proof. induction l as [|x l IH]; cbn [total length]; [reflexivity | rewrite IH; reflexivity]. Qed.

    (* structure of the result: every loop iteration adds exactly one point *)
    Theorem ask_loop_struct k :
      (quals0 <> [] \/ rest0 <> []) ->
      let quals := ask_loop k xs rest0 quals0 in
      nparts quals = k /\ NoDup (map (@q_iv num) quals) /\
      forall q, In q quals -> 1 <= q_n q /\ In (q_iv q) lidx /\ q_loss q = ls (q_iv q) (q_n q).
    Proof.
      intros Hne quals. destruct (ask_loop_refines k Hne) as (r & a & Hg & HI). fold quals in HI.
      assert (Hnd : NoDup (map (@q_iv num) quals ++ map fst r)).
      { eapply Permutation_NoDup; [symmetry; apply (li_perm _ _ _ _ HI) | exact Hnd0]. }
      split; [apply (li_sum _ _ _ _ HI)|]. split; [apply NoDup_app_l in Hnd; exact Hnd|].
      intros q Hq. destruct (li_q _ _ _ _ HI q Hq) as (Hn & _ & Hl & _). repeat split; auto.
      eapply Permutation_in; [apply (li_perm _ _ _ _ HI)|]. apply in_or_app; left; apply in_map; exact Hq.
    Qed.

    (* OPTIMALITY of the allocation computed by the loop, for keys that do not
       increase under subdivision *)
    Hypothesis Hanti : forall iv n, In iv lidx -> 1 <= n -> le (kf iv (S n)) (kf iv n).

    Theorem ask_loop_optimal k :
      (quals0 <> [] \/ rest0 <> []) ->
      let quals := ask_loop k xs rest0 quals0 in
      exists a : ival -> nat,
        (forall q, In q quals -> a (q_iv q) = q_n q) /\
        (forall i, In i lidx -> ~ In i (map (@q_iv num) quals) -> a i = 1) /\
        total ival a lidx = length lidx + k /\
        forall b : ival -> nat,
          (forall i, In i lidx -> 1 <= b i) -> total ival b lidx = length lidx + k ->
          forall i, In i lidx -> exists j, In j lidx /\ le (kf i (a i)) (kf j (b j)).
    Proof.
      intros Hne quals. destruct (ask_loop_refines k Hne) as (r & a & Hg & HI). fold quals in HI.
      assert (Htot : total ival a lidx = length lidx + k).
      { unfold lgreedy in Hg. rewrite (greedy_total _ _ ival_eq_dec le kf lidx (fun _ => 1) k a Hnd0 Hg).
        rewrite total_const1. reflexivity. }
      exists a. split; [|split; [|split]].
      - intros q Hq. apply (li_q _ _ _ _ HI q Hq).
      - intros i Hi Hn. eapply Permutation_in in Hi; [|symmetry; apply (li_perm _ _ _ _ HI)].
        apply in_app_or in Hi. destruct Hi as [Hi|Hi]; [contradiction|].
        apply in_map_iff in Hi. destruct Hi as (e & <- & He). apply (li_r _ _ _ _ HI e He).
      - exact Htot.
      - intros b Hb Hbt i Hi.
        apply (greedy_minimises_max _ _ ival_eq_dec le le_refl le_trans kf lidx (fun _ => 1) Hanti k a b Hg Hb); [lia | exact Hi].
    Qed.
  End Loop.

  (* ---------------- small facts about the model's containers ---------------- *)
  Lemma mem_iff x l : mem x l = true <-> In x l.
  Proof.
    induction l as [|y l IH]; cbn [L1D.mem In]; [split; [discriminate | tauto]|].
    rewrite orb_true_iff, IH, (eqb_eq OL). split; intros [H|H]; auto.
  Qed.

  Lemma mem_false_iff x l : mem x l = false <-> ~ In x l.
  Proof. rewrite <- mem_iff. destruct (mem x l); split; congruence. Qed.

  Lemma dget_none_iff x (d : list (num * Y num)) : dget x d = None <-> ~ In x (map fst d).
  Proof.
    induction d as [|[k v] d IH]; cbn [L1D.dget map In fst]; [tauto|].
    destruct (eqb x k) eqn:E.
    - apply (eqb_eq OL) in E. subst. split; [discriminate | intros H; exfalso; apply H; left; reflexivity].
    - rewrite IH. split; [intros H [C|C]; [subst; rewrite eqb_refl in E; discriminate | auto] | intros H C; apply H; right; exact C].
  Qed.

  Lemma lget_in (m : list (ival * num)) k v : NoDup (map fst m) -> In (k, v) m -> lget k m = Some v.
  Proof.
    induction m as [|[k' v'] m IH]; intros Hnd Hin; [destruct Hin|]. cbn [L1D.lget].
    cbn [map fst] in Hnd. inversion Hnd as [|? ? Hk Hnd']; subst.
    destruct Hin as [E|Hin].
    - inversion E; subst. destruct (ival_eqb k k) eqn:E'; [reflexivity|].
      assert (ival_eqb k k = true) by (apply ival_eqb_eq; reflexivity). congruence.
    - destruct (ival_eqb k k') eqn:E'; [|apply IH; assumption].
      apply ival_eqb_eq in E'. subst. exfalso. apply Hk. change k' with (fst (k', v)). apply in_map; exact Hin.
  Qed.

  Lemma lget_notin (m : list (ival * num)) k : ~ In k (map fst m) -> lget k m = None.
  Proof.
    induction m as [|[k' v'] m IH]; intros Hn; [reflexivity|]. cbn [L1D.lget].
    destruct (ival_eqb k k') eqn:E'.
    - apply ival_eqb_eq in E'. subst. exfalso. apply Hn. left; reflexivity.
    - apply IH. intros C; apply Hn; right; exact C.
  Qed.

  Definition lt (a b : num) : Prop := ltb a b = true.

  Lemma pairs_cons2 a b (l : list num) : pairs (a :: b :: l) = (a, b) :: pairs (b :: l).
  Proof. reflexivity. Qed.

  Lemma pairs_in (l : list num) a b : In (a, b) (pairs l) -> In a l /\ In b l.
  Proof.
    induction l as [|x l IH]; [intros []|]. destruct l as [|y l]; [intros []|].
    rewrite pairs_cons2. intros [E|H].
    - inversion E; subst. split; [left; reflexivity | right; left; reflexivity].
    - destruct (IH H) as [Ha Hb]. split; right; assumption.
  Qed.

  Lemma pairs_snoc (l : list num) x d : l <> [] -> pairs (l ++ [x]) = pairs l ++ [(last_num l d, x)].
  Proof.
    induction l as [|a l IH]; intros Hne; [congruence|]. destruct l as [|b l].
    - reflexivity.
    - change ((a :: b :: l) ++ [x]) with (a :: b :: (l ++ [x])). rewrite !pairs_cons2.
      change (b :: l ++ [x]) with ((b :: l) ++ [x]). rewrite IH by discriminate. reflexivity.
  Qed.

  Lemma pairs_nonempty (l : list num) a b : In a l -> In b l -> a <> b -> pairs l <> [].
  Proof.
    destruct l as [|x [|y l]]; intros Ha Hb Hne.
    - destruct Ha.
    - destruct Ha as [<-|[]], Hb as [<-|[]]. congruence.
    - rewrite pairs_cons2. discriminate.
  Qed.

  Lemma SS_app (R : num -> num -> Prop) l1 l2 :
    StronglySorted R l1 -> StronglySorted R l2 -> (forall x y, In x l1 -> In y l2 -> R x y) ->
    StronglySorted R (l1 ++ l2).
  Proof.
    induction 1 as [|x l1 Hs IH Hall]; intros H2 Hx; cbn [app]; [exact H2|].
    constructor.
    - apply IH; [exact H2 | intros a b Ha Hb; apply Hx; [right|]; assumption].
    - apply Forall_forall. intros z Hz. apply in_app_or in Hz. destruct Hz as [Hz|Hz].
      + rewrite Forall_forall in Hall; apply Hall; exact Hz.
      + apply Hx; [left; reflexivity | exact Hz].
  Qed.

  Lemma pairs_lt (l : list num) a b : StronglySorted lt l -> In (a, b) (pairs l) -> lt a b.
  Proof.
    induction 1 as [|x l Hs IH Hall]; [intros []|]. destruct l as [|y l]; [intros []|].
    rewrite pairs_cons2. intros [E|H].
    - inversion E; subst. rewrite Forall_forall in Hall. apply Hall; left; reflexivity.
    - apply IH; exact H.
  Qed.

  Lemma pairs_nodup (l : list num) : StronglySorted lt l -> NoDup (pairs l).
  Proof.
    induction 1 as [|x l Hs IH Hall]; [constructor|]. destruct l as [|y l]; [constructor|].
    rewrite pairs_cons2. constructor; [|exact IH].
    intros C. apply pairs_in in C. destruct C as [C _]. rewrite Forall_forall in Hall.
    specialize (Hall x C). unfold lt in Hall. rewrite (ltb_irrefl OL) in Hall. discriminate.
  Qed.

  (* between two consecutive elements of a strictly sorted list there is no element *)
  Lemma pairs_gap (l : list num) a b z :
    StronglySorted lt l -> In (a, b) (pairs l) -> In z l -> le z a \/ le b z.
  Proof.
    induction 1 as [|x l Hs IH Hall]; [intros []|]. destruct l as [|y l]; [intros []|].
    rewrite pairs_cons2. rewrite Forall_forall in Hall. intros [E|H] Hz.
    - inversion E; subst. destruct Hz as [<-|[<-|Hz]].
      + left; apply le_refl.
      + right; apply le_refl.
      + right. inversion Hs as [|? ? _ Hally]; subst. rewrite Forall_forall in Hally.
        apply lt_le, Hally, Hz.
    - destruct Hz as [<-|Hz]; [|apply IH; assumption].
      left. apply pairs_in in H. destruct H as [Ha _]. apply lt_le, Hall, Ha.
  Qed.

  Fixpoint ssorted (l : list num) : bool :=
    match l with
    | a :: l' => forallb (ltb a) l' && ssorted l'
    | [] => true
    end.

  Lemma ssorted_iff l : ssorted l = true <-> StronglySorted lt l.
  Proof.
    induction l as [|a l IH]; cbn [ssorted]; [split; [constructor | reflexivity]|].
    rewrite andb_true_iff, forallb_forall, IH. split.
    - intros [H1 H2]. constructor; [exact H2 | apply Forall_forall; exact H1].
    - intros H; inversion H as [|? ? H2 H1]; subst. rewrite Forall_forall in H1. split; assumption.
  Qed.

  (* ---------------- well-formed states ---------------- *)
  Definition keys (s : st) : list num := map fst (data s).
  Definition allp (s : st) : list num :=
    merge_sorted (length (data s) + length (pend s)) (keys s) (pend s).

  (* executable well-formedness: the structural part of the reachable-state
     invariant that [ask] relies on *)
  Definition wfb (s : st) : bool :=
    ltb (lo P) (hi P)
    && ssorted (nbc s)
    && forallb (fun x => mem x (nbc s)) (keys s)
    && forallb (fun x => mem x (nbc s)) (pend s)
    && forallb (fun x => mem x (keys s) || mem x (pend s)) (nbc s)
    && forallb in_bounds (nbc s)
    && list_eqb eqb (allp s) (nbc s)
    && list_eqb ival_eqb (map fst (losc s)) (pairs (nbc s))
    && eqb (mgrx s) (sx s).

  Record wf (s : st) : Prop := {
    wf_lohi : lt (lo P) (hi P);
    wf_sorted : StronglySorted lt (nbc s);                  (* neighbors_combined strictly sorted *)
    wf_mem : forall x, In x (nbc s) <-> In x (keys s) \/ In x (pend s);   (* = evaluated + pending points *)
    wf_inb : forall x, In x (nbc s) -> le (lo P) x /\ le x (hi P);        (* all inside the domain *)
    wf_allp : allp s = nbc s;                               (* list(data)+list(pending), sorted *)
    wf_keys : map fst (losc s) = pairs (nbc s);             (* losses_combined: one entry per interval *)
    wf_mgrx : mgrx s = sx s                                 (* the sort key's x-scale is the current one *)
  }.

  Lemma leb_le a b : leb a b = true -> le a b.
  Proof.
    unfold L1D.leb. intros H. apply orb_true_iff in H. destruct H as [H|H]; [apply lt_le; exact H|].
    apply (eqb_eq OL) in H. subst. apply le_refl.
  Qed.

  Lemma le_leb a b : le a b -> leb a b = true.
  Proof.
    unfold L1D.leb, le. intros H. destruct (ltb a b) eqn:E; [reflexivity|]. cbn [orb].
    apply (eqb_eq OL). apply (ltb_total OL); assumption.
  Qed.

  Lemma wfb_wf s : wfb s = true <-> wf s.
  Proof.
    unfold wfb. rewrite !andb_true_iff. split.
    - intros ((((((((H1 & H2) & H3) & H4) & H5) & H6) & H7) & H8) & H9).
      rewrite forallb_forall in H3, H4, H5, H6.
      constructor.
      + exact H1.
      + apply ssorted_iff; exact H2.
      + intros x. split.
        * intros Hx. specialize (H5 x Hx). apply orb_true_iff in H5. rewrite !mem_iff in H5. exact H5.
        * intros [Hx|Hx]; apply mem_iff; auto.
      + intros x Hx. specialize (H6 x Hx). unfold L1D.in_bounds in H6. apply andb_true_iff in H6.
        destruct H6 as [Ha Hb]. split; apply leb_le; assumption.
      + apply (list_eqb_spec eqb (eqb_eq OL)); exact H7.
      + apply (list_eqb_spec ival_eqb ival_eqb_eq); exact H8.
      + apply (eqb_eq OL); exact H9.
    - intros W. destruct W as [W1 W2 W3 W4 W5 W6 W7].
      repeat split.
      + exact W1.
      + apply ssorted_iff; exact W2.
      + apply forallb_forall. intros x Hx. apply mem_iff, W3. left; exact Hx.
      + apply forallb_forall. intros x Hx. apply mem_iff, W3. right; exact Hx.
      + apply forallb_forall. intros x Hx. apply orb_true_iff. rewrite !mem_iff. apply W3; exact Hx.
      + apply forallb_forall. intros x Hx. unfold L1D.in_bounds. destruct (W4 x Hx) as [Ha Hb].
        rewrite (le_leb _ _ Ha), (le_leb _ _ Hb). reflexivity.
      + apply (list_eqb_spec eqb (eqb_eq OL)); exact W5.
      + apply (list_eqb_spec ival_eqb ival_eqb_eq); exact W6.
      + apply (eqb_eq OL); exact W7.
  Qed.

  (* ---------------- missing end points ---------------- *)
  Definition missing (s : st) (b : num) : bool :=
    match dget b (data s) with Some _ => false | None => negb (mem b (pend s)) end.

  Lemma missing_iff s b : missing s b = true <-> ~ In b (keys s) /\ ~ In b (pend s).
  Proof.
    unfold missing, keys. destruct (dget b (data s)) eqn:E.
    - split; [discriminate|]. intros [H _]. apply dget_none_iff in H. congruence.
    - apply dget_none_iff in E. rewrite negb_true_iff, mem_false_iff. tauto.
  Qed.

  Lemma missing_false_iff s b : missing s b = false <-> In b (keys s) \/ In b (pend s).
  Proof.
    pose proof (missing_iff s b) as H. destruct (missing s b).
    - split; [discriminate|]. intros [C|C]; destruct H as [H _]; destruct (H eq_refl); contradiction.
    - split; [|reflexivity]. intros _.
      destruct (mem b (keys s)) eqn:E1; [left; apply mem_iff; exact E1|].
      destruct (mem b (pend s)) eqn:E2; [right; apply mem_iff; exact E2|].
      apply mem_false_iff in E1, E2. destruct H as [_ H]. specialize (H (conj E1 E2)). discriminate.
  Qed.

  Lemma lo_ne_hi s : wf s -> eqb (lo P) (hi P) = false.
  Proof.
    intros W. destruct (eqb (lo P) (hi P)) eqn:E; [|reflexivity]. apply (eqb_eq OL) in E.
    pose proof (wf_lohi s W) as H. unfold lt in H. rewrite E, (ltb_irrefl OL) in H. discriminate.
  Qed.

  (* _missing_bounds: the end points that are neither evaluated nor pending, in sorted order *)
  Lemma mb_eq s : wf s -> missing_bounds s = filter (missing s) [lo P; hi P].
  Proof. intros W. unfold L1D.missing_bounds. rewrite (lo_ne_hi s W). reflexivity. Qed.

  Lemma mb_mem_lo s : wf s -> mem (lo P) (missing_bounds s) = missing s (lo P).
  Proof.
    intros W. rewrite (mb_eq s W). cbn [filter]. pose proof (lo_ne_hi s W) as E.
    destruct (missing s (lo P)), (missing s (hi P)); cbn [L1D.mem]; rewrite ?eqb_refl, ?E; reflexivity.
  Qed.

  Lemma mb_mem_hi s : wf s -> mem (hi P) (missing_bounds s) = missing s (hi P).
  Proof.
    intros W. rewrite (mb_eq s W). cbn [filter]. pose proof (lo_ne_hi s W) as E.
    assert (E' : eqb (hi P) (lo P) = false).
    { destruct (eqb (hi P) (lo P)) eqn:E2; [|reflexivity]. apply (eqb_eq OL) in E2. rewrite E2, eqb_refl in E. discriminate. }
    destruct (missing s (lo P)), (missing s (hi P)); cbn [L1D.mem]; rewrite ?eqb_refl, ?E'; reflexivity.
  Qed.

  Lemma mb_length s : wf s ->
    length (missing_bounds s) = (if missing s (lo P) then 1 else 0) + (if missing s (hi P) then 1 else 0).
  Proof. intros W. rewrite (mb_eq s W). cbn [filter]. destruct (missing s (lo P)), (missing s (hi P)); reflexivity. Qed.

  Lemma missing_notin_nbc s b : wf s -> missing s b = true -> ~ In b (nbc s).
  Proof. intros W H C. apply missing_iff in H. apply (wf_mem s W) in C. tauto. Qed.

  Lemma notmissing_in_nbc s b : wf s -> missing s b = false -> In b (nbc s).
  Proof. intros W H. apply (wf_mem s W). apply missing_false_iff; exact H. Qed.

  (* ---------------- the intervals ask works with ---------------- *)
  (* known-or-pending points, extended by the end points that are still missing *)
  Definition ext (s : st) : list num :=
    (if missing s (lo P) then [lo P] else []) ++ nbc s ++ (if missing s (hi P) then [hi P] else []).
  Definition ivals (s : st) : list ival := pairs (ext s).

  Lemma lt_of_le_ne a b : le a b -> a <> b -> lt a b.
  Proof.
    unfold le, lt. intros H Hne. destruct (ltb a b) eqn:E; [reflexivity|].
    exfalso; apply Hne. apply (ltb_total OL); assumption.
  Qed.

  Lemma lt_trans a b c : lt a b -> lt b c -> lt a c.
  Proof. apply (ltb_trans OL). Qed.

  Lemma le_lt_trans a b c : le a b -> lt b c -> lt a c.
  Proof.
    intros H1 H2. destruct (ltb a b) eqn:E; [eapply lt_trans; eassumption|].
    pose proof (ltb_total OL _ _ E H1). subst. exact H2.
  Qed.

  Lemma lt_le_trans a b c : lt a b -> le b c -> lt a c.
  Proof.
    intros H1 H2. destruct (ltb b c) eqn:E; [eapply lt_trans; eassumption|].
    pose proof (ltb_total OL _ _ E H2). subst. exact H1.
  Qed.

  Lemma ext_sorted s : wf s -> StronglySorted lt (ext s).
  Proof.
    intros W. unfold ext.
    assert (Hlo : missing s (lo P) = true -> forall x, In x (nbc s) -> lt (lo P) x).
    { intros Hm x Hx. apply lt_of_le_ne; [apply (wf_inb s W x Hx)|].
      intros C; subst. exact (missing_notin_nbc s _ W Hm Hx). }
    assert (Hhi : missing s (hi P) = true -> forall x, In x (nbc s) -> lt x (hi P)).
    { intros Hm x Hx. apply lt_of_le_ne; [apply (wf_inb s W x Hx)|].
      intros C; subst. exact (missing_notin_nbc s _ W Hm Hx). }
    apply SS_app.
    - destruct (missing s (lo P)); repeat constructor.
    - apply SS_app; [apply (wf_sorted s W) | destruct (missing s (hi P)); repeat constructor |].
      intros x y Hx Hy. destruct (missing s (hi P)) eqn:E; [|destruct Hy]. destruct Hy as [<-|[]].
      apply Hhi; auto.
    - intros x y Hx Hy. destruct (missing s (lo P)) eqn:E; [|destruct Hx]. destruct Hx as [<-|[]].
      apply in_app_or in Hy. destruct Hy as [Hy|Hy]; [apply Hlo; auto|].
      destruct (missing s (hi P)); [|destruct Hy]. destruct Hy as [<-|[]]. apply (wf_lohi s W).
  Qed.

  Lemma ivals_nodup s : wf s -> NoDup (ivals s).
  Proof. intros W. apply pairs_nodup, ext_sorted, W. Qed.

  (* ---------------- the code's own key of an interval split into k parts ---------------- *)
  (* losses stored by the loop: an interval of losses_combined with loss l0 gets
     l0/2, then l*n/(n+1) per further point; an outer interval (missing end
     point) starts at inf with one part *)
  Fixpoint lseq_c (l0 : num) (n : nat) : num :=
    match n with
    | 0 => l0
    | S m => match m with
             | 0 => l0
             | S m' => match m' with
                       | 0 => div l0 (of_nat 2)
                       | S _ => div (mul (lseq_c l0 m) (of_nat m)) (of_nat (S m))
                       end
             end
    end.
  Fixpoint lseq_q (n : nat) : num :=
    match n with
    | 0 => inf
    | S m => match m with
             | 0 => inf
             | S _ => div (mul (lseq_q m) (of_nat m)) (of_nat (S m))
             end
    end.

  Definition sub_loss (s : st) (iv : ival) (n : nat) : num :=
    match lget iv (losc s) with Some l0 => lseq_c l0 n | None => lseq_q n end.

  (* finite_loss of the interval when split into n parts *)
  Definition key_of (s : st) (iv : ival) (n : nat) : num :=
    match n with
    | 0 | 1 => match lget iv (losc s) with
               | Some l0 => f2 iv l0 (sx s)
               | None => f3 iv 1 inf (sx s)
               end
    | _ => f3 iv n (sub_loss s iv n) (sx s)
    end.

  Lemma sub_loss_S s iv n : 2 <= n ->
    sub_loss s iv (S n) = div (mul (sub_loss s iv n) (of_nat n)) (of_nat (S n)).
  Proof.
    intros H. destruct n as [|[|n]]; try lia. unfold sub_loss. destruct (lget iv (losc s)); reflexivity.
  Qed.

  Lemma key_of_ge2 s iv n : 2 <= n -> key_of s iv n = f3 iv n (sub_loss s iv n) (sx s).
  Proof. intros H. destruct n as [|[|n]]; try lia. reflexivity. Qed.

  (* ---------------- ask_points, general branch ---------------- *)
  Definition q0_of (s : st) : list qual :=
    (if mem (lo P) (missing_bounds s) then [((lo P, first_num (allp s) (lo P)), 1, inf)] else []) ++
    (if mem (hi P) (missing_bounds s) then [((last_num (allp s) (hi P), hi P), 1, inf)] else []).
  Definition quals0_of (s : st) : list qual := sort_by (qual_ltb (sx s)) (q0_of s).
  Definition rest0_of (s : st) : list (ival * num) := sort_by (key2_ltb (mgrx s)) (losc s).
  Definition quals_of (s : st) (n : nat) : list qual :=
    ask_loop (n - length (missing_bounds s)) (sx s) (rest0_of s) (quals0_of s).
  Definition pts_of (quals : list qual) : list num :=
    flat_map (fun q : qual => linspace (fst (q_iv q)) (snd (q_iv q)) (q_n q)) quals.
  Definition imps_of (quals : list qual) : list num :=
    flat_map (fun q : qual => repeat (q_loss q) (q_n q - 1)) quals.

  Lemma ask_points_general s n :
    length (missing_bounds s) < n -> length (data s) + length (pend s) <> 0 ->
    ask_points s n =
      (missing_bounds s ++ pts_of (quals_of s n),
       repeat inf (length (missing_bounds s)) ++ imps_of (quals_of s n)).
  Proof.
    intros H1 H2. unfold L1D.ask_points. destruct n as [|n]; [lia|].
    destruct (Nat.leb_spec (S n) (length (missing_bounds s))); [lia|].
    destruct (Nat.eqb_spec (length (data s) + length (pend s)) 0); [lia|].
    reflexivity.
  Qed.

  Lemma ask_points_bounds s n :
    n <= length (missing_bounds s) ->
    ask_points s n = (firstn n (missing_bounds s), repeat inf n).
  Proof.
    intros H1. unfold L1D.ask_points. destruct n as [|n]; [reflexivity|].
    destruct (Nat.leb_spec (S n) (length (missing_bounds s))); [reflexivity|lia].
  Qed.

  Lemma ask_points_empty s n :
    length (missing_bounds s) < n -> length (data s) + length (pend s) = 0 ->
    ask_points s n = (np_linspace (lo P) (hi P) n, repeat inf n).
  Proof.
    intros H1 H2. unfold L1D.ask_points. destruct n as [|n]; [lia|].
    destruct (Nat.leb_spec (S n) (length (missing_bounds s))); [lia|].
    destruct (Nat.eqb_spec (length (data s) + length (pend s)) 0); [reflexivity|lia].
  Qed.

  Lemma first_num_app (l l' : list num) d : l <> [] -> first_num (l ++ l') d = first_num l d.
  Proof. destruct l; [congruence | reflexivity]. Qed.

  Lemma pairs_cons_ne x (l : list num) d : l <> [] -> pairs (x :: l) = (x, first_num l d) :: pairs l.
  Proof. destruct l; [congruence | reflexivity]. Qed.

  Lemma ivals_eq s : nbc s <> [] ->
    ivals s = (if missing s (lo P) then [(lo P, first_num (nbc s) (lo P))] else []) ++ pairs (nbc s) ++
              (if missing s (hi P) then [(last_num (nbc s) (hi P), hi P)] else []).
  Proof.
    intros Hne. unfold ivals, ext.
    destruct (missing s (lo P)), (missing s (hi P)); cbn [app]; rewrite ?app_nil_r.
    - rewrite (pairs_cons_ne (lo P) (nbc s ++ [hi P]) (lo P)) by (destruct (nbc s); discriminate).
      rewrite first_num_app by exact Hne. rewrite (pairs_snoc (nbc s) (hi P) (hi P) Hne). reflexivity.
    - rewrite (pairs_cons_ne (lo P) (nbc s) (lo P) Hne). reflexivity.
    - rewrite (pairs_snoc (nbc s) (hi P) (hi P) Hne). reflexivity.
    - reflexivity.
  Qed.

  Lemma nbc_nonempty s : wf s -> length (data s) + length (pend s) <> 0 -> nbc s <> [].
  Proof.
    intros W H C. assert (Hx : exists x, In x (keys s) \/ In x (pend s)).
    { unfold keys. destruct (data s) as [|[x y] d]; [|exists x; left; left; reflexivity].
      destruct (pend s) as [|x p]; [cbn in H; lia | exists x; right; left; reflexivity]. }
    destruct Hx as [x Hx]. apply (wf_mem s W) in Hx. rewrite C in Hx. destruct Hx.
  Qed.

  Lemma q0_ivs s : wf s ->
    map (@q_iv num) (q0_of s) =
      (if missing s (lo P) then [(lo P, first_num (nbc s) (lo P))] else []) ++
      (if missing s (hi P) then [(last_num (nbc s) (hi P), hi P)] else []).
  Proof.
    intros W. unfold q0_of. rewrite (mb_mem_lo s W), (mb_mem_hi s W), (wf_allp s W).
    destruct (missing s (lo P)), (missing s (hi P)); reflexivity.
  Qed.

  Lemma lidx_perm s : wf s -> nbc s <> [] -> Permutation (lidx (rest0_of s) (quals0_of s)) (ivals s).
  Proof.
    intros W Hne. unfold lidx, quals0_of, rest0_of.
    rewrite (Permutation_map (@q_iv num) (sort_by_perm (qual_ltb (sx s)) (q0_of s))).
    rewrite (Permutation_map fst (sort_by_perm (key2_ltb (mgrx s)) (losc s))).
    rewrite (q0_ivs s W), (wf_keys s W), (ivals_eq s Hne).
    rewrite <- app_assoc. apply Permutation_app_head. apply Permutation_app_comm.
  Qed.

  Lemma q0_in s q : wf s -> In q (quals0_of s) ->
    q_n q = 1 /\ q_loss q = inf /\
    ((missing s (lo P) = true /\ q_iv q = (lo P, first_num (nbc s) (lo P))) \/
     (missing s (hi P) = true /\ q_iv q = (last_num (nbc s) (hi P), hi P))).
  Proof.
    intros W Hq. unfold quals0_of in Hq. apply (Permutation_in _ (sort_by_perm _ _)) in Hq.
    unfold q0_of in Hq. rewrite (mb_mem_lo s W), (mb_mem_hi s W), (wf_allp s W) in Hq.
    apply in_app_or in Hq. destruct Hq as [Hq|Hq].
    - destruct (missing s (lo P)) eqn:E; [|destruct Hq]. destruct Hq as [<-|[]]. repeat split. left; split; reflexivity.
    - destruct (missing s (hi P)) eqn:E; [|destruct Hq]. destruct Hq as [<-|[]]. repeat split. right; split; reflexivity.
  Qed.

  Lemma losc_nodup s : wf s -> NoDup (map fst (losc s)).
  Proof. intros W. rewrite (wf_keys s W). apply pairs_nodup, (wf_sorted s W). Qed.

  Lemma loop_nonempty s : wf s -> quals0_of s <> [] \/ rest0_of s <> [].
  Proof.
    intros W.
    assert (Hq : q0_of s <> [] -> quals0_of s <> []).
    { intros H C. apply H. apply Permutation_nil. rewrite <- C. exact (sort_by_perm _ _). }
    unfold q0_of in Hq. rewrite (mb_mem_lo s W), (mb_mem_hi s W) in Hq.
    destruct (missing s (lo P)) eqn:E1; [left; apply Hq; discriminate|].
    destruct (missing s (hi P)) eqn:E2; [left; apply Hq; discriminate|].
    right. intros C. unfold rest0_of in C.
    assert (Hl : losc s = []) by (apply Permutation_nil; rewrite <- C; exact (sort_by_perm _ _)).
    pose proof (wf_keys s W) as Hk. rewrite Hl in Hk. cbn [map] in Hk.
    apply (pairs_nonempty (nbc s) (lo P) (hi P)); auto using notmissing_in_nbc.
    intros C'. pose proof (lo_ne_hi s W) as H. rewrite C', eqb_refl in H. discriminate.
  Qed.

  (* ---------------- the hypotheses of the loop refinement hold in a well-formed state ---------------- *)
  Lemma lidx_nodup s : wf s -> nbc s <> [] -> NoDup (lidx (rest0_of s) (quals0_of s)).
  Proof.
    intros W Hne. eapply Permutation_NoDup; [symmetry; apply (lidx_perm s W Hne) | apply (ivals_nodup s W)].
  Qed.

  Lemma rest0_in s e : In e (rest0_of s) <-> In e (losc s).
  Proof.
    unfold rest0_of. split; intros H.
    - eapply Permutation_in; [apply sort_by_perm | exact H].
    - eapply Permutation_in; [symmetry; apply sort_by_perm | exact H].
  Qed.

  Lemma q0_notin_losc s q : wf s -> nbc s <> [] -> In q (quals0_of s) -> lget (q_iv q) (losc s) = None.
  Proof.
    intros W Hne Hq. apply lget_notin. intros C.
    apply (NoDup_app_disjoint _ _ (q_iv q) (lidx_nodup s W Hne)); [apply in_map; exact Hq|].
    apply in_map_iff in C. destruct C as (e & He & Hin). rewrite <- He. apply in_map. apply rest0_in; exact Hin.
  Qed.

  Lemma hyp_q s : wf s -> nbc s <> [] -> forall q, In q (quals0_of s) ->
    q_n q = 1 /\ q_loss q = sub_loss s (q_iv q) 1 /\
    sub_loss s (q_iv q) 2 = div (mul (sub_loss s (q_iv q) 1) (of_nat 1)) (of_nat 2) /\
    key_of s (q_iv q) 1 = f3 (q_iv q) 1 (sub_loss s (q_iv q) 1) (sx s).
  Proof.
    intros W Hne q Hq. destruct (q0_in s q W Hq) as (Hn & Hl & _).
    pose proof (q0_notin_losc s q W Hne Hq) as Hg.
    unfold sub_loss, key_of. rewrite Hg. repeat split; auto.
  Qed.

  Lemma hyp_c s : wf s -> forall e, In e (rest0_of s) ->
    sub_loss s (fst e) 2 = div (snd e) (of_nat 2) /\ key_of s (fst e) 1 = fe (sx s) e.
  Proof.
    intros W e He. apply rest0_in in He.
    assert (Hg : lget (fst e) (losc s) = Some (snd e)).
    { apply lget_in; [apply (losc_nodup s W)|]. destruct e; exact He. }
    unfold sub_loss, key_of, fe. rewrite Hg. split; reflexivity.
  Qed.

  Lemma hyp_se s : wf s -> StronglySorted (Re (sx s)) (rest0_of s).
  Proof. intros W. unfold rest0_of. rewrite (wf_mgrx s W). apply losc_sorted_by. Qed.

  Lemma loop_struct s k : wf s -> nbc s <> [] ->
    let quals := ask_loop k (sx s) (rest0_of s) (quals0_of s) in
    nparts quals = k /\ NoDup (map (@q_iv num) quals) /\
    forall q, In q quals -> 1 <= q_n q /\ In (q_iv q) (ivals s) /\ q_loss q = sub_loss s (q_iv q) (q_n q).
  Proof.
    intros W Hne.
    destruct (ask_loop_struct (sx s) (key_of s) (sub_loss s) (rest0_of s) (quals0_of s)
                (lidx_nodup s W Hne) (hyp_q s W Hne) (hyp_c s W) (sub_loss_S s) (key_of_ge2 s)
                (quals_sorted_by (sx s) (q0_of s)) (hyp_se s W) k (loop_nonempty s W)) as (H1 & H2 & H3).
    split; [exact H1|]. split; [exact H2|]. intros q Hq. destruct (H3 q Hq) as (Ha & Hb & Hc).
    repeat split; auto. eapply Permutation_in; [apply (lidx_perm s W Hne) | exact Hb].
  Qed.

  (* ---------------- lengths ---------------- *)
  Lemma linspace_length a b n : length (linspace a b n) = n - 1.
  Proof.
    unfold L1D.linspace. destruct n as [|[|n]]; [reflexivity | reflexivity |].
    rewrite map_length, seq_length. reflexivity.
  Qed.

  Lemma np_linspace_length a b n : length (np_linspace a b n) = n.
  Proof.
    unfold L1D.np_linspace. destruct n as [|[|n]]; [reflexivity | reflexivity |].
    rewrite map_length, seq_length. reflexivity.
  Qed.

  Lemma pts_of_length quals : length (pts_of quals) = nparts quals.
  Proof.
    unfold pts_of, nparts. induction quals as [|q l IH]; [reflexivity|].
    cbn [flat_map map]. rewrite app_length, linspace_length, IH, list_sum_cons. reflexivity.
  Qed.

  Lemma imps_of_length quals : length (imps_of quals) = nparts quals.
  Proof.
    unfold imps_of, nparts. induction quals as [|q l IH]; [reflexivity|].
    cbn [flat_map map]. rewrite app_length, repeat_length, IH, list_sum_cons. reflexivity.
  Qed.

  (* ================= C02_count ================= *)
  Theorem ask_count s n : wf s ->
    length (fst (ask_points s n)) = n /\ length (snd (ask_points s n)) = n.
  Proof.
    intros W. destruct (le_lt_dec n (length (missing_bounds s))) as [H|H].
    - rewrite (ask_points_bounds s n H). cbn [fst snd]. rewrite firstn_length, repeat_length. lia.
    - destruct (Nat.eq_dec (length (data s) + length (pend s)) 0) as [E|E].
      + rewrite (ask_points_empty s n H E). cbn [fst snd]. rewrite np_linspace_length, repeat_length. auto.
      + rewrite (ask_points_general s n H E). cbn [fst snd].
        rewrite !app_length, pts_of_length, imps_of_length, repeat_length.
        destruct (loop_struct s (n - length (missing_bounds s)) W (nbc_nonempty s W E)) as (H1 & _).
        unfold quals_of. rewrite H1. lia.
  Qed.

  (* ================= C02_bounds_first ================= *)
  Theorem ask_bounds_first s n : wf s ->
    let mb := missing_bounds s in
    mb = filter (missing s) [lo P; hi P] /\
    ((n <= length mb /\ ask_points s n = (firstn n mb, repeat inf n)) \/
     (length mb < n /\ data s = [] /\ pend s = [] /\
      ask_points s n = (np_linspace (lo P) (hi P) n, repeat inf n)) \/
     (length mb < n /\ exists pts imps,
        ask_points s n = (mb ++ pts, repeat inf (length mb) ++ imps) /\
        length pts = n - length mb /\ length imps = n - length mb)).
  Proof.
    intros W mb. split; [apply (mb_eq s W)|]. subst mb.
    destruct (le_lt_dec n (length (missing_bounds s))) as [H|H].
    - left. split; [exact H | apply ask_points_bounds; exact H].
    - right. destruct (Nat.eq_dec (length (data s) + length (pend s)) 0) as [E|E].
      + left. split; [exact H|]. destruct (data s) eqn:Ed; [|cbn in E; lia]. destruct (pend s) eqn:Ep; [|cbn in E; lia].
        repeat split. apply ask_points_empty; [exact H|]. rewrite Ed, Ep. reflexivity.
      + right. split; [exact H|]. exists (pts_of (quals_of s n)), (imps_of (quals_of s n)).
        split; [apply ask_points_general; assumption|].
        rewrite pts_of_length, imps_of_length.
        destruct (loop_struct s (n - length (missing_bounds s)) W (nbc_nonempty s W E)) as (H1 & _).
        unfold quals_of. rewrite H1. auto.
  Qed.

  (* ================= C02_empty_uniform ================= *)
  Lemma empty_missing s : wf s -> data s = [] -> pend s = [] -> missing_bounds s = [lo P; hi P].
  Proof.
    intros W Hd Hp. rewrite (mb_eq s W). cbn [filter].
    assert (H : forall b, missing s b = true).
    { intros b. apply missing_iff. unfold keys. rewrite Hd, Hp. split; intros []. }
    rewrite !H. reflexivity.
  Qed.

  Lemma np_linspace_last a b m d : 1 <= m -> nth m (np_linspace a b (S m)) d = b.
  Proof.
    intros H. unfold L1D.np_linspace. destruct m as [|m]; [lia|].
    set (f := fun i : nat => _).
    assert (E : nth (S m) (map f (seq 0 (S (S m)))) d = f (S m)).
    { rewrite (nth_indep _ d (f 0)) by (rewrite map_length, seq_length; lia).
      rewrite (map_nth f). rewrite seq_nth by lia. reflexivity. }
    rewrite E. subst f. cbv beta. rewrite Nat.eqb_refl. reflexivity.
  Qed.

  Theorem ask_empty_uniform s n : wf s -> data s = [] -> pend s = [] -> 2 < n ->
    ask_points s n = (np_linspace (lo P) (hi P) n, repeat inf n) /\
    length (np_linspace (lo P) (hi P) n) = n /\
    nth (n - 1) (np_linspace (lo P) (hi P) n) zero = hi P.
  Proof.
    intros W Hd Hp Hn. split; [|split].
    - apply ask_points_empty; [rewrite (empty_missing s W Hd Hp); cbn; lia | rewrite Hd, Hp; reflexivity].
    - apply np_linspace_length.
    - destruct n as [|n]; [lia|]. replace (S n - 1) with n by lia. apply np_linspace_last. lia.
  Qed.

  (* ================= C02_equal_subdivision ================= *)
  Theorem ask_equal_subdivision s n : wf s ->
    length (missing_bounds s) < n -> length (data s) + length (pend s) <> 0 ->
    exists quals : list qual,
      ask_points s n =
        (missing_bounds s ++ flat_map (fun q : qual => linspace (fst (q_iv q)) (snd (q_iv q)) (q_n q)) quals,
         repeat inf (length (missing_bounds s)) ++ flat_map (fun q : qual => repeat (q_loss q) (q_n q - 1)) quals) /\
      NoDup (map (@q_iv num) quals) /\
      list_sum (map (fun q : qual => q_n q - 1) quals) = n - length (missing_bounds s) /\
      forall q, In q quals ->
        1 <= q_n q /\ In (q_iv q) (ivals s) /\ q_loss q = sub_loss s (q_iv q) (q_n q).
  Proof.
    intros W H E. exists (quals_of s n). split; [apply ask_points_general; assumption|].
    destruct (loop_struct s (n - length (missing_bounds s)) W (nbc_nonempty s W E)) as (H1 & H2 & H3).
    split; [exact H2|]. split; [exact H1|]. exact H3.
  Qed.

  (* ================= C02_optimal ================= *)
  Lemma total_perm (a : ival -> nat) l l' : Permutation l l' -> total ival a l = total ival a l'.
  Proof. induction 1; cbn [total]; lia. Qed.

  (* subdividing an interval further never increases the code's key *)
  Definition key_antitone (s : st) : Prop :=
    forall iv n, In iv (ivals s) -> 1 <= n -> le (key_of s iv (S n)) (key_of s iv n).

  Theorem ask_optimal s n : wf s -> key_antitone s ->
    length (missing_bounds s) < n -> length (data s) + length (pend s) <> 0 ->
    let k := n - length (missing_bounds s) in
    exists a : ival -> nat,
      (forall q, In q (quals_of s n) -> a (q_iv q) = q_n q) /\
      (forall i, In i (ivals s) -> ~ In i (map (@q_iv num) (quals_of s n)) -> a i = 1) /\
      total ival a (ivals s) = length (ivals s) + k /\
      forall b : ival -> nat,
        (forall i, In i (ivals s) -> 1 <= b i) -> total ival b (ivals s) = length (ivals s) + k ->
        forall i, In i (ivals s) -> exists j, In j (ivals s) /\ le (key_of s i (a i)) (key_of s j (b j)).
  Proof.
    intros W HA H E k. pose proof (nbc_nonempty s W E) as Hne.
    pose proof (lidx_perm s W Hne) as Hp.
    assert (HA' : forall iv m, In iv (lidx (rest0_of s) (quals0_of s)) -> 1 <= m ->
                               le (key_of s iv (S m)) (key_of s iv m)).
    { intros iv m Hi Hm. apply HA; [|exact Hm]. eapply Permutation_in; [exact Hp | exact Hi]. }
    destruct (ask_loop_optimal (sx s) (key_of s) (sub_loss s) (rest0_of s) (quals0_of s)
                (lidx_nodup s W Hne) (hyp_q s W Hne) (hyp_c s W) (sub_loss_S s) (key_of_ge2 s)
                (quals_sorted_by (sx s) (q0_of s)) (hyp_se s W) HA' k (loop_nonempty s W)) as (a & H1 & H2 & H3 & H4).
    exists a. split; [exact H1|]. split; [|split].
    - intros i Hi Hn. apply H2; [|exact Hn]. eapply Permutation_in; [symmetry; exact Hp | exact Hi].
    - rewrite <- (total_perm a _ _ Hp), <- (Permutation_length Hp). exact H3.
    - intros b Hb Hbt i Hi.
      destruct (H4 b) with (i := i) as (j & Hj & Hle).
      + intros i' Hi'. apply Hb. eapply Permutation_in; [exact Hp | exact Hi'].
      + rewrite (total_perm b _ _ Hp), (Permutation_length Hp). exact Hbt.
      + eapply Permutation_in; [symmetry; exact Hp | exact Hi].
      + exists j. split; [eapply Permutation_in; [exact Hp | exact Hj] | exact Hle].
  Qed.

  (* ================= C02_fresh_distinct_in_domain ================= *)
  (* Laws of exact arithmetic used here: the points a + (b-a)/k*i, 0<i<k, of a
     finite interval a<b lie strictly inside it and increase with i; the same for
     numpy's i*step + a.  They fail for floats once b-a is of the order of one
     ulp -- the property text excludes that ("as long as intervals stay wider
     than floating-point resolution"). *)
  Definition finite (x : num) : Prop := is_inf x = false /\ is_nan x = false.
  Definition lin_pt (a b : num) (k i : nat) : num := add a (mul (div (sub b a) (of_nat k)) (of_nat i)).
  Definition np_pt (a b : num) (m i : nat) : num := add (mul (of_nat i) (div (sub b a) (of_nat m))) a.

  Record LinLaws : Prop := {
    fin_between : forall a b x, finite a -> finite b -> le a x -> le x b -> finite x;
    lin_lt_l : forall a b k i, finite a -> finite b -> lt a b -> 1 <= i -> i < k -> lt a (lin_pt a b k i);
    lin_lt_r : forall a b k i, finite a -> finite b -> lt a b -> 1 <= i -> i < k -> lt (lin_pt a b k i) b;
    lin_mono : forall a b k i j, finite a -> finite b -> lt a b -> 1 <= i -> i < j -> j < k ->
               lt (lin_pt a b k i) (lin_pt a b k j);
    npl_step : forall a b m, finite a -> finite b -> lt a b -> 1 <= m ->
               eqb (div (sub b a) (of_nat m)) zero = false;
    npl_first : forall a b m, finite a -> finite b -> np_pt a b m 0 = a;
    npl_mono : forall a b m i j, finite a -> finite b -> lt a b -> i < j -> j < m ->
               lt (np_pt a b m i) (np_pt a b m j);
    npl_lt_r : forall a b m i, finite a -> finite b -> lt a b -> i < m -> lt (np_pt a b m i) b
  }.

  Lemma le_antisym a b : le a b -> le b a -> a = b.
  Proof. unfold le. intros H1 H2. apply (ltb_total OL); assumption. Qed.

  Lemma lt_irrefl a : ~ lt a a.
  Proof. unfold lt. rewrite (ltb_irrefl OL). discriminate. Qed.

  Lemma lt_not_le a b : lt a b -> le b a -> False.
  Proof. unfold lt, le. congruence. Qed.

  Lemma map_seq_sorted (f : nat -> num) n : forall s0,
    (forall i j, s0 <= i -> i < j -> j < s0 + n -> lt (f i) (f j)) ->
    StronglySorted lt (map f (seq s0 n)).
  Proof.
    induction n as [|n IH]; intros s0 H; cbn [seq map]; [constructor|].
    constructor.
    - apply IH. intros i j Hi Hij Hj. apply H; lia.
    - apply Forall_forall. intros z Hz. apply in_map_iff in Hz. destruct Hz as (j & <- & Hj).
      apply in_seq in Hj. apply H; lia.
  Qed.

  Lemma sorted_nodup (l : list num) : StronglySorted lt l -> NoDup l.
  Proof.
    induction 1 as [|x l Hs IH Hall]; constructor; [|exact IH].
    intros C. rewrite Forall_forall in Hall. exact (lt_irrefl x (Hall x C)).
  Qed.

  Lemma inside_unique (l : list num) a b c d x :
    StronglySorted lt l -> In (a, b) (pairs l) -> In (c, d) (pairs l) ->
    lt a x -> lt x b -> lt c x -> lt x d -> (a, b) = (c, d).
  Proof.
    intros Hs H1 H2 Hax Hxb Hcx Hxd.
    destruct (pairs_in l a b H1) as [Ia Ib]. destruct (pairs_in l c d H2) as [Ic Id].
    assert (E1 : a = c).
    { apply le_antisym.
      - destruct (pairs_gap l c d a Hs H2 Ia) as [H|H]; [exact H|].
        exfalso. apply (lt_irrefl x). eapply lt_trans; [exact Hxd|]. eapply le_lt_trans; eassumption.
      - destruct (pairs_gap l a b c Hs H1 Ic) as [H|H]; [exact H|].
        exfalso. apply (lt_irrefl x). eapply lt_trans; [exact Hxb|]. eapply le_lt_trans; eassumption. }
    assert (E2 : b = d).
    { apply le_antisym.
      - destruct (pairs_gap l a b d Hs H1 Id) as [H|H]; [|exact H].
        exfalso. apply (lt_irrefl x). eapply lt_trans; [exact Hxd|]. eapply le_lt_trans; eassumption.
      - destruct (pairs_gap l c d b Hs H2 Ib) as [H|H]; [|exact H].
        exfalso. apply (lt_irrefl x). eapply lt_trans; [exact Hxb|]. eapply le_lt_trans; eassumption. }
    subst. reflexivity.
  Qed.

  Lemma firstn_incl {A} n (l : list A) x : In x (firstn n l) -> In x l.
  Proof. intros H. rewrite <- (firstn_skipn n l). apply in_or_app; left; exact H. Qed.

  Lemma firstn_nodup {A} n (l : list A) : NoDup l -> NoDup (firstn n l).
  Proof. intros H. rewrite <- (firstn_skipn n l) in H. apply NoDup_app_l in H. exact H. Qed.

  Lemma NoDup_app_intro {A} (l1 l2 : list A) :
    NoDup l1 -> NoDup l2 -> (forall x, In x l1 -> In x l2 -> False) -> NoDup (l1 ++ l2).
  Proof.
    induction 1 as [|x l1 Hx Hnd IH]; intros H2 Hd; cbn [app]; [exact H2|].
    constructor.
    - intros C. apply in_app_or in C. destruct C as [C|C]; [contradiction|]. apply (Hd x); [left; reflexivity | exact C].
    - apply IH; [exact H2|]. intros y Hy1 Hy2. apply (Hd y); [right|]; assumption.
  Qed.

  Section Fresh.
    Hypothesis LL : LinLaws.
    Variable s : st.
    Hypothesis W : wf s.
    Hypothesis Flo : finite (lo P).
    Hypothesis Fhi : finite (hi P).

    Lemma ext_inb x : In x (ext s) -> le (lo P) x /\ le x (hi P).
    Proof.
      unfold ext. intros H. apply in_app_or in H. destruct H as [H|H].
      - destruct (missing s (lo P)); [|destruct H]. destruct H as [<-|[]].
        split; [apply le_refl | apply lt_le, (wf_lohi s W)].
      - apply in_app_or in H. destruct H as [H|H]; [apply (wf_inb s W x H)|].
        destruct (missing s (hi P)); [|destruct H]. destruct H as [<-|[]].
        split; [apply lt_le, (wf_lohi s W) | apply le_refl].
    Qed.

    Lemma ext_fin x : In x (ext s) -> finite x.
    Proof. intros H. destruct (ext_inb x H). apply (fin_between LL (lo P) (hi P)); assumption. Qed.

    Lemma nbc_in_ext x : In x (nbc s) -> In x (ext s).
    Proof. intros H. unfold ext. apply in_or_app; right. apply in_or_app; left; exact H. Qed.

    Lemma mb_in_ext x : In x (missing_bounds s) -> In x (ext s).
    Proof.
      rewrite (mb_eq s W). cbn [filter]. unfold ext. intros H.
      destruct (missing s (lo P)) eqn:E1.
      - destruct H as [<-|H]; [apply in_or_app; left; left; reflexivity|].
        destruct (missing s (hi P)) eqn:E2; [|destruct H]. destruct H as [<-|[]].
        apply in_or_app; right; apply in_or_app; right; left; reflexivity.
      - destruct (missing s (hi P)) eqn:E2; [|destruct H]. destruct H as [<-|[]].
        apply in_or_app; right; apply in_or_app; right; left; reflexivity.
    Qed.

    Lemma mb_nodup : NoDup (missing_bounds s).
    Proof.
      rewrite (mb_eq s W). apply NoDup_filter. constructor; [|repeat constructor; intros []].
      intros [C|[]]. pose proof (lo_ne_hi s W) as H. rewrite C, eqb_refl in H. discriminate.
    Qed.

    Lemma mb_missing x : In x (missing_bounds s) -> missing s x = true.
    Proof. rewrite (mb_eq s W). intros H. apply filter_In in H. apply H. Qed.

    (* a point strictly inside an interval of [ivals s] *)
    Definition inside (iv : ival) (x : num) : Prop := lt (fst iv) x /\ lt x (snd iv).

    Lemma inside_fresh iv x : In iv (ivals s) -> inside iv x ->
      ~ In x (ext s) /\ le (lo P) x /\ le x (hi P).
    Proof.
      destruct iv as [a b]. intros Hiv [Hax Hxb]. cbn [fst snd] in *.
      pose proof (ext_sorted s W) as Hs. destruct (pairs_in _ a b Hiv) as [Ia Ib].
      split; [|split].
      - intros C. destruct (pairs_gap _ a b x Hs Hiv C) as [H|H]; [exact (lt_not_le a x Hax H) | exact (lt_not_le x b Hxb H)].
      - apply lt_le. eapply le_lt_trans; [apply (ext_inb a Ia) | exact Hax].
      - apply lt_le. eapply lt_le_trans; [exact Hxb | apply (ext_inb b Ib)].
    Qed.

    Lemma linspace_in a b k x : In x (linspace a b k) -> exists i, 1 <= i /\ i < k /\ x = lin_pt a b k i.
    Proof.
      unfold L1D.linspace. destruct k as [|[|k]]; [intros [] | intros [] |].
      intros H. apply in_map_iff in H. destruct H as (i & <- & Hi). apply in_seq in Hi.
      exists i. repeat split; try lia.
    Qed.

    Lemma linspace_sorted a b k : finite a -> finite b -> lt a b -> StronglySorted lt (linspace a b k).
    Proof.
      intros Fa Fb Hab. unfold L1D.linspace. destruct k as [|[|k]]; [constructor | constructor |].
      apply (map_seq_sorted (fun i => add a (mul (div (sub b a) (of_nat (S (S k)))) (of_nat i)))).
      intros i j Hi Hij Hj. apply (lin_mono LL a b (S (S k)) i j); auto; lia.
    Qed.

    Lemma linspace_inside a b k x : finite a -> finite b -> lt a b -> In x (linspace a b k) -> inside (a, b) x.
    Proof.
      intros Fa Fb Hab H. apply linspace_in in H. destruct H as (i & H1 & H2 & ->).
      split; cbn [fst snd]; [apply (lin_lt_l LL) | apply (lin_lt_r LL)]; auto.
    Qed.

    Lemma pts_of_spec (quals : list qual) :
      (forall q, In q quals -> In (q_iv q) (ivals s)) -> NoDup (map (@q_iv num) quals) ->
      NoDup (pts_of quals) /\
      forall x, In x (pts_of quals) -> exists q, In q quals /\ inside (q_iv q) x.
    Proof.
      induction quals as [|q l IH]; intros Hiv Hnd; [split; [constructor | intros x []]|].
      cbn [map] in Hnd. inversion Hnd as [|? ? Hq Hnd']; subst.
      destruct IH as [IH1 IH2]; [intros q' Hq'; apply Hiv; right; exact Hq' | exact Hnd' |].
      assert (Hq_iv : In (q_iv q) (ivals s)) by (apply Hiv; left; reflexivity).
      destruct (q_iv q) as [a b] eqn:Eq. destruct (pairs_in _ a b Hq_iv) as [Ia Ib].
      pose proof (pairs_lt _ a b (ext_sorted s W) Hq_iv) as Hab.
      pose proof (ext_fin a Ia) as Fa. pose proof (ext_fin b Ib) as Fb.
      unfold pts_of in *. cbn [flat_map]. rewrite Eq. cbn [fst snd].
      split.
      - apply NoDup_app_intro; [apply sorted_nodup, linspace_sorted; assumption | exact IH1 |].
        intros x Hx1 Hx2. apply (linspace_inside a b _ x Fa Fb Hab) in Hx1.
        destruct (IH2 x Hx2) as (q' & Hq' & Hin'). destruct (q_iv q') as [c d] eqn:Eq'.
        assert (Hq'_iv : In (c, d) (ivals s)) by (rewrite <- Eq'; apply Hiv; right; exact Hq').
        destruct Hx1 as [H1 H2], Hin' as [H3 H4]. cbn [fst snd] in *.
        pose proof (inside_unique _ a b c d x (ext_sorted s W) Hq_iv Hq'_iv H1 H2 H3 H4) as E.
        apply Hq. rewrite E, <- Eq'. apply in_map; exact Hq'.
      - intros x Hx. apply in_app_or in Hx. destruct Hx as [Hx|Hx].
        + exists q. split; [left; reflexivity|]. rewrite Eq. apply (linspace_inside a b _ x Fa Fb Hab Hx).
        + destruct (IH2 x Hx) as (q' & Hq' & Hin'). exists q'. split; [right; exact Hq' | exact Hin'].
    Qed.

    Lemma np_linspace_spec n : 2 < n ->
      NoDup (np_linspace (lo P) (hi P) n) /\
      (forall x, In x (np_linspace (lo P) (hi P) n) -> le (lo P) x /\ le x (hi P)) /\
      nth 0 (np_linspace (lo P) (hi P) n) zero = lo P.
    Proof.
      intros Hn. pose proof (wf_lohi s W) as Hlh.
      destruct n as [|[|m]]; try lia. unfold L1D.np_linspace.
      rewrite (npl_step LL (lo P) (hi P) (S m) Flo Fhi Hlh) by lia.
      set (f := fun i : nat => if i =? S m then hi P else add (mul (of_nat i) (div (sub (hi P) (lo P)) (of_nat (S m)))) (lo P)).
      assert (Hf : forall i, i < S m -> f i = np_pt (lo P) (hi P) (S m) i).
      { intros i Hi. unfold f. destruct (Nat.eqb_spec i (S m)); [lia | reflexivity]. }
      assert (Hfm : f (S m) = hi P) by (unfold f; rewrite Nat.eqb_refl; reflexivity).
      assert (Hmono : forall i j, 0 <= i -> i < j -> j < 0 + S (S m) -> lt (f i) (f j)).
      { intros i j _ Hij Hj. destruct (Nat.eq_dec j (S m)) as [->|Hne].
        - rewrite Hfm, Hf by lia. apply (npl_lt_r LL); auto.
        - rewrite !Hf by lia. apply (npl_mono LL); auto; lia. }
      split; [apply sorted_nodup, map_seq_sorted, Hmono|]. split.
      - intros x Hx. apply in_map_iff in Hx. destruct Hx as (i & <- & Hi). apply in_seq in Hi.
        assert (H0 : f 0 = lo P) by (rewrite Hf by lia; apply (npl_first LL); auto).
        split.
        + destruct (Nat.eq_dec i 0) as [->|Hne]; [rewrite H0; apply le_refl|].
          rewrite <- H0. apply lt_le, Hmono; lia.
        + destruct (Nat.eq_dec i (S m)) as [->|Hne]; [rewrite Hfm; apply le_refl|].
          rewrite <- Hfm. apply lt_le, Hmono; lia.
      - cbn [seq map nth]. rewrite Hf by lia. apply (npl_first LL); auto.
    Qed.

    Theorem ask_fresh_distinct n :
      let pts := fst (ask_points s n) in
      NoDup pts /\
      forall x, In x pts -> le (lo P) x /\ le x (hi P) /\ ~ In x (keys s) /\ ~ In x (pend s).
    Proof.
      intros pts. subst pts.
      assert (Hfresh : forall x, ~ In x (nbc s) -> ~ In x (keys s) /\ ~ In x (pend s)).
      { intros x Hx. split; intros C; apply Hx, (wf_mem s W); [left|right]; exact C. }
      destruct (le_lt_dec n (length (missing_bounds s))) as [H|H].
      - rewrite (ask_points_bounds s n H). cbn [fst]. split; [apply firstn_nodup, mb_nodup|].
        intros x Hx. apply firstn_incl in Hx. destruct (ext_inb x (mb_in_ext x Hx)) as [H1 H2].
        split; [exact H1|]. split; [exact H2|]. apply missing_iff, mb_missing, Hx.
      - destruct (Nat.eq_dec (length (data s) + length (pend s)) 0) as [E|E].
        + rewrite (ask_points_empty s n H E). cbn [fst].
          assert (Hd : data s = []) by (destruct (data s); [reflexivity | cbn in E; lia]).
          assert (Hp : pend s = []) by (destruct (pend s); [reflexivity | cbn in E; lia]).
          assert (Hn : 2 < n) by (rewrite (empty_missing s W Hd Hp) in H; cbn in H; lia).
          destruct (np_linspace_spec n Hn) as (H1 & H2 & _). split; [exact H1|].
          intros x Hx. destruct (H2 x Hx) as [Ha Hb]. split; [exact Ha|]. split; [exact Hb|].
          unfold keys. rewrite Hd, Hp. split; intros [].
        + rewrite (ask_points_general s n H E). cbn [fst].
          destruct (loop_struct s (n - length (missing_bounds s)) W (nbc_nonempty s W E)) as (_ & Hnd & Hq).
          fold (quals_of s n) in Hnd, Hq.
          destruct (pts_of_spec (quals_of s n)) as [P1 P2]; [intros q Hq'; apply (Hq q Hq') | exact Hnd |].
          split.
          * apply NoDup_app_intro; [apply mb_nodup | exact P1 |].
            intros x Hx1 Hx2. destruct (P2 x Hx2) as (q & Hq' & Hin).
            destruct (Hq q Hq') as (_ & Hiv & _).
            destruct (inside_fresh (q_iv q) x Hiv Hin) as [Hn _]. apply Hn, mb_in_ext, Hx1.
          * intros x Hx. apply in_app_or in Hx. destruct Hx as [Hx|Hx].
            -- destruct (ext_inb x (mb_in_ext x Hx)) as [H1 H2].
               split; [exact H1|]. split; [exact H2|]. apply missing_iff, mb_missing, Hx.
            -- destruct (P2 x Hx) as (q & Hq' & Hin). destruct (Hq q Hq') as (_ & Hiv & _).
               destruct (inside_fresh (q_iv q) x Hiv Hin) as (Hn & H1 & H2).
               split; [exact H1|]. split; [exact H2|]. apply Hfresh. intros C. apply Hn, nbc_in_ext, C.
    Qed.
  End Fresh.

  (* ================= committing ask: pending = before + returned points ================= *)
  Notation tell_pending := (@tell_pending num sub mul div ltb eqb zero one inf L P).
  Notation update_losses := (@update_losses num sub mul div ltb eqb zero one inf L P).
  Notation ask := (@ask num add sub mul div ltb eqb zero one inf is_nan is_inf round12 of_nat L P).
  Notation insert := (@insert num ltb eqb).

  Lemma update_losses_false_frame s x :
    pend (update_losses s x false) = pend s /\ data (update_losses s x false) = data s.
  Proof.
    unfold L1D.update_losses.
    destruct (find_neighbors ltb x (nb s)) as [xl xr]. destruct (find_neighbors ltb x (nbc s)) as [a b].
    destruct xl, xr; cbn [negb andb]; try destruct (lget _ _); split; reflexivity.
  Qed.

  Lemma insert_in x l y : In y (insert x l) <-> y = x \/ In y l.
  Proof.
    induction l as [|z l IH]; cbn [L1D.insert In]; [intuition|].
    destruct (ltb x z); [cbn [In]; intuition|].
    destruct (eqb x z) eqn:E.
    - apply (eqb_eq OL) in E. subst. cbn [In]. intuition.
    - cbn [In]. rewrite IH. intuition.
  Qed.

  Lemma tell_pending_frame s x :
    data (tell_pending s x) = data s /\
    forall y, In y (pend (tell_pending s x)) <-> In y (pend s) \/ (y = x /\ ~ In x (keys s)).
  Proof.
    unfold L1D.tell_pending. destruct (dget x (data s)) as [yv|] eqn:E.
    - split; [reflexivity|]. intros y. split; [auto|]. intros [H|[_ H]]; [exact H|].
      apply dget_none_iff in H. congruence.
    - match goal with |- context [update_losses ?s1 x false] => destruct (update_losses_false_frame s1 x) as [Hp Hd] end.
      rewrite Hp, Hd. cbn [pend data]. split; [reflexivity|]. intros y. rewrite insert_in.
      apply dget_none_iff in E. unfold keys. tauto.
  Qed.

  Lemma fold_tell_pending_frame pts : forall s,
    data (fold_left tell_pending pts s) = data s /\
    forall y, In y (pend (fold_left tell_pending pts s)) <-> In y (pend s) \/ (In y pts /\ ~ In y (keys s)).
  Proof.
    induction pts as [|x pts IH]; intros s; cbn [fold_left].
    - split; [reflexivity|]. intros y. cbn [In]. tauto.
    - destruct (IH (tell_pending s x)) as [Hd Hp]. destruct (tell_pending_frame s x) as [Hd1 Hp1].
      split; [rewrite Hd; exact Hd1|]. intros y. rewrite Hp, Hp1. unfold keys in *. rewrite Hd1. cbn [In].
      intuition (subst; auto).
  Qed.

  Theorem ask_commit s n :
    snd (ask s n true) = ask_points s n /\ snd (ask s n false) = ask_points s n /\
    fst (ask s n false) = s /\
    data (fst (ask s n true)) = data s /\
    forall y, In y (pend (fst (ask s n true))) <->
              In y (pend s) \/ (In y (fst (ask_points s n)) /\ ~ In y (keys s)).
  Proof.
    unfold L1D.ask. cbn [fst snd]. repeat split; try reflexivity;
      destruct (fold_tell_pending_frame (fst (ask_points s n)) s) as [Hd Hp]; [exact Hd | apply Hp | apply Hp].
  Qed.

  (* ================= wf from the structural invariant of reachable states ================= *)
  (* [wf_allp] (the sorted merge of evaluated and pending points IS nbc) follows
     from sortedness and membership, so [wf] is implied by: lo<hi; keys of data,
     pend and nbc strictly sorted; nbc = data keys + pend as sets; all points
     inside the bounds; keys of losc = pairs nbc; mgrx = sx. *)
  Lemma merge_spec : forall fuel a b,
    length a + length b <= fuel -> StronglySorted lt a -> StronglySorted lt b ->
    StronglySorted lt (merge_sorted fuel a b) /\
    forall x, In x (merge_sorted fuel a b) <-> In x a \/ In x b.
  Proof.
    induction fuel as [|f IH]; intros a b Hlen Sa Sb.
    - destruct a, b; cbn in Hlen; try lia. cbn. split; [constructor | intros x; tauto].
    - cbn [L1D.merge_sorted]. destruct a as [|x a']; [split; [exact Sb | intros z; cbn [In]; tauto]|].
      destruct b as [|y b']; [split; [exact Sa | intros z; cbn [In]; tauto]|].
      inversion Sa as [|? ? Sa' Fa]; subst. inversion Sb as [|? ? Sb' Fb]; subst.
      rewrite Forall_forall in Fa, Fb. cbn [length] in Hlen.
      destruct (ltb x y) eqn:Exy.
      + destruct (IH a' (y :: b')) as [S1 M1]; [cbn [length]; lia | exact Sa' | exact Sb |].
        split.
        * constructor; [exact S1|]. apply Forall_forall. intros z Hz. apply M1 in Hz.
          destruct Hz as [Hz|[<-|Hz]]; [apply Fa; exact Hz | exact Exy | eapply lt_trans; [exact Exy | apply Fb; exact Hz]].
        * intros z. cbn [In]. rewrite M1. cbn [In]. tauto.
      + destruct (eqb x y) eqn:Eq.
        * apply (eqb_eq OL) in Eq. subst y.
          destruct (IH a' b') as [S1 M1]; [lia | exact Sa' | exact Sb' |].
          split.
          -- constructor; [exact S1|]. apply Forall_forall. intros z Hz. apply M1 in Hz.
             destruct Hz as [Hz|Hz]; [apply Fa | apply Fb]; exact Hz.
          -- intros z. cbn [In]. rewrite M1. tauto.
        * assert (Hyx : lt y x).
          { unfold lt. destruct (ltb y x) eqn:Eyx; [reflexivity|].
            pose proof (ltb_total OL _ _ Exy Eyx) as C. subst. rewrite eqb_refl in Eq. discriminate. }
          destruct (IH (x :: a') b') as [S1 M1]; [cbn [length]; lia | exact Sa | exact Sb' |].
          split.
          -- constructor; [exact S1|]. apply Forall_forall. intros z Hz. apply M1 in Hz.
             destruct Hz as [[<-|Hz]|Hz]; [exact Hyx | eapply lt_trans; [exact Hyx | apply Fa; exact Hz] | apply Fb; exact Hz].
          -- intros z. cbn [In]. rewrite M1. cbn [In]. tauto.
  Qed.

  Lemma sorted_ext_eq (l1 : list num) : forall l2,
    StronglySorted lt l1 -> StronglySorted lt l2 -> (forall x, In x l1 <-> In x l2) -> l1 = l2.
  Proof.
    induction l1 as [|x1 l1 IH]; intros l2 S1 S2 Hm.
    - destruct l2 as [|x2 l2]; [reflexivity|]. exfalso. apply (Hm x2). left; reflexivity.
    - destruct l2 as [|x2 l2]; [exfalso; apply (Hm x1); left; reflexivity|].
      inversion S1 as [|? ? S1' F1]; subst. inversion S2 as [|? ? S2' F2]; subst.
      rewrite Forall_forall in F1, F2.
      assert (E : x1 = x2).
      { destruct (proj1 (Hm x1) (or_introl eq_refl)) as [E|H1]; [symmetry; exact E|].
        destruct (proj2 (Hm x2) (or_introl eq_refl)) as [E|H2]; [exact E|].
        exfalso. apply (lt_irrefl x1). eapply lt_trans; [apply F1; exact H2 | apply F2; exact H1]. }
      subst x2. f_equal. apply IH; [exact S1' | exact S2' |].
      intros z. split; intros Hz.
      + destruct (proj1 (Hm z) (or_intror Hz)) as [E|H]; [|exact H].
        subst z. exfalso. exact (lt_irrefl x1 (F1 x1 Hz)).
      + destruct (proj2 (Hm z) (or_intror Hz)) as [E|H]; [|exact H].
        subst z. exfalso. exact (lt_irrefl x1 (F2 x1 Hz)).
  Qed.

  Theorem wf_from_structure s :
    lt (lo P) (hi P) ->
    StronglySorted lt (keys s) -> StronglySorted lt (pend s) -> StronglySorted lt (nbc s) ->
    (forall x, In x (nbc s) <-> In x (keys s) \/ In x (pend s)) ->
    (forall x, In x (nbc s) -> le (lo P) x /\ le x (hi P)) ->
    map fst (losc s) = pairs (nbc s) ->
    mgrx s = sx s ->
    wf s.
  Proof.
    intros H1 Sk Sp Sn Hm Hb Hk Hx. constructor; try assumption.
    unfold allp. destruct (merge_spec (length (data s) + length (pend s)) (keys s) (pend s)) as [S M];
      [unfold keys; rewrite map_length; lia | exact Sk | exact Sp |].
    apply sorted_ext_eq; [exact S | exact Sn |]. intros x. rewrite M, Hm. tauto.
  Qed.
  End WithOrder.
End Ask.

(* ================================================================== *)
(* Part 3: an exact instance -- canonical rationals extended by +-inf   *)
(* ================================================================== *)
From Coq Require Import ZArith QArith Qcanon Qround.
Close Scope Q_scope.

Inductive xq : Type := Fin (q : Qc) | PInf | NInf.

Definition xadd (x y : xq) : xq :=
  match x, y with
  | Fin a, Fin b => Fin (a + b)%Qc
  | PInf, _ | Fin _, PInf => PInf
  | NInf, _ | Fin _, NInf => NInf
  end.
Definition xsub (x y : xq) : xq :=
  match x, y with
  | Fin a, Fin b => Fin (a - b)%Qc
  | PInf, _ | Fin _, NInf => PInf
  | NInf, _ | Fin _, PInf => NInf
  end.
(* on infinite operands only the cases used by the model matter (inf * n, inf / n
   for positive n); signs are not tracked there *)
Definition xmul (x y : xq) : xq :=
  match x, y with
  | Fin a, Fin b => Fin (a * b)%Qc
  | PInf, _ | Fin _, PInf => PInf
  | NInf, _ | Fin _, NInf => NInf
  end.
Definition xdiv (x y : xq) : xq :=
  match x, y with
  | Fin a, Fin b => Fin (a / b)%Qc
  | PInf, _ => PInf
  | NInf, _ => NInf
  | Fin _, _ => Fin 0%Qc
  end.
Definition xltb (x y : xq) : bool :=
  match x, y with
  | Fin a, Fin b => if Qclt_le_dec a b then true else false
  | NInf, Fin _ | NInf, PInf | Fin _, PInf => true
  | _, _ => false
  end.
Definition xeqb (x y : xq) : bool :=
  match x, y with
  | Fin a, Fin b => if Qc_eq_dec a b then true else false
  | PInf, PInf | NInf, NInf => true
  | _, _ => false
  end.
Definition xis_inf (x : xq) : bool := match x with Fin _ => false | _ => true end.
Definition xis_nan (x : xq) : bool := false.
Definition qn (n : nat) : Qc := Q2Qc (inject_Z (Z.of_nat n)).
Definition xof_nat (n : nat) : xq := Fin (qn n).
(* int(l * 1e12 + 0.5) / 1e12 on exact rationals *)
Definition round12q (q : Qc) : Qc :=
  Q2Qc (inject_Z (Qfloor (q * (1000000000000 # 1) + (1 # 2))%Q) * (1 # 1000000000000))%Q.
Definition xround12 (x : xq) : xq := match x with Fin q => Fin (round12q q) | _ => x end.

Lemma xOrderLaws : OrderLaws xq xltb xeqb.
Proof.
  constructor.
  - intros [a| |] [b| |]; cbn; try (split; congruence).
    destruct (Qc_eq_dec a b); split; congruence.
  - intros [a| |]; cbn; try reflexivity.
    destruct (Qclt_le_dec a a) as [H|H]; [|reflexivity]. exfalso. exact (Qclt_not_eq _ _ H eq_refl).
  - intros [a| |] [b| |] [c| |]; cbn; try congruence.
    destruct (Qclt_le_dec a b), (Qclt_le_dec b c), (Qclt_le_dec a c); try congruence.
    exfalso. apply (Qcle_not_lt _ _ q1). eapply Qclt_trans; eassumption.
  - intros [a| |] [b| |]; cbn; try congruence.
    destruct (Qclt_le_dec a b), (Qclt_le_dec b a); try congruence.
    intros _ _. f_equal. apply Qcle_antisym; assumption.
Qed.

(* ---------------- arithmetic on Qc ---------------- *)
Local Open Scope Qc_scope.

Lemma Q2Qc_lt x y : (x < y)%Q -> Q2Qc x < Q2Qc y.
Proof. intros H. unfold Qclt, Q2Qc; cbn [this]. rewrite !Qred_correct. exact H. Qed.

Lemma qn_lt i j : (i < j)%nat -> qn i < qn j.
Proof. intros H. apply Q2Qc_lt. rewrite <- Zlt_Qlt. lia. Qed.

Lemma qn_0 : qn 0 = 0.
Proof. reflexivity. Qed.

Lemma qn_1 : qn 1 = 1.
Proof. apply Qc_is_canon. reflexivity. Qed.

Lemma qn_pos n : (1 <= n)%nat -> 0 < qn n.
Proof. intros H. rewrite <- qn_0. apply qn_lt. lia. Qed.

Lemma qn_ne0 n : (1 <= n)%nat -> qn n <> 0.
Proof. intros H C. pose proof (qn_pos n H) as H'. rewrite C in H'. exact (Qclt_not_eq _ _ H' eq_refl). Qed.

Lemma Qclt_irrefl x : ~ x < x.
Proof. intros H. exact (Qclt_not_eq _ _ H eq_refl). Qed.

Lemma pos_of_mul s k d : s * k = d -> 0 < k -> 0 < d -> 0 < s.
Proof.
  intros E Hk Hd. destruct (Qclt_le_dec 0 s) as [H|H]; [exact H|].
  exfalso. apply (Qcle_not_lt (s * k) 0); [|rewrite E; exact Hd].
  replace 0 with (0 * k) by ring. apply Qcmult_le_compat_r; [exact H | apply Qclt_le_weak; exact Hk].
Qed.

Lemma nonneg_of_mul s k d : s * k = d -> 0 < k -> 0 <= d -> 0 <= s.
Proof.
  intros E Hk Hd. apply (Qcmult_lt_0_le_reg_r 0 s k Hk). rewrite E. replace (0 * k) with 0 by ring. exact Hd.
Qed.

Lemma Qcplus_lt_l a p q : p < q -> a + p < a + q.
Proof.
  intros H. apply Qclt_minus_iff. apply Qclt_minus_iff in H.
  replace (a + q + - (a + p)) with (q + - p) by ring. exact H.
Qed.

Lemma Qcplus_lt_r a p q : p < q -> p + a < q + a.
Proof. intros H. rewrite (Qcplus_comm p a), (Qcplus_comm q a). apply Qcplus_lt_l; exact H. Qed.

Lemma Qcmult_lt_l s p q : 0 < s -> p < q -> s * p < s * q.
Proof. intros Hs H. rewrite (Qcmult_comm s p), (Qcmult_comm s q). apply Qcmult_lt_compat_r; assumption. Qed.

Lemma div_mul_cancel d k : k <> 0 -> d / k * k = d.
Proof. intros H. field. exact H. Qed.

Lemma step_pos a b k : a < b -> (1 <= k)%nat -> 0 < (b - a) / qn k.
Proof.
  intros Hab Hk. apply (pos_of_mul _ (qn k) (b - a)); [apply div_mul_cancel, qn_ne0, Hk | apply qn_pos, Hk |].
  apply Qclt_minus_iff in Hab. exact Hab.
Qed.

(* w/(n+1) <= w/n for w >= 0 *)
Lemma div_antitone w n : 0 <= w -> (1 <= n)%nat -> w / qn (S n) <= w / qn n.
Proof.
  intros Hw Hn.
  assert (Hn0 : qn n <> 0) by (apply qn_ne0; lia).
  assert (Hs0 : qn (S n) <> 0) by (apply qn_ne0; lia).
  apply (Qcmult_lt_0_le_reg_r _ _ (qn n * qn (S n))).
  - replace 0 with (0 * qn (S n)) by ring. apply Qcmult_lt_compat_r; apply qn_pos; lia.
  - replace (w / qn (S n) * (qn n * qn (S n))) with (qn n * w) by (field; exact Hs0).
    replace (w / qn n * (qn n * qn (S n))) with (qn (S n) * w) by (field; exact Hn0).
    apply Qcmult_le_compat_r; [apply Qclt_le_weak, qn_lt; lia | exact Hw].
Qed.

Lemma round12q_mono p q : p <= q -> round12q p <= round12q q.
Proof.
  intros H. unfold round12q, Qcle, Q2Qc; cbn [this]. rewrite !Qred_correct.
  apply Qmult_le_compat_r; [|discriminate].
  rewrite <- Zle_Qle. apply Qfloor_resp_le. apply Qplus_le_compat; [|apply Qle_refl].
  apply Qmult_le_compat_r; [exact H | discriminate].
Qed.
Local Close Scope Qc_scope.

(* ---------------- the laws hold in the instance ---------------- *)
Notation xlt := (lt xq xltb).
Notation xle := (le xq xltb).
Notation xfinite := (finite xq xis_nan xis_inf).

Lemma xfinite_fin x : xfinite x -> exists q, x = Fin q.
Proof. intros [H _]. destruct x as [q| |]; [exists q; reflexivity | discriminate | discriminate]. Qed.

Lemma xlt_fin a b : xlt (Fin a) (Fin b) <-> (a < b)%Qc.
Proof.
  unfold lt; cbn. destruct (Qclt_le_dec a b) as [H|H]; split; auto; try discriminate.
  intros H'. exfalso. exact (Qcle_not_lt _ _ H H').
Qed.

Lemma xle_fin a b : xle (Fin a) (Fin b) <-> (a <= b)%Qc.
Proof.
  unfold le; cbn. destruct (Qclt_le_dec b a) as [H|H]; split; auto; try discriminate.
  intros H'. exfalso. exact (Qcle_not_lt _ _ H' H).
Qed.

Lemma xLinLaws : LinLaws xq xadd xsub xmul xdiv xltb xeqb (Fin 0%Qc) xis_nan xis_inf xof_nat.
Proof.
  constructor.
  - intros a b x Fa Fb H1 H2. destruct (xfinite_fin a Fa) as [a' ->]. destruct (xfinite_fin b Fb) as [b' ->].
    destruct x as [q| |]; [split; reflexivity | discriminate H2 | discriminate H1].
  - intros a b k i Fa Fb Hab Hi Hk. destruct (xfinite_fin a Fa) as [a' ->]. destruct (xfinite_fin b Fb) as [b' ->].
    apply xlt_fin in Hab. unfold lin_pt; cbn. apply xlt_fin.
    pose proof (step_pos a' b' k Hab ltac:(lia)) as Hs.
    replace a' with (a' + 0)%Qc at 1 by ring. apply Qcplus_lt_l.
    replace 0%Qc with (((b' - a') / qn k) * qn 0)%Qc by (rewrite qn_0; ring).
    apply Qcmult_lt_l; [exact Hs | apply qn_lt; lia].
  - intros a b k i Fa Fb Hab Hi Hk. destruct (xfinite_fin a Fa) as [a' ->]. destruct (xfinite_fin b Fb) as [b' ->].
    apply xlt_fin in Hab. unfold lin_pt; cbn. apply xlt_fin.
    pose proof (step_pos a' b' k Hab ltac:(lia)) as Hs.
    replace b' with (a' + ((b' - a') / qn k) * qn k)%Qc at 2 by (field; apply qn_ne0; lia).
    apply Qcplus_lt_l, Qcmult_lt_l; [exact Hs | apply qn_lt; lia].
  - intros a b k i j Fa Fb Hab Hi Hij Hk. destruct (xfinite_fin a Fa) as [a' ->]. destruct (xfinite_fin b Fb) as [b' ->].
    apply xlt_fin in Hab. unfold lin_pt; cbn. apply xlt_fin.
    pose proof (step_pos a' b' k Hab ltac:(lia)) as Hs.
    apply Qcplus_lt_l, Qcmult_lt_l; [exact Hs | apply qn_lt; lia].
  - intros a b m Fa Fb Hab Hm. destruct (xfinite_fin a Fa) as [a' ->]. destruct (xfinite_fin b Fb) as [b' ->].
    apply xlt_fin in Hab. cbn. pose proof (step_pos a' b' m Hab Hm) as Hs.
    destruct (Qc_eq_dec ((b' - a') / qn m) 0) as [E|E]; [|reflexivity].
    rewrite E in Hs. exfalso. exact (Qclt_irrefl _ Hs).
  - intros a b m Fa Fb. destruct (xfinite_fin a Fa) as [a' ->]. destruct (xfinite_fin b Fb) as [b' ->].
    unfold np_pt; cbn. f_equal. rewrite qn_0. ring.
  - intros a b m i j Fa Fb Hab Hij Hj. destruct (xfinite_fin a Fa) as [a' ->]. destruct (xfinite_fin b Fb) as [b' ->].
    apply xlt_fin in Hab. unfold np_pt; cbn. apply xlt_fin.
    pose proof (step_pos a' b' m Hab ltac:(lia)) as Hs.
    apply Qcplus_lt_r, Qcmult_lt_compat_r; [exact Hs | apply qn_lt; lia].
  - intros a b m i Fa Fb Hab Hi. destruct (xfinite_fin a Fa) as [a' ->]. destruct (xfinite_fin b Fb) as [b' ->].
    apply xlt_fin in Hab. unfold np_pt; cbn. apply xlt_fin.
    pose proof (step_pos a' b' m Hab ltac:(lia)) as Hs.
    replace b' with (qn m * ((b' - a') / qn m) + a')%Qc at 2 by (field; apply qn_ne0; lia).
    apply Qcplus_lt_r, Qcmult_lt_compat_r; [exact Hs | apply qn_lt; lia].
Qed.

(* ---------------- key_antitone holds in the instance ---------------- *)
Notation xlseq_c := (lseq_c xq xmul xdiv xof_nat).
Notation xlseq_q := (lseq_q xq xmul xdiv PInf xof_nat).

Lemma xlseq_c_fin l n : (1 <= n)%nat -> xlseq_c (Fin l) n = Fin (l / qn n)%Qc.
Proof.
  intros Hn. destruct n as [|n]; [lia|]. clear Hn. induction n as [|n IH].
  - cbn. f_equal. rewrite qn_1. field. exact Q_apart_0_1.
  - destruct n as [|n].
    + reflexivity.
    + change (xlseq_c (Fin l) (S (S (S n)))) with
        (xdiv (xmul (xlseq_c (Fin l) (S (S n))) (xof_nat (S (S n)))) (xof_nat (S (S (S n))))).
      rewrite IH. cbn. f_equal. field. split; apply qn_ne0; lia.
Qed.

Lemma xlseq_c_inf l0 n : xis_inf l0 = true -> xis_inf (xlseq_c l0 n) = true.
Proof.
  intros H. destruct n as [|n]; [exact H|]. induction n as [|n IH]; [exact H|].
  destruct n as [|n].
  - destruct l0; [discriminate | reflexivity | reflexivity].
  - change (xlseq_c l0 (S (S (S n)))) with
      (xdiv (xmul (xlseq_c l0 (S (S n))) (xof_nat (S (S n)))) (xof_nat (S (S (S n))))).
    destruct (xlseq_c l0 (S (S n))); [discriminate | reflexivity | reflexivity].
Qed.

Lemma xlseq_q_inf n : xlseq_q n = PInf.
Proof.
  destruct n as [|n]; [reflexivity|]. induction n as [|n IH]; [reflexivity|].
  change (xlseq_q (S (S n))) with (xdiv (xmul (xlseq_q (S n)) (xof_nat (S n))) (xof_nat (S (S n)))).
  rewrite IH. reflexivity.
Qed.

Section XQKey.
  Variable P : params xq.
  Variable s : st xq.
  Notation xwf := (wf xq xltb xeqb P).
  Notation xivals := (ivals xq xeqb P s).
  Notation xkey_of := (key_of xq xsub xmul xdiv xeqb PInf xis_nan xis_inf xround12 xof_nat s).
  Notation xsub_loss := (sub_loss xq xmul xdiv xeqb PInf xof_nat s).
  Hypothesis W : xwf s.
  Hypothesis Flo : xfinite (lo P).
  Hypothesis Fhi : xfinite (hi P).
  (* the x-scale is a positive number, the stored losses are non-negative (or infinite) *)
  Hypothesis Hsx : exists x, sx s = Fin x /\ (0 < x)%Qc.
  Hypothesis Hnonneg : forall iv l, In (iv, Fin l) (losc s) -> (0 <= l)%Qc.

  Lemma xq_key_form iv : In iv xivals ->
    exists w, (0 <= w)%Qc /\ forall n, (1 <= n)%nat -> xkey_of iv n = Fin (round12q (w / qn n)%Qc).
  Proof.
    intros Hiv. destruct iv as [a b]. destruct Hsx as (x & Ex & Hx).
    pose proof (ext_sorted xq xadd xsub xmul xdiv xltb xeqb (Fin 0%Qc) xis_nan xis_inf xround12 P xOrderLaws s W) as Hs.
    destruct (pairs_in xq _ a b Hiv) as [Ia Ib].
    pose proof (pairs_lt xq xltb _ a b Hs Hiv) as Hab.
    destruct (xfinite_fin a (ext_fin xq xadd xsub xmul xdiv xltb xeqb (Fin 0%Qc) xis_nan xis_inf xof_nat P xOrderLaws xLinLaws s W Flo Fhi a Ia)) as [a' ->].
    destruct (xfinite_fin b (ext_fin xq xadd xsub xmul xdiv xltb xeqb (Fin 0%Qc) xis_nan xis_inf xof_nat P xOrderLaws xLinLaws s W Flo Fhi b Ib)) as [b' ->].
    apply xlt_fin in Hab.
    set (w := ((b' - a') / x)%Qc).
    assert (Hw : (0 <= w)%Qc).
    { apply Qclt_le_weak. apply (pos_of_mul w x (b' - a')%Qc); [|exact Hx|].
      - unfold w. field. intros C. rewrite C in Hx. exact (Qclt_irrefl _ Hx).
      - apply Qclt_minus_iff in Hab. exact Hab. }
    unfold key_of, sub_loss.
    destruct (lget xeqb (Fin a', Fin b') (losc s)) as [l0|] eqn:El.
    - destruct (xis_inf l0) eqn:Ei.
      + (* stored loss infinite: ranked by relative width / n *)
        exists w. split; [exact Hw|]. intros n Hn. destruct n as [|[|n]]; [lia | |].
        * unfold finite_loss2. rewrite Ei, Ex. cbn. f_equal. f_equal. fold w. rewrite qn_1. field. exact Q_apart_0_1.
        * unfold finite_loss3. rewrite (xlseq_c_inf l0 (S (S n)) Ei), Ex. cbn. reflexivity.
      + destruct l0 as [l| |]; try discriminate.
        exists l. split.
        * apply (Hnonneg (Fin a', Fin b')).
          (* lget = Some -> In *)
          clear -El. induction (losc s) as [|[k v] m IH]; [discriminate|]. cbn [lget] in El.
          destruct (ival_eqb xeqb (Fin a', Fin b') k) eqn:E.
          -- left. apply (ival_eqb_eq xq xltb xeqb xOrderLaws) in E. inversion El; subst. reflexivity.
          -- right. apply IH; exact El.
        * intros n Hn. destruct n as [|[|n]]; [lia | |].
          -- unfold finite_loss2. cbn. f_equal. f_equal. rewrite qn_1. field. exact Q_apart_0_1.
          -- unfold finite_loss3. rewrite (xlseq_c_fin l (S (S n))) by lia. cbn. reflexivity.
    - exists w. split; [exact Hw|]. intros n Hn. destruct n as [|[|n]]; [lia | |].
      + unfold finite_loss3. rewrite Ex. cbn. reflexivity.
      + unfold finite_loss3. rewrite xlseq_q_inf, Ex. cbn. reflexivity.
  Qed.

  Theorem xq_key_antitone :
    key_antitone xq xsub xmul xdiv xltb xeqb PInf xis_nan xis_inf xround12 xof_nat P s.
  Proof.
    intros iv n Hiv Hn. destruct (xq_key_form iv Hiv) as (w & Hw & Hk).
    rewrite !Hk by lia. apply xle_fin. apply round12q_mono, div_antitone; assumption.
  Qed.
End XQKey.

(* ---------------- executable side conditions for the instance ---------------- *)
Definition xq_okb (P : params xq) (s : st xq) : bool :=
  wfb xq xltb xeqb P s
  && negb (xis_inf (lo P)) && negb (xis_inf (hi P))
  && match sx s with Fin x => xltb (Fin 0%Qc) (Fin x) | _ => false end
  && forallb (fun e : ival xq * xq => match snd e with Fin l => negb (xltb (Fin l) (Fin 0%Qc)) | _ => true end) (losc s).

Lemma xq_okb_spec P s : xq_okb P s = true ->
  wf xq xltb xeqb P s /\ xfinite (lo P) /\ xfinite (hi P) /\
  (exists x, sx s = Fin x /\ (0 < x)%Qc) /\
  (forall iv l, In (iv, Fin l) (losc s) -> (0 <= l)%Qc).
Proof.
  unfold xq_okb. rewrite !andb_true_iff, !negb_true_iff. intros ((((H1 & H2) & H3) & H4) & H5).
  split; [apply (wfb_wf xq xadd xsub xmul xdiv xltb xeqb (Fin 0%Qc) xis_nan xis_inf xround12 P xOrderLaws s); exact H1|].
  split; [split; [exact H2 | reflexivity]|]. split; [split; [exact H3 | reflexivity]|]. split.
  - destruct (sx s) as [x| |]; try discriminate. exists x. split; [reflexivity|]. apply xlt_fin; exact H4.
  - intros iv l Hin. rewrite forallb_forall in H5. specialize (H5 _ Hin). cbn [snd] in H5.
    apply negb_true_iff in H5. apply xle_fin. exact H5.
Qed.
