(* Bookkeeping lemmas for properties C09 / C10 about Model/Avg.v
   (AverageLearner), for EVERY number structure [N : NumOps] (hence also for
   the IEEE instance that the correspondence of C16 / C09 / C10 executes) and
   every configuration.  Axiom-free.

   The model's [ask] has a [commit] flag; with [commit = false] it returns the
   state it was given, as the code does ([AverageLearner.ask] computes the
   candidate seeds and the loss improvement without touching the learner).
   The fallback branch of [ask] iterates over a Python set; its order enters
   the model as the [hint] argument, so "repeating the call returns the same
   points" is stated for the same hint (the correspondence records the hint the
   real learner used; CPython iterates an unchanged set in the same order). *)
From Coq Require Import Permutation.
From AV Require Import Base.Prelude Base.NatSet Model.AvgNum Model.Avg Proofs.AvgProofs.

Section AvgBK.
  Variable N : NumOps.
  Implicit Types (s : st N) (c : cfg N) (h : list (op N)) (o : op N).

  (* the points of an answer (none when ask raised) *)
  Definition asked_points (r : out N) : list nat :=
    match r with Asked _ pts _ => pts | _ => [] end.

  (* ---------------- C09 ---------------- *)
  Lemma ask_false_state c s n hint : fst (ask c s n false hint) = s.
  Proof.
    unfold ask. destruct n as [|n]; [reflexivity|].
    destruct (loss_improvement c s (S n)); reflexivity.
  Qed.

  Theorem avg_ask_noop c s n hint :
    fst (ask c s n false hint) = s /\
    (forall h, run c (fst (ask c s n false hint)) h = run c s h) /\
    (forall o, step c (fst (ask c s n false hint)) o = step c s o) /\
    (forall real, loss c (fst (ask c s n false hint)) real = loss c s real) /\
    snd (ask c (fst (ask c s n false hint)) n false hint) = snd (ask c s n false hint).
  Proof. rewrite ask_false_state. repeat split. Qed.

  Theorem avg_ask_commit c s n hint :
    snd (ask c s n true hint) = snd (ask c s n false hint) /\
    fst (ask c s n true hint) =
      fold_left (@tell_pending N) (asked_points (snd (ask c s n false hint))) (fst (ask c s n false hint)).
  Proof.
    unfold ask. destruct n as [|n]; [split; reflexivity|].
    destruct (loss_improvement c s (S n)); split; reflexivity.
  Qed.

  (* ---------------- C10: data ---------------- *)
  Lemma lookup_In_keys k (d : list (nat * num N)) : In k (map fst d) <-> lookup N k d <> None.
  Proof.
    induction d as [|[j w] d IH]; cbn [map fst In lookup]; [tauto|].
    destruct (Nat.eqb_spec k j) as [E|E].
    - subst. split; [discriminate|auto].
    - rewrite IH. split; [intros [?|?]; [congruence|assumption]|auto].
  Qed.

  (* data maps each told seed to the value of its FIRST tell; nothing else *)
  Theorem avg_data_exact c h seed :
    lookup N seed (data (reach c h)) = first_told h seed /\
    NoDup (keys (reach c h)) /\
    (In seed (keys (reach c h)) <-> first_told h seed <> None).
  Proof.
    assert (A : lookup N seed (data (reach c h)) = first_told h seed).
    { unfold reach. rewrite first_value. reflexivity. }
    split; [exact A|]. split; [apply (inv_nodup (inv_reach N c h))|].
    unfold keys. rewrite lookup_In_keys, A. tauto.
  Qed.

  (* ---------------- C10: told is not pending ---------------- *)
  Definition Disj s : Prop := forall k, In k (pend s) -> ~ In k (keys s).

  (* post-condition of tell: the told seed is not pending, provided it was not
     BOTH known and pending before (telling a known seed is ignored entirely) *)
  Theorem avg_told_not_pending s k v :
    (In k (keys s) -> ~ In k (pend s)) -> ~ In k (pend (tell s k v)).
  Proof.
    intros H. unfold tell. destruct (known s k) eqn:E.
    - apply H. apply known_In. exact E.
    - cbn [pend]. rewrite nat_remove_In. tauto.
  Qed.

  (* only [tell_pending] of a known seed can break disjointness (the code has
     no guard there; only Learner1D has); histories that mark only unknown
     seeds as pending: *)
  Definition polite_op s o : bool :=
    match o with TellPending k => negb (known s k) | _ => true end.

  Fixpoint polite c s h : bool :=
    match h with
    | [] => true
    | o :: h' => polite_op s o && polite c (fst (step c s o)) h'
    end.

  Lemma keys_tell_unknown s k v : known s k = false -> keys (tell s k v) = keys s ++ [k].
  Proof. intros E. unfold tell, keys. rewrite E. cbn [data]. rewrite map_app. reflexivity. Qed.

  Lemma disj_step c s o : Inv s -> Disj s -> polite_op s o = true -> Disj (fst (step c s o)).
  Proof.
    intros HI HD Hp. destruct o as [n commit hint|k v|k|]; cbn [step fst].
    - destruct (ask_state N c s n commit hint) as [-> | ->]; [exact HD|].
      intros k Hk. unfold keys. rewrite fold_pending_data. rewrite fold_pending_pend in Hk.
      apply fold_insert_In in Hk as [Hk|Hk]; [|apply HD; exact Hk].
      apply (ask_points_fresh N s n hint HI). exact Hk.
    - unfold tell. destruct (known s k) eqn:E; [exact HD|].
      intros j Hj. cbn [pend] in Hj. apply nat_remove_In in Hj as [Hj Hne].
      unfold keys. cbn [data]. rewrite map_app, in_app_iff. cbn [map fst In].
      intros [H|[H|[]]]; [exact (HD j Hj H)|congruence].
    - cbn [polite_op] in Hp. apply negb_true_iff in Hp.
      intros j Hj. change (keys (tell_pending s k)) with (keys s).
      cbn [tell_pending pend] in Hj. apply nat_insert_In in Hj as [->|Hj].
      + intros H. apply known_In in H. congruence.
      + apply HD. exact Hj.
    - intros j Hj. cbn in Hj. contradiction.
  Qed.

  Lemma disj_run c h : forall s, Inv s -> Disj s -> polite c s h = true -> Disj (run c s h).
  Proof.
    induction h as [|o h IH]; intros s HI HD Hp; [exact HD|].
    cbn [polite] in Hp. apply andb_true_iff in Hp as [Hp1 Hp2].
    rewrite run_cons. apply IH; [apply inv_step; exact HI|apply disj_step; assumption|exact Hp2].
  Qed.

  Theorem avg_data_pending_disjoint c h :
    polite c (init N) h = true -> forall k, In k (pend (reach c h)) -> ~ In k (keys (reach c h)).
  Proof.
    intros Hp. apply disj_run; [apply inv_init| |exact Hp]. intros k Hk. cbn in Hk. contradiction.
  Qed.

  (* ---------------- C10: asked is pending until told or discarded ---------------- *)
  Definition keeps (i : nat) o : bool :=
    match o with
    | RemoveUnfinished => false
    | Tell _ j _ => negb (j =? i)
    | _ => true
    end.

  Lemma pend_commit_mono l : forall s i, In i (pend s) -> In i (pend (fold_left (@tell_pending N) l s)).
  Proof.
    intros s i Hi. rewrite fold_pending_pend. apply fold_insert_In. right; exact Hi.
  Qed.

  Lemma pend_step_keeps c s o i : keeps i o = true -> In i (pend s) -> In i (pend (fst (step c s o))).
  Proof.
    destruct o as [n commit hint|j v|j|]; cbn [keeps step fst]; intros Hk Hi; try discriminate.
    - destruct (ask_state N c s n commit hint) as [-> | ->]; [exact Hi|apply pend_commit_mono; exact Hi].
    - unfold tell. destruct (known s j); [exact Hi|]. cbn [pend]. apply nat_remove_In. split; [exact Hi|].
      apply negb_true_iff in Hk. apply Nat.eqb_neq in Hk. congruence.
    - cbn. apply nat_insert_In. right; exact Hi.
  Qed.

  Lemma pend_run_keeps c h : forall s i, forallb (keeps i) h = true -> In i (pend s) -> In i (pend (run c s h)).
  Proof.
    induction h as [|o h IH]; intros s i Hh Hi; [exact Hi|].
    rewrite run_cons. cbn [forallb] in Hh. apply andb_true_iff in Hh as [Ho Hh].
    apply IH; [exact Hh|]. apply pend_step_keeps; assumption.
  Qed.

  Theorem avg_asked_is_pending c s n hint h i :
    In i (asked_points (snd (ask c s n true hint))) -> forallb (keeps i) h = true ->
    In i (pend (run c (fst (ask c s n true hint)) h)).
  Proof.
    intros Hi Hh. apply pend_run_keeps; [exact Hh|].
    destruct (snd (ask c s n true hint)) as [|pts imp|] eqn:E; cbn [asked_points] in Hi; try contradiction.
    eapply ask_commits; eauto.
  Qed.

  (* ---------------- C10: npoints = number of distinct told seeds ---------------- *)
  Definition told_ins (acc : list nat) o : list nat :=
    match o with Tell _ k _ => nat_insert k acc | _ => acc end.
  Definition told_set h : list nat := fold_left told_ins h [].

  Lemma told_fold_sorted h : forall acc, sorted acc -> sorted (fold_left told_ins h acc).
  Proof.
    induction h as [|o h IH]; intros acc Ha; [exact Ha|]. cbn [fold_left]. apply IH.
    destruct o; cbn [told_ins]; auto. apply nat_insert_sorted; exact Ha.
  Qed.

  Lemma told_fold_In h : forall acc k,
    In k (fold_left told_ins h acc) <-> In k acc \/ exists v, In (Tell N k v) h.
  Proof.
    induction h as [|o h IH]; intros acc k; cbn [fold_left In].
    - split; [auto|intros [?|[? []]]; assumption].
    - rewrite IH. destruct o as [n cm hint|i v|i|]; cbn [told_ins].
      + split; [intros [?|[v ?]]; [auto|right; exists v; auto]|intros [?|[v [?|?]]]; [auto|discriminate|right; exists v; auto]].
      + rewrite nat_insert_In. split.
        * intros [[->|?]|[w ?]]; [right; exists v; auto|auto|right; exists w; auto].
        * intros [?|[w [E|?]]]; [auto|inversion E; subst; auto|right; exists w; auto].
      + split; [intros [?|[v ?]]; [auto|right; exists v; auto]|intros [?|[v [?|?]]]; [auto|discriminate|right; exists v; auto]].
      + split; [intros [?|[v ?]]; [auto|right; exists v; auto]|intros [?|[v [?|?]]]; [auto|discriminate|right; exists v; auto]].
  Qed.

  Lemma first_told_In h k : first_told h k <> None <-> exists v, In (Tell N k v) h.
  Proof.
    induction h as [|o h IH]; cbn [first_told In].
    - split; [congruence|intros [? []]].
    - destruct o as [n cm hint|i v|i|].
      + rewrite IH. split; intros [v H]; exists v; [auto|destruct H; [discriminate|assumption]].
      + destruct (Nat.eqb_spec k i) as [->|Hne].
        * split; [intros _; exists v; auto|discriminate].
        * rewrite IH. split; intros [w H]; exists w; [auto|].
          destruct H as [H|H]; [inversion H; congruence|assumption].
      + rewrite IH. split; intros [v H]; exists v; [auto|destruct H; [discriminate|assumption]].
      + rewrite IH. split; intros [v H]; exists v; [auto|destruct H; [discriminate|assumption]].
  Qed.

  Theorem avg_npoints c h :
    npoints (reach c h) = length (told_set h) /\
    length (data (reach c h)) = length (told_set h) /\
    NoDup (told_set h) /\
    (forall k, In k (told_set h) <-> exists v, In (Tell N k v) h).
  Proof.
    assert (Hn : NoDup (told_set h)) by (apply sorted_NoDup, told_fold_sorted; constructor).
    assert (Hin : forall k, In k (told_set h) <-> exists v, In (Tell N k v) h).
    { intros k. unfold told_set. rewrite told_fold_In. cbn [In]. tauto. }
    assert (Hl : length (data (reach c h)) = length (told_set h)).
    { rewrite <- (map_length fst). change (map fst (data (reach c h))) with (keys (reach c h)).
      apply Permutation_length. apply NoDup_Permutation; [apply (inv_nodup (inv_reach N c h))|exact Hn|].
      intros k. rewrite Hin, <- first_told_In. apply (avg_data_exact c h k). }
    split; [rewrite (inv_npoints (inv_reach N c h)); exact Hl|]. auto.
  Qed.

  (* ---------------- C10: re-tell ---------------- *)
  (* telling a known seed again changes nothing, whatever the value *)
  Theorem avg_retell_noop s k v' w : lookup N k (data s) = Some w -> tell s k v' = s.
  Proof.
    intros H. unfold tell.
    assert (E : known s k = true).
    { apply known_In. unfold keys. apply lookup_In_keys. congruence. }
    rewrite E. reflexivity.
  Qed.

  (* ---------------- C10: discard ---------------- *)
  Theorem avg_discard c s :
    pend (remove_unfinished s) = [] /\
    data (remove_unfinished s) = data s /\
    npoints (remove_unfinished s) = npoints s /\
    loss c (remove_unfinished s) false = loss c (remove_unfinished s) true.
  Proof.
    repeat split. unfold loss, n_requested. cbn [remove_unfinished pend npoints length].
    rewrite Nat.add_0_r. reflexivity.
  Qed.
End AvgBK.
Arguments asked_points {N} r.
Arguments Disj {N} s.
Arguments polite {N} c s h.
Arguments polite_op {N} s o.
Arguments keeps {N} i o.
Arguments told_set {N} h.

(* a small exact number structure for closed examples (integers; [n_sq] is
   squaring, [n_sqrt] the integer square root, [inf] a large constant) *)
From Coq Require Import ZArith.
Definition ZOps : NumOps :=
  mkNumOps 0%Z 1000000%Z Z.add Z.sub Z.mul Z.div Z.sqrt (fun x => (x * x)%Z) Z.abs
           Z.ltb Z.leb Z.eqb (fun x => Z.ltb (Z.abs x) 1000000) Z.of_nat.
