(* Cache coherence of the REPAIRED model (repaired = true) along every legal
   history, for children whose non-committing ask(1) leaves them unchanged
   (property C09 of the child, hypothesis [Hnc]). *)
From AV Require Import Base.Prelude Model.GenericLearner Model.Balancing
  Proofs.BalancingProofs Proofs.BalancingOrder.
Set Implicit Arguments.

Lemma skipn_cons_inv A (K : list A) : forall i k ks,
  skipn i K = k :: ks -> nth_error K i = Some k /\ skipn (S i) K = ks.
Proof.
  induction K as [|a K IH]; intros [|i] k ks H; cbn [skipn nth_error] in *; try discriminate.
  - inversion H; subst. split; reflexivity.
  - apply IH in H. exact H.
Qed.

Section Coh.
  Variable L : Learner.
  Hypothesis Hnc : forall k : state L, snd (ask L k 1 false) = k.
  Implicit Types (s : bst L) (k : state L) (i j n : nat) (tp : list nat).

  Definition cohloc (ok : option (state L)) (oa : option (answer L)) (ol op : option (num L)) : Prop :=
    (forall v, ol = Some v -> exists k, ok = Some k /\ v = loss L k true) /\
    (forall v, op = Some v -> exists k, ok = Some k /\ v = loss L k false) /\
    (forall a, oa = Some a -> exists k, ok = Some k /\ a = fst (ask L k 1 false)).

  (* every cached loss / pending loss / ask answer equals the child's current one *)
  Definition Coh s : Prop :=
    forall i, cohloc (nth_error (kids s) i) (acache s i) (lcache s i) (pcache s i).

  Lemma cohloc_none ok : cohloc ok None None None.
  Proof. repeat split; intros ? H; discriminate H. Qed.

  Lemma coh_init ks st : Coh (init L ks st).
  Proof. intros i. apply cohloc_none. Qed.

  Lemma coh_fail s : Coh s -> Coh (fail s).
  Proof. intros H i. exact (H i). Qed.

  Lemma coh_set_strategy s st : Coh s -> Coh (set_strategy s st).
  Proof. intros H i. exact (H i). Qed.

  (* a tell_pending for child i re-establishes coherence whatever happened to
     child i and its cache entries before, provided the others are untouched *)
  Lemma coh_after_tp s s2 i p :
    Coh s ->
    (forall j, j <> i -> nth_error (kids s2) j = nth_error (kids s) j /\ acache s2 j = acache s j /\
                         lcache s2 j = lcache s j /\ pcache s2 j = pcache s j) ->
    Coh (tell_pending true s2 i p).
  Proof.
    intros HC Hs j. unfold tell_pending.
    destruct (nth_error (kids s2) i) as [k|] eqn:E; cbn [kids acache lcache pcache with_kids fail];
      (destruct (Nat.eq_dec j i) as [->|Hj];
       [rewrite !fset_eq; apply cohloc_none
       |rewrite !fset_neq by exact Hj; try rewrite nth_error_list_set_neq by exact Hj;
        destruct (Hs j Hj) as [-> [-> [-> ->]]]; apply HC]).
  Qed.

  Lemma coh_tell_pending s i p : Coh s -> Coh (tell_pending true s i p).
  Proof. intros H. apply coh_after_tp with s; auto. Qed.

  Lemma coh_tell s i x y : Coh s -> Coh (tell s i x y).
  Proof.
    intros HC j. unfold tell.
    destruct (nth_error (kids s) i) as [k|] eqn:E; cbn [kids acache lcache pcache with_kids fail];
      (destruct (Nat.eq_dec j i) as [->|Hj];
       [rewrite !fset_eq; apply cohloc_none
       |rewrite !fset_neq by exact Hj; try rewrite nth_error_list_set_neq by exact Hj; apply HC]).
  Qed.

  Lemma coh_remove_unfinished s : Coh (bremove_unfinished true s).
  Proof. intros i. apply cohloc_none. Qed.

  (* ---------------- _losses ---------------- *)
  Lemma losses_aux_spec real K : forall ks i c,
    skipn i K = ks ->
    (forall j v, c j = Some v -> exists k, nth_error K j = Some k /\ v = loss L k real) ->
    snd (losses_aux L real ks i c) = map (fun k => loss L k real) ks /\
    (forall j v, fst (losses_aux L real ks i c) j = Some v ->
                 exists k, nth_error K j = Some k /\ v = loss L k real).
  Proof.
    induction ks as [|k ks IH]; intros i c Hs Hc; cbn [losses_aux map].
    - split; [reflexivity|exact Hc].
    - apply skipn_cons_inv in Hs as [Hk Hs].
      assert (Hv : match c i with Some v => v | None => loss L k real end = loss L k real).
      { destruct (c i) as [v|] eqn:E; [|reflexivity].
        destruct (Hc i v E) as [k' [H1 H2]]. congruence. }
      rewrite Hv.
      destruct (IH (S i) (fset c i (Some (loss L k real))) Hs) as [H1 H2].
      { intros j v. unfold fset. destruct (Nat.eqb_spec j i) as [->|Hj]; [|apply Hc].
        intros H; inversion H; subst. eauto. }
      destruct (losses_aux L real ks (S i) (fset c i (Some (loss L k real)))) as [c' vs].
      cbn [fst snd] in *. split; [rewrite H1; reflexivity|exact H2].
  Qed.

  Lemma losses_spec s real :
    Coh s ->
    snd (losses s real) = map (fun k => loss L k real) (kids s) /\
    kids (fst (losses s real)) = kids s /\
    Coh (fst (losses s real)).
  Proof.
    intros HC. unfold losses.
    destruct (@losses_aux_spec real (kids s) (kids s) 0 (if real then lcache s else pcache s)) as [H1 H2].
    - reflexivity.
    - intros j v Hv. destruct (HC j) as [Hl [Hp _]]. destruct real; [apply Hl|apply Hp]; exact Hv.
    - destruct (losses_aux L real (kids s) 0 (if real then lcache s else pcache s)) as [c vs].
      cbn [fst snd] in *. split; [exact H1|]. split; [reflexivity|].
      intros j. destruct (HC j) as [Hl [Hp Ha]]. cbn [kids acache lcache pcache].
      destruct real; (split; [|split]); auto.
  Qed.

  Lemma bloss_spec s real :
    Coh s ->
    kids (fst (bloss s real)) = kids s /\ Coh (fst (bloss s real)) /\
    snd (bloss s real) = pymax (ngt L) (map (fun k => loss L k real) (kids s)).
  Proof.
    intros HC. unfold bloss. destruct (losses_spec real HC) as [H1 [H2 H3]].
    destruct (losses s real) as [s1 vs]. cbn [fst snd] in *. subst vs.
    destruct (pymax (ngt L) (map (fun k => loss L k real) (kids s))) as [v|]; cbn [fst snd].
    - auto.
    - split; [exact H2|]. split; [apply coh_fail; exact H3|reflexivity].
  Qed.

  (* ---------------- serve (loss / npoints strategies) ---------------- *)
  Lemma serve_coh s i tp' s1 r :
    Coh s -> serve true s i tp' = (s1, Some r) -> Coh s1.
  Proof.
    intros HC. unfold serve.
    destruct (nth_error (kids s) i) as [k|] eqn:Ek; [|intros H; discriminate H].
    destruct (match acache s i with Some a => (a, k) | None => ask L k 1 true end) as [a k'].
    destruct a as [[|p ps] [|v vs]]; try (intros H; discriminate H).
    intros H; inversion H; subst; clear H.
    apply coh_after_tp with s; [exact HC|].
    intros j Hj. cbn [kids acache lcache pcache with_kids with_acache].
    rewrite nth_error_list_set_neq by exact Hj. rewrite fset_neq by exact Hj. auto.
  Qed.

  Lemma np_body_coh s tp s1 r : Coh s -> np_body true s tp = (s1, Some r) -> Coh s1.
  Proof.
    intros HC. unfold np_body. destruct (argmax _ tp) as [i|]; [|intros H; discriminate H].
    apply serve_coh. exact HC.
  Qed.

  Lemma loss_body_coh s tp s1 r : Coh s -> loss_body true s tp = (s1, Some r) -> Coh s1.
  Proof.
    intros HC. unfold loss_body. destruct (losses_spec false HC) as [_ [_ H3]].
    destruct (losses s false) as [s0 vs]. cbn [fst] in H3.
    destruct (argmax _ _) as [i|]; [|intros H; discriminate H].
    apply serve_coh. exact H3.
  Qed.

  Lemma cycle_body_coh s tp s1 r : Coh s -> cycle_body true s tp = (s1, Some r) -> Coh s1.
  Proof.
    intros HC. unfold cycle_body. destruct (kids s) as [|k0 ks0] eqn:EK; [intros H; discriminate H|].
    rewrite <- EK. destruct (nth_error (kids s) (cyc s)) as [k|] eqn:Ek; [|intros H; discriminate H].
    destruct (ask L k 1 true) as [a k'].
    destruct a as [[|p ps] [|v vs]]; try (intros H; discriminate H).
    intros H; inversion H; subst; clear H.
    apply coh_after_tp with s; [exact HC|].
    intros j Hj. cbn [kids acache lcache pcache with_kids].
    rewrite nth_error_list_set_neq by exact Hj. auto.
  Qed.

  (* ---------------- the scan of loss_improvements ---------------- *)
  Definition acoh (K : list (state L)) (c : nat -> option (answer L)) : Prop :=
    forall j a, c j = Some a -> exists k, nth_error K j = Some k /\ a = fst (ask L k 1 false).

  Lemma imp_scan_spec K tp : forall ks i c,
    skipn i K = ks -> acoh K c ->
    fst (fst (imp_scan ks i c tp)) = ks /\
    acoh K (snd (fst (imp_scan ks i c tp))) /\
    (forall es, snd (imp_scan ks i c tp) = Some es ->
       length es = length ks /\
       forall t k, nth_error ks t = Some k ->
         exists p ps v vs, fst (ask L k 1 false) = (p :: ps, v :: vs) /\
                           nth_error es t = Some ((i + t, p), (v, nth (i + t) tp 0))).
  Proof.
    induction ks as [|k ks IH]; intros i c Hs Hc; cbn [imp_scan].
    - cbn [fst snd]. split; [reflexivity|]. split; [exact Hc|].
      intros es H; inversion H; subst. split; [reflexivity|]. intros [|t] k H0; discriminate H0.
    - apply skipn_cons_inv in Hs as [Hk Hs].
      assert (Ha : (match c i with Some a => (a, k) | None => ask L k 1 false end)
                   = (fst (ask L k 1 false), k)).
      { destruct (c i) as [a|] eqn:E.
        - destruct (Hc i a E) as [k' [H1 H2]]. rewrite Hk in H1. inversion H1; subst k'.
          rewrite <- H2. reflexivity.
        - rewrite <- (Hnc k) at 3. destruct (ask L k 1 false); reflexivity. }
      rewrite Ha. clear Ha. remember (fst (ask L k 1 false)) as a eqn:Ea0.
      assert (Hc' : acoh K (fset c i (Some a))).
      { intros j a'. unfold fset. destruct (Nat.eqb_spec j i) as [->|Hj]; [|apply Hc].
        intros H; inversion H; subst. eauto. }
      destruct a as [[|p ps] [|v vs]];
        try (cbn [fst snd]; split; [reflexivity|]; split; [exact Hc'|intros es H; discriminate H]).
      match goal with |- context [imp_scan ks (S i) ?cc tp] =>
        destruct (IH (S i) cc Hs Hc') as [H1 [H2 H3]];
        destruct (imp_scan ks (S i) cc tp) as [[ks'' c''] r] end.
      cbn [fst snd] in *. subst ks''. split; [reflexivity|]. split; [exact H2|].
      intros es Hes. destruct r as [es'|]; [|discriminate Hes]. cbn [option_map] in Hes.
      inversion Hes; subst; clear Hes. destruct (H3 es' eq_refl) as [Hl Hn].
      split; [cbn [length]; rewrite Hl; reflexivity|].
      intros [|t] k0 Hk0; cbn [nth_error] in *.
      + inversion Hk0; subst. exists p, ps, v, vs. rewrite Nat.add_0_r. split; [symmetry; exact Ea0|reflexivity].
      + destruct (Hn t k0 Hk0) as [p' [ps' [v' [vs' [E1 E2]]]]].
        exists p', ps', v', vs'. replace (i + S t) with (S i + t) by lia. auto.
  Qed.

  Lemma imp_body_coh s tp s1 r : Coh s -> imp_body true s tp = (s1, Some r) -> Coh s1.
  Proof.
    intros HC. unfold imp_body.
    destruct (@imp_scan_spec (kids s) tp (kids s) 0 (acache s)) as [H1 [H2 _]].
    - reflexivity.
    - intros j a Ha. destruct (HC j) as [_ [_ H]]. apply H. exact Ha.
    - destruct (imp_scan (kids s) 0 (acache s) tp) as [[ks c] rr]. cbn [fst snd] in *. subst ks.
      destruct rr as [es|]; [|intros H; discriminate H].
      destruct (pymax _ es) as [[[i p] [v t]]|]; [|intros H; discriminate H].
      intros H; inversion H; subst; clear H. apply coh_tell_pending.
      intros j. destruct (HC j) as [Hl [Hp Ha]]. cbn [kids acache lcache pcache with_kids with_acache].
      split; [exact Hl|]. split; [exact Hp|]. intros a Hj. apply H2. exact Hj.
  Qed.

  Lemma body_coh st s tp s1 r : Coh s -> body_of true st s tp = (s1, Some r) -> Coh s1.
  Proof.
    destruct st; cbn [body_of]; [apply imp_body_coh|apply loss_body_coh|apply np_body_coh|apply cycle_body_coh].
  Qed.

  (* ---------------- loops, steps, histories ---------------- *)
  Definition CohF s : Prop := failed s = true \/ Coh s.

  Lemma loopn_coh (body : body_t L) :
    (forall s tp s1 r, Coh s -> body s tp = (s1, Some r) -> Coh s1) ->
    forall n s tp, Coh s -> CohF (fst (loopn body n s tp)).
  Proof.
    intros Hb. induction n as [|n IH]; intros s tp HC; cbn [loopn].
    - right. exact HC.
    - destruct (body s tp) as [s1 [[tp' e]|]] eqn:E.
      + specialize (IH s1 tp' (Hb _ _ _ _ HC E)).
        destruct (loopn body n s1 tp') as [s2 r]. exact IH.
      + left. reflexivity.
  Qed.

  Lemma step_state_coh s o : legal_op o = true -> Coh s -> CohF (step_state true s o).
  Proof.
    intros Hl HC. destruct o as [n c|i x y|i x|real| |st]; cbn [step_state].
    - cbn [legal_op] in Hl. subst c. unfold bask. destruct (n =? 0); [right; exact HC|].
      unfold ask_and_tell. apply loopn_coh; [|exact HC]. intros; eapply body_coh; eauto.
    - right. apply coh_tell. exact HC.
    - right. apply coh_tell_pending. exact HC.
    - right. apply (bloss_spec real HC).
    - right. apply coh_remove_unfinished.
    - right. apply coh_set_strategy. exact HC.
  Qed.

  Lemma run_cons rep s o (h : list (op L)) : run rep s (o :: h) = run rep (fst (step rep s o)) h.
  Proof. reflexivity. Qed.

  Lemma step_fst rep s o : fst (step rep s o) = if failed s then s else step_state rep s o.
  Proof. unfold step. destruct (failed s); reflexivity. Qed.

  Lemma run_coh h : forall s, legal h = true -> CohF s -> CohF (run true s h).
  Proof.
    induction h as [|o h IH]; intros s Hl HC; [exact HC|].
    cbn [legal forallb] in Hl. apply andb_true_iff in Hl as [Hl1 Hl2].
    rewrite run_cons. apply IH; [exact Hl2|]. rewrite step_fst.
    destruct (failed s) eqn:Ef; [exact HC|].
    destruct HC as [HC|HC]; [congruence|]. apply step_state_coh; assumption.
  Qed.

  Lemma cache_coherent ks st h :
    legal h = true -> failed (run true (init L ks st) h) = false -> Coh (run true (init L ks st) h).
  Proof.
    intros Hl Hf. destruct (@run_coh h (init L ks st) Hl) as [H|H]; [right; apply coh_init|congruence|exact H].
  Qed.

  (* ---------------- loss = max over the children ---------------- *)
  Hypothesis NL : NumLaws L.

  Lemma loss_is_max s real m :
    Coh s -> snd (bloss s real) = Some m ->
    (exists k, In k (kids s) /\ m = loss L k real) /\
    (forall k, In k (kids s) -> nltb L m (loss L k real) = false) /\
    kids (fst (bloss s real)) = kids s.
  Proof.
    intros HC Hm. destruct (bloss_spec real HC) as [H1 [_ H3]]. rewrite H3 in Hm.
    apply pymax_spec in Hm; [|apply (ngt_asym NL)|apply (ngt_ntrans NL)].
    destruct Hm as [Hin Hmax]. split; [|split; [|exact H1]].
    - apply in_map_iff in Hin as [k [E Hk]]. eauto.
    - intros k Hk. apply (Hmax (loss L k real)). apply in_map_iff. eauto.
  Qed.
End Coh.
