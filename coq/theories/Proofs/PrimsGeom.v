(* Proofs about the traced determinant / norm / circumsphere kernels of
   triangulation.py (gen/Prims.v). *)
From Coq Require Import Reals Lra Psatz Bool.
From AV Require Import Model.PrimsBase Model.PrimsSpec Proofs.PrimsLemmas.
From AVGen Require Import Prims.
Local Open Scope R_scope.

Lemma fast_det2_leibniz : forall a b c d, fast_det2 a b c d = det2 a b c d.
Proof. intros; unfold fast_det2, det2; ring. Qed.

Lemma fast_det3_leibniz : forall a b c d e f g h i,
  fast_det3 a b c d e f g h i = det3 a b c d e f g h i.
Proof. intros; unfold fast_det3, det3; ring. Qed.

Lemma sum_sq_nonneg2 a b : 0 <= a * a + b * b. Proof. nra. Qed.
Lemma sum_sq_nonneg3 a b c : 0 <= a * a + b * b + c * c. Proof. nra. Qed.
Lemma sum_sq_nonneg4 a b c d : 0 <= a * a + b * b + c * c + d * d. Proof. nra. Qed.

Lemma fast_norm2_spec : forall a b,
  0 <= fast_norm2 a b /\ fast_norm2 a b * fast_norm2 a b = a * a + b * b.
Proof.
  intros; unfold fast_norm2; split; [apply sqrt_pos|].
  apply sqrt_sqrt, sum_sq_nonneg2.
Qed.

Lemma fast_norm3_spec : forall a b c,
  0 <= fast_norm3 a b c /\ fast_norm3 a b c * fast_norm3 a b c = a * a + b * b + c * c.
Proof.
  intros; unfold fast_norm3; split; [apply sqrt_pos|].
  apply sqrt_sqrt, sum_sq_nonneg3.
Qed.

Lemma fast_norm4_spec : forall a b c d,
  0 <= fast_norm4 a b c d /\
  fast_norm4 a b c d * fast_norm4 a b c d = a * a + b * b + c * c + d * d.
Proof.
  intros; unfold fast_norm4; split; [apply sqrt_pos|].
  apply sqrt_sqrt, sum_sq_nonneg4.
Qed.

(* ---- circumcircle, 2D ---- *)
Lemma fast_2d_circumcircle_spec : forall ax ay bx b_y cx cy,
  det2 (bx - ax) (b_y - ay) (cx - ax) (cy - ay) <> 0 ->
  let '((ox, oy), r) := fast_2d_circumcircle ax ay bx b_y cx cy in
  0 <= r /\
  dist2_2 ox oy ax ay = r * r /\ dist2_2 ox oy bx b_y = r * r /\ dist2_2 ox oy cx cy = r * r.
Proof.
  intros ax ay bx b_y cx cy H. unfold det2 in H.
  unfold fast_2d_circumcircle; cbv zeta.
  split; [apply sqrt_pos|].
  rewrite sqrt_sqrt by apply sum_sq_nonneg2.
  unfold dist2_2, sq. repeat split; field; lra.
Qed.

(* ---- circumsphere: dimension 3 (closed form) ---- *)
Ltac rel x p q := set (x := p - q) in *;
  let E := fresh "E" in assert (E : p = q + x) by (unfold x; ring); clearbody x; subst p.

Lemma fast_3d_circumcircle_spec : forall ax ay az bx b_y bz cx cy cz dx dy dz,
  det3 (bx - ax) (b_y - ay) (bz - az) (cx - ax) (cy - ay) (cz - az) (dx - ax) (dy - ay) (dz - az) <> 0 ->
  let '((ox, oy, oz), r) := fast_3d_circumcircle ax ay az bx b_y bz cx cy cz dx dy dz in
  0 <= r /\
  dist2_3 ox oy oz ax ay az = r * r /\ dist2_3 ox oy oz bx b_y bz = r * r /\
  dist2_3 ox oy oz cx cy cz = r * r /\ dist2_3 ox oy oz dx dy dz = r * r.
Proof.
  intros ax ay az bx b_y bz cx cy cz dx dy dz H. unfold det3 in H.
  unfold fast_3d_circumcircle; cbv zeta.
  rel x1 bx ax. rel y1 b_y ay. rel z1 bz az.
  rel x2 cx ax. rel y2 cy ay. rel z2 cz az.
  rel x3 dx ax. rel y3 dy ay. rel z3 dz az.
  split; [apply sqrt_pos|].
  rewrite sqrt_sqrt by apply sum_sq_nonneg3.
  unfold dist2_3, sq.
  repeat split; field; lra.
Qed.

(* circumsphere dispatches to the closed forms in dimensions 2 and 3 *)
Lemma circumsphere2_is_fast : forall ax ay bx b_y cx cy,
  circumsphere2 ax ay bx b_y cx cy = fast_2d_circumcircle ax ay bx b_y cx cy.
Proof. reflexivity. Qed.
Lemma circumsphere3_is_fast : forall ax ay az bx b_y bz cx cy cz dx dy dz,
  circumsphere3 ax ay az bx b_y bz cx cy cz dx dy dz = fast_3d_circumcircle ax ay az bx b_y bz cx cy cz dx dy dz.
Proof. reflexivity. Qed.

(* general (determinant) path: dimension 1 (dimension 4 is in PrimsCircum4.v) *)
Lemma circumsphere1_spec : forall a b, a <> b ->
  let '(o, r) := circumsphere1 a b in 0 <= r /\ sq (o - a) = r * r /\ sq (o - b) = r * r.
Proof.
  intros a b H. unfold circumsphere1; cbv zeta.
  split; [apply sqrt_pos|].
  match goal with |- context [sqrt (?x * ?x)] => rewrite (sqrt_sqrt (x * x)) by (apply Rle_0_sqr) end.
  unfold sq; split; field; lra.
Qed.

(* ---- point in simplex ---- *)
Lemma fast_2d_point_in_simplex_spec : forall px py ax ay bx b_y cx cy eps a b,
  det2 (bx - ax) (b_y - ay) (cx - ax) (cy - ay) <> 0 ->
  px = ax + a * (bx - ax) + b * (cx - ax) ->
  py = ay + a * (b_y - ay) + b * (cy - ay) ->
  (fast_2d_point_in_simplex px py ax ay bx b_y cx cy eps = true <->
   - eps <= a /\ a <= 1 + eps /\ - eps <= b /\ a + b <= 1 + eps).
Proof.
  intros px py ax ay bx b_y cx cy eps a b H -> ->. unfold det2 in H.
  unfold fast_2d_point_in_simplex; cbv zeta.
  repeat match goal with |- context [Rltb (- eps) ?x] => 
     first [ progress (replace x with a by (field; lra)) | progress (replace x with b by (field; lra)) ] end.
  repeat match goal with |- context [Rltb ?x (- eps)] => 
     first [ progress (replace x with a by (field; lra)) | progress (replace x with b by (field; lra)) ] end.
  repeat match goal with |- context [Rleb (- eps) ?x] => 
     first [ progress (replace x with a by (field; lra)) | progress (replace x with b by (field; lra)) ] end.
  rcase; split; intros; try discriminate; try reflexivity; try lra.
Qed.

Lemma point_in_simplex2_is_fast : forall px py ax ay bx b_y cx cy eps,
  point_in_simplex2 px py ax ay bx b_y cx cy eps = fast_2d_point_in_simplex px py ax ay bx b_y cx cy eps.
Proof. reflexivity. Qed.

Lemma point_in_simplex3_spec : forall q0 q1 q2 a0 a1 a2 b0 b1 b2 c0 c1 c2 d0 d1 d2 eps u v w,
  det3 (b0 - a0) (b1 - a1) (b2 - a2) (c0 - a0) (c1 - a1) (c2 - a2) (d0 - a0) (d1 - a1) (d2 - a2) <> 0 ->
  q0 = a0 + u * (b0 - a0) + v * (c0 - a0) + w * (d0 - a0) ->
  q1 = a1 + u * (b1 - a1) + v * (c1 - a1) + w * (d1 - a1) ->
  q2 = a2 + u * (b2 - a2) + v * (c2 - a2) + w * (d2 - a2) ->
  (point_in_simplex3 q0 q1 q2 a0 a1 a2 b0 b1 b2 c0 c1 c2 d0 d1 d2 eps = true <->
   - eps < u /\ - eps < v /\ - eps < w /\ u + v + w < 1 + eps).
Proof.
  intros q0 q1 q2 a0 a1 a2 b0 b1 b2 c0 c1 c2 d0 d1 d2 eps u v w H -> -> ->. unfold det3 in H.
  unfold point_in_simplex3; cbv zeta.
  repeat match goal with |- context [Rltb (- eps) ?x] =>
     first [ progress (replace x with u by (field; lra)) | progress (replace x with v by (field; lra))
           | progress (replace x with w by (field; lra)) ] end.
  rcase; split; intros; try discriminate; try reflexivity; try lra.
Qed.

(* ---- orientation ---- *)
Lemma ln_abs_lt_iff d c : d <> 0 -> (ln (Rabs d) < c <-> Rabs d < exp c).
Proof.
  intros Hd. assert (0 < Rabs d) by (apply Rabs_pos_lt; assumption).
  split; intros Hl.
  - rewrite <- (exp_ln (Rabs d)) by assumption. apply exp_increasing; assumption.
  - rewrite <- (ln_exp c). apply ln_increasing; assumption.
Qed.

Lemma ln_zero : ln 0 = 0.
Proof. unfold ln. destruct (Rlt_dec 0 0) as [r|r]; [exfalso; apply (Rlt_irrefl 0 r)|reflexivity]. Qed.

Lemma orientation_core d :
  (if Rltb (ln (Rabs d)) (-50) then 0 else sgnR d) = (if Rltb (Rabs d) (exp (-50)) then 0 else sgnR d).
Proof.
  destruct (Req_dec d 0) as [->|Hd].
  - rewrite Rabs_R0, ln_zero, sgnR_zero. destruct (Rltb 0 (-50)), (Rltb 0 (exp (-50))); reflexivity.
  - pose proof (ln_abs_lt_iff d (-50) Hd) as [A B].
    destruct (Rltb_spec (ln (Rabs d)) (-50)), (Rltb_spec (Rabs d) (exp (-50))); tauto.
Qed.

Lemma orientation2_spec : forall f0 f1 g0 g1 o0 o1,
  let d := det2 (f0 - o0) (f1 - o1) (g0 - o0) (g1 - o1) in
  orientation2 f0 f1 g0 g1 o0 o1 = if Rltb (Rabs d) (exp (-50)) then 0 else sgnR d.
Proof.
  intros. rewrite <- orientation_core. unfold orientation2; cbv zeta.
  match goal with |- context [sgnR ?x] => replace x with d by (unfold d, det2; ring) end.
  reflexivity.
Qed.

Lemma orientation3_spec : forall f0 f1 f2 g0 g1 g2 h0 h1 h2 o0 o1 o2,
  let d := det3 (f0 - o0) (f1 - o1) (f2 - o2) (g0 - o0) (g1 - o1) (g2 - o2) (h0 - o0) (h1 - o1) (h2 - o2) in
  orientation3 f0 f1 f2 g0 g1 g2 h0 h1 h2 o0 o1 o2 = if Rltb (Rabs d) (exp (-50)) then 0 else sgnR d.
Proof.
  intros. rewrite <- orientation_core. unfold orientation3; cbv zeta.
  match goal with |- context [sgnR ?x] => replace x with d by (unfold d, det3; ring) end.
  reflexivity.
Qed.
