(* Proofs about the traced determinant / norm / circumsphere kernels of
   triangulation.py (gen/Prims.v). *)
From Coq Require Import Reals Lra Psatz.
From AV Require Import Model.PrimsBase Proofs.PrimsLemmas.
From AVGen Require Import Prims.
Local Open Scope R_scope.

(* ---- independent reference definitions (written from the property text) ---- *)
Definition det2 (a b c d : R) : R := a * d - b * c.
Definition det3 (a b c d e f g h i : R) : R :=
  a * e * i + b * f * g + c * d * h - c * e * g - b * d * i - a * f * h.   (* Leibniz *)
Definition sq (x : R) : R := x * x.
Definition dist2_2 (ax ay bx b_y : R) : R := sq (ax - bx) + sq (ay - b_y).
Definition dist2_3 (ax ay az bx b_y bz : R) : R := sq (ax - bx) + sq (ay - b_y) + sq (az - bz).

Lemma fast_det2_leibniz : forall a b c d, fast_det2 a b c d = det2 a b c d.
Proof. intros; unfold fast_det2, det2; ring. Qed.

Lemma fast_det3_leibniz : forall a b c d e f g h i,
  fast_det3 a b c d e f g h i = det3 a b c d e f g h i.
Proof. intros; unfold fast_det3, det3; ring. Qed.

Lemma sum_sq_nonneg2 a b : 0 <= a * a + b * b. Proof. nra. Qed.
Lemma sum_sq_nonneg3 a b c : 0 <= a * a + b * b + c * c. Proof. nra. Qed.
Lemma sum_sq_nonneg4 a b c d : 0 <= a * a + b * b + c * c + d * d. Proof. nra. Qed.

Lemma fast_norm2_spec : forall a b,
  0 <= fast_norm2 a b /\ fast_norm2 a b * fast_norm2 a b = a * a + b * b.
Proof.
  intros; unfold fast_norm2; split; [apply sqrt_pos|].
  apply sqrt_sqrt, sum_sq_nonneg2.
Qed.

Lemma fast_norm3_spec : forall a b c,
  0 <= fast_norm3 a b c /\ fast_norm3 a b c * fast_norm3 a b c = a * a + b * b + c * c.
Proof.
  intros; unfold fast_norm3; split; [apply sqrt_pos|].
  apply sqrt_sqrt, sum_sq_nonneg3.
Qed.

Lemma fast_norm4_spec : forall a b c d,
  0 <= fast_norm4 a b c d /\
  fast_norm4 a b c d * fast_norm4 a b c d = a * a + b * b + c * c + d * d.
Proof.
  intros; unfold fast_norm4; split; [apply sqrt_pos|].
  apply sqrt_sqrt, sum_sq_nonneg4.
Qed.

(* ---- circumcircle, 2D ---- *)
Lemma fast_2d_circumcircle_spec : forall ax ay bx b_y cx cy,
  det2 (bx - ax) (b_y - ay) (cx - ax) (cy - ay) <> 0 ->
  let '((ox, oy), r) := fast_2d_circumcircle ax ay bx b_y cx cy in
  0 <= r /\
  dist2_2 ox oy ax ay = r * r /\ dist2_2 ox oy bx b_y = r * r /\ dist2_2 ox oy cx cy = r * r.
Proof.
  intros ax ay bx b_y cx cy H. unfold det2 in H.
  unfold fast_2d_circumcircle; cbv zeta.
  split; [apply sqrt_pos|].
  rewrite sqrt_sqrt by apply sum_sq_nonneg2.
  unfold dist2_2, sq. repeat split; field; lra.
Qed.
