(* Executable model of adaptive/learner/balancing_learner.py (BalancingLearner)
   over a list of abstract child learners of one type [L : Learner].
   Mirrors the code as it is; the boolean [repaired] switches to the repaired
   behaviour of fixes/F2_balancing_caches.patch:
     tell_pending      additionally pops _pending_loss[index]
     remove_unfinished additionally empties the three caches.
   Python exceptions (IndexError from points[0] on an empty answer, from
   learners[index], ValueError from max([]) / argmin([])) set the sticky flag
   [failed]; nothing is claimed about a failed state.
   Python dicts indexed by the child index are functions nat -> option.
   No proofs here. *)
From AV Require Import Base.Prelude Model.GenericLearner.
Set Implicit Arguments.

Inductive strategy := SImp | SLoss | SNpoints | SCycle.

Definition strategy_eqb (a b : strategy) : bool :=
  match a, b with
  | SImp, SImp | SLoss, SLoss | SNpoints, SNpoints | SCycle, SCycle => true
  | _, _ => false
  end.

(* dict[int] -> A *)
Definition fset {A} (f : nat -> option A) (i : nat) (v : option A) : nat -> option A :=
  fun j => if j =? i then v else f j.
Definition fempty {A} : nat -> option A := fun _ => None.

Fixpoint list_set {A} (i : nat) (x : A) (l : list A) : list A :=
  match l, i with
  | [], _ => []
  | _ :: t, 0 => x :: t
  | h :: t, S i' => h :: list_set i' x t
  end.

Fixpoint list_inc (i : nat) (l : list nat) : list nat :=
  match l, i with
  | [], _ => []
  | h :: t, 0 => S h :: t
  | h :: t, S i' => h :: list_inc i' t
  end.

(* Python's max(iterable, key=...): the FIRST maximal element; [gt a b] is
   "key(a) > key(b)". *)
Fixpoint pymax_from {A} (gt : A -> A -> bool) (best : A) (l : list A) : A :=
  match l with
  | [] => best
  | x :: l' => pymax_from gt (if gt x best then x else best) l'
  end.
Definition pymax {A} (gt : A -> A -> bool) (l : list A) : option A :=
  match l with [] => None | x :: l' => Some (pymax_from gt x l') end.

(* index of the first maximal element (max(enumerate(...)), np.argmin) *)
Fixpoint argmax_from {A} (gt : A -> A -> bool) (bi : nat) (bk : A) (i : nat) (l : list A) : nat :=
  match l with
  | [] => bi
  | k :: l' => if gt k bk then argmax_from gt i k (S i) l' else argmax_from gt bi bk (S i) l'
  end.
Definition argmax {A} (gt : A -> A -> bool) (l : list A) : option nat :=
  match l with [] => None | k :: l' => Some (argmax_from gt 0 k 1 l') end.

Section Balancing.
  Variable L : Learner.
  Variable repaired : bool.

  Definition answer := (list (point L) * list (num L))%type.

  Record bst := mk {
    kids : list (state L);                    (* self.learners *)
    acache : nat -> option answer;            (* self._ask_cache *)
    lcache : nat -> option (num L);           (* self._loss *)
    pcache : nat -> option (num L);           (* self._pending_loss *)
    strat : strategy;                         (* self._strategy / self._ask_and_tell *)
    cyc : nat;                                (* next value of self._cycle *)
    failed : bool
  }.

  Definition init (ks : list (state L)) (st : strategy) : bst :=
    mk ks fempty fempty fempty st 0 false.

  Definition with_kids (s : bst) (ks : list (state L)) : bst :=
    mk ks (acache s) (lcache s) (pcache s) (strat s) (cyc s) (failed s).
  Definition with_acache (s : bst) (c : nat -> option answer) : bst :=
    mk (kids s) c (lcache s) (pcache s) (strat s) (cyc s) (failed s).
  Definition fail (s : bst) : bst :=
    mk (kids s) (acache s) (lcache s) (pcache s) (strat s) (cyc s) true.

  (* strategy.setter *)
  Definition set_strategy (s : bst) (st : strategy) : bst :=
    mk (kids s) (acache s) (lcache s) (pcache s) st
       (match st with SCycle => 0 | _ => cyc s end) (failed s).

  (* def tell(self, x, y) *)
  Definition tell (s : bst) (i : nat) (x : point L) (y : value L) : bst :=
    let s1 := mk (kids s) (fset (acache s) i None) (fset (lcache s) i None)
                 (fset (pcache s) i None) (strat s) (cyc s) (failed s) in
    match nth_error (kids s) i with
    | Some k => with_kids s1 (list_set i (GenericLearner.tell L k x y) (kids s))
    | None => fail s1
    end.

  (* def tell_pending(self, x): pops _ask_cache and _loss -- and, only when
     repaired, _pending_loss *)
  Definition tell_pending (s : bst) (i : nat) (x : point L) : bst :=
    let s1 := mk (kids s) (fset (acache s) i None) (fset (lcache s) i None)
                 (if repaired then fset (pcache s) i None else pcache s)
                 (strat s) (cyc s) (failed s) in
    match nth_error (kids s) i with
    | Some k => with_kids s1 (list_set i (GenericLearner.tell_pending L k x) (kids s))
    | None => fail s1
    end.

  (* def _losses(self, real): "if index not in loss_dict: loss_dict[index] =
     learner.loss(real)"; writing back a value already present is the same
     dict *)
  Fixpoint losses_aux (real : bool) (ks : list (state L)) (i : nat) (c : nat -> option (num L))
    : (nat -> option (num L)) * list (num L) :=
    match ks with
    | [] => (c, [])
    | k :: ks' =>
        let v := match c i with Some v => v | None => loss L k real end in
        let '(c', vs) := losses_aux real ks' (S i) (fset c i (Some v)) in
        (c', v :: vs)
    end.

  Definition losses (s : bst) (real : bool) : bst * list (num L) :=
    let '(c, vs) := losses_aux real (kids s) 0 (if real then lcache s else pcache s) in
    (mk (kids s) (acache s) (if real then c else lcache s) (if real then pcache s else c)
        (strat s) (cyc s) (failed s), vs).

  Definition ngt (a b : num L) : bool := nltb L b a.       (* a > b *)

  (* def loss(self, real): max(self._losses(real)) *)
  Definition bloss (s : bst) (real : bool) : bst * option (num L) :=
    let '(s1, vs) := losses s real in
    match pymax ngt vs with
    | Some v => (s1, Some v)
    | None => (fail s1, None)
    end.

  (* keys (x, -total_points): Python tuple comparison, ">" *)
  Definition kgt (a b : num L * nat) : bool :=
    if neqb L (fst a) (fst b) then snd a <? snd b else nltb L (fst b) (fst a).

  Definition total_points (s : bst) : list nat :=
    map (fun k => npoints L k + length (pending L k)) (kids s).

  (* one selected item: ((index, point), loss_improvement) *)
  Definition sel := ((nat * point L) * num L)%type.
  (* a loop body returns the state and, unless it raised, the new
     total_points and the selected item *)
  Definition body_t := bst -> list nat -> bst * option (list nat * sel).

  (* ---- _ask_and_tell_based_on_loss_improvements: the inner for-loop --- *)
  Fixpoint imp_scan (ks : list (state L)) (i : nat) (c : nat -> option answer) (tp : list nat)
    : (list (state L) * (nat -> option answer)) * option (list ((nat * point L) * (num L * nat))) :=
    match ks with
    | [] => (([], c), Some [])
    | k :: ks' =>
        let '(a, k') := match c i with
                        | Some a => (a, k)
                        | None => ask L k 1 false          (* learner.ask(n=1, tell_pending=False) *)
                        end in
        let c' := fset c i (Some a) in
        match a with
        | (p :: _, v :: _) =>
            let '((ks'', c''), r) := imp_scan ks' (S i) c' tp in
            ((k' :: ks'', c''), option_map (cons ((i, p), (v, nth i tp 0))) r)
        | _ => ((k' :: ks', c'), None)                      (* points[0]: IndexError *)
        end
    end.

  Definition imp_body : body_t := fun s tp =>
    let '((ks, c), r) := imp_scan (kids s) 0 (acache s) tp in
    let s1 := with_acache (with_kids s ks) c in
    match r with
    | None => (s1, None)
    | Some to_select =>
        match pymax (fun a b => kgt (snd a) (snd b)) to_select with
        | None => (s1, None)
        | Some ((i, p), (v, _)) => (tell_pending s1 i p, Some (list_inc i tp, ((i, p), v)))
        end
    end.

  (* "if index not in self._ask_cache: self._ask_cache[index] =
     self.learners[index].ask(n=1)"; then points[0], tell_pending *)
  Definition serve (s : bst) (i : nat) (tp' : list nat) : bst * option (list nat * sel) :=
    match nth_error (kids s) i with
    | None => (s, None)
    | Some k =>
        let '(a, k') := match acache s i with
                        | Some a => (a, k)
                        | None => ask L k 1 true
                        end in
        let s2 := with_acache (with_kids s (list_set i k' (kids s))) (fset (acache s) i (Some a)) in
        match a with
        | (p :: _, v :: _) => (tell_pending s2 i p, Some (tp', ((i, p), v)))
        | _ => (s2, None)
        end
    end.

  (* ---- _ask_and_tell_based_on_loss ---- *)
  Definition loss_body : body_t := fun s tp =>
    let '(s1, vs) := losses s false in
    match argmax kgt (combine vs tp) with
    | None => (s1, None)
    | Some i => serve s1 i (list_inc i tp)
    end.

  (* ---- _ask_and_tell_based_on_npoints: np.argmin(total_points) ---- *)
  Definition np_body : body_t := fun s tp =>
    match argmax (fun a b => a <? b) tp with
    | None => (s, None)
    | Some i => serve s i (list_inc i tp)
    end.

  (* ---- _ask_and_tell_based_on_cycle: no cache ---- *)
  Definition cycle_body : body_t := fun s tp =>
    match kids s with
    | [] => (s, None)                                       (* next() of an empty cycle *)
    | _ :: _ =>
        let i := cyc s in
        let s0 := mk (kids s) (acache s) (lcache s) (pcache s) (strat s)
                     (S i mod length (kids s)) (failed s) in
        match nth_error (kids s) i with
        | None => (s0, None)
        | Some k =>
            let '(a, k') := ask L k 1 true in
            let s2 := with_kids s0 (list_set i k' (kids s)) in
            match a with
            | (p :: _, v :: _) => (tell_pending s2 i p, Some (tp, ((i, p), v)))
            | _ => (s2, None)
            end
        end
    end.

  Definition body_of (st : strategy) : body_t :=
    match st with SImp => imp_body | SLoss => loss_body | SNpoints => np_body | SCycle => cycle_body end.

  (* for _ in range(n): ... *)
  Fixpoint loopn (body : body_t) (n : nat) (s : bst) (tp : list nat) : bst * list sel :=
    match n with
    | 0 => (s, [])
    | S n' =>
        match body s tp with
        | (s1, None) => (fail s1, [])
        | (s1, Some (tp', e)) => let '(s2, r) := loopn body n' s1 tp' in (s2, e :: r)
        end
    end.

  (* specification device: the state and total_points before each successful
     iteration of the loop, with the item it selected *)
  Fixpoint loop_trace (body : body_t) (n : nat) (s : bst) (tp : list nat) : list ((bst * list nat) * sel) :=
    match n with
    | 0 => []
    | S n' =>
        match body s tp with
        | (s1, None) => []
        | (s1, Some (tp', e)) => ((s, tp), e) :: loop_trace body n' s1 tp'
        end
    end.

  Definition ask_and_tell (s : bst) (n : nat) : bst * list sel :=
    loopn (body_of (strat s)) n s (total_points s).

  Fixpoint map2 {A B C} (f : A -> B -> C) (l1 : list A) (l2 : list B) : list C :=
    match l1, l2 with
    | a :: l1', b :: l2' => f a b :: map2 f l1' l2'
    | _, _ => []
    end.

  (* def ask(self, n, tell_pending=True).
     Code as it was (repaired = false, findings F3/F3b): the non-committing
     path restores the children (utils.restore) but neither the caches nor
     _cycle.
     Repaired code (repaired = true; /repo commits 5fc0973, b37ce43): before
     the tentative _ask_and_tell the wrapper snapshots COPIES of its three
     caches and the position of _cycle and puts them back in the finally
     block, next to utils.restore putting back the children; an exception
     still propagates (failed).  With children that are restored exactly
     ([restore old cur = old]) this is the identity on the state with the
     outputs of the committing variant (Proofs/BalancingTentative.v).  That
     the snapshot of each learner type really is exact is property C09 of the
     children, not established here. *)
  Definition bask (s : bst) (n : nat) (commit : bool) : bst * list sel :=
    if n =? 0 then (s, [])
    else if commit then ask_and_tell s n
    else let '(s', r) := ask_and_tell s n in
         if repaired
         then (mk (map2 (restore L) (kids s) (kids s')) (acache s) (lcache s) (pcache s)
                  (strat s) (cyc s) (failed s'), r)
         else (with_kids s' (map2 (restore L) (kids s) (kids s')), r).

  (* def remove_unfinished(self) *)
  Definition bremove_unfinished (s : bst) : bst :=
    let ks := map (remove_unfinished L) (kids s) in
    if repaired then mk ks fempty fempty fempty (strat s) (cyc s) (failed s)
    else with_kids s ks.

  (* ---- aggregated observables ---- *)
  Fixpoint agg {A} (f : state L -> list A) (i : nat) (ks : list (state L)) : list (nat * A) :=
    match ks with
    | [] => []
    | k :: r => map (pair i) (f k) ++ agg f (S i) r
    end.
  Definition bdata (s : bst) : list (nat * (point L * value L)) := agg (data L) 0 (kids s).
  Definition bpending (s : bst) : list (nat * point L) := agg (pending L) 0 (kids s).
  Definition bnpoints (s : bst) : nat := list_sum (map (npoints L) (kids s)).

  (* ---- histories ---- *)
  Inductive op :=
  | Ask (n : nat) (commit : bool)
  | Tell (i : nat) (x : point L) (y : value L)
  | TellPending (i : nat) (x : point L)
  | Loss (real : bool)
  | RemoveUnfinished
  | SetStrategy (st : strategy).

  Inductive out :=
  | OAsk (pts : list (nat * point L)) (imps : list (num L))
  | OLoss (v : num L)
  | ONone
  | OErr.

  (* what each operation does to the state *)
  Definition step_state (s : bst) (o : op) : bst :=
    match o with
    | Ask n c => fst (bask s n c)
    | Tell i x y => tell s i x y
    | TellPending i x => tell_pending s i x
    | Loss real => fst (bloss s real)
    | RemoveUnfinished => bremove_unfinished s
    | SetStrategy st => set_strategy s st
    end.

  Definition step_out (s : bst) (o : op) : out :=
    match o with
    | Ask n c => let sl := snd (bask s n c) in OAsk (map fst sl) (map snd sl)
    | Loss real => match snd (bloss s real) with Some v => OLoss v | None => OErr end
    | _ => ONone
    end.

  (* a failed state (an exception escaped) is absorbing: the model stops *)
  Definition step (s : bst) (o : op) : bst * out :=
    if failed s then (s, OErr)
    else let s' := step_state s o in
         (s', if failed s' then OErr else step_out s o).

  Definition run (s : bst) (h : list op) : bst := fold_left (fun s o => fst (step s o)) h s.

  (* histories of committing asks only: the domain of the theorems that also
     hold of the code as it was (there the non-committing ask leaks, F3);
     the theorems about the repaired model hold for ALL histories *)
  Definition legal_op (o : op) : bool :=
    match o with Ask _ c => c | _ => true end.
  Definition legal (h : list op) : bool := forallb legal_op h.
End Balancing.

Arguments Ask {L}. Arguments Tell {L}. Arguments TellPending {L}. Arguments Loss {L}.
Arguments RemoveUnfinished {L}. Arguments SetStrategy {L}.
Arguments OAsk {L}. Arguments OLoss {L}. Arguments ONone {L}. Arguments OErr {L}.
