(* Executable model of the bookkeeping of adaptive/learner/learnerND.py (class
   LearnerND) on top of the combinatorial triangulation model Model/Tri.v.

   Points are ids (nat) chosen by the harness; the evaluated values never
   appear: everything numeric is an oracle carried by the operation
     - the loss of a simplex (_compute_loss), simplex volumes (Triangulation.volume),
     - inside_bounds, locate_point, point_in_simplex, the predicates of every
       add_point on the main triangulation and on the sub-triangulations,
     - the outcome of every attempt to build the triangulation from the data
       (scipy's Delaunay / the rank test of Triangulation.__init__),
     - whether _update_range decided to recompute all losses,
     - the point returned by choose_point_in_simplex / the random bootstrap point.
   Loss values live in an abstract type [L] with the arithmetic the code does
   on them (vol * (loss / vol), abs, inf, max) and the rounding of the queue
   key ([rnd] stands for round(loss, 8), as an integer number of 1e-8).
   For execution L is instantiated by binary64 (Run/LNDRun.v).

   [repaired] selects the behaviour of remove_unfinished: [false] = the code
   as it is (finding F5: subdivided simplices are not put back into the
   queue), [true] = with fixes/F5_learnernd_remove_unfinished.patch.
   No proofs here. *)
From Coq Require Import ZArith.
From AV Require Import Base.Prelude Model.Tri.
Set Implicit Arguments.

Section LND.
  Variable L : Type.
  Variables (lmul ldiv : L -> L -> L) (labs : L -> L) (linf : L).
  Variable rnd : L -> Z.                 (* round(loss, 8) / 1e-8 *)
  Variable lltb : L -> L -> bool.        (* Python's < on losses, for max() *)

  Variable d : nat.                      (* dimension *)
  Variable corners : list nat.           (* _bounds_points, sorted; ids of the corner points *)
  Variable repaired : bool.              (* fixes/F5_learnernd_remove_unfinished.patch applied *)
  Variable fix12 : bool.                 (* fixes/F12_learnernd_pending_on_shared_face.patch applied *)

  Definition entry := (L * simplex * option simplex)%type.   (* (loss, simplex, subsimplex) *)

  Inductive err := EAlready | ENoSimplex | EOther.

  Record lnd := mkL {
    l_data : list nat;                          (* data: evaluated points in insertion order *)
    l_pend : list nat;                          (* pending_points *)
    l_tri : option (tri nat);                   (* _tri *)
    l_losses : list (simplex * L);              (* _losses *)
    l_subs : list (simplex * tri nat);          (* _subtriangulations *)
    l_queue : list entry;                       (* _simplex_queue, sorted by its key *)
    (* per-operation oracle streams and error flag *)
    l_tris : list (option (list simplex));      (* outcomes of the next attempts to build the triangulation *)
    l_choose : list nat;                        (* next points produced by choose_point / random bootstrap *)
    l_err : option err;                         (* the current operation has raised *)
    l_ok : bool                                 (* ghost: so far no operation raised, and every point chosen in an
                                                   unsubdivided simplex did subdivide it (point_in_simplex said yes) *)
  }.

  Definition init_lnd : lnd := mkL [] [] None [] [] [] [] [] None true.

  Record env := mkenv {
    e_inb : nat -> bool;                        (* inside_bounds(point) *)
    e_tris : list (option (list simplex));
    e_choose : list nat;
    e_main : orc;                               (* predicates of tri.add_point in tell *)
    e_hint : option simplex;                    (* hint passed to it: _pending_to_simplex, if it still exists *)
    e_rescale : bool;                           (* _update_range recomputed all losses *)
    e_loss : simplex -> L;                      (* _compute_loss(simplex) *)
    e_vol : simplex -> L;                       (* tri.volume(simplex) *)
    e_svol : simplex -> simplex -> L;           (* _subtriangulations[simplex].volume(subsimplex) *)
    e_pis : nat -> simplex -> bool;             (* tri.point_in_simplex(point, simplex) *)
    e_sub : nat -> simplex -> orc;              (* predicates of _subtriangulations[simplex].add_point(point) *)
    e_locate : nat -> simplex;                  (* tri.locate_point(point) in tell_pending *)
    e_order : list nat                          (* iteration order of the Python set of unbound pending points *)
  }.

  (* ---------------- small dictionaries ---------------- *)
  Fixpoint sassoc {A} (k : simplex) (l : list (simplex * A)) : option A :=
    match l with
    | [] => None
    | (k', v) :: l' => if simplex_eqb k k' then Some v else sassoc k l'
    end.
  Definition sdel {A} (k : simplex) (l : list (simplex * A)) : list (simplex * A) :=
    filter (fun kv => negb (simplex_eqb k (fst kv))) l.
  Fixpoint sset {A} (k : simplex) (v : A) (l : list (simplex * A)) : list (simplex * A) :=
    match l with
    | [] => [(k, v)]
    | (k', v') :: l' => if simplex_eqb k k' then (k, v) :: l' else (k', v') :: sset k v l'
    end.
  Definition skeys {A} (l : list (simplex * A)) : list simplex := map fst l.
  Definition shas {A} (k : simplex) (l : list (simplex * A)) : bool :=
    match sassoc k l with Some _ => true | None => false end.

  (* ---------------- the queue ---------------- *)
  Fixpoint lex_leb (a b : list nat) : bool :=        (* Python tuple comparison a <= b *)
    match a, b with
    | [], _ => true
    | _ :: _, [] => false
    | x :: a', y :: b' => if x <? y then true else if x =? y then lex_leb a' b' else false
    end.
  Definition sub_key (o : option simplex) : simplex := match o with Some s => s | None => [0] end.
  (* key(e1) <= key(e2) for key = (-round(loss, 8), simplex, subsimplex or (0,)) *)
  Definition key_leb (e1 e2 : entry) : bool :=
    let '(l1, s1, u1) := e1 in let '(l2, s2, u2) := e2 in
    let k1 := Z.opp (rnd l1) in let k2 := Z.opp (rnd l2) in
    if (k1 <? k2)%Z then true
    else if (k1 =? k2)%Z then
      if simplex_eqb s1 s2 then lex_leb (sub_key u1) (sub_key u2) else lex_leb s1 s2
    else false.
  (* SortedKeyList.add: after the entries whose key is <= the new key *)
  Fixpoint queue_add (e : entry) (q : list entry) : list entry :=
    match q with
    | [] => [e]
    | x :: q' => if key_leb x e then x :: queue_add e q' else e :: q
    end.

  (* ---------------- setters ---------------- *)
  Definition set_err (s : lnd) (e : err) : lnd :=
    mkL (l_data s) (l_pend s) (l_tri s) (l_losses s) (l_subs s) (l_queue s) (l_tris s) (l_choose s) (Some e) (l_ok s).
  Definition set_queue (s : lnd) (q : list entry) : lnd :=
    mkL (l_data s) (l_pend s) (l_tri s) (l_losses s) (l_subs s) q (l_tris s) (l_choose s) (l_err s) (l_ok s).
  Definition set_losses (s : lnd) (x : list (simplex * L)) : lnd :=
    mkL (l_data s) (l_pend s) (l_tri s) x (l_subs s) (l_queue s) (l_tris s) (l_choose s) (l_err s) (l_ok s).
  Definition set_subs (s : lnd) (x : list (simplex * tri nat)) : lnd :=
    mkL (l_data s) (l_pend s) (l_tri s) (l_losses s) x (l_queue s) (l_tris s) (l_choose s) (l_err s) (l_ok s).
  Definition set_tri (s : lnd) (x : option (tri nat)) : lnd :=
    mkL (l_data s) (l_pend s) x (l_losses s) (l_subs s) (l_queue s) (l_tris s) (l_choose s) (l_err s) (l_ok s).
  Definition set_pend (s : lnd) (x : list nat) : lnd :=
    mkL (l_data s) x (l_tri s) (l_losses s) (l_subs s) (l_queue s) (l_tris s) (l_choose s) (l_err s) (l_ok s).
  Definition set_data (s : lnd) (x : list nat) : lnd :=
    mkL x (l_pend s) (l_tri s) (l_losses s) (l_subs s) (l_queue s) (l_tris s) (l_choose s) (l_err s) (l_ok s).
  Definition set_tris (s : lnd) (x : list (option (list simplex))) : lnd :=
    mkL (l_data s) (l_pend s) (l_tri s) (l_losses s) (l_subs s) (l_queue s) x (l_choose s) (l_err s) (l_ok s).
  Definition set_choose (s : lnd) (x : list nat) : lnd :=
    mkL (l_data s) (l_pend s) (l_tri s) (l_losses s) (l_subs s) (l_queue s) (l_tris s) x (l_err s) (l_ok s).
  Definition set_ok (s : lnd) (x : bool) : lnd :=
    mkL (l_data s) (l_pend s) (l_tri s) (l_losses s) (l_subs s) (l_queue s) (l_tris s) (l_choose s) (l_err s) x.
  Definition failed (s : lnd) : bool := match l_err s with Some _ => true | None => false end.

  (* a Python set given as a list: iterate every element once *)
  Definition dedup (l : list simplex) : list simplex := fold_left (fun acc x => sadd x acc) l [].

  Definition wf_simplices (n : nat) (ss : list simplex) : bool :=
    forallb (fun sp => forallb (fun v => v <? n) sp) ss.

  Section WithEnv.
    Variable E : env.

    Definition cur_simplices (s : lnd) : list simplex :=
      match l_tri s with Some t => simplices t | None => [] end.

    (* _update_subsimplex_losses(simplex, new_subsimplices) *)
    Definition update_subsimplex_losses (s : lnd) (sp : simplex) (news : list simplex) : lnd :=
      match sassoc sp (l_losses s) with
      | None => set_err s EOther                                   (* KeyError *)
      | Some loss =>
          let dens := ldiv loss (e_vol E sp) in
          set_queue s (fold_left (fun q u => queue_add (lmul (e_svol E sp u) dens, sp, Some u) q) news (l_queue s))
      end.

    (* Triangulation(vertices) of a simplex: the vertices, one simplex 0..d *)
    Definition fresh_subtri (t : tri nat) (sp : simplex) : tri nat :=
      init (map (fun i => nth i (verts t) 0) sp) [seq 0 (d + 1)].

    (* _try_adding_pending_point_to_simplex(point, simplex); result: the added sub-simplices *)
    Definition try_adding (s : lnd) (p : nat) (sp : simplex) : lnd * option (list simplex) :=
      if failed s then (s, None) else
      match l_tri s with
      | None => (s, None)
      | Some t =>
          if negb (e_pis E p sp) then (s, None)
          else
            let st := match sassoc sp (l_subs s) with Some st => st | None => fresh_subtri t sp end in
            let '(st', o) := add_point d st p None (e_sub E p sp) in
            let s' := set_subs s (sset sp st' (l_subs s)) in
            match o with
            | Accepted _ add => (s', Some add)
            | Rejected AlreadyVertex => (set_err s' EAlready, None)
            | _ => (set_err s' EOther, None)
            end
      end.

    (* _update_losses(to_delete, to_add) with nth_neighbors = 0 *)
    Definition unbound_of (s : lnd) (del : list simplex) : list nat :=
      let vs := flat_map (fun sp => match sassoc sp (l_subs s) with Some st => verts st | None => [] end) del in
      let u := fold_left (fun acc v => if nat_mem v (l_data s) then acc else nat_insert v acc) vs [] in
      let u := if fix12 then fold_left (fun acc v => nat_insert v acc) (l_pend s) u else u in
      filter (fun p => nat_mem p u) (e_order E) ++ filter (fun p => negb (nat_mem p (e_order E))) u.

    Definition add_one_simplex (unbound : list nat) (s : lnd) (sp : simplex) : lnd :=
      if failed s then s else
      let loss := e_loss E sp in
      let s1 := set_losses s (sset sp loss (l_losses s)) in
      let s2 := fold_left (fun a p => fst (try_adding a p sp)) unbound s1 in
      if failed s2 then s2 else
      match sassoc sp (l_subs s2) with
      | None => set_queue s2 (queue_add (loss, sp, None) (l_queue s2))
      | Some st => update_subsimplex_losses s2 sp (simplices st)
      end.

    Definition update_losses (s : lnd) (del add : list simplex) : lnd :=
      let unbound := unbound_of s del in
      let s1 := set_subs (set_losses s (fold_left (fun a sp => sdel sp a) del (l_losses s)))
                         (fold_left (fun a sp => sdel sp a) del (l_subs s)) in
      fold_left (add_one_simplex unbound) (dedup add) s1.

    (* the [tri] property: build the triangulation from the data when there is none *)
    Definition touch (s : lnd) : lnd :=
      if failed s then s else
      match l_tri s with
      | Some _ => s
      | None =>
          match l_tris s with
          | [] => s
          | None :: r => set_tris s r
          | Some ss :: r =>
              if negb (wf_simplices (length (l_data s)) ss) then set_err (set_tris s r) EOther   (* never: scipy indexes the data *)
              else
              let t := init (l_data s) ss in
              update_losses (set_tri (set_tris s r) (Some t)) [] (simplices t)
          end
      end.

    (* _recompute_all_losses *)
    Definition recompute_one (s : lnd) (sp : simplex) : lnd :=
      if failed s then s else
      let loss := e_loss E sp in
      let s1 := set_losses s (sset sp loss (l_losses s)) in
      match sassoc sp (l_subs s1) with
      | None => set_queue s1 (queue_add (loss, sp, None) (l_queue s1))
      | Some st => update_subsimplex_losses s1 sp (simplices st)
      end.
    Definition recompute_all (s : lnd) : lnd :=
      let s := touch s in
      match l_tri s with
      | None => s
      | Some t => fold_left recompute_one (simplices t) (set_queue s [])
      end.

    (* tell_pending(point, simplex=...) *)
    Definition tell_pending (s : lnd) (p : nat) (hint : option simplex) : lnd :=
      if failed s then s else
      if negb (e_inb E p) then s else
      let s := touch (set_pend s (nat_insert p (l_pend s))) in
      match l_tri s with
      | None => s
      | Some t =>
          let sx := match hint with Some h => h | None => e_locate E p end in
          match sx with
          | [] => s
          | _ =>
              let nbs := dedup (flat_map (fun i => nth i (v2s t) []) sx) in
              fold_left (fun a sp =>
                           let '(a', r) := try_adding a p sp in
                           match r with Some add => update_subsimplex_losses a' sp add | None => a' end)
                        nbs s
          end
      end.

    (* _pop_highest_existing_simplex *)
    Definition valid_entry (s : lnd) (e : entry) : bool :=
      let '(_, sp, u) := e in
      match u with
      | None => smem sp (cur_simplices s) && negb (shas sp (l_subs s))
      | Some sub =>
          match sassoc sp (l_subs s) with
          | Some st => smem sp (cur_simplices s) && smem sub (simplices st)
          | None => false
          end
      end.
    Fixpoint pop_highest (s : lnd) (q : list entry) : option (entry * list entry) :=
      match q with
      | [] => None
      | e :: q' => if valid_entry s e then Some (e, q') else pop_highest s q'
      end.

    Definition next_choice (s : lnd) : lnd * nat :=
      match l_choose s with
      | [] => (set_err s EOther, 0)
      | p :: r => (set_choose s r, p)
      end.

    Definition free_corners (s : lnd) : list nat :=
      filter (fun c => negb (nat_mem c (l_data s)) && negb (nat_mem c (l_pend s))) corners.

    (* _ask : one point and its loss improvement *)
    Definition ask_one (s : lnd) : lnd * option (nat * L) :=
      if failed s then (s, None) else
      match free_corners s with
      | c :: _ => (tell_pending s c None, Some (c, linf))             (* _ask_bound_point *)
      | [] =>
          let s := touch s in
          match l_tri s with
          | None =>                                                   (* _ask_point_without_known_simplices *)
              let '(s, p) := next_choice s in
              if failed s then (s, None) else (tell_pending s p None, Some (p, linf))
          | Some _ =>                                                 (* _ask_best_point *)
              match pop_highest s (l_queue s) with
              | None => (set_err (set_queue s []) ENoSimplex, None)   (* AssertionError *)
              | Some ((loss, sp, u), q') =>
                  let '(s, p) := next_choice (set_queue s q') in
                  if failed s then (s, None) else
                  let s' := tell_pending s p (Some sp) in
                  (* ghost: a point chosen in an unsubdivided simplex must subdivide it *)
                  let s' := match u with
                            | None => if shas sp (l_subs s') then s' else set_ok s' false
                            | Some _ => s'
                            end in
                  (s', Some (p, labs loss))
              end
          end
      end.

    Fixpoint ask_n (n : nat) (s : lnd) (acc : list (nat * L)) : lnd * list (nat * L) :=
      match n with
      | 0 => (s, rev acc)
      | S n' => let '(s', r) := ask_one s in
                match r with
                | Some x => if failed s' then (s', rev acc) else ask_n n' s' (x :: acc)
                | None => (s', rev acc)
                end
      end.

    (* tell(point, value) *)
    Definition tell (s : lnd) (p : nat) : lnd :=
      if nat_mem p (l_data s) then s else
      let s := touch (set_pend s (nat_remove p (l_pend s))) in
      let had_tri := match l_tri s with Some _ => true | None => false end in
      let s := set_data s (l_data s ++ [p]) in
      if negb (e_inb E p) then s else
      let s := if e_rescale E then recompute_all s else s in
      if negb had_tri then s else
      match l_tri s with
      | None => s
      | Some t =>
          let '(t', o) := add_point d t p (e_hint E) (e_main E) in
          let s := set_tri s (Some t') in
          match o with
          | Accepted del add => update_losses s del add
          | Rejected AlreadyVertex => set_err s EAlready
          | _ => set_err s EOther
          end
      end.

    (* remove_unfinished *)
    Definition requeue (s : lnd) (sp : simplex) : lnd :=
      match sassoc sp (l_losses s) with
      | None => s
      | Some loss => set_queue s (queue_add (loss, sp, None) (l_queue s))
      end.
    Definition remove_unfinished (s : lnd) : lnd :=
      let s := if repaired then fold_left requeue (skeys (l_subs s)) s else s in
      set_subs (set_pend s []) [].
  End WithEnv.

  Inductive op :=
  | Tell (p : nat) (E : env)
  | TellPending (p : nat) (E : env)
  | Ask (n : nat) (E : env)
  | RemoveUnfinished
  | Touch (E : env).            (* any access of learner.tri, e.g. by loss() *)

  Inductive out := ORet (pts : list (nat * L)) | OErr (e : err).

  Definition load (s : lnd) (E : env) : lnd :=
    mkL (l_data s) (l_pend s) (l_tri s) (l_losses s) (l_subs s) (l_queue s) (e_tris E) (e_choose E) None (l_ok s).

  Definition finish (s : lnd) (pts : list (nat * L)) : lnd * out :=
    match l_err s with Some e => (set_ok s false, OErr e) | None => (s, ORet pts) end.

  Definition step (s : lnd) (o : op) : lnd * out :=
    match o with
    | Tell p E => finish (tell E (load s E) p) []
    | TellPending p E => finish (tell_pending E (load s E) p None) []
    | Ask n E => let '(s', pts) := ask_n E n (load s E) [] in finish s' pts
    | RemoveUnfinished => finish (remove_unfinished s) []
    | Touch E => finish (touch E (load s E)) []
    end.

  Definition run (s : lnd) (h : list op) : lnd := fold_left (fun s o => fst (step s o)) h s.

  (* loss(): max(_losses.values()) when there is a triangulation, else inf *)
  Definition loss (s : lnd) : L :=
    match l_tri s, l_losses s with
    | Some _, (_, v) :: r => fold_left (fun m kv => if lltb m (snd kv) then snd kv else m) r v
    | _, _ => linf
    end.

  (* quantifier domain: told / pending points are in the domain, the hint of a
     tell is a simplex of the triangulation (LearnerND checks _simplex_exists),
     located simplices are simplices of the triangulation, the recorded initial
     triangulations only use the data points *)
  Definition legal_env (s : lnd) (E : env) : bool := forallb (e_inb E) corners.
  Definition legal_op (s : lnd) (o : op) : bool :=
    match o with
    | Tell p E =>
        e_inb E p && legal_env s E &&
        match e_hint E with
        | Some (x :: sp) => smem (x :: sp) (cur_simplices s)
        | Some [] => false
        | None => match o_locate (e_main E) with [] => true | sp => smem sp (cur_simplices s) end
        end
    | TellPending p E => legal_env s E
    | Ask _ E => legal_env s E
    | RemoveUnfinished => true
    | Touch E => legal_env s E
    end.
  Fixpoint legal (s : lnd) (h : list op) : bool :=
    match h with
    | [] => true
    | o :: h' => legal_op s o && legal (fst (step s o)) h'
    end.
End LND.

Arguments RemoveUnfinished {L}.
Arguments OErr {L}.
