(* Executable model of adaptive/learner/sequence_learner.py (SequenceLearner).
   Elements of the sequence are irrelevant to the bookkeeping (the learner
   only ever looks at indices), values are an abstract type [V] -- no
   equality on elements or values is used, mirroring "unhashable elements".
   No proofs here. *)
From Coq Require Import ZArith.
From AV Require Import Base.Prelude.
Set Implicit Arguments.

Section Seq.
  Variable V : Type.

  Record st := mk {
    ntotal : nat;
    todo : list nat;            (* _to_do_indices : SortedSet *)
    pend : list nat;            (* pending_points : set, kept sorted *)
    data : list (nat * V)       (* data : SortedDict *)
  }.

  Definition init (n : nat) : st := mk n (seq 0 n) [] [].

  Inductive op :=
  | Ask (n : nat) (commit : bool)
  | Tell (i : nat) (v : V)
  | TellPending (i : nat)
  | RemoveUnfinished.

  Fixpoint data_set (i : nat) (v : V) (d : list (nat * V)) : list (nat * V) :=
    match d with
    | [] => [(i, v)]
    | (j, w) :: d' => if i <? j then (i, v) :: d
                      else if i =? j then (i, v) :: d'
                      else (j, w) :: data_set i v d'
    end.

  Definition tell_pending (s : st) (i : nat) : st :=
    mk (ntotal s) (nat_remove i (todo s)) (nat_insert i (pend s)) (data s).

  Definition tell (s : st) (i : nat) (v : V) : st :=
    mk (ntotal s) (nat_remove i (todo s)) (nat_remove i (pend s)) (data_set i v (data s)).

  Definition remove_unfinished (s : st) : st :=
    mk (ntotal s) (fold_left (fun acc i => nat_insert i acc) (pend s) (todo s)) [] (data s).

  Definition ask_indices (s : st) (n : nat) : list nat := firstn n (todo s).

  Definition ask (s : st) (n : nat) (commit : bool) : st * list nat :=
    let idx := ask_indices s n in
    ((if commit then fold_left tell_pending idx s else s), idx).

  Definition step (s : st) (o : op) : st * list nat :=
    match o with
    | Ask n c => ask s n c
    | Tell i v => (tell s i v, [])
    | TellPending i => (tell_pending s i, [])
    | RemoveUnfinished => (remove_unfinished s, [])
    end.

  Definition run (s : st) (h : list op) : st := fold_left (fun s o => fst (step s o)) h s.

  (* observables *)
  Definition npoints (s : st) : nat := length (data s).
  Definition done (s : st) : bool :=
    match todo s, pend s with [], [] => true | _, _ => false end.
  (* loss as an exact fraction numerator/denominator; [loss_num] is 0 when done *)
  Definition loss_num (s : st) (real : bool) : Z :=
    if done s then 0%Z
    else (Z.of_nat (ntotal s) - Z.of_nat (npoints s + if real then 0 else length (pend s)))%Z.
  Definition result (s : st) : option (list V) :=
    if done s then Some (map snd (data s)) else None.

  (* the quantifier domain of C17: indices inside the sequence, and only
     not-yet-evaluated indices are marked pending (the runner never does
     otherwise) *)
  Definition legal_op (s : st) (o : op) : bool :=
    match o with
    | Ask _ _ => true
    | Tell i _ => i <? ntotal s
    | TellPending i => (i <? ntotal s) && negb (nat_mem i (map fst (data s)))
    | RemoveUnfinished => true
    end.

  Fixpoint legal (s : st) (h : list op) : bool :=
    match h with
    | [] => true
    | o :: h' => legal_op s o && legal (fst (step s o)) h'
    end.
End Seq.

Arguments Ask {V}. Arguments Tell {V}. Arguments TellPending {V}. Arguments RemoveUnfinished {V}.
