(* Executable model of the *bookkeeping* of adaptive/learner/integrator_learner.py
   (IntegratorLearner and _Interval): the interval tree, done_leaves,
   depth_complete, removed, the per-interval known points, ivals,
   priority_split, _stack, pending_points, data, x_mapping.

   All numerics are answers of the environment:
     - per completed (interval, depth): [Proceed force_split remove] or
       [Divergent] (what _Interval.complete_process returned / raised),
     - per _fill_stack: which live interval is the arg-max of the error, whether
       the min_sep test fired, which interval the max_ivals rule removed,
     - the abscissae [points a b depth] of the rule of depth [depth] on (a,b).
   The model is parametrised by [repaired]: [false] is the code as it stands,
   [true] is the code after fixes/F1_integrator_priority_split.patch.
   No proofs here. *)
From AV Require Import Base.Prelude.
Set Implicit Arguments.

Inductive err :=
| ENone
| EValue            (* ValueError: point doesn't belong to any interval *)
| ERuntime          (* RuntimeError: no way to improve the integral estimate *)
| EDivergent        (* DivergentIntegralError *)
| EInternal (site : nat)   (* 1: complete_process assert on depth_complete
                              2: tell: assert ival in self.ivals          (F1b)
                              3: _fill_stack: assert not ival.children    (F1a)
                              4: _fill_stack: KeyError in ivals.remove    (F1c) *)
| EMissing          (* the recorded oracle answers do not fit the run *)
| EHalted.          (* an earlier Divergent / internal error ended the run *)

Inductive verdict := Proceed (force_split remove : bool) | Divergent.

Record choice := mkC {
  c_pick : nat;                 (* arg-max of (err, a) over ivals, used when priority_split is empty *)
  c_minsep : bool;              (* the min_sep test fired *)
  c_verdicts : list verdict;    (* verdicts of the complete_process calls inside this _fill_stack *)
  c_maxrm : option nat          (* interval removed by the max_ivals rule *)
}.

Definition err_is_none (e : err) : bool := match e with ENone => true | _ => false end.
Definition is_nil {A} (l : list A) : bool := match l with [] => true | _ => false end.
Definition is_some {A} (o : option A) : bool := match o with Some _ => true | None => false end.
Definition nat_add (i : nat) (l : list nat) : list nat := if nat_mem i l then l else l ++ [i].

Section Integrator.
  Variable X : Type.
  Variable eqb : X -> X -> bool.
  Variable points : X -> X -> nat -> list X.
  Variable repaired : bool.

  Record ival := mkI {
    a : X; b : X;
    depth : nat; rdepth : nat;
    parent : option nat;
    children : list nat;
    known : list X;                      (* keys of _Interval.data *)
    done_leaves : option (list nat);
    depth_complete : option nat;
    removed : bool
  }.

  Record st := mkS {
    ivs : list ival;                     (* arena: every interval ever created, index = id, 0 = first_ival *)
    live : list nat;                     (* self.ivals *)
    prio : list nat;                     (* self.priority_split, head = last appended *)
    stack : list X;                      (* self._stack *)
    pending : list X;                    (* self.pending_points *)
    data : list X;                       (* keys of self.data *)
    xmap : list (X * list nat);          (* self.x_mapping; values sorted by rdepth, stable *)
    max_ivals : nat;
    orc : list verdict;                  (* oracle answers not yet consumed by the current operation *)
    halted : bool
  }.

  (* ---- setters ---- *)
  Definition set_ivs (s : st) v := mkS v (live s) (prio s) (stack s) (pending s) (data s) (xmap s) (max_ivals s) (orc s) (halted s).
  Definition set_live (s : st) v := mkS (ivs s) v (prio s) (stack s) (pending s) (data s) (xmap s) (max_ivals s) (orc s) (halted s).
  Definition set_prio (s : st) v := mkS (ivs s) (live s) v (stack s) (pending s) (data s) (xmap s) (max_ivals s) (orc s) (halted s).
  Definition set_stack (s : st) v := mkS (ivs s) (live s) (prio s) v (pending s) (data s) (xmap s) (max_ivals s) (orc s) (halted s).
  Definition set_pending (s : st) v := mkS (ivs s) (live s) (prio s) (stack s) v (data s) (xmap s) (max_ivals s) (orc s) (halted s).
  Definition set_data (s : st) v := mkS (ivs s) (live s) (prio s) (stack s) (pending s) v (xmap s) (max_ivals s) (orc s) (halted s).
  Definition set_xmap (s : st) v := mkS (ivs s) (live s) (prio s) (stack s) (pending s) (data s) v (max_ivals s) (orc s) (halted s).
  Definition set_orc (s : st) v := mkS (ivs s) (live s) (prio s) (stack s) (pending s) (data s) (xmap s) (max_ivals s) v (halted s).
  Definition set_halted (s : st) v := mkS (ivs s) (live s) (prio s) (stack s) (pending s) (data s) (xmap s) (max_ivals s) (orc s) v.

  Definition iv_set_depth (iv : ival) v := mkI (a iv) (b iv) v (rdepth iv) (parent iv) (children iv) (known iv) (done_leaves iv) (depth_complete iv) (removed iv).
  Definition iv_set_children (iv : ival) v := mkI (a iv) (b iv) (depth iv) (rdepth iv) (parent iv) v (known iv) (done_leaves iv) (depth_complete iv) (removed iv).
  Definition iv_set_known (iv : ival) v := mkI (a iv) (b iv) (depth iv) (rdepth iv) (parent iv) (children iv) v (done_leaves iv) (depth_complete iv) (removed iv).
  Definition iv_set_dl (iv : ival) v := mkI (a iv) (b iv) (depth iv) (rdepth iv) (parent iv) (children iv) (known iv) v (depth_complete iv) (removed iv).
  Definition iv_set_dc (iv : ival) v := mkI (a iv) (b iv) (depth iv) (rdepth iv) (parent iv) (children iv) (known iv) (done_leaves iv) v (removed iv).
  Definition iv_set_removed (iv : ival) v := mkI (a iv) (b iv) (depth iv) (rdepth iv) (parent iv) (children iv) (known iv) (done_leaves iv) (depth_complete iv) v.

  (* ---- containers ---- *)
  Definition memX (x : X) (l : list X) : bool := existsb (eqb x) l.
  Definition addX (x : X) (l : list X) : list X := if memX x l then l else l ++ [x].
  Definition remX (x : X) (l : list X) : list X := filter (fun y => negb (eqb x y)) l.

  Definition xmap_mem (x : X) (m : list (X * list nat)) : bool := existsb (fun p => eqb x (fst p)) m.
  Definition xmap_get (x : X) (m : list (X * list nat)) : list nat :=
    match find (fun p => eqb x (fst p)) m with Some p => snd p | None => [] end.
  (* SortedSet(key=rdepth).add : after every element with a key <= the new key *)
  Fixpoint ins_rd (rd : nat -> nat) (i : nat) (l : list nat) : list nat :=
    match l with
    | [] => [i]
    | j :: l' => if rd i <? rd j then i :: l else j :: ins_rd rd i l'
    end.
  Definition xmap_add (rd : nat -> nat) (x : X) (i : nat) (m : list (X * list nat)) : list (X * list nat) :=
    if xmap_mem x m
    then map (fun p => if eqb x (fst p)
                       then (fst p, if nat_mem i (snd p) then snd p else ins_rd rd i (snd p))
                       else p) m
    else m ++ [(x, [i])].

  Fixpoint list_upd {A} (l : list A) (i : nat) (f : A -> A) : list A :=
    match l, i with
    | [], _ => []
    | x :: l', 0 => f x :: l'
    | x :: l', S i' => x :: list_upd l' i' f
    end.

  (* ---- error plumbing ---- *)
  Definition bind (r : st * err) (f : st -> st * err) : st * err :=
    match r with (s, ENone) => f s | _ => r end.
  Fixpoint foldM {A} (f : st -> A -> st * err) (l : list A) (s : st) : st * err :=
    match l with
    | [] => (s, ENone)
    | x :: l' => bind (f s x) (foldM f l')
    end.

  Variable dflt : X.
  Definition dummy : ival := mkI dflt dflt 0 0 None [] [] None None false.
  Definition get (s : st) (i : nat) : ival := nth i (ivs s) dummy.
  Definition upd (s : st) (i : nat) (f : ival -> ival) : st := set_ivs s (list_upd (ivs s) i f).

  (* ---- _Interval ---- *)
  Definition ns (d : nat) : nat := nth d [5; 9; 17; 33] 0.

  Definition refinement_complete (iv : ival) (d : nat) : bool :=
    negb (length (known iv) <? ns d) &&
    forallb (fun p => memX p (known iv)) (points (a iv) (b iv) d).

  Definition dl_nonempty (iv : ival) : bool :=
    match done_leaves iv with Some (_ :: _) => true | _ => false end.

  (* the `for child in ival.children` loop of the done_leaves propagation *)
  Definition absorb_child (sa : st * list nat) (c : nat) : st * list nat :=
    let (s, acc) := sa in
    match done_leaves (get s c) with
    | None => (s, acc)
    | Some l => (upd s c (fun iv => iv_set_dl iv None),
                 fold_left (fun ac x => nat_add x ac) l acc)
    end.

  (* the `while ival is not None` loop of complete_process *)
  Fixpoint propagate_leaves (fuel : nat) (s : st) (p : option nat) (old : list nat) : st :=
    match fuel, p with
    | S fuel', Some j =>
        let iv := get s j in
        let unused := filter (fun c => is_some (done_leaves (get s c))) (children iv) in
        if forallb (fun c => dl_nonempty (get s c)) unused then
          let base := match done_leaves iv with Some l => l | None => [] end in
          let old' := j :: old in
          let (s1, acc) := fold_left absorb_child (children iv) (s, base) in
          let s2 := upd s1 j (fun iv => iv_set_dl iv (Some (filter (fun x => negb (nat_mem x old')) acc))) in
          propagate_leaves fuel' s2 (parent iv) old'
        else s
    | _, _ => s
    end.

  (* _Interval.complete_process: bookkeeping only; the numeric outcome is the
     next oracle answer *)
  Definition complete_process (s : st) (i d : nat) : st * err * (bool * bool) :=
    let iv := get s i in
    let ok := match depth_complete iv with None => true | Some k => S k =? d end in
    if negb ok then (s, EInternal 1, (false, false)) else
    let s1 := upd s i (fun iv => iv_set_dc iv (Some d)) in
    match orc s1 with
    | [] => (s1, EMissing, (false, false))
    | v :: o' =>
        let s2 := set_orc s1 o' in
        if (match parent iv with None => true | Some _ => false end) && (d =? 2)
        then (s2, ENone, (false, false))          (* first_ival: returns before any estimate *)
        else match v with
        | Divergent => (s2, EDivergent, (false, false))
        | Proceed fs rm =>
            let s3 := match done_leaves (get s2 i) with
                      | Some [] =>
                          propagate_leaves (length (ivs s2))
                            (upd s2 i (fun iv => iv_set_dl iv (Some [i]))) (parent iv) []
                      | _ => s2
                      end in
            (s3, ENone, (fs, rm))
        end
    end.

  (* ---- IntegratorLearner ---- *)
  Definition discard_ival (s : st) (i : nat) : st :=
    let s1 := set_live s (nat_remove i (live s)) in
    if repaired then set_prio s1 (nat_remove i (prio s1)) else s1.

  Fixpoint propagate_removed (fuel : nat) (s : st) (i : nat) : st :=
    match fuel with
    | 0 => s
    | S fuel' =>
        let s1 := discard_ival (upd s i (fun iv => iv_set_removed iv true)) i in
        fold_left (propagate_removed fuel') (children (get s i)) s1
    end.

  Definition queue_split (s : st) (i : nat) : st * err :=
    if repaired then
      (if nat_mem i (live s) && negb (nat_mem i (prio s)) then set_prio s (i :: prio s) else s, ENone)
    else if nat_mem i (live s) then (set_prio s (i :: prio s), ENone)
    else (s, EInternal 2).

  (* `for depth in range(from_depth, ival.depth + 1)` *)
  Fixpoint tell_depths (s : st) (i : nat) (ds : list nat) : st * err :=
    match ds with
    | [] => (s, ENone)
    | d :: ds' =>
        if refinement_complete (get s i) d then
          match complete_process s i d with
          | (s1, ENone, (fs, rm)) =>
              bind (if rm then (propagate_removed (length (ivs s1)) s1 i, ENone)
                    else if fs && is_nil (children (get s1 i)) then queue_split s1 i
                    else (s1, ENone))
                   (fun s2 => tell_depths s2 i ds')
          | (s1, e, _) => (s1, e)
          end
        else tell_depths s i ds'
    end.

  Definition from_depth (iv : ival) : nat :=
    match depth_complete iv with
    | None => match parent iv with None => 2 | Some _ => 0 end
    | Some k => S k
    end.

  Definition tell_ival (x : X) (s : st) (i : nat) : st * err :=
    let s1 := upd s i (fun iv => iv_set_known iv (addX x (known iv))) in
    let iv := get s1 i in
    tell_depths s1 i (seq (from_depth iv) (S (depth iv) - from_depth iv)).

  Definition tell (s : st) (x : X) : st * err :=
    if negb (xmap_mem x (xmap s)) then (s, EValue) else
    let s1 := set_pending (set_data s (addX x (data s))) (remX x (pending s)) in
    foldM (tell_ival x) (xmap_get x (xmap s1)) s1.

  Definition add_point (i : nat) (s : st) (x : X) : st * err :=
    let s1 := set_xmap s (xmap_add (fun j => rdepth (get s j)) x i (xmap s)) in
    if memX x (data s1) then tell s1 x
    else if memX x (pending s1) then (s1, ENone)
    else (set_stack (set_pending s1 (pending s1 ++ [x])) (stack s1 ++ [x]), ENone).

  Definition add_ival (s : st) (i : nat) : st * err :=
    let iv := get s i in
    bind (foldM (add_point i) (points (a iv) (b iv) (depth iv)) s)
         (fun s' => (set_live s' (nat_add i (live s')), ENone)).

  Definition mid (iv : ival) : X :=
    let pts := points (a iv) (b iv) (depth iv) in nth (length pts / 2) pts (a iv).

  Definition split (s : st) (i : nat) : st * list nat :=
    let iv := get s i in
    let m := mid iv in
    let n := length (ivs s) in
    let l := mkI (a iv) m 0 (S (rdepth iv)) (Some i) [] [] (Some []) None false in
    let r := mkI m (b iv) 0 (S (rdepth iv)) (Some i) [] [] (Some []) None false in
    let s1 := upd s i (fun iv => iv_set_children iv [n; S n]) in
    (set_ivs s1 (ivs s1 ++ [l; r]), [n; S n]).

  (* self.ivals.remove(ival) *)
  Definition remove_live (s : st) (i : nat) : st * err :=
    if nat_mem i (live s) then (set_live s (nat_remove i (live s)), ENone) else (s, EInternal 4).

  Definition max_ivals_rule (c : choice) (s : st) : st * err :=
    if max_ivals s <? length (live s) then
      match c_maxrm c with
      | Some j => if nat_mem j (live s)
                  then ((if repaired then discard_ival s j else set_live s (nat_remove j (live s))), ENone)
                  else (s, EMissing)
      | None => (s, EMissing)
      end
    else match c_maxrm c with None => (s, ENone) | Some _ => (s, EMissing) end.

  (* one call of _fill_stack; the caller has checked that ivals or the queue is non-empty *)
  Definition fill_stack (s : st) (c : choice) : st * err :=
    let s0 := set_orc s (c_verdicts c) in
    let sel := match prio s0 with
               | i :: rest => Some (i, true, set_prio s0 rest)
               | [] => if nat_mem (c_pick c) (live s0) then Some (c_pick c, false, s0) else None
               end in
    match sel with
    | None => (s0, EMissing)
    | Some (i, force, s1) =>
        if negb (is_nil (children (get s1 i))) then (s1, EInternal 3) else
        let r :=
          if c_minsep c then remove_live s1 i
          else if (depth (get s1 i) =? 3) || force then
            bind (remove_live s1 i)
                 (fun s2 => let (s3, kids) := split s2 i in foldM add_ival kids s3)
          else add_ival (upd s1 i (fun iv => iv_set_depth iv (S (depth iv)))) i in
        bind (bind r (max_ivals_rule c))
             (fun s4 => if is_nil (orc s4) then (s4, ENone) else (s4, EMissing))
    end.

  Definition pop_from_stack (s : st) (n : nat) : st * list X :=
    (set_stack s (skipn n (stack s)), firstn n (stack s)).

  (* the while loop of _ask_and_tell_pending; one recorded choice per iteration *)
  Fixpoint ask_loop (s : st) (nleft : nat) (cs : list choice) (acc : list X) : st * err * list X :=
    if nleft =? 0 then
      match cs with [] => (s, ENone, acc) | _ :: _ => (s, EMissing, acc) end
    else if is_nil (prio s) && is_nil (live s) then (s, ERuntime, acc)   (* max() of an empty set *)
    else match cs with
         | [] => (s, EMissing, acc)
         | c :: cs' =>
             match fill_stack s c with
             | (s1, ENone) =>
                 let (s2, pts) := pop_from_stack s1 nleft in
                 ask_loop s2 (nleft - length pts) cs' (acc ++ pts)
             | (s1, e) => (s1, e, acc)
             end
         end.

  Definition ask (s : st) (n : nat) (cs : list choice) : st * err * list X :=
    let (s1, pts) := pop_from_stack s n in
    ask_loop s1 (n - length pts) cs pts.

  (* ---- operations, outputs ---- *)
  Inductive op :=
  | Ask (n : nat) (choices : list choice)      (* ask(n, tell_pending=True) *)
  | Tell (x : X) (verdicts : list verdict).    (* tell(x, f(x)) *)

  Definition out := (list X * err)%type.

  Definition fatal (e : err) : bool :=
    match e with EDivergent | EInternal _ | EMissing | EHalted => true | _ => false end.

  Definition step (s : st) (o : op) : st * out :=
    if halted s then (s, ([], EHalted)) else
    match o with
    | Tell x vs =>
        let (s1, e) := tell (set_orc s vs) x in
        let e' := match e with
                  | ENone => if is_nil (orc s1) then ENone else EMissing
                  | _ => e
                  end in
        match e' with
        | EValue => (s, ([], EValue))       (* raised before anything was touched *)
        | _ => (set_halted (set_orc s1 []) (fatal e'), ([], e'))
        end
    | Ask n cs =>
        match ask s n cs with
        | (s1, ENone, pts) => (set_orc s1 [], (pts, ENone))
        | (s1, ERuntime, _) => (set_orc s1 [], ([], ERuntime))
        | (s1, EDivergent, _) =>
            (* DivergentIntegralError is a ValueError: _ask_and_tell_pending turns it
               into RuntimeError; the learner is left half-updated *)
            (set_halted (set_orc s1 []) true, ([], ERuntime))
        | (s1, e, _) => (set_halted (set_orc s1 []) true, ([], e))
        end
    end.

  Definition run (s : st) (h : list op) : st := fold_left (fun s o => fst (step s o)) h s.

  (* outputs along a history *)
  Fixpoint outs (s : st) (h : list op) : list out :=
    match h with
    | [] => []
    | o :: h' => snd (step s o) :: outs (fst (step s o)) h'
    end.

  Definition init (lo hi : X) (maxiv : nat) : st :=
    let root := mkI lo hi 2 1 None [] [] (Some []) None false in
    fst (add_ival (mkS [root] [] [] [] [] [] [] maxiv [] false) 0).

  (* observables *)
  Definition npoints (s : st) : nat := length (data s).
  Definition approximating_intervals (s : st) : option (list nat) := done_leaves (get s 0).
  Definition handed (os : list out) : list X := concat (map fst os).
  Definition internal_error (e : err) : bool := match e with EInternal _ => true | _ => false end.

  (* executable certificate: [S] is (as a set) the leaf set of a cover of interval
     [i] -- either {i} or the union of covers of both children.  Evaluated on
     approximating_intervals at every step of every correspondence case. *)
  Fixpoint cov (fuel : nat) (s : st) (Sl : list nat) (i : nat) : option (list nat) :=
    match fuel with
    | 0 => None
    | S fuel' =>
        if nat_mem i Sl then Some [i] else
        match children (get s i) with
        | [l; r] => match cov fuel' s Sl l, cov fuel' s Sl r with
                    | Some x, Some y => Some (x ++ y)
                    | _, _ => None
                    end
        | _ => None
        end
    end.
  Definition partition_cert (s : st) (Sl : list nat) : bool :=
    match cov (length (ivs s)) s Sl 0 with
    | Some L => forallb (fun k => nat_mem k L) Sl
    | None => false
    end.
End Integrator.

Arguments Ask {X}. Arguments Tell {X}.
