(* A tiny specification-level model of adaptive/learner/average_learner.py
   used by the order-irrelevance (C11) and round-trip (C13) theorems: [data]
   is a finite map seed -> value (association list sorted by seed, Python dict
   equality ignores insertion order), the accumulators are the running sums
   the code keeps.  Numbers are abstract: only [add], [mul], [zero] occur in
   the state transitions.  No proofs here. *)
From AV Require Import Base.Prelude Model.Seq.
Set Implicit Arguments.

Section AvgSpec.
  Variable num : Type.
  Variables (add mul : num -> num -> num) (zero : num).

  Record st := mk {
    data : list (nat * num);     (* data : dict seed -> value *)
    pend : list nat;             (* pending_points *)
    npoints : nat;
    sum_f : num;
    sum_f_sq : num
  }.

  Definition init : st := mk [] [] 0 zero zero.

  Definition known (n : nat) (d : list (nat * num)) : bool := nat_mem n (map fst d).

  (* AverageLearner.tell: a repeated seed is ignored (the first value is kept) *)
  Definition tell (s : st) (n : nat) (v : num) : st :=
    if known n (data s) then s
    else mk (data_set n v (data s)) (nat_remove n (pend s)) (S (npoints s))
            (add (sum_f s) v) (add (sum_f_sq s) (mul v v)).

  Definition tell_pending (s : st) (n : nat) : st :=
    mk (data s) (nat_insert n (pend s)) (npoints s) (sum_f s) (sum_f_sq s).

  (* BaseLearner.tell_many *)
  Definition tell_many (s : st) (l : list (nat * num)) : st :=
    fold_left (fun s p => tell s (fst p) (snd p)) l s.

  (* _get_data / _set_data: the four attributes are copied verbatim *)
  Definition payload := (list (nat * num) * nat * num * num)%type.
  Definition get_data (s : st) : payload := (data s, npoints s, sum_f s, sum_f_sq s).
  Definition set_data (s : st) (p : payload) : st :=
    let '(d, n, sf, sq) := p in mk d (pend s) n sf sq.

  (* the sums as folds over the data: what the accumulators must be *)
  Definition sum_of (l : list num) : num := fold_right add zero l.
  Definition canon (d : list (nat * num)) (p : list nat) : st :=
    mk d p (length d) (sum_of (map snd d)) (sum_of (map (fun v => mul v v) (map snd d))).

  (* observables are functions of (npoints, sum_f, sum_f_sq, #pending) and of
     foreign functions (division, sqrt, Student t) that are parameters *)
  Section Obs.
    Variables (sub div : num -> num -> num) (of_nat : nat -> num).
    Definition mean (s : st) : num := div (sum_f s) (of_nat (npoints s)).
    Definition std_numerator (s : st) : num :=
      sub (sum_f_sq s) (mul (of_nat (npoints s)) (mul (mean s) (mean s))).
  End Obs.
End AvgSpec.
