(* Executable model of the bookkeeping of adaptive/runner.py:
   BaseRunner (_get_max_tasks, _do_raise, _ask, _process_futures, _get_futures,
   _remove_unfinished, _cleanup), BlockingRunner._run and AsyncRunner._run.

   The learner is abstract (a record of functions over an abstract state [L];
   points [P] and values [V] are abstract, no equality is used).  The
   ENVIRONMENT is an explicit argument: the run is a fold over a list of
   events [ev]; a [Wait] event carries the ordered list of futures that
   completed, with [Ok y | Err] each, in the order in which
   [_process_futures] iterates the [done] set (Python set order is not
   modelled: the model is a trace acceptor); goal evaluations, cancellation
   and the futures that still deliver a result at shutdown are events too.
   A theorem "forall evs" is therefore a theorem over all completion orders,
   failure assignments and cancellation points.

   Python dicts are association lists in insertion order.  Every observable
   action of the runner (calls on the learner, submissions, consumed results,
   cancel() calls) is recorded in the ghost trace [tr], NEWEST FIRST.
   No proofs here. *)
From AV Require Import Base.Prelude.
Set Implicit Arguments.

(* ---- python dict with nat keys, insertion ordered --------------------- *)
Section Assoc.
  Variable B : Type.
  Fixpoint aget (k : nat) (l : list (nat * B)) : option B :=
    match l with
    | [] => None
    | (j, v) :: l' => if k =? j then Some v else aget k l'
    end.
  (* d[k] = v : in place when the key exists, appended otherwise *)
  Fixpoint aset (k : nat) (v : B) (l : list (nat * B)) : list (nat * B) :=
    match l with
    | [] => [(k, v)]
    | (j, w) :: l' => if k =? j then (k, v) :: l' else (j, w) :: aset k v l'
    end.
  (* d.pop(k, None) *)
  Fixpoint apop (k : nat) (l : list (nat * B)) : list (nat * B) :=
    match l with
    | [] => []
    | (j, w) :: l' => if k =? j then apop k l' else (j, w) :: apop k l'
    end.
  Definition akeys (l : list (nat * B)) : list nat := map fst l.
  Definition amem (k : nat) (l : list (nat * B)) : bool := nat_mem k (akeys l).
End Assoc.

Inductive kind := Blocking | Async.

Record cfg := mkcfg {
  c_kind : kind;
  c_max_tasks : nat;      (* the ntasks argument; None and 0 are both falsy -> 0 *)
  c_ncores : nat;         (* _get_ncores(executor) *)
  c_retries : nat;
  c_raise : bool;         (* raise_if_retries_exceeded *)
  c_log : bool            (* log=True *)
}.

Section Runner.
  Variables P V L : Type.

  Record learner := mklearner {
    l_ask : L -> nat -> list P * L;       (* ask(n): points (loss improvements are not used) *)
    l_tell : L -> P -> V -> L;
    l_remove : L -> L                      (* remove_unfinished() *)
  }.

  Inductive outcome := Ok (y : V) | Err.

  (* entries of runner.log *)
  Inductive logent := LAsk (n : nat) | LTell (x : P) (y : V).

  (* observable actions, recorded in the ghost trace *)
  Inductive tev :=
  | TAsk (n : nat) (ret : list (nat * P))     (* learner.ask(n) returned these points, given these pids *)
  | TSubmit (fid pid : nat) (x : P)            (* self._submit(x) created future fid for point id pid *)
  | TDone (fid pid : nat) (o : outcome)        (* _process_futures consumed future fid *)
  | TTell (pid : nat) (x : P) (y : V)          (* learner.tell(x, y) *)
  | TRemove                                    (* learner.remove_unfinished() *)
  | TCancel (fid : nat).                       (* fut.cancel() *)

  Inductive why := GoalMet | Cancelled | Failed (pid : nat) | NoWorkers.
  Inductive phase :=
  | AtGoal                              (* at the loop head, about to evaluate the goal *)
  | InWait                              (* suspended in wait(futures, FIRST_COMPLETED) *)
  | Stopping (w : why)                  (* in the finally block, in wait(remaining) *)
  | Stopped (w : why) (cleaned : bool). (* _run has returned / raised; cleaned = _cleanup ran *)

  Record rst := mkrst {
    pend : list (nat * nat);      (* _pending_tasks : future -> pid *)
    retry : list (nat * nat);     (* _to_retry : pid -> number of failures *)
    tbs : list (nat * unit);      (* _tracebacks : pid -> text (text not modelled) *)
    idp : list (nat * P);         (* _id_to_point *)
    nid : nat;                    (* _next_id *)
    nfid : nat;                   (* number of futures created so far (names them) *)
    log : list logent;            (* self.log (only written when c_log) *)
    lst : L;                      (* the learner *)
    ph : phase;
    tr : list tev                 (* ghost: observable actions, newest first *)
  }.

  Definition set_pend (s : rst) v := mkrst v (retry s) (tbs s) (idp s) (nid s) (nfid s) (log s) (lst s) (ph s) (tr s).
  Definition set_retry (s : rst) v := mkrst (pend s) v (tbs s) (idp s) (nid s) (nfid s) (log s) (lst s) (ph s) (tr s).
  Definition set_tbs (s : rst) v := mkrst (pend s) (retry s) v (idp s) (nid s) (nfid s) (log s) (lst s) (ph s) (tr s).
  Definition set_idp (s : rst) v := mkrst (pend s) (retry s) (tbs s) v (nid s) (nfid s) (log s) (lst s) (ph s) (tr s).
  Definition set_nid (s : rst) v := mkrst (pend s) (retry s) (tbs s) (idp s) v (nfid s) (log s) (lst s) (ph s) (tr s).
  Definition set_nfid (s : rst) v := mkrst (pend s) (retry s) (tbs s) (idp s) (nid s) v (log s) (lst s) (ph s) (tr s).
  Definition set_log (s : rst) v := mkrst (pend s) (retry s) (tbs s) (idp s) (nid s) (nfid s) v (lst s) (ph s) (tr s).
  Definition set_lst (s : rst) v := mkrst (pend s) (retry s) (tbs s) (idp s) (nid s) (nfid s) (log s) v (ph s) (tr s).
  Definition set_ph (s : rst) v := mkrst (pend s) (retry s) (tbs s) (idp s) (nid s) (nfid s) (log s) (lst s) v (tr s).
  Definition set_tr (s : rst) v := mkrst (pend s) (retry s) (tbs s) (idp s) (nid s) (nfid s) (log s) (lst s) (ph s) v.
  Definition emit (s : rst) (e : tev) := set_tr s (e :: tr s).

  (* the environment *)
  Inductive ev :=
  | Goal (met : bool)                          (* self.goal(self.learner) returned met *)
  | Wait (done : list (nat * outcome))         (* wait(.., FIRST_COMPLETED) returned; processing order *)
  | Cancel                                     (* task.cancel() / an interrupt raised inside the wait *)
  | SubmitCancel (j : nat)                     (* the goal is unmet and an interrupt is raised inside
                                                  _get_futures after j submissions of the batch *)
  | Shutdown (got : list (nat * outcome))      (* wait(remaining) returned; for BlockingRunner [got] are
                                                  the futures that were not cancelled and are done, in
                                                  the order in which they are processed *)
  | WaitCancel (done : list (nat * outcome)).  (* the wait returned and an interrupt (Ctrl-C) arrives inside
                                                  _process_futures between two iterations of its loop, e.g.
                                                  when learner.tell returns: [done] is the part of the
                                                  returned futures that was processed; the others stay in
                                                  _pending_tasks although they are done *)

  Variable lrn : learner.
  Variable c : cfg.

  (* def _get_max_tasks(self): return self._max_tasks or _get_ncores(self.executor) *)
  Definition get_max_tasks : nat :=
    if c_max_tasks c =? 0 then c_ncores c else c_max_tasks c.

  (* ---- _ask ------------------------------------------------------------ *)
  (* pids_gen = (pid for pid in self._to_retry.keys() if pid not in pending_ids) *)
  Definition retry_candidates (s : rst) : list nat :=
    filter (fun pid => negb (nat_mem pid (map snd (pend s)))) (akeys (retry s)).

  (* for point in new_points: pid = self._next_id(); self._id_to_point[pid] = point *)
  Fixpoint assign_ids (i : nat) (pts : list P) : list (nat * P) :=
    match pts with
    | [] => []
    | x :: r => (i, x) :: assign_ids (S i) r
    end.

  Definition ask (s : rst) (n : nat) : list nat * rst :=
    let pids := firstn n (retry_candidates s) in            (* islice(pids_gen, n) *)
    if length pids <? n then
      let m := n - length pids in
      let '(pts, l') := l_ask lrn (lst s) m in              (* self.learner.ask(n - len(pids)) *)
      let new := assign_ids (nid s) pts in
      let s1 := set_lst s l' in
      let s2 := set_idp s1 (idp s1 ++ new) in
      let s3 := set_nid s2 (nid s2 + length pts) in
      (pids ++ map fst new, emit s3 (TAsk m new))
    else (pids, s).

  (* ---- _get_futures ---------------------------------------------------- *)
  (* point = self._id_to_point[pid]; fut = self._submit(point); self._pending_tasks[fut] = pid *)
  Definition submit_pid (s : rst) (pid : nat) : rst :=
    match aget pid (idp s) with
    | Some x =>
        let f := nfid s in
        emit (set_nfid (set_pend s (pend s ++ [(f, pid)])) (S f)) (TSubmit f pid x)
    | None => s      (* KeyError in Python; unreachable (RunnerProofs.inv_retry_idp) *)
    end.

  (* [upto = Some j]: an interrupt (Ctrl-C) arrives inside _get_futures after j
     points of the batch were handed to the executor, i.e. inside the (j+1)-th
     self._submit (or right after the loop when the batch has at most j points):
     the rest of the for loop is not executed.  [None]: the loop runs to its end. *)
  Definition cut (upto : option nat) (l : list nat) : list nat :=
    match upto with Some j => firstn j l | None => l end.

  Definition get_futures_upto (upto : option nat) (s : rst) : rst :=
    let n := get_max_tasks - length (pend s) in            (* max(0, ...) : truncated subtraction *)
    let s1 := if c_log c then set_log s (log s ++ [LAsk n]) else s in
    let '(pids, s2) := ask s1 n in
    fold_left submit_pid (cut upto pids) s2.                (* for pid in pids: ... *)

  Definition get_futures (s : rst) : rst := get_futures_upto None s.

  (* ---- _process_futures ------------------------------------------------ *)
  (* the body of "for fut in done_futs:" for one future; returns the state and
     [Some pid] when _do_raise(e, pid) raised *)
  Definition process_one (s : rst) (fid : nat) (o : outcome) : rst * option nat :=
    match aget fid (pend s) with
    | None => (s, None)               (* not a pending future: not an event of this runner *)
    | Some pid =>
        let s0 := emit (set_pend s (apop fid (pend s))) (TDone fid pid o) in       (* pid = pending.pop(fut) *)
        match o with
        | Err =>
            let s1 := set_tbs s0 (aset pid tt (tbs s0)) in                          (* _tracebacks[pid] = ... *)
            let n := match aget pid (retry s1) with Some k => k | None => 0 end + 1 in
            let s2 := set_retry s1 (aset pid n (retry s1)) in                      (* _to_retry[pid] = get(pid,0)+1 *)
            if c_retries c <? n then                                               (* if _to_retry[pid] > retries *)
              let s3 := set_retry s2 (apop pid (retry s2)) in                      (*   _to_retry.pop(pid) *)
              if c_raise c then (s3, Some pid)                                     (*   _do_raise(e, pid) *)
              else (s3, None)
            else (s2, None)
        | Ok y =>
            let s1 := set_retry s0 (apop pid (retry s0)) in                        (* _to_retry.pop(pid, None) *)
            let s2 := set_tbs s1 (apop pid (tbs s1)) in                            (* _tracebacks.pop(pid, None) *)
            match aget pid (idp s2) with
            | Some x =>
                let s3 := set_idp s2 (apop pid (idp s2)) in                        (* x = _id_to_point.pop(pid) *)
                let s4 := if c_log c then set_log s3 (log s3 ++ [LTell x y]) else s3 in
                (emit (set_lst s4 (l_tell lrn (lst s4) x y)) (TTell pid x y), None)
            | None => (s2, None)      (* KeyError; unreachable (RunnerProofs: pending pids are in idp) *)
            end
        end
    end.

  (* the for loop: left at the first raise, the rest of [done] stays unprocessed *)
  Fixpoint process (s : rst) (done : list (nat * outcome)) : rst * option nat :=
    match done with
    | [] => (s, None)
    | (fid, o) :: rest =>
        match process_one s fid o with
        | (s', None) => process s' rest
        | (s', Some pid) => (s', Some pid)
        end
    end.

  (* ---- _remove_unfinished, _cleanup, the finally block ------------------- *)
  Definition remove_unfinished (s : rst) : rst :=
    let s1 := emit (set_lst s (l_remove lrn (lst s))) TRemove in     (* self.learner.remove_unfinished() *)
    set_tr s1 (rev (map (fun fp => TCancel (fst fp)) (pend s)) ++ tr s1).   (* for fut in remaining: fut.cancel() *)

  (* finally: remaining = self._remove_unfinished(); if remaining: wait(remaining) ...; self._cleanup() *)
  Definition stop (s : rst) (w : why) : rst :=
    let s1 := remove_unfinished s in
    match pend s1 with
    | [] => set_ph s1 (Stopped w true)
    | _ :: _ => set_ph s1 (Stopping w)
    end.

  Definition init (l0 : L) : rst :=
    mkrst [] [] [] [] 0 0 [] l0
          (if get_max_tasks <? 1 then Stopped NoWorkers false     (* raise RuntimeError("Executor has no workers") *)
           else AtGoal) [].

  Definition rstep (s : rst) (e : ev) : rst :=
    match ph s, e with
    | AtGoal, Goal true => stop s GoalMet                          (* while not self.goal(self.learner) *)
    | AtGoal, Goal false => set_ph (get_futures s) InWait          (* futures = self._get_futures(); wait(...) *)
    | AtGoal, SubmitCancel j => stop (get_futures_upto (Some j) s) Cancelled   (* the exception propagates into finally *)
    | InWait, Wait done =>
        match process s done with                                  (* self._process_futures(done) *)
        | (s', None) => set_ph s' AtGoal
        | (s', Some pid) => stop s' (Failed pid)                   (* RuntimeError propagates into finally *)
        end
    | InWait, Cancel => stop s Cancelled
    | InWait, WaitCancel done =>
        match process s done with                                  (* the for loop is left by the interrupt *)
        | (s', None) => stop s' Cancelled
        | (s', Some pid) => stop s' (Failed pid)
        end
    | Stopping w, Shutdown got =>
        match c_kind c with
        | Blocking =>
            (* with_result = {f for f in remaining if not f.cancelled() and f.done()}
               self._process_futures(with_result); self._cleanup() *)
            match process s got with
            | (s', None) => set_ph s' (Stopped w true)
            | (s', Some pid) => set_ph s' (Stopped (Failed pid) false)   (* _cleanup is skipped *)
            end
        | Async => set_ph s (Stopped w true)                       (* await asyncio.wait(remaining); _cleanup() *)
        end
    | _, _ => s                                                    (* event not enabled in this phase *)
    end.

  Definition run (s : rst) (evs : list ev) : rst := fold_left rstep evs s.
  Definition reach (l0 : L) (evs : list ev) : rst := run (init l0) evs.

  (* ---- public views ------------------------------------------------------ *)
  (* failed = set(self._tracebacks) - set(self._to_retry) *)
  Definition failed (s : rst) : list nat :=
    filter (fun pid => negb (amem pid (retry s))) (akeys (tbs s)).

  (* replay_log(learner, log) *)
  Definition apply_log (l : L) (e : logent) : L :=
    match e with
    | LAsk n => snd (l_ask lrn l n)
    | LTell x y => l_tell lrn l x y
    end.
  Definition replay_log (l : L) (lg : list logent) : L := fold_left apply_log lg l.

  (* history in chronological order *)
  Definition history (s : rst) : list tev := rev (tr s).
End Runner.

Arguments Err {V}.
Arguments LAsk {P V}.
Arguments TRemove {P V}. Arguments TCancel {P V}. Arguments TDone {P V}. Arguments TAsk {P V}. Arguments TSubmit {P V}.
Arguments Goal {V}. Arguments Cancel {V}. Arguments SubmitCancel {V}. Arguments WaitCancel {V}.
