(* Executable, purely combinatorial model of adaptive/learner/triangulation.py
   (class Triangulation).  Simplices are sorted lists of vertex indices; the
   vertex coordinates are an abstract type [P] (the model never looks at them).
   Every geometric predicate of the code -- point_in_cicumcircle, the pair of
   orientation tests of _extend_hull, _simplex_is_almost_flat, the barycentric
   classification of get_reduced_simplex and locate_point -- is an ORACLE whose
   answers are part of the operation.  Theorems quantify over all answers; for
   execution the harness records the answers of the real run.
   Python sets are lists used as sets (membership / insertion-if-absent);
   iteration order of a Python set is never observable in the results modelled
   here (the flood fill of bowyer_watson is confluent, see Proofs/TriProofs.v).
   No proofs here. *)
From AV Require Import Base.Prelude.
Set Implicit Arguments.

Definition simplex := list nat.

Definition simplex_eqb (a b : simplex) : bool := list_eqb Nat.eqb a b.
Definition smem (s : simplex) (l : list simplex) : bool := existsb (simplex_eqb s) l.
Definition sadd (s : simplex) (l : list simplex) : list simplex := if smem s l then l else l ++ [s].
Definition sremove (s : simplex) (l : list simplex) : list simplex :=
  filter (fun x => negb (simplex_eqb s x)) l.
Definition sunion (a b : list simplex) : list simplex := fold_left (fun acc x => sadd x acc) b a.
Definition sdiff (a b : list simplex) : list simplex := filter (fun x => negb (smem x b)) a.

Fixpoint upd_nth {A} (n : nat) (f : A -> A) (l : list A) {struct l} : list A :=
  match l with
  | [] => []
  | x :: l' => match n with 0 => f x :: l' | S n' => x :: upd_nth n' f l' end
  end.

Fixpoint remove_nth {A} (n : nat) (l : list A) {struct l} : list A :=
  match l with
  | [] => []
  | x :: l' => match n with 0 => l' | S n' => x :: remove_nth n' l' end
  end.

(* combinations(simplex, dim) for a simplex with dim+1 vertices: drop one vertex *)
Fixpoint drop_one (l : list nat) : list (list nat) :=
  match l with
  | [] => []
  | x :: l' => l' :: map (cons x) (drop_one l')
  end.
Definition all_faces (ss : list simplex) : list simplex := flat_map drop_one ss.
Definition count_face (f : simplex) (fs : list simplex) : nat := length (filter (simplex_eqb f) fs).
Definition inter_count (a b : simplex) : nat := length (filter (fun x => nat_mem x b) a).

(* answers of the geometric predicates during ONE add_point call *)
Record orc := mkorc {
  o_locate : simplex;             (* locate_point(point): a simplex of the triangulation or [] *)
  o_reduce : list nat;            (* get_reduced_simplex(point, simplex) *)
  o_visible : simplex -> bool;    (* _extend_hull: orientation_inside == -orientation_new_point, per hull face *)
  o_flat : simplex -> bool;       (* _simplex_is_almost_flat(simplex) *)
  o_incirc : simplex -> bool      (* point_in_cicumcircle(pt_index, simplex, transform) *)
}.

Inductive reject := OutsideSimplex | AlreadyVertex | InsideHull.
Inductive out :=
| Accepted (deleted added : list simplex)
| Rejected (why : reject)        (* the three ValueErrors of add_point *)
| Broken.                        (* RuntimeError of the hull property: a facet in more than 2 simplices *)

Section Tri.
  Variable P : Type.
  Variable d : nat.   (* dimension *)

  Record tri := mk {
    verts : list P;               (* vertices *)
    simplices : list simplex;     (* simplices : set of sorted tuples *)
    v2s : list (list simplex)     (* vertex_to_simplices : list of sets *)
  }.
  Definition nverts (t : tri) : nat := length (verts t).

  Definition add_simplex (t : tri) (s : simplex) : tri :=
    mk (verts t) (sadd s (simplices t))
       (fold_left (fun a v => upd_nth v (sadd s) a) s (v2s t)).

  Definition delete_simplex (t : tri) (s : simplex) : tri :=
    mk (verts t) (sremove s (simplices t))
       (fold_left (fun a v => upd_nth v (sremove s) a) s (v2s t)).

  (* Triangulation.__init__: vertices, empty index, then add_simplex for every
     simplex of the initial (scipy) triangulation *)
  Definition init (vs : list P) (ss : list simplex) : tri :=
    fold_left add_simplex ss (mk vs [] (map (fun _ => []) vs)).

  (* hull property / first lines of _extend_hull *)
  Definition broken_faces (fs : list simplex) : bool := existsb (fun f => 2 <? count_face f fs) fs.
  Definition hull_faces (fs : list simplex) : list simplex := filter (fun f => count_face f fs =? 1) fs.
  Definition hull (t : tri) : option (list nat) :=
    let fs := all_faces (simplices t) in
    if broken_faces fs then None
    else Some (fold_left (fun acc f => fold_left (fun a v => nat_insert v a) f acc) (hull_faces fs) []).

  Section OnePoint.
    Variable o : orc.
    Variable pt : nat.      (* index of the vertex being inserted *)

    (* the while-loop of bowyer_watson.  [queue.pop()] takes an arbitrary
       element; the result does not depend on the choice. *)
    Fixpoint bw_loop (fuel : nat) (t : tri) (queue done bad : list simplex) : tri * list simplex :=
      match fuel with
      | 0 => (t, bad)
      | S f =>
          match queue with
          | [] => (t, bad)
          | s :: q0 =>
              let q := sremove s q0 in
              let done' := sadd s done in
              if o_incirc o s then
                let t' := delete_simplex t s in
                let nb := flat_map (fun v => nth v (v2s t') []) s in           (* get_neighbors_from_vertices *)
                let nb := filter (fun x => negb (smem x done')) nb in          (* - done_simplices *)
                let nb := filter (fun x => inter_count x s =? d) nb in         (* get_face_sharing_neighbors *)
                bw_loop f t' (sunion q nb) done' (sadd s bad)
              else bw_loop f t q done' bad
          end
      end.

    Definition hole_faces (bad : list simplex) : list simplex :=
      let fs := all_faces bad in filter (fun f => count_face f fs <? 2) fs.

    Definition new_from_faces (faces : list simplex) : list simplex :=
      filter (fun s => negb (o_flat o s)) (map (nat_insert pt) faces).

    (* returns the state, bad_triangles and new_triangles *)
    Definition bowyer_watson (t : tri) (seed : list simplex) : tri * list simplex * list simplex :=
      let '(t1, bad) := bw_loop (length (simplices t) + length seed + 1) t seed [] [] in
      let faces := filter (fun f => negb (nat_mem pt f)) (hole_faces bad) in
      let t2 := fold_left add_simplex (new_from_faces faces) t1 in
      (t2, bad, nth pt (v2s t2) []).

    Definition hull_candidates (t : tri) : list simplex :=
      new_from_faces (filter (o_visible o) (hull_faces (all_faces (simplices t)))).
  End OnePoint.

  Definition add_point (t : tri) (p : P) (hint : option simplex) (o : orc) : tri * out :=
    let loc := match hint with Some s => s | None => o_locate o end in
    let pt := nverts t in
    let v2s1 := v2s t ++ [[]] in                 (* self.vertex_to_simplices.append(set()) *)
    match loc with
    | [] =>
        if broken_faces (all_faces (simplices t)) then (mk (verts t) (simplices t) v2s1, Broken)
        else
          let temp := hull_candidates o pt t in
          match temp with
          | [] => (mk (verts t) (simplices t) (remove_nth pt v2s1), Rejected InsideHull)
          | _ =>
              let t1 := fold_left add_simplex temp (mk (verts t ++ [p]) (simplices t) v2s1) in
              let '(t2, bad, newt) := bowyer_watson o pt t1 (nth pt (v2s t1) []) in
              let del0 := sdiff bad newt in
              let add0 := sdiff newt bad in
              (t2, Accepted (sdiff del0 temp) (sunion add0 (sdiff temp del0)))
          end
    | _ =>
        match o_reduce o with
        | [] => (mk (verts t) (simplices t) (removelast v2s1), Rejected OutsideSimplex)
        | [_] => (mk (verts t) (simplices t) (removelast v2s1), Rejected AlreadyVertex)
        | _ =>
            let t1 := mk (verts t ++ [p]) (simplices t) v2s1 in
            let '(t2, bad, newt) := bowyer_watson o pt t1 [loc] in
            (t2, Accepted (sdiff bad newt) (sdiff newt bad))
        end
    end.

  Inductive op := AddPoint (p : P) (hint : option simplex) (o : orc).

  Definition step (t : tri) (x : op) : tri * out :=
    match x with AddPoint p hint o => add_point t p hint o end.

  Definition run (t : tri) (h : list op) : tri := fold_left (fun t x => fst (step t x)) h t.

  (* quantifier domain: the located / hinted simplex is a simplex of the
     triangulation (locate_point only returns such; LearnerND checks
     _simplex_exists before passing a hint) *)
  Definition legal_op (t : tri) (x : op) : bool :=
    match x with
    | AddPoint _ hint o =>
        match (match hint with Some s => s | None => o_locate o end) with
        | [] => true
        | s => smem s (simplices t)
        end
    end.

  Fixpoint legal (t : tri) (h : list op) : bool :=
    match h with
    | [] => true
    | x :: h' => legal_op t x && legal (fst (step t x)) h'
    end.
End Tri.

Arguments AddPoint {P}.
