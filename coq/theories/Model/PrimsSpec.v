(* Reference notions the C20 theorems are stated against -- written from the
   property text, independent of the traced code.  Definitions only. *)
From Coq Require Import Reals.
Local Open Scope R_scope.

Definition sq (x : R) : R := x * x.

(* Leibniz determinants *)
Definition det2 (a b c d : R) : R := a * d - b * c.
Definition det3 (a b c d e f g h i : R) : R :=
  a * e * i + b * f * g + c * d * h - c * e * g - b * d * i - a * f * h.
Definition det4 (a11 a12 a13 a14 a21 a22 a23 a24 a31 a32 a33 a34 a41 a42 a43 a44 : R) : R :=
    a11 * det3 a22 a23 a24 a32 a33 a34 a42 a43 a44
  - a12 * det3 a21 a23 a24 a31 a33 a34 a41 a43 a44
  + a13 * det3 a21 a22 a24 a31 a32 a34 a41 a42 a44
  - a14 * det3 a21 a22 a23 a31 a32 a33 a41 a42 a43.

(* squared Euclidean distances *)
Definition dist2_2 (ax ay bx b_y : R) : R := sq (ax - bx) + sq (ay - b_y).
Definition dist2_3 (ax ay az bx b_y bz : R) : R := sq (ax - bx) + sq (ay - b_y) + sq (az - bz).

(* mathematical reading of np.hypot *)
Definition hyp (a b : R) : R := sqrt (a * a + b * b).

(* area of the planar triangle a b c *)
Definition tri_area (ax ay bx b_y cx cy : R) : R :=
  Rabs (det2 (bx - ax) (b_y - ay) (cx - ax) (cy - ay)) / 2.

(* squared area of the triangle a b c in R^3: |(b-a) x (c-a)|^2 / 4 *)
Definition tri_area2_3 (a0 a1 a2 b0 b1 b2 c0 c1 c2 : R) : R :=
  (sq (det2 (b1 - a1) (b2 - a2) (c1 - a1) (c2 - a2))
   + sq (det2 (b2 - a2) (b0 - a0) (c2 - a2) (c0 - a0))
   + sq (det2 (b0 - a0) (b1 - a1) (c0 - a0) (c1 - a1))) / 4.

(* squared area of a triangle in R^4: Gram determinant / 4 *)
Definition dot4 (u0 u1 u2 u3 v0 v1 v2 v3 : R) : R := u0 * v0 + u1 * v1 + u2 * v2 + u3 * v3.
Definition tri_area2_4 (a0 a1 a2 a3 b0 b1 b2 b3 c0 c1 c2 c3 : R) : R :=
  (dot4 (b0 - a0) (b1 - a1) (b2 - a2) (b3 - a3) (b0 - a0) (b1 - a1) (b2 - a2) (b3 - a3)
   * dot4 (c0 - a0) (c1 - a1) (c2 - a2) (c3 - a3) (c0 - a0) (c1 - a1) (c2 - a2) (c3 - a3)
   - sq (dot4 (b0 - a0) (b1 - a1) (b2 - a2) (b3 - a3) (c0 - a0) (c1 - a1) (c2 - a2) (c3 - a3))) / 4.

Definition mid (a b : R) : R := (a + b) / 2.
