(* Number structure shared by the averaging-learner models (Model/Avg.v,
   Model/Avg1D.v): one function text, executed with IEEE-754 binary64
   ([FloatOps], Coq primitive floats) and reasoned about over the reals
   (instance [ROps] in Proofs/AvgProofs.v).  No proofs, no Reals here. *)
From Coq Require Import ZArith PrimFloat.
From AV Require Import Base.Prelude Base.FloatUtil.
Set Implicit Arguments.

Record NumOps := mkNumOps {
  num : Type;
  n_zero : num;
  n_inf : num;                       (* np.inf / float("inf") *)
  n_add : num -> num -> num;
  n_sub : num -> num -> num;
  n_mul : num -> num -> num;
  n_div : num -> num -> num;         (* divisor known non-zero wherever the model uses it *)
  n_sqrt : num -> num;               (* math.sqrt (correctly rounded) *)
  n_sq : num -> num;                 (* Python's  x ** 2  (libm pow for floats) *)
  n_abs : num -> num;
  n_ltb : num -> num -> bool;        (* a < b *)
  n_leb : num -> num -> bool;        (* a <= b *)
  n_eqb : num -> num -> bool;        (* a == b *)
  n_finite : num -> bool;            (* np.isfinite *)
  n_of_nat : nat -> num              (* int -> float conversion *)
}.

(* Python's max(a, b): keeps [a] unless [b > a] (matters for nan) *)
Definition pymax (N : NumOps) (a b : num N) : num N := if n_ltb N a b then b else a.

(* IEEE doubles.  [x ** 2] on a Python float is C [pow(x, 2.0)], which on this
   glibc differs from the correctly rounded [x * x] for about 0.085 % of the
   arguments; the harness records those exceptions (argument, result) by
   calling Python's own [**] and passes them as [sqx]. *)
Definition fsq (sqx : list (float * float)) (x : float) : float :=
  match find (fun e => feqb (fst e) x) sqx with
  | Some e => snd e
  | None => PrimFloat.mul x x
  end.

Definition FloatOps (sqx : list (float * float)) : NumOps :=
  mkNumOps PrimFloat.zero PrimFloat.infinity
           PrimFloat.add PrimFloat.sub PrimFloat.mul PrimFloat.div
           PrimFloat.sqrt (fsq sqx) PrimFloat.abs
           PrimFloat.ltb PrimFloat.leb PrimFloat.eqb
           (fun x => negb (PrimFloat.is_nan x) && negb (PrimFloat.is_infinity x))
           nat2f.
