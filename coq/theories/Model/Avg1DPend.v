(* Pending-point overlay for Model/Avg1D.v (owned by C16, unchanged): the
   model of AverageLearner1D's sample bookkeeping has no [pending_points];
   properties C09 / C10 talk about them, so this file adds exactly that
   component and the operations that touch it.  No proofs here.

     pending_points : set of (seed, x)      -- list without ==-duplicates,
                                               insertion order (order is not observable)

   adaptive/learner/average_learner1D.py:
     tell_pending((seed, x))  pending_points.add((seed, x))     [then interval losses: not modelled]
     tell((seed, x), y)       [data update]; pending_points.discard((seed, x))
     tell_many_at_point(x, m) bounds check (raises first); discard (seed, x) for every seed of m; [data update]
     tell_many(xs, ys)        bounds check (raises first); tell / tell_many_at_point per abscissa:
                              every (seed, x) of xs is discarded
     ask(n, tell_pending)     points as computed by Model/Avg1D.ask (pure: _ask_for_more_samples /
                              _ask_points_without_adding touch nothing); if tell_pending: tell_pending(p) for each
     remove_unfinished()      inherited from Learner1D: pending_points = set()   [+ combined losses: not modelled]

   Equality of keys is Python's == on (int, float) tuples: seeds equal and
   abscissae [n_eqb]-equal.  The interval-loss machinery, hence loss(), is not
   part of Model/Avg1D.v and not part of this overlay. *)
From AV Require Import Base.Prelude Model.AvgNum Model.Avg1D.
Set Implicit Arguments.

Section Avg1DPend.
  Variable N : NumOps.
  Notation num := (num N).
  Variable tppf : nat -> num.

  Definition key := (nat * num)%type.
  Definition keqb (k q : key) : bool := (fst k =? fst q) && n_eqb N (snd k) (snd q).
  Definition pmem (k : key) (p : list key) : bool := existsb (keqb k) p.
  Definition padd (k : key) (p : list key) : list key := if pmem k p then p else p ++ [k].
  Definition premove (k : key) (p : list key) : list key := filter (fun q => negb (keqb k q)) p.
  Definition premove_all (ks : list key) (p : list key) : list key := fold_left (fun p k => premove k p) ks p.
  Definition padd_all (ks : list key) (p : list key) : list key := fold_left (fun p k => padd k p) ks p.

  Record pst := mkp { base : st N; pend : list key }.
  Definition pinit : pst := mkp (init N) [].

  Inductive pop :=
  | PAsk (n : nat) (commit : bool) (hint : list key)
  | PTell (seed : nat) (x y : num)
  | PTellManyAt (x : num) (l : list (nat * num)) (m : num)
  | PTellMany (l : list (nat * num * num)) (hints : list num)
  | PTellPending (k : key)
  | PRemoveUnfinished.

  Definition asked (o : out N) : list key := match o with Asked pts => pts | _ => [] end.

  Definition tell_pending (s : pst) (k : key) : pst := mkp (base s) (padd k (pend s)).

  Definition pask (s : pst) (n : nat) (commit : bool) (hint : list key) : pst * out N :=
    let o := ask (base s) n hint in
    ((if commit then fold_left tell_pending (asked o) s else s), o).

  Definition keys_at (x : num) (l : list (nat * num)) : list key := map (fun sy => (fst sy, x)) l.
  Definition keys_of (l : list (nat * num * num)) : list key := map (fun e => (fst (fst e), snd (fst e))) l.

  Definition pstep (c : cfg N) (s : pst) (o : pop) : pst * out N :=
    match o with
    | PAsk n commit hint => pask s n commit hint
    | PTell seed x y => (mkp (tell tppf c (base s) seed x y) (premove (seed, x) (pend s)), Done)
    | PTellManyAt x l m =>
        let r := tell_many_at tppf c (base s) x l m in
        (mkp (fst r) (if in_bounds c x then premove_all (keys_at x l) (pend s) else pend s), snd r)
    | PTellMany l hints =>
        let r := tell_many tppf c (base s) l hints in
        (mkp (fst r) (if forallb (fun e => in_bounds c (snd (fst e))) l
                      then premove_all (keys_of l) (pend s) else pend s), snd r)
    | PTellPending k => (tell_pending s k, Done)
    | PRemoveUnfinished => (mkp (base s) [], Done)
    end.

  Definition prun (c : cfg N) (s : pst) (h : list pop) : pst :=
    fold_left (fun s o => fst (pstep c s o)) h s.
  Definition preach (c : cfg N) (h : list pop) : pst := prun c pinit h.

  (* the operation as Model/Avg1D.v sees it *)
  Definition base_op (o : pop) : list (op N) :=
    match o with
    | PAsk n _ hint => [Ask N n hint]
    | PTell seed x y => [Tell N seed x y]
    | PTellManyAt x l m => [TellManyAt N x l m]
    | PTellMany l hints => [TellMany N l hints]
    | PTellPending _ | PRemoveUnfinished => []
    end.
  Definition base_ops (h : list pop) : list (op N) := flat_map base_op h.

  (* ---- specification-side vocabulary ---- *)
  Definition samples_at (x : num) (s : st N) : list (nat * num) :=
    match find_pt x s with Some p => samples p | None => [] end.
  Definition seeds_at (x : num) (s : st N) : list nat := map fst (samples_at x s).
  (* (seed, x) has a value *)
  Definition toldb (s : st N) (k : key) : bool := nat_mem (fst k) (seeds_at (snd k) s).

  (* tell of one sample into the samples held at an abscissa: first value kept *)
  Definition add1 (d : list (nat * num)) (sy : nat * num) : list (nat * num) :=
    if nat_mem (fst sy) (map fst d) then d else d ++ [sy].

  (* tell_many = its tell / tell_many_at_point calls (C16_1d_tell_many_expands) *)
  Definition flat1 (o : op N) : list (op N) :=
    match o with TellMany _ l hs => group_ops N (groups N l) hs | _ => [o] end.
  Definition flat (h : list (op N)) : list (op N) := flat_map flat1 h.

  (* the samples told at (an abscissa == to) x along a flat history, each seed
     with the value of its first tell, in order of first tell *)
  Definition spec_step (x : num) (acc : list (nat * num)) (o : op N) : list (nat * num) :=
    match o with
    | Tell _ seed x0 y => if n_eqb N x x0 then add1 acc (seed, y) else acc
    | TellManyAt _ x0 l _ => if n_eqb N x x0 then fold_left add1 l acc else acc
    | _ => acc
    end.
  Definition spec_samples (h : list (op N)) (x : num) : list (nat * num) :=
    fold_left (spec_step x) h [].

  (* every (seed, x) told along a flat history *)
  Definition told_keys_op (o : op N) : list key :=
    match o with
    | Tell _ seed x _ => [(seed, x)]
    | TellManyAt _ x l _ => keys_at x l
    | _ => []
    end.
  Definition told_set (h : list (op N)) : list key := padd_all (flat_map told_keys_op h) [].

  (* all seeds at every abscissa are below the count there (F22's trigger is
     the negation: samples with non-consecutive seeds) *)
  Definition consecb (s : st N) : bool :=
    forallb (fun p => forallb (fun k => k <? pcount p) (seeds p)) s.

  (* tell_pending is only used on points without a value (DESIGN section 7 C10) *)
  Definition polite_op (s : pst) (o : pop) : bool :=
    match o with PTellPending k => negb (toldb (base s) k) | _ => true end.

  (* along the history: politeness, and consecutive seeds whenever a
     committing ask is made *)
  Fixpoint polite (c : cfg N) (s : pst) (h : list pop) : bool :=
    match h with
    | [] => true
    | o :: h' => polite_op s o && polite c (fst (pstep c s o)) h'
    end.
  Fixpoint consec_at_asks (c : cfg N) (s : pst) (h : list pop) : bool :=
    match h with
    | [] => true
    | o :: h' => (match o with PAsk _ true _ => consecb (base s) | _ => true end)
                 && consec_at_asks c (fst (pstep c s o)) h'
    end.
End Avg1DPend.

Arguments PRemoveUnfinished {N}.
Arguments PAsk {N}. Arguments PTell {N}. Arguments PTellManyAt {N}. Arguments PTellMany {N}.
Arguments PTellPending {N}.
Arguments add1 {N} d sy. Arguments keys_at {N} x l. Arguments keys_of {N} l.
